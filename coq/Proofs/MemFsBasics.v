(* Proofs/MemFsBasics.v — basic facts about the MemMapFs model used by the wrapper theorems:
   which steps leave the stored filesystem (path map + nodes) unchanged. *)
From AF Require Import Lib.Bytes Lib.Path Lib.Ops Gen.Consts Model.MemFile Model.MemFs Model.ReadOnly.
Local Open Scope Z_scope.

(* everything the filesystem holds: the path map and all nodes (not handles, not the clock) *)
Definition fs_view (s : mst) : list (str * nat) * list node := (mdata s, mheap s).

Lemma snapshot_of_view s t : fs_view s = fs_view t -> snapshot s = snapshot t.
Proof.
  unfold fs_view, snapshot, get_node. intros H. inversion H as [[Hd Hh]]. now rewrite Hd, Hh.
Qed.

Lemma view_set_handle s i h : fs_view (set_handle s i h) = fs_view s.
Proof. reflexivity. Qed.
Lemma view_alloc_handle s h : fs_view (fst (alloc_handle s h)) = fs_view s.
Proof. reflexivity. Qed.

(* a handle that can never change the file: read-only or closed *)
Definition inert (h : hnd) : bool := hro h || hclosed h.

Lemma f_write_inert data h b : inert h = true -> fst (fst (f_write data h b)) = None.
Proof.
  unfold inert, f_write. destruct (hclosed h); [reflexivity|]. rewrite orb_false_r. intros ->. reflexivity.
Qed.

Lemma f_writeat_inert data h b off : inert h = true -> fst (fst (f_writeat data h b off)) = None.
Proof.
  unfold f_writeat. intros Hi. destruct (off <? 0); [reflexivity|].
  pose proof (f_write_inert data (set_at h off) b) as Hw.
  assert (Hi' : inert (set_at h off) = true) by exact Hi.
  specialize (Hw Hi'). destruct (f_write data (set_at h off) b) as [[d h1] r]. exact Hw.
Qed.

Lemma f_truncate_inert data h n : inert h = true -> fst (f_truncate data h n) = None.
Proof.
  unfold inert, f_truncate. destruct (hclosed h); [reflexivity|]. rewrite orb_false_r. intros ->. reflexivity.
Qed.

(* inertness is preserved by every file-level operation *)
Lemma f_read_inert data h n : inert (fst (f_read data h n)) = inert h.
Proof.
  unfold f_read. destruct (hclosed h) eqn:Hc; [reflexivity|].
  repeat match goal with |- context [if ?c then _ else _] => destruct c end; reflexivity.
Qed.
Lemma f_readat_inert data h n off : inert (fst (f_readat data h n off)) = inert h.
Proof.
  unfold f_readat. destruct (off <? 0); [reflexivity|].
  pose proof (f_read_inert data (set_at h off) n) as Hr.
  destruct (f_read data (set_at h off) n) as [h1 r]. cbn [fst] in Hr.
  assert (inert (set_at h1 (hat h)) = inert h) by (unfold inert in *; cbn in *; exact Hr).
  destruct r; try exact H. destruct e; try exact H. destruct (zlen b <? n); exact H.
Qed.
Lemma f_seek_inert data h off wh : inert (fst (f_seek data h off wh)) = inert h.
Proof.
  unfold f_seek. destruct (hclosed h); [reflexivity|].
  match goal with |- context [if ?c then _ else _] => destruct c end; reflexivity.
Qed.
Lemma f_write_inert_h data h b : inert (snd (fst (f_write data h b))) = inert h.
Proof.
  unfold f_write. repeat match goal with |- context [if ?c then _ else _] => destruct c end; reflexivity.
Qed.
Lemma f_writeat_inert_h data h b off : inert (snd (fst (f_writeat data h b off))) = inert h.
Proof.
  unfold f_writeat. destruct (off <? 0); [reflexivity|].
  pose proof (f_write_inert_h data (set_at h off) b) as Hw.
  destruct (f_write data (set_at h off) b) as [[d h1] r]. cbn in *. exact Hw.
Qed.

Definition all_inert (s : mst) : Prop := forall i h, nth_error (mhandles s) i = Some h -> inert h = true.

(* operations that only read, given that every handle is inert: exactly the calls a
   ReadOnlyFs forwards *)
Definition reading_op (o : op) : bool := ro_passes o.

Lemma land_sub f m c : Z.land m c = c -> Z.land f m = 0 -> Z.land f c = 0.
Proof. intros Hc Hf. rewrite <- Hc, Z.land_assoc, Hf. apply Z.land_0_l. Qed.

(* the only facts about the source constants these proofs need *)
Lemma ro_mask_create : Z.land readonly_mask o_create = o_create. Proof. reflexivity. Qed.
Lemma ro_mask_trunc : Z.land readonly_mask o_trunc = o_trunc. Proof. reflexivity. Qed.
Lemma ro_mask_access : Z.land readonly_mask memfs_access_mask = memfs_access_mask. Proof. reflexivity. Qed.

Lemma flag_has_false flag bit : Z.land flag bit = 0 -> flag_has flag bit = false.
Proof. unfold flag_has. intros ->. reflexivity. Qed.

Lemma nth_error_list_set {A} (l : list A) i v j x :
  nth_error (list_set i v l) j = Some x -> x = v \/ nth_error l j = Some x.
Proof.
  revert i j. induction l as [|y l IH]; intros i j Hj.
  - destruct i; cbn in Hj; destruct j; discriminate.
  - destruct i as [|i]; cbn [list_set] in Hj.
    + destruct j as [|j]; cbn in Hj |- *; [left; now inversion Hj | right; exact Hj].
    + destruct j as [|j]; cbn in Hj |- *; [right; exact Hj | now apply (IH i j)].
Qed.

Lemma all_inert_set s i h : all_inert s -> inert h = true -> all_inert (set_handle s i h).
Proof.
  intros Ha Hh j hj Hj. unfold set_handle in Hj. cbn [mhandles] in Hj.
  apply nth_error_list_set in Hj as [->|Hj]; [exact Hh | now apply (Ha j)].
Qed.

Lemma all_inert_alloc s h : all_inert s -> inert h = true -> all_inert (fst (alloc_handle s h)).
Proof.
  intros Ha Hh j hj. unfold alloc_handle. cbn [fst mhandles]. intros Hj.
  destruct (Nat.lt_ge_cases j (length (mhandles s))) as [Hlt|Hge].
  - rewrite nth_error_app1 in Hj by exact Hlt. now apply (Ha j).
  - rewrite nth_error_app2 in Hj by exact Hge.
    destruct (j - length (mhandles s))%nat as [|k]; cbn in Hj; [inversion Hj; subst; exact Hh|].
    destruct k; discriminate.
Qed.

Lemma all_inert_view s t : mhandles s = mhandles t -> all_inert s -> all_inert t.
Proof. unfold all_inert. intros <-. auto. Qed.

Lemma m_hop_inert s i (k : hnd -> node -> mst * res) :
  all_inert s ->
  (forall h nd, nth_error (mhandles s) i = Some h -> inert h = true ->
     fs_view (fst (k h nd)) = fs_view s /\ all_inert (fst (k h nd))) ->
  fs_view (fst (m_hop s i k)) = fs_view s /\ all_inert (fst (m_hop s i k)).
Proof.
  intros Ha Hk. unfold m_hop. destruct (nth_error (mhandles s) i) as [h|] eqn:Hh; [|now split].
  destruct (get_node s (href h)) as [nd|]; [|now split].
  apply Hk; [reflexivity | now apply (Ha i)].
Qed.

Lemma put_data_none s f : put_data s f None = s.
Proof. reflexivity. Qed.

Theorem reading_step_raw s o :
  reading_op o = true -> all_inert s ->
  fs_view (fst (m_step_raw s o)) = fs_view s /\ all_inert (fst (m_step_raw s o)).
Proof.
  intros Hr Ha. destruct o; try discriminate Hr; cbn [m_step_raw].
  - (* Open *) unfold m_open. destruct (lookup s (normalize_path p)); [|now split].
    split; [reflexivity|]. now apply all_inert_alloc.
  - (* OpenFile *)
    cbn [reading_op] in Hr. apply Z.eqb_eq in Hr.
    assert (Hc : flag_has flag o_create = false) by (apply flag_has_false, (land_sub _ _ _ ro_mask_create Hr)).
    assert (Ht : flag_has flag o_trunc = false) by (apply flag_has_false, (land_sub _ _ _ ro_mask_trunc Hr)).
    assert (Hro : Z.land flag memfs_access_mask =? 0 = true) by (apply Z.eqb_eq, (land_sub _ _ _ ro_mask_access Hr)).
    unfold m_openfile. rewrite Hc, Ht, Hro, andb_false_r. cbn [andb negb].
    destruct (lookup s (normalize_path p)) as [f|]; [|now split].
    cbn [andb]. split; [reflexivity|]. now apply all_inert_alloc.
  - (* Stat *) unfold m_stat. destruct (lookup s (normalize_path p)); [|now split].
    destruct (get_node s n); now split.
  - (* HRead *) apply m_hop_inert; [exact Ha|]. intros hd nd Hh Hi.
    pose proof (f_read_inert (ndata nd) hd n) as Hx. destruct (f_read (ndata nd) hd n) as [h' r]. cbn [fst] in *.
    split; [reflexivity|]. apply all_inert_set; [exact Ha | now rewrite Hx].
  - (* HReadAt *) apply m_hop_inert; [exact Ha|]. intros hd nd Hh Hi.
    pose proof (f_readat_inert (ndata nd) hd n off) as Hx. destruct (f_readat (ndata nd) hd n off) as [h' r]. cbn [fst] in *.
    split; [reflexivity|]. apply all_inert_set; [exact Ha | now rewrite Hx].
  - (* HWrite *) apply m_hop_inert; [exact Ha|]. intros hd nd Hh Hi.
    pose proof (f_write_inert (ndata nd) hd b Hi) as Hd. pose proof (f_write_inert_h (ndata nd) hd b) as Hx.
    destruct (f_write (ndata nd) hd b) as [[d h'] r]. cbn [fst snd] in *. subst d. rewrite put_data_none.
    split; [reflexivity|]. apply all_inert_set; [exact Ha | now rewrite Hx].
  - (* HWriteAt *) apply m_hop_inert; [exact Ha|]. intros hd nd Hh Hi.
    pose proof (f_writeat_inert (ndata nd) hd b off Hi) as Hd. pose proof (f_writeat_inert_h (ndata nd) hd b off) as Hx.
    destruct (f_writeat (ndata nd) hd b off) as [[d h'] r]. cbn [fst snd] in *. subst d. rewrite put_data_none.
    split; [reflexivity|]. apply all_inert_set; [exact Ha | now rewrite Hx].
  - (* HWriteString *) apply m_hop_inert; [exact Ha|]. intros hd nd Hh Hi.
    pose proof (f_write_inert (ndata nd) hd b Hi) as Hd. pose proof (f_write_inert_h (ndata nd) hd b) as Hx.
    destruct (f_write (ndata nd) hd b) as [[d h'] r]. cbn [fst snd] in *. subst d. rewrite put_data_none.
    split; [reflexivity|]. apply all_inert_set; [exact Ha | now rewrite Hx].
  - (* HSeek *) apply m_hop_inert; [exact Ha|]. intros hd nd Hh Hi.
    pose proof (f_seek_inert (ndata nd) hd off whence) as Hx. destruct (f_seek (ndata nd) hd off whence) as [h' r]. cbn [fst] in *.
    split; [reflexivity|]. apply all_inert_set; [exact Ha | now rewrite Hx].
  - (* HTruncate *) apply m_hop_inert; [exact Ha|]. intros hd nd Hh Hi.
    pose proof (f_truncate_inert (ndata nd) hd n Hi) as Hd.
    destruct (f_truncate (ndata nd) hd n) as [d r]. cbn [fst] in *. subst d. rewrite put_data_none. now split.
  - (* HClose *) apply m_hop_inert; [exact Ha|]. intros hd nd Hh Hi.
    destruct (hclosed hd) eqn:Hc; [now split|].
    unfold inert in Hi. rewrite Hc, orb_false_r in Hi. rewrite Hi. cbn [fst].
    split; [reflexivity|]. apply all_inert_set; [exact Ha|]. unfold inert. cbn. apply orb_true_r.
  - (* HReaddir *) apply m_hop_inert; [exact Ha|]. intros hd nd Hh Hi.
    assert (Hm : forall c, fs_view (fst (fst (m_readdir s h hd c))) = fs_view s /\ all_inert (fst (fst (m_readdir s h hd c)))).
    { intros c. unfold m_readdir. destruct (get_node s (href hd)) as [n0|]; [|now split].
      destruct (negb (ndir n0)); [now split|]. cbn [fst]. split; [reflexivity|].
      apply all_inert_set; [exact Ha | exact Hi]. }
    specialize (Hm n). destruct (m_readdir s h hd n) as [[s1 infos] e]. cbn [fst] in Hm.
    destruct e as [er|]; [destruct infos; [destruct (errk_eqb (ek er) KEOF)|]|]; exact Hm.
  - (* HReaddirnames *) apply m_hop_inert; [exact Ha|]. intros hd nd Hh Hi.
    assert (Hm : forall c, fs_view (fst (fst (m_readdir s h hd c))) = fs_view s /\ all_inert (fst (fst (m_readdir s h hd c)))).
    { intros c. unfold m_readdir. destruct (get_node s (href hd)) as [n0|]; [|now split].
      destruct (negb (ndir n0)); [now split|]. cbn [fst]. split; [reflexivity|].
      apply all_inert_set; [exact Ha | exact Hi]. }
    specialize (Hm n). destruct (m_readdir s h hd n) as [[s1 infos] e]. cbn [fst] in Hm.
    destruct e as [er|]; [destruct infos; [destruct (errk_eqb (ek er) KEOF)|]|]; exact Hm.
  - (* HStat *) apply m_hop_inert; [exact Ha|]. intros; now split.
  - (* HName *) apply m_hop_inert; [exact Ha|]. intros; now split.
  - (* HSync *) apply m_hop_inert; [exact Ha|]. intros; now split.
Qed.

Theorem reading_step s o :
  reading_op o = true -> all_inert s ->
  fs_view (fst (m_step s o)) = fs_view s /\ all_inert (fst (m_step s o)).
Proof.
  intros Hr Ha. unfold m_step. pose proof (reading_step_raw s o Hr Ha) as [Hv Hi].
  destruct (m_step_raw s o) as [s1 r]. cbn [fst] in *. split; [exact Hv|].
  eapply all_inert_view; [|exact Hi]. reflexivity.
Qed.
