(* Proofs/CacheFrames.v — C11: how one call of MemMapFs changes the path map and the nodes of a well-formed
   state, in the form the invariant of the caching filesystem needs (Proofs/CacheInv.v: Frame). *)
From AF Require Import Lib.Bytes Lib.Path Lib.Ops Gen.Consts Model.MemFile Model.MemFs Model.WfOps Model.Union Model.Cow
  Model.Cache Proofs.MemFsBasics Proofs.MemFsPath Proofs.MemFsWF Proofs.MemBelow Proofs.MemFsStep Proofs.MemFsInv
  Proofs.MemFsRename Proofs.CacheProof Proofs.CacheReady Proofs.CacheInv.
Local Open Scope Z_scope.

(* ---------- frames compose ---------- *)
Definition rcomp (r1 r2 : str -> option str) (k' : str) : option str := match r2 k' with Some k => r1 k | None => None end.

Lemma fresh_mono a b r : (length (mheap a) <= length (mheap b))%nat -> fresh_in b r -> fresh_in a r.
Proof. unfold fresh_in. lia. Qed.

Lemma frame_comp r1 r2 a b c : Frame r1 a b -> Frame r2 b c -> Frame (rcomp r1 r2) a c.
Proof.
  intros F1 F2. split.
  - intros k'. unfold rcomp. destruct (fr_keys _ _ _ F2 k') as [E|(E & r & Hl & Hf)].
    + destruct (r2 k') as [k|]; [|left; exact E]. cbn [olookup] in E. rewrite E.
      destruct (fr_keys _ _ _ F1 k) as [E1|(E1 & r & Hl & Hf)]; [now left | right; split; [exact E1 | now exists r]].
    + right. split.
      * destruct (r2 k') as [k|]; [|reflexivity]. cbn [olookup] in E.
        destruct (fr_keys _ _ _ F1 k) as [E1|(E1 & _)]; [congruence | exact E1].
      * exists r. split; [exact Hl | exact (fresh_mono _ _ _ (fr_heap _ _ _ F1) Hf)].
  - intros r n Hn. destruct (fr_nodes _ _ _ F1 r n Hn) as (n1 & Hn1 & Hd1 & Hk1).
    destruct (fr_nodes _ _ _ F2 r n1 Hn1) as (n2 & Hn2 & Hd2 & Hk2).
    exists n2. split; [exact Hn2|]. split; [congruence|]. intros Hd. rewrite Hk2 by congruence. now apply Hk1.
  - intros k' r n' Hl Hf Hn' Hd. destruct (fresh_or_old b r) as [Hfb|(nb & Hnb)].
    + exact (fr_fresh _ _ _ F2 k' r n' Hl Hfb Hn' Hd).
    + pose proof (frame_old _ _ _ _ _ _ F2 Hl Hnb) as Ho. destruct (r2 k') as [k|]; [|discriminate Ho]. cbn [olookup] in Ho.
      destruct (fr_nodes _ _ _ F2 r nb Hnb) as (n2 & Hn2 & Hd2 & Hk2). rewrite Hn' in Hn2. inversion Hn2; subst n2.
      rewrite Hk2 by congruence. apply (fr_fresh _ _ _ F1 k r nb Ho Hf Hnb). congruence.
  - pose proof (fr_heap _ _ _ F1). pose proof (fr_heap _ _ _ F2). lia.
Qed.

(* only what the renamed names denote matters *)
Lemma frame_ext_lookup r r' s s' : (forall k, olookup s (r k) = olookup s (r' k)) -> Frame r s s' -> Frame r' s s'.
Proof.
  intros E [H1 H2 H3 H4]. split; auto. intros k'. rewrite <- E. apply H1.
Qed.
Lemma frame_ext r r' s s' : (forall k, r k = r' k) -> Frame r s s' -> Frame r' s s'.
Proof. intros E. apply frame_ext_lookup. intros k. now rewrite E. Qed.

Lemma frame_comp_id r a b c : Frame r a b -> Frame Some b c -> Frame r a c.
Proof. intros F1 F2. eapply frame_ext; [|exact (frame_comp _ _ _ _ _ F1 F2)]. intros k. reflexivity. Qed.
Lemma frame_id_comp r a b c : Frame Some a b -> Frame r b c -> Frame r a c.
Proof. intros F1 F2. eapply frame_ext; [|exact (frame_comp _ _ _ _ _ F1 F2)]. intros k. unfold rcomp. now destruct (r k). Qed.

(* ---------- elementary frames ---------- *)
Lemma frame_view s s' : mdata s' = mdata s -> mheap s' = mheap s -> Frame Some s s'.
Proof.
  intros Hd Hh. split.
  - intros k. left. unfold lookup. cbn [olookup]. unfold lookup. now rewrite Hd.
  - intros r n Hn. exists n. unfold get_node in *. rewrite Hh. auto.
  - intros k r n' _ Hf Hn'. exfalso. unfold fresh_in in Hf. unfold get_node in Hn'. rewrite Hh in Hn'.
    apply nth_error_lt in Hn'. lia.
  - now rewrite Hh.
Qed.
Lemma frame_refl s : Frame Some s s.
Proof. now apply frame_view. Qed.
Lemma frame_bump s : Frame Some s (bump s).
Proof. now apply frame_view. Qed.

(* an update of one node that keeps its kind, and its content when it is a directory *)
Lemma frame_upd_at s x g :
  (forall n, get_node s x = Some n -> ndir (g n) = ndir n /\ (ndir n = true -> ndata (g n) = ndata n)) -> Frame Some s (upd_node s x g).
Proof.
  intros Hg. split.
  - intros k. left. cbn [olookup]. apply MemFsWF.lookup_upd.
  - intros r n Hn. rewrite get_upd. destruct (Nat.eqb x r) eqn:E.
    + apply Nat.eqb_eq in E. subst r. rewrite Hn. cbn. exists (g n). destruct (Hg n Hn). auto.
    + exists n. auto.
  - intros k r n' _ Hf Hn'. exfalso. apply get_some_lt in Hn'. rewrite mheap_upd_len in Hn'. unfold fresh_in in Hf. lia.
  - rewrite mheap_upd_len. lia.
Qed.
Lemma frame_upd s x g :
  (forall n, ndir (g n) = ndir n /\ (ndir n = true -> ndata (g n) = ndata n)) -> Frame Some s (upd_node s x g).
Proof.
  intros Hg. split.
  - intros k. left. cbn [olookup]. apply MemFsWF.lookup_upd.
  - intros r n Hn. rewrite get_upd. destruct (Nat.eqb x r) eqn:E.
    + apply Nat.eqb_eq in E. subst r. rewrite Hn. cbn. exists (g n). destruct (Hg n). auto.
    + exists n. auto.
  - intros k r n' _ Hf Hn'. exfalso. apply get_some_lt in Hn'. rewrite mheap_upd_len in Hn'. unfold fresh_in in Hf. lia.
  - rewrite mheap_upd_len. lia.
Qed.

(* ---------- which nodes keep their bytes ---------- *)
Definition dkeep (X : nat -> Prop) (s s' : mst) : Prop :=
  forall r n n', get_node s r = Some n -> get_node s' r = Some n' -> ~ X r -> ndata n' = ndata n.
Definition nobody : nat -> Prop := fun _ => False.
Definition only (x : nat) : nat -> Prop := fun r => r = x.

Lemma dkeep_view X s s' : mheap s' = mheap s -> dkeep X s s'.
Proof. intros Hh r n n' Hn Hn' _. unfold get_node in *. rewrite Hh in Hn'. congruence. Qed.
Lemma dkeep_trans X a b c : kkeep a b -> dkeep X a b -> dkeep X b c -> dkeep X a c.
Proof.
  intros K H1 H2 r n n' Hn Hn' HX. destruct (K r n Hn) as (nb & Hnb & _).
  rewrite (H2 r nb n' Hnb Hn' HX). exact (H1 r n nb Hn Hnb HX).
Qed.
Lemma dkeep_weaken (X Y : nat -> Prop) s s' : (forall r, X r -> Y r) -> dkeep X s s' -> dkeep Y s s'.
Proof. intros H D r n n' Hn Hn' HY. apply (D r n n' Hn Hn'). intros HX. apply HY, H, HX. Qed.
Lemma dkeep_upd_data X s x g : (forall n, ndata (g n) = ndata n) -> dkeep X s (upd_node s x g).
Proof.
  intros Hg r n n' Hn Hn' _. rewrite get_upd in Hn'. destruct (Nat.eqb x r) eqn:E.
  - apply Nat.eqb_eq in E. subst r. rewrite Hn in Hn'. cbn in Hn'. inversion Hn'. apply Hg.
  - congruence.
Qed.
Lemma dkeep_upd_only s x g : dkeep (only x) s (upd_node s x g).
Proof.
  intros r n n' Hn Hn' HX. rewrite get_upd in Hn'. destruct (Nat.eqb x r) eqn:E.
  - apply Nat.eqb_eq in E. subst r. exfalso. now apply HX.
  - congruence.
Qed.

(* ---------- Stat ---------- *)
Lemma step_stat s p : fst (m_step s (Stat p)) = bump s.
Proof. rewrite m_step_bump. cbn [m_step_raw fst]. unfold m_stat. destruct (lookup s (normalize_path p)) as [f|]; [destruct (get_node s f)|]; reflexivity. Qed.

Lemma stat_res_wf s p : WF s ->
  snd (m_step s (Stat p)) = match lookup s (normalize_path p) with
                            | Some f => match get_node s f with Some n => RInfo (finfo_of n) | None => RPanic end
                            | None => RErr (EW KNotExist)
                            end.
Proof. intros _. rewrite m_step_bump. cbn [m_step_raw snd]. unfold m_stat. destruct (lookup s (normalize_path p)) as [f|]; [destruct (get_node s f)|]; reflexivity. Qed.

(* ---------- Chmod / Chown / Chtimes: neither names nor bytes change, whatever the outcome ---------- *)
Definition attr_op (o : op) : bool := match o with Chmod _ _ | Chown _ _ _ | Chtimes _ _ => true | _ => false end.

Lemma attr_step s o : attr_op o = true ->
  Frame Some s (fst (m_step s o)) /\ dkeep nobody s (fst (m_step s o)) /\ mhandles (fst (m_step s o)) = mhandles s /\
  (WF s -> WF (fst (m_step s o))).
Proof.
  intros Ha. rewrite m_step_bump. cbn [fst].
  assert (H : exists x g, (fst (m_step_raw s o) = upd_node s x g \/ fst (m_step_raw s o) = s) /\
                          (forall n, ndir (g n) = ndir n /\ ndata (g n) = ndata n)).
  { destruct o; try discriminate Ha; cbn [m_step_raw].
    - unfold m_chmod, set_file_mode. rewrite PathProof.normalize_idempotent.
      destruct (lookup s (normalize_path p)) as [f|]; [|exists 0%nat, (fun n => n); split; [now right | auto]].
      eexists f, _. split; [left; reflexivity | intros n; split; reflexivity].
    - unfold m_chown. destruct (lookup s (normalize_path p)) as [f|]; [|exists 0%nat, (fun n => n); split; [now right | auto]].
      eexists f, _. split; [left; reflexivity | intros n; split; reflexivity].
    - unfold m_chtimes. destruct (lookup s (normalize_path p)) as [f|]; [|exists 0%nat, (fun n => n); split; [now right | auto]].
      eexists f, _. split; [left; reflexivity | intros n; split; reflexivity]. }
  destruct H as (x & g & [E|E] & Hg); rewrite E.
  - split; [|split; [|split]].
    + eapply frame_comp_id; [apply (frame_upd s x g); intros n; destruct (Hg n); auto | apply frame_bump].
    + intros r n n' Hn Hn' _. change (get_node (bump (upd_node s x g)) r) with (get_node (upd_node s x g) r) in Hn'.
      exact (dkeep_upd_data nobody s x g (fun n => proj2 (Hg n)) r n n' Hn Hn' (fun H => H)).
    + cbn [bump mhandles]. apply MemFsWF.mhandles_upd.
    + intros W. apply WF_bump. rewrite <- E. destruct o; try discriminate Ha; cbn [m_step_raw];
        [apply WF_chmod | apply WF_chown | apply WF_chtimes]; exact W.
  - split; [apply frame_bump|]. split; [now apply dkeep_view|]. split; [reflexivity|]. intros W. now apply WF_bump.
Qed.

(* ---------- registerWithParent: a name it binds was free, the node is new ---------- *)
Lemma register_fresh fuel : forall s f perm k r,
  lookup (register fuel s f perm) k = Some r -> lookup s k = None -> fresh_in s r.
Proof.
  induction fuel as [|fu IH]; intros s f perm k r Hl Hn.
  - exfalso. cbn [register] in Hl. destruct (find_parent s f) as [p|]; [unfold add_kid in Hl; rewrite MemFsWF.lookup_upd in Hl|]; congruence.
  - cbn [register] in Hl. destruct (find_parent s f) as [p|].
    + exfalso. unfold add_kid in Hl. rewrite MemFsWF.lookup_upd in Hl. congruence.
    + set (pn := normalize_path (path_dir (clean (node_name s f)))) in *.
      destruct (lookup s pn) as [x|] eqn:Ex.
      * exfalso. destruct (get_node s x) as [nx|]; [|congruence]. destruct (ndir nx); [|congruence].
        destruct (lockfree_open s (path_dir (clean (node_name s f)))) as [p|]; [|congruence].
        unfold add_kid in Hl. rewrite MemFsWF.lookup_upd in Hl. congruence.
      * unfold alloc_node in Hl. set (nd := with_mode _ _) in Hl. set (s2 := set_data _ _) in Hl.
        set (s3 := register fu s2 (length (mheap s)) perm) in *.
        assert (Hl3 : lookup s3 k = Some r).
        { destruct (lockfree_open s3 (path_dir (clean (node_name s f)))) as [p|]; [|exact Hl].
          unfold add_kid in Hl. now rewrite MemFsWF.lookup_upd in Hl. }
        assert (Hh2 : (length (mheap s) <= length (mheap s2))%nat) by (unfold s2, set_data; cbn [mheap]; rewrite app_length; lia).
        destruct (lookup s2 k) as [x|] eqn:E2.
        -- destruct (MemCreate.register_preserves fu s2 (length (mheap s)) perm) as [Hkeep _].
           pose proof (Hkeep k x E2) as Hk3. fold s3 in Hk3. rewrite Hk3 in Hl3. inversion Hl3; subst x.
           unfold s2, lookup, set_data in E2. cbn [mdata] in E2. rewrite aget_set in E2.
           destruct (beqb pn k) eqn:Ek; [inversion E2; unfold fresh_in; lia|]. unfold lookup in Hn. congruence.
        -- apply (fresh_mono s s2 r Hh2). apply (IH s2 (length (mheap s)) perm k r Hl3 E2).
Qed.

(* ---------- Mkdir / MkdirAll ---------- *)
(* what the chain of directories MkdirAll makes looks like *)
Definition chain_of (key : str) (s s' : mst) : Prop :=
  forall k' r, lookup s' k' = Some r -> fresh_in s r ->
    (k' = key \/ below k' key = true) /\ exists n, get_node s' r = Some n /\ ndir n = true /\ ndata n = [].

Lemma frame_of_regframe perm k s s' :
  reg_frame perm k s s' -> (forall k' r, lookup s' k' = Some r -> lookup s k' = None -> fresh_in s r) ->
  (forall k' r, lookup s k' = Some r -> exists n, get_node s r = Some n) ->
  (length (mheap s) <= length (mheap s'))%nat ->
  Frame Some s s' /\ dkeep nobody s s'.
Proof.
  intros [K N Nd _ _] Hf Hb Hh. split; [split|].
  - intros k'. cbn [olookup]. destruct (lookup s k') as [r|] eqn:E; [left; now apply K|].
    destruct (lookup s' k') as [r|] eqn:E'; [|now left]. right. split; [reflexivity|]. exists r. split; [reflexivity | exact (Hf k' r E' E)].
  - intros r n Hn. destruct (Nd r n Hn) as (n' & Hn' & En). destruct (with_kids_nil_fields _ _ En) as (_ & A & _ & B & _).
    exists n'. repeat split; auto.
  - intros k' r n' Hl Hfr Hn' Hd. destruct (lookup s k') as [r0|] eqn:E.
    + exfalso. rewrite (K k' r0 E) in Hl. inversion Hl; subst r0. destruct (Hb k' r E) as (n & Hn). exact (fresh_not_old s r n Hfr Hn).
    + destruct (N k' r Hl E) as (_ & n & Hn & En). rewrite Hn' in Hn. inversion Hn; subst n.
      apply (f_equal ndata) in En. cbn in En. exact En.
  - exact Hh.
  - intros r n n' Hn Hn' _. destruct (Nd r n Hn) as (n2 & Hn2 & En). rewrite Hn' in Hn2. inversion Hn2; subst n2.
    now destruct (with_kids_nil_fields _ _ En) as (_ & _ & _ & B & _).
Qed.

Definition bound_ok (s : mst) : Prop := forall k r, lookup s k = Some r -> exists n, get_node s r = Some n.
Lemma WF_bound_ok s : WF s -> bound_ok s.
Proof. intros W k r H. exact (GWF_lookup_node _ _ _ _ _ _ W H). Qed.

Lemma frame_put_new s k n : bound_ok s -> lookup s k = None -> (ndir n = true -> ndata n = []) ->
  Frame Some s (put_new s k n) /\ dkeep nobody s (put_new s k n).
Proof.
  intros Hb Hfree Hd. split; [split|].
  - intros k'. cbn [olookup]. rewrite lookup_put_new. destruct (beqb k k') eqn:E; [|now left].
    apply beqb_eq in E. subst k'. right. split; [exact Hfree|]. exists (length (mheap s)). split; [reflexivity | unfold fresh_in; lia].
  - intros r x Hx. exists x. rewrite get_put_new_old by (now apply get_some_lt in Hx). auto.
  - intros k' r n' Hl Hf Hn' Hdir. rewrite lookup_put_new in Hl. destruct (beqb k k') eqn:E.
    + inversion Hl; subst r. rewrite get_put_new_new in Hn'. inversion Hn'; subst n'. now apply Hd.
    + exfalso. destruct (Hb k' r Hl) as (x & Hx). exact (fresh_not_old s r x Hf Hx).
  - unfold put_new, alloc_node, set_data. cbn [mheap]. rewrite app_length. lia.
  - intros r x x' Hx Hx' _. rewrite get_put_new_old in Hx' by (now apply get_some_lt in Hx). congruence.
Qed.

(* MkdirAll on a well-formed state in which every existing prefix of the name is a directory *)
Lemma mkdirall_step s p perm :
  WF s -> wf_name p = true -> prefixes_dirs s (normalize_path p) = true ->
  let key := normalize_path p in
  let s' := fst (m_step s (MkdirAll p perm)) in
  snd (m_step s (MkdirAll p perm)) = ROk /\ WF s' /\ Frame Some s s' /\ dkeep nobody s s' /\ mhandles s' = mhandles s /\
  is_dir_at s' key = true /\ chain_of key s s'.
Proof.
  intros W Hw Hpre key s'. assert (Hc : canon key) by (apply canon_normalize; exact Hw).
  assert (Wop : wf_op_ord s (MkdirAll p perm) = true) by (cbn [wf_op_ord]; now rewrite Hw, Hpre).
  assert (W' : WF s') by (apply WF_step_ord; assumption).
  split; [|split; [exact W'|]].
  - (* the result *)
    rewrite m_step_bump. cbn [snd m_step_raw]. unfold m_mkdirall.
    destruct (lookup s key) as [f|] eqn:Hl.
    + unfold m_mkdir. fold key. rewrite Hl. reflexivity.
    + rewrite (m_mkdir_missing s p perm Hl (below_file_prefixes_dirs s key W Hc Hpre)). cbv zeta. fold key.
      destruct (WF_mkdir_chain s key (Z.land perm chmod_bits) W Hc Hl Hpre) as [W3 F3].
      set (s3 := reg _ _ _) in *.
      assert (Hl3 : lookup s3 key = Some (length (mheap s))).
      { apply (rf_keep _ _ _ _ F3). rewrite lookup_put_new, beqb_refl. reflexivity. }
      rewrite (set_file_mode_canon s3 key _ _ Hc Hl3). reflexivity.
  - unfold s'. rewrite m_step_bump. cbn [fst m_step_raw]. rewrite m_mkdirall_fst.
    destruct (lookup s key) as [f|] eqn:Hl.
    + unfold m_mkdir. fold key. rewrite Hl. cbn [fst].
      split; [apply frame_bump|]. split; [now apply dkeep_view|]. split; [reflexivity|]. split.
      * unfold prefixes_dirs in Hpre. pose proof (forallb_lookup _ s key f tt Hpre Hl) as Hf. cbn [fst] in Hf.
        rewrite beqb_refl in Hf. cbn [orb negb] in Hf. exact Hf.
      * intros k' r Hk' Hfr. exfalso. change (lookup (bump s) k') with (lookup s k') in Hk'.
        destruct (WF_bound_ok s W k' r Hk') as (x & Hx). exact (fresh_not_old s r x Hfr Hx).
    + rewrite (m_mkdir_missing s p perm Hl (below_file_prefixes_dirs s key W Hc Hpre)). cbv zeta. fold key.
      set (pm := Z.land perm chmod_bits). set (nd := mkdir_node key pm (mclock s)).
      destruct (WF_mkdir_chain s key pm W Hc Hl Hpre) as [W3 F3]. fold nd in W3, F3.
      set (s2 := put_new s key nd) in *. set (item := length (mheap s)) in *. set (s3 := reg s2 item pm) in *.
      assert (Hl3 : lookup s3 key = Some item) by (apply (rf_keep _ _ _ _ F3); unfold s2; rewrite lookup_put_new, beqb_refl; reflexivity).
      rewrite (set_file_mode_canon s3 key _ _ Hc Hl3). cbn [fst].
      destruct (frame_put_new s key nd (WF_bound_ok s W) Hl (fun _ => eq_refl)) as [F2 D2]. fold s2 in F2, D2.
      assert (Hb2 : bound_ok s2).
      { intros k' r Hk'. unfold s2 in Hk'. rewrite lookup_put_new in Hk'. destruct (beqb key k').
        - inversion Hk'. exists nd. apply get_put_new_new.
        - destruct (WF_bound_ok s W k' r Hk') as (x & Hx). exists x. unfold s2. rewrite get_put_new_old; [exact Hx | now apply get_some_lt in Hx]. }
      destruct (frame_of_regframe pm key s2 s3 F3) as [F23 D23].
      { intros k' r Hk' Hn'. exact (register_fresh _ s2 item pm k' r Hk' Hn'). }
      { exact Hb2. }
      { unfold s3. now destruct (MemCreate.reg_preserves s2 item pm) as (_ & Hh & _). }
      set (s4 := upd_node s3 item (with_mode (Z.lor pm mode_dir))).
      assert (F34 : Frame Some s3 s4) by (apply frame_upd; intros n; split; reflexivity).
      assert (F : Frame Some s s4) by (eapply frame_comp_id; [eapply frame_comp_id; [exact F2 | exact F23] | exact F34]).
      split; [eapply frame_comp_id; [exact F | apply frame_bump]|].
      assert (D : dkeep nobody s s4).
      { eapply dkeep_trans; [exact (frame_kkeep _ _ _ (frame_comp_id _ _ _ _ F2 F23)) | | apply dkeep_upd_data; reflexivity].
        eapply dkeep_trans; [exact (frame_kkeep _ _ _ F2) | exact D2 | exact D23]. }
      split; [exact D|]. split.
      { cbn [bump mhandles]. unfold s4. rewrite MemFsWF.mhandles_upd. rewrite (rf_handles _ _ _ _ F3). reflexivity. }
      destruct (rf_nodes _ _ _ _ F3 item nd) as (n3 & Hn3 & En3); [unfold s2, item; apply get_put_new_new|].
      destruct (with_kids_nil_fields _ _ En3) as (_ & A2 & _ & A4 & _).
      assert (Hn4 : get_node s4 item = Some (with_mode (Z.lor pm mode_dir) n3)) by (unfold s4; now apply get_upd_same).
      split.
      * unfold is_dir_at, kind_at. change (lookup (bump s4) key) with (lookup s4 key). unfold s4 at 1. rewrite MemFsWF.lookup_upd, Hl3.
        change (get_node (bump s4) item) with (get_node s4 item). rewrite Hn4. cbn [ndir with_mode]. rewrite A2. reflexivity.
      * intros k' r Hk' Hfr. change (lookup (bump s4) k') with (lookup s4 k') in Hk'. change (get_node (bump s4) r) with (get_node s4 r).
        unfold s4 in Hk'. rewrite MemFsWF.lookup_upd in Hk'.
        assert (Hn0 : lookup s k' = None).
        { destruct (lookup s k') as [r0|] eqn:E0; [|reflexivity]. exfalso.
          assert (Hk2 : lookup s2 k' = Some r0).
          { unfold s2. rewrite lookup_put_new. destruct (beqb key k') eqn:E; [apply beqb_eq in E; subst k'; congruence | exact E0]. }
          rewrite (rf_keep _ _ _ _ F3 k' r0 Hk2) in Hk'. inversion Hk'; subst r0.
          destruct (WF_bound_ok s W k' r E0) as (x & Hx). exact (fresh_not_old s r x Hfr Hx). }
        destruct (str_eq_dec k' key) as [->|Hne].
        -- split; [now left|]. rewrite Hl3 in Hk'. inversion Hk'; subst r. eexists. split; [exact Hn4|]. cbn [ndir ndata with_mode]. rewrite A2, A4. split; reflexivity.
        -- assert (Hn2 : lookup s2 k' = None).
           { unfold s2. rewrite lookup_put_new. assert (E : beqb key k' = false) by (apply beqb_neq; congruence). now rewrite E. }
           destruct (rf_new _ _ _ _ F3 k' r Hk' Hn2) as (Hbel & n & Hn & En).
           split; [now right|].
           assert (Hri : r <> item).
           { intros ->. apply Hne. apply (GWF_inj _ _ _ s3 k' key item W3); auto. }
           exists n. split; [unfold s4; rewrite get_upd_other by congruence; exact Hn|].
           apply (f_equal (fun x => (ndir x, ndata x))) in En. cbn in En. inversion En. split; reflexivity.
Qed.

(* every existing name at or above an existing directory is a directory *)
Lemma dir_prefixes_dirs s d : WF s -> canon d -> is_dir_at s d = true -> prefixes_dirs s d = true.
Proof.
  intros W Hc Hd. apply is_dir_at_true in Hd as (r & n & Hl & Hn & Hdir).
  unfold prefixes_dirs. apply forallb_forall. intros [a ra] Hin. cbn [fst].
  assert (Hla : lookup s a = Some ra) by (apply in_aget; [exact (g_nodup _ _ _ _ W) | exact Hin]).
  destruct (beqb a d || below a d) eqn:E; [|reflexivity]. cbn [negb orb]. apply orb_true_iff in E as [E|E].
  - apply beqb_eq in E. subst a. unfold is_dir_at, kind_at. now rewrite Hl, Hn, Hdir.
  - destruct (anc_live s d r a W Hl (g_canon _ _ _ _ W a ra Hla) E) as (rn & nn & Hrn & Hnn & Hdn).
    unfold is_dir_at, kind_at. now rewrite Hrn, Hnn, Hdn.
Qed.

(* a free name whose parent is a directory: every existing prefix is a directory *)
Lemma free_prefixes_dirs s k : WF s -> canon k -> k <> s_slash -> lookup s k = None -> is_dir_at s (par k) = true ->
  prefixes_dirs s k = true.
Proof.
  intros W Hc Hr Hfree Hd. pose proof (dir_prefixes_dirs s (par k) W (canon_par k Hc) Hd) as Hp.
  unfold prefixes_dirs in *. rewrite forallb_forall in *. intros [a ra] Hin. cbn [fst]. specialize (Hp (a, ra) Hin). cbn [fst] in Hp.
  assert (Hla : lookup s a = Some ra) by (apply in_aget; [exact (g_nodup _ _ _ _ W) | exact Hin]).
  destruct (beqb a k || below a k) eqn:E; [|reflexivity]. cbn [negb orb]. apply orb_true_iff in E as [E|E].
  - apply beqb_eq in E. subst a. congruence.
  - destruct (below_inv a k (g_canon _ _ _ _ W a ra Hla) Hc E) as [->|Hb].
    + rewrite beqb_refl in Hp. exact Hp.
    + rewrite Hb, orb_true_r in Hp. exact Hp.
Qed.

Lemma not_root_of_free s k : WF s -> lookup s k = None -> k <> s_slash.
Proof. intros W Hl ->. destruct (g_root _ _ _ _ W) as (r & n & H & _). congruence. Qed.

(* Mkdir on a well-formed state (the name exists: EEXIST, nothing happens; or its parent is a directory) *)
Lemma mkdir_step s p perm :
  WF s -> wf_op_ord s (Mkdir p perm) = true ->
  let key := normalize_path p in
  (lookup s key <> None -> m_step s (Mkdir p perm) = (bump s, RErr (EW KExist))) /\
  (lookup s key = None ->
     snd (m_step s (Mkdir p perm)) = ROk /\ fst (m_step s (Mkdir p perm)) = fst (m_step s (MkdirAll p perm)) /\
     prefixes_dirs s key = true).
Proof.
  intros W Hwf key. cbn [wf_op_ord] in Hwf. apply andb_true_iff in Hwf as [Hw Hwf]. fold key in Hwf.
  assert (Hc : canon key) by (apply canon_normalize; exact Hw).
  split.
  - intros Hl. rewrite m_step_bump. cbn [m_step_raw]. unfold m_mkdir. fold key. destruct (lookup s key); [reflexivity | congruence].
  - intros Hl. rewrite Hl in Hwf.
    assert (Hpre : prefixes_dirs s key = true) by (apply free_prefixes_dirs; auto; eapply not_root_of_free; eauto).
    split; [|split; [|exact Hpre]].
    + destruct (mkdirall_step s p perm W Hw Hpre) as (Hres & _). rewrite m_step_bump in *. cbn [snd m_step_raw] in *.
      unfold m_mkdirall in Hres. destruct (m_mkdir s p perm) as [s1 r] eqn:E. cbn [snd] in *.
      destruct r; try discriminate Hres; try reflexivity.
      exfalso. rewrite (m_mkdir_missing s p perm Hl (below_file_prefixes_dirs s key W Hc Hpre)) in E. cbv zeta in E. fold key in E.
      destruct (WF_mkdir_chain s key (Z.land perm chmod_bits) W Hc Hl Hpre) as [W3 F3].
      assert (Hl3 : lookup (reg (put_new s key (mkdir_node key (Z.land perm chmod_bits) (mclock s))) (length (mheap s)) (Z.land perm chmod_bits)) key = Some (length (mheap s))).
      { apply (rf_keep _ _ _ _ F3). rewrite lookup_put_new, beqb_refl. reflexivity. }
      rewrite (set_file_mode_canon _ key _ _ Hc Hl3) in E. inversion E.
    + rewrite !m_step_bump. cbn [fst m_step_raw]. now rewrite m_mkdirall_fst.
Qed.

(* ---------- Remove ---------- *)
Definition rho_del (key : str) (k' : str) : option str := if beqb key k' then None else Some k'.
Definition rho_prune (key : str) (k' : str) : option str := if under key k' then None else Some k'.

(* Remove of a name that is not the root: the name disappears (when it was there), nothing else changes *)
Lemma remove_step s p :
  WF s -> wf_name p = true -> normalize_path p <> s_slash ->
  let key := normalize_path p in
  let s' := fst (m_step s (Remove p)) in
  Frame (rho_del key) s s' /\ dkeep nobody s s' /\ mhandles s' = mhandles s /\
  (lookup s key = None -> s' = bump s) /\ (lookup s key <> None -> snd (m_step s (Remove p)) = ROk).
Proof.
  intros W Hw Hr key s'. assert (Hc : canon key) by (apply canon_normalize; exact Hw).
  unfold s'. rewrite m_step_bump. cbn [fst snd m_step_raw]. unfold m_remove. fold key.
  destruct (lookup s key) as [f|] eqn:Hl.
  - pose proof (WF_fresh s key f W Hl) as Hname.
    destruct (GWF_unregister kempty kempty kempty s key f W Hl Hname Hr) as (q & qn & Hq & Hqn & Hqd & Hun & _); [intros [] | intros [] |].
    rewrite Hun. cbn [fst snd]. set (s1 := upd_node s q (del_kid key)).
    change (set_data s1 (alist_del key (mdata s1))) with (del_key s1 key).
    split; [|split; [|split; [|split; [congruence | reflexivity]]]].
    + split.
      * intros k'. left. change (lookup (bump (del_key s1 key)) k') with (lookup (del_key s1 key) k').
        rewrite lookup_del_key. unfold rho_del. destruct (beqb key k'); [reflexivity|]. cbn [olookup]. unfold s1. apply MemFsWF.lookup_upd.
      * intros r n Hn. change (get_node (bump (del_key s1 key)) r) with (get_node s1 r). unfold s1. rewrite get_upd.
        destruct (Nat.eqb q r) eqn:E; [apply Nat.eqb_eq in E; subst r; rewrite Hn; cbn; exists (del_kid key n); auto | exists n; auto].
      * intros k' r n' Hk' Hf Hn'. exfalso. change (get_node (bump (del_key s1 key)) r) with (get_node s1 r) in Hn'.
        apply get_some_lt in Hn'. unfold s1 in Hn'. rewrite mheap_upd_len in Hn'. unfold fresh_in in Hf. lia.
      * change (mheap (bump (del_key s1 key))) with (mheap s1). unfold s1. rewrite mheap_upd_len. lia.
    + intros r n n' Hn Hn' _. change (get_node (bump (del_key s1 key)) r) with (get_node s1 r) in Hn'.
      exact (dkeep_upd_data nobody s q (del_kid key) (fun _ => eq_refl) r n n' Hn Hn' (fun H => H)).
    + change (mhandles (bump (del_key s1 key))) with (mhandles s1). unfold s1. apply MemFsWF.mhandles_upd.
  - cbn [fst snd]. split; [|split; [now apply dkeep_view|split; [reflexivity|split; [reflexivity | congruence]]]].
    eapply frame_ext_lookup; [|apply frame_bump]. intros k. unfold rho_del. destruct (beqb key k) eqn:E; [|reflexivity].
    apply beqb_eq in E. subst k. cbn [olookup]. exact Hl.
Qed.

(* ---------- RemoveAll ---------- *)
Lemma removeall_step s p :
  WF s -> wf_name p = true -> normalize_path p <> s_slash ->
  let key := normalize_path p in
  let s' := fst (m_step s (RemoveAll p)) in
  Frame (rho_prune key) s s' /\ dkeep nobody s s' /\ mhandles s' = mhandles s /\ snd (m_step s (RemoveAll p)) = ROk.
Proof.
  intros W Hw Hr key s'. assert (Hc : canon key) by (apply canon_normalize; exact Hw).
  unfold s'. rewrite m_step_bump. cbn [fst snd m_step_raw]. unfold m_removeall. fold key.
  assert (Hun : exists s1, unregister s key = Some (s1, match lookup s key with Some _ => true | None => false end) /\
                           (forall k, lookup s1 k = lookup s k) /\ kkeep s s1 /\ dkeep nobody s s1 /\ mhandles s1 = mhandles s /\
                           length (mheap s1) = length (mheap s) /\
                           (forall r n, get_node s r = Some n -> exists n', get_node s1 r = Some n' /\ ndir n' = ndir n /\ ndata n' = ndata n)).
  { destruct (lookup s key) as [f|] eqn:Hl.
    - pose proof (WF_fresh s key f W Hl) as Hname.
      destruct (GWF_unregister kempty kempty kempty s key f W Hl Hname Hr) as (q & qn & Hq & Hqn & Hqd & Hun & _); [intros [] | intros [] |].
      exists (upd_node s q (del_kid key)). split; [exact Hun|].
      assert (Hnodes : forall r n, get_node s r = Some n -> exists n', get_node (upd_node s q (del_kid key)) r = Some n' /\ ndir n' = ndir n /\ ndata n' = ndata n).
      { intros r n Hn. rewrite get_upd. destruct (Nat.eqb q r) eqn:E; [apply Nat.eqb_eq in E; subst r; rewrite Hn; cbn; exists (del_kid key n); auto | exists n; auto]. }
      split; [intros k; apply MemFsWF.lookup_upd|]. split.
      { intros r n Hn. destruct (Hnodes r n Hn) as (n' & A & B & _). now exists n'. }
      split; [apply dkeep_upd_data; reflexivity|]. split; [apply MemFsWF.mhandles_upd|]. split; [apply mheap_upd_len | exact Hnodes].
    - exists s. split; [unfold unregister; now rewrite (lockfree_open_canon s key Hc), Hl|].
      split; [reflexivity|]. split; [intros r n Hn; now exists n|]. split; [now apply dkeep_view|]. split; [reflexivity|]. split; [reflexivity|].
      intros r n Hn. now exists n. }
  destruct Hun as (s1 & Hun & L1 & K1 & D1 & Hh1 & Hlen & Hnodes). rewrite Hun. cbn [fst snd].
  change (set_data s1 (filter (fun kv => negb (under key (fst kv))) (mdata s1))) with (prune s1 key).
  split; [|split; [|split; [exact Hh1 | reflexivity]]].
  - split.
    + intros k'. left. change (lookup (bump (prune s1 key)) k') with (lookup (prune s1 key) k').
      rewrite lookup_prune. unfold rho_prune. destruct (under key k'); [reflexivity|]. cbn [olookup]. apply L1.
    + intros r n Hn. change (get_node (bump (prune s1 key)) r) with (get_node s1 r). destruct (Hnodes r n Hn) as (n' & A & B & C).
      exists n'. split; [exact A|]. split; [exact B|]. intros _. exact C.
    + intros k' r n' _ Hf Hn'. exfalso. change (get_node (bump (prune s1 key)) r) with (get_node s1 r) in Hn'.
      apply get_some_lt in Hn'. unfold fresh_in in Hf. lia.
    + change (mheap (bump (prune s1 key))) with (mheap s1). lia.
  - intros r n n' Hn Hn' HX. change (get_node (bump (prune s1 key)) r) with (get_node s1 r) in Hn'. exact (D1 r n n' Hn Hn' HX).
Qed.

(* ---------- a new handle ---------- *)
Lemma frame_alloc_handle s h : Frame Some s (bump (fst (alloc_handle s h))) /\ dkeep nobody s (bump (fst (alloc_handle s h))).
Proof. split; [now apply frame_view | now apply dkeep_view]. Qed.
Lemma hkeep_alloc s h : hkeep s (bump (fst (alloc_handle s h))).
Proof. intros i x H. unfold bump, alloc_handle. cbn [fst mhandles]. rewrite nth_error_app1; [exact H | now apply nth_error_lt in H]. Qed.
Lemma hnew_alloc s h : nth_error (mhandles (bump (fst (alloc_handle s h)))) (length (mhandles s)) = Some h /\
  length (mhandles (bump (fst (alloc_handle s h)))) = S (length (mhandles s)).
Proof. unfold bump, alloc_handle. cbn [fst mhandles]. split; [apply nth_error_app_last | rewrite app_length; cbn; lia]. Qed.

(* ---------- Open ---------- *)
Lemma open_step s p :
  m_step s (Open p) = match lookup s (normalize_path p) with
                      | Some f => (bump (fst (alloc_handle s (mkH f 0 0 false true))), RHandle (length (mhandles s)))
                      | None => (bump s, RErr (EW KNotExist))
                      end.
Proof. rewrite m_step_bump. cbn [m_step_raw]. unfold m_open. destruct (lookup s (normalize_path p)); reflexivity. Qed.

(* ---------- no regular file on the way to a name ---------- *)
Lemma nfp_anc_dirs s k : WF s -> canon k -> no_file_prefix s k = true -> anc_dirs s (par k).
Proof.
  intros W Hc Hn a r n Ha Hcase Hl Hg.
  destruct (str_eq_dec a s_slash) as [->|Hne].
  - destruct (g_root _ _ _ _ W) as (r0 & n0 & Hl0 & Hn0 & _ & Hd0). congruence.
  - assert (Hb : below a k = true).
    { destruct (str_eq_dec k s_slash) as [->|Hkr].
      - exfalso. rewrite par_root in Hcase. destruct Hcase as [E|[E|E]]; try congruence. now apply (below_not_root a s_slash Ha E).
      - destruct Hcase as [->|[Hb|E]]; [now apply below_par | | congruence].
        eapply below_trans; [exact Hb|]. apply below_par; auto. intros E. rewrite E in Hb. now apply (below_not_root a s_slash Ha Hb). }
    pose proof (no_file_prefix_dir s a k r W Hn Hb Hl) as Hd. unfold is_dir_at, kind_at in Hd. rewrite Hl, Hg in Hd. now destruct (ndir n).
Qed.

Lemma nfp_below_file s k : WF s -> canon k -> no_file_prefix s k = true -> below_file s k = false.
Proof. intros W Hc Hn. apply below_file_anc_dirs; [exact Hc | now apply nfp_anc_dirs]. Qed.

(* the parent of a name is a directory: no regular file on the way *)
Lemma dir_parent_nfp s k : WF s -> canon k -> k <> s_slash -> is_dir_at s (par k) = true -> no_file_prefix s k = true.
Proof.
  intros W Hc Hr Hd. apply is_dir_at_true in Hd as (rp & np & Hlp & Hnp & Hdp).
  unfold no_file_prefix. apply forallb_forall. intros [a ra] Hin. cbn [fst].
  assert (Hla : lookup s a = Some ra) by (apply in_aget; [exact (g_nodup _ _ _ _ W) | exact Hin]).
  destruct (below a k) eqn:E; [|reflexivity]. cbn [andb].
  pose proof (g_canon _ _ _ _ W a ra Hla) as Ha.
  destruct (below_inv a k Ha Hc E) as [->|Hb].
  - unfold is_file_at, kind_at. now rewrite Hlp, Hnp, Hdp.
  - destruct (anc_live s (par k) rp a W Hlp Ha Hb) as (rn & nn & Hrn & Hnn & Hdn). unfold is_file_at, kind_at. now rewrite Hrn, Hnn, Hdn.
Qed.
(* an existing name: no regular file on the way *)
Lemma existing_nfp s k r : WF s -> lookup s k = Some r -> no_file_prefix s k = true.
Proof.
  intros W Hl. unfold no_file_prefix. apply forallb_forall. intros [a ra] Hin. cbn [fst].
  assert (Hla : lookup s a = Some ra) by (apply in_aget; [exact (g_nodup _ _ _ _ W) | exact Hin]).
  destruct (below a k) eqn:E; [|reflexivity]. cbn [andb].
  destruct (anc_live s k r a W Hl (g_canon _ _ _ _ W a ra Hla) E) as (rn & nn & Hrn & Hnn & Hdn). unfold is_file_at, kind_at. now rewrite Hrn, Hnn, Hdn.
Qed.

(* ---------- a new regular file below a chain of missing directories ---------- *)
Lemma WF_create_chain s k :
  WF s -> canon k -> lookup s k = None -> no_file_prefix s k = true ->
  WF (reg (put_new s k (new_file k (mclock s))) (length (mheap s)) 0) /\
  reg_frame 0 k (put_new s k (new_file k (mclock s))) (reg (put_new s k (new_file k (mclock s))) (length (mheap s)) 0).
Proof.
  intros W Hc Hfree Hpre. set (nd := new_file k (mclock s)). set (s2 := put_new s k nd). set (item := length (mheap s)).
  assert (Hkr : k <> s_slash) by (eapply not_root_of_free; eauto).
  assert (G2 : GWF (kadd kempty k) kempty kempty s2) by (apply GWF_new; auto).
  assert (Lk : lookup s2 k = Some item) by (unfold s2; rewrite lookup_put_new, beqb_refl; reflexivity).
  assert (Nk : node_name s2 item = k) by (unfold node_name, s2, item; now rewrite get_put_new_new).
  destruct (register_chain (S (length (node_name s2 item))) (kadd kempty k) s2 k item 0) as [G3 F3]; auto.
  - rewrite Nk. lia.
  - intros x [[] | ->]. congruence.
  - now right.
  - intros a r n Hb Hl Hn. assert (Hak : a <> k) by (intros ->; rewrite below_irrefl in Hb; discriminate).
    unfold s2 in Hl. rewrite lookup_put_new in Hl. assert (E : beqb k a = false) by (apply beqb_neq; congruence). rewrite E in Hl.
    unfold s2 in Hn. rewrite get_put_new_old in Hn by (eapply GWF_lt; eauto).
    pose proof (no_file_prefix_dir s a k r W Hpre Hb Hl) as Hd. unfold is_dir_at, kind_at in Hd. rewrite Hl, Hn in Hd. now destruct (ndir n).
  - split; [|exact F3]. eapply GWF_to_WF; [| | |exact G3]; [intros x [[[]|Hx] Hx2]; contradiction | intros x [] | intros x []].
Qed.

(* a new node bound to a free name and registered with its parent, missing ancestors created on the way *)
Lemma chain_frame s k nd perm :
  WF s -> lookup s k = None -> (ndir nd = true -> ndata nd = []) ->
  let s2 := put_new s k nd in let item := length (mheap s) in let s3 := reg s2 item perm in
  WF s3 -> reg_frame perm k s2 s3 ->
  Frame Some s s3 /\ dkeep nobody s s3 /\ mhandles s3 = mhandles s /\ lookup s3 k = Some item /\
  (exists n3, get_node s3 item = Some n3 /\ with_kids [] n3 = with_kids [] nd) /\
  (forall k' r, lookup s3 k' = Some r -> fresh_in s r ->
     (k' = k /\ r = item) \/ (below k' k = true /\ exists n, get_node s3 r = Some n /\ ndir n = true /\ ndata n = [])).
Proof.
  intros W Hl Hnd s2 item s3 W3 F3.
  assert (Hl3 : lookup s3 k = Some item) by (apply (rf_keep _ _ _ _ F3); unfold s2; rewrite lookup_put_new, beqb_refl; reflexivity).
  destruct (frame_put_new s k nd (WF_bound_ok s W) Hl Hnd) as [F2 D2]. fold s2 in F2, D2.
  assert (Hb2 : bound_ok s2).
  { intros k' r Hk'. unfold s2 in Hk'. rewrite lookup_put_new in Hk'. destruct (beqb k k').
    - inversion Hk'. exists nd. apply get_put_new_new.
    - destruct (WF_bound_ok s W k' r Hk') as (x & Hx). exists x. unfold s2. rewrite get_put_new_old; [exact Hx | now apply get_some_lt in Hx]. }
  destruct (frame_of_regframe perm k s2 s3 F3) as [F23 D23].
  { intros k' r Hk' Hn'. exact (register_fresh _ s2 item perm k' r Hk' Hn'). }
  { exact Hb2. }
  { unfold s3. now destruct (MemCreate.reg_preserves s2 item perm) as (_ & Hh & _). }
  split; [eapply frame_comp_id; [exact F2 | exact F23]|].
  split; [eapply dkeep_trans; [exact (frame_kkeep _ _ _ F2) | exact D2 | exact D23]|].
  split; [rewrite (rf_handles _ _ _ _ F3); reflexivity|]. split; [exact Hl3|].
  destruct (rf_nodes _ _ _ _ F3 item nd) as (n3 & Hn3 & En3); [unfold s2, item; apply get_put_new_new|].
  split; [now exists n3|].
  intros k' r Hk' Hfr.
  assert (Hn0 : lookup s k' = None).
  { destruct (lookup s k') as [r0|] eqn:E0; [|reflexivity]. exfalso.
    assert (Hk2 : lookup s2 k' = Some r0).
    { unfold s2. rewrite lookup_put_new. destruct (beqb k k') eqn:E; [apply beqb_eq in E; subst k'; congruence | exact E0]. }
    rewrite (rf_keep _ _ _ _ F3 k' r0 Hk2) in Hk'. inversion Hk'; subst r0.
    destruct (WF_bound_ok s W k' r E0) as (x & Hx). exact (fresh_not_old s r x Hfr Hx). }
  destruct (str_eq_dec k' k) as [->|Hne].
  - left. split; [reflexivity | congruence].
  - right. assert (Hn2 : lookup s2 k' = None).
    { unfold s2. rewrite lookup_put_new. assert (E : beqb k k' = false) by (apply beqb_neq; congruence). now rewrite E. }
    destruct (rf_new _ _ _ _ F3 k' r Hk' Hn2) as (Hbel & n & Hn & En). split; [exact Hbel|]. exists n. split; [exact Hn|].
    apply (f_equal (fun x => (ndir x, ndata x))) in En. cbn in En. inversion En. split; reflexivity.
Qed.

(* ---------- Create ---------- *)
Lemma alloc_pair s h : (let '(s2, i) := alloc_handle s h in (s2, RHandle i)) = (fst (alloc_handle s h), RHandle (length (mhandles s))).
Proof. reflexivity. Qed.

Definition trunc_node (t : Z) (n : node) : node := with_mtime t (with_data [] n).

Lemma create_step s p :
  WF s -> wf_name p = true -> normalize_path p <> s_slash ->
  no_file_prefix s (normalize_path p) = true -> kind_at s (normalize_path p) <> Some true ->
  let key := normalize_path p in
  let s' := fst (m_step s (Create p)) in
  exists f, snd (m_step s (Create p)) = RHandle (length (mhandles s)) /\
    WF s' /\ Frame Some s s' /\ dkeep (only f) s s' /\ hkeep s s' /\
    nth_error (mhandles s') (length (mhandles s)) = Some (mkH f 0 0 false false) /\
    length (mhandles s') = S (length (mhandles s)) /\
    lookup s' key = Some f /\ (exists n, get_node s' f = Some n /\ ndir n = false /\ ndata n = []) /\
    (lookup s key = Some f \/ (lookup s key = None /\ fresh_in s f)) /\
    (forall k' r, lookup s' k' = Some r -> fresh_in s r ->
       (k' = key /\ r = f) \/ (below k' key = true /\ exists n, get_node s' r = Some n /\ ndir n = true /\ ndata n = [])).
Proof.
  intros W Hw Hr Hnfp Hkind key s'. fold key in Hr, Hnfp, Hkind. assert (Hc : canon key) by (apply canon_normalize; exact Hw).
  unfold s'. rewrite m_step_bump. cbn [fst snd m_step_raw]. unfold m_create. fold key.
  destruct (kind_at s key) as [[|]|] eqn:Hk; [congruence| |].
  - (* an existing regular file: truncated in place *)
    apply kind_at_some in Hk as (f & n & Hl & Hn & Hd). rewrite Hl, Hn, Hd.
    fold (trunc_node (mclock s)). set (s1 := upd_node s f (trunc_node (mclock s))). rewrite alloc_pair.
    exists f. cbn [fst snd].
    assert (F1 : Frame Some s s1).
    { apply frame_upd_at. intros n0 Hn0. rewrite Hn in Hn0. inversion Hn0; subst n0. split; [reflexivity | congruence]. }
    assert (Hh1 : mhandles s1 = mhandles s) by apply MemFsWF.mhandles_upd. rewrite Hh1.
    split; [reflexivity|]. split.
    { apply WF_bump. apply WF_alloc_handle. apply WF_attr; [|exact W]. apply (keeps_comp (with_mtime _) (with_data _)); [apply keeps_mtime | apply keeps_data]. }
    split; [eapply frame_comp_id; [exact F1 | now apply frame_view]|].
    split. { intros r x x' Hx Hx' HX. exact (dkeep_upd_only s f (trunc_node (mclock s)) r x x' Hx Hx' HX). }
    split. { intros i h Hi. unfold bump, alloc_handle. cbn [fst mhandles]. rewrite Hh1. rewrite nth_error_app1; [exact Hi | now apply nth_error_lt in Hi]. }
    split. { unfold bump, alloc_handle. cbn [fst mhandles]. rewrite Hh1. apply nth_error_app_last. }
    split. { unfold bump, alloc_handle. cbn [fst mhandles]. rewrite Hh1, app_length. cbn. lia. }
    split. { change (lookup s1 key = Some f). unfold s1. rewrite MemFsWF.lookup_upd. exact Hl. }
    split. { exists (trunc_node (mclock s) n). split; [change (get_node s1 f = Some (trunc_node (mclock s) n)); unfold s1; now apply get_upd_same|]. split; [exact Hd | reflexivity]. }
    split; [now left|].
    intros k' r Hk' Hf. exfalso. change (lookup s1 k' = Some r) in Hk'. unfold s1 in Hk'. rewrite MemFsWF.lookup_upd in Hk'.
    destruct (WF_bound_ok s W k' r Hk') as (x & Hx). exact (fresh_not_old s r x Hf Hx).
  - (* a free name *)
    apply (WF_kind_none s key W) in Hk. rewrite Hk, (nfp_below_file s key W Hc Hnfp).
    rewrite m_create_node_eq, alloc_pair. cbn [fst snd].
    destruct (WF_create_chain s key W Hc Hk Hnfp) as [W3 F3].
    destruct (chain_frame s key (new_file key (mclock s)) 0 W Hk (fun H => match Bool.diff_false_true H with end) W3 F3)
      as (F & D & Hh & Hl3 & (n3 & Hn3 & En3) & Hch).
    set (s3 := reg _ _ _) in *. set (item := length (mheap s)) in *.
    exists item. rewrite Hh.
    split; [reflexivity|]. split; [apply WF_bump; now apply WF_alloc_handle|].
    split; [eapply frame_comp_id; [exact F | now apply frame_view]|].
    split. { intros r x x' Hx Hx' _. exact (D r x x' Hx Hx' (fun H => H)). }
    split. { intros i h Hi. unfold bump, alloc_handle. cbn [fst mhandles]. rewrite Hh. rewrite nth_error_app1; [exact Hi | now apply nth_error_lt in Hi]. }
    split. { unfold bump, alloc_handle. cbn [fst mhandles]. rewrite Hh. apply nth_error_app_last. }
    split. { unfold bump, alloc_handle. cbn [fst mhandles]. rewrite Hh, app_length. cbn. lia. }
    split; [exact Hl3|].
    split. { exists n3. split; [exact Hn3|]. apply (f_equal (fun x => (ndir x, ndata x))) in En3. cbn in En3. inversion En3. split; reflexivity. }
    split; [right; split; [first [exact Hk | reflexivity] | unfold fresh_in, item; lia]|].
    intros k' r Hk' Hf. exact (Hch k' r Hk' Hf).
Qed.

(* ---------- OpenFile ---------- *)
Lemma flag_ok_facts flag : flag_ok flag = true ->
  flag_has flag o_append = false /\
  (flag_has flag o_trunc && flag_has flag (Z.lor o_rdwr o_wronly) && negb (Z.land flag memfs_access_mask =? 0)
     = flag_has flag o_trunc && negb (Z.land flag memfs_access_mask =? 0)) /\
  (flag_has flag o_trunc && flag_has flag (Z.lor o_rdwr o_wronly) && (Z.land flag memfs_access_mask =? 0) = false).
Proof.
  unfold flag_ok. intros H. apply andb_true_iff in H as [H _]. apply andb_true_iff in H as [H _]. apply Z.eqb_eq in H.
  assert (Hm : forall bit, Z.land bit flag_mask = 0 -> Z.land flag bit = 0).
  { intros bit H2. rewrite <- (Z.land_m1_r bit), <- (Z.lor_lnot_diag flag_mask), Z.land_lor_distr_r, H2, Z.lor_0_l.
    rewrite (Z.land_comm bit), Z.land_assoc, H. reflexivity. }
  split; [|split].
  - unfold flag_has. rewrite (Hm o_append); reflexivity.
  - change (Z.lor o_rdwr o_wronly) with memfs_access_mask. unfold flag_has at 2.
    destruct (Z.land flag memfs_access_mask =? 0) eqn:E; [now rewrite !andb_false_r|]. apply Z.eqb_neq in E.
    assert (0 <= Z.land flag memfs_access_mask) by (apply Z.land_nonneg; right; discriminate).
    assert (E2 : 0 <? Z.land flag memfs_access_mask = true) by (apply Z.ltb_lt; lia). rewrite E2, andb_true_r. reflexivity.
  - change (Z.lor o_rdwr o_wronly) with memfs_access_mask. unfold flag_has at 2.
    destruct (Z.land flag memfs_access_mask =? 0) eqn:E; [|apply andb_false_r]. apply Z.eqb_eq in E. rewrite E. cbn. now rewrite andb_false_r.
Qed.

Definition of_ro (flag : Z) : bool := Z.land flag memfs_access_mask =? 0.
Definition of_tr (flag : Z) : bool := flag_has flag o_trunc && negb (of_ro flag).

(* the name exists, O_CREATE|O_EXCL not both given: truncated when asked for with write access, a handle at offset 0 *)
Lemma openfile_existing s p flag perm f :
  flag_ok flag = true -> lookup s (normalize_path p) = Some f ->
  flag_has flag o_excl && flag_has flag o_create = false ->
  m_step s (OpenFile p flag perm) =
    (bump (fst (alloc_handle (if of_tr flag then upd_node s f (trunc_node (mclock s)) else s) (mkH f 0 0 false (of_ro flag)))),
     RHandle (length (mhandles s))).
Proof.
  intros Hf Hl He. destruct (flag_ok_facts flag Hf) as (Ha & Ht1 & Ht2).
  rewrite m_step_bump. cbn [m_step_raw]. unfold m_openfile. rewrite Hl, He, Ha.
  fold (of_ro flag) in *. rewrite Ht1, Ht2. fold (of_tr flag).
  destruct (of_tr flag); unfold alloc_handle; cbn [fst snd]; [|reflexivity].
  fold (trunc_node (mclock s)). rewrite (MemFsWF.mhandles_upd s f (trunc_node (mclock s))). reflexivity.
Qed.

Lemma openfile_excl s p flag perm f :
  lookup s (normalize_path p) = Some f -> flag_has flag o_excl && flag_has flag o_create = true ->
  m_step s (OpenFile p flag perm) = (bump s, RErr (EW KExist)).
Proof. intros Hl He. rewrite m_step_bump. cbn [m_step_raw]. unfold m_openfile. rewrite Hl, He. reflexivity. Qed.

Lemma openfile_missing s p flag perm :
  lookup s (normalize_path p) = None -> flag_has flag o_create = false ->
  m_step s (OpenFile p flag perm) = (bump s, RErr (EW KNotExist)).
Proof. intros Hl He. rewrite m_step_bump. cbn [m_step_raw]. unfold m_openfile. rewrite Hl, He. reflexivity. Qed.

(* the frame of OpenFile on an existing name *)
Lemma openfile_existing_frame s flag f n :
  WF s -> get_node s f = Some n -> (of_tr flag = true -> ndir n = false) ->
  let s' := bump (fst (alloc_handle (if of_tr flag then upd_node s f (trunc_node (mclock s)) else s) (mkH f 0 0 false (of_ro flag)))) in
  WF s' /\ Frame Some s s' /\ dkeep (fun r => of_tr flag = true /\ r = f) s s' /\ hkeep s s' /\
  nth_error (mhandles s') (length (mhandles s)) = Some (mkH f 0 0 false (of_ro flag)) /\
  length (mhandles s') = S (length (mhandles s)) /\
  (forall k, lookup s' k = lookup s k) /\
  (exists n', get_node s' f = Some n' /\ ndir n' = ndir n /\ ndata n' = if of_tr flag then [] else ndata n).
Proof.
  intros W Hn Hd s'. unfold s'. destruct (of_tr flag) eqn:Et.
  - set (s1 := upd_node s f (trunc_node (mclock s))).
    assert (Hh1 : mhandles s1 = mhandles s) by apply MemFsWF.mhandles_upd.
    split. { apply WF_bump. apply WF_alloc_handle. apply WF_attr; [|exact W]. apply (keeps_comp (with_mtime _) (with_data _)); [apply keeps_mtime | apply keeps_data]. }
    split. { apply (frame_comp_id Some s s1); [|now apply frame_view]. apply frame_upd_at. intros n0 Hn0. rewrite Hn in Hn0. inversion Hn0; subst n0.
             split; [reflexivity|]. rewrite (Hd eq_refl). discriminate. }
    split. { intros r x x' Hx Hx' HX. apply (dkeep_upd_only s f (trunc_node (mclock s)) r x x' Hx Hx'). intros E. apply HX. now split. }
    split. { intros i h Hi. unfold bump, alloc_handle. cbn [fst mhandles]. rewrite Hh1. rewrite nth_error_app1; [exact Hi | now apply nth_error_lt in Hi]. }
    split. { unfold bump, alloc_handle. cbn [fst mhandles]. rewrite Hh1. apply nth_error_app_last. }
    split. { unfold bump, alloc_handle. cbn [fst mhandles]. rewrite Hh1, app_length. cbn. lia. }
    split. { intros k. change (lookup s1 k = lookup s k). apply MemFsWF.lookup_upd. }
    exists (trunc_node (mclock s) n). split; [change (get_node s1 f = Some (trunc_node (mclock s) n)); unfold s1; now apply get_upd_same|]. split; reflexivity.
  - split; [apply WF_bump; now apply WF_alloc_handle|]. split; [now apply frame_view|]. split; [now apply dkeep_view|].
    split; [apply hkeep_alloc|]. destruct (hnew_alloc s (mkH f 0 0 false (of_ro flag))) as [A B]. split; [exact A|]. split; [exact B|].
    split; [reflexivity|]. exists n. split; [exact Hn|]. split; reflexivity.
Qed.

(* OpenFile with O_CREATE on a free name (well-formed: the parent is a directory) *)
Lemma openfile_create_step s p flag perm :
  WF s -> wf_op_ord s (OpenFile p flag perm) = true ->
  lookup s (normalize_path p) = None -> flag_has flag o_create = true ->
  let key := normalize_path p in
  let s' := fst (m_step s (OpenFile p flag perm)) in
  exists f, snd (m_step s (OpenFile p flag perm)) = RHandle (length (mhandles s)) /\
    WF s' /\ Frame Some s s' /\ dkeep nobody s s' /\ hkeep s s' /\
    nth_error (mhandles s') (length (mhandles s)) = Some (mkH f 0 0 false (of_ro flag)) /\
    length (mhandles s') = S (length (mhandles s)) /\
    lookup s' key = Some f /\ (exists n, get_node s' f = Some n /\ ndir n = false /\ ndata n = []) /\ fresh_in s f /\
    (forall k' r, lookup s' k' = Some r -> fresh_in s r ->
       (k' = key /\ r = f) \/ (below k' key = true /\ exists n, get_node s' r = Some n /\ ndir n = true /\ ndata n = [])).
Proof.
  intros W Hwf Hl Hcr key s'. fold key in Hl.
  assert (W' : WF s') by (apply WF_step_ord; assumption).
  cbn [wf_op_ord] in Hwf. apply andb_true_iff in Hwf as [Hw Hwf]. apply andb_true_iff in Hw as [Hw Hfo]. fold key in Hwf.
  assert (Hc : canon key) by (apply canon_normalize; exact Hw).
  assert (Hk : kind_at s key = None) by (unfold kind_at; now rewrite Hl).
  rewrite Hk, Hcr in Hwf.
  assert (Hr : key <> s_slash) by exact (not_root_of_free s key W Hl).
  assert (Hnfp : no_file_prefix s key = true) by (now apply dir_parent_nfp).
  destruct (flag_ok_facts flag Hfo) as (Ha & Ht1 & Ht2).
  destruct (WF_create_chain s key W Hc Hl Hnfp) as [W3 F3].
  destruct (chain_frame s key (new_file key (mclock s)) 0 W Hl (fun H => match Bool.diff_false_true H with end) W3 F3)
    as (F & D & Hh & Hl3 & (n3 & Hn3 & En3) & Hch).
  set (item := length (mheap s)) in *. set (s3 := reg _ item 0) in *.
  assert (Hn3d : ndir n3 = false /\ ndata n3 = []).
  { apply (f_equal (fun x => (ndir x, ndata x))) in En3. cbn in En3. inversion En3. split; reflexivity. }
  destruct Hn3d as [Hn3d Hn3e].
  (* the state the call produces *)
  set (s4 := if of_tr flag then upd_node s3 item (trunc_node (mclock s3)) else s3).
  set (s5 := fst (alloc_handle s4 (mkH item 0 0 false (of_ro flag)))).
  assert (Hst : m_step s (OpenFile p flag perm) = (bump (upd_node s5 item (with_mode (Z.land perm chmod_bits))), RHandle (length (mhandles s)))).
  { rewrite m_step_bump. cbn [m_step_raw]. unfold m_openfile. fold key. rewrite Hl, Hcr, (nfp_below_file s key W Hc Hnfp).
    rewrite m_create_node_eq. fold item. fold s3. rewrite Hn3, Hn3e. cbn [zlen length Z.of_nat]. rewrite Ha.
    fold (of_ro flag) in *. rewrite Ht1, Ht2. fold (of_tr flag). fold (trunc_node (mclock s3)). fold s4.
    assert (Hh4 : mhandles s4 = mhandles s) by (unfold s4; destruct (of_tr flag); [rewrite MemFsWF.mhandles_upd|]; exact Hh).
    assert (E0 : (if of_tr flag then 0 else 0) = 0) by (destruct (of_tr flag); reflexivity). rewrite E0.
    unfold alloc_handle. cbn [fst snd].
    assert (Hl5 : lookup s5 (normalize_path key) = Some item).
    { rewrite (canon_norm key Hc). unfold s5, alloc_handle. cbn [fst]. change (lookup s4 key = Some item).
      unfold s4. destruct (of_tr flag); [rewrite MemFsWF.lookup_upd|]; exact Hl3. }
    unfold set_file_mode. change (mkM (mdata s4) (mheap s4) (mhandles s4 ++ [mkH item 0 0 false (of_ro flag)]) (mclock s4)) with s5.
    rewrite Hl5, Hh4. reflexivity. }
  unfold s'. rewrite Hst. cbn [fst snd]. exists item.
  assert (F34 : Frame Some s3 s4 /\ dkeep nobody s3 s4 /\ mhandles s4 = mhandles s3 /\ lookup s4 key = Some item /\
                (exists n4, get_node s4 item = Some n4 /\ ndir n4 = false /\ ndata n4 = []) /\
                (forall r, r <> item -> get_node s4 r = get_node s3 r) /\ (forall k, lookup s4 k = lookup s3 k)).
  { unfold s4. destruct (of_tr flag).
    - split; [apply frame_upd_at; intros n0 Hn0; rewrite Hn3 in Hn0; inversion Hn0; subst n0; split; [reflexivity | congruence]|].
      split. { intros r x x' Hx Hx' _. rewrite get_upd in Hx'. destruct (Nat.eqb item r) eqn:E; [|congruence].
               apply Nat.eqb_eq in E. subst r. rewrite Hx in Hx'. cbn in Hx'. inversion Hx'. cbn. rewrite Hn3 in Hx. inversion Hx; subst x. now rewrite Hn3e. }
      split; [apply MemFsWF.mhandles_upd|]. split; [rewrite MemFsWF.lookup_upd; exact Hl3|].
      split; [exists (trunc_node (mclock s3) n3); split; [now apply get_upd_same | split; [exact Hn3d | reflexivity]]|].
      split; [intros r Hr0; apply get_upd_other; congruence | intros k; apply MemFsWF.lookup_upd].
    - split; [apply frame_refl|]. split; [now apply dkeep_view|]. split; [reflexivity|]. split; [exact Hl3|].
      split; [exists n3; auto|]. split; reflexivity. }
  destruct F34 as (F34 & D34 & Hh34 & Hl4 & (n4 & Hn4 & Hn4d & Hn4e) & Hoth4 & Hlk4).
  set (s6 := upd_node s5 item (with_mode (Z.land perm chmod_bits))).
  assert (Hn5 : get_node s5 item = Some n4) by exact Hn4.
  assert (Hn6 : get_node s6 item = Some (with_mode (Z.land perm chmod_bits) n4)) by (unfold s6; now apply get_upd_same).
  split; [reflexivity|]. split; [unfold s' in W'; rewrite Hst in W'; exact W'|].
  assert (F45 : Frame Some s4 s5) by (now apply frame_view).
  assert (F56 : Frame Some s5 s6) by (apply frame_upd; intros n; split; reflexivity).
  assert (Fall : Frame Some s s6).
  { eapply frame_comp_id; [|exact F56]. eapply frame_comp_id; [|exact F45]. eapply frame_comp_id; [exact F | exact F34]. }
  split; [eapply frame_comp_id; [exact Fall | apply frame_bump]|].
  split.
  { intros r x x' Hx Hx' _. change (get_node s6 r = Some x') in Hx'.
    destruct (frame_kkeep _ _ _ F r x Hx) as (x3 & Hx3 & _). destruct (frame_kkeep _ _ _ F34 r x3 Hx3) as (x4 & Hx4 & _).
    assert (Hx5 : get_node s5 r = Some x4) by exact Hx4.
    pose proof (dkeep_upd_data nobody s5 item (with_mode (Z.land perm chmod_bits)) (fun _ => eq_refl) r x4 x' Hx5 Hx' (fun H => H)) as E1.
    rewrite E1, (D34 r x3 x4 Hx3 Hx4 (fun H => H)). exact (D r x x3 Hx Hx3 (fun H => H)). }
  assert (Hh6 : mhandles s6 = mhandles s ++ [mkH item 0 0 false (of_ro flag)]).
  { unfold s6. rewrite MemFsWF.mhandles_upd. unfold s5, alloc_handle. cbn [fst mhandles]. now rewrite Hh34, Hh. }
  split. { intros i h Hi. change (nth_error (mhandles s6) i = Some h). rewrite Hh6. rewrite nth_error_app1; [exact Hi | now apply nth_error_lt in Hi]. }
  split. { change (nth_error (mhandles s6) (length (mhandles s)) = Some (mkH item 0 0 false (of_ro flag))). rewrite Hh6. apply nth_error_app_last. }
  split. { change (length (mhandles s6) = S (length (mhandles s))). rewrite Hh6, app_length. cbn. lia. }
  split. { change (lookup s6 key = Some item). unfold s6. rewrite MemFsWF.lookup_upd. exact Hl4. }
  split. { eexists. split; [exact Hn6|]. cbn [ndir ndata with_mode]. now split. }
  split; [unfold fresh_in, item; lia|].
  intros k' r Hk' Hfr. change (lookup s6 k' = Some r) in Hk'. unfold s6 in Hk'. rewrite MemFsWF.lookup_upd in Hk'.
  change (lookup s4 k' = Some r) in Hk'. rewrite Hlk4 in Hk'.
  destruct (Hch k' r Hk' Hfr) as [Hx|(Hb & n & Hn & Hnd & Hne)]; [now left | right]. split; [exact Hb|].
  assert (Hri : r <> item).
  { intros ->. assert (k' = key) by (apply (GWF_inj _ _ _ s3 k' key item W3); auto). subst k'. rewrite below_irrefl in Hb. discriminate. }
  exists n. split; [|now split]. change (get_node s6 r = Some n). unfold s6. rewrite get_upd_other by congruence.
  change (get_node s4 r = Some n). rewrite Hoth4 by exact Hri. exact Hn.
Qed.

(* ---------- Rename ---------- *)
Definition rho_mv (old new : str) (k' : str) : option str :=
  if under new k' then Some (rw new old k') else if under old k' then None else Some k'.

Lemma under_atbelow a k : under a k = true <-> atbelow a k.
Proof. rewrite under_spec. unfold atbelow. tauto. Qed.

(* the effect of a successful Rename on a well-formed state: the subtree moves, nodes keep kind and bytes; when
   the directory of the target is missing (MemMapFs then creates it and its missing ancestors) new empty
   directories appear at proper ancestors of the target *)
Record MovedG (old new : str) (s s' : mst) : Prop := mkMovedG {
  mg_sub : forall k0, atbelow old k0 -> lookup s' (rw old new k0) = lookup s k0;
  mg_gone : forall k, atbelow old k -> lookup s' k = None;
  mg_rest : forall k, ~ atbelow old k -> ~ atbelow new k ->
            lookup s' k = lookup s k \/
            (lookup s k = None /\ below k new = true /\
             exists r n, lookup s' k = Some r /\ fresh_in s r /\ get_node s' r = Some n /\ ndir n = true /\ ndata n = []);
  mg_nodes : forall r n, get_node s r = Some n -> exists n', get_node s' r = Some n' /\ ndir n' = ndir n /\ ndata n' = ndata n;
  mg_heap : (length (mheap s) <= length (mheap s'))%nat;
  mg_handles : mhandles s' = mhandles s
}.

Lemma moved_MovedG old new s s' : moved old new s s' -> MovedG old new s s'.
Proof.
  intros [(Hlen & Hh & Ha) Ms Mg Mr]. split; auto.
  - intros r n Hn. destruct (Ha r n Hn) as (n' & Hn' & E). exists n'. unfold attrs in E. inversion E. auto.
  - lia.
Qed.

Lemma MovedG_frame old new s s' : bound_ok s -> MovedG old new s s' -> Frame (rho_mv old new) s s' /\ dkeep nobody s s'.
Proof.
  intros Hb [Ms Mg Mr Mn Mh _]. split; [split|].
  - intros k'. unfold rho_mv. destruct (under new k') eqn:En.
    + left. apply under_atbelow, atbelow_suffix in En as (rest & Hrest & ->). rewrite rw_app. cbn [olookup].
      rewrite <- (rw_app old new rest). apply Ms. apply atbelow_suffix. now exists rest.
    + destruct (under old k') eqn:Eo.
      * left. cbn [olookup]. apply Mg. now apply under_atbelow.
      * cbn [olookup]. destruct (Mr k') as [E|(E & _ & r & n & Hl & Hf & _)].
        -- intros H. apply under_atbelow in H. congruence.
        -- intros H. apply under_atbelow in H. congruence.
        -- now left.
        -- right. split; [exact E|]. now exists r.
  - intros r n Hn. destruct (Mn r n Hn) as (n' & A & B & C). exists n'. auto.
  - intros k' r n' Hl Hf Hn' Hd.
    assert (Hold : forall k, lookup s k = Some r -> False).
    { intros k Hk. destruct (Hb k r Hk) as (x & Hx). exact (fresh_not_old s r x Hf Hx). }
    destruct (under new k') eqn:En.
    + exfalso. apply under_atbelow, atbelow_suffix in En as (rest & Hrest & ->).
      rewrite <- (rw_app old new rest), Ms in Hl by (apply atbelow_suffix; now exists rest). eauto.
    + destruct (under old k') eqn:Eo.
      * rewrite Mg in Hl by (now apply under_atbelow). discriminate.
      * destruct (Mr k') as [E|(E & _ & r2 & n2 & Hl2 & _ & Hn2 & Hd2 & He2)].
        -- intros H. apply under_atbelow in H. congruence.
        -- intros H. apply under_atbelow in H. congruence.
        -- exfalso. rewrite E in Hl. eauto.
        -- rewrite Hl in Hl2. inversion Hl2; subst r2. rewrite Hn' in Hn2. inversion Hn2; subst n2. exact He2.
  - exact Mh.
  - intros r n n' Hn Hn' _. destruct (Mn r n Hn) as (n2 & A & _ & C). rewrite Hn' in A. inversion A; subst n2. exact C.
Qed.

(* Rename on a well-formed state, well-formed call, the source exists and differs from the target *)
Lemma rename_step_wf s p q f :
  WF s -> wf_op_ord s (Rename p q) = true -> lookup s (normalize_path p) = Some f -> normalize_path p <> normalize_path q ->
  let s' := fst (m_step s (Rename p q)) in
  snd (m_step s (Rename p q)) = ROk /\ WF s' /\ MovedG (normalize_path p) (normalize_path q) s s'.
Proof.
  intros W Hwf Hl Hne s'. destruct (rename_full s p q f W Hwf Hl Hne) as (Hres & W' & M).
  unfold s'. rewrite m_step_bump. cbn [fst snd m_step_raw]. split; [exact Hres|]. split; [now apply WF_bump|].
  apply moved_MovedG in M. destruct M as [Ms Mg Mr Mn Mh Mhd]. split; auto.
Qed.

(* the same call when the source is missing or equals the target: nothing happens *)
Lemma rename_noop s p q :
  lookup s (normalize_path p) = None \/ normalize_path p = normalize_path q -> fst (m_step s (Rename p q)) = bump s.
Proof.
  intros H. rewrite m_step_bump. cbn [fst m_step_raw]. unfold m_rename.
  destruct (lookup s (normalize_path p)) as [f|] eqn:Hl; [|match goal with |- context [if ?c then _ else _] => destruct c end; reflexivity].
  destruct H as [H|H]; [discriminate|]. rewrite H, beqb_refl. reflexivity.
Qed.

Lemma attr_lookup s o k : attr_op o = true -> lookup (fst (m_step s o)) k = lookup s k.
Proof.
  intros Ha. rewrite m_step_bump. cbn [fst]. change (lookup (bump ?x) k) with (lookup x k).
  destruct o; try discriminate Ha; cbn [m_step_raw].
  - unfold m_chmod, set_file_mode. rewrite PathProof.normalize_idempotent.
    destruct (lookup s (normalize_path p)); [apply MemFsWF.lookup_upd | reflexivity].
  - unfold m_chown. destruct (lookup s (normalize_path p)); [apply MemFsWF.lookup_upd | reflexivity].
  - unfold m_chtimes. destruct (lookup s (normalize_path p)); [apply MemFsWF.lookup_upd | reflexivity].
Qed.

(* the exact path map after Remove / RemoveAll *)
Lemma remove_lookup s p k' :
  WF s -> wf_name p = true -> normalize_path p <> s_slash ->
  lookup (fst (m_step s (Remove p))) k' = olookup s (rho_del (normalize_path p) k').
Proof.
  intros W Hw Hr. set (key := normalize_path p) in *. assert (Hc : canon key) by (apply canon_normalize; exact Hw).
  rewrite m_step_bump. cbn [fst m_step_raw]. unfold m_remove. fold key. change (lookup (bump ?x) k') with (lookup x k').
  unfold rho_del. destruct (lookup s key) as [f|] eqn:Hl.
  - pose proof (WF_fresh s key f W Hl) as Hname.
    destruct (GWF_unregister kempty kempty kempty s key f W Hl Hname Hr) as (q & qn & Hq & Hqn & Hqd & Hun & _); [intros [] | intros [] |].
    rewrite Hun. cbn [fst]. change (set_data ?s1 (alist_del key (mdata ?s1))) with (del_key s1 key).
    rewrite lookup_del_key. destruct (beqb key k'); [reflexivity|]. cbn [olookup]. apply MemFsWF.lookup_upd.
  - cbn [fst]. destruct (beqb key k') eqn:E; [|reflexivity]. apply beqb_eq in E. subst k'. exact Hl.
Qed.

Lemma removeall_lookup s p k' :
  WF s -> wf_name p = true -> normalize_path p <> s_slash ->
  lookup (fst (m_step s (RemoveAll p))) k' = olookup s (rho_prune (normalize_path p) k').
Proof.
  intros W Hw Hr. set (key := normalize_path p) in *. assert (Hc : canon key) by (apply canon_normalize; exact Hw).
  rewrite m_step_bump. cbn [fst m_step_raw]. unfold m_removeall. fold key. change (lookup (bump ?x) k') with (lookup x k').
  unfold rho_prune. destruct (lookup s key) as [f|] eqn:Hl.
  - pose proof (WF_fresh s key f W Hl) as Hname.
    destruct (GWF_unregister kempty kempty kempty s key f W Hl Hname Hr) as (q & qn & Hq & Hqn & Hqd & Hun & _); [intros [] | intros [] |].
    rewrite Hun. cbn [fst]. change (set_data ?s1 (filter (fun kv => negb (under key (fst kv))) (mdata ?s1))) with (prune s1 key).
    rewrite lookup_prune. destruct (under key k'); [reflexivity|]. cbn [olookup]. apply MemFsWF.lookup_upd.
  - assert (Hun : unregister s key = Some (s, false)) by (unfold unregister; now rewrite (lockfree_open_canon s key Hc), Hl).
    rewrite Hun. cbn [fst]. change (set_data s (filter (fun kv => negb (under key (fst kv))) (mdata s))) with (prune s key).
    rewrite lookup_prune. destruct (under key k'); reflexivity.
Qed.

(* a binding that comes from a renaming of the old path map is not fresh *)
Lemma no_fresh_of_olookup rho s s' : bound_ok s -> (forall k', lookup s' k' = olookup s (rho k')) ->
  forall k' r, lookup s' k' = Some r -> fresh_in s r -> False.
Proof.
  intros Hb Hl k' r Hk Hf. rewrite Hl in Hk. destruct (rho k') as [k|]; [|discriminate]. cbn [olookup] in Hk.
  destruct (Hb k r Hk) as (x & Hx). exact (fresh_not_old s r x Hf Hx).
Qed.
