(* Proofs/SftpProof.v — C19: lemmas and main theorems about Model/Sftp.v against Model/SftpSpec.v
   and the flat byte-array operations of Model/ByteFile.v.  Everything is for ALL states, ops and
   op sequences (no bounds); [wf] (every entry's parent is a directory) is only assumed where a
   statement speaks about ancestors or about the names a rename moves, and is shown to hold in
   every reachable state. *)
From AF Require Import Lib.Bytes Lib.Path Lib.Ops Gen.Consts Model.ByteFile Model.Sftp Model.SftpSpec
  Proofs.BytesLemmas.
Local Open Scope Z_scope.

(* ================================================================ A. bytes *)
Lemma zlen_nonneg {A} (l : list A) : 0 <= zlen l.
Proof. unfold zlen; lia. Qed.

Lemma firstn_zeros k n : firstn k (zeros n) = zeros (Nat.min k n).
Proof.
  unfold zeros. revert n; induction k as [|k IH]; intros [|n]; simpl; try reflexivity.
  now rewrite IH.
Qed.

Lemma skipn_zeros k n : skipn k (zeros n) = zeros (n - k).
Proof.
  unfold zeros. revert n; induction k as [|k IH]; intros [|n]; simpl; try reflexivity.
  now rewrite IH.
Qed.

(* skipn a (skipn b l) = skipn (b + a) l  (not in the 8.16 standard library) *)
Lemma skipn_skipn {A} (a b : nat) (l : list A) : skipn a (skipn b l) = skipn (b + a) l.
Proof.
  revert l; induction b as [|b IH]; intros l; [reflexivity|].
  destruct l as [|x l]; [now rewrite !skipn_nil | simpl; apply IH].
Qed.

Lemma zeros_0 : zeros 0 = [].
Proof. reflexivity. Qed.

(* the raw positional write (what ByteFile.pwrite is for a non-empty payload) *)
Definition pw (data : bytes) (off : nat) (b : bytes) : bytes :=
  firstn off (data ++ zeros (off - length data)) ++ b ++ skipn (off + length b) data.

Lemma pwrite_pw d o b : b <> [] -> pwrite d o b = pw d o b.
Proof. destruct b; [contradiction | reflexivity]. Qed.

(* the prefix of pw has exactly [off] bytes *)
Lemma pwrite_prefix_length (d : bytes) off :
  length (firstn off (d ++ zeros (off - length d))) = off.
Proof. rewrite firstn_length, app_length, zeros_length. lia. Qed.

Lemma srv_writeat_pw c off b : 0 <= off ->
  srv_writeat c off b = pw c (Z.to_nat off) b.
Proof.
  intros Hoff. unfold srv_writeat, pw, zlen.
  set (o := Z.to_nat off).
  assert (Ho : off = Z.of_nat o) by (subst o; lia).
  destruct (Z.ltb_spec 0 (Z.of_nat (length b) + off - Z.of_nat (length c))) as [Hg|Hg].
  - (* the file grows *)
    replace (Z.to_nat (Z.of_nat (length b) + off - Z.of_nat (length c)))
      with (length b + o - length c)%nat by lia.
    assert (Hlen : (length c < o + length b)%nat) by lia.
    rewrite copy_into_short
      by (rewrite skipn_length, app_length, zeros_length; lia).
    f_equal.
    + rewrite !firstn_app, !firstn_zeros. f_equal. f_equal. lia.
    + f_equal. rewrite skipn_skipn.
      rewrite (skipn_all2 c) by lia.
      apply skipn_all2. rewrite app_length, zeros_length. lia.
  - assert (Hlen : (o + length b <= length c)%nat) by lia.
    replace (o - length c)%nat with 0%nat by lia. rewrite zeros_0, app_nil_r.
    rewrite copy_into_short by (rewrite skipn_length; lia).
    now rewrite skipn_skipn.
Qed.

Lemma srv_truncate_ptrunc c n : 0 <= n -> srv_truncate c n = ptrunc c (Z.to_nat n).
Proof.
  intros Hn. unfold srv_truncate, ptrunc, zlen.
  destruct (Z.leb_spec (n - Z.of_nat (length c)) 0) as [Hg|Hg].
  - replace (Z.to_nat n - length c)%nat with 0%nat by lia. now rewrite zeros_0, app_nil_r.
  - replace (Z.to_nat (n - Z.of_nat (length c))) with (Z.to_nat n - length c)%nat by lia.
    symmetry. apply firstn_all2. rewrite app_length, zeros_length. lia.
Qed.

Lemma pw_length d o b : length (pw d o b) = Nat.max (length d) (o + length b).
Proof.
  unfold pw. rewrite !app_length, pwrite_prefix_length, skipn_length. lia.
Qed.

(* two consecutive writes are one write of the concatenation *)
Lemma pw_app d o a b : pw (pw d o a) (o + length a) b = pw d o (a ++ b).
Proof.
  unfold pw at 1.
  set (P := firstn o (d ++ zeros (o - length d))).
  assert (HP : length P = o) by apply pwrite_prefix_length.
  set (d1 := pw d o a).
  assert (Hd1 : d1 = (P ++ a) ++ skipn (o + length a) d)
    by (subst d1 P; unfold pw; now rewrite app_assoc).
  assert (Hl : length (P ++ a) = (o + length a)%nat) by (rewrite app_length; lia).
  replace (o + length a - length d1)%nat with 0%nat
    by (subst d1; rewrite pw_length; lia).
  rewrite zeros_0, app_nil_r.
  rewrite Hd1 at 1. rewrite <- Hl at 1. rewrite firstn_app_exact.
  rewrite Hd1. replace (o + length a + length b)%nat with (length (P ++ a) + length b)%nat by lia.
  rewrite <- skipn_skipn, skipn_app_exact, skipn_skipn.
  unfold pw. fold P. rewrite app_length, <- !app_assoc.
  do 3 f_equal. f_equal. lia.
Qed.

(* an empty raw write only zero-extends up to the offset *)
Lemma pw_nil d o : pw d o [] = zext d o.
Proof.
  unfold pw, zext, ptrunc. cbn [app length]. rewrite Nat.add_0_r.
  destruct (Nat.le_gt_cases o (length d)) as [H|H].
  - replace (o - length d)%nat with 0%nat by lia. rewrite zeros_0, app_nil_r, firstn_skipn.
    replace (Nat.max (length d) o) with (length d) by lia.
    rewrite Nat.sub_diag, zeros_0, app_nil_r. symmetry. apply firstn_all.
  - replace (Nat.max (length d) o) with o by lia.
    rewrite (skipn_all2 d) by lia. now rewrite app_nil_r.
Qed.

Lemma max_packet_pos : (0 < max_packet)%nat.
Proof. apply Nat.ltb_lt. vm_compute. reflexivity. Qed.

Lemma write_chunks_pw fuel : forall c off b, 0 <= off -> (length b < fuel)%nat ->
  write_chunks fuel c off b = pw c (Z.to_nat off) b.
Proof.
  induction fuel as [|fu IH]; intros c off b Hoff Hlen; [lia|].
  cbn [write_chunks].
  destruct (Nat.leb_spec (length b) max_packet) as [Hs|Hs].
  - now apply srv_writeat_pw.
  - pose proof max_packet_pos as Hm.
    rewrite IH; [| lia | rewrite skipn_length; lia].
    rewrite srv_writeat_pw by exact Hoff.
    replace (Z.to_nat (off + Z.of_nat max_packet))
      with (Z.to_nat off + length (firstn max_packet b))%nat
      by (rewrite firstn_length; lia).
    rewrite pw_app, firstn_skipn. reflexivity.
Qed.

(* the packet loop against the flat-array spec: pwrite for a non-empty payload, the zero
   extension for an empty one *)
Lemma write_chunks_pwrite c off b : 0 <= off -> b <> [] ->
  write_chunks (S (length b)) c off b = pwrite c (Z.to_nat off) b.
Proof. intros Ho Hb. rewrite write_chunks_pw by lia. symmetry. now apply pwrite_pw. Qed.

Lemma write_chunks_nil c off : 0 <= off -> write_chunks 1 c off [] = zext c (Z.to_nat off).
Proof. intros Ho. rewrite write_chunks_pw by (simpl; lia). apply pw_nil. Qed.

(* from here on the packet loop is only used through write_chunks_pwrite / write_chunks_nil *)
Global Opaque write_chunks max_packet.

(* ================================================================ B. keys and maps *)
Lemma beqb_eq a b : beqb a b = true <-> a = b.
Proof.
  revert b; induction a as [|x a IH]; intros [|y b]; simpl; try (split; [discriminate | discriminate]).
  - split; reflexivity.
  - rewrite andb_true_iff, N.eqb_eq, IH. split.
    + intros [-> ->]; reflexivity.
    + intros H; inversion H; auto.
Qed.

Lemma keqb_eq a b : keqb a b = true <-> a = b.
Proof.
  revert b; induction a as [|x a IH]; intros [|y b]; simpl; try (split; [discriminate | discriminate]).
  - split; reflexivity.
  - rewrite andb_true_iff, beqb_eq, IH. split.
    + intros [-> ->]; reflexivity.
    + intros H; inversion H; auto.
Qed.

Lemma keqb_refl a : keqb a a = true.
Proof. now apply keqb_eq. Qed.

Lemma keqb_neq a b : a <> b -> keqb a b = false.
Proof. intros H. destruct (keqb a b) eqn:E; [apply keqb_eq in E; contradiction | reflexivity]. Qed.

Lemma kget_kset_same {A} k (v : A) t : kget k (kset k v t) = Some v.
Proof.
  induction t as [|[k' v'] t IH]; simpl.
  - now rewrite keqb_refl.
  - destruct (keqb k k') eqn:E; simpl; [now rewrite keqb_refl | now rewrite E].
Qed.

Lemma kget_kset_other {A} k q (v : A) t : q <> k -> kget q (kset k v t) = kget q t.
Proof.
  intros Hq. induction t as [|[k' v'] t IH]; simpl.
  - now rewrite keqb_neq.
  - destruct (keqb k k') eqn:E; simpl.
    + apply keqb_eq in E; subst k'. now rewrite keqb_neq.
    + now rewrite IH.
Qed.

Lemma kget_kdel_same {A} k (t : list (pkey * A)) : kget k (kdel k t) = None.
Proof.
  induction t as [|[k' v'] t IH]; simpl; [reflexivity|].
  destruct (keqb k k') eqn:E; simpl; [exact IH | now rewrite E].
Qed.

Lemma kget_kdel_other {A} k q (t : list (pkey * A)) : q <> k -> kget q (kdel k t) = kget q t.
Proof.
  intros Hq. induction t as [|[k' v'] t IH]; simpl; [reflexivity|].
  destruct (keqb k k') eqn:E; simpl.
  - apply keqb_eq in E; subst k'. now rewrite keqb_neq.
  - now rewrite IH.
Qed.

Lemma kget_In {A} k (v : A) t : kget k t = Some v -> In (k, v) t.
Proof.
  induction t as [|[k' v'] t IH]; simpl; [discriminate|].
  destruct (keqb k k') eqn:E.
  - apply keqb_eq in E; subst. intros H; inversion H; now left.
  - intros H; right; auto.
Qed.

Lemma In_kset {A} k (v : A) t x : In x (kset k v t) -> x = (k, v) \/ In x t.
Proof.
  induction t as [|[k' v'] t IH]; simpl.
  - intros [H|[]]; now left.
  - destruct (keqb k k'); simpl.
    + intros [H|H]; [now left | right; now right].
    + intros [H|H]; [right; now left | destruct (IH H); [now left | right; now right]].
Qed.

Lemma In_kdel {A} k (t : list (pkey * A)) x : In x (kdel k t) -> In x t /\ fst x <> k.
Proof.
  induction t as [|[k' v'] t IH]; simpl; [intros []|].
  destruct (keqb k k') eqn:E; simpl.
  - intros H; destruct (IH H); split; [now right | assumption].
  - intros [H|H].
    + subst x; split; [now left|]. simpl. intros ->. now rewrite keqb_refl in E.
    + destruct (IH H); split; [now right | assumption].
Qed.

Lemma list_set_same {A} i (l : list A) d : list_set i (nth i l d) l = l.
Proof.
  revert i; induction l as [|x l IH]; intros [|i]; simpl; try reflexivity. now rewrite IH.
Qed.

Lemma lfetch_kset t k v q : k <> [] ->
  lfetch (kset k v t) q = if keqb q k then Some v else lfetch t q.
Proof.
  intros Hk. destruct (keqb q k) eqn:E.
  - apply keqb_eq in E; subst q. destruct k; [contradiction|]. cbn [lfetch]. apply kget_kset_same.
  - destruct q; [reflexivity|]. cbn [lfetch]. apply kget_kset_other.
    intros Heq. rewrite Heq, keqb_refl in E. discriminate.
Qed.

Lemma lfetch_kdel t k q : q <> k -> lfetch (kdel k t) q = lfetch t q.
Proof.
  intros Hq. destruct q as [|x q]; simpl; [reflexivity|]. now apply kget_kdel_other.
Qed.

Lemma lfetch_none_nonroot t k : lfetch t k = None -> k <> [].
Proof. intros H ->. discriminate. Qed.

(* ================================================================ C. what a step does to the file objects *)
Lemma srv_truncate_0 c : srv_truncate c 0 = [].
Proof.
  unfold srv_truncate. pose proof (zlen_nonneg c).
  destruct (Z.leb_spec (0 - zlen c) 0); [reflexivity | lia].
Qed.

Lemma srv_openfile_ok s k cr ex tr s' id :
  srv_openfile s k cr ex tr = SfOk (s', id) ->
  lfetch (sv_tree s') k = Some (SfFile id) /\
  sv_objs s' = match lfetch (sv_tree s) k with
              | Some (SfFile i) => if tr then list_set i [] (sv_objs s) else sv_objs s
              | Some SfDir => sv_objs s
              | None => sv_objs s ++ [[]]
              end.
Proof.
  unfold srv_openfile. destruct (lfetch (sv_tree s) k) as [n|] eqn:El.
  - destruct (cr && ex); [discriminate|]. destruct n as [|i]; [discriminate|].
    intros H; inversion H; subst. destruct tr; simpl; rewrite ?srv_truncate_0; auto.
  - destruct cr; [|discriminate]. unfold putfile.
    destruct (canon_err (sv_tree s) k); [discriminate|]. rewrite El.
    intros H; inversion H; subst; simpl. split; [|reflexivity].
    rewrite lfetch_kset by (eapply lfetch_none_nonroot; eauto). now rewrite keqb_refl.
Qed.

Lemma srv_setstat_none_after s k id : lfetch (sv_tree s) k = Some (SfFile id) -> srv_setstat s k None = SfOk s.
Proof. intros H. unfold srv_setstat, srv_openfile. now rewrite H. Qed.

Lemma srv_setstat_none_objs s k s' : srv_setstat s k None = SfOk s' -> s' = s.
Proof.
  unfold srv_setstat, srv_openfile. destruct (lfetch (sv_tree s) k) as [[|i]|]; simpl; try discriminate.
  intros H; now inversion H.
Qed.

Lemma c_open_ok s name flag cl s' f :
  c_open s name flag cl = SfOk (s', f) ->
  lfetch (sv_tree s') (sf_key f) = Some (SfFile (sf_obj f)) /\
  sf_key f = skey name /\ sf_off f = 0 /\ sf_closed f = false /\
  sv_objs s' = acct_open (sv_tree s) name (has_flag flag o_trunc) (sv_objs s).
Proof.
  unfold c_open, acct_open. cbv zeta. intros H.
  assert (Hm : exists m,
    match srv_openfile s (skey name) (has_flag flag o_create) (has_flag flag o_excl) (has_flag flag o_trunc) with
    | SfErr e => SfErr e
    | SfOk (s0, id) => SfOk (s0, mkSfFile name (skey name) id m 0 false cl)
    end = SfOk (s', f)).
  { repeat match type of H with context [if ?b then _ else _] => destruct b end;
      try discriminate; eexists; exact H. }
  clear H. destruct Hm as [m H].
  destruct (srv_openfile s (skey name) _ _ _) as [[s1 id]|e] eqn:E; [|discriminate].
  inversion H; subst; simpl. apply srv_openfile_ok in E. destruct E as [E1 E2]. auto.
Qed.

(* the tail of MkdirAll: Mkdir, and on error the Lstat double-check *)
Definition mk_finish (s1 : server) (path : str) : server * res :=
  match fs_mkdir s1 path with
  | (s2, RErr e) => match srv_stat s2 (skey path) with
                    | Some (true, _) => (s2, ROk)
                    | _ => (s2, RErr e)
                    end
  | (s2, _) => (s2, ROk)
  end.

Lemma fs_mkdirall_eq fixed fuel s path :
  fs_mkdirall fixed fuel s path =
  match srv_stat s (skey path) with
  | Some (true, _) => (s, ROk)
  | Some (false, _) => (s, if fixed then RErr (EW KENOTDIR) else ROk)
  | None =>
      match parent_of path with
      | None => mk_finish s path
      | Some par =>
          match fuel with
          | O => (s, RErr eFail)
          | S fu => match fs_mkdirall fixed fu s par with
                    | (s1, ROk) => mk_finish s1 path
                    | (s1, r) => (s1, r)
                    end
          end
      end
  end.
Proof. destruct fuel; reflexivity. Qed.

Lemma srv_mkdir_objs s k s' : srv_mkdir s k = SfOk s' -> sv_objs s' = sv_objs s.
Proof. unfold srv_mkdir. destruct (putfile _ _ _); [|discriminate]. intros H; now inversion H. Qed.

Lemma fs_mkdir_objs s p : sv_objs (fst (fs_mkdir s p)) = sv_objs s.
Proof.
  unfold fs_mkdir. destruct (srv_mkdir s (skey p)) as [s1|e] eqn:E; [|reflexivity].
  simpl. eapply srv_mkdir_objs; eauto.
Qed.

Lemma mk_finish_objs s p : sv_objs (fst (mk_finish s p)) = sv_objs s.
Proof.
  unfold mk_finish. pose proof (fs_mkdir_objs s p) as H.
  destruct (fs_mkdir s p) as [s2 r]; simpl in H.
  destruct r; simpl; try exact H.
  destruct (srv_stat s2 (skey p)) as [[[|] ?]|]; exact H.
Qed.

Lemma fs_mkdirall_objs fixed fuel : forall s p, sv_objs (fst (fs_mkdirall fixed fuel s p)) = sv_objs s.
Proof.
  induction fuel as [|fu IH]; intros s p; rewrite fs_mkdirall_eq;
    destruct (srv_stat s (skey p)) as [[[|] ?]|]; try reflexivity;
    destruct (parent_of p) as [par|]; try apply mk_finish_objs; try reflexivity.
  specialize (IH s par). destruct (fs_mkdirall fixed fu s par) as [s1 r]; simpl in IH.
  destruct r; try exact IH. rewrite mk_finish_objs. exact IH.
Qed.

Lemma fs_remove_objs s p : sv_objs (fst (fs_remove s p)) = sv_objs s.
Proof.
  unfold fs_remove. destruct (lfetch (sv_tree s) (skey p)) as [[|i]|]; try reflexivity.
  unfold srv_rmdir. destruct (lfetch (sv_tree s) (skey p)) as [[|i]|]; try reflexivity.
  destruct (has_child _ _); reflexivity.
Qed.

Lemma srv_rename_objs s a b s' : srv_rename s a b = SfOk s' -> sv_objs s' = sv_objs s.
Proof.
  unfold srv_rename. destruct (srv_exists _ _); [discriminate|].
  destruct (lfetch _ a); [|discriminate]. destruct a; [discriminate|].
  destruct (canon_err _ _); [discriminate|]. destruct (kstrip _ _); [discriminate|].
  intros H; now inversion H.
Qed.

Lemma fs_rename_objs s a b : sv_objs (fst (fs_rename s a b)) = sv_objs s.
Proof.
  unfold fs_rename. destruct (srv_rename s (skey a) (skey b)) eqn:E; [|reflexivity].
  simpl. eapply srv_rename_objs; eauto.
Qed.

Lemma firstn_zlen (b : bytes) : firstn (Z.to_nat (zlen b)) b = b.
Proof. unfold zlen. rewrite Nat2Z.id. apply firstn_all. Qed.

Lemma is_empty_zlen (b : bytes) : zlen b = 0 -> is_empty b = true.
Proof. destruct b; [reflexivity | unfold zlen; simpl; lia]. Qed.

Lemma srv_openfile_nocreate s k ex s' id : srv_openfile s k false ex false = SfOk (s', id) -> s' = s.
Proof.
  unfold srv_openfile. destruct (lfetch (sv_tree s) k) as [[|i]|]; simpl; try discriminate.
  intros H; now inversion H.
Qed.

Lemma c_open_rdonly_objs s p cl s' f : c_open s p o_rdonly cl = SfOk (s', f) -> sv_objs s' = sv_objs s.
Proof.
  unfold c_open. cbv zeta.
  change (Z.land o_rdonly 3) with 0. change (has_flag o_rdonly o_append) with false.
  change (has_flag o_rdonly o_create) with false. change (has_flag o_rdonly o_trunc) with false.
  change (has_flag o_rdonly o_excl) with false. cbn [Z.eqb orb o_rdonly o_wronly o_rdwr].
  destruct (srv_openfile s (skey p) false false false) as [[s1 id]|e] eqn:E; [|discriminate].
  intros H; inversion H; subst. apply srv_openfile_nocreate in E. now subst.
Qed.

Lemma acc_seq_ok_write c off b : 0 <= off ->
  write_chunks (S (length b)) c off b = acc_seq c off b (zlen b) None.
Proof.
  intros Ho. unfold acc_seq. destruct b as [|x b].
  - now apply write_chunks_nil.
  - destruct (Z.eqb_spec (zlen (x :: b)) 0) as [Hz|Hz]; [unfold zlen in Hz; simpl in Hz; lia|].
    rewrite firstn_zlen. apply write_chunks_pwrite; [exact Ho | discriminate].
Qed.

Lemma acc_seq_err c off b e : acc_seq c off b 0 (Some e) = c.
Proof. unfold acc_seq. destruct b; reflexivity. Qed.

Lemma c_writeat_acc c f b off c' n e : c_writeat c f b off = (c', n, e) ->
  match c' with Some x => x = acc_seq c off b n e | None => acc_seq c off b n e = c end.
Proof.
  unfold c_writeat. destruct (sf_closed f).
  { intros Hx; inversion Hx; subst. apply acc_seq_err. }
  destruct (sf_mode f).
  - destruct (Z.ltb_spec off 0).
    { intros Hx; inversion Hx; subst. apply acc_seq_err. }
    intros Hx; inversion Hx; subst. now apply acc_seq_ok_write.
  - intros Hx; inversion Hx; subst. apply acc_seq_err.
  - destruct (Z.ltb_spec off 0).
    { intros Hx; inversion Hx; subst. apply acc_seq_err. }
    intros Hx; inversion Hx; subst. now apply acc_seq_ok_write.
Qed.

Lemma write_acct_objs (s : server) f c' n e b :
  match c' with Some x => x = acc_seq (obj_content (sv_objs s) (sf_obj f)) (sf_off f) b n e
              | None => acc_seq (obj_content (sv_objs s) (sf_obj f)) (sf_off f) b n e = obj_content (sv_objs s) (sf_obj f) end ->
  sv_objs (sf_upd_obj s (sf_obj f) c') =
  list_set (sf_obj f) (acc_seq (obj_content (sv_objs s) (sf_obj f)) (sf_off f) b n e) (sv_objs s).
Proof.
  destruct c' as [x|]; cbn.
  - now intros ->.
  - intros ->. unfold obj_content. now rewrite list_set_same.
Qed.

(* the central step lemma: the file objects after a step are what the REPORTED result accounts for *)
Lemma step_acct st it :
  sv_objs (sst_srv (fst (sftp_step st it))) = acct st it (snd (sftp_step st it)) (sv_objs (sst_srv st)).
Proof.
  destruct it as [slot o]. destruct st as [s slots].
  destruct o; unfold sftp_step, acct; cbn [fst snd sst_srv sst_slots].
  - (* Create *)
    destruct (c_open s p create_flags true) as [[s' f]|e] eqn:E; cbn; [|reflexivity].
    apply c_open_ok in E. destruct E as (_ & _ & _ & _ & E). exact E.
  - (* Mkdir *)
    pose proof (fs_mkdir_objs s p) as H. destruct (fs_mkdir s p) as [s' r]. cbn in *.
    rewrite H. destruct r; reflexivity.
  - (* MkdirAll *)
    pose proof (fs_mkdirall_objs (Z.eqb sftp_mkdirall_enotdir 1) (S (length p)) s p) as H.
    destruct (fs_mkdirall (Z.eqb sftp_mkdirall_enotdir 1) (S (length p)) s p) as [s' r]. cbn in *.
    rewrite H. destruct r; reflexivity.
  - (* Open *)
    destruct (c_open s p o_rdonly true) as [[s' f]|e] eqn:E; cbn; [|reflexivity].
    eapply c_open_rdonly_objs; eauto.
  - (* OpenFile *)
    destruct (c_open s p flag (Z.eqb sftp_openfile_client 1)) as [[s' f]|e] eqn:E; cbn; [|reflexivity].
    apply c_open_ok in E. destruct E as (E1 & _ & _ & _ & E).
    rewrite (srv_setstat_none_after _ _ _ E1). cbn. exact E.
  - (* Remove *)
    pose proof (fs_remove_objs s p) as H. destruct (fs_remove s p) as [s' r]. cbn in *.
    rewrite H. destruct r; reflexivity.
  - reflexivity.
  - (* Rename *)
    pose proof (fs_rename_objs s p q) as H. destruct (fs_rename s p q) as [s' r]. cbn in *.
    rewrite H. destruct r; reflexivity.
  - cbn. destruct (fs_stat s p); reflexivity.
  - cbn. destruct (fs_setattr s p); reflexivity.
  - cbn. destruct (fs_setattr s p); reflexivity.
  - cbn. destruct (fs_setattr s p); reflexivity.
  - (* HRead *)
    destruct (sf_slot_get slots h) as [f|]; [|reflexivity].
    destruct (c_readat _ f n (sf_off f)) as [b e]. reflexivity.
  - destruct (sf_slot_get slots h) as [f|]; [|reflexivity].
    destruct (c_readat _ f n off) as [b e]. reflexivity.
  - (* HWrite *)
    destruct (sf_slot_get slots h) as [f|] eqn:Eh; [|reflexivity].
    destruct (c_writeat _ f b (sf_off f)) as [[c' n] e] eqn:E. cbn.
    apply write_acct_objs. eapply c_writeat_acc; eauto.
  - (* HWriteAt: file.go returns (0, nil) *)
    destruct (sf_slot_get slots h) as [f|] eqn:Eh; [|reflexivity]. cbn.
    unfold acc_at. cbn. unfold obj_content. now rewrite list_set_same.
  - (* HWriteString *)
    destruct (sf_slot_get slots h) as [f|] eqn:Eh; [|reflexivity].
    destruct (c_writeat _ f b (sf_off f)) as [[c' n] e] eqn:E. cbn.
    apply write_acct_objs. eapply c_writeat_acc; eauto.
  - (* HSeek *)
    destruct (sf_slot_get slots h) as [f|] eqn:Eh; [|reflexivity].
    destruct (sf_closed f); [reflexivity|].
    repeat match goal with |- context [if ?b then _ else _] => destruct b end;
      repeat match goal with |- context [match srv_stat ?a ?b with _ => _ end] => destruct (srv_stat a b) as [[? ?]|] end;
      try reflexivity;
      repeat match goal with |- context [if ?b then _ else _] => destruct b end; reflexivity.
  - (* HTruncate *)
    destruct (sf_slot_get slots h) as [f|] eqn:Eh; [|reflexivity].
    destruct (sf_closed f); [reflexivity|].
    unfold srv_setstat, srv_openfile.
    destruct (lfetch (sv_tree s) (sf_key f)) as [[|i]|] eqn:El; cbn; try reflexivity.
    destruct (Z.ltb_spec n 0); cbn; [reflexivity|].
    now rewrite srv_truncate_ptrunc by lia.
  - (* HClose *)
    destruct (sf_slot_get slots h) as [f|]; [|reflexivity]. destruct (sf_closed f); reflexivity.
  - (* HReaddir *)
    destruct (sf_slot_get slots h) as [f|]; [|reflexivity]. destruct (sf_client f); [|reflexivity].
    destruct (sff_readdir s f n); reflexivity.
  - destruct (sf_slot_get slots h) as [f|]; [|reflexivity]. destruct (sf_client f); [|reflexivity].
    destruct (sff_readdir s f n); reflexivity.
  - (* HStat *)
    destruct (sf_slot_get slots h) as [f|]; [|reflexivity]. destruct (sf_closed f); [reflexivity|].
    destruct (srv_stat s (sf_key f)) as [[? ?]|]; reflexivity.
  - destruct (sf_slot_get slots h) as [f|]; reflexivity.
  - destruct (sf_slot_get slots h) as [f|]; reflexivity.
Qed.

(* ================================================================ D. sequences: no write is silently dropped *)
Lemma accounted_cons st it r tr o : accounted ((st, it, r) :: tr) o = accounted tr (acct st it r o).
Proof. reflexivity. Qed.

Theorem writes_accounted : forall (items : list sitem) (st : sftp_state),
  sv_objs (sst_srv (fst (sftp_run st items))) = accounted (sftp_trace st items) (sv_objs (sst_srv st)).
Proof.
  induction items as [|it items IH]; intros st; [reflexivity|].
  cbn [sftp_run sftp_trace].
  pose proof (step_acct st it) as Hs.
  destruct (sftp_step st it) as [st1 x]. cbn [fst snd] in Hs.
  specialize (IH st1). destruct (sftp_run st1 items) as [st2 xs]. cbn [fst] in *.
  rewrite accounted_cons, <- Hs. exact IH.
Qed.

(* the trace records exactly the reported results *)
Lemma trace_results : forall items st, map (fun e => snd e) (sftp_trace st items) = snd (sftp_run st items).
Proof.
  induction items as [|it items IH]; intros st; [reflexivity|].
  cbn [sftp_run sftp_trace]. destruct (sftp_step st it) as [st1 x].
  specialize (IH st1). destruct (sftp_run st1 items) as [st2 xs]. cbn in *. now rewrite IH.
Qed.

(* a full count with no error stored the whole payload at the position; a zero count stored nothing *)
Lemma acc_seq_full d pos b : b <> [] -> acc_seq d pos b (zlen b) None = pwrite d (Z.to_nat pos) b.
Proof.
  intros Hb. unfold acc_seq. destruct b as [|x b]; [contradiction|].
  destruct (Z.eqb_spec (zlen (x :: b)) 0) as [Hz|Hz]; [unfold zlen in Hz; simpl in Hz; lia|].
  now rewrite firstn_zlen.
Qed.
Lemma acc_seq_zero d pos b e : b <> [] -> acc_seq d pos b 0 e = d.
Proof. unfold acc_seq. destruct b; [contradiction|]. reflexivity. Qed.
Lemma acc_seq_empty d pos : acc_seq d pos [] 0 None = zext d (Z.to_nat pos).
Proof. reflexivity. Qed.
Lemma acc_at_zero d off b : acc_at d off b 0 = d.
Proof. reflexivity. Qed.
Lemma acc_at_full d off b : b <> [] -> acc_at d off b (zlen b) = pwrite d (Z.to_nat off) b.
Proof.
  intros Hb. unfold acc_at. rewrite firstn_zlen.
  destruct (Z.eqb_spec (zlen b) 0) as [Hz|Hz]; [|reflexivity].
  destruct b; [contradiction | unfold zlen in Hz; simpl in Hz; lia].
Qed.

(* ================================================================ E. reads return what the server holds *)
Theorem reads_exact st it r :
  spec_read st (sv_objs (sst_srv st)) it = Some r -> snd (sftp_step st it) = r.
Proof.
  destruct it as [slot o]. destruct st as [s slots]. unfold spec_read, sftp_step.
  cbn [fst snd sst_srv sst_slots].
  destruct o; try discriminate.
  - (* Stat *)
    unfold fs_stat, srv_stat, spec_size.
    destruct (lfetch (sv_tree s) (skey p)) as [[|i]|]; intros Hx; inversion Hx; reflexivity.
  - (* HRead *)
    destruct (sf_slot_get slots h) as [f|]; [|discriminate].
    unfold c_readat. destruct (sf_closed f); [discriminate|].
    destruct (sf_mode f); cbn [andb]; try discriminate;
      (destruct (Z.leb_spec 0 (sf_off f)) as [Ho|Ho]; [|discriminate]);
      intros Hx; inversion Hx; subst; clear Hx;
      (destruct (Z.leb_spec n 0) as [Hn|Hn];
       [ replace (Z.to_nat n) with 0%nat by lia; unfold pread; cbn;
         destruct (Z.ltb_spec 0 n); [lia | reflexivity]
       | destruct (Z.ltb_spec (sf_off f) 0); [lia|]; reflexivity ]).
  - (* HReadAt *)
    destruct (sf_slot_get slots h) as [f|]; [|discriminate].
    unfold c_readat. destruct (sf_closed f); [discriminate|].
    destruct (sf_mode f); cbn [andb]; try discriminate;
      (destruct (Z.leb_spec 0 off) as [Ho|Ho]; [|discriminate]);
      intros Hx; inversion Hx; subst; clear Hx;
      (destruct (Z.leb_spec n 0) as [Hn|Hn];
       [ replace (Z.to_nat n) with 0%nat by lia; unfold pread; cbn;
         destruct (Z.ltb_spec 0 n); [lia | reflexivity]
       | destruct (Z.ltb_spec off 0); [lia|]; reflexivity ]).
  - (* HSeek *)
    destruct (sf_slot_get slots h) as [f|]; [|discriminate].
    destruct (sf_closed f); [discriminate|].
    unfold srv_stat, spec_size.
    destruct (Z.eqb_spec whence 0) as [W0|W0].
    { destruct (Z.leb_spec 0 off); [|discriminate]. intros Hx; inversion Hx; subst.
      destruct (Z.ltb_spec off 0); [lia | reflexivity]. }
    destruct (Z.eqb_spec whence 1) as [W1|W1].
    { destruct (Z.leb_spec 0 (sf_off f + off)); [|discriminate]. intros Hx; inversion Hx; subst.
      destruct (Z.ltb_spec (off + sf_off f) 0); [lia|]. cbn. now rewrite Z.add_comm. }
    destruct (Z.eqb_spec whence 2) as [W2|W2]; [|discriminate].
    destruct (lfetch (sv_tree s) (sf_key f)) as [[|i]|]; try discriminate.
    + destruct (Z.leb_spec 0 (0 + off)); [|discriminate]. intros Hx; inversion Hx; subst.
      destruct (Z.ltb_spec (off + 0) 0); [lia|]. cbn. now rewrite Z.add_comm.
    + destruct (Z.leb_spec 0 (zlen (obj_content (sv_objs s) i) + off)); [|discriminate].
      intros Hx; inversion Hx; subst.
      destruct (Z.ltb_spec (off + zlen (obj_content (sv_objs s) i)) 0); [lia|]. cbn. now rewrite Z.add_comm.
  - (* HStat *)
    destruct (sf_slot_get slots h) as [f|]; [|discriminate].
    destruct (sf_closed f); [discriminate|].
    unfold srv_stat, spec_size.
    destruct (lfetch (sv_tree s) (sf_key f)) as [[|i]|]; intros Hx; inversion Hx; reflexivity.
Qed.

(* ================================================================ F. the position of a handle is the sum of what was reported *)
Definition next_off (o : op) (i : nat) (off : Z) (r : res) : Z :=
  match o, r with
  | HRead j _, RData b _ => if Nat.eqb i j then off + zlen b else off
  | HWrite j _, RCount n _ | HWriteString j _, RCount n _ => if Nat.eqb i j then off + n else off
  | HSeek j _ _, RPos p None => if Nat.eqb i j then p else off
  | _, _ => off
  end.

Definition rebinds (slot : option nat) (o : op) (i : nat) : Prop :=
  match o with
  | Create _ | Open _ | OpenFile _ _ _ => slot = Some i
  | _ => False
  end.

Lemma slot_get_list_set slots h i f g : sf_slot_get slots h = Some f ->
  sf_slot_get (list_set h (Some g) slots) i = if Nat.eqb i h then Some g else sf_slot_get slots i.
Proof.
  unfold sf_slot_get. revert h i; induction slots as [|x slots IH]; intros [|h] [|i]; simpl; try discriminate; auto.
Qed.

Lemma slot_get_slot_set_other : forall j slots i g, i <> j ->
  sf_slot_get (sf_slot_set j g slots) i = sf_slot_get slots i.
Proof.
  unfold sf_slot_get. induction j as [|j IH]; intros slots i g Hij.
  - destruct i; [contradiction|]. destruct slots; simpl; [destruct i; reflexivity | reflexivity].
  - destruct slots as [|x slots]; destruct i as [|i]; simpl; try reflexivity.
    + rewrite IH by congruence. destruct i; reflexivity.
    + apply IH; congruence.
Qed.

Lemma slot_get_bind s slots slot g i : slot <> Some i ->
  sf_slot_get (sst_slots (sf_bind s slots slot g)) i = sf_slot_get slots i.
Proof.
  unfold sf_bind. destruct slot as [j|]; cbn; [|reflexivity].
  intros H. apply slot_get_slot_set_other. congruence.
Qed.

Definition same_handle (f f' : sfile) : Prop :=
  sf_obj f' = sf_obj f /\ sf_key f' = sf_key f /\ sf_mode f' = sf_mode f /\ sf_name f' = sf_name f.

Theorem offsets_track_reports st slot o i f :
  sf_slot_get (sst_slots st) i = Some f -> ~ rebinds slot o i ->
  exists f', sf_slot_get (sst_slots (fst (sftp_step st (slot, o)))) i = Some f' /\
             same_handle f f' /\
             sf_off f' = next_off o i (sf_off f) (snd (sftp_step st (slot, o))).
Proof.
  destruct st as [s slots]. cbn [sst_slots]. intros Hi Hnr.
  assert (Hsame : same_handle f f) by (repeat split).
  assert (Hkeep : exists f', sf_slot_get slots i = Some f' /\ same_handle f f' /\ sf_off f' = sf_off f)
    by (exists f; auto).
  destruct o; unfold sftp_step, next_off, rebinds in *; cbn [fst snd sst_srv sst_slots].
  - destruct (c_open s p create_flags true) as [[s' g]|e]; cbn [fst snd sst_slots]; [|(cbn; apply Hkeep)].
    exists f. rewrite slot_get_bind by exact Hnr. auto.
  - destruct (fs_mkdir s p) as [s' r]; cbn. destruct r; (cbn; apply Hkeep).
  - destruct (fs_mkdirall (Z.eqb sftp_mkdirall_enotdir 1) (S (length p)) s p) as [s' r]; cbn. destruct r; (cbn; apply Hkeep).
  - destruct (c_open s p o_rdonly true) as [[s' g]|e]; cbn [fst snd sst_slots]; [|(cbn; apply Hkeep)].
    exists f. rewrite slot_get_bind by exact Hnr. auto.
  - destruct (c_open s p flag (Z.eqb sftp_openfile_client 1)) as [[s' g]|e]; cbn [fst snd sst_slots]; [|(cbn; apply Hkeep)].
    destruct (srv_setstat s' (sf_key g) None); cbn [fst snd sst_slots]; [|(cbn; apply Hkeep)].
    exists f. rewrite slot_get_bind by exact Hnr. auto.
  - destruct (fs_remove s p) as [s' r]; cbn. destruct r; (cbn; apply Hkeep).
  - (cbn; apply Hkeep).
  - destruct (fs_rename s p q) as [s' r]; cbn. destruct r; (cbn; apply Hkeep).
  - cbn. destruct (fs_stat s p); (cbn; apply Hkeep).
  - cbn. destruct (fs_setattr s p); (cbn; apply Hkeep).
  - cbn. destruct (fs_setattr s p); (cbn; apply Hkeep).
  - cbn. destruct (fs_setattr s p); (cbn; apply Hkeep).
  - (* HRead *)
    destruct (sf_slot_get slots h) as [g|] eqn:Eh; cbn [fst snd sst_slots]; [|rewrite Hi; eauto].
    destruct (c_readat _ g n (sf_off g)) as [b e]. cbn [fst snd sst_slots].
    rewrite (slot_get_list_set _ _ _ _ _ Eh).
    destruct (Nat.eqb_spec i h) as [->|Hne]; [|eauto].
    rewrite Hi in Eh; inversion Eh; subst g. eexists; split; [reflexivity|]. split; [repeat split | reflexivity].
  - destruct (sf_slot_get slots h) as [g|] eqn:Eh; cbn [fst snd sst_slots]; [|rewrite Hi; eauto].
    destruct (c_readat _ g n off) as [b e]. cbn. rewrite Hi; eauto.
  - (* HWrite *)
    destruct (sf_slot_get slots h) as [g|] eqn:Eh; cbn [fst snd sst_slots]; [|rewrite Hi; eauto].
    destruct (c_writeat _ g b (sf_off g)) as [[c' n] e]. cbn [fst snd sst_slots].
    rewrite (slot_get_list_set _ _ _ _ _ Eh).
    destruct (Nat.eqb_spec i h) as [->|Hne]; [|eauto].
    rewrite Hi in Eh; inversion Eh; subst g. eexists; split; [reflexivity|]. split; [repeat split | reflexivity].
  - destruct (sf_slot_get slots h) as [g|] eqn:Eh; cbn [fst snd sst_slots]; rewrite Hi; eauto.
  - (* HWriteString *)
    destruct (sf_slot_get slots h) as [g|] eqn:Eh; cbn [fst snd sst_slots]; [|rewrite Hi; eauto].
    destruct (c_writeat _ g b (sf_off g)) as [[c' n] e]. cbn [fst snd sst_slots].
    rewrite (slot_get_list_set _ _ _ _ _ Eh).
    destruct (Nat.eqb_spec i h) as [->|Hne]; [|eauto].
    rewrite Hi in Eh; inversion Eh; subst g. eexists; split; [reflexivity|]. split; [repeat split | reflexivity].
  - (* HSeek *)
    destruct (sf_slot_get slots h) as [g|] eqn:Eh; cbn [fst snd sst_slots]; [|rewrite Hi; eauto].
    destruct (sf_closed g); cbn [fst snd sst_slots]; [rewrite Hi; eauto|].
    match goal with |- context [match ?tt with SfOk _ => _ | SfErr _ => _ end] => destruct tt as [tg|e] end;
      cbn [fst snd sst_slots]; [|rewrite Hi; eauto].
    destruct (tg <? 0); cbn [fst snd sst_slots]; [rewrite Hi; eauto|].
    rewrite (slot_get_list_set _ _ _ _ _ Eh).
    destruct (Nat.eqb_spec i h) as [->|Hne]; [|eauto].
    rewrite Hi in Eh; inversion Eh; subst g. eexists; split; [reflexivity|]. split; [repeat split | reflexivity].
  - (* HTruncate *)
    destruct (sf_slot_get slots h) as [g|] eqn:Eh; cbn [fst snd sst_slots]; [|rewrite Hi; eauto].
    destruct (sf_closed g); cbn [fst snd sst_slots]; [rewrite Hi; eauto|].
    destruct (srv_setstat s (sf_key g) (Some n)); cbn; rewrite Hi; eauto.
  - (* HClose *)
    destruct (sf_slot_get slots h) as [g|] eqn:Eh; cbn [fst snd sst_slots]; [|rewrite Hi; eauto].
    destruct (sf_closed g); cbn [fst snd sst_slots]; [rewrite Hi; eauto|].
    rewrite (slot_get_list_set _ _ _ _ _ Eh).
    destruct (Nat.eqb_spec i h) as [->|Hne]; [|eauto].
    rewrite Hi in Eh; inversion Eh; subst g. eexists; split; [reflexivity|]. split; [repeat split | reflexivity].
  - destruct (sf_slot_get slots h) as [g|] eqn:Eh; cbn [fst snd sst_slots]; [|rewrite Hi; eauto].
    destruct (sf_client g); [destruct (sff_readdir s g n)|]; cbn; rewrite Hi; eauto.
  - destruct (sf_slot_get slots h) as [g|] eqn:Eh; cbn [fst snd sst_slots]; [|rewrite Hi; eauto].
    destruct (sf_client g); [destruct (sff_readdir s g n)|]; cbn; rewrite Hi; eauto.
  - destruct (sf_slot_get slots h) as [g|] eqn:Eh; cbn [fst snd sst_slots]; [|rewrite Hi; eauto].
    destruct (sf_closed g); [|destruct (srv_stat s (sf_key g)) as [[? ?]|]]; cbn; rewrite Hi; eauto.
  - destruct (sf_slot_get slots h) as [g|] eqn:Eh; cbn; rewrite Hi; eauto.
  - destruct (sf_slot_get slots h) as [g|] eqn:Eh; cbn; rewrite Hi; eauto.
Qed.

(* ================================================================ G. names: well-formed trees *)
(* every entry has a non-root name and its parent is a directory *)
Definition wf (t : list (pkey * snode)) : Prop :=
  forall k v, In (k, v) t -> k <> [] /\ lfetch t (removelast k) = Some SfDir.

Lemma wf_nil : wf [].
Proof. intros k v []. Qed.

Lemma removelast_neq {A} (k : list A) : k <> [] -> removelast k <> k.
Proof.
  intros Hk Heq. assert (H : length (removelast k) = length k) by now rewrite Heq.
  destruct k as [|x k]; [contradiction|].
  rewrite (app_removelast_last x Hk) in H at 2.
  rewrite app_length in H. simpl in H. lia.
Qed.

Lemma In_kget_some {A} k (v : A) t : In (k, v) t -> exists v', kget k t = Some v'.
Proof.
  induction t as [|[k' v'] t IH]; simpl; [intros []|].
  intros [H|H].
  - inversion H; subst. rewrite keqb_refl. eauto.
  - destruct (keqb k k'); eauto.
Qed.

Lemma kget_none {A} q (t : list (pkey * A)) : (forall k v, In (k, v) t -> k <> q) -> kget q t = None.
Proof.
  induction t as [|[k' v'] t IH]; simpl; intros H; [reflexivity|].
  rewrite keqb_neq by (intros ->; eapply H; [left; reflexivity | reflexivity]).
  apply IH. intros k v Hin. apply (H k v). now right.
Qed.

Lemma lfetch_nonroot t k : k <> [] -> lfetch t k = kget k t.
Proof. destruct k; [contradiction | reflexivity]. Qed.

Lemma putfile_wf t k n t' : wf t -> putfile t k n = SfOk t' -> wf t'.
Proof.
  unfold putfile, canon_err. intros Hwf.
  destruct (lfetch t (removelast k)) as [[|i]|] eqn:Ep; try discriminate.
  destruct (lfetch t k) eqn:Ek; [discriminate|]. intros H; inversion H; subst t'; clear H.
  assert (Hk : k <> []) by (eapply lfetch_none_nonroot; eauto).
  intros k' v' Hin. apply In_kset in Hin. destruct Hin as [Heq|Hin].
  - inversion Heq; subst. split; [exact Hk|].
    rewrite lfetch_kset by exact Hk. rewrite keqb_neq by (apply removelast_neq; exact Hk). exact Ep.
  - destruct (Hwf _ _ Hin) as [Hk' Hp]. split; [exact Hk'|].
    rewrite lfetch_kset by exact Hk.
    destruct (keqb (removelast k') k) eqn:E; [|exact Hp].
    apply keqb_eq in E. rewrite E in Hp. congruence.
Qed.

Lemma kdel_wf t k : wf t -> (forall k' v', In (k', v') t -> removelast k' <> k) -> wf (kdel k t).
Proof.
  intros Hwf Hnc k' v' Hin. apply In_kdel in Hin. destruct Hin as [Hin Hne]. simpl in Hne.
  destruct (Hwf _ _ Hin) as [Hk' Hp]. split; [exact Hk'|].
  rewrite lfetch_kdel by (eapply Hnc; eauto). exact Hp.
Qed.

Lemma kdel_wf_file t k i : wf t -> lfetch t k = Some (SfFile i) -> wf (kdel k t).
Proof.
  intros Hwf Hk. apply kdel_wf; [exact Hwf|]. intros k' v' Hin Heq.
  destruct (Hwf _ _ Hin) as [_ Hp]. rewrite Heq in Hp. congruence.
Qed.

Lemma has_child_false t k : has_child t k = false -> forall k' v', In (k', v') t -> removelast k' <> k.
Proof.
  unfold has_child. intros H k' v' Hin Heq.
  assert (Ht : existsb (fun '(k'0, _) => keqb (removelast k'0) k) t = true).
  { apply existsb_exists. exists (k', v'). split; [exact Hin|]. now apply keqb_eq. }
  congruence.
Qed.

(* ---- prefixes *)
Lemma kstrip_spec p k rest : kstrip p k = Some rest <-> k = p ++ rest.
Proof.
  revert k; induction p as [|x p IH]; intros k; simpl.
  - split; [intros H; now inversion H | intros ->; reflexivity].
  - destruct k as [|y k]; [split; [discriminate | intros H; discriminate]|].
    destruct (beqb x y) eqn:E.
    + apply beqb_eq in E; subst y. rewrite IH. split; [intros ->; reflexivity | intros H; now inversion H].
    + split; [discriminate|]. intros H; inversion H; subst.
      rewrite (proj2 (beqb_eq _ _) eq_refl) in E. discriminate.
Qed.

Lemma kstrip_none p k : kstrip p k = None <-> forall rest, k <> p ++ rest.
Proof.
  split.
  - intros H rest Heq. apply kstrip_spec in Heq. congruence.
  - intros H. destruct (kstrip p k) as [rest|] eqn:E; [|reflexivity].
    apply kstrip_spec in E. exfalso. eapply H; eauto.
Qed.

(* an absent name has nothing below it *)
Lemma absent_no_desc t q : wf t -> lfetch t q = None ->
  forall rest k v, In (k, v) t -> k <> q ++ rest.
Proof.
  intros Hwf Hq.
  assert (Hq0 : q <> []) by (eapply lfetch_none_nonroot; eauto).
  induction rest as [|x rest IH] using rev_ind; intros k v Hin Heq.
  - rewrite app_nil_r in Heq; subst k. destruct (In_kget_some _ _ _ Hin) as [v' Hv'].
    rewrite lfetch_nonroot in Hq by exact Hq0. congruence.
  - destruct (Hwf _ _ Hin) as [_ Hp]. subst k.
    rewrite app_assoc, removelast_last in Hp.
    assert (Hne : q ++ rest <> []) by (destruct q; [contradiction | discriminate]).
    rewrite lfetch_nonroot in Hp by exact Hne.
    apply kget_In in Hp. eapply IH; eauto.
Qed.

Lemma keqb_iff a b c d : (a = b <-> c = d) -> keqb a b = keqb c d.
Proof.
  intros H. destruct (keqb a b) eqn:E1, (keqb c d) eqn:E2; try reflexivity.
  - apply keqb_eq in E1. apply H in E1. apply keqb_eq in E1. congruence.
  - apply keqb_eq in E2. apply H in E2. apply keqb_eq in E2. congruence.
Qed.

(* where a name of the renamed tree comes from *)
Definition rename_src (p tg q : pkey) : pkey :=
  match kstrip tg q with Some rest => p ++ rest | None => q end.

Lemma kget_map_rename p tg (t : list (pkey * snode)) q :
  (forall k v, In (k, v) t -> kstrip tg k = None) -> kstrip p q = None ->
  kget q (map (fun '(k, v) => (rename_key p tg k, v)) t) = kget (rename_src p tg q) t.
Proof.
  intros Hno Hq. induction t as [|[k v] t IH]; [reflexivity|].
  cbn [map kget].
  assert (Hk : kstrip tg k = None) by (eapply Hno; left; reflexivity).
  assert (E : keqb q (rename_key p tg k) = keqb (rename_src p tg q) k).
  { apply keqb_iff. unfold rename_key, rename_src.
    destruct (kstrip p k) as [rest|] eqn:Epk; destruct (kstrip tg q) as [r'|] eqn:Etq.
    - apply kstrip_spec in Epk, Etq. subst. split; intros H.
      + apply app_inv_head in H. now subst.
      + apply app_inv_head in H. now subst.
    - apply kstrip_spec in Epk. subst k. split; intros H.
      + subst q. rewrite (proj2 (kstrip_spec tg (tg ++ rest) rest) eq_refl) in Etq. discriminate.
      + subst q. rewrite (proj2 (kstrip_spec p (p ++ rest) rest) eq_refl) in Hq. discriminate.
    - apply kstrip_spec in Etq. subst q. split; intros H.
      + subst k. rewrite (proj2 (kstrip_spec tg (tg ++ r') r') eq_refl) in Hk. discriminate.
      + subst k. rewrite (proj2 (kstrip_spec p (p ++ r') r') eq_refl) in Epk. discriminate.
    - reflexivity. }
  rewrite E. destruct (keqb (rename_src p tg q) k); [reflexivity|].
  apply IH. intros k0 v0 Hin. eapply Hno. right; eauto.
Qed.

(* what a successful SSH_FXP_RENAME has checked *)
Definition rename_pre (t : list (pkey * snode)) (p tg : pkey) : Prop :=
  wf t /\ p <> [] /\ (exists n, lfetch t p = Some n) /\ lfetch t tg = None /\
  lfetch t (removelast tg) = Some SfDir /\ kstrip p tg = None.

Definition renamed (t : list (pkey * snode)) (p tg : pkey) : list (pkey * snode) :=
  map (fun '(k, v) => (rename_key p tg k, v)) t.

Lemma srv_rename_ok s p tg s' : wf (sv_tree s) -> srv_rename s p tg = SfOk s' ->
  rename_pre (sv_tree s) p tg /\ s' = mkSfSrv (renamed (sv_tree s) p tg) (sv_objs s).
Proof.
  intros Hwf. unfold srv_rename, srv_exists.
  destruct (canon_err (sv_tree s) tg) as [e|] eqn:Ec.
  - destruct (lfetch (sv_tree s) p); [|discriminate]. destruct p; discriminate.
  - destruct (lfetch (sv_tree s) tg) eqn:Et; [discriminate|].
    destruct (lfetch (sv_tree s) p) as [n|] eqn:Ep; [|discriminate].
    destruct p as [|x p]; [discriminate|].
    destruct (kstrip (x :: p) tg) eqn:Ek; [discriminate|].
    intros H; inversion H; subst; clear H. split; [|reflexivity].
    unfold rename_pre. split; [exact Hwf|]. split; [discriminate|]. split; [eauto|].
    split; [exact Et|]. split; [|exact Ek].
    unfold canon_err in Ec. destruct (lfetch (sv_tree s) (removelast tg)) as [[|i]|]; try discriminate. reflexivity.
Qed.

Lemma rename_no_under_tg t p tg : rename_pre t p tg -> forall k v, In (k, v) t -> kstrip tg k = None.
Proof.
  intros (Hwf & _ & _ & Htg & _ & _) k v Hin. apply kstrip_none. intros rest.
  eapply absent_no_desc; eauto.
Qed.

Lemma rename_incomparable t p tg : rename_pre t p tg -> forall a b, tg ++ a <> p ++ b.
Proof.
  intros (Hwf & Hp0 & [n Hp] & Htg & _ & Hk) a b Heq.
  apply app_eq_app in Heq. destruct Heq as [l [[H1 H2]|[H1 H2]]].
  - apply kstrip_spec in H1. congruence.
  - rewrite lfetch_nonroot in Hp by exact Hp0. apply kget_In in Hp.
    eapply (absent_no_desc _ _ Hwf Htg l); eauto.
Qed.

Lemma tg_nonroot t p tg : rename_pre t p tg -> tg <> [].
Proof. intros (_ & _ & _ & Htg & _). eapply lfetch_none_nonroot; eauto. Qed.

(* the names after a rename: nothing is left below the old name, everything else is where it
   was, and the new name (and what is below it) holds what the old one held *)
Lemma lookup_renamed t p tg : rename_pre t p tg -> forall q,
  lfetch (renamed t p tg) q =
  match kstrip p q with Some _ => None | None => lfetch t (rename_src p tg q) end.
Proof.
  intros Hpre q. pose proof Hpre as (Hwf & Hp0 & Hp & Htg & Hc & Hk).
  pose proof (tg_nonroot _ _ _ Hpre) as Htg0.
  destruct q as [|x q].
  - destruct p; [contradiction|]. unfold rename_src. destruct tg; [contradiction | reflexivity].
  - destruct (kstrip p (x :: q)) as [r|] eqn:Eq.
    + apply kstrip_spec in Eq. cbn [lfetch]. apply kget_none. intros k v Hin Hkq.
      unfold renamed in Hin. apply in_map_iff in Hin. destruct Hin as [[k0 v0] [Hf Hin0]].
      injection Hf as Hk1 Hv1. rewrite <- Hk1 in Hkq. unfold rename_key in Hkq.
      destruct (kstrip p k0) as [rest|] eqn:E0.
      * rewrite Eq in Hkq. eapply rename_incomparable; eauto.
      * rewrite Eq in Hkq. subst k0. rewrite (proj2 (kstrip_spec p (p ++ r) r) eq_refl) in E0. discriminate.
    + cbn [lfetch]. unfold renamed.
      rewrite kget_map_rename; [| eapply rename_no_under_tg; eauto | exact Eq].
      symmetry. apply lfetch_nonroot. unfold rename_src.
      destruct (kstrip tg (x :: q)); [|discriminate].
      destruct p; [contradiction | discriminate].
Qed.

Lemma length_removelast {A} (k : list A) : k <> [] -> S (length (removelast k)) = length k.
Proof.
  intros Hk. destruct k as [|x k]; [contradiction|].
  rewrite (app_removelast_last x Hk) at 2. rewrite app_length. simpl. lia.
Qed.

Lemma rename_wf t p tg : rename_pre t p tg -> wf (renamed t p tg).
Proof.
  intros Hpre. pose proof Hpre as (Hwf & Hp0 & Hp & Htg & Hc & Hk).
  pose proof (tg_nonroot _ _ _ Hpre) as Htg0.
  intros k' v' Hin. unfold renamed in Hin. apply in_map_iff in Hin.
  destruct Hin as [[k v] [Hf Hin]]. inversion Hf; subst k' v'; clear Hf.
  destruct (Hwf _ _ Hin) as [Hk0 Hpar].
  unfold rename_key. destruct (kstrip p k) as [rest|] eqn:Epk.
  - apply kstrip_spec in Epk. subst k. split; [destruct tg; [contradiction | discriminate]|].
    rewrite (lookup_renamed _ _ _ Hpre).
    destruct (list_eq_dec (list_eq_dec N.eq_dec) rest []) as [->|Hrest].
    + rewrite app_nil_r.
      assert (E1 : kstrip p (removelast tg) = None).
      { apply kstrip_none. intros r Hr.
        destruct tg as [|y tg']; [contradiction|].
        rewrite (app_removelast_last y Htg0) in Hk. rewrite Hr, <- app_assoc in Hk.
        rewrite (proj2 (kstrip_spec p _ _) eq_refl) in Hk. discriminate. }
      rewrite E1. unfold rename_src.
      assert (E2 : kstrip tg (removelast tg) = None).
      { apply kstrip_none. intros r Hr. pose proof (length_removelast tg Htg0) as Hl.
        rewrite Hr, app_length in Hl. lia. }
      rewrite E2. exact Hc.
    + rewrite removelast_app by exact Hrest.
      assert (E1 : kstrip p (tg ++ removelast rest) = None).
      { apply kstrip_none. intros r Hr. eapply rename_incomparable; eauto. }
      rewrite E1. unfold rename_src.
      rewrite (proj2 (kstrip_spec tg _ _) eq_refl).
      rewrite removelast_app in Hpar by exact Hrest. exact Hpar.
  - split; [exact Hk0|]. rewrite (lookup_renamed _ _ _ Hpre).
    assert (E1 : kstrip p (removelast k) = None).
    { apply kstrip_none. intros r Hr.
      destruct k as [|y k']; [contradiction|].
      rewrite (app_removelast_last y Hk0) in Epk. rewrite Hr, <- app_assoc in Epk.
      rewrite (proj2 (kstrip_spec p _ _) eq_refl) in Epk. discriminate. }
    rewrite E1. unfold rename_src.
    assert (E2 : kstrip tg (removelast k) = None).
    { apply kstrip_none. intros r Hr.
      destruct (removelast k) as [|y q] eqn:Eq.
      - destruct tg; [contradiction | discriminate].
      - cbn [lfetch] in Hpar. apply kget_In in Hpar.
        eapply (absent_no_desc _ _ Hwf Htg r); eauto. }
    rewrite E2. exact Hpar.
Qed.

(* ---- every operation keeps the tree well-formed *)
Lemma srv_openfile_wf s k cr ex tr s' id : wf (sv_tree s) -> srv_openfile s k cr ex tr = SfOk (s', id) -> wf (sv_tree s').
Proof.
  intros Hwf. unfold srv_openfile. destruct (lfetch (sv_tree s) k) as [n|].
  - destruct (cr && ex); [discriminate|]. destruct n; [discriminate|].
    intros H; inversion H; subst. destruct tr; exact Hwf.
  - destruct cr; [|discriminate]. destruct (putfile _ _ _) as [t'|e] eqn:E; [|discriminate].
    intros H; inversion H; subst. cbn. eapply putfile_wf; eauto.
Qed.

Lemma c_open_wf s name flag cl s' f : wf (sv_tree s) -> c_open s name flag cl = SfOk (s', f) -> wf (sv_tree s').
Proof.
  intros Hwf. unfold c_open. cbv zeta. intros H.
  assert (Hm : exists id, srv_openfile s (skey name) (has_flag flag o_create) (has_flag flag o_excl) (has_flag flag o_trunc) = SfOk (s', id)).
  { repeat match type of H with context [if ?b then _ else _] => destruct b end; try discriminate;
      destruct (srv_openfile s (skey name) _ _ _) as [[s1 id]|e]; try discriminate;
      inversion H; subst; eauto. }
  destruct Hm as [id Hm]. eapply srv_openfile_wf; eauto.
Qed.

Lemma srv_setstat_tree s k sz s' : srv_setstat s k sz = SfOk s' -> sv_tree s' = sv_tree s.
Proof.
  unfold srv_setstat, srv_openfile. destruct (lfetch (sv_tree s) k) as [[|i]|]; cbn; try discriminate.
  destruct sz as [n|]; [destruct (n <? 0); [discriminate|]|]; intros H; inversion H; reflexivity.
Qed.

Lemma srv_mkdir_wf s k s' : wf (sv_tree s) -> srv_mkdir s k = SfOk s' -> wf (sv_tree s').
Proof.
  intros Hwf. unfold srv_mkdir. destruct (putfile _ _ _) as [t'|e] eqn:E; [|discriminate].
  intros H; inversion H; subst. cbn. eapply putfile_wf; eauto.
Qed.

Lemma fs_mkdir_wf s p : wf (sv_tree s) -> wf (sv_tree (fst (fs_mkdir s p))).
Proof.
  intros Hwf. unfold fs_mkdir. destruct (srv_mkdir s (skey p)) as [s1|e] eqn:E; [|exact Hwf].
  cbn. eapply srv_mkdir_wf; eauto.
Qed.

Lemma mk_finish_wf s p : wf (sv_tree s) -> wf (sv_tree (fst (mk_finish s p))).
Proof.
  intros Hwf. unfold mk_finish. pose proof (fs_mkdir_wf s p Hwf) as H.
  destruct (fs_mkdir s p) as [s2 r]; cbn in H.
  destruct r; cbn; try exact H.
  destruct (srv_stat s2 (skey p)) as [[[|] ?]|]; exact H.
Qed.

Lemma fs_mkdirall_wf fixed fuel : forall s p, wf (sv_tree s) -> wf (sv_tree (fst (fs_mkdirall fixed fuel s p))).
Proof.
  induction fuel as [|fu IH]; intros s p Hwf; rewrite fs_mkdirall_eq;
    destruct (srv_stat s (skey p)) as [[[|] ?]|]; try exact Hwf;
    destruct (parent_of p) as [par|]; try (apply mk_finish_wf; exact Hwf); try exact Hwf.
  specialize (IH s par Hwf). destruct (fs_mkdirall fixed fu s par) as [s1 r]; cbn in IH.
  destruct r; try exact IH. apply mk_finish_wf. exact IH.
Qed.

Lemma fs_remove_wf s p : wf (sv_tree s) -> wf (sv_tree (fst (fs_remove s p))).
Proof.
  intros Hwf. unfold fs_remove. destruct (lfetch (sv_tree s) (skey p)) as [[|i]|] eqn:El; try exact Hwf.
  - unfold srv_rmdir. rewrite El. destruct (has_child (sv_tree s) (skey p)) eqn:Ec; [exact Hwf|].
    cbn. apply kdel_wf; [exact Hwf | now apply has_child_false].
  - cbn. eapply kdel_wf_file; eauto.
Qed.

Lemma fs_rename_wf s a b : wf (sv_tree s) -> wf (sv_tree (fst (fs_rename s a b))).
Proof.
  intros Hwf. unfold fs_rename. destruct (srv_rename s (skey a) (skey b)) as [s'|e] eqn:E; [|exact Hwf].
  apply srv_rename_ok in E; [|exact Hwf]. destruct E as [Hpre ->]. cbn. now apply rename_wf.
Qed.

Lemma step_wf st it : wf (sv_tree (sst_srv st)) -> wf (sv_tree (sst_srv (fst (sftp_step st it)))).
Proof.
  destruct it as [slot o]. destruct st as [s slots]. cbn [sst_srv]. intros Hwf.
  destruct o; unfold sftp_step; cbn [fst snd sst_srv sst_slots].
  - destruct (c_open s p create_flags true) as [[s' f]|e] eqn:E; cbn; [|exact Hwf]. eapply c_open_wf; eauto.
  - pose proof (fs_mkdir_wf s p Hwf) as H. destruct (fs_mkdir s p); exact H.
  - pose proof (fs_mkdirall_wf (Z.eqb sftp_mkdirall_enotdir 1) (S (length p)) s p Hwf) as H. destruct (fs_mkdirall _ _ s p); exact H.
  - destruct (c_open s p o_rdonly true) as [[s' f]|e] eqn:E; cbn; [|exact Hwf]. eapply c_open_wf; eauto.
  - destruct (c_open s p flag (Z.eqb sftp_openfile_client 1)) as [[s' f]|e] eqn:E; cbn; [|exact Hwf].
    pose proof (c_open_wf _ _ _ _ _ _ Hwf E) as H1.
    destruct (srv_setstat s' (sf_key f) None) as [s''|e] eqn:E2; cbn; [|exact H1].
    now rewrite (srv_setstat_tree _ _ _ _ E2).
  - pose proof (fs_remove_wf s p Hwf) as H. destruct (fs_remove s p); exact H.
  - exact Hwf.
  - pose proof (fs_rename_wf s p q Hwf) as H. destruct (fs_rename s p q); exact H.
  - exact Hwf. - exact Hwf. - exact Hwf. - exact Hwf.
  - destruct (sf_slot_get slots h) as [f|]; [|exact Hwf]. destruct (c_readat _ f n (sf_off f)); exact Hwf.
  - destruct (sf_slot_get slots h) as [f|]; [|exact Hwf]. destruct (c_readat _ f n off); exact Hwf.
  - destruct (sf_slot_get slots h) as [f|]; [|exact Hwf].
    destruct (c_writeat _ f b (sf_off f)) as [[[c'|] n] e]; exact Hwf.
  - destruct (sf_slot_get slots h) as [f|]; exact Hwf.
  - destruct (sf_slot_get slots h) as [f|]; [|exact Hwf].
    destruct (c_writeat _ f b (sf_off f)) as [[[c'|] n] e]; exact Hwf.
  - destruct (sf_slot_get slots h) as [f|]; [|exact Hwf]. destruct (sf_closed f); [exact Hwf|].
    match goal with |- context [match ?tt with SfOk _ => _ | SfErr _ => _ end] => destruct tt as [tg|e] end; [|exact Hwf].
    destruct (tg <? 0); exact Hwf.
  - destruct (sf_slot_get slots h) as [f|]; [|exact Hwf]. destruct (sf_closed f); [exact Hwf|].
    destruct (srv_setstat s (sf_key f) (Some n)) as [s'|e] eqn:E; [|exact Hwf].
    cbn. now rewrite (srv_setstat_tree _ _ _ _ E).
  - destruct (sf_slot_get slots h) as [f|]; [|exact Hwf]. destruct (sf_closed f); exact Hwf.
  - destruct (sf_slot_get slots h) as [f|]; [|exact Hwf]. destruct (sf_client f); [|exact Hwf].
    destruct (sff_readdir s f n); exact Hwf.
  - destruct (sf_slot_get slots h) as [f|]; [|exact Hwf]. destruct (sf_client f); [|exact Hwf].
    destruct (sff_readdir s f n); exact Hwf.
  - destruct (sf_slot_get slots h) as [f|]; [|exact Hwf]. destruct (sf_closed f); [exact Hwf|].
    destruct (srv_stat s (sf_key f)) as [[? ?]|]; exact Hwf.
  - destruct (sf_slot_get slots h) as [f|]; exact Hwf.
  - destruct (sf_slot_get slots h) as [f|]; exact Hwf.
Qed.

Theorem reachable_wf : forall items st, wf (sv_tree (sst_srv st)) -> wf (sv_tree (sst_srv (fst (sftp_run st items)))).
Proof.
  induction items as [|it items IH]; intros st Hwf; [exact Hwf|].
  cbn [sftp_run]. pose proof (step_wf st it Hwf) as H1.
  destruct (sftp_step st it) as [st1 x]. cbn [fst] in H1.
  specialize (IH st1 H1). destruct (sftp_run st1 items) as [st2 xs]. exact IH.
Qed.

(* ================================================================ H. directory creation *)
Definition is_dir (s : server) (k : pkey) : Prop := lfetch (sv_tree s) k = Some SfDir.

(* in a well-formed tree every ancestor of a directory is a directory *)
Lemma wf_ancestors s k : wf (sv_tree s) -> is_dir s k -> forall a rest, k = a ++ rest -> is_dir s a.
Proof.
  intros Hwf Hk a rest. revert k Hk. induction rest as [|x rest IH] using rev_ind; intros k Hk Heq.
  - rewrite app_nil_r in Heq. now subst.
  - subst k. rewrite app_assoc in Hk.
    assert (Hne : (a ++ rest) ++ [x] <> []) by (destruct (a ++ rest); discriminate).
    unfold is_dir in Hk. rewrite lfetch_nonroot in Hk by exact Hne. apply kget_In in Hk.
    destruct (Hwf _ _ Hk) as [_ Hp]. rewrite removelast_last in Hp.
    eapply IH; [exact Hp | reflexivity].
Qed.

Lemma srv_stat_dir s k z : srv_stat s k = Some (true, z) -> is_dir s k.
Proof.
  unfold srv_stat, is_dir. destruct (lfetch (sv_tree s) k) as [[|i]|]; try discriminate. reflexivity.
Qed.

Lemma srv_stat_file s k z : srv_stat s k = Some (false, z) -> exists i, lfetch (sv_tree s) k = Some (SfFile i).
Proof.
  unfold srv_stat. destruct (lfetch (sv_tree s) k) as [[|i]|]; try discriminate. eauto.
Qed.

Lemma srv_setstat_dir_unchanged s s' k sz q : srv_setstat s k sz = SfOk s' -> is_dir s q -> is_dir s' q.
Proof. intros H. unfold is_dir. now rewrite (srv_setstat_tree _ _ _ _ H). Qed.

Lemma mk_finish_ok s p s' : mk_finish s p = (s', ROk) -> is_dir s' (skey p).
Proof.
  unfold mk_finish, fs_mkdir.
  destruct (srv_mkdir s (skey p)) as [s1|e] eqn:E.
  - (* MKDIR succeeded; whatever the Chmod says, the directory is there *)
    assert (Hd : is_dir s1 (skey p)).
    { unfold srv_mkdir, putfile in E. destruct (canon_err _ _); [discriminate|].
      destruct (lfetch (sv_tree s) (skey p)) eqn:El; [discriminate|]. inversion E; subst. unfold is_dir; cbn.
      rewrite lfetch_kset by (eapply lfetch_none_nonroot; eauto). now rewrite keqb_refl. }
    destruct (fs_setattr s1 p) eqn:Ea;
      try (destruct (srv_stat s1 (skey p)) as [[[|] ?]|]);
      intros H; inversion H; subst; exact Hd.
  - destruct (srv_stat s (skey p)) as [[[|] z]|] eqn:Es; intros H; inversion H; subst.
    eapply srv_stat_dir; eauto.
Qed.

(* MkdirAll, the code as it is: success means the path is a directory — unless it was a regular
   file to begin with (the fast path returns Stat's nil error) *)
Lemma fs_mkdirall_ok fixed fuel s p s' :
  fs_mkdirall fixed fuel s p = (s', ROk) ->
  is_dir s' (skey p) \/ (fixed = false /\ s' = s /\ exists i, lfetch (sv_tree s) (skey p) = Some (SfFile i)).
Proof.
  rewrite fs_mkdirall_eq.
  destruct (srv_stat s (skey p)) as [[[|] z]|] eqn:Es.
  - intros H; inversion H; subst. left. eapply srv_stat_dir; eauto.
  - destruct fixed; [discriminate|]. intros H; inversion H; subst. right.
    split; [reflexivity|]. split; [reflexivity|]. eapply srv_stat_file; eauto.
  - destruct (parent_of p) as [par|].
    + destruct fuel as [|fu]; [discriminate|].
      destruct (fs_mkdirall fixed fu s par) as [s1 r]. destruct r; try discriminate.
      intros H. left. eapply mk_finish_ok; eauto.
    + intros H. left. eapply mk_finish_ok; eauto.
Qed.

Theorem mkdirall_creates_ancestors fixed fuel s p s' :
  wf (sv_tree s) ->
  (fixed = true \/ forall i, lfetch (sv_tree s) (skey p) <> Some (SfFile i)) ->
  fs_mkdirall fixed fuel s p = (s', ROk) ->
  forall a rest, skey p = a ++ rest -> is_dir s' a.
Proof.
  intros Hwf Hnf H a rest Heq.
  assert (Hwf' : wf (sv_tree s')).
  { pose proof (fs_mkdirall_wf fixed fuel s p Hwf) as Hw. now rewrite H in Hw. }
  apply fs_mkdirall_ok in H. destruct H as [Hd | (Hfx & -> & [i Hi])].
  - eapply wf_ancestors; eauto.
  - destruct Hnf as [Hnf|Hnf]; [congruence | exfalso; eapply Hnf; eauto].
Qed.

(* the defect: MkdirAll on an existing regular file reports success and creates nothing *)
Theorem mkdirall_on_file_reports_ok fuel s p i :
  lfetch (sv_tree s) (skey p) = Some (SfFile i) -> fs_mkdirall false fuel s p = (s, ROk).
Proof.
  intros H. rewrite fs_mkdirall_eq. unfold srv_stat. rewrite H. reflexivity.
Qed.

(* a failed MkdirAll may have created some of the ancestors but never touches file contents;
   a successful one on a new path went through Mkdir for it *)

(* ================================================================ I. Stat / Remove / Rename delegate *)
Theorem stat_delegates s p :
  fs_stat s p = match lfetch (sv_tree s) (skey p) with
                | None => RErr eNotExist
                | Some SfDir => RInfo (info_of (path_base p) true 0)
                | Some (SfFile i) => RInfo (info_of (path_base p) false (zlen (obj_content (sv_objs s) i)))
                end.
Proof. unfold fs_stat, srv_stat. destruct (lfetch (sv_tree s) (skey p)) as [[|i]|]; reflexivity. Qed.

Theorem remove_delegates s p s' r : fs_remove s p = (s', r) ->
  sv_objs s' = sv_objs s /\
  match r with
  | ROk => (forall q, q <> skey p -> lfetch (sv_tree s') q = lfetch (sv_tree s) q) /\
           (skey p <> [] -> lfetch (sv_tree s') (skey p) = None) /\
           (exists n, lfetch (sv_tree s) (skey p) = Some n)
  | _ => s' = s
  end.
Proof.
  intros H. split; [pose proof (fs_remove_objs s p) as Ho; now rewrite H in Ho|].
  unfold fs_remove in H. destruct (lfetch (sv_tree s) (skey p)) as [[|i]|] eqn:El.
  - unfold srv_rmdir in H. rewrite El in H. destruct (has_child _ _); inversion H; subst; try reflexivity.
    cbn. split; [intros q Hq; now apply lfetch_kdel|]. split; [|eauto].
    intros Hne. rewrite lfetch_nonroot by exact Hne. apply kget_kdel_same.
  - inversion H; subst. cbn. split; [intros q Hq; now apply lfetch_kdel|]. split; [|eauto].
    intros Hne. rewrite lfetch_nonroot by exact Hne. apply kget_kdel_same.
  - inversion H; subst. reflexivity.
Qed.

Theorem rename_delegates s a b s' r : wf (sv_tree s) -> fs_rename s a b = (s', r) ->
  sv_objs s' = sv_objs s /\
  match r with
  | ROk => (exists n, lfetch (sv_tree s) (skey a) = Some n) /\ lfetch (sv_tree s) (skey b) = None /\
           forall q, lfetch (sv_tree s') q =
                     match kstrip (skey a) q with
                     | Some _ => None
                     | None => lfetch (sv_tree s) (rename_src (skey a) (skey b) q)
                     end
  | _ => s' = s
  end.
Proof.
  intros Hwf H. split; [pose proof (fs_rename_objs s a b) as Ho; now rewrite H in Ho|].
  unfold fs_rename in H. destruct (srv_rename s (skey a) (skey b)) as [s1|e] eqn:E; inversion H; subst; [|reflexivity].
  apply srv_rename_ok in E; [|exact Hwf]. destruct E as [Hpre ->]. cbn.
  pose proof Hpre as (_ & _ & Hp & Htg & _).
  split; [exact Hp|]. split; [exact Htg|]. now apply lookup_renamed.
Qed.

(* ================================================================ J. the run the model runner prints as S lines *)
(* sftp_run_spec (accounted contents + predicted reads) agrees step by step with the model run:
   same observer's view, and every prediction the spec makes is the result the call returned *)
Definition pred_ok (p : option res) (r : res) : Prop := forall x, p = Some x -> x = r.

Theorem spec_run_agrees : forall items st,
  map fst (sftp_run_spec st (sv_objs (sst_srv st)) items) = map snd (sftp_run_obs st items) /\
  Forall2 pred_ok (map snd (sftp_run_spec st (sv_objs (sst_srv st)) items)) (map fst (sftp_run_obs st items)).
Proof.
  induction items as [|it items IH]; intros st; [split; [reflexivity | constructor]|].
  cbn [sftp_run_spec sftp_run_obs].
  pose proof (step_acct st it) as Hs. pose proof (reads_exact st it) as Hr.
  destruct (sftp_step st it) as [st1 x]. cbn [fst snd] in Hs, Hr.
  rewrite <- Hs. destruct (IH st1) as [IH1 IH2].
  assert (Hsrv : mkSfSrv (sv_tree (sst_srv st1)) (sv_objs (sst_srv st1)) = sst_srv st1) by (destruct (sst_srv st1); reflexivity).
  cbn [map fst snd]. rewrite Hsrv. split.
  - now rewrite IH1.
  - constructor; [|exact IH2]. intros y Hy. symmetry. now apply Hr.
Qed.
