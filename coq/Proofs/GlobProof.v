(* Proofs/GlobProof.v — C16: afero.Glob and path/filepath.Glob return the same list (same order,
   same error) for every tree and every pattern without escapes that filepath.Glob accepts, in
   particular for every pattern whose elements follow the grammar of Match ([well_formed]). *)
From AF Require Import Lib.Bytes Lib.Path Model.Walk Model.Glob.

(* ---------- the one-directory step is the same function ---------- *)
Lemma glob_names_eq : forall dir pat names m,
  afero_glob_names dir pat names m = std_glob_names dir pat names m.
Proof.
  intros dir pat names. induction names as [|n r IH]; intros m; cbn [afero_glob_names std_glob_names].
  - reflexivity.
  - destruct (match_seg pat n) as [[|]|]; [apply IH|apply IH|reflexivity].
Qed.

Lemma glob1_eq : forall t dir pat m, afero_glob1 t dir pat m = std_glob1 t dir pat m.
Proof.
  intros t dir pat m. unfold afero_glob1, std_glob1.
  destruct (lookup t dir) as [[|kids]|]; try reflexivity. apply glob_names_eq.
Qed.

Lemma glob_over_eq : forall t file ds m, afero_glob_over t file ds m = std_glob_over t file ds m.
Proof.
  intros t file ds. induction ds as [|d r IH]; intros m; cbn [afero_glob_over std_glob_over].
  - reflexivity.
  - rewrite glob1_eq. destruct (std_glob1 t d file m) as [m' e]. destruct e; try reflexivity. apply IH.
Qed.

(* ---------- strings ---------- *)
Lemma split_last_aux_app : forall s d f, split_last_aux s = Some (d, f) -> s = d ++ f.
Proof.
  induction s as [|c s IH]; intros d f H; cbn [split_last_aux] in H; [discriminate|].
  destruct (split_last_aux s) as [[d' f']|] eqn:E.
  - injection H as Hd Hf. subst d f. cbn [app]. f_equal. apply IH. reflexivity.
  - destruct (N.eqb c SLASH); [|discriminate]. injection H as Hd Hf. subst d f. reflexivity.
Qed.

Lemma path_split_app : forall s, s = fst (path_split s) ++ snd (path_split s).
Proof.
  intros s. unfold path_split. destruct (split_last_aux s) as [[d f]|] eqn:E; cbn [fst snd].
  - apply split_last_aux_app. exact E.
  - reflexivity.
Qed.

Lemma no_escape_app_l : forall a b, no_escape (a ++ b) = true -> no_escape a = true.
Proof. intros a b H. unfold no_escape in *. rewrite forallb_app in H. apply andb_prop in H. tauto. Qed.

Lemma no_escape_removelast : forall a, no_escape a = true -> no_escape (removelast a) = true.
Proof.
  induction a as [|c a IH]; intros H; [reflexivity|].
  cbn [removelast]. destruct a as [|c2 a']; [reflexivity|].
  change (no_escape (c :: removelast (c2 :: a')) = true).
  unfold no_escape in *. cbn [forallb] in H |- *. apply andb_prop in H. destruct H as [H1 H2].
  rewrite H1. cbn [andb]. apply IH. exact H2.
Qed.

Lemma no_escape_clean_glob_path : forall d, no_escape d = true -> no_escape (clean_glob_path d) = true.
Proof.
  intros d H. unfold clean_glob_path. destruct d as [|c d']; [reflexivity|].
  destruct (beqb (c :: d') s_slash); [exact H|]. apply no_escape_removelast. exact H.
Qed.

Lemma no_escape_dir : forall p, no_escape p = true ->
  no_escape (clean_glob_path (fst (path_split p))) = true.
Proof.
  intros p H. apply no_escape_clean_glob_path. apply (no_escape_app_l _ (snd (path_split p))).
  rewrite <- path_split_app. exact H.
Qed.

Lemma has_meta_std : forall p, no_escape p = true -> std_has_meta p = has_meta p.
Proof.
  induction p as [|c p IH]; intros H; [reflexivity|].
  unfold no_escape in H. cbn [forallb] in H. apply andb_prop in H. destruct H as [H1 H2].
  cbn [std_has_meta has_meta existsb]. fold (std_has_meta p). fold (has_meta p).
  rewrite (IH H2). apply negb_true_iff in H1. rewrite H1. rewrite orb_false_r. reflexivity.
Qed.

Lemma afero_dir_is_clean_glob_path : forall d0,
  (if is_empty d0 then s_dot else if beqb d0 s_slash then d0 else chop_last d0) = clean_glob_path d0.
Proof. intros [|c d]; reflexivity. Qed.

Lemma length_removelast : forall (a : str), a <> [] -> Datatypes.S (length (removelast a)) = length a.
Proof.
  induction a as [|c a IH]; intros H; [contradiction|].
  cbn [removelast]. destruct a as [|c2 a']; [reflexivity|].
  cbn [length]. f_equal. apply IH. discriminate.
Qed.

Lemma clean_glob_path_shorter : forall d0,
  has_meta (clean_glob_path d0) = true -> length (clean_glob_path d0) < length d0.
Proof.
  intros d0 H. unfold clean_glob_path in *. destruct d0 as [|c d]; [discriminate H|].
  destruct (beqb (c :: d) s_slash) eqn:E.
  - destruct d as [|c2 d']; [|cbn in E; rewrite andb_false_r in E; discriminate].
    cbn in E. rewrite andb_true_r in E. apply N.eqb_eq in E. subst c. discriminate H.
  - unfold chop_last. assert (L : Datatypes.S (length (removelast (c :: d))) = length (c :: d))
      by (apply length_removelast; discriminate). lia.
Qed.

Lemma path_split_fst_length : forall p, length (fst (path_split p)) <= length p.
Proof. intros p. rewrite (path_split_app p) at 2. rewrite app_length. lia. Qed.

Lemma dir_shorter : forall p,
  has_meta (clean_glob_path (fst (path_split p))) = true ->
  length (clean_glob_path (fst (path_split p))) < length p.
Proof.
  intros p H. pose proof (clean_glob_path_shorter _ H). pose proof (path_split_fst_length p). lia.
Qed.

Lemma beqb_length : forall a b, beqb a b = true -> length a = length b.
Proof.
  induction a as [|x a IH]; intros [|y b] H; cbn [beqb] in H; try discriminate; [reflexivity|].
  apply andb_prop in H. destruct H as [_ H]. cbn [length]. f_equal. apply IH. exact H.
Qed.

(* ---------- main induction ---------- *)
Lemma glob_eq_f : forall fuel depth t pat,
  no_escape pat = true -> std_accepts_f fuel pat = true ->
  (N.of_nat (length pat) + depth < path_separators_limit)%N ->
  afero_glob_f fuel t pat = std_glob_f fuel depth t pat.
Proof.
  induction fuel as [|f IH]; intros depth t pat Hne Hacc Hlen; [reflexivity|].
  cbn [afero_glob_f std_glob_f std_accepts_f] in *.
  assert (Hd : N.eqb depth path_separators_limit = false) by (apply N.eqb_neq; lia).
  rewrite Hd.
  destruct (match_seg pat []) as [b|]; [|discriminate Hacc].
  rewrite (has_meta_std pat Hne).
  destruct (has_meta pat) eqn:Hm; cbn [negb] in *.
  2:{ destruct (lookup t pat); reflexivity. }
  rewrite (surjective_pairing (path_split pat)).
  rewrite afero_dir_is_clean_glob_path.
  set (dir := clean_glob_path (fst (path_split pat))) in *.
  assert (Hned : no_escape dir = true) by (apply no_escape_dir; exact Hne).
  rewrite (has_meta_std dir Hned).
  destruct (has_meta dir) eqn:Hmd; cbn [negb] in *.
  2:{ apply glob1_eq. }
  pose proof (dir_shorter pat Hmd) as Hsh. fold dir in Hsh.
  assert (Hb : beqb dir pat = false).
  { destruct (beqb dir pat) eqn:E; [|reflexivity]. apply beqb_length in E. lia. }
  rewrite Hb.
  rewrite (IH (N.succ depth) t dir Hned Hacc) by lia.
  destruct (std_glob_f f (N.succ depth) t dir) as [m e].
  destruct e; try reflexivity. apply glob_over_eq.
Qed.

Theorem afero_glob_eq_std : forall t pat,
  no_escape pat = true -> std_accepts pat = true ->
  (N.of_nat (length pat) < path_separators_limit)%N ->
  afero_glob t pat = std_glob t pat.
Proof.
  intros t pat Hne Hacc Hlen. unfold afero_glob, std_glob. apply glob_eq_f; try assumption. lia.
Qed.

(* the other half: what filepath.Glob does not accept it rejects without looking at the tree *)
Lemma std_rejects_f : forall fuel depth t pat,
  no_escape pat = true -> std_accepts_f fuel pat = false ->
  std_glob_f fuel depth t pat = ([], GBadPattern).
Proof.
  induction fuel as [|f IH]; intros depth t pat Hne Hacc; [discriminate Hacc|].
  cbn [std_glob_f std_accepts_f] in *.
  destruct (N.eqb depth path_separators_limit); [reflexivity|].
  destruct (match_seg pat []) as [b|]; [|reflexivity].
  rewrite (has_meta_std pat Hne).
  destruct (has_meta pat) eqn:Hm; cbn [negb] in *; [|discriminate Hacc].
  rewrite (surjective_pairing (path_split pat)).
  set (dir := clean_glob_path (fst (path_split pat))) in *.
  assert (Hned : no_escape dir = true) by (apply no_escape_dir; exact Hne).
  rewrite (has_meta_std dir Hned).
  destruct (has_meta dir) eqn:Hmd; cbn [negb] in *; [|discriminate Hacc].
  destruct (beqb dir pat); [reflexivity|].
  rewrite (IH (N.succ depth) t dir Hned Hacc). reflexivity.
Qed.

Theorem std_glob_rejects : forall t pat,
  no_escape pat = true -> std_accepts pat = false -> std_glob t pat = ([], GBadPattern).
Proof. intros t pat Hne Hacc. apply std_rejects_f; assumption. Qed.

(* ---------- the fuel of the model is never exhausted ---------- *)
Lemma glob_names_fuel : forall dir pat names m, snd (afero_glob_names dir pat names m) <> GOutOfFuel.
Proof.
  intros dir pat names. induction names as [|n r IH]; intros m; cbn [afero_glob_names].
  - discriminate.
  - destruct (match_seg pat n) as [[|]|]; [apply IH|apply IH|discriminate].
Qed.

Lemma glob1_fuel : forall t dir pat m, snd (afero_glob1 t dir pat m) <> GOutOfFuel.
Proof.
  intros t dir pat m. unfold afero_glob1. destruct (lookup t dir) as [[|kids]|]; try discriminate.
  apply glob_names_fuel.
Qed.

Lemma glob_over_fuel : forall t file ds m, snd (afero_glob_over t file ds m) <> GOutOfFuel.
Proof.
  intros t file ds. induction ds as [|d r IH]; intros m; cbn [afero_glob_over]; [discriminate|].
  pose proof (glob1_fuel t d file m) as H.
  destruct (afero_glob1 t d file m) as [m' e]. destruct e; cbn [snd] in *; [apply IH|discriminate|exact H].
Qed.

Lemma afero_glob_fuel_f : forall fuel t pat, length pat < fuel ->
  snd (afero_glob_f fuel t pat) <> GOutOfFuel.
Proof.
  induction fuel as [|f IH]; intros t pat Hlen; [lia|].
  cbn [afero_glob_f].
  destruct (has_meta pat) eqn:Hm; cbn [negb].
  2:{ destruct (lookup t pat); discriminate. }
  rewrite (surjective_pairing (path_split pat)). rewrite afero_dir_is_clean_glob_path.
  set (dir := clean_glob_path (fst (path_split pat))).
  destruct (has_meta dir) eqn:Hmd; cbn [negb].
  2:{ apply glob1_fuel. }
  pose proof (dir_shorter pat Hmd) as Hsh. fold dir in Hsh.
  assert (Hr : snd (afero_glob_f f t dir) <> GOutOfFuel) by (apply IH; lia).
  destruct (afero_glob_f f t dir) as [m e]. destruct e; cbn [snd] in *.
  - apply glob_over_fuel.
  - discriminate.
  - exact Hr.
Qed.

Theorem afero_glob_fuel : forall t pat, snd (afero_glob t pat) <> GOutOfFuel.
Proof. intros t pat. apply afero_glob_fuel_f. lia. Qed.
