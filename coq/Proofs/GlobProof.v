(* Proofs/GlobProof.v — C16: afero.Glob and path/filepath.Glob return the same list (same order,
   same error) for every tree and every pattern without escapes that filepath.Glob accepts, in
   particular for every pattern whose elements follow the grammar of Match ([well_formed]) — for
   EITHER value of the two behaviour switches of match.go ([afero_glob_gen bs chk]); and, when hasMeta
   counts the backslash and Glob checks the pattern first (the values /repo has now), for EVERY
   pattern, escapes and malformed ones included. *)
From AF Require Import Lib.Bytes Lib.Path Gen.Consts Model.Walk Model.Glob.

(* ---------- the one-directory step is the same function ---------- *)
Lemma glob_names_eq : forall dir pat names m,
  afero_glob_names dir pat names m = std_glob_names dir pat names m.
Proof.
  intros dir pat names. induction names as [|n r IH]; intros m; cbn [afero_glob_names std_glob_names].
  - reflexivity.
  - destruct (match_seg pat n) as [[|]|]; [apply IH|apply IH|reflexivity].
Qed.

Lemma glob1_eq : forall t dir pat m, afero_glob1 t dir pat m = std_glob1 t dir pat m.
Proof.
  intros t dir pat m. unfold afero_glob1, std_glob1.
  destruct (tree_lookup t dir) as [[|kids]|]; try reflexivity. apply glob_names_eq.
Qed.

Lemma glob_over_eq : forall t file ds m, afero_glob_over t file ds m = std_glob_over t file ds m.
Proof.
  intros t file ds. induction ds as [|d r IH]; intros m; cbn [afero_glob_over std_glob_over].
  - reflexivity.
  - rewrite glob1_eq. destruct (std_glob1 t d file m) as [m' e]. destruct e; try reflexivity. apply IH.
Qed.

(* ---------- strings ---------- *)
Lemma split_last_aux_app : forall s d f, split_last_aux s = Some (d, f) -> s = d ++ f.
Proof.
  induction s as [|c s IH]; intros d f H; cbn [split_last_aux] in H; [discriminate|].
  destruct (split_last_aux s) as [[d' f']|] eqn:E.
  - injection H as Hd Hf. subst d f. cbn [app]. f_equal. apply IH. reflexivity.
  - destruct (N.eqb c SLASH); [|discriminate]. injection H as Hd Hf. subst d f. reflexivity.
Qed.

Lemma path_split_app : forall s, s = fst (path_split s) ++ snd (path_split s).
Proof.
  intros s. unfold path_split. destruct (split_last_aux s) as [[d f]|] eqn:E; cbn [fst snd].
  - apply split_last_aux_app. exact E.
  - reflexivity.
Qed.

Lemma no_escape_app_l : forall a b, no_escape (a ++ b) = true -> no_escape a = true.
Proof. intros a b H. unfold no_escape in *. rewrite forallb_app in H. apply andb_prop in H. tauto. Qed.

Lemma no_escape_removelast : forall a, no_escape a = true -> no_escape (removelast a) = true.
Proof.
  induction a as [|c a IH]; intros H; [reflexivity|].
  cbn [removelast]. destruct a as [|c2 a']; [reflexivity|].
  change (no_escape (c :: removelast (c2 :: a')) = true).
  unfold no_escape in *. cbn [forallb] in H |- *. apply andb_prop in H. destruct H as [H1 H2].
  rewrite H1. cbn [andb]. apply IH. exact H2.
Qed.

Lemma no_escape_clean_glob_path : forall d, no_escape d = true -> no_escape (clean_glob_path d) = true.
Proof.
  intros d H. unfold clean_glob_path. destruct d as [|c d']; [reflexivity|].
  destruct (beqb (c :: d') s_slash); [exact H|]. apply no_escape_removelast. exact H.
Qed.

Lemma no_escape_dir : forall p, no_escape p = true ->
  no_escape (clean_glob_path (fst (path_split p))) = true.
Proof.
  intros p H. apply no_escape_clean_glob_path. apply (no_escape_app_l _ (snd (path_split p))).
  rewrite <- path_split_app. exact H.
Qed.

Lemma has_meta_std : forall p, no_escape p = true -> std_has_meta p = has_meta p.
Proof.
  induction p as [|c p IH]; intros H; [reflexivity|].
  unfold no_escape in H. cbn [forallb] in H. apply andb_prop in H. destruct H as [H1 H2].
  cbn [std_has_meta has_meta existsb]. fold (std_has_meta p). fold (has_meta p).
  rewrite (IH H2). apply negb_true_iff in H1. rewrite H1. rewrite orb_false_r. reflexivity.
Qed.

Lemma has_meta_bs_std : forall p, has_meta_bs p = std_has_meta p.
Proof. reflexivity. Qed.

Lemma afero_has_meta_ne : forall bs p, no_escape p = true -> afero_has_meta bs p = has_meta p.
Proof. intros [|] p H; [|reflexivity]. cbn [afero_has_meta]. rewrite has_meta_bs_std. apply has_meta_std. exact H. Qed.

Lemma afero_dir_is_clean_glob_path : forall d0,
  (if is_empty d0 then s_dot else if beqb d0 s_slash then d0 else chop_last d0) = clean_glob_path d0.
Proof. intros [|c d]; reflexivity. Qed.

Lemma length_removelast : forall (a : str), a <> [] -> Datatypes.S (length (removelast a)) = length a.
Proof.
  induction a as [|c a IH]; intros H; [contradiction|].
  cbn [removelast]. destruct a as [|c2 a']; [reflexivity|].
  cbn [length]. f_equal. apply IH. discriminate.
Qed.

Lemma clean_glob_path_shorter_gen : forall bs d0,
  afero_has_meta bs (clean_glob_path d0) = true -> length (clean_glob_path d0) < length d0.
Proof.
  intros bs d0 H. unfold clean_glob_path in *. destruct d0 as [|c d]; [destruct bs; discriminate H|].
  destruct (beqb (c :: d) s_slash) eqn:E.
  - destruct d as [|c2 d']; [|cbn in E; rewrite andb_false_r in E; discriminate].
    cbn in E. rewrite andb_true_r in E. apply N.eqb_eq in E. subst c. destruct bs; discriminate H.
  - unfold chop_last. assert (L : Datatypes.S (length (removelast (c :: d))) = length (c :: d))
      by (apply length_removelast; discriminate). lia.
Qed.

Lemma clean_glob_path_shorter : forall d0,
  has_meta (clean_glob_path d0) = true -> length (clean_glob_path d0) < length d0.
Proof. intros d0 H. exact (clean_glob_path_shorter_gen false d0 H). Qed.

Lemma path_split_fst_length : forall p, length (fst (path_split p)) <= length p.
Proof. intros p. rewrite (path_split_app p) at 2. rewrite app_length. lia. Qed.

Lemma dir_shorter : forall p,
  has_meta (clean_glob_path (fst (path_split p))) = true ->
  length (clean_glob_path (fst (path_split p))) < length p.
Proof.
  intros p H. pose proof (clean_glob_path_shorter _ H). pose proof (path_split_fst_length p). lia.
Qed.

Lemma dir_shorter_gen : forall bs p,
  afero_has_meta bs (clean_glob_path (fst (path_split p))) = true ->
  length (clean_glob_path (fst (path_split p))) < length p.
Proof.
  intros bs p H. pose proof (clean_glob_path_shorter_gen bs _ H). pose proof (path_split_fst_length p). lia.
Qed.

Lemma beqb_length : forall a b, beqb a b = true -> length a = length b.
Proof.
  induction a as [|x a IH]; intros [|y b] H; cbn [beqb] in H; try discriminate; [reflexivity|].
  apply andb_prop in H. destruct H as [_ H]. cbn [length]. f_equal. apply IH. exact H.
Qed.

(* ---------- main induction ---------- *)
Lemma glob_eq_f : forall bs chk fuel depth t pat,
  no_escape pat = true -> std_accepts_f fuel pat = true ->
  (N.of_nat (length pat) + depth < path_separators_limit)%N ->
  afero_glob_gen_f bs chk fuel t pat = std_glob_f fuel depth t pat.
Proof.
  intros bs chk. induction fuel as [|f IH]; intros depth t pat Hne Hacc Hlen; [reflexivity|].
  cbn [afero_glob_gen_f std_glob_f std_accepts_f] in *. unfold pattern_check_fails.
  assert (Hd : N.eqb depth path_separators_limit = false) by (apply N.eqb_neq; lia).
  rewrite Hd.
  destruct (match_seg pat []) as [b|]; [|discriminate Hacc]. rewrite andb_false_r.
  rewrite (has_meta_std pat Hne), (afero_has_meta_ne bs pat Hne).
  destruct (has_meta pat) eqn:Hm; cbn [negb] in *.
  2:{ destruct (tree_lookup t pat); reflexivity. }
  rewrite (surjective_pairing (path_split pat)).
  rewrite afero_dir_is_clean_glob_path.
  set (dir := clean_glob_path (fst (path_split pat))) in *.
  assert (Hned : no_escape dir = true) by (apply no_escape_dir; exact Hne).
  rewrite (has_meta_std dir Hned), (afero_has_meta_ne bs dir Hned).
  destruct (has_meta dir) eqn:Hmd; cbn [negb] in *.
  2:{ apply glob1_eq. }
  pose proof (dir_shorter pat Hmd) as Hsh. fold dir in Hsh.
  assert (Hb : beqb dir pat = false).
  { destruct (beqb dir pat) eqn:E; [|reflexivity]. apply beqb_length in E. lia. }
  rewrite Hb.
  rewrite (IH (N.succ depth) t dir Hned Hacc) by lia.
  destruct (std_glob_f f (N.succ depth) t dir) as [m e].
  destruct e; try reflexivity. apply glob_over_eq.
Qed.

Theorem afero_glob_gen_eq_std : forall bs chk t pat,
  no_escape pat = true -> std_accepts pat = true ->
  (N.of_nat (length pat) < path_separators_limit)%N ->
  afero_glob_gen bs chk t pat = std_glob t pat.
Proof.
  intros bs chk t pat Hne Hacc Hlen. unfold afero_glob_gen, std_glob. apply glob_eq_f; try assumption. lia.
Qed.

(* match.go as it is in /repo now, whatever the switches say *)
Theorem afero_glob_eq_std : forall t pat,
  no_escape pat = true -> std_accepts pat = true ->
  (N.of_nat (length pat) < path_separators_limit)%N ->
  afero_glob t pat = std_glob t pat.
Proof. intros t pat. apply afero_glob_gen_eq_std. Qed.

(* the other half: what filepath.Glob does not accept it rejects without looking at the tree *)
Lemma std_rejects_f : forall fuel depth t pat,
  no_escape pat = true -> std_accepts_f fuel pat = false ->
  std_glob_f fuel depth t pat = ([], GBadPattern).
Proof.
  induction fuel as [|f IH]; intros depth t pat Hne Hacc; [discriminate Hacc|].
  cbn [std_glob_f std_accepts_f] in *.
  destruct (N.eqb depth path_separators_limit); [reflexivity|].
  destruct (match_seg pat []) as [b|]; [|reflexivity].
  rewrite (has_meta_std pat Hne).
  destruct (has_meta pat) eqn:Hm; cbn [negb] in *; [|discriminate Hacc].
  rewrite (surjective_pairing (path_split pat)).
  set (dir := clean_glob_path (fst (path_split pat))) in *.
  assert (Hned : no_escape dir = true) by (apply no_escape_dir; exact Hne).
  rewrite (has_meta_std dir Hned).
  destruct (has_meta dir) eqn:Hmd; cbn [negb] in *; [|discriminate Hacc].
  destruct (beqb dir pat); [reflexivity|].
  rewrite (IH (N.succ depth) t dir Hned Hacc). reflexivity.
Qed.

Theorem std_glob_rejects : forall t pat,
  no_escape pat = true -> std_accepts pat = false -> std_glob t pat = ([], GBadPattern).
Proof. intros t pat Hne Hacc. apply std_rejects_f; assumption. Qed.

(* ---------- the fuel of the model is never exhausted ---------- *)
Lemma glob_names_fuel : forall dir pat names m, snd (afero_glob_names dir pat names m) <> GOutOfFuel.
Proof.
  intros dir pat names. induction names as [|n r IH]; intros m; cbn [afero_glob_names].
  - discriminate.
  - destruct (match_seg pat n) as [[|]|]; [apply IH|apply IH|discriminate].
Qed.

Lemma glob1_fuel : forall t dir pat m, snd (afero_glob1 t dir pat m) <> GOutOfFuel.
Proof.
  intros t dir pat m. unfold afero_glob1. destruct (tree_lookup t dir) as [[|kids]|]; try discriminate.
  apply glob_names_fuel.
Qed.

Lemma glob_over_fuel : forall t file ds m, snd (afero_glob_over t file ds m) <> GOutOfFuel.
Proof.
  intros t file ds. induction ds as [|d r IH]; intros m; cbn [afero_glob_over]; [discriminate|].
  pose proof (glob1_fuel t d file m) as H.
  destruct (afero_glob1 t d file m) as [m' e]. destruct e; cbn [snd] in *; [apply IH|discriminate|exact H].
Qed.

Lemma afero_glob_fuel_f : forall bs chk fuel t pat, length pat < fuel ->
  snd (afero_glob_gen_f bs chk fuel t pat) <> GOutOfFuel.
Proof.
  intros bs chk. induction fuel as [|f IH]; intros t pat Hlen; [lia|].
  cbn [afero_glob_gen_f].
  destruct (chk && pattern_check_fails pat); [discriminate|].
  destruct (afero_has_meta bs pat) eqn:Hm; cbn [negb].
  2:{ destruct (tree_lookup t pat); discriminate. }
  rewrite (surjective_pairing (path_split pat)). rewrite afero_dir_is_clean_glob_path.
  set (dir := clean_glob_path (fst (path_split pat))).
  destruct (afero_has_meta bs dir) eqn:Hmd; cbn [negb].
  2:{ apply glob1_fuel. }
  pose proof (dir_shorter_gen bs pat Hmd) as Hsh. fold dir in Hsh.
  assert (Hr : snd (afero_glob_gen_f bs chk f t dir) <> GOutOfFuel) by (apply IH; lia).
  destruct (afero_glob_gen_f bs chk f t dir) as [m e]. destruct e; cbn [snd] in *.
  - apply glob_over_fuel.
  - discriminate.
  - exact Hr.
Qed.

Theorem afero_glob_gen_fuel : forall bs chk t pat, snd (afero_glob_gen bs chk t pat) <> GOutOfFuel.
Proof. intros bs chk t pat. apply afero_glob_fuel_f. lia. Qed.

Theorem afero_glob_fuel : forall t pat, snd (afero_glob t pat) <> GOutOfFuel.
Proof. intros t pat. apply afero_glob_gen_fuel. Qed.

(* ====================================================================================
   Well-formed patterns (Model/Glob.v [well_formed]: the grammar of Match, one machine pass):
   - filepath.Match never reports ErrBadPattern on them, whatever the name;
   - every directory part Glob recurses into is well-formed again;
   hence filepath.Glob accepts them, and neither Glob ever returns an error.
   ==================================================================================== *)
Definition wfs (st : pstate) (p : str) : Prop := prun st p = Some PTop.

Ltac consts := unfold STAR, QUEST, LBRACK, RBRACK, BSLASH, CARET, DASH, SLASH, DOT in *.
(* split on every comparison of the character [c] with a constant; impossible combinations die *)
Ltac chars c :=
  repeat match goal with
         | |- context [N.eqb c ?X] => destruct (N.eqb_spec c X)
         | H : context [N.eqb c ?X] |- _ => destruct (N.eqb_spec c X)
         end;
  consts; subst; cbn in *; try congruence; try discriminate.

Lemma prun_app : forall a b st,
  prun st (a ++ b) = match prun st a with Some st' => prun st' b | None => None end.
Proof.
  induction a as [|c a IH]; intros b st; cbn [app prun]; [reflexivity|].
  destruct (pstep st c); [apply IH|reflexivity].
Qed.

Definition is_cls (st : pstate) : bool := match st with PTop => false | _ => true end.

Lemma pstep_bslash : forall st, pstep st BSLASH = None.
Proof. intros [| |[|]| |]; reflexivity. Qed.

Lemma pstep_slash : forall st st', pstep st SLASH = Some st' -> st = PTop /\ st' = PTop.
Proof. intros [| |[|]| |] st' H; cbn in H; try discriminate. injection H as H. auto. Qed.

Lemma pstep_cls : forall st c st', pstep st c = Some st' ->
  is_cls st' = if N.eqb c LBRACK then true else if N.eqb c RBRACK then false else is_cls st.
Proof.
  intros st c st' H. destruct st as [| |[|]| |]; unfold pstep, pstep_class in H; chars c;
    try (injection H as H; subst st'; reflexivity).
Qed.

Lemma wfs_no_escape : forall q st, wfs st q -> no_escape q = true.
Proof.
  induction q as [|c q IH]; intros st H; [reflexivity|].
  unfold wfs in H. cbn [prun] in H. destruct (pstep st c) as [st'|] eqn:E; [|discriminate].
  unfold no_escape. cbn [forallb]. fold (no_escape q). rewrite (IH st' H).
  destruct (N.eqb_spec c BSLASH) as [->|]; [rewrite pstep_bslash in E; discriminate|reflexivity].
Qed.

(* ---------- class_loop follows the machine ---------- *)
Lemma wfs_afterlo_nodash : forall c r, N.eqb c DASH = false ->
  wfs PAfterLo (c :: r) -> wfs (PClass true) (c :: r).
Proof. intros c r Hc H. unfold wfs in *. cbn [prun pstep] in *. rewrite Hc in H. exact H. Qed.

Lemma class_loop_wf : forall fuel chunk r nrange matched,
  length chunk < fuel ->
  wfs (PClass (negb (Nat.eqb nrange 0))) chunk ->
  exists m chunk3, class_loop fuel chunk r nrange matched = Some (m, chunk3)
                   /\ wfs PTop chunk3 /\ length chunk3 < length chunk.
Proof.
  induction fuel as [|f IH]; intros chunk r nrange matched Hlen Hwf; [lia|].
  destruct chunk as [|c rest]; [discriminate Hwf|].
  unfold wfs in Hwf. cbn [prun pstep] in Hwf. cbn [class_loop].
  destruct (N.eqb_spec c RBRACK) as [->|Hc].
  - (* ']' : closes, there must have been a range *)
    unfold pstep_class in Hwf. cbn [N.eqb] in Hwf. change (N.eqb RBRACK RBRACK) with true in *.
    destruct (Nat.eqb nrange 0); cbn [negb andb] in *; [discriminate|].
    exists matched, rest. cbn [tl length]. repeat split; [exact Hwf|lia].
  - cbn [andb]. unfold pstep_class in Hwf.
    destruct (N.eqb_spec c RBRACK) as [|_]; [contradiction|].
    destruct (N.eqb c DASH || N.eqb c BSLASH || N.eqb c SLASH) eqn:Hrej; [discriminate|].
    apply orb_false_iff in Hrej. destruct Hrej as [Hrej Hsl]. apply orb_false_iff in Hrej.
    destruct Hrej as [Hd Hb].
    unfold get_esc at 1. rewrite Hd. destruct (N.eqb_spec c RBRACK) as [|_]; [contradiction|].
    cbn [orb]. rewrite Hb.
    destruct rest as [|c1 rest1]; [discriminate Hwf|].
    destruct (N.eqb c1 DASH) eqn:Hc1.
    + (* lo '-' hi *)
      cbn [prun pstep] in Hwf. rewrite Hc1 in Hwf.
      destruct rest1 as [|hi r2]; [discriminate Hwf|].
      cbn [prun pstep] in Hwf.
      destruct (N.eqb hi DASH || N.eqb hi RBRACK || N.eqb hi BSLASH || N.eqb hi SLASH) eqn:Hh; [discriminate|].
      apply orb_false_iff in Hh. destruct Hh as [Hh _]. apply orb_false_iff in Hh. destruct Hh as [Hh Hhb].
      apply orb_false_iff in Hh. destruct Hh as [Hhd Hhr].
      unfold get_esc. rewrite Hhd, Hhr. cbn [orb]. rewrite Hhb.
      destruct r2 as [|c3 r3]; [discriminate Hwf|].
      destruct (IH (c3 :: r3) r (Datatypes.S nrange) (matched || (N.leb c r && N.leb r hi))) as (m & ch3 & E & W & L).
      * cbn [length] in *. lia.
      * exact Hwf.
      * exists m, ch3. repeat split; [exact E|exact W|cbn [length] in *; lia].
    + destruct (IH (c1 :: rest1) r (Datatypes.S nrange) (matched || (N.leb c r && N.leb r c))) as (m & ch3 & E & W & L).
      * cbn [length] in *. lia.
      * apply wfs_afterlo_nodash; assumption.
      * exists m, ch3. repeat split; [exact E|exact W|cbn [length] in *; lia].
Qed.

(* ---------- matchChunk never fails on a well-formed chunk ---------- *)
Lemma wfs_class0 : forall chunk1,
  wfs PClass0 chunk1 ->
  wfs (PClass false) (if match chunk1 with c2 :: _ => N.eqb c2 CARET | [] => false end
                      then tl chunk1 else chunk1).
Proof.
  intros [|c2 x] H; [discriminate H|].
  unfold wfs in *. cbn [prun pstep] in H.
  destruct (N.eqb c2 CARET); cbn [tl]; [exact H|]. cbn [prun pstep]. exact H.
Qed.

Lemma match_chunk_wf : forall fuel chunk s failed,
  length chunk <= fuel -> wfs PTop chunk -> match_chunk_f fuel chunk s failed <> None.
Proof.
  induction fuel as [|f IH]; intros chunk s failed Hlen Hwf.
  - destruct chunk; [cbn; destruct failed; discriminate|cbn [length] in Hlen; lia].
  - destruct chunk as [|c chunk1]; [cbn; destruct failed; discriminate|].
    cbn [match_chunk_f]. unfold wfs in Hwf. cbn [prun pstep] in Hwf. cbn [length] in Hlen.
    destruct (N.eqb_spec c BSLASH) as [->|Hb]; [discriminate Hwf|].
    destruct (N.eqb_spec c LBRACK) as [->|Hl].
    + pose proof (wfs_class0 chunk1 Hwf) as W.
      set (chunk2 := if match chunk1 with c2 :: _ => N.eqb c2 CARET | [] => false end
                     then tl chunk1 else chunk1) in *.
      assert (L2 : length chunk2 <= length chunk1).
      { subst chunk2. destruct chunk1 as [|c2 x]; [cbn; lia|]. destruct (N.eqb c2 CARET); cbn [tl length]; lia. }
      destruct (class_loop_wf (Datatypes.S (length chunk2)) chunk2
                  (if failed || is_empty s then 0%N else hd 0%N s) 0 false) as (m & ch3 & E & W3 & L3);
        [lia|exact W|].
      rewrite E. apply IH; [lia|exact W3].
    + destruct (N.eqb c QUEST); apply IH; try lia; exact Hwf.
Qed.

(* ---------- scanChunk cuts a well-formed pattern at a top-level position ---------- *)
Lemma scan_aux_step : forall c p ir, N.eqb c BSLASH = false ->
  scan_aux (c :: p) ir =
  if N.eqb c STAR && negb ir then ([], c :: p)
  else let '(a, b) := scan_aux p (if N.eqb c LBRACK then true else if N.eqb c RBRACK then false else ir) in
       (c :: a, b).
Proof.
  intros c p ir Hb. cbn [scan_aux]. rewrite Hb.
  destruct (N.eqb_spec c LBRACK) as [->|]; [reflexivity|].
  destruct (N.eqb_spec c RBRACK) as [->|]; [reflexivity|].
  destruct (N.eqb c STAR); destruct ir; reflexivity.
Qed.

Lemma scan_aux_wf : forall p st chunk rest,
  wfs st p -> scan_aux p (is_cls st) = (chunk, rest) ->
  wfs st chunk /\ wfs PTop rest /\ p = chunk ++ rest.
Proof.
  induction p as [|c p IH]; intros st chunk rest Hwf Hsc.
  - cbn in Hsc. injection Hsc as <- <-. repeat split; exact Hwf.
  - unfold wfs in Hwf. cbn [prun] in Hwf. destruct (pstep st c) as [st'|] eqn:Est; [|discriminate].
    assert (Hb : N.eqb c BSLASH = false).
    { destruct (N.eqb_spec c BSLASH) as [->|]; [rewrite pstep_bslash in Est; discriminate|reflexivity]. }
    rewrite (scan_aux_step c p _ Hb) in Hsc.
    destruct (N.eqb c STAR && negb (is_cls st)) eqn:Estar.
    + injection Hsc as <- <-. apply andb_prop in Estar. destruct Estar as [_ Ht].
      destruct st; try discriminate Ht.
      repeat split. unfold wfs. cbn [prun]. rewrite Est. exact Hwf.
    + rewrite <- (pstep_cls st c st' Est) in Hsc.
      destruct (scan_aux p (is_cls st')) as [a b] eqn:Eab. injection Hsc as <- <-.
      destruct (IH st' a b Hwf Eab) as (Wa & Wb & Ep).
      repeat split; [|exact Wb|cbn [app]; f_equal; exact Ep].
      unfold wfs. cbn [prun]. rewrite Est. exact Wa.
Qed.

Lemma scan_aux_nonempty : forall c p chunk rest,
  N.eqb c STAR = false -> scan_aux (c :: p) false = (chunk, rest) -> chunk <> [].
Proof.
  intros c p chunk rest Hs H. cbn [scan_aux] in H. rewrite Hs in H.
  destruct (N.eqb c BSLASH).
  - destruct p as [|c2 p']; [injection H as <- _; discriminate|].
    destruct (scan_aux p' false). injection H as <- _. discriminate.
  - destruct (N.eqb c LBRACK); [destruct (scan_aux p true); injection H as <- _; discriminate|].
    destruct (N.eqb c RBRACK); destruct (scan_aux p false); injection H as <- _; discriminate.
Qed.

Lemma strip_stars_wf : forall q, wfs PTop q -> wfs PTop (snd (strip_stars q)).
Proof.
  induction q as [|c q IH]; intros H; [exact H|].
  cbn [strip_stars]. destruct (N.eqb_spec c STAR) as [->|]; cbn [snd]; [|exact H].
  apply IH. exact H.
Qed.

Lemma strip_stars_len : forall q, length (snd (strip_stars q)) <= length q.
Proof.
  induction q as [|c q IH]; [cbn; lia|].
  cbn [strip_stars]. destruct (N.eqb c STAR); cbn [snd length]; lia.
Qed.

Lemma strip_stars_true : forall q, fst (strip_stars q) = true -> length (snd (strip_stars q)) < length q.
Proof.
  intros [|c q] H; [discriminate H|].
  cbn [strip_stars] in *. destruct (N.eqb c STAR); cbn [fst snd length] in *; [|discriminate].
  pose proof (strip_stars_len q). lia.
Qed.

Lemma strip_stars_false : forall q, fst (strip_stars q) = false ->
  snd (strip_stars q) = q /\ match q with c :: _ => N.eqb c STAR = false | [] => True end.
Proof.
  intros [|c q] H; [split; [reflexivity|exact I]|].
  cbn [strip_stars] in *. destruct (N.eqb c STAR); cbn [fst snd] in *; [discriminate|]. split; reflexivity.
Qed.

Lemma scan_chunk_wf : forall q star chunk rest,
  wfs PTop q -> q <> [] -> scan_chunk q = (star, chunk, rest) ->
  wfs PTop chunk /\ wfs PTop rest /\ (star && is_empty chunk = true \/ length rest < length q).
Proof.
  intros q star chunk rest Hwf Hne H. unfold scan_chunk in H.
  rewrite (surjective_pairing (strip_stars q)) in H.
  destruct (scan_aux (snd (strip_stars q)) false) as [a b] eqn:Eab. injection H as <- <- <-.
  destruct (scan_aux_wf (snd (strip_stars q)) PTop a b (strip_stars_wf q Hwf) Eab) as (Wa & Wb & Ep).
  repeat split; [exact Wa|exact Wb|].
  assert (Lab : length (snd (strip_stars q)) = length a + length b) by (rewrite Ep at 1; apply app_length).
  destruct (fst (strip_stars q)) eqn:Es.
  - pose proof (strip_stars_true q Es). right. lia.
  - destruct (strip_stars_false q Es) as [Eq Hc]. rewrite Eq in *.
    destruct q as [|c q']; [contradiction|].
    pose proof (scan_aux_nonempty c q' a b Hc Eab) as Hna.
    right. destruct a; [contradiction|]. cbn [length] in *. lia.
Qed.

(* ---------- Match never reports ErrBadPattern on a well-formed pattern ---------- *)
Lemma star_loop_wf : forall chunk last name, wfs PTop chunk -> star_loop chunk last name <> None.
Proof.
  intros chunk last name Hwf. induction name as [|c name IH]; cbn [star_loop]; [discriminate|].
  destruct (N.eqb c SLASH); [discriminate|].
  pose proof (match_chunk_wf (length chunk) chunk name false (le_n _) Hwf) as H.
  unfold match_chunk. destruct (match_chunk_f (length chunk) chunk name false) as [[t|]|]; [|exact IH|contradiction].
  destruct (last && negb (is_empty t)); [exact IH|discriminate].
Qed.

Lemma match_f_wf : forall fuel q name, length q < fuel -> wfs PTop q -> match_f fuel q name <> None.
Proof.
  induction fuel as [|f IH]; intros q name Hlen Hwf; [lia|].
  destruct q as [|c0 q0]; [cbn; discriminate|].
  cbn [match_f].
  destruct (scan_chunk (c0 :: q0)) as [[star chunk] rest] eqn:Esc.
  destruct (scan_chunk_wf (c0 :: q0) star chunk rest Hwf ltac:(discriminate) Esc) as (Wc & Wr & Hor).
  destruct (star && is_empty chunk) eqn:Ese; [discriminate|].
  destruct Hor as [Hor|Hlr]; [discriminate|].
  assert (Hrec : forall t, match_f f rest t <> None) by (intros t; apply IH; [lia|exact Wr]).
  assert (Haf : (if star
                 then match star_loop chunk (is_empty rest) name with
                      | Some (Some t) => match_f f rest t
                      | Some None => Some false
                      | None => None
                      end
                 else Some false) <> None).
  { destruct star; [|discriminate].
    pose proof (star_loop_wf chunk (is_empty rest) name Wc) as Hsl.
    destruct (star_loop chunk (is_empty rest) name) as [[t|]|]; [apply Hrec|discriminate|contradiction]. }
  pose proof (match_chunk_wf (length chunk) chunk name false (le_n _) Wc) as Hmc.
  unfold match_chunk. destruct (match_chunk_f (length chunk) chunk name false) as [[t|]|]; [|exact Haf|contradiction].
  destruct (is_empty t || negb (is_empty rest)); [apply Hrec|exact Haf].
Qed.

Theorem match_seg_wf : forall pat name, well_formed pat = true -> match_seg pat name <> None.
Proof.
  intros pat name H. unfold match_seg. apply match_f_wf; [lia|].
  unfold well_formed in H. unfold wfs. destruct (prun PTop pat) as [[| | | |]|]; try discriminate. reflexivity.
Qed.

(* ---------- the directory part and the last element of a well-formed pattern ---------- *)
Lemma split_last_aux_slash : forall s d f, split_last_aux s = Some (d, f) -> exists d', d = d' ++ [SLASH].
Proof.
  induction s as [|c s IH]; intros d f H; cbn [split_last_aux] in H; [discriminate|].
  destruct (split_last_aux s) as [[d1 f1]|] eqn:E.
  - injection H as <- <-. destruct (IH d1 f1 eq_refl) as [d' ->]. exists (c :: d'). reflexivity.
  - destruct (N.eqb_spec c SLASH) as [->|]; [|discriminate]. injection H as <- <-. exists []. reflexivity.
Qed.

Lemma beqb_eq : forall a b, beqb a b = true -> a = b.
Proof.
  induction a as [|x a IH]; intros [|y b] H; cbn [beqb] in H; try discriminate; [reflexivity|].
  apply andb_prop in H. destruct H as [H1 H2]. apply N.eqb_eq in H1. subst y. f_equal. apply IH. exact H2.
Qed.

Lemma wfs_split : forall d' f, wfs PTop (d' ++ SLASH :: f) -> wfs PTop d' /\ wfs PTop f.
Proof.
  intros d' f H. unfold wfs in *. rewrite prun_app in H.
  destruct (prun PTop d') as [st|]; [|discriminate]. cbn [prun] in H.
  destruct (pstep st SLASH) as [st'|] eqn:E; [|discriminate].
  destruct (pstep_slash st st' E) as [-> ->]. split; [reflexivity|exact H].
Qed.

Lemma clean_glob_path_slash : forall d',
  clean_glob_path (d' ++ [SLASH]) = match d' with [] => s_slash | _ => d' end.
Proof.
  intros [|a d'']; [reflexivity|].
  unfold clean_glob_path. cbn [app].
  assert (Eb : beqb (a :: d'' ++ [SLASH]) s_slash = false).
  { unfold s_slash. cbn [beqb]. destruct d''; cbn [app beqb]; apply andb_false_r. }
  rewrite Eb. unfold chop_last. change (a :: d'' ++ [SLASH]) with ((a :: d'') ++ [SLASH]).
  apply removelast_last.
Qed.

Lemma wfs_dir : forall q, wfs PTop q -> wfs PTop (clean_glob_path (fst (path_split q))).
Proof.
  intros q H. unfold path_split. destruct (split_last_aux q) as [[d f]|] eqn:E; cbn [fst].
  - pose proof (split_last_aux_app q d f E) as Eq.
    destruct (split_last_aux_slash q d f E) as [d' ->].
    rewrite clean_glob_path_slash.
    rewrite Eq, <- app_assoc in H. cbn [app] in H. apply wfs_split in H.
    destruct d'; [reflexivity|tauto].
  - reflexivity.
Qed.

Lemma wfs_file : forall q, wfs PTop q -> wfs PTop (snd (path_split q)).
Proof.
  intros q H. unfold path_split. destruct (split_last_aux q) as [[d f]|] eqn:E; cbn [snd]; [|exact H].
  pose proof (split_last_aux_app q d f E) as Eq.
  destruct (split_last_aux_slash q d f E) as [d' ->].
  rewrite Eq, <- app_assoc in H. cbn [app] in H. apply wfs_split in H. tauto.
Qed.

Lemma well_formed_wfs : forall pat, well_formed pat = true <-> wfs PTop pat.
Proof.
  intros pat. unfold well_formed, wfs. destruct (prun PTop pat) as [[| | | |]|]; split; intros H;
    try discriminate; try reflexivity; try (injection H as H; discriminate).
Qed.

Lemma wf_accepts_f : forall fuel q, wfs PTop q -> std_accepts_f fuel q = true.
Proof.
  induction fuel as [|f IH]; intros q H; [reflexivity|].
  cbn [std_accepts_f].
  pose proof (match_seg_wf q [] (proj2 (well_formed_wfs q) H)) as Hm.
  destruct (match_seg q []); [|contradiction].
  destruct (has_meta q); cbn [negb]; [|reflexivity].
  destruct (has_meta (clean_glob_path (fst (path_split q)))); cbn [negb]; [|reflexivity].
  apply IH. apply wfs_dir. exact H.
Qed.

Theorem well_formed_accepted : forall pat,
  well_formed pat = true -> no_escape pat = true /\ std_accepts pat = true.
Proof.
  intros pat H. apply well_formed_wfs in H. split.
  - exact (wfs_no_escape pat PTop H).
  - apply wf_accepts_f. exact H.
Qed.

Theorem afero_glob_gen_eq_std_wf : forall bs chk t pat,
  well_formed pat = true -> (N.of_nat (length pat) < path_separators_limit)%N ->
  afero_glob_gen bs chk t pat = std_glob t pat.
Proof.
  intros bs chk t pat H L. destruct (well_formed_accepted pat H) as [Hne Hacc].
  apply afero_glob_gen_eq_std; assumption.
Qed.

Theorem afero_glob_eq_std_wf : forall t pat,
  well_formed pat = true -> (N.of_nat (length pat) < path_separators_limit)%N ->
  afero_glob t pat = std_glob t pat.
Proof. intros t pat. apply afero_glob_gen_eq_std_wf. Qed.

(* ---------- neither Glob returns an error on a well-formed pattern ---------- *)
Lemma glob_names_wf : forall dir file names m, wfs PTop file ->
  snd (afero_glob_names dir file names m) = GNil.
Proof.
  intros dir file names m H. revert m. induction names as [|n r IH]; intros m; cbn [afero_glob_names]; [reflexivity|].
  pose proof (match_seg_wf file n (proj2 (well_formed_wfs file) H)) as Hm.
  destruct (match_seg file n) as [[|]|]; [apply IH|apply IH|contradiction].
Qed.

Lemma glob1_wf : forall t dir file m, wfs PTop file -> snd (afero_glob1 t dir file m) = GNil.
Proof.
  intros t dir file m H. unfold afero_glob1. destruct (tree_lookup t dir) as [[|kids]|]; try reflexivity.
  apply glob_names_wf. exact H.
Qed.

Lemma glob_over_wf : forall t file ds m, wfs PTop file -> snd (afero_glob_over t file ds m) = GNil.
Proof.
  intros t file ds m H. revert m. induction ds as [|d r IH]; intros m; cbn [afero_glob_over]; [reflexivity|].
  pose proof (glob1_wf t d file m H) as H1. destruct (afero_glob1 t d file m) as [m' e]. cbn [snd] in H1.
  subst e. apply IH.
Qed.

(* the pattern check of Glob (when match.go has it) lets every well-formed pattern through *)
Lemma wfs_check_passes : forall chk q, wfs PTop q -> chk && pattern_check_fails q = false.
Proof.
  intros chk q H. unfold pattern_check_fails.
  pose proof (match_seg_wf q [] (proj2 (well_formed_wfs q) H)) as Hm.
  destruct (match_seg q []); [apply andb_false_r|contradiction].
Qed.

Lemma afero_glob_wf_f : forall bs chk fuel t q, length q < fuel -> wfs PTop q ->
  snd (afero_glob_gen_f bs chk fuel t q) = GNil.
Proof.
  intros bs chk. induction fuel as [|f IH]; intros t q Hlen H; [lia|].
  cbn [afero_glob_gen_f]. rewrite (wfs_check_passes chk q H).
  rewrite (afero_has_meta_ne bs q (wfs_no_escape q PTop H)).
  destruct (has_meta q) eqn:Hm; cbn [negb].
  2:{ destruct (tree_lookup t q); reflexivity. }
  rewrite (surjective_pairing (path_split q)). rewrite afero_dir_is_clean_glob_path.
  set (dir := clean_glob_path (fst (path_split q))).
  pose proof (wfs_file q H) as Hf.
  assert (Hwd : wfs PTop dir) by (apply wfs_dir; exact H).
  rewrite (afero_has_meta_ne bs dir (wfs_no_escape dir PTop Hwd)).
  destruct (has_meta dir) eqn:Hmd; cbn [negb].
  2:{ apply glob1_wf. exact Hf. }
  pose proof (dir_shorter q Hmd) as Hsh. fold dir in Hsh.
  assert (Hr : snd (afero_glob_gen_f bs chk f t dir) = GNil) by (apply IH; [lia|exact Hwd]).
  destruct (afero_glob_gen_f bs chk f t dir) as [m e]. cbn [snd] in Hr. subst e.
  apply glob_over_wf. exact Hf.
Qed.

Theorem afero_glob_gen_wf_no_error : forall bs chk t pat,
  well_formed pat = true -> snd (afero_glob_gen bs chk t pat) = GNil.
Proof.
  intros bs chk t pat H. apply afero_glob_wf_f; [lia|]. apply well_formed_wfs. exact H.
Qed.

Theorem afero_glob_wf_no_error : forall t pat, well_formed pat = true -> snd (afero_glob t pat) = GNil.
Proof. intros t pat. apply afero_glob_gen_wf_no_error. Qed.

(* ---------- what a well-formed Glob denotes ---------- *)
Lemma glob_names_spec : forall dir file names m, wfs PTop file ->
  afero_glob_names dir file names m =
  (m ++ map (fun n => path_join [dir; n]) (filter (matches file) names), GNil).
Proof.
  intros dir file names m H. revert m.
  induction names as [|n r IH]; intros m; cbn [afero_glob_names filter map].
  - rewrite app_nil_r. reflexivity.
  - pose proof (match_seg_wf file n (proj2 (well_formed_wfs file) H)) as Hm. unfold matches at 1.
    destruct (match_seg file n) as [[|]|]; [|apply IH|contradiction].
    rewrite IH. cbn [map]. rewrite <- app_assoc. reflexivity.
Qed.

Lemma glob1_spec : forall t dir file m, wfs PTop file ->
  afero_glob1 t dir file m = (m ++ glob_level t dir file, GNil).
Proof.
  intros t dir file m H. unfold afero_glob1, glob_level.
  destruct (tree_lookup t dir) as [[|kids]|]; try (rewrite app_nil_r; reflexivity).
  apply glob_names_spec. exact H.
Qed.

Lemma glob_over_spec : forall t file ds m, wfs PTop file ->
  afero_glob_over t file ds m = (m ++ flat_map (fun d => glob_level t d file) ds, GNil).
Proof.
  intros t file ds m H. revert m. induction ds as [|d r IH]; intros m; cbn [afero_glob_over flat_map].
  - rewrite app_nil_r. reflexivity.
  - rewrite (glob1_spec t d file m H). rewrite IH. rewrite <- app_assoc. reflexivity.
Qed.

Lemma afero_glob_spec_f : forall bs chk fuel t q, length q < fuel -> wfs PTop q ->
  afero_glob_gen_f bs chk fuel t q = (glob_spec_f fuel t q, GNil).
Proof.
  intros bs chk. induction fuel as [|f IH]; intros t q Hlen H; [lia|].
  cbn [afero_glob_gen_f glob_spec_f]. rewrite (wfs_check_passes chk q H).
  rewrite (afero_has_meta_ne bs q (wfs_no_escape q PTop H)).
  destruct (has_meta q) eqn:Hm; cbn [negb].
  2:{ destruct (tree_lookup t q); reflexivity. }
  rewrite (surjective_pairing (path_split q)). rewrite afero_dir_is_clean_glob_path. cbn [fst snd].
  set (dir := clean_glob_path (fst (path_split q))).
  pose proof (wfs_file q H) as Hf.
  assert (Hwd : wfs PTop dir) by (apply wfs_dir; exact H).
  rewrite (afero_has_meta_ne bs dir (wfs_no_escape dir PTop Hwd)).
  destruct (has_meta dir) eqn:Hmd; cbn [negb].
  2:{ rewrite (glob1_spec t dir _ [] Hf). reflexivity. }
  pose proof (dir_shorter q Hmd) as Hsh. fold dir in Hsh.
  rewrite (IH t dir) by (try lia; exact Hwd).
  rewrite (glob_over_spec t _ _ [] Hf). reflexivity.
Qed.

Theorem afero_glob_gen_denotes : forall bs chk t pat, well_formed pat = true ->
  afero_glob_gen bs chk t pat = (glob_spec t pat, GNil).
Proof.
  intros bs chk t pat H. apply afero_glob_spec_f; [lia|]. apply well_formed_wfs. exact H.
Qed.

Theorem afero_glob_denotes : forall t pat, well_formed pat = true ->
  afero_glob t pat = (glob_spec t pat, GNil).
Proof. intros t pat. apply afero_glob_gen_denotes. Qed.
