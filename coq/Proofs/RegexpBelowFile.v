(* Proofs/RegexpBelowFile.v — C13, MemMapFs underneath: the calls RegexpFs forwards without looking at
   the ANCESTORS of the name (Create of a matching name, Mkdir, MkdirAll, Rename to a matching name)
   cannot reach below a regular file any more: MemMapFs answers ENOTDIR (Proofs/MemBelowRefused.v) and
   what it holds — the regular file, hidden or not, included — is exactly what it was.
   (Known findings hidden-became-dir:{Create,Mkdir,MkdirAll,Rename} before memmap.go got the check.) *)
From AF Require Import Lib.Bytes Lib.Path Lib.Ops Gen.Consts Model.MemFile Model.MemFs Model.ReadOnly
  Model.Regexp Model.Stack Proofs.MemFsBasics Proofs.MemBelow Proofs.MemBelowRefused Proofs.RegexpProof.
Local Open Scope Z_scope.

(* the situation is a matter of the path map and the nodes only *)
Lemma nearest_is_file_view s t d : fs_view s = fs_view t -> nearest_is_file s d -> nearest_is_file t d.
Proof.
  intros E. unfold fs_view in E. inversion E as [[Ed Eh]].
  induction 1 as [d f n Hl Hn Hd | d Hl _ IH].
  - apply (nif_here t d f n); [unfold lookup in *; now rewrite <- Ed | unfold get_node in *; now rewrite <- Eh | exact Hd].
  - apply nif_up; [unfold lookup in *; now rewrite <- Ed | exact IH].
Qed.

Section BelowFile.
Variables (m : str -> bool) (s : mst) (w : list nat) (p : str).
Let k := normalize_path p.
Hypothesis Hfree : lookup s k = None.
Hypothesis Hnear : nearest_is_file s (path_dir k).

Lemma re_create_below_file :
  fs_view (fst (fst (re_step m_step m (s, w) (Create p)))) = fs_view s /\
  exists e, snd (re_step m_step m (s, w) (Create p)) = RErr e.
Proof.
  cbn [re_step]. destruct (m p).
  - destruct (below_file_refused s p Hnear) as [[Hc _] _]; [exact Hfree|]. rewrite Hc. cbn [fst snd]. split; [reflexivity | now eexists].
  - cbn [fst snd]. split; [reflexivity | now eexists].
Qed.

Lemma re_mkdir_below_file perm :
  fs_view (fst (fst (re_step m_step m (s, w) (Mkdir p perm)))) = fs_view s /\
  snd (re_step m_step m (s, w) (Mkdir p perm)) = RErr (EW KENOTDIR).
Proof.
  cbn [re_step]. destruct (below_file_refused s p Hnear) as [[_ [Hc _]] _]; [exact Hfree|].
  rewrite Hc. cbn [fst snd]. now split.
Qed.

Lemma re_mkdirall_below_file perm :
  fs_view (fst (fst (re_step m_step m (s, w) (MkdirAll p perm)))) = fs_view s /\
  snd (re_step m_step m (s, w) (MkdirAll p perm)) = RErr (EW KENOTDIR).
Proof.
  cbn [re_step]. destruct (below_file_refused s p Hnear) as [[_ [_ [Hc _]]] _]; [exact Hfree|].
  rewrite Hc. cbn [fst snd]. now split.
Qed.

(* Rename to the name: whatever the source is (missing, directory, hidden, matching), the stored
   filesystem is unchanged *)
Lemma re_rename_below_file q :
  fs_view (fst (fst (re_step m_step m (s, w) (Rename q p)))) = fs_view s.
Proof.
  cbn [re_step]. unfold is_dir. pose proof (m_stat_view s q) as Hv.
  destruct (m_step s (Stat q)) as [s1 r] eqn:Es. cbn [fst] in Hv.
  destruct r as [| | |e|h|fi|b e|n e|n e|l e|l e|nm]; cbn [fst snd]; try exact Hv.
  destruct (fi_dir fi); cbn [fst snd]; [exact Hv|].
  destruct (m q); cbn [negb fst snd]; [|exact Hv]. destruct (m p); cbn [negb fst snd]; [|exact Hv].
  (* forwarded: the source exists (Stat answered) *)
  assert (Hq : lookup s (normalize_path q) <> None).
  { unfold m_step in Es. cbn [m_step_raw] in Es. unfold m_stat in Es.
    destruct (lookup s (normalize_path q)); [discriminate | inversion Es]. }
  assert (Hq1 : lookup s1 (normalize_path q) <> None).
  { unfold fs_view in Hv. inversion Hv as [[Ed Eh]]. unfold lookup in *. now rewrite Ed. }
  assert (Hne : normalize_path q <> k) by (intros E; rewrite E in Hq; contradiction).
  assert (Hnear1 : nearest_is_file s1 (path_dir k)) by (apply (nearest_is_file_view s s1); [now symmetry | exact Hnear]).
  destruct (below_file_refused s1 p Hnear1) as [_ Hr]. rewrite (Hr q Hq1 Hne). cbn [fst snd]. exact Hv.
Qed.
End BelowFile.

Theorem re_mem_nothing_below_a_file m s w p :
  let k := normalize_path p in
  lookup s k = None -> nearest_is_file s (path_dir k) ->
  (forall o, o = Create p \/ (exists perm, o = Mkdir p perm) \/ (exists perm, o = MkdirAll p perm) ->
     fs_view (fst (fst (re_step m_step m (s, w) o))) = fs_view s /\
     snapshot (fst (fst (re_step m_step m (s, w) o))) = snapshot s /\
     exists e, snd (re_step m_step m (s, w) o) = RErr e) /\
  (forall q, fs_view (fst (fst (re_step m_step m (s, w) (Rename q p)))) = fs_view s /\
             snapshot (fst (fst (re_step m_step m (s, w) (Rename q p)))) = snapshot s).
Proof.
  intros k Hfree Hnear. split.
  - intros o [-> | [[perm ->] | [perm ->]]].
    + destruct (re_create_below_file m s w p Hfree Hnear) as [Hv He]. split; [exact Hv|]. split; [now apply snapshot_of_view | exact He].
    + destruct (re_mkdir_below_file m s w p Hfree Hnear perm) as [Hv He]. split; [exact Hv|]. split; [now apply snapshot_of_view | eexists; exact He].
    + destruct (re_mkdirall_below_file m s w p Hfree Hnear perm) as [Hv He]. split; [exact Hv|]. split; [now apply snapshot_of_view | eexists; exact He].
  - intros q. pose proof (re_rename_below_file m s w p Hfree Hnear q) as Hv. split; [exact Hv | now apply snapshot_of_view].
Qed.
