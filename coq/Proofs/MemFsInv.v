(* Proofs/MemFsInv.v — the invariant WF holds after every well-formed sequence of calls, and what
   it says in plain terms (I1–I6). *)
From AF Require Import Lib.Bytes Lib.Path Lib.Ops Gen.Consts Model.MemFile Model.MemFs Model.WfOps
  Proofs.BytesLemmas Proofs.MemFsPath Proofs.MemFsWF Proofs.MemFsStep Proofs.MemFsRename Proofs.MemFsBelow.
Local Open Scope Z_scope.

Theorem WF_step_raw s o : WF s -> wf_op s o = true -> WF (fst (m_step_raw s o)).
Proof.
  intros W Hwf. apply wf_op_cases in Hwf as [Hwf | Hb]; [|now rewrite (below_raw s o W Hb)].
  pose proof (WF_handle_ops s o W) as Hh.
  destruct o; try exact Hh; cbn [m_step_raw].
  - now apply WF_create.
  - now apply WF_mkdir.
  - now apply WF_mkdirall.
  - now apply WF_open.
  - now apply WF_openfile.
  - now apply WF_remove.
  - now apply WF_removeall.
  - now apply WF_rename.
  - now apply WF_stat.
  - now apply WF_chmod.
  - now apply WF_chown.
  - now apply WF_chtimes.
Qed.

Theorem WF_step s o : WF s -> wf_op s o = true -> WF (fst (m_step s o)).
Proof.
  intros W Hwf. pose proof (WF_step_raw s o W Hwf) as W1. unfold m_step.
  destruct (m_step_raw s o) as [s1 r]. cbn [fst] in *. eapply WF_view; [| |exact W1]; reflexivity.
Qed.

(* Rename moves the subtree — for every call of the class whose target does not pass through a
   regular file (the others are refused: below_raw) *)
Theorem rename_moves_subtree s p q :
  WF s -> wf_op s (Rename p q) = true ->
  let old := normalize_path p in let new := normalize_path q in
  lookup s old <> None -> old <> new -> through_file s new = false ->
  let s' := fst (m_step s (Rename p q)) in
  snd (m_step s (Rename p q)) = ROk /\ WF s' /\
  (forall rest, suffix_ok rest -> entry_at s' (new ++ rest) = entry_at s (old ++ rest)) /\
  (forall rest, suffix_ok rest -> entry_at s' (old ++ rest) = None) /\
  (forall k, ~ atbelow old k -> ~ atbelow new k -> entry_at s' k = entry_at s k).
Proof.
  intros W Hwf old new Hex Hne Ht. apply wf_op_cases in Hwf as [Hwf | Hb]; [now apply rename_moves_subtree_ord|].
  exfalso. cbn [wf_below] in Hb. fold old new in Hb. apply andb_true_iff in Hb as [_ Hb].
  destruct (kind_at s old); [|discriminate]. apply andb_true_iff in Hb as [_ Hb]. congruence.
Qed.

Lemma run_steps_cons {St} (step : St -> op -> St * res) s o ops :
  fst (run_steps step s (o :: ops)) = fst (run_steps step (fst (step s o)) ops).
Proof.
  cbn [run_steps]. destruct (step s o) as [s1 x]. cbn [fst]. now destruct (run_steps step s1 ops).
Qed.

Theorem wf_seq_WF : forall ops s, WF s -> wf_seq s ops = true -> WF (fst (run_steps m_step s ops)).
Proof.
  induction ops as [|o ops IH]; intros s W Hseq; [exact W|].
  cbn [wf_seq] in Hseq. apply andb_true_iff in Hseq as [Ho Hr].
  rewrite run_steps_cons. apply IH; [now apply WF_step | exact Hr].
Qed.

Theorem index_mirrors_map ops : wf_seq m_init ops = true -> WF (fst (run_steps m_step m_init ops)).
Proof. apply wf_seq_WF. exact WF_init. Qed.

(* ---------- WF in plain terms ---------- *)
Definition live_key (s : mst) (k : str) (r : nat) : Prop := In (k, r) (mdata s).

Record WF_plain (s : mst) : Prop := mkWFplain {
  (* I1 *) wp_keys : NoDup (map fst (mdata s)) /\
                     forall k r, live_key s k r -> normalize_path k = k /\ is_rooted k = true;
  (* I2 *) wp_node : forall k r, live_key s k r -> exists n, get_node s r = Some n /\ nname n = k;
  (* I3 *) wp_root : exists r n, live_key s s_slash r /\ get_node s r = Some n /\ ndir n = true;
  (* I4 *) wp_par : forall k r, live_key s k r -> k <> s_slash ->
             exists p pn, live_key s (path_dir k) p /\ get_node s p = Some pn /\ ndir pn = true /\ nhasdir pn = true /\
                          In (k, r) (nkids pn) /\ clean (fst (path_split k)) = path_dir k;
  (* I5 *) wp_kids : forall d p pn name r, live_key s d p -> get_node s p = Some pn -> In (name, r) (nkids pn) ->
             live_key s name r /\ path_dir name = d /\ NoDup (map fst (nkids pn));
  (* I6 *) wp_inj : forall k1 k2 r, live_key s k1 r -> live_key s k2 r -> k1 = k2
}.

Lemma live_lookup s k r : WF s -> (live_key s k r <-> lookup s k = Some r).
Proof.
  intros W. unfold live_key. split; [apply in_aget; apply (g_nodup _ _ _ _ W) | apply aget_in].
Qed.

Theorem WF_meaning s : WF s -> WF_plain s.
Proof.
  intros W. pose proof (live_lookup s) as LL. split.
  - split; [apply (g_nodup _ _ _ _ W)|]. intros k r H. apply LL in H; auto. apply (g_canon _ _ _ _ W k r H).
  - intros k r H. apply LL in H; auto. destruct (g_node _ _ _ _ W k r H) as (n & Hn & _). exists n. split; [exact Hn|].
    rewrite <- (node_name_get s r n Hn). now apply WF_fresh.
  - destruct (g_root _ _ _ _ W) as (r & n & Hl & Hn & _ & Hd). exists r, n. split; [now apply LL | auto].
  - intros k r H Hr. apply LL in H; auto.
    destruct (g_par _ _ _ _ W k r H (WF_fresh s k r W H) Hr) as (p & pn & Hp & Hpn & Hpd & Hk); [intros [] | intros [] |].
    destruct (g_node _ _ _ _ W _ _ Hp) as (pn' & Hpn' & _ & Hdh & _). rewrite Hpn in Hpn'. inversion Hpn'; subst pn'.
    exists p, pn. split; [now apply LL|]. repeat split; auto; [congruence | now apply aget_in].
  - intros d p pn name r Hd Hp Hin. apply LL in Hd; auto.
    destruct (g_node _ _ _ _ W _ _ Hd) as (pn' & Hpn' & _ & _ & Hnd). rewrite Hp in Hpn'. inversion Hpn'; subst pn'.
    pose proof (in_aget _ _ _ Hnd Hin) as Hg.
    destruct (g_kids _ _ _ _ W d p pn name r Hd Hp Hg) as (Hy & [[]|(_ & _ & Hl & _)]).
    split; [now apply LL|]. split; [|exact Hnd].
    transitivity (node_name s p); [symmetry; exact (WF_fresh s (par name) p W Hy) | exact (WF_fresh s d p W Hd)].
  - intros k1 k2 r H1 H2. apply LL in H1, H2; auto. rewrite <- (WF_fresh s k1 r W H1). now apply WF_fresh.
Qed.

(* ---------- spellings: a call depends on its path arguments only through normalizePath ---------- *)
Definition same_names (o o' : op) : Prop :=
  match o, o' with
  | Create p, Create p' | Open p, Open p' | Remove p, Remove p' | RemoveAll p, RemoveAll p' | Stat p, Stat p' =>
      normalize_path p = normalize_path p'
  | Mkdir p m, Mkdir p' m' | MkdirAll p m, MkdirAll p' m' | Chmod p m, Chmod p' m' | Chtimes p m, Chtimes p' m' =>
      normalize_path p = normalize_path p' /\ m = m'
  | OpenFile p f m, OpenFile p' f' m' | Chown p f m, Chown p' f' m' =>
      normalize_path p = normalize_path p' /\ f = f' /\ m = m'
  | Rename p q, Rename p' q' => normalize_path p = normalize_path p' /\ normalize_path q = normalize_path q'
  | _, _ => o = o'
  end.

Theorem same_names_same_step s o o' : same_names o o' -> m_step s o = m_step s o'.
Proof.
  intros H. unfold m_step.
  assert (E : m_step_raw s o = m_step_raw s o'); [|now rewrite E].
  destruct o, o'; cbn [same_names] in H; try discriminate H; try (inversion H; reflexivity); cbn [m_step_raw].
  - unfold m_create. now rewrite H.
  - destruct H as [H ->]. unfold m_mkdir. now rewrite H.
  - destruct H as [H ->]. unfold m_mkdirall, m_mkdir. now rewrite H.
  - unfold m_open. now rewrite H.
  - destruct H as (H & -> & ->). unfold m_openfile. now rewrite H.
  - unfold m_remove. now rewrite H.
  - unfold m_removeall. now rewrite H.
  - destruct H as [H1 H2]. unfold m_rename. now rewrite H1, H2.
  - unfold m_stat. now rewrite H.
  - destruct H as [H ->]. unfold m_chmod. now rewrite H.
  - destruct H as (H & -> & ->). unfold m_chown. now rewrite H.
  - destruct H as [H ->]. unfold m_chtimes. now rewrite H.
Qed.
