(* Proofs/CowLayer.v — C06, facts about ONE MemMapFs layer in a well-formed state (the invariant WF
   of C01) that the copy-up and view theorems need: what Stat / MkdirAll / Create / Remove and the
   file-handle methods do to the content view `cview` (Model/CowView.v), for EVERY well-formed
   state and EVERY rooted name — any number of missing ancestor directories, any spelling of the
   name.  Built on the C01 stack (register_chain, WF_mkdir_chain, GWF_unregister, ...). *)
From AF Require Import Lib.Bytes Lib.Path Lib.Ops Gen.Consts Model.MemFile Model.MemFs Model.WfOps Model.CowView
  Model.Union
  Proofs.MemFsPath Proofs.MemFsBasics Proofs.MemFsWF Proofs.MemBelow Proofs.MemFsStep Proofs.MemFsInv Proofs.MemFsBelow Proofs.PathProof
  Proofs.CopyUpProof.
Local Open Scope Z_scope.

(* ---------------- names ---------------- *)
Lemma copyfile_cleans_name_fact : copyfile_cleans_name = 1.
Proof. reflexivity. Qed.

Lemma wf_name_canon name : wf_name name = true -> canon (normalize_path name).
Proof. intros H. now apply canon_normalize. Qed.

(* the directory copyFile makes sure of is the parent of the normalised name: whatever the spelling
   (trailing separators, "." and ".." elements, repeated separators).  Needs copyfile_cleans_name = 1. *)
Lemma copy_dir_key name : wf_name name = true -> normalize_path (copy_dir name) = par (normalize_path name).
Proof.
  intros Hw. pose proof (wf_name_canon name Hw) as Hc. unfold copy_dir. rewrite copyfile_cleans_name_fact.
  change (1 =? 1) with true. cbv iota.
  unfold normalize_path at 2. unfold normalize_path in Hc.
  destruct (is_dot (clean name) || is_dotdot (clean name)) eqn:E.
  - apply orb_true_iff in E as [E|E]; [apply is_dot_true in E | apply is_dotdot_true in E]; rewrite E; reflexivity.
  - pose proof (register_path (clean name) Hc) as H. rewrite clean_idempotent in H. exact H.
Qed.

Lemma parent_key_par k : canon k -> parent_key k = par k.
Proof. intros Hc. exact (find_parent_path k Hc). Qed.

(* ---------------- the invariant: nothing exists below a regular file ---------------- *)
Lemma WF_anc_dir s : WF s -> forall n k r, (length k <= n)%nat -> lookup s k = Some r ->
  forall a ra na, canon a -> below a k = true -> lookup s a = Some ra -> get_node s ra = Some na -> ndir na = true.
Proof.
  intros W. induction n as [|n IH]; intros k r Hlen Hk a ra na Ha Hb Hla Hna.
  - pose proof (g_canon _ _ _ _ W k r Hk) as Hc. apply canon_nonempty in Hc. destruct k; [congruence | cbn in Hlen; lia].
  - pose proof (g_canon _ _ _ _ W k r Hk) as Hc.
    assert (Hkr : k <> s_slash) by exact (below_not_root a k Ha Hb).
    destruct (g_par _ _ _ _ W k r Hk (WF_fresh s k r W Hk) Hkr) as (p & pn & Hp & Hpn & Hpd & _); [intros [] | intros [] |].
    destruct (below_inv a k Ha Hc Hb) as [-> | Hb'].
    + congruence.
    + apply (IH (par k) p (ltac:(pose proof (par_shorter k Hc Hkr); lia)) Hp a ra na); auto.
Qed.

Lemma WF_root_dir s : WF s -> is_dir_at s s_slash = true.
Proof.
  intros W. destruct (g_root _ _ _ _ W) as (r & n & Hl & Hn & _ & Hd). unfold is_dir_at, kind_at. now rewrite Hl, Hn, Hd.
Qed.

(* an existing name: it and all its ancestors that exist... are directories except possibly itself *)
Lemma anc_dirs_existing_dir s d r n : WF s -> canon d -> lookup s d = Some r -> get_node s r = Some n -> ndir n = true ->
  anc_dirs s d.
Proof.
  intros W Hc Hl Hn Hd a ra na Ha Hcase Hla Hna.
  destruct Hcase as [-> | [Hb | ->]].
  - congruence.
  - exact (WF_anc_dir s W _ d r (Nat.le_refl _) Hl a ra na Ha Hb Hla Hna).
  - pose proof (WF_root_dir s W) as Hr. unfold is_dir_at, kind_at in Hr. rewrite Hla, Hna in Hr. now destruct (ndir na).
Qed.

(* the walk of lockfreeBelowFile, read backwards: "not below a file" means every existing ancestor is a directory *)
Lemma walk_anc_dirs s : WF s -> forall fuel d, canon d -> (length d <= fuel)%nat ->
  below_file_walk fuel s d = false -> anc_dirs s d.
Proof.
  intros W. induction fuel as [|fu IH]; intros d Hc Hlen Hw.
  - apply canon_nonempty in Hc. destruct d; [congruence | cbn in Hlen; lia].
  - cbn [below_file_walk] in Hw. unfold lockfree_open in Hw. rewrite (canon_norm d Hc) in Hw.
    destruct (lookup s d) as [r|] eqn:Hl.
    + destruct (GWF_lookup_node _ _ _ _ _ _ W Hl) as (n & Hn). rewrite Hn in Hw. apply negb_false_iff in Hw.
      exact (anc_dirs_existing_dir s d r n W Hc Hl Hn Hw).
    + assert (Hne : d <> s_slash).
      { intros ->. destruct (g_root _ _ _ _ W) as (r0 & n0 & Hl0 & _). congruence. }
      assert (E : beqb d (path_dir d) = false).
      { apply beqb_neq. intros E. symmetry in E. revert E. now apply par_neq. }
      rewrite E in Hw.
      assert (Hp : anc_dirs s (par d)).
      { apply IH; [now apply canon_par | pose proof (par_shorter d Hc Hne); lia | exact Hw]. }
      intros a ra na Ha Hcase Hla Hna. apply (Hp a ra na Ha); auto.
      destruct Hcase as [-> | [Hb | ->]]; [congruence | | now right; right].
      destruct (below_inv a d Ha Hc Hb) as [-> | Hb']; [now left | now right; left].
Qed.

Lemma below_file_false_anc s k : WF s -> canon k -> below_file s k = false -> anc_dirs s (par k).
Proof.
  intros W Hc Hb. unfold below_file in Hb. rewrite memfs_refuses_below_file_fact in Hb. cbn [Z.eqb Pos.eqb andb] in Hb.
  change (path_dir k) with (par k) in Hb.
  apply (walk_anc_dirs s W (S (length k)) (par k)); [now apply canon_par | | exact Hb].
  destruct (str_eq_dec k s_slash) as [->|Hne]; [cbn; lia | pose proof (par_shorter k Hc Hne); lia].
Qed.

Lemma anc_dirs_prefixes s k : WF s -> canon k -> lookup s k = None -> anc_dirs s (par k) -> prefixes_dirs s k = true.
Proof.
  intros W Hc Hno Ha. unfold prefixes_dirs. apply forallb_forall. intros [a r] Hin. cbn [fst].
  assert (Hl : lookup s a = Some r) by (apply in_aget; [exact (g_nodup _ _ _ _ W) | exact Hin]).
  destruct (beqb a k) eqn:E1; [apply beqb_eq in E1; congruence|].
  destruct (below a k) eqn:E2; [|reflexivity]. cbn [orb negb].
  pose proof (g_canon _ _ _ _ W a r Hl) as Hca.
  destruct (GWF_lookup_node _ _ _ _ _ _ W Hl) as (n & Hn).
  assert (Hd : ndir n = true).
  { apply (Ha a r n Hca); auto. destruct (below_inv a k Hca Hc E2) as [-> | Hb]; [now left | now right; left]. }
  unfold is_dir_at, kind_at. now rewrite Hl, Hn, Hd.
Qed.

Lemma below_file_false_prefixes s k : WF s -> canon k -> lookup s k = None -> below_file s k = false ->
  prefixes_dirs s k = true.
Proof. intros W Hc Hno Hb. apply anc_dirs_prefixes; auto. now apply below_file_false_anc. Qed.

(* and forwards: a directory as parent *)
Lemma parent_dir_not_below s k : canon k -> is_dir_at s (par k) = true -> below_file s k = false.
Proof. apply below_file_dir_parent. Qed.

Lemma parent_file_below s k p pn : canon k -> lookup s (par k) = Some p -> get_node s p = Some pn -> ndir pn = false ->
  below_file s k = true.
Proof.
  intros Hc Hp Hpn Hd. apply (below_file_parent_file s k p pn); auto.
  change (path_dir k) with (par k). now rewrite (canon_norm _ (canon_par k Hc)).
Qed.

(* ---------------- the content view ---------------- *)
Lemma cview_ext s t : fs_view s = fs_view t -> forall k, cview s k = cview t k.
Proof. unfold fs_view. intros E k. inversion E as [[E1 E2]]. unfold cview, lookup, get_node. now rewrite E1, E2. Qed.

Lemma cview_tick s k : cview (tick s) k = cview s k.
Proof. reflexivity. Qed.

Lemma cview_some s k r n : lookup s k = Some r -> get_node s r = Some n ->
  cview s k = Some (ndir n, if ndir n then [] else ndata n).
Proof. intros Hl Hn. unfold cview. now rewrite Hl, Hn. Qed.

Lemma cview_none s k : lookup s k = None -> cview s k = None.
Proof. intros Hl. unfold cview. now rewrite Hl. Qed.

Lemma WF_cview_none s k : WF s -> cview s k = None -> lookup s k = None.
Proof.
  intros W. unfold cview. destruct (lookup s k) as [r|] eqn:Hl; [|reflexivity].
  destruct (GWF_lookup_node _ _ _ _ _ _ W Hl) as (n & ->). discriminate.
Qed.

Lemma LF_cview nn g s d mt : LF nn g s d mt -> cview s nn = Some (false, d).
Proof. intros [Hl [n [Hn [Hd [Hdir _]]]]]. rewrite (cview_some s nn g n Hl Hn), Hdir, Hd. reflexivity. Qed.

(* how a step may extend a layer: entries stay as they are, or a directory appears where nothing was *)
Definition grows_dirs (news : str -> Prop) (s s' : mst) : Prop :=
  forall k, cview s' k = cview s k \/ (cview s k = None /\ cview s' k = Some (true, []) /\ news k).

Lemma grows_dirs_refl news s : grows_dirs news s s.
Proof. intros k. now left. Qed.

Lemma grows_dirs_view news s s' t' : fs_view s' = fs_view t' -> grows_dirs news s s' -> grows_dirs news s t'.
Proof. intros E H k. rewrite <- (cview_ext s' t' E k). apply H. Qed.

Lemma tick_view s : fs_view (tick s) = fs_view s. Proof. reflexivity. Qed.

(* ---------------- MkdirAll, any number of missing levels ---------------- *)
Lemma m_step_raw_tick s o : m_step s o = (tick (fst (m_step_raw s o)), snd (m_step_raw s o)).
Proof. apply m_step_tick. Qed.

Lemma WF_tick s : WF s -> WF (tick s).
Proof. apply WF_view; reflexivity. Qed.

Lemma mkdir_node_dir k perm now : ndir (mkdir_node k perm now) = true /\ ndata (mkdir_node k perm now) = [].
Proof. split; reflexivity. Qed.

Theorem layer_mkdirall s dir perm :
  WF s -> wf_name dir = true ->
  let dk := normalize_path dir in
  (* refused: below a regular file; nothing changes *)
  (below_file s dk = true /\ lookup s dk = None /\
   m_step s (MkdirAll dir perm) = (tick s, RErr (EW KENOTDIR)))
  \/
  (* accepted *)
  ((lookup s dk <> None \/ below_file s dk = false) /\
   exists s', m_step s (MkdirAll dir perm) = (s', ROk) /\ WF s' /\ mhandles s' = mhandles s /\
     lookup s' dk <> None /\
     (lookup s dk = None -> is_dir_at s' dk = true) /\
     grows_dirs (fun k => k = dk \/ below k dk = true) s s').
Proof.
  intros W Hw dk. pose proof (wf_name_canon dir Hw) as Hc. fold dk in Hc.
  rewrite m_step_raw_tick. cbn [m_step_raw]. unfold m_mkdirall.
  destruct (lookup s dk) as [f|] eqn:Hl.
  - right. split; [left; discriminate|]. unfold m_mkdir. fold dk. rewrite Hl. cbn [ek EW errk_eqb fst snd].
    exists (tick s). split; [reflexivity|]. split; [now apply WF_tick|]. split; [reflexivity|].
    split; [unfold lookup in *; cbn [tick mdata]; congruence|]. split; [discriminate|]. intros k. left. reflexivity.
  - destruct (below_file s dk) eqn:Hb.
    + left. split; [reflexivity|]. split; [reflexivity|]. unfold m_mkdir. fold dk. rewrite Hl, Hb. reflexivity.
    + right. split; [now right|].
      pose proof (below_file_false_prefixes s dk W Hc Hl Hb) as Hpre.
      rewrite (m_mkdir_missing s dir perm Hl Hb). cbv zeta. fold dk.
      set (pm := Z.land perm chmod_bits).
      destruct (WF_mkdir_chain s dk pm W Hc Hl Hpre) as [W3 F3].
      set (nd := mkdir_node dk pm (mclock s)) in *. set (s2 := put_new s dk nd) in *.
      set (item := length (mheap s)) in *. set (s3 := reg s2 item pm) in *.
      assert (L2k : lookup s2 dk = Some item) by (unfold s2; rewrite lookup_put_new, beqb_refl; reflexivity).
      assert (L3k : lookup s3 dk = Some item) by (apply (rf_keep _ _ _ _ F3); exact L2k).
      rewrite (set_file_mode_canon s3 dk _ item Hc L3k). cbn [fst snd].
      set (s4 := upd_node s3 item (with_mode (Z.lor pm mode_dir))).
      assert (W4 : WF s4) by (apply WF_attr; [apply keeps_mode | exact W3]).
      assert (Gi2 : get_node s2 item = Some nd) by apply get_put_new_new.
      destruct (rf_nodes _ _ _ _ F3 item nd Gi2) as (n3 & Hn3 & En3).
      destruct (with_kids_nil_fields _ _ En3) as (A1 & A2 & A3 & A4 & _).
      assert (Hn4 : get_node s4 item = Some (with_mode (Z.lor pm mode_dir) n3)) by (unfold s4; now apply get_upd_same).
      exists (tick s4). split; [reflexivity|]. split; [now apply WF_tick|].
      split; [unfold s4; cbn [tick mhandles]; rewrite mhandles_upd; rewrite (rf_handles _ _ _ _ F3); reflexivity|].
      split; [change (lookup (tick s4) dk) with (lookup s4 dk); unfold s4; rewrite lookup_upd, L3k; discriminate|].
      split.
      { intros _. unfold is_dir_at, kind_at. change (lookup (tick s4) dk) with (lookup s4 dk).
        change (get_node (tick s4)) with (get_node s4). unfold s4 at 1. rewrite lookup_upd, L3k, Hn4. cbn [ndir with_mode]. now rewrite A2. }
      (* the view *)
      intros k. rewrite cview_tick.
      assert (C43 : cview s4 k = cview s3 k).
      { unfold cview, s4. rewrite lookup_upd. destruct (lookup s3 k) as [r|]; [|reflexivity].
        rewrite get_upd. destruct (Nat.eqb item r) eqn:Eir; [|reflexivity]. apply Nat.eqb_eq in Eir. subst r. rewrite Hn3. reflexivity. }
      rewrite C43. destruct (lookup s k) as [r|] eqn:Hk.
      * left. assert (Hne : beqb dk k = false) by (apply beqb_neq; intros ->; congruence).
        assert (Hk2 : lookup s2 k = Some r) by (unfold s2; rewrite lookup_put_new, Hne; exact Hk).
        pose proof (rf_keep _ _ _ _ F3 k r Hk2) as Hk3.
        destruct (GWF_lookup_node _ _ _ _ _ _ W Hk) as (n & Hn).
        assert (Hn2 : get_node s2 r = Some n) by (unfold s2; rewrite get_put_new_old; [exact Hn | now apply get_some_lt in Hn]).
        destruct (rf_nodes _ _ _ _ F3 r n Hn2) as (n' & Hn' & En').
        destruct (with_kids_nil_fields _ _ En') as (_ & B2 & _ & B4 & _).
        rewrite (cview_some s3 k r n' Hk3 Hn'), (cview_some s k r n Hk Hn), B2, B4. reflexivity.
      * rewrite (cview_none s k Hk). destruct (lookup s3 k) as [r|] eqn:Hk3.
        -- right. split; [reflexivity|].
           destruct (str_eq_dec k dk) as [->|Hne].
           ++ assert (r = item) by congruence. subst r. rewrite (cview_some s3 dk item n3 Hk3 Hn3), A2, A4. cbn. split; [reflexivity | now left].
           ++ assert (Hk2 : lookup s2 k = None).
              { unfold s2. rewrite lookup_put_new. assert (E : beqb dk k = false) by (apply beqb_neq; congruence). now rewrite E. }
              destruct (rf_new _ _ _ _ F3 k r Hk3 Hk2) as (Hbel & n & Hn & En).
              assert (B2 : ndir n = true) by (apply (f_equal ndir) in En; exact En).
              assert (B4 : ndata n = []) by (apply (f_equal ndata) in En; exact En).
              rewrite (cview_some s3 k r n Hk3 Hn), B2. split; [reflexivity | now right].
        -- left. now apply cview_none.
Qed.

(* ---------------- Create below an existing directory ---------------- *)
Lemma WF_node_shape s k r : WF s -> lookup s k = Some r ->
  exists n, get_node s r = Some n /\ ndir n = nhasdir n /\ (r < length (mheap s))%nat.
Proof.
  intros W Hl. destruct (g_node _ _ _ _ W k r Hl) as (n & Hn & _ & Hd & _). exists n. split; [exact Hn|]. split; [exact Hd|].
  now apply get_some_lt in Hn.
Qed.

Lemma WF_other_node s k1 k2 r1 r2 : WF s -> lookup s k1 = Some r1 -> lookup s k2 = Some r2 -> k1 <> k2 -> r1 <> r2.
Proof. intros W H1 H2 Hne ->. apply Hne. apply (GWF_inj _ _ _ s k1 k2 r2 W); auto. Qed.

(* the handle table after a step: old handles stay where they are *)
Definition handles_kept (s s' : mst) : Prop :=
  forall i h, nth_error (mhandles s) i = Some h -> nth_error (mhandles s') i = Some h.

Theorem layer_create_in_dir s name :
  WF s -> wf_name name = true ->
  let nn := normalize_path name in
  nn <> s_slash -> is_dir_at s (par nn) = true ->
  exists s' g, m_step s (Create name) = (s', RHandle (length (mhandles s))) /\
    LI nn g (length (mhandles s)) s' [] 0 /\
    (forall k, k <> nn -> cview s' k = cview s k) /\
    mhandles s' = mhandles s ++ [mkH g 0 0 false false] /\
    (kind_at s nn <> Some true -> WF s').
Proof.
  intros W Hw nn Hroot Hpd. pose proof (wf_name_canon name Hw) as Hc. fold nn in Hc.
  assert (HWF : kind_at s nn <> Some true -> WF (fst (m_step s (Create name)))).
  { intros Hk. apply WF_step; [exact W|]. apply wf_op_of_ord. cbn [wf_op_ord]. rewrite Hw. fold nn. cbn [andb].
    destruct (kind_at s nn) as [[|]|]; [congruence | reflexivity | exact Hpd]. }
  rewrite m_step_raw_tick in *. cbn [m_step_raw] in *. unfold m_create in *. fold nn in HWF |- *.
  destruct (is_dir_at_true s (par nn) Hpd) as (p & pn & Hp & Hpn & Hpdir).
  destruct (WF_node_shape s (par nn) p W Hp) as (pn' & Hpn' & Hshape & Hplt). rewrite Hpn in Hpn'. inversion Hpn'; subst pn'.
  assert (Hhas : nhasdir pn = true) by congruence.
  assert (Hparne : par nn <> nn) by now apply par_neq.
  set (ef := match lookup s nn with
             | Some f => match get_node s f with Some n => if ndir n then None else Some f | None => None end
             | None => None end) in *.
  destruct ef as [r|] eqn:Eef.
  - (* a regular file is there: truncated in place *)
    unfold ef in Eef. destruct (lookup s nn) as [r'|] eqn:Hl; [|discriminate].
    destruct (get_node s r') as [n|] eqn:Hn; [|discriminate]. destruct (ndir n) eqn:Hd; [discriminate|]. inversion Eef; subst r'.
    cbn [alloc_handle fst snd] in *. rewrite mhandles_upd in *.
    set (g := fun n0 => with_mtime (mclock s) (with_data [] n0)) in *.
    match goal with |- exists s' _, (?S, _) = _ /\ _ => set (s1 := S) in * end.
    assert (L1 : forall k, lookup s1 k = lookup s k) by (intros k; change (lookup s1 k) with (lookup (upd_node s r g) k); apply lookup_upd).
    assert (G1 : forall x, get_node s1 x = get_node (upd_node s r g) x) by reflexivity.
    assert (H1 : mhandles s1 = mhandles s ++ [mkH r 0 0 false false]) by reflexivity.
    assert (Hn1 : get_node s1 r = Some (g n)) by (rewrite G1; now apply get_upd_same).
    exists s1, r. split; [reflexivity|]. split; [split; [split|]|].
    + now rewrite L1.
    + exists (g n). split; [exact Hn1|]. cbn. now repeat split.
    + rewrite H1. apply nth_error_app_last.
    + split; [|split; [exact H1 | exact HWF]].
      intros k Hk. unfold cview. rewrite L1.
      destruct (lookup s k) as [r2|] eqn:Hk2; [|reflexivity].
      assert (Hne : r <> r2) by (apply (WF_other_node s nn k); auto).
      rewrite G1. now rewrite get_upd_other.
  - (* a new node (the name is free, or a directory that is replaced) *)
    assert (Hbf : below_file s nn = false) by now apply below_file_dir_parent. rewrite Hbf in *.
    rewrite m_create_node_eq in *. cbn [alloc_handle fst snd] in *.
    set (nf := new_file nn (mclock s)) in *. set (s2 := put_new s nn nf) in *. set (item := length (mheap s)) in *.
    assert (Lp2 : lookup s2 (par nn) = Some p).
    { unfold s2. rewrite lookup_put_new. assert (E : beqb nn (par nn) = false) by (apply beqb_neq; congruence). now rewrite E. }
    assert (Gp2 : get_node s2 p = Some pn) by (unfold s2; rewrite get_put_new_old; auto).
    assert (Gi2 : get_node s2 item = Some nf) by apply get_put_new_new.
    assert (Nk : node_name s2 item = nn) by (unfold node_name; now rewrite Gi2).
    assert (Hreg : reg s2 item 0 = upd_node s2 p (set_kid nn item)).
    { unfold reg. now apply (register_present _ s2 item 0 nn p pn). }
    rewrite Hreg in *. set (s3 := upd_node s2 p (set_kid nn item)) in *.
    assert (Hpi : p <> item) by (unfold item; lia).
    assert (L3 : forall k, lookup s3 k = if beqb nn k then Some item else lookup s k).
    { intros k. unfold s3. rewrite lookup_upd. unfold s2. apply lookup_put_new. }
    assert (G3i : get_node s3 item = Some nf) by (unfold s3; rewrite get_upd_other by exact Hpi; exact Gi2).
    assert (Hh3 : mhandles s3 = mhandles s) by (unfold s3; rewrite mhandles_upd; reflexivity).
    rewrite Hh3 in *.
    match goal with |- exists s' _, (?S, _) = _ /\ _ => set (s4 := S) in * end.
    assert (L4 : forall k, lookup s4 k = lookup s3 k) by reflexivity.
    assert (G4 : forall x, get_node s4 x = get_node s3 x) by reflexivity.
    assert (H4 : mhandles s4 = mhandles s ++ [mkH item 0 0 false false]) by reflexivity.
    exists s4, item. split; [reflexivity|]. split; [split; [split|]|].
    + now rewrite L4, L3, beqb_refl.
    + exists nf. split; [rewrite G4; exact G3i|]. now repeat split.
    + rewrite H4. apply nth_error_app_last.
    + split; [|split; [exact H4 | exact HWF]].
      intros k Hk. unfold cview. rewrite L4, L3.
      assert (E : beqb nn k = false) by (apply beqb_neq; congruence). rewrite E.
      destruct (lookup s k) as [r2|] eqn:Hk2; [|reflexivity].
      destruct (WF_node_shape s k r2 W Hk2) as (n2 & Hn2 & _ & Hlt).
      rewrite G4. unfold s3. rewrite get_upd.
      destruct (Nat.eqb p r2) eqn:Epr.
      * apply Nat.eqb_eq in Epr. subst r2. rewrite Gp2, Hpn. reflexivity.
      * unfold s2. rewrite get_put_new_old by exact Hlt. reflexivity.
Qed.

(* ... and below a regular file: refused, nothing changes *)
Lemma layer_create_below_file s name p pn :
  wf_name name = true -> let nn := normalize_path name in
  lookup s nn = None -> lookup s (par nn) = Some p -> get_node s p = Some pn -> ndir pn = false ->
  m_step s (Create name) = (tick s, RErr (EW KENOTDIR)).
Proof.
  intros Hw nn Hno Hp Hpn Hd. pose proof (wf_name_canon name Hw) as Hc. fold nn in Hc.
  rewrite m_step_raw_tick. cbn [m_step_raw]. unfold m_create. fold nn. rewrite Hno.
  now rewrite (parent_file_below s nn p pn Hc Hp Hpn Hd).
Qed.
