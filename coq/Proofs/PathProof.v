(* Proofs/PathProof.v — facts about the path functions of Lib/Path.v, for ALL strings:
   structure of [clean] (segments, idempotence), [normalize_path], the spelling lemma for
   the MemMapFs model (C01), confinement of BasePathFs.RealPath (C08) and join facts (C09). *)
From AF Require Import Lib.Bytes Lib.Path Lib.Ops Gen.Consts Model.MemFile Model.MemFs Model.BasePath
  Proofs.BytesLemmas.

(* ------------------------------------------------------------------------------------ *)
(** * Bytes: boolean equality *)

Lemma beqb_refl a : beqb a a = true.
Proof. induction a as [|x a IH]; simpl; [reflexivity|]. now rewrite N.eqb_refl, IH. Qed.

Lemma beqb_true_iff a b : beqb a b = true <-> a = b.
Proof.
  split; [|intros ->; apply beqb_refl].
  revert b; induction a as [|x a IH]; intros [|y b]; simpl; try discriminate; [reflexivity|].
  rewrite andb_true_iff, N.eqb_eq. intros [-> H]. f_equal. now apply IH.
Qed.

Lemma beqb_false_iff a b : beqb a b = false <-> a <> b.
Proof.
  split.
  - intros H E. apply beqb_true_iff in E. congruence.
  - intros H. destruct (beqb a b) eqn:E; [|reflexivity]. apply beqb_true_iff in E. contradiction.
Qed.

Lemma is_empty_true s : is_empty s = true <-> s = [].
Proof. destruct s; simpl; split; congruence. Qed.
Lemma is_dot_true s : is_dot s = true <-> s = s_dot.
Proof. apply beqb_true_iff. Qed.
Lemma is_dotdot_true s : is_dotdot s = true <-> s = s_dotdot.
Proof. apply beqb_true_iff. Qed.
Lemma is_dotdot_false s : is_dotdot s = false <-> s <> s_dotdot.
Proof. apply beqb_false_iff. Qed.

(* ------------------------------------------------------------------------------------ *)
(** * split_slash / join_slash *)

Definition slash_free (s : str) : Prop := ~ In SLASH s.

Lemma split_aux_slash_free a cur : slash_free a -> split_aux a cur = [rev cur ++ a].
Proof.
  revert cur; induction a as [|c a IH]; intros cur Hs; simpl.
  - now rewrite app_nil_r.
  - destruct (N.eqb_spec c SLASH) as [->|Hne]; [exfalso; apply Hs; now left|].
    rewrite IH by (intros Hin; apply Hs; now right). simpl. now rewrite <- app_assoc.
Qed.

Lemma split_aux_app a b cur : slash_free a ->
  split_aux (a ++ SLASH :: b) cur = (rev cur ++ a) :: split_aux b [].
Proof.
  revert cur; induction a as [|c a IH]; intros cur Hs; simpl.
  - now rewrite app_nil_r.
  - destruct (N.eqb_spec c SLASH) as [->|Hne]; [exfalso; apply Hs; now left|].
    rewrite IH by (intros Hin; apply Hs; now right). simpl. now rewrite <- app_assoc.
Qed.

Lemma split_slash_free a : slash_free a -> split_slash a = [a].
Proof. intros H. unfold split_slash. now rewrite split_aux_slash_free. Qed.

Lemma split_slash_app a b : slash_free a -> split_slash (a ++ SLASH :: b) = a :: split_slash b.
Proof. intros H. unfold split_slash. now rewrite split_aux_app. Qed.

Lemma split_slash_cons_slash b : split_slash (SLASH :: b) = [] :: split_slash b.
Proof. apply (split_slash_app [] b). intros []. Qed.

Lemma split_aux_pieces s : forall cur seg, slash_free cur -> In seg (split_aux s cur) -> slash_free seg.
Proof.
  induction s as [|c s IH]; intros cur seg Hc; simpl.
  - intros [<-|[]]. intros Hin. apply in_rev in Hin. now apply Hc.
  - destruct (N.eqb_spec c SLASH) as [->|Hne].
    + intros [<-|Hin].
      * intros Hin. apply in_rev in Hin. now apply Hc.
      * apply (IH [] seg); [intros []|exact Hin].
    + apply IH. intros [E|Hin]; [now apply Hne | now apply Hc].
Qed.

Lemma split_slash_pieces s : Forall slash_free (split_slash s).
Proof. apply Forall_forall. intros seg. apply split_aux_pieces. intros []. Qed.

Lemma split_aux_nonnil s cur : split_aux s cur <> [].
Proof.
  revert cur; induction s as [|c s IH]; intros cur; simpl; [discriminate|].
  destruct (N.eqb c SLASH); [discriminate | apply IH].
Qed.

Lemma join_slash_cons x r : r <> [] -> join_slash (x :: r) = x ++ SLASH :: join_slash r.
Proof. destruct r; [congruence | reflexivity]. Qed.

Lemma join_slash_app l1 l2 : l1 <> [] -> l2 <> [] ->
  join_slash (l1 ++ l2) = join_slash l1 ++ SLASH :: join_slash l2.
Proof.
  intros H1 H2. induction l1 as [|x l1 IH]; [congruence|].
  destruct l1 as [|y l1].
  - simpl app. now rewrite join_slash_cons.
  - change ((x :: y :: l1) ++ l2) with (x :: ((y :: l1) ++ l2)).
    rewrite join_slash_cons by discriminate. rewrite IH by discriminate.
    rewrite (join_slash_cons x (y :: l1)) by discriminate. now rewrite <- app_assoc.
Qed.

(* splitting a joined list gives the list back *)
Lemma split_join l : l <> [] -> Forall slash_free l -> split_slash (join_slash l) = l.
Proof.
  intros Hn Hf. induction l as [|x l IH]; [congruence|].
  inversion Hf as [|? ? Hx Hl]; subst. destruct l as [|y l].
  - simpl. now apply split_slash_free.
  - rewrite join_slash_cons by discriminate. rewrite split_slash_app by exact Hx.
    f_equal. apply IH; [discriminate | exact Hl].
Qed.

Lemma split_join_app l b : l <> [] -> Forall slash_free l ->
  split_slash (join_slash l ++ SLASH :: b) = l ++ split_slash b.
Proof.
  intros Hn Hf. induction l as [|x l IH]; [congruence|].
  inversion Hf as [|? ? Hx Hl]; subst. destruct l as [|y l].
  - simpl. now apply split_slash_app.
  - rewrite join_slash_cons by discriminate. rewrite <- app_assoc. simpl app.
    rewrite split_slash_app by exact Hx. f_equal. apply IH; [discriminate | exact Hl].
Qed.

(* ------------------------------------------------------------------------------------ *)
(** * norm_aux: one-step equations *)

Definition seg_ok (s : str) : Prop := s <> [] /\ s <> s_dot /\ slash_free s.
Definition not_dd (s : str) : Prop := s <> s_dotdot.

Lemma seg_ok_dd : seg_ok s_dotdot.
Proof. repeat split; try discriminate. intros [H|[H|[]]]; discriminate. Qed.

Lemma norm_aux_skip rooted s l st : s = [] \/ s = s_dot ->
  norm_aux rooted (s :: l) st = norm_aux rooted l st.
Proof. intros [->| ->]; reflexivity. Qed.

Lemma norm_aux_push rooted s l st : s <> [] -> s <> s_dot -> s <> s_dotdot ->
  norm_aux rooted (s :: l) st = norm_aux rooted l (s :: st).
Proof.
  intros H1 H2 H3. cbn [norm_aux].
  destruct (is_empty s) eqn:E1; [apply is_empty_true in E1; contradiction|].
  destruct (is_dot s) eqn:E2; [apply is_dot_true in E2; contradiction|].
  destruct (is_dotdot s) eqn:E3; [apply is_dotdot_true in E3; contradiction|].
  reflexivity.
Qed.

Lemma norm_aux_dd_pop rooted l top st : top <> s_dotdot ->
  norm_aux rooted (s_dotdot :: l) (top :: st) = norm_aux rooted l st.
Proof.
  intros H. apply is_dotdot_false in H. cbn [norm_aux].
  change (is_empty s_dotdot || is_dot s_dotdot) with false. change (is_dotdot s_dotdot) with true.
  cbv iota. now rewrite H.
Qed.

Lemma norm_aux_dd_dd rooted l st :
  norm_aux rooted (s_dotdot :: l) (s_dotdot :: st) = norm_aux rooted l (s_dotdot :: s_dotdot :: st).
Proof. reflexivity. Qed.

Lemma norm_aux_dd_nil_rooted l : norm_aux true (s_dotdot :: l) [] = norm_aux true l [].
Proof. reflexivity. Qed.

Lemma norm_aux_dd_nil_unrooted l : norm_aux false (s_dotdot :: l) [] = norm_aux false l [s_dotdot].
Proof. reflexivity. Qed.

(* case analysis on a segment *)
Lemma seg_cases (s : str) :
  (s = [] \/ s = s_dot) \/ s = s_dotdot \/ (s <> [] /\ s <> s_dot /\ s <> s_dotdot).
Proof.
  destruct (is_empty s) eqn:E1; [apply is_empty_true in E1; auto|].
  destruct (is_dot s) eqn:E2; [apply is_dot_true in E2; auto|].
  destruct (is_dotdot s) eqn:E3; [apply is_dotdot_true in E3; auto|].
  right; right. repeat split.
  - intros ->; discriminate.
  - intros ->; discriminate.
  - intros ->; discriminate.
Qed.

(* ------------------------------------------------------------------------------------ *)
(** * normal forms: what [clean_segs] produces *)

(* ".." only as a prefix of the list *)
Fixpoint dd_pre (l : list str) : Prop :=
  match l with
  | [] => True
  | x :: r => (x = s_dotdot /\ dd_pre r) \/ Forall not_dd (x :: r)
  end.

Definition nf (rooted : bool) (l : list str) : Prop :=
  Forall seg_ok l /\ (if rooted then Forall not_dd l else dd_pre l).

Lemma dd_pre_nodd l : Forall not_dd l -> dd_pre l.
Proof. destruct l; simpl; auto. Qed.

Lemma dd_pre_snoc l s : dd_pre l -> not_dd s -> dd_pre (l ++ [s]).
Proof.
  intros Hl Hs. induction l as [|x l IH]; simpl.
  - right. constructor; [exact Hs | constructor].
  - destruct Hl as [[-> Hl]|Hl].
    + left. split; [reflexivity | now apply IH].
    + right. change (Forall not_dd ((x :: l) ++ [s])). apply Forall_app. split; [exact Hl|].
      constructor; [exact Hs | constructor].
Qed.

Lemma dd_pre_app_inv l t : dd_pre (l ++ t) -> dd_pre l.
Proof.
  induction l as [|x l IH]; simpl; [auto|].
  intros [[-> H]|H].
  - left. split; [reflexivity | now apply IH].
  - right. change (Forall not_dd ((x :: l) ++ t)) in H. now apply Forall_app in H as [H _].
Qed.

Lemma dd_pre_app_r l t : dd_pre (l ++ t) -> dd_pre t.
Proof.
  induction l as [|x l IH]; simpl; [auto|].
  intros [[-> H]|H]; [now apply IH|].
  apply dd_pre_nodd. change (Forall not_dd ((x :: l) ++ t)) in H. now apply Forall_app in H as [_ H].
Qed.

Lemma dd_pre_mid a r : dd_pre (a ++ s_dotdot :: r) -> Forall (fun s => s = s_dotdot) a /\ dd_pre r.
Proof.
  induction a as [|x a IH]; simpl.
  - intros [[_ H]|H]; [split; [constructor | exact H]|].
    inversion H as [|? ? Hx _]; subst. now contradiction Hx.
  - intros [[-> H]|H].
    + destruct (IH H) as [H1 H2]. split; [constructor; [reflexivity | exact H1] | exact H2].
    + exfalso. change (Forall not_dd ((x :: a) ++ s_dotdot :: r)) in H.
      apply Forall_app in H as [_ H]. inversion H as [|? ? Hx _]; subst. now apply Hx.
Qed.

Lemma dd_pre_all_dd l : Forall (fun s => s = s_dotdot) l -> dd_pre l.
Proof.
  induction l as [|x l IH]; simpl; [auto|]. intros H. inversion H; subst. left. auto.
Qed.

(* the explicit shape: k times ".." followed by ".."-free segments *)
Lemma dd_pre_shape l : dd_pre l <-> exists k m, l = repeat s_dotdot k ++ m /\ Forall not_dd m.
Proof.
  split.
  - induction l as [|x l IH]; simpl.
    + intros _. exists 0, []. split; [reflexivity | constructor].
    + intros [[-> H]|H].
      * destruct (IH H) as [k [m [-> Hm]]]. exists (S k), m. split; [reflexivity | exact Hm].
      * exists 0, (x :: l). split; [reflexivity | exact H].
  - intros [k [m [-> Hm]]]. induction k as [|k IH]; simpl.
    + now apply dd_pre_nodd.
    + left. split; [reflexivity | exact IH].
Qed.

Lemma nf_nil rooted : nf rooted [].
Proof. split; [constructor|]. destruct rooted; simpl; auto. Qed.

Lemma nf_snoc rooted l s : nf rooted l -> seg_ok s -> not_dd s -> nf rooted (l ++ [s]).
Proof.
  intros [H1 H2] Hs Hd. split.
  - apply Forall_app. split; [exact H1 | constructor; [exact Hs | constructor]].
  - destruct rooted.
    + apply Forall_app. split; [exact H2 | constructor; [exact Hd | constructor]].
    + now apply dd_pre_snoc.
Qed.

Lemma nf_app_inv rooted l t : nf rooted (l ++ t) -> nf rooted l.
Proof.
  intros [H1 H2]. apply Forall_app in H1 as [H1 _]. split; [exact H1|].
  destruct rooted; [now apply Forall_app in H2 as [H2 _] | now apply dd_pre_app_inv in H2].
Qed.

Lemma nf_app_r rooted l t : nf rooted (l ++ t) -> nf rooted t.
Proof.
  intros [H1 H2]. apply Forall_app in H1 as [_ H1]. split; [exact H1|].
  destruct rooted; [now apply Forall_app in H2 as [_ H2] | now apply dd_pre_app_r in H2].
Qed.

Lemma nf_true_no_dd l : nf true l -> ~ In s_dotdot l.
Proof.
  intros [_ H] Hin. simpl in H. rewrite Forall_forall in H. now apply (H _ Hin).
Qed.

Lemma nf_false_dd_snoc l : nf false (l ++ [s_dotdot]) -> nf false ((l ++ [s_dotdot]) ++ [s_dotdot]).
Proof.
  intros [H1 H2]. split.
  - apply Forall_app. split; [exact H1 | constructor; [exact seg_ok_dd | constructor]].
  - simpl in *. apply dd_pre_mid in H2 as [H2 _]. apply dd_pre_all_dd.
    apply Forall_app. split; [|constructor; [reflexivity | constructor]].
    apply Forall_app. split; [exact H2 | constructor; [reflexivity | constructor]].
Qed.

(* norm_aux keeps the stack (read bottom-up) in normal form *)
Lemma norm_aux_nf rooted segs : forall st,
  Forall slash_free segs -> nf rooted (rev st) -> nf rooted (norm_aux rooted segs st).
Proof.
  induction segs as [|s segs IH]; intros st Hf Hst; [exact Hst|].
  inversion Hf as [|? ? Hs Hf']; subst.
  destruct (seg_cases s) as [Hskip|[->|[Hn [Hd Hdd]]]].
  - rewrite norm_aux_skip by exact Hskip. now apply IH.
  - destruct st as [|top st].
    + destruct rooted.
      * rewrite norm_aux_dd_nil_rooted. now apply IH.
      * rewrite norm_aux_dd_nil_unrooted. apply IH; [exact Hf'|].
        split; [constructor; [exact seg_ok_dd | constructor]|]. simpl. left. auto.
    + destruct (seg_cases top) as [Hbad|[->|[_ [_ Htop]]]].
      * exfalso. destruct Hst as [Hst _]. rewrite Forall_forall in Hst.
        assert (Hin : In top (rev (top :: st))) by (apply in_rev; rewrite rev_involutive; now left).
        destruct (Hst _ Hin) as [H1 [H2 _]]. destruct Hbad; contradiction.
      * rewrite norm_aux_dd_dd. apply IH; [exact Hf'|].
        cbn [rev] in *. destruct rooted.
        -- exfalso. apply (nf_true_no_dd _ Hst). apply in_or_app. right. now left.
        -- now apply nf_false_dd_snoc.
      * rewrite norm_aux_dd_pop by exact Htop. apply IH; [exact Hf'|].
        cbn [rev] in Hst. now apply nf_app_inv in Hst.
  - rewrite norm_aux_push by assumption. apply IH; [exact Hf'|].
    cbn [rev]. apply nf_snoc; [exact Hst | repeat split; assumption | exact Hdd].
Qed.

(* on a list already in normal form norm_aux only pushes *)
Lemma norm_aux_app_nf rooted l r : forall st,
  nf rooted (rev st ++ l) -> norm_aux rooted (l ++ r) st = norm_aux rooted r (rev l ++ st).
Proof.
  induction l as [|s l IH]; intros st Hnf; [reflexivity|].
  assert (Hs : seg_ok s).
  { destruct Hnf as [H _]. apply Forall_app in H as [_ H]. now inversion H. }
  destruct Hs as [Hn [Hd Hsf]].
  assert (Hnf' : nf rooted (rev (s :: st) ++ l)) by (cbn [rev]; now rewrite <- app_assoc).
  cbn [rev app]. rewrite <- app_assoc. cbn [app].
  destruct (seg_cases s) as [[?|?]|[->|[_ [_ Hdd]]]]; try contradiction.
  - destruct rooted.
    + exfalso. apply (nf_true_no_dd _ Hnf). apply in_or_app. right. now left.
    + destruct Hnf as [_ Hnf]. simpl in Hnf. apply dd_pre_mid in Hnf as [Hall _].
      destruct st as [|top st].
      * rewrite norm_aux_dd_nil_unrooted. now apply IH.
      * assert (top = s_dotdot) as ->.
        { rewrite Forall_forall in Hall. apply Hall. apply in_rev. rewrite rev_involutive. now left. }
        rewrite norm_aux_dd_dd. now apply IH.
  - rewrite norm_aux_push by assumption. now apply IH.
Qed.

Lemma norm_aux_id rooted l st : nf rooted (rev st ++ l) -> norm_aux rooted l st = rev st ++ l.
Proof.
  intros H. rewrite <- (app_nil_r l) at 1. rewrite norm_aux_app_nf by exact H.
  cbn [norm_aux]. now rewrite rev_app_distr, rev_involutive.
Qed.

(* ------------------------------------------------------------------------------------ *)
(** * A. structure of clean *)

Lemma clean_segs_nf s : nf (is_rooted s) (clean_segs s).
Proof. unfold clean_segs. apply norm_aux_nf; [apply split_slash_pieces | apply nf_nil]. Qed.

(* A1 *)
Theorem clean_segs_ok s seg : In seg (clean_segs s) ->
  seg <> [] /\ seg <> s_dot /\ ~ In SLASH seg.
Proof.
  intros Hin. destruct (clean_segs_nf s) as [H _]. rewrite Forall_forall in H. exact (H _ Hin).
Qed.

Theorem clean_segs_rooted_no_dotdot s seg :
  is_rooted s = true -> In seg (clean_segs s) -> seg <> s_dotdot.
Proof.
  intros Hr Hin. pose proof (clean_segs_nf s) as Hnf. rewrite Hr in Hnf.
  intros ->. exact (nf_true_no_dd _ Hnf Hin).
Qed.

Theorem clean_segs_ok_rooted s seg : is_rooted s = true -> In seg (clean_segs s) ->
  seg <> [] /\ seg <> s_dot /\ seg <> s_dotdot /\ ~ In SLASH seg.
Proof.
  intros Hr Hin. destruct (clean_segs_ok s seg Hin) as [H1 [H2 H3]].
  repeat split; try assumption. now apply (clean_segs_rooted_no_dotdot s).
Qed.

Theorem clean_segs_unrooted_dotdot_prefix s :
  is_rooted s = false ->
  exists k m, clean_segs s = repeat s_dotdot k ++ m /\ Forall (fun seg => seg <> s_dotdot) m.
Proof.
  intros Hr. pose proof (clean_segs_nf s) as [_ Hnf]. rewrite Hr in Hnf. now apply dd_pre_shape.
Qed.

Lemma nf_slash_free rooted l : nf rooted l -> Forall slash_free l.
Proof.
  intros [H _]. eapply Forall_impl; [|exact H]. intros a [_ [_ Ha]]. exact Ha.
Qed.

Lemma join_slash_head x l : exists t, join_slash (x :: l) = x ++ t.
Proof.
  destruct l as [|y l]; [exists []; simpl; now rewrite app_nil_r|].
  exists (SLASH :: join_slash (y :: l)). reflexivity.
Qed.

Lemma is_rooted_render rooted l : nf rooted l -> is_rooted (render rooted l) = rooted.
Proof.
  intros Hnf. destruct rooted; [reflexivity|]. unfold render.
  destruct l as [|x l]; [reflexivity|].
  destruct Hnf as [H _]. inversion H as [|? ? [Hn [_ Hsf]] _]; subst.
  destruct (join_slash_head x l) as [t ->]. destruct x as [|c x]; [congruence|].
  cbn [app is_rooted]. apply N.eqb_neq. intros ->. apply Hsf. now left.
Qed.

Lemma render_nonnil rooted l : nf rooted l -> render rooted l <> [].
Proof.
  intros Hnf. destruct rooted; [discriminate|]. unfold render.
  destruct l as [|x l]; [discriminate|].
  destruct Hnf as [H _]. inversion H as [|? ? [Hn _] _]; subst.
  destruct (join_slash_head x l) as [t ->]. destruct x; [congruence | discriminate].
Qed.

(* A2: rendering then splitting gives the segments back.  (For [segs = []] the rooted
   rendering is "/" which splits into TWO empty pieces, the unrooted one is "." .) *)
Theorem split_render rooted segs : segs <> [] -> Forall slash_free segs ->
  split_slash (render rooted segs) = if rooted then [] :: segs else segs.
Proof.
  intros Hn Hf. destruct rooted.
  - unfold render. rewrite split_slash_cons_slash. f_equal. now apply split_join.
  - unfold render. destruct segs as [|x l]; [congruence|]. now apply split_join.
Qed.

Lemma split_render_nil_rooted : split_slash (render true []) = [[]; []].
Proof. reflexivity. Qed.
Lemma split_render_nil_unrooted : split_slash (render false []) = [s_dot].
Proof. reflexivity. Qed.

Lemma clean_segs_render rooted l : nf rooted l -> clean_segs (render rooted l) = l.
Proof.
  intros Hnf. unfold clean_segs. rewrite is_rooted_render by exact Hnf.
  destruct l as [|x l'] eqn:El.
  - destruct rooted; reflexivity.
  - rewrite split_render; [| discriminate | now apply nf_slash_free in Hnf].
    destruct rooted.
    + rewrite norm_aux_skip by now left. apply (norm_aux_id true _ []). exact Hnf.
    + apply (norm_aux_id false _ []). exact Hnf.
Qed.

Lemma clean_render rooted l : nf rooted l -> clean (render rooted l) = render rooted l.
Proof.
  intros Hnf. unfold clean. now rewrite is_rooted_render, clean_segs_render.
Qed.

(* A3 *)
Theorem clean_idempotent s : clean (clean s) = clean s.
Proof. exact (clean_render _ _ (clean_segs_nf s)). Qed.

(* A4 *)
Theorem is_rooted_clean s : is_rooted (clean s) = is_rooted s.
Proof. exact (is_rooted_render _ _ (clean_segs_nf s)). Qed.

Theorem clean_nonnil s : clean s <> [].
Proof. exact (render_nonnil _ _ (clean_segs_nf s)). Qed.

Theorem clean_segs_clean s : clean_segs (clean s) = clean_segs s.
Proof. exact (clean_segs_render _ _ (clean_segs_nf s)). Qed.

(* two strings clean to the same string iff same rootedness and same resolved segments *)
Theorem clean_eq_iff a b :
  clean a = clean b <-> is_rooted a = is_rooted b /\ clean_segs a = clean_segs b.
Proof.
  split.
  - intros H. split.
    + rewrite <- (is_rooted_clean a), <- (is_rooted_clean b). now rewrite H.
    + rewrite <- (clean_segs_clean a), <- (clean_segs_clean b). now rewrite H.
  - intros [H1 H2]. unfold clean. now rewrite H1, H2.
Qed.

(* A5 *)
Theorem normalize_clean s : normalize_path (clean s) = normalize_path s.
Proof. unfold normalize_path. now rewrite clean_idempotent. Qed.

Theorem normalize_idempotent s : normalize_path (normalize_path s) = normalize_path s.
Proof.
  assert (H : normalize_path s = s_slash \/
              (normalize_path s = clean s /\ is_dot (clean s) || is_dotdot (clean s) = false)).
  { unfold normalize_path. destruct (is_dot (clean s) || is_dotdot (clean s)); auto. }
  destruct H as [-> | [-> E]]; [reflexivity|].
  unfold normalize_path. rewrite clean_idempotent. now rewrite E.
Qed.

Theorem normalize_nonnil s : normalize_path s <> [].
Proof.
  unfold normalize_path. destruct (is_dot (clean s) || is_dotdot (clean s)); [discriminate|].
  apply clean_nonnil.
Qed.

Theorem clean_normalize s : clean (normalize_path s) = normalize_path s.
Proof.
  unfold normalize_path. destruct (is_dot (clean s) || is_dotdot (clean s)); [reflexivity|].
  apply clean_idempotent.
Qed.

(* ------------------------------------------------------------------------------------ *)
(** * B. spelling (C01): the MemMapFs model sees a path only through normalize_path *)

Definition map_paths (f : str -> str) (o : op) : op :=
  match o with
  | Create p => Create (f p)
  | Mkdir p perm => Mkdir (f p) perm
  | MkdirAll p perm => MkdirAll (f p) perm
  | Open p => Open (f p)
  | OpenFile p flag perm => OpenFile (f p) flag perm
  | Remove p => Remove (f p)
  | RemoveAll p => RemoveAll (f p)
  | Rename p q => Rename (f p) (f q)
  | Stat p => Stat (f p)
  | Chmod p m => Chmod (f p) m
  | Chown p u g => Chown (f p) u g
  | Chtimes p t => Chtimes (f p) t
  | _ => o
  end.

Lemma m_create_clean s p : m_create s (clean p) = m_create s p.
Proof. unfold m_create. now rewrite normalize_clean. Qed.
Lemma m_mkdir_clean s p perm : m_mkdir s (clean p) perm = m_mkdir s p perm.
Proof. unfold m_mkdir. now rewrite normalize_clean. Qed.
Lemma m_mkdirall_clean s p perm : m_mkdirall s (clean p) perm = m_mkdirall s p perm.
Proof. unfold m_mkdirall. now rewrite m_mkdir_clean. Qed.
Lemma m_open_clean s p : m_open s (clean p) = m_open s p.
Proof. unfold m_open. now rewrite normalize_clean. Qed.
Lemma m_openfile_clean s p flag perm : m_openfile s (clean p) flag perm = m_openfile s p flag perm.
Proof. unfold m_openfile. now rewrite normalize_clean. Qed.
Lemma m_remove_clean s p : m_remove s (clean p) = m_remove s p.
Proof. unfold m_remove. now rewrite normalize_clean. Qed.
Lemma m_removeall_clean s p : m_removeall s (clean p) = m_removeall s p.
Proof. unfold m_removeall. now rewrite normalize_clean. Qed.
Lemma m_rename_clean s p q : m_rename s (clean p) (clean q) = m_rename s p q.
Proof. unfold m_rename. now rewrite !normalize_clean. Qed.
Lemma m_stat_clean s p : m_stat s (clean p) = m_stat s p.
Proof. unfold m_stat. now rewrite normalize_clean. Qed.
Lemma m_chmod_clean s p m : m_chmod s (clean p) m = m_chmod s p m.
Proof. unfold m_chmod. now rewrite normalize_clean. Qed.
Lemma m_chown_clean s p u g : m_chown s (clean p) u g = m_chown s p u g.
Proof. unfold m_chown. now rewrite normalize_clean. Qed.
Lemma m_chtimes_clean s p t : m_chtimes s (clean p) t = m_chtimes s p t.
Proof. unfold m_chtimes. now rewrite normalize_clean. Qed.

Lemma m_step_raw_clean s o : m_step_raw s (map_paths clean o) = m_step_raw s o.
Proof.
  destruct o; cbn [map_paths m_step_raw];
    auto using m_create_clean, m_mkdir_clean, m_mkdirall_clean, m_open_clean, m_openfile_clean,
      m_remove_clean, m_removeall_clean, m_rename_clean, m_stat_clean, m_chmod_clean,
      m_chown_clean, m_chtimes_clean.
Qed.

Theorem C01_spelling_lemma s o : m_step s (map_paths clean o) = m_step s o.
Proof. unfold m_step. now rewrite m_step_raw_clean. Qed.

Theorem C01_spelling_corollary s o o' :
  map_paths clean o = map_paths clean o' -> m_step s o = m_step s o'.
Proof.
  intros H. rewrite <- (C01_spelling_lemma s o), <- (C01_spelling_lemma s o'). now rewrite H.
Qed.

(* the same for any spelling change that preserves normalize_path, e.g. normalize_path itself *)
Theorem m_step_normalize s o : m_step s (map_paths normalize_path o) = m_step s o.
Proof.
  unfold m_step. replace (m_step_raw s (map_paths normalize_path o)) with (m_step_raw s o); [reflexivity|].
  destruct o; cbn [map_paths m_step_raw]; try reflexivity;
    unfold m_create, m_mkdir, m_mkdirall, m_mkdir, m_open, m_openfile, m_remove, m_removeall, m_rename,
      m_stat, m_chmod, m_chown, m_chtimes; now rewrite !normalize_idempotent.
Qed.

(* ------------------------------------------------------------------------------------ *)
(** * C. confinement of BasePathFs.RealPath (C08) *)

Definition seg_prefix (a b : list str) : Prop := exists r, b = a ++ r.

Lemma seg_prefix_nil b : seg_prefix [] b.
Proof. now exists b. Qed.
Lemma seg_prefix_refl a : seg_prefix a a.
Proof. exists []. now rewrite app_nil_r. Qed.
Lemma seg_prefix_trans a b c : seg_prefix a b -> seg_prefix b c -> seg_prefix a c.
Proof. intros [r ->] [r' ->]. exists (r ++ r'). now rewrite app_assoc. Qed.

Lemma trim_suffix_slash_snoc x c :
  trim_suffix_slash (x ++ [c]) = if N.eqb c SLASH then x else x ++ [c].
Proof.
  unfold trim_suffix_slash. rewrite rev_app_distr. cbn [rev app]. now rewrite rev_involutive.
Qed.

Lemma join_slash_last l : l <> [] -> Forall seg_ok l ->
  exists y c, join_slash l = y ++ [c] /\ c <> SLASH.
Proof.
  intros Hn Hf. induction l as [|x l IH]; [congruence|].
  inversion Hf as [|? ? [Hx [_ Hsf]] Hl]; subst. destruct l as [|x' l].
  - destruct (exists_last Hx) as [y [c ->]]. exists y, c. split; [reflexivity|].
    intros ->. apply Hsf. apply in_or_app. right. now left.
  - destruct IH as [y [c [E Hc]]]; [discriminate | exact Hl|].
    rewrite join_slash_cons by discriminate. rewrite E.
    exists (x ++ SLASH :: y), c. split; [now rewrite <- app_assoc | exact Hc].
Qed.

Lemma trim_render rooted l : nf rooted l -> l <> [] ->
  trim_suffix_slash (render rooted l) = render rooted l.
Proof.
  intros [Hf _] Hn. destruct (join_slash_last l Hn Hf) as [y [c [E Hc]]].
  assert (Hr : render rooted l = (if rooted then SLASH :: y else y) ++ [c]).
  { unfold render. destruct rooted; [now rewrite E|]. destruct l; [congruence | exact E]. }
  rewrite Hr, trim_suffix_slash_snoc. apply N.eqb_neq in Hc. now rewrite Hc.
Qed.

Lemma trim_suffix_slash_clean b : clean b = b -> b <> s_slash -> trim_suffix_slash b = b.
Proof.
  intros Hc Hb. pose proof (clean_segs_nf b) as Hnf. unfold clean in Hc.
  destruct (clean_segs b) as [|x l] eqn:E.
  - destruct (is_rooted b); cbn in Hc; rewrite <- Hc; [now contradiction Hb | reflexivity].
  - rewrite <- Hc at 1. rewrite trim_render; [exact Hc | exact Hnf | discriminate].
Qed.

Lemma render_app rooted l r : nf rooted l -> l <> [] -> r <> [] ->
  render rooted (l ++ r) = render rooted l ++ SLASH :: join_slash r.
Proof.
  intros _ Hl Hr. unfold render. destruct rooted.
  - now rewrite join_slash_app.
  - destruct l as [|x l]; [congruence|]. cbn [app]. 
    change (x :: l ++ r) with ((x :: l) ++ r). now rewrite join_slash_app.
Qed.

Lemma split_render_app rooted l t : l <> [] -> Forall slash_free l ->
  split_slash (render rooted l ++ SLASH :: t) = (if rooted then [] :: l else l) ++ split_slash t.
Proof.
  intros Hn Hf. unfold render. destruct rooted.
  - cbn [app]. rewrite split_slash_cons_slash. cbn [app]. f_equal. now apply split_join_app.
  - destruct l as [|x l]; [congruence|]. now apply split_join_app.
Qed.

Lemma is_rooted_app b t : b <> [] -> is_rooted (b ++ t) = is_rooted b.
Proof. destruct b; [congruence | reflexivity]. Qed.

Lemma clean_fixed_render p : clean p = p -> p = render (is_rooted p) (clean_segs p).
Proof. intros H. symmetry. exact H. Qed.

(* the key lemma: for cleaned paths, "equal, or string prefix with a trailing separator"
   implies segment prefix (and the same rootedness) *)
Lemma string_prefix_seg_prefix b p : clean b = b -> clean p = p ->
  (p = b \/ prefixb (trim_suffix_slash b ++ s_slash) p = true) ->
  seg_prefix (clean_segs b) (clean_segs p) /\ is_rooted p = is_rooted b.
Proof.
  intros Hb Hp [->|Hpre]; [split; [apply seg_prefix_refl | reflexivity]|].
  pose proof (clean_segs_nf b) as Hnfb. pose proof (clean_segs_nf p) as Hnfp.
  pose proof (clean_fixed_render b Hb) as Eb. pose proof (clean_fixed_render p Hp) as Ep.
  destruct (clean_segs b) as [|x lb'] eqn:Elb.
  - split; [apply seg_prefix_nil|].
    destruct (is_rooted b) eqn:Erb; cbn [render] in Eb; rewrite Eb in Hpre.
    + change (trim_suffix_slash [SLASH] ++ s_slash) with [SLASH] in Hpre.
      apply prefixb_spec in Hpre as [r ->]. reflexivity.
    + change (trim_suffix_slash s_dot ++ s_slash) with [DOT; SLASH] in Hpre.
      apply prefixb_spec in Hpre as [r ->]. reflexivity.
  - set (lb := x :: lb') in *. assert (Hlb : lb <> []) by discriminate.
    assert (Hbn : b <> []) by (rewrite Eb; now apply render_nonnil).
    rewrite Eb in Hpre. rewrite trim_render in Hpre by assumption. rewrite <- Eb in Hpre.
    apply prefixb_spec in Hpre as [r Hr]. rewrite <- app_assoc in Hr. cbn [s_slash app] in Hr.
    assert (Hroot : is_rooted p = is_rooted b) by (rewrite Hr; now apply is_rooted_app).
    split; [|exact Hroot].
    rewrite Hroot in Ep, Hnfp.
    assert (Hlp : clean_segs p <> []).
    { intros E. rewrite E in Ep. assert (Hlen : length p = 1) by (rewrite Ep; now destruct (is_rooted b)).
      rewrite Hr, app_length in Hlen. destruct b; [congruence|]. cbn in Hlen. lia. }
    assert (Hsplit : split_slash p = (if is_rooted b then [] :: lb else lb) ++ split_slash r).
    { rewrite Hr. rewrite Eb at 1. apply split_render_app; [exact Hlb | now apply nf_slash_free in Hnfb]. }
    rewrite Ep in Hsplit at 1.
    rewrite split_render in Hsplit; [|exact Hlp | now apply nf_slash_free in Hnfp].
    exists (split_slash r). destruct (is_rooted b); [now inversion Hsplit | exact Hsplit].
Qed.

(* and back: segment prefix implies the test RealPath performs *)
Lemma seg_prefix_string_prefix rooted lb lp : nf rooted lb -> nf rooted lp ->
  (rooted = false -> lb <> []) -> seg_prefix lb lp ->
  beqb (render rooted lp) (render rooted lb)
  || prefixb (trim_suffix_slash (render rooted lb) ++ s_slash) (render rooted lp) = true.
Proof.
  intros Hnb Hnp Hrel [r ->]. destruct r as [|y r].
  - rewrite app_nil_r, beqb_refl. reflexivity.
  - apply orb_true_iff. right. destruct lb as [|x lb].
    + destruct rooted; [reflexivity | now contradiction Hrel].
    + rewrite trim_render by (assumption || discriminate).
      rewrite render_app by (assumption || discriminate).
      apply prefixb_spec. exists (join_slash (y :: r)). now rewrite <- app_assoc.
Qed.

Lemma path_join_clean l : path_join l <> [] -> clean (path_join l) = path_join l.
Proof.
  unfold path_join. destruct (filter (fun e => negb (is_empty e)) l); [congruence|].
  intros _. apply clean_idempotent.
Qed.

Lemma join2_nonempty_l a b : a <> [] ->
  join2 a b = clean (if is_empty b then a else a ++ SLASH :: b).
Proof. destruct a; [congruence|]. intros _. destruct b; reflexivity. Qed.

Lemma join2_clean a b : a <> [] -> clean (join2 a b) = join2 a b.
Proof. intros H. rewrite join2_nonempty_l by exact H. apply clean_idempotent. Qed.

Lemma real_path_unfold base name :
  real_path base name =
  let p := join2 (clean base) name in
  if beqb p (clean base) || prefixb (trim_suffix_slash (clean base) ++ s_slash) p then Some p else None.
Proof.
  unfold real_path. fold (join2 (clean base) name).
  rewrite join2_clean by apply clean_nonnil. reflexivity.
Qed.

(* C2 (weak form): RealPath returns the (already clean) join *)
Theorem real_path_value base name p :
  real_path base name = Some p -> p = join2 (clean base) name /\ p = clean (join2 (clean base) name).
Proof.
  rewrite real_path_unfold. cbv zeta. destruct (_ || _); [|discriminate].
  intros H; inversion H; subst. split; [reflexivity|]. symmetry. apply join2_clean, clean_nonnil.
Qed.

(* C1, for every base (rooted or not) *)
Theorem real_path_confined_gen base name p :
  real_path base name = Some p ->
  seg_prefix (clean_segs base) (clean_segs p) /\ clean p = p /\ is_rooted p = is_rooted base.
Proof.
  intros H. destruct (real_path_value _ _ _ H) as [E Ec].
  assert (Hp : clean p = p) by (rewrite Ec at 2; rewrite <- E; reflexivity).
  rewrite real_path_unfold in H. cbv zeta in H. rewrite <- E in H.
  destruct (beqb p (clean base) || prefixb (trim_suffix_slash (clean base) ++ s_slash) p) eqn:C;
    [|discriminate].
  apply orb_true_iff in C. rewrite beqb_true_iff in C.
  destruct (string_prefix_seg_prefix (clean base) p (clean_idempotent base) Hp C) as [Hs Hr].
  rewrite clean_segs_clean in Hs. rewrite is_rooted_clean in Hr. auto.
Qed.

(* C1 as asked *)
Theorem real_path_confined base name p :
  is_rooted (clean base) = true -> real_path base name = Some p ->
  seg_prefix (clean_segs base) (clean_segs p) /\ clean p = p /\ is_rooted p = true.
Proof.
  intros Hr H. destruct (real_path_confined_gen _ _ _ H) as [H1 [H2 H3]].
  rewrite is_rooted_clean in Hr. rewrite Hr in H3. auto.
Qed.

(* ... and a rooted result has no ".." segment at all *)
Corollary real_path_no_dotdot base name p seg :
  is_rooted (clean base) = true -> real_path base name = Some p -> In seg (clean_segs p) -> seg <> s_dotdot.
Proof.
  intros Hr H. destruct (real_path_confined _ _ _ Hr H) as [_ [_ H3]].
  now apply clean_segs_rooted_no_dotdot.
Qed.

(* C2: what RealPath computes, segment-wise: the name's pieces are resolved on top of the
   base's segments (".." pops, clamped at the root for a rooted base) *)
Definition joined_segs (base name : str) : list str :=
  norm_aux (is_rooted base) (split_slash name) (rev (clean_segs base)).

(* "no .. escapes": resolving the name on top of the base keeps the base as a prefix *)
Definition stays_inside (base name : str) : Prop :=
  seg_prefix (clean_segs base) (joined_segs base name).

Lemma slash_free_dot : slash_free s_dot.
Proof. intros [H|[]]; discriminate. Qed.

Theorem clean_segs_join2 base name :
  clean_segs (join2 (clean base) name) = joined_segs base name.
Proof.
  unfold joined_segs. pose proof (clean_segs_nf base) as Hnf. pose proof (clean_nonnil base) as Hbn.
  rewrite join2_nonempty_l by exact Hbn. rewrite clean_segs_clean.
  destruct name as [|c name]; cbn [is_empty].
  - rewrite clean_segs_clean. change (split_slash []) with [[] : str].
    rewrite norm_aux_skip by now left. cbn [norm_aux]. now rewrite rev_involutive.
  - set (nm := c :: name). unfold clean_segs at 1.
    rewrite is_rooted_app by exact Hbn. rewrite is_rooted_clean. unfold clean.
    destruct (clean_segs base) as [|x l] eqn:El.
    + destruct (is_rooted base).
      * cbn [render join_slash app]. rewrite !split_slash_cons_slash.
        rewrite !norm_aux_skip by now left. reflexivity.
      * cbn [render]. rewrite split_slash_app by exact slash_free_dot.
        rewrite norm_aux_skip by now right. reflexivity.
    + rewrite split_render_app; [|discriminate | now apply nf_slash_free in Hnf].
      destruct (is_rooted base).
      * rewrite <- (app_comm_cons (x :: l)). rewrite norm_aux_skip by now left.
        rewrite norm_aux_app_nf by exact Hnf. now rewrite app_nil_r.
      * rewrite norm_aux_app_nf by exact Hnf. now rewrite app_nil_r.
Qed.

Lemma is_rooted_join2 base name : is_rooted (join2 (clean base) name) = is_rooted base.
Proof.
  pose proof (clean_nonnil base) as Hbn. rewrite join2_nonempty_l by exact Hbn.
  rewrite is_rooted_clean. destruct (is_empty name); [apply is_rooted_clean|].
  rewrite is_rooted_app by exact Hbn. apply is_rooted_clean.
Qed.

Lemma joined_segs_nf base name : nf (is_rooted base) (joined_segs base name).
Proof. rewrite <- clean_segs_join2, <- (is_rooted_join2 base name). apply clean_segs_nf. Qed.

Theorem join2_render base name :
  join2 (clean base) name = render (is_rooted base) (joined_segs base name).
Proof.
  rewrite <- clean_segs_join2, <- (is_rooted_join2 base name).
  apply clean_fixed_render. apply join2_clean, clean_nonnil.
Qed.

(* exact characterisation of RealPath; the side condition excludes only the base "." *)
Theorem real_path_iff base name p :
  (is_rooted base = false -> clean_segs base <> []) ->
  (real_path base name = Some p <->
   p = join2 (clean base) name /\ stays_inside base name).
Proof.
  intros Hrel. split.
  - intros H. destruct (real_path_value _ _ _ H) as [E _]. split; [exact E|].
    destruct (real_path_confined_gen _ _ _ H) as [Hs _].
    unfold stays_inside. now rewrite <- clean_segs_join2, <- E.
  - intros [-> Hin]. rewrite real_path_unfold. cbv zeta.
    pose proof (seg_prefix_string_prefix (is_rooted base) (clean_segs base) (joined_segs base name)
                  (clean_segs_nf base) (joined_segs_nf base name) Hrel Hin) as C.
    rewrite <- join2_render in C. fold (clean base) in C. now rewrite C.
Qed.

Theorem real_path_inside base name :
  is_rooted (clean base) = true -> stays_inside base name ->
  real_path base name = Some (clean (join2 (clean base) name)).
Proof.
  intros Hr Hin. rewrite is_rooted_clean in Hr. rewrite join2_clean by apply clean_nonnil.
  apply real_path_iff; [rewrite Hr; discriminate | auto].
Qed.

Theorem real_path_escape base name :
  is_rooted (clean base) = true -> ~ stays_inside base name -> real_path base name = None.
Proof.
  intros Hr Hout. rewrite is_rooted_clean in Hr.
  destruct (real_path base name) as [p|] eqn:E; [|reflexivity].
  apply real_path_iff in E; [|rewrite Hr; discriminate]. now destruct E.
Qed.

(* /base2/x is not below /base : segment prefix is not string prefix *)
Example base2_not_below_base :
  let base := [SLASH; 98; 97; 115; 101]%N in                    (* "/base" *)
  let name := [DOT; DOT; SLASH; 98; 97; 115; 101; 50; SLASH; 120]%N in  (* "../base2/x" *)
  prefixb base (join2 base name) = true /\ real_path base name = None.
Proof. vm_compute. auto. Qed.

(** ** C3: an unrooted base (relative root) *)

(* [real_path_confined_gen] and [real_path_iff] hold for unrooted bases too.  Two caveats: *)

(* (a) a base that cleans to "." accepts only names that resolve to "." itself
       ("./" is never a prefix of a cleaned path) *)
Theorem real_path_dot_base base name p :
  is_rooted base = false -> clean_segs base = [] -> real_path base name = Some p -> p = s_dot.
Proof.
  intros Hr Hl H. destruct (real_path_confined_gen _ _ _ H) as [_ [Hc Hrp]].
  rewrite real_path_unfold in H. cbv zeta in H.
  destruct (_ || _) eqn:C in H; [|discriminate]. inversion H as [E]. rewrite E in C |- *.
  assert (Eb : clean base = s_dot) by (unfold clean; now rewrite Hr, Hl).
  rewrite Eb in C. apply orb_true_iff in C as [C|C]; [now apply beqb_true_iff in C|].
  exfalso. change (trim_suffix_slash s_dot ++ s_slash) with (s_dot ++ [SLASH]) in C.
  apply prefixb_spec in C as [r Hp]. rewrite <- app_assoc in Hp. cbn [app] in Hp.
  pose proof (clean_segs_nf p) as Hnf. pose proof (clean_fixed_render p Hc) as Ep.
  rewrite Hrp, Hr in Hnf, Ep.
  destruct (clean_segs p) as [|x l] eqn:El.
  - rewrite Ep in Hp. discriminate.
  - assert (Hs : split_slash p = x :: l).
    { rewrite Ep at 1. apply (split_render false); [discriminate | now apply nf_slash_free in Hnf]. }
    rewrite Hp in Hs. change (DOT :: SLASH :: r) with (s_dot ++ SLASH :: r) in Hs.
    rewrite split_slash_app in Hs by exact slash_free_dot. inversion Hs; subst.
    destruct Hnf as [Hf _]. inversion Hf as [|? ? [_ [Hd _]] _]. now apply Hd.
Qed.

Example real_path_dot_rejects :   (* base ".", name "a" *)
  real_path s_dot [97%N] = None /\ real_path [] [97%N] = None.
Proof. vm_compute. auto. Qed.

(* (b) when the base itself starts with "..", segment prefix does not mean "inside":
       base "..", name ".." gives "../.." *)
Example real_path_dotdot_base :
  real_path s_dotdot s_dotdot = Some [DOT; DOT; SLASH; DOT; DOT].
Proof. reflexivity. Qed.

(* for an unrooted base that does not start with "..", the result has no ".." at all *)
Theorem real_path_unrooted_no_dotdot base name p x l :
  is_rooted base = false -> clean_segs base = x :: l -> x <> s_dotdot ->
  real_path base name = Some p -> ~ In s_dotdot (clean_segs p).
Proof.
  intros Hr Hl Hx H. destruct (real_path_confined_gen _ _ _ H) as [[r Hs] [_ Hrp]].
  pose proof (clean_segs_nf p) as [_ Hnf]. rewrite Hrp, Hr, Hs, Hl in Hnf. cbn in Hnf.
  destruct Hnf as [[E _]|Hnf]; [contradiction|].
  rewrite Hs, Hl. intros Hin. rewrite Forall_forall in Hnf. now apply (Hnf _ Hin).
Qed.

(* ------------------------------------------------------------------------------------ *)
(** * D. path_join / join2 (C09) *)

Theorem join2_both a b : a <> [] -> b <> [] -> join2 a b = clean (a ++ s_slash ++ b).
Proof. destruct a; [congruence|]. destruct b; [congruence|]. reflexivity. Qed.

Lemma join2_nil_r a : a <> [] -> join2 a [] = clean a.
Proof. destruct a; [congruence | reflexivity]. Qed.
Lemma join2_nil_l b : b <> [] -> join2 [] b = clean b.
Proof. destruct b; [congruence | reflexivity]. Qed.
Lemma join2_nil_nil : join2 [] [] = [].
Proof. reflexivity. Qed.

Lemma split_aux_app_gen x y : forall cur,
  split_aux (x ++ SLASH :: y) cur = split_aux x cur ++ split_aux y [].
Proof.
  induction x as [|c x IH]; intros cur.
  - reflexivity.
  - cbn [app split_aux]. destruct (N.eqb c SLASH); [now rewrite IH | apply IH].
Qed.

Lemma split_slash_app_gen x y : split_slash (x ++ SLASH :: y) = split_slash x ++ split_slash y.
Proof. apply split_aux_app_gen. Qed.

(* norm_aux processes a concatenation piecewise *)
Lemma norm_aux_app rooted l1 l2 : forall st,
  norm_aux rooted (l1 ++ l2) st = norm_aux rooted l2 (rev (norm_aux rooted l1 st)).
Proof.
  induction l1 as [|s l1 IH]; intros st.
  - cbn [app norm_aux]. now rewrite rev_involutive.
  - cbn [app norm_aux]. destruct (is_empty s || is_dot s); [apply IH|].
    destruct (is_dotdot s); [|apply IH].
    destruct st as [|top st]; [destruct rooted; apply IH|].
    destruct (is_dotdot top); apply IH.
Qed.

Lemma clean_segs_cat x y : x <> [] ->
  clean_segs (x ++ SLASH :: y) = norm_aux (is_rooted x) (split_slash x ++ split_slash y) [].
Proof.
  intros Hx. unfold clean_segs. now rewrite is_rooted_app, split_slash_app_gen.
Qed.

(* feeding the pieces of a rendered normal form = feeding the normal form *)
Lemma norm_split_render r rz L st : nf rz L ->
  norm_aux r (split_slash (render rz L)) st = norm_aux r L st.
Proof.
  intros Hnf. destruct L as [|x L].
  - destruct rz; reflexivity.
  - rewrite split_render; [|discriminate | now apply nf_slash_free in Hnf].
    destruct rz; [now rewrite norm_aux_skip by now left | reflexivity].
Qed.

Lemma norm_split_clean r z st :
  norm_aux r (split_slash (clean z)) st = norm_aux r (clean_segs z) st.
Proof. apply norm_split_render, clean_segs_nf. Qed.

Definition normal_seg (s : str) : Prop := s <> [] /\ s <> s_dot /\ s <> s_dotdot.

Lemma norm_aux_skip_mid r l1 s l2 st : s = [] \/ s = s_dot ->
  norm_aux r (l1 ++ s :: l2) st = norm_aux r (l1 ++ l2) st.
Proof. intros H. rewrite !norm_aux_app. now rewrite norm_aux_skip. Qed.

Lemma norm_aux_cancel_mid r l1 top l2 st : normal_seg top ->
  norm_aux r (l1 ++ top :: s_dotdot :: l2) st = norm_aux r (l1 ++ l2) st.
Proof.
  intros [H1 [H2 H3]]. rewrite !norm_aux_app. rewrite norm_aux_push by assumption.
  now rewrite norm_aux_dd_pop.
Qed.

(* resolving first WITHOUT clamping (unrooted) and then again is the same as resolving once *)
Lemma norm_aux_absorb r X : forall st2 st,
  Forall (fun s => s <> [] /\ s <> s_dot) st2 ->
  norm_aux r (norm_aux false X st2) st = norm_aux r (rev st2 ++ X) st.
Proof.
  induction X as [|s X IH]; intros st2 st Hst2.
  - cbn [norm_aux]. now rewrite app_nil_r.
  - destruct (seg_cases s) as [Hskip|[->|[Hn [Hd Hdd]]]].
    + rewrite norm_aux_skip by exact Hskip. rewrite norm_aux_skip_mid by exact Hskip. now apply IH.
    + destruct st2 as [|top st2].
      * rewrite norm_aux_dd_nil_unrooted. rewrite IH; [reflexivity|].
        constructor; [split; discriminate | constructor].
      * inversion Hst2 as [|? ? [Ht1 Ht2] Hst2']; subst.
        destruct (is_dotdot top) eqn:Et.
        -- apply is_dotdot_true in Et. subst top. rewrite norm_aux_dd_dd.
           rewrite IH; [|constructor; [split; discriminate | exact Hst2]].
           cbn [rev]. now rewrite <- !app_assoc.
        -- apply is_dotdot_false in Et. rewrite norm_aux_dd_pop by exact Et.
           rewrite IH by exact Hst2'. cbn [rev]. rewrite <- app_assoc. cbn [app].
           symmetry. apply norm_aux_cancel_mid. repeat split; assumption.
    + rewrite norm_aux_push by assumption. rewrite IH by (constructor; [split; assumption | exact Hst2]).
      cbn [rev]. now rewrite <- app_assoc.
Qed.

Lemma norm_split_clean_unrooted r z st : is_rooted z = false ->
  norm_aux r (split_slash (clean z)) st = norm_aux r (split_slash z) st.
Proof.
  intros Hz. rewrite norm_split_clean. unfold clean_segs. rewrite Hz.
  now rewrite norm_aux_absorb by constructor.
Qed.

Lemma join2_nonnil_l a b : a <> [] -> join2 a b <> [].
Proof. intros H. rewrite join2_nonempty_l by exact H. apply clean_nonnil. Qed.
Lemma join2_nonnil_r a b : b <> [] -> join2 a b <> [].
Proof.
  intros H. destruct a; [rewrite join2_nil_l by exact H; apply clean_nonnil|].
  apply join2_nonnil_l. discriminate.
Qed.

(* segments and rootedness of a join of two non-empty strings *)
Lemma clean_segs_join2_both a b : a <> [] -> b <> [] ->
  clean_segs (join2 a b) = norm_aux (is_rooted a) (split_slash a ++ split_slash b) [].
Proof.
  intros Ha Hb. rewrite join2_both by assumption. rewrite clean_segs_clean.
  cbn [s_slash app]. now apply clean_segs_cat.
Qed.

Lemma is_rooted_join2_both a b : a <> [] -> is_rooted (join2 a b) = is_rooted a.
Proof.
  intros Ha. rewrite join2_nonempty_l by exact Ha. rewrite is_rooted_clean.
  destruct (is_empty b); [reflexivity | now apply is_rooted_app].
Qed.

Lemma clean_segs_self z : norm_aux (is_rooted z) (clean_segs z) [] = clean_segs z.
Proof. apply (norm_aux_id _ _ []). apply clean_segs_nf. Qed.

(* D2: joining is associative when the middle element is not rooted *)
Theorem join2_assoc_unrooted a b c : a <> [] -> b <> [] -> c <> [] -> is_rooted b = false ->
  join2 (join2 a b) c = join2 a (join2 b c).
Proof.
  intros Ha Hb Hc Hrb.
  pose proof (join2_nonnil_l a b Ha) as Hab. pose proof (join2_nonnil_l b c Hb) as Hbc.
  rewrite (join2_both (join2 a b) c) by assumption.
  rewrite (join2_both a (join2 b c)) by assumption. cbn [s_slash app].
  apply clean_eq_iff. split.
  - rewrite !is_rooted_app by assumption. now apply is_rooted_join2_both.
  - rewrite !clean_segs_cat by assumption. rewrite is_rooted_join2_both by exact Ha.
    rewrite (norm_aux_app _ (split_slash (join2 a b))).
    rewrite (join2_both a b) by assumption. cbn [s_slash app].
    rewrite norm_split_clean. rewrite clean_segs_cat by exact Ha.
    pose proof (clean_segs_self (a ++ SLASH :: b)) as Hself.
    rewrite clean_segs_cat in Hself by exact Ha. rewrite is_rooted_app in Hself by exact Ha.
    rewrite Hself. rewrite <- norm_aux_app.
    rewrite (norm_aux_app _ (split_slash a) (split_slash (join2 b c))).
    rewrite (join2_both b c) by assumption. cbn [s_slash app].
    rewrite norm_split_clean_unrooted by (now rewrite is_rooted_app).
    rewrite split_slash_app_gen. rewrite <- norm_aux_app. now rewrite app_assoc.
Qed.

(* it is NOT associative in general: a rooted middle element clamps ".." at ITS root *)
Example join2_not_assoc :   (* a = "a", b = "/", c = ".." : "." versus "a" *)
  join2 (join2 [97%N] s_slash) s_dotdot = s_dot /\ join2 [97%N] (join2 s_slash s_dotdot) = [97%N].
Proof. vm_compute. auto. Qed.

(** ** names that never step above their starting point *)

(* the name resolved on its own, relative, without clamping *)
Definition rel_segs (c : str) : list str := norm_aux false (split_slash c) [].
Definition no_up (c : str) : Prop := ~ In s_dotdot (rel_segs c).

Lemma dd_stays X : forall st2, In s_dotdot st2 -> In s_dotdot (norm_aux false X st2).
Proof.
  induction X as [|s X IH]; intros st2 Hin.
  - cbn [norm_aux]. now apply in_rev in Hin.
  - destruct (seg_cases s) as [Hskip|[->|[Hn [Hd Hdd]]]].
    + rewrite norm_aux_skip by exact Hskip. now apply IH.
    + destruct st2 as [|top st2]; [destruct Hin|].
      destruct (is_dotdot top) eqn:Et.
      * apply is_dotdot_true in Et. subst top. rewrite norm_aux_dd_dd. apply IH. now left.
      * apply is_dotdot_false in Et. rewrite norm_aux_dd_pop by exact Et. apply IH.
        destruct Hin as [E|Hin]; [now contradiction Et | exact Hin].
    + rewrite norm_aux_push by assumption. apply IH. now right.
Qed.

Lemma norm_aux_no_up_gen r X : forall st2 st,
  ~ In s_dotdot (norm_aux false X st2) ->
  norm_aux r X (st2 ++ st) = rev st ++ norm_aux false X st2.
Proof.
  induction X as [|s X IH]; intros st2 st Hno.
  - cbn [norm_aux]. apply rev_app_distr.
  - destruct (seg_cases s) as [Hskip|[->|[Hn [Hd Hdd]]]].
    + rewrite !norm_aux_skip by exact Hskip. rewrite norm_aux_skip in Hno by exact Hskip. now apply IH.
    + destruct st2 as [|top st2].
      * exfalso. apply Hno. rewrite norm_aux_dd_nil_unrooted. apply dd_stays. now left.
      * destruct (is_dotdot top) eqn:Et.
        -- exfalso. apply is_dotdot_true in Et. subst top. apply Hno. rewrite norm_aux_dd_dd.
           apply dd_stays. now left.
        -- apply is_dotdot_false in Et. cbn [app]. rewrite !norm_aux_dd_pop by exact Et.
           rewrite norm_aux_dd_pop in Hno by exact Et. now apply IH.
    + rewrite !norm_aux_push by assumption. rewrite norm_aux_push in Hno by assumption.
      now apply (IH (s :: st2)).
Qed.

Lemma norm_aux_no_up r X st : ~ In s_dotdot (norm_aux false X []) ->
  norm_aux r X st = rev st ++ norm_aux false X [].
Proof. intros H. exact (norm_aux_no_up_gen r X [] st H). Qed.

Lemma norm_aux_normal r L : forall st, Forall normal_seg L -> norm_aux r L st = rev st ++ L.
Proof.
  induction L as [|s L IH]; intros st HL.
  - cbn [norm_aux]. now rewrite app_nil_r.
  - inversion HL as [|? ? [H1 [H2 H3]] HL']; subst. rewrite norm_aux_push by assumption.
    rewrite IH by exact HL'. cbn [rev]. now rewrite <- app_assoc.
Qed.

Lemma rel_segs_nf c : nf false (rel_segs c).
Proof. apply norm_aux_nf; [apply split_slash_pieces | apply nf_nil]. Qed.

Lemma rel_segs_normal c : no_up c -> Forall normal_seg (rel_segs c).
Proof.
  intros Hno. destruct (rel_segs_nf c) as [Hok _]. rewrite Forall_forall in *.
  intros s Hin. destruct (Hok s Hin) as [H1 [H2 _]]. repeat split; try assumption.
  intros ->. now apply Hno.
Qed.

Lemma nf_true_normal L : nf true L -> Forall normal_seg L.
Proof.
  intros [Hok Hdd]. cbn in Hdd. rewrite Forall_forall in *. intros s Hin.
  destruct (Hok s Hin) as [H1 [H2 _]]. repeat split; try assumption. now apply Hdd.
Qed.

Lemma normal_nf r L : Forall normal_seg L -> Forall slash_free L -> nf r L.
Proof.
  intros HL Hsf. assert (Hdd : Forall not_dd L).
  { eapply Forall_impl; [|exact HL]. intros s [_ [_ H]]. exact H. }
  split; [|destruct r; [exact Hdd | now apply dd_pre_nodd]].
  rewrite Forall_forall in *. intros s Hin. destruct (HL s Hin) as [H1 [H2 _]].
  repeat split; try assumption. now apply Hsf.
Qed.

(* a name that never steps up is simply appended, whatever the base *)
Theorem joined_segs_no_up base name : no_up name ->
  joined_segs base name = clean_segs base ++ rel_segs name.
Proof.
  intros Hno. unfold joined_segs. rewrite norm_aux_no_up by exact Hno. now rewrite rev_involutive.
Qed.

Theorem real_path_no_up base name :
  (is_rooted base = false -> clean_segs base <> []) -> no_up name ->
  real_path base name = Some (render (is_rooted base) (clean_segs base ++ rel_segs name)).
Proof.
  intros Hside Hno. rewrite <- joined_segs_no_up by exact Hno. rewrite <- join2_render.
  apply real_path_iff; [exact Hside|]. split; [reflexivity|].
  unfold stays_inside. rewrite joined_segs_no_up by exact Hno. now exists (rel_segs name).
Qed.

Lemma clean_segs_no_up b : no_up b -> clean_segs b = rel_segs b.
Proof. intros Hno. unfold clean_segs. now rewrite norm_aux_no_up by exact Hno. Qed.

Lemma no_up_render rz L : nf rz L -> Forall normal_seg L ->
  rel_segs (render rz L) = L /\ no_up (render rz L).
Proof.
  intros Hnf HL. assert (E : rel_segs (render rz L) = L).
  { unfold rel_segs. rewrite norm_split_render by exact Hnf. now rewrite norm_aux_normal. }
  split; [exact E|]. unfold no_up. rewrite E. intros Hin. rewrite Forall_forall in HL.
  destruct (HL _ Hin) as [_ [_ H]]. now apply H.
Qed.

(* a cleaned rooted path never steps up *)
Lemma no_up_clean_rooted b : is_rooted b = true -> no_up (clean b).
Proof.
  intros Hr. pose proof (clean_segs_nf b) as Hnf. rewrite Hr in Hnf.
  unfold clean. rewrite Hr. now apply no_up_render; [|apply nf_true_normal].
Qed.

(* D2': associativity also holds for a rooted middle element when neither it nor the last
   element steps above its starting point *)
Theorem join2_assoc_no_up a b c : a <> [] -> b <> [] -> c <> [] -> no_up b -> no_up c ->
  join2 (join2 a b) c = join2 a (join2 b c).
Proof.
  intros Ha Hb Hc Hnb Hnc.
  pose proof (join2_nonnil_l a b Ha) as Hab. pose proof (join2_nonnil_l b c Hb) as Hbc.
  rewrite (join2_both (join2 a b) c) by assumption.
  rewrite (join2_both a (join2 b c)) by assumption. cbn [s_slash app].
  apply clean_eq_iff. split.
  - rewrite !is_rooted_app by assumption. now apply is_rooted_join2_both.
  - rewrite !clean_segs_cat by assumption. rewrite is_rooted_join2_both by exact Ha.
    rewrite (norm_aux_app _ (split_slash (join2 a b))).
    rewrite (join2_both a b) by assumption. cbn [s_slash app].
    rewrite norm_split_clean. rewrite clean_segs_cat by exact Ha.
    pose proof (clean_segs_self (a ++ SLASH :: b)) as Hself.
    rewrite clean_segs_cat in Hself by exact Ha. rewrite is_rooted_app in Hself by exact Ha.
    rewrite Hself. rewrite <- norm_aux_app.
    rewrite (norm_aux_app _ (split_slash a) (split_slash (join2 b c))).
    rewrite (join2_both b c) by assumption. cbn [s_slash app].
    rewrite norm_split_clean. rewrite clean_segs_cat by exact Hb.
    rewrite (norm_aux_app _ (split_slash b) (split_slash c)).
    rewrite (norm_aux_no_up _ (split_slash b)) by exact Hnb. cbn [rev app].
    rewrite (norm_aux_no_up _ (split_slash c)) by exact Hnc. rewrite rev_involutive.
    fold (rel_segs b). fold (rel_segs c).
    rewrite (norm_aux_normal _ (rel_segs b ++ rel_segs c))
      by (apply Forall_app; split; now apply rel_segs_normal).
    rewrite <- app_assoc.
    rewrite (norm_aux_app _ (split_slash a) (split_slash b ++ split_slash c)).
    rewrite (norm_aux_app _ (split_slash b) (split_slash c)).
    rewrite (norm_aux_no_up _ (split_slash b)) by exact Hnb.
    rewrite (norm_aux_no_up _ (split_slash c)) by exact Hnc.
    fold (rel_segs b). fold (rel_segs c).
    now rewrite !rev_app_distr, !rev_involutive, <- !app_assoc.
Qed.

Theorem join2_assoc a b c : a <> [] -> b <> [] -> c <> [] ->
  is_rooted b = false \/ (no_up b /\ no_up c) ->
  join2 (join2 a b) c = join2 a (join2 b c).
Proof.
  intros Ha Hb Hc [H|[H1 H2]]; [now apply join2_assoc_unrooted | now apply join2_assoc_no_up].
Qed.

(** ** stacking two base paths (C09) *)

Lemma side_nonnil a : (is_rooted a = false -> clean_segs a <> []) -> a <> [].
Proof. intros H ->. now apply H. Qed.

Lemma clean_segs_join2_no_up a b : a <> [] -> b <> [] -> no_up b ->
  clean_segs (join2 a b) = clean_segs a ++ clean_segs b.
Proof.
  intros Ha Hb Hnb. rewrite clean_segs_join2_both by assumption. rewrite norm_aux_app.
  fold (clean_segs a). rewrite norm_aux_no_up by exact Hnb. rewrite rev_involutive.
  now rewrite (clean_segs_no_up b Hnb).
Qed.

(* BasePathFs(BasePathFs(src, a), b) and BasePathFs(src, Join(a, b)) map a name that never
   steps up to the same real path, provided b itself never steps up (e.g. b is a cleaned
   rooted path) *)
Theorem real_path_stack a b c :
  (is_rooted a = false -> clean_segs a <> []) ->
  (is_rooted b = false -> clean_segs b <> []) ->
  no_up b -> no_up c ->
  let p := render (is_rooted a) (clean_segs a ++ clean_segs b ++ rel_segs c) in
  exists q, real_path b c = Some q /\ real_path a q = Some p /\ real_path (join2 a b) c = Some p.
Proof.
  intros Hsa Hsb Hnb Hnc p.
  pose proof (side_nonnil a Hsa) as Ha. pose proof (side_nonnil b Hsb) as Hb.
  exists (render (is_rooted b) (clean_segs b ++ rel_segs c)).
  split; [now apply real_path_no_up|].
  assert (Hnormal : Forall normal_seg (clean_segs b ++ rel_segs c)).
  { apply Forall_app. split; [rewrite clean_segs_no_up by exact Hnb|]; now apply rel_segs_normal. }
  assert (Hnf : nf (is_rooted b) (clean_segs b ++ rel_segs c)).
  { apply normal_nf; [exact Hnormal|]. apply Forall_app. split.
    - exact (nf_slash_free _ _ (clean_segs_nf b)).
    - exact (nf_slash_free _ _ (rel_segs_nf c)). }
  destruct (no_up_render _ _ Hnf Hnormal) as [Erel Hnq]. split.
  - rewrite real_path_no_up by assumption. now rewrite Erel.
  - rewrite real_path_no_up; [| |exact Hnc].
    + rewrite is_rooted_join2_both by exact Ha. rewrite clean_segs_join2_no_up by assumption.
      unfold p. now rewrite <- app_assoc.
    + rewrite is_rooted_join2_both by exact Ha. rewrite clean_segs_join2_no_up by assumption.
      intros Hr E. apply app_eq_nil in E as [E _]. now apply Hsa.
Qed.

(* without the no_up conditions stacking and joining differ *)
Example stack_differs_name :   (* a = "/a", b = "/b", c = "../../b/x" *)
  let a := [SLASH; 97]%N in let b := [SLASH; 98]%N in
  let c := [DOT; DOT; SLASH; DOT; DOT; SLASH; 98; SLASH; 120]%N in
  (match real_path b c with Some q => real_path a q | None => None end)
    = Some [SLASH; 97; SLASH; 98; SLASH; 120]%N             (* "/a/b/x" *)
  /\ real_path (join2 a b) c = None.
Proof. vm_compute. auto. Qed.

Example stack_differs_base :   (* a = "/a", b = "/../x", c = "f" *)
  let a := [SLASH; 97]%N in let b := [SLASH; DOT; DOT; SLASH; 120]%N in let c := [102]%N in
  (match real_path b c with Some q => real_path a q | None => None end)
    = Some [SLASH; 97; SLASH; 120; SLASH; 102]%N            (* "/a/x/f" *)
  /\ real_path (join2 a b) c = Some [SLASH; 120; SLASH; 102]%N.   (* "/x/f" *)
Proof. vm_compute. auto. Qed.

(** ** BasePathFile.Name : TrimPrefix(real name, Clean(base)) *)

Lemma trim_prefix_app x y : trim_prefix (x ++ y) x = y.
Proof.
  unfold trim_prefix. assert (H : prefixb x (x ++ y) = true) by (apply prefixb_spec; now exists y).
  rewrite H. apply skipn_app_exact.
Qed.

Lemma trim_prefix_self x : trim_prefix x x = [].
Proof. rewrite <- (app_nil_r x) at 1. apply trim_prefix_app. Qed.

(* the reported name is "/" + the segments below the base — except for the base "/" (and
   "."), where the leading separator is lost *)
Theorem bp_name_shape base name p :
  real_path base name = Some p ->
  exists r, clean_segs p = clean_segs base ++ r /\
    trim_prefix p (clean base) =
      match clean_segs base, r with
      | [], _ => join_slash r
      | _ :: _, [] => []
      | _ :: _, _ :: _ => SLASH :: join_slash r
      end.
Proof.
  intros H. destruct (real_path_confined_gen _ _ _ H) as [[r Hr] [Hc Hroot]].
  exists r. split; [exact Hr|].
  pose proof (clean_fixed_render p Hc) as Ep. rewrite Hroot, Hr in Ep.
  pose proof (clean_segs_nf base) as Hnf.
  destruct (clean_segs base) as [|x l] eqn:El.
  - destruct (is_rooted base) eqn:Erb.
    + assert (Eb : clean base = [SLASH]) by (unfold clean; now rewrite Erb, El).
      rewrite Eb, Ep. cbn [app render]. apply (trim_prefix_app [SLASH]).
    + assert (Ed : p = s_dot) by (apply (real_path_dot_base base name); assumption).
      assert (Eb : clean base = s_dot) by (unfold clean; now rewrite Erb, El).
      assert (r = []) as ->.
      { rewrite Ed in Hr. cbn in Hr. now destruct r. }
      rewrite Eb, Ed. reflexivity.
  - assert (Eb : clean base = render (is_rooted base) (x :: l)) by (unfold clean; now rewrite El).
    destruct r as [|y r].
    + rewrite app_nil_r in Ep. rewrite Eb, Ep. apply trim_prefix_self.
    + rewrite render_app in Ep by (assumption || discriminate).
      rewrite Eb, Ep. apply trim_prefix_app.
Qed.

Example bp_name_root_quirk :   (* base "/" reports "a/b" for "/a/b", base "/r" reports "/a/b" for "/r/a/b" *)
  trim_prefix [SLASH; 97; SLASH; 98]%N (clean s_slash) = [97; SLASH; 98]%N /\
  trim_prefix [SLASH; 114; SLASH; 97; SLASH; 98]%N (clean [SLASH; 114]%N) = [SLASH; 97; SLASH; 98]%N.
Proof. vm_compute. auto. Qed.

(* cleaning the first element of a join changes nothing *)
Theorem join2_clean_l a b : a <> [] -> join2 (clean a) b = join2 a b.
Proof.
  intros Ha. pose proof (clean_nonnil a) as Hca.
  rewrite (join2_nonempty_l (clean a)) by exact Hca. rewrite (join2_nonempty_l a) by exact Ha.
  destruct b as [|c b]; cbn [is_empty]; [apply clean_idempotent|].
  apply clean_eq_iff. split.
  - rewrite !is_rooted_app by assumption. apply is_rooted_clean.
  - rewrite !clean_segs_cat by assumption. rewrite is_rooted_clean.
    rewrite !norm_aux_app. rewrite norm_split_clean. now rewrite clean_segs_self.
Qed.

(* cleaning the second element is harmless only if it is unrooted or never steps up *)
Theorem join2_clean_r a b : a <> [] -> b <> [] -> is_rooted b = false \/ no_up b ->
  join2 a (clean b) = join2 a b.
Proof.
  intros Ha Hb Hcond. pose proof (clean_nonnil b) as Hcb.
  rewrite !join2_both by assumption. cbn [s_slash app].
  apply clean_eq_iff. split.
  - now rewrite !is_rooted_app.
  - rewrite !clean_segs_cat by assumption. rewrite !norm_aux_app.
    destruct Hcond as [Hr|Hno].
    + now rewrite norm_split_clean_unrooted.
    + rewrite norm_split_clean. rewrite (clean_segs_no_up b Hno).
      rewrite norm_aux_normal by now apply rel_segs_normal.
      now rewrite (norm_aux_no_up _ (split_slash b)) by exact Hno.
Qed.

Example join2_clean_r_fails :   (* a = "a", b = "/.." : "a" versus "." *)
  join2 [97%N] (clean [SLASH; DOT; DOT]) = [97%N] /\ join2 [97%N] [SLASH; DOT; DOT] = s_dot.
Proof. vm_compute. auto. Qed.
