(* Proofs/TarOrderProof.v — C14, order of tarfs listings: File.Readdir sorts the names of the
   directory map (sort.Strings), so the listing is ascending in the entries' base names. *)
From AF Require Import Lib.Bytes Lib.Path Lib.Ops Gen.Consts Model.ByteFile Model.Archive Model.Tar
  Proofs.ArchiveLemmas Proofs.ArchiveIndexProof.
From Coq Require Import Permutation Sorted.

Lemma bltb_asym a : forall b, bltb a b = true -> bltb b a = false.
Proof.
  induction a as [|x a IH]; intros [|y b]; cbn; intros H; try reflexivity; try discriminate.
  apply orb_true_iff in H. apply orb_false_iff. destruct H as [H|H].
  - apply N.ltb_lt in H. split; [apply N.ltb_ge; lia|].
    destruct (N.eqb y x) eqn:E; [apply N.eqb_eq in E; lia|reflexivity].
  - apply andb_true_iff in H as [E H]. apply N.eqb_eq in E. subst y.
    split; [apply N.ltb_irrefl|]. rewrite N.eqb_refl. cbn. now apply IH.
Qed.

(* a <= b is "not b < a" *)
Lemma ble_trans a : forall b c, bltb b a = false -> bltb c b = false -> bltb c a = false.
Proof.
  induction a as [|x a IH]; intros [|y b] [|z c]; cbn; intros H1 H2; try reflexivity; try discriminate.
  apply orb_false_iff in H1 as [H1a H1b]. apply orb_false_iff in H2 as [H2a H2b]. apply orb_false_iff.
  apply N.ltb_ge in H1a, H2a. split; [apply N.ltb_ge; lia|].
  destruct (N.eqb z x) eqn:E; [|reflexivity]. apply N.eqb_eq in E. subst z.
  assert (x = y) by lia. subst y. rewrite N.eqb_refl in *. cbn in *. eapply IH; eauto.
Qed.

Definition key_le (p q : str * aentry) : Prop := bltb (fst q) (fst p) = false.

Lemma insert_sorted x l : StronglySorted key_le l -> StronglySorted key_le (insert_by key_lt x l).
Proof.
  induction l as [|y l IH]; intros S; cbn [insert_by].
  - constructor; constructor.
  - apply StronglySorted_inv in S as [S Hy]. destruct (key_lt y x) eqn:E.
    + constructor; [now apply IH|].
      eapply Permutation_Forall; [symmetry; apply insert_by_perm|]. constructor; [|exact Hy].
      unfold key_le. unfold key_lt in E. now apply bltb_asym.
    + constructor; [constructor; assumption|]. constructor; [exact E|].
      eapply Forall_impl; [|exact Hy]. intros z Hz. unfold key_le in *. unfold key_lt in E.
      eapply ble_trans; eauto.
Qed.

Lemma sort_sorted l : StronglySorted key_le (sort_by key_lt l).
Proof. unfold sort_by. induction l as [|x l IH]; cbn; [constructor|now apply insert_sorted]. Qed.

Lemma filter_sorted {A} (R : A -> A -> Prop) p l : StronglySorted R l -> StronglySorted R (filter p l).
Proof.
  induction l as [|x l IH]; intros S; cbn; [constructor|]. apply StronglySorted_inv in S as [S Hx].
  destruct (p x); [|auto]. constructor; [auto|].
  apply Forall_forall. intros y Hy. apply filter_In in Hy as [Hy _]. rewrite Forall_forall in Hx. auto.
Qed.

(* the names of a tarfs listing (keys of the directory map) ascend *)
Theorem tar_listing_sorted : forall (m : list (str * aentry)),
  StronglySorted (fun k1 k2 => bltb k2 k1 = false)
    (map fst (filter (fun fe => negb (is_empty (fst fe))) (sort_by key_lt m))).
Proof.
  intros m. pose proof (filter_sorted key_le (fun fe => negb (is_empty (fst fe))) _ (sort_sorted m)) as S.
  induction S as [|x l S IH Hx]; cbn; [constructor|]. constructor; [exact IH|].
  apply Forall_forall. intros k Hk. apply in_map_iff in Hk as (y & <- & Hy).
  rewrite Forall_forall in Hx. exact (Hx y Hy).
Qed.
