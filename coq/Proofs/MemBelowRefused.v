(* Proofs/MemBelowRefused.v — MemMapFs creates nothing below a regular file.
   For EVERY state (no invariant assumed) and EVERY name: when, walking up from the name with
   filepath.Dir, the first name that exists is a regular file, then Create, Mkdir, MkdirAll,
   OpenFile with O_CREATE (of a free name) and Rename (to that name) answer ENOTDIR and only the
   clock moves.  Rests on the fact about memmap.go that Gen/Consts.v records as
   memfs_refuses_below_file = 1 (MemBelow.memfs_refuses_below_file_fact, by reflexivity).
   Before that repair registerWithParent turned the regular file into a directory (known findings
   C13 hidden-became-dir:{Create,Mkdir,MkdirAll,Rename}, C18 temp:altered-existing:parent-is-file). *)
From AF Require Import Lib.Bytes Lib.Path Lib.Ops Gen.Consts Model.MemFile Model.MemFs
  Proofs.BytesLemmas Proofs.PathProof Proofs.MemFsBasics Proofs.MemBelow Proofs.MemCreate.
Local Open Scope Z_scope.

(* walking up from d — d, filepath.Dir d, filepath.Dir (filepath.Dir d), ... — the first name the
   path map holds (looked up the way lockfreeOpen does: normalised) is a regular file *)
Inductive nearest_is_file (s : mst) : str -> Prop :=
| nif_here d f n : lookup s (normalize_path d) = Some f -> get_node s f = Some n -> ndir n = false ->
                   nearest_is_file s d
| nif_up d : lookup s (normalize_path d) = None -> nearest_is_file s (path_dir d) -> nearest_is_file s d.

(* ---------- the walk of the model needs at most one step per path element ---------- *)
Lemma exists_last_or_nil {A} (l : list A) : l = [] \/ exists l' b, l = l' ++ [b].
Proof. destruct l as [|x l]; [now left|]. right. destruct (@exists_last _ (x :: l)) as (l' & b & E); [discriminate|]. now exists l', b. Qed.

Lemma join_slash_length l : Forall (fun x : str => x <> []) l -> (length l <= length (join_slash l))%nat.
Proof.
  induction l as [|x l IH]; intros H; [apply Nat.le_refl|].
  inversion H as [|? ? Hx Hl]; subst. destruct l as [|y l].
  - cbn [join_slash length]. destruct x; [congruence | cbn; lia].
  - change (join_slash (x :: y :: l)) with (x ++ SLASH :: join_slash (y :: l)).
    rewrite app_length. specialize (IH Hl). cbn [length] in *. destruct x; [congruence | cbn [length]; lia].
Qed.

Lemma render_length r l : nf r l -> (length l <= length (render r l))%nat.
Proof.
  intros [H _]. assert (Hne : Forall (fun x : str => x <> []) l) by (eapply Forall_impl; [|exact H]; now intros a [Ha _]).
  pose proof (join_slash_length l Hne) as Hl. unfold render. destruct r; [cbn [length]; lia|].
  destruct l; [cbn; lia | exact Hl].
Qed.

Lemma path_dir_render_nil r : path_dir (render r []) = render r [].
Proof. destruct r; reflexivity. Qed.

Lemma path_dir_render_snoc r l b : nf r (l ++ [b]) -> path_dir (render r (l ++ [b])) = render r l.
Proof. intros Hnf. unfold path_dir. now destruct (path_split_render r l b Hnf) as [_ H]. Qed.

Lemma beqb_false_neq a b : a <> b -> beqb a b = false.
Proof. intros H. now apply beqb_false_iff. Qed.

Lemma nif_walk s d : nearest_is_file s d ->
  forall r l fuel, nf r l -> d = render r l -> (length l <= fuel)%nat -> below_file_walk fuel s d = true.
Proof.
  induction 1 as [d f n Hl Hn Hd | d Hl Hup IH]; intros r l fuel Hnf Ed Hlen.
  - rewrite (below_file_walk_here fuel s d f n Hl Hn), Hd. reflexivity.
  - destruct (exists_last_or_nil l) as [-> | (l' & b & ->)].
    + (* d is the fixed point of filepath.Dir: "/" or "." *)
      assert (Hfix : path_dir d = d) by (rewrite Ed; apply path_dir_render_nil).
      rewrite <- Hfix. apply (IH r [] fuel Hnf); [now rewrite Hfix | exact Hlen].
    + assert (Hpd : path_dir d = render r l') by (rewrite Ed; now apply path_dir_render_snoc).
      assert (Hne : beqb d (path_dir d) = false).
      { apply beqb_false_neq. rewrite Hpd, Ed. now apply render_snoc_neq. }
      rewrite app_length in Hlen. cbn [length] in Hlen.
      destruct fuel as [|fu]; [lia|]. cbn [below_file_walk]. unfold lockfree_open. rewrite Hl, Hne.
      apply (IH r l' fu (nf_app_inv _ _ _ Hnf) Hpd). lia.
Qed.

(* the directory of a normalised name, as a rendered list of at most |name| elements *)
Lemma normalized_dir_shape p : let k := normalize_path p in
  exists r l, nf r l /\ path_dir k = render r l /\ (length l <= S (length k))%nat.
Proof.
  intros k. unfold k, normalize_path.
  destruct (is_dot (clean p) || is_dotdot (clean p)).
  - exists true, []. split; [split; constructor|]. split; [reflexivity | cbn; lia].
  - unfold clean. set (r := is_rooted p). pose proof (clean_segs_nf p) as Hnf. fold r in Hnf.
    destruct (exists_last_or_nil (clean_segs p)) as [E | (l & b & E)]; rewrite E in *.
    + exists r, []. split; [exact Hnf|]. split; [apply path_dir_render_nil | cbn; lia].
    + exists r, l. split; [exact (nf_app_inv _ _ _ Hnf)|]. split; [now apply path_dir_render_snoc|].
      pose proof (render_length r (l ++ [b]) Hnf) as Hlen. rewrite app_length in Hlen. cbn [length] in Hlen. lia.
Qed.

(* the model's check says "refuse" exactly in the situation described by nearest_is_file *)
Theorem below_file_nearest s p :
  nearest_is_file s (path_dir (normalize_path p)) -> below_file s (normalize_path p) = true.
Proof.
  intros H. unfold below_file. rewrite memfs_refuses_below_file_fact. cbn [Z.eqb Pos.eqb andb].
  destruct (normalized_dir_shape p) as (r & l & Hnf & Ed & Hlen). cbv zeta in Ed, Hlen.
  exact (nif_walk s _ H r l _ Hnf Ed Hlen).
Qed.

(* ---------- the calls ---------- *)
(* the state after a refused call: only time.Now() has advanced *)
Definition ticked (s : mst) : mst := mkM (mdata s) (mheap s) (mhandles s) (mclock s + 1).

Lemma ticked_view s : fs_view (ticked s) = fs_view s /\ mhandles (ticked s) = mhandles s.
Proof. split; reflexivity. Qed.

Section Refused.
Variables (s : mst) (p : str).
Let k := normalize_path p.
Hypothesis Hnear : nearest_is_file s (path_dir k).

Lemma refused_check : below_file s k = true.
Proof. exact (below_file_nearest s p Hnear). Qed.

Lemma create_refused : lookup s k = None -> m_step s (Create p) = (ticked s, RErr (EW KENOTDIR)).
Proof. intros Hl. unfold m_step. cbn [m_step_raw]. unfold m_create. fold k. now rewrite Hl, refused_check. Qed.

Lemma mkdir_refused perm : lookup s k = None -> m_step s (Mkdir p perm) = (ticked s, RErr (EW KENOTDIR)).
Proof. intros Hl. unfold m_step. cbn [m_step_raw]. unfold m_mkdir. fold k. now rewrite Hl, refused_check. Qed.

Lemma mkdirall_refused perm : lookup s k = None -> m_step s (MkdirAll p perm) = (ticked s, RErr (EW KENOTDIR)).
Proof. intros Hl. unfold m_step. cbn [m_step_raw]. unfold m_mkdirall, m_mkdir. fold k. now rewrite Hl, refused_check. Qed.

Lemma openfile_refused flag perm : lookup s k = None -> flag_has flag o_create = true ->
  m_step s (OpenFile p flag perm) = (ticked s, RErr (EW KENOTDIR)).
Proof. intros Hl Hc. unfold m_step. cbn [m_step_raw]. unfold m_openfile. fold k. now rewrite Hl, Hc, refused_check. Qed.

(* Rename TO the name (free or not), from any existing other name *)
Lemma rename_refused q : lookup s (normalize_path q) <> None -> normalize_path q <> k ->
  m_step s (Rename q p) = (ticked s, RErr (EW KENOTDIR)).
Proof.
  intros Hl Hne. unfold m_step. cbn [m_step_raw]. unfold m_rename. fold k.
  destruct (lookup s (normalize_path q)) as [f|]; [|congruence].
  now rewrite (beqb_false_neq _ _ Hne), refused_check.
Qed.
End Refused.

(* all of it in one statement *)
Theorem below_file_refused s p :
  let k := normalize_path p in
  nearest_is_file s (path_dir k) ->
  (lookup s k = None ->
     m_step s (Create p) = (ticked s, RErr (EW KENOTDIR)) /\
     (forall perm, m_step s (Mkdir p perm) = (ticked s, RErr (EW KENOTDIR))) /\
     (forall perm, m_step s (MkdirAll p perm) = (ticked s, RErr (EW KENOTDIR))) /\
     (forall flag perm, flag_has flag o_create = true ->
        m_step s (OpenFile p flag perm) = (ticked s, RErr (EW KENOTDIR)))) /\
  (forall q, lookup s (normalize_path q) <> None -> normalize_path q <> k ->
     m_step s (Rename q p) = (ticked s, RErr (EW KENOTDIR))).
Proof.
  intros k H. split.
  - intros Hl. split; [now apply create_refused|]. split; [intros; now apply mkdir_refused|].
    split; [intros; now apply mkdirall_refused | intros; now apply openfile_refused].
  - intros q. now apply rename_refused.
Qed.

(* the simplest instance: the parent itself is a regular file *)
Lemma nearest_is_file_parent s k f n :
  lookup s (normalize_path (path_dir k)) = Some f -> get_node s f = Some n -> ndir n = false ->
  nearest_is_file s (path_dir k).
Proof. intros. now apply (nif_here s _ f n). Qed.
