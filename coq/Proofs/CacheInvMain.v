(* Proofs/CacheInvMain.v — C11: the invariant CInv of the caching filesystem over two MemMapFs layers is
   preserved by EVERY well-formed call, hence holds after every well-formed sequence of calls from the empty
   pair (or from any pair that satisfies it). *)
From AF Require Import Lib.Bytes Lib.Path Lib.Ops Gen.Consts Model.MemFile Model.MemFs Model.WfOps Model.Union Model.Cow
  Model.Cache Proofs.MemFsBasics Proofs.MemFsPath Proofs.MemFsWF Proofs.MemFsStep Proofs.MemFsInv
  Proofs.CacheProof Proofs.CacheInv Proofs.CacheFrames Proofs.CacheInvOps Proofs.CacheInvCopy Proofs.CacheInvPath.
Local Open Scope Z_scope.

(* a well-formed call through the cache: well-formed for the base (the ordinary POSIX preconditions of C01 on the
   base's current tree; handle reads with a buffer length >= 0), and not an OpenFile of a base directory that is
   not served as a hit (defect: copied like a file, EIO) *)
Definition cwf_op (dur now : Z) (st : mst * mst * list chandle) (o : op) : bool :=
  let '(sb, sl, _) := st in
  WfOps.wf_op sb o && match o with OpenFile p _ _ => openfile_dir_ok dur now sb sl p | _ => true end.

Theorem CInv_step dur now st o :
  CInv st -> cwf_op dur now st o = true -> CInv (fst (cache_step m_step m_step dur now st o)).
Proof.
  destruct st as [[sb sl] tbl]. intros C Hwf. unfold cwf_op in Hwf. apply andb_true_iff in Hwf as [Hwf Hx].
  destruct o.
  - now apply cinv_create.
  - now apply cinv_mkdir.
  - now apply cinv_mkdirall.
  - now apply cinv_open.
  - now apply cinv_openfile.
  - rewrite (cache_step_both m_step m_step dur now sb sl tbl (Remove p) eq_refl). now apply cinv_cache_both.
  - rewrite (cache_step_both m_step m_step dur now sb sl tbl (RemoveAll p) eq_refl). now apply cinv_cache_both.
  - rewrite (cache_step_both m_step m_step dur now sb sl tbl (Rename p q) eq_refl). now apply cinv_cache_both.
  - now apply cinv_stat.
  - rewrite (cache_step_both m_step m_step dur now sb sl tbl (Chmod p m) eq_refl). now apply cinv_cache_both.
  - rewrite (cache_step_both m_step m_step dur now sb sl tbl (Chown p u g) eq_refl). now apply cinv_cache_both.
  - rewrite (cache_step_both m_step m_step dur now sb sl tbl (Chtimes p t) eq_refl). now apply cinv_cache_both.
  - now apply (cinv_handle_op dur now sb sl tbl _ h).
  - now apply (cinv_handle_op dur now sb sl tbl _ h).
  - now apply (cinv_handle_op dur now sb sl tbl _ h).
  - now apply (cinv_handle_op dur now sb sl tbl _ h).
  - now apply (cinv_handle_op dur now sb sl tbl _ h).
  - now apply (cinv_handle_op dur now sb sl tbl _ h).
  - now apply (cinv_handle_op dur now sb sl tbl _ h).
  - now apply (cinv_handle_op dur now sb sl tbl _ h).
  - now apply (cinv_handle_op dur now sb sl tbl _ h).
  - now apply (cinv_handle_op dur now sb sl tbl _ h).
  - now apply (cinv_handle_op dur now sb sl tbl _ h).
  - now apply (cinv_handle_op dur now sb sl tbl _ h).
  - now apply (cinv_handle_op dur now sb sl tbl _ h).
Qed.

(* sequences: every call comes with the value time.Now() has during it *)
Fixpoint crun (dur : Z) (st : mst * mst * list chandle) (steps : list (Z * op)) : mst * mst * list chandle :=
  match steps with
  | [] => st
  | (now, o) :: r => crun dur (fst (cache_step m_step m_step dur now st o)) r
  end.
Fixpoint cwf_seq (dur : Z) (st : mst * mst * list chandle) (steps : list (Z * op)) : bool :=
  match steps with
  | [] => true
  | (now, o) :: r => cwf_op dur now st o && cwf_seq dur (fst (cache_step m_step m_step dur now st o)) r
  end.

Theorem CInv_run dur : forall steps st, CInv st -> cwf_seq dur st steps = true -> CInv (crun dur st steps).
Proof.
  induction steps as [|[now o] r IH]; intros st C Hwf; [exact C|].
  cbn [cwf_seq crun] in *. apply andb_true_iff in Hwf as [H1 H2]. apply IH; [now apply CInv_step | exact H2].
Qed.

(* after every call of a well-formed sequence: after every prefix *)
Theorem CInv_run_prefix dur steps1 steps2 st :
  CInv st -> cwf_seq dur st (steps1 ++ steps2) = true -> CInv (crun dur st steps1).
Proof.
  revert st. induction steps1 as [|[now o] r IH]; intros st C Hwf; [exact C|].
  cbn [app cwf_seq crun] in *. apply andb_true_iff in Hwf as [H1 H2]. apply IH; [now apply CInv_step | exact H2].
Qed.

(* C11: coherence of every UnionFile, alignment of every slot, every name of the cache layer in the base with
   identical content — after every well-formed sequence from any pair that satisfies the invariant *)
Theorem cache_coherent dur steps st :
  CInv st -> cwf_seq dur st steps = true ->
  Coh (crun dur st steps) /\ (forall i, Aligned (crun dur st steps) i) /\ LayerInBase (crun dur st steps).
Proof.
  intros C Hwf. pose proof (CInv_run dur steps st C Hwf) as C'.
  split; [now apply CInv_Coh|]. split; [intros i; now apply CInv_Aligned | now apply CInv_layer_in_base].
Qed.

Corollary cache_coherent_from_empty dur steps :
  cwf_seq dur (m_init, m_init, []) steps = true ->
  Coh (crun dur (m_init, m_init, []) steps) /\ (forall i, Aligned (crun dur (m_init, m_init, []) steps) i) /\
  LayerInBase (crun dur (m_init, m_init, []) steps).
Proof. apply cache_coherent. exact CInv_init. Qed.

(* ---------- other starting points: any well-formed base under an empty cache ---------- *)
Definition dirs_empty_b (s : mst) : bool :=
  forallb (fun kv => match get_node s (snd kv) with
                     | Some n => negb (ndir n) || match ndata n with [] => true | _ => false end
                     | None => true
                     end) (mdata s).

Lemma dirs_empty_b_spec s : dirs_empty_b s = true ->
  forall k r n, lookup s k = Some r -> get_node s r = Some n -> ndir n = true -> ndata n = [].
Proof.
  intros H k r n Hl Hn Hd. unfold dirs_empty_b in H. rewrite forallb_forall in H. specialize (H (k, r) (aget_in _ _ _ Hl)).
  cbn [snd] in H. rewrite Hn, Hd in H. cbn [negb orb] in H. now destruct (ndata n).
Qed.

Theorem CInv_fresh_cache sb : WF sb -> dirs_empty_b sb = true -> CInv (sb, m_init, []).
Proof.
  intros W Hde. destruct (g_root _ _ _ _ W) as (rb & nb & Hlb & Hnb & _ & Hdb).
  exists (fun r => match r with O => Some rb | _ => None end).
  assert (L : forall k r, lookup m_init k = Some r -> k = s_slash /\ r = 0%nat).
  { intros k r. unfold lookup, m_init. cbn. destruct (beqb k s_slash) eqn:E; [|discriminate].
    apply MemFsPath.beqb_eq in E. intros H. inversion H. auto. }
  split.
  - split; try exact WF_init; auto.
    + intros k rl H. destruct (L k rl H) as [-> ->]. exists rb. split; [reflexivity | exact Hlb].
    + intros rl x H. destruct rl; [|discriminate]. inversion H; subst x. exists root_node, nb. repeat split; auto.
      cbn. symmetry. exact (dirs_empty_b_spec sb Hde s_slash rb nb Hlb Hnb Hdb).
    + intros rl x k H Hb. destruct rl; [|discriminate]. inversion H; subst x.
      assert (k = s_slash) by (apply (GWF_inj _ _ _ sb k s_slash rb W); auto). subst k. reflexivity.
    + intros a b x Ha Hb. destruct a, b; try discriminate; reflexivity.
    + exact (dirs_empty_b_spec sb Hde).
  - split; intros i; destruct i; discriminate.
Qed.
