(* Proofs/CacheInvMain.v — C11: the invariant CInv of the caching filesystem over two MemMapFs layers is
   preserved by EVERY well-formed call, hence holds after every well-formed sequence of calls from the empty
   pair (or from any pair that satisfies it). *)
From AF Require Import Lib.Bytes Lib.Path Lib.Ops Gen.Consts Model.MemFile Model.MemFs Model.WfOps Model.Union Model.Cow
  Model.Cache Proofs.MemFsBasics Proofs.MemFsPath Proofs.MemFsWF Proofs.MemFsStep Proofs.MemFsInv
  Proofs.MemFsBelow Proofs.CacheProof Proofs.CacheInv Proofs.CacheFrames Proofs.CacheInvOps Proofs.CacheInvCopy Proofs.CacheInvPath.
Local Open Scope Z_scope.

(* a well-formed call through the cache: a call of the portable class of C01 for the BASE's current tree
   (WfOps.wf_op: the ordinary POSIX preconditions, handle reads with a buffer length >= 0, or a creating call
   whose name passes through a regular file — refused with ENOTDIR) *)
Definition cwf_op (dur now : Z) (st : mst * mst * list chandle) (o : op) : bool :=
  let '(sb, _, _) := st in WfOps.wf_op sb o.

Theorem CInv_step dur now st o :
  CInv st -> cwf_op dur now st o = true -> CInv (fst (cache_step m_step m_step dur now st o)).
Proof.
  destruct st as [[sb sl] tbl]. intros C Hwf. unfold cwf_op in Hwf.
  assert (Hcase : WfOps.wf_op_ord sb o = true \/ wf_below sb o = true) by (now apply wf_op_cases).
  assert (Hh : forall h, op_handle_of o = Some h -> WfOps.wf_op_ord sb o = true).
  { intros h Ho. rewrite <- (wf_op_handle sb o); [exact Hwf | congruence]. }
  destruct o; try (apply (cinv_handle_op dur now sb sl tbl _ h); [exact C | reflexivity | exact (Hh h eq_refl)]).
  - destruct Hcase as [H|H]; [now apply cinv_create | now apply cinv_below_create].
  - destruct Hcase as [H|H]; [now apply cinv_mkdir | now apply cinv_below_mkdir].
  - destruct Hcase as [H|H]; [now apply cinv_mkdirall | now apply cinv_below_mkdirall].
  - destruct Hcase as [H|H]; [now apply cinv_open | discriminate H].
  - destruct Hcase as [H|H]; [now apply cinv_openfile | now apply cinv_below_openfile].
  - rewrite (cache_step_both m_step m_step dur now sb sl tbl (Remove p) eq_refl). now apply cinv_cache_both.
  - rewrite (cache_step_both m_step m_step dur now sb sl tbl (RemoveAll p) eq_refl). now apply cinv_cache_both.
  - rewrite (cache_step_both m_step m_step dur now sb sl tbl (Rename p q) eq_refl). now apply cinv_cache_both.
  - now apply cinv_stat.
  - rewrite (cache_step_both m_step m_step dur now sb sl tbl (Chmod p m) eq_refl). now apply cinv_cache_both.
  - rewrite (cache_step_both m_step m_step dur now sb sl tbl (Chown p u g) eq_refl). now apply cinv_cache_both.
  - rewrite (cache_step_both m_step m_step dur now sb sl tbl (Chtimes p t) eq_refl). now apply cinv_cache_both.
Qed.

(* sequences: every call comes with the value time.Now() has during it *)
Fixpoint crun (dur : Z) (st : mst * mst * list chandle) (steps : list (Z * op)) : mst * mst * list chandle :=
  match steps with
  | [] => st
  | (now, o) :: r => crun dur (fst (cache_step m_step m_step dur now st o)) r
  end.
Fixpoint cwf_seq (dur : Z) (st : mst * mst * list chandle) (steps : list (Z * op)) : bool :=
  match steps with
  | [] => true
  | (now, o) :: r => cwf_op dur now st o && cwf_seq dur (fst (cache_step m_step m_step dur now st o)) r
  end.

Theorem CInv_run dur : forall steps st, CInv st -> cwf_seq dur st steps = true -> CInv (crun dur st steps).
Proof.
  induction steps as [|[now o] r IH]; intros st C Hwf; [exact C|].
  cbn [cwf_seq crun] in *. apply andb_true_iff in Hwf as [H1 H2]. apply IH; [now apply CInv_step | exact H2].
Qed.

(* after every call of a well-formed sequence: after every prefix *)
Theorem CInv_run_prefix dur steps1 steps2 st :
  CInv st -> cwf_seq dur st (steps1 ++ steps2) = true -> CInv (crun dur st steps1).
Proof.
  revert st. induction steps1 as [|[now o] r IH]; intros st C Hwf; [exact C|].
  cbn [app cwf_seq crun] in *. apply andb_true_iff in Hwf as [H1 H2]. apply IH; [now apply CInv_step | exact H2].
Qed.

(* C11: coherence of every UnionFile, alignment of every slot, every name of the cache layer in the base with
   identical content — after every well-formed sequence from any pair that satisfies the invariant *)
Theorem cache_coherent dur steps st :
  CInv st -> cwf_seq dur st steps = true ->
  Coh (crun dur st steps) /\ (forall i, Aligned (crun dur st steps) i) /\ LayerInBase (crun dur st steps).
Proof.
  intros C Hwf. pose proof (CInv_run dur steps st C Hwf) as C'.
  split; [now apply CInv_Coh|]. split; [intros i; now apply CInv_Aligned | now apply CInv_layer_in_base].
Qed.

Corollary cache_coherent_from_empty dur steps :
  cwf_seq dur (m_init, m_init, []) steps = true ->
  Coh (crun dur (m_init, m_init, []) steps) /\ (forall i, Aligned (crun dur (m_init, m_init, []) steps) i) /\
  LayerInBase (crun dur (m_init, m_init, []) steps).
Proof. apply cache_coherent. exact CInv_init. Qed.

(* ---------- other starting points: any well-formed base under an empty cache ---------- *)
Definition dirs_empty_b (s : mst) : bool :=
  forallb (fun kv => match get_node s (snd kv) with
                     | Some n => negb (ndir n) || match ndata n with [] => true | _ => false end
                     | None => true
                     end) (mdata s).

Lemma dirs_empty_b_spec s : dirs_empty_b s = true ->
  forall k r n, lookup s k = Some r -> get_node s r = Some n -> ndir n = true -> ndata n = [].
Proof.
  intros H k r n Hl Hn Hd. unfold dirs_empty_b in H. rewrite forallb_forall in H. specialize (H (k, r) (aget_in _ _ _ Hl)).
  cbn [snd] in H. rewrite Hn, Hd in H. cbn [negb orb] in H. now destruct (ndata n).
Qed.

Theorem CInv_fresh_cache sb : WF sb -> dirs_empty_b sb = true -> CInv (sb, m_init, []).
Proof.
  intros W Hde. destruct (g_root _ _ _ _ W) as (rb & nb & Hlb & Hnb & _ & Hdb).
  exists (fun r => match r with O => Some rb | _ => None end).
  assert (L : forall k r, lookup m_init k = Some r -> k = s_slash /\ r = 0%nat).
  { intros k r. unfold lookup, m_init. cbn. destruct (beqb k s_slash) eqn:E; [|discriminate].
    apply MemFsPath.beqb_eq in E. intros H. inversion H. auto. }
  split.
  - split; try exact WF_init; auto.
    + intros k rl H. destruct (L k rl H) as [-> ->]. exists rb. split; [reflexivity | exact Hlb].
    + intros rl x H. destruct rl; [|discriminate]. inversion H; subst x. exists root_node, nb. repeat split; auto.
      cbn. symmetry. exact (dirs_empty_b_spec sb Hde s_slash rb nb Hlb Hnb Hdb).
    + intros rl x k H Hb. destruct rl; [|discriminate]. inversion H; subst x.
      assert (k = s_slash) by (apply (GWF_inj _ _ _ sb k s_slash rb W); auto). subst k. reflexivity.
    + intros a b x Ha Hb. destruct a, b; try discriminate; reflexivity.
    + exact (dirs_empty_b_spec sb Hde).
  - split; intros i; destruct i; discriminate.
Qed.

(* ---------- C10 inside C11: in a state of the invariant the first read always succeeds ---------- *)
Theorem first_read_cinv sb sl tbl p fb nb :
  CInv (sb, sl, tbl) -> lookup sb (normalize_path p) = Some fb -> get_node sb fb = Some nb -> ndir nb = false ->
  exists sb' sl' fl nl, cache_copy_to_layer m_step m_step sb sl p = (sb', sl', None) /\
    lookup sl' (normalize_path p) = Some fl /\ get_node sl' fl = Some nl /\
    ndir nl = false /\ ndata nl = ndata nb /\ nmtime nl = nmtime nb /\ fs_view sb' = fs_view sb.
Proof.
  intros (phi & T & _) Hl Hn Hd.
  apply (CacheReady.first_read_total_wf_base sb sl p fb nb (ti_wfb _ _ _ T) Hl Hn Hd (ti_wfl _ _ _ T)).
  apply (nfp_base_layer sb sl phi (TreeInv_shape _ _ _ T)). exact (existing_nfp sb _ fb (ti_wfb _ _ _ T) Hl).
Qed.

(* ---------- "reading any file through the caching filesystem returns what the base holds" ---------- *)
(* Open of a regular file of the base through the cache returns a fresh slot of the table holding a layer-only,
   read-only handle at offset 0 on a regular file of the layer whose bytes are the base's *)
Definition serves (st' : mst * mst * list chandle) (r : res) (tbl : list chandle) (d : bytes) : Prop :=
  let '(_, sl', tbl') := st' in
  r = RHandle (length tbl) /\
  exists h fl nl, nth_error tbl' (length tbl) = Some (HL h) /\ nth_error (mhandles sl') h = Some (mkH fl 0 0 false true) /\
                  get_node sl' fl = Some nl /\ ndir nl = false /\ ndata nl = d.

Lemma open_layer_serves sb sl tbl p fl nl :
  lookup sl (normalize_path p) = Some fl -> get_node sl fl = Some nl -> ndir nl = false ->
  serves (fst (open_layer m_step sb sl tbl (Open p))) (snd (open_layer m_step sb sl tbl (Open p))) tbl (ndata nl).
Proof.
  intros Hl Hn Hd. unfold open_layer. rewrite (open_step sl p), Hl. unfold alloc_ch, ret. cbn [fst snd serves].
  split; [reflexivity|]. exists (length (mhandles sl)), fl, nl. split; [apply nth_error_app_last|].
  split; [apply (hnew_alloc sl (mkH fl 0 0 false true))|]. now repeat split.
Qed.

Theorem read_through_cache dur now sb sl tbl p fb nb :
  CInv (sb, sl, tbl) ->
  lookup sb (normalize_path p) = Some fb -> get_node sb fb = Some nb -> ndir nb = false ->
  serves (fst (cache_step m_step m_step dur now (sb, sl, tbl) (Open p)))
         (snd (cache_step m_step m_step dur now (sb, sl, tbl) (Open p))) tbl (ndata nb).
Proof.
  intros (phi & C) Hlb Hnb Hdb. cbn [cache_step]. set (key := normalize_path p) in *.
  destruct (status_mem dur now sb sl phi p (TreeInv_shape _ _ _ (proj1 C))) as (sb1 & sl1 & cs & fi & Est & Sb & Sl & Hcs).
  rewrite Est. pose proof (CInvP_view sb sl tbl phi sb1 sl1 Sb Sl C) as C1.
  (* the copy of this file from any state with the same tree as sb1, then the layer's Open *)
  assert (Hcopy : forall x, same3 sb1 x ->
            let y := match cache_copy_to_layer m_step m_step x sl1 p with
                     | (sb3, sl2, Some ce) => cret sb3 sl2 tbl (RErr ce)
                     | (sb3, sl2, None) => open_layer m_step sb3 sl2 tbl (Open p)
                     end in serves (fst y) (snd y) tbl (ndata nb)).
  { intros x Sx. assert (Cx : CInv (x, sl1, tbl)) by (exists phi; apply (CInvP_view sb1 sl1 tbl phi); [exact Sx | apply same3_refl | exact C1]).
    destruct (first_read_cinv x sl1 tbl p fb nb Cx) as (sb3 & sl2 & fl & nl & Ecp & Hl2 & Hn2 & Hd2 & Hdat2 & _); auto.
    - fold key. rewrite (same3_lookup _ _ _ Sx), (same3_lookup _ _ _ Sb). exact Hlb.
    - rewrite (same3_node _ _ _ Sx), (same3_node _ _ _ Sb). exact Hnb.
    - cbv zeta. rewrite Ecp. rewrite <- Hdat2. exact (open_layer_serves sb3 sl2 tbl p fl nl Hl2 Hn2 Hd2). }
  destruct cs.
  - (* miss *)
    rewrite (step_stat_full sb1 p (ti_wfb _ _ _ (proj1 C1))). fold key. rewrite (same3_lookup _ _ _ Sb), Hlb, (same3_node _ _ _ Sb), Hnb.
    cbn [fi_dir finfo_of]. rewrite Hdb. exact (Hcopy (bump sb1) (same3_bump sb1)).
  - (* stale *)
    destruct Hcs as (rl & nl & f & Hl & Hnl & -> & Hfd). fold key in Hl.
    assert (Hdl : ndir nl = false).
    { destruct (ti_key _ _ _ (proj1 C) key rl Hl) as (rb & Hp & Hb). destruct (ti_pair _ _ _ (proj1 C) rl rb Hp) as (x & y & Hx & Hy & Hk & _).
      assert (rb = fb) by congruence. subst rb. congruence. }
    rewrite Hfd, Hdl. cbn [negb]. exact (Hcopy sb1 (same3_refl sb1)).
  - (* hit *)
    destruct Hcs as (rl & nl & f & Hl & Hnl & -> & Hfd). fold key in Hl.
    destruct (ti_key _ _ _ (proj1 C) key rl Hl) as (rb & Hp & Hb). destruct (ti_pair _ _ _ (proj1 C) rl rb Hp) as (x & y & Hx & Hy & Hk & Hdat).
    assert (rb = fb) by congruence. subst rb. rewrite Hnl in Hx. rewrite Hnb in Hy. inversion Hx; inversion Hy; subst x y.
    rewrite Hfd, Hk, Hdb. cbn [negb]. rewrite <- Hdat.
    apply (open_layer_serves sb1 sl1 tbl p rl nl); [fold key; now rewrite (same3_lookup _ _ _ Sl) | now rewrite (same3_node _ _ _ Sl) | congruence].
  - destruct Hcs.
Qed.

(* ... and the first Read on that slot returns the base's bytes (as many as the buffer takes) *)
Theorem read_after_open dur now st' r tbl d n :
  serves st' r tbl d -> d <> [] -> 0 < n ->
  snd (cache_step m_step m_step dur now st' (HRead (length tbl) n)) = RData (slice d 0 (Z.min n (zlen d))) None.
Proof.
  destruct st' as [[sb' sl'] tbl']. intros (_ & h & fl & nl & Ht & Hh & Hn & _ & Hd) Hne Hn0.
  rewrite (layer_handle_ops m_step m_step dur now sb' sl' tbl' (HRead (length tbl) n) (length tbl) h eq_refl Ht).
  cbn [op_set_handle]. rewrite (mstep_hread sl' h (mkH fl 0 0 false true) nl n Hh Hn). cbn [snd].
  assert (Hz : 0 < zlen (ndata nl)).
  { rewrite Hd. destruct d as [|c d']; [contradiction|]. unfold zlen. cbn [length]. lia. }
  rewrite (f_read_more (ndata nl) (mkH fl 0 0 false true) n eq_refl) by (cbn [hat]; lia).
  cbn [snd hat]. rewrite Hd, Z.add_0_l, Z.sub_0_r. reflexivity.
Qed.

(* ---------- any coherent pair under an empty table satisfies the invariant ---------- *)
Theorem CInv_of_coherent sb sl :
  WF sb -> WF sl -> dirs_empty_b sb = true -> LayerInBase (sb, sl, []) -> CInv (sb, sl, []).
Proof.
  intros Wb Wl Hde Hlib. cbn [LayerInBase] in Hlib.
  exists (fun rl => match key_of sl rl with Some k => lookup sb k | None => None end).
  assert (Hphi : forall rl rb, match key_of sl rl with Some k => lookup sb k | None => None end = Some rb ->
                   exists k, lookup sl k = Some rl /\ lookup sb k = Some rb).
  { intros rl rb H. destruct (key_of sl rl) as [k|] eqn:E; [|discriminate]. exists k. split; [now apply key_of_lookup | exact H]. }
  split.
  - split; auto.
    + intros k rl Hl. destruct (GWF_lookup_node _ _ _ _ _ _ Wl Hl) as (nl & Hnl).
      destruct (Hlib k rl nl Hl Hnl) as (rb & nb & Hb & _). exists rb. split; [|exact Hb]. now rewrite (lookup_key_of sl rl k Wl Hl).
    + intros rl rb H. destruct (Hphi rl rb H) as (k & Hl & Hb). destruct (GWF_lookup_node _ _ _ _ _ _ Wl Hl) as (nl & Hnl).
      destruct (Hlib k rl nl Hl Hnl) as (rb' & nb & Hb' & Hnb & Hd & Hdat). assert (rb' = rb) by congruence. subst rb'.
      exists nl, nb. repeat split; auto.
    + intros rl rb k H Hb. destruct (Hphi rl rb H) as (k' & Hl & Hb'). assert (k = k') by (apply (GWF_inj _ _ _ sb k k' rb Wb); auto). now subst k'.
    + intros a b x Ha Hb. destruct (Hphi a x Ha) as (ka & Hla & Hba). destruct (Hphi b x Hb) as (kb & Hlb & Hbb).
      assert (ka = kb) by (apply (GWF_inj _ _ _ sb ka kb x Wb); auto). subst kb. congruence.
    + exact (dirs_empty_b_spec sb Hde).
  - split; intros i; destruct i; discriminate.
Qed.
