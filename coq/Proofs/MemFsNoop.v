(* Proofs/MemFsNoop.v — a failed call changes nothing: if a well-formed call on a WF state returns
   an error (or would panic), the path map and every node are exactly what they were. *)
From AF Require Import Lib.Bytes Lib.Path Lib.Ops Gen.Consts Model.MemFile Model.MemFs Model.WfOps
  Proofs.BytesLemmas Proofs.MemFsPath Proofs.MemFsBasics Proofs.MemFsWF Proofs.MemFsStep Proofs.MemFsRename Proofs.MemFsBelow.
Local Open Scope Z_scope.

Lemma f_write_err data h b : res_is_err (snd (f_write data h b)) = true -> fst (fst (f_write data h b)) = None.
Proof.
  unfold f_write. repeat match goal with |- context [if ?c then _ else _] => destruct c end; cbn; auto; discriminate.
Qed.
Lemma f_writeat_err data h b off : res_is_err (snd (f_writeat data h b off)) = true -> fst (fst (f_writeat data h b off)) = None.
Proof.
  unfold f_writeat. destruct (off <? 0); [reflexivity|].
  pose proof (f_write_err data (set_at h off) b) as H. destruct (f_write data (set_at h off) b) as [[d h1] r]. exact H.
Qed.
Lemma f_truncate_err data h n : res_is_err (snd (f_truncate data h n)) = true -> fst (f_truncate data h n) = None.
Proof.
  unfold f_truncate. repeat match goal with |- context [if ?c then _ else _] => destruct c end; cbn; auto; discriminate.
Qed.

Lemma view_m_hop s i k :
  (forall h nd, res_is_err (snd (k h nd)) = true -> fs_view (fst (k h nd)) = fs_view s) ->
  res_is_err (snd (m_hop s i k)) = true -> fs_view (fst (m_hop s i k)) = fs_view s.
Proof.
  intros Hk. unfold m_hop. destruct (nth_error (mhandles s) i) as [h|]; [|reflexivity].
  destruct (get_node s (href h)) as [nd|]; [apply Hk | reflexivity].
Qed.

Lemma view_readdir s i h n : fs_view (fst (fst (m_readdir s i h n))) = fs_view s.
Proof.
  unfold m_readdir. destruct (get_node s (href h)) as [nd|]; [|reflexivity]. destruct (negb (ndir nd)); reflexivity.
Qed.

Lemma set_file_mode_ok s k m f : canon k -> lookup s k = Some f -> snd (set_file_mode s k m) = ROk.
Proof. intros Hc Hl. now rewrite (set_file_mode_canon s k m f Hc Hl). Qed.

Lemma failed_raw s o : WF s -> wf_op s o = true ->
  res_is_err (snd (m_step_raw s o)) = true -> fs_view (fst (m_step_raw s o)) = fs_view s.
Proof.
  intros W Hwf. apply wf_op_cases in Hwf as [Hwf | Hb]; [|now rewrite (below_raw s o W Hb)].
  destruct o; cbn [m_step_raw].
  - (* Create *) unfold m_create. cbv zeta.
    match goal with |- context [match ?x with Some _ => _ | None => (s, RErr _) end] => destruct x as [[s1 f]|] end.
    + destruct (alloc_handle s1 _) as [s2 h]. discriminate.
    + reflexivity.
  - (* Mkdir *) cbn [wf_op_ord] in Hwf. apply andb_true_iff in Hwf as [Hn Hwf].
    destruct (lookup s (normalize_path p)) as [f|] eqn:Hl.
    + unfold m_mkdir. rewrite Hl. reflexivity.
    + assert (Hc0 : canon (normalize_path p)) by now apply canon_normalize.
      rewrite (m_mkdir_missing s p perm Hl (below_file_dir_parent s _ Hc0 Hwf)). cbv zeta.
      set (k := normalize_path p) in *. assert (Hc : canon k) by now apply canon_normalize.
      destruct (reg_new_present s k (mkdir_node k (Z.land perm chmod_bits) (mclock s)) (Z.land perm chmod_bits) W Hc Hl)
        as (q & Hq & -> & W'); auto.
      rewrite (set_file_mode_ok _ k _ (length (mheap s)) Hc); [discriminate|].
      rewrite lookup_upd, lookup_put_new, beqb_refl. reflexivity.
  - (* MkdirAll *) cbn [wf_op_ord] in Hwf. apply andb_true_iff in Hwf as [Hn Hwf].
    unfold m_mkdirall. destruct (lookup s (normalize_path p)) as [f|] eqn:Hl.
    + unfold m_mkdir. rewrite Hl. cbn. discriminate.
    + assert (Hc0 : canon (normalize_path p)) by now apply canon_normalize.
      rewrite (m_mkdir_missing s p perm Hl (below_file_prefixes_dirs s _ W Hc0 Hwf)). cbv zeta.
      set (k := normalize_path p) in *. assert (Hc : canon k) by now apply canon_normalize.
      destruct (WF_mkdir_chain s k (Z.land perm chmod_bits) W Hc Hl Hwf) as [W' F].
      match goal with |- context [set_file_mode ?a ?b ?c] =>
        pose proof (set_file_mode_canon a b c (length (mheap s)) Hc) as E end.
      rewrite E; [discriminate|]. apply (rf_keep _ _ _ _ F). rewrite lookup_put_new, beqb_refl. reflexivity.
  - (* Open *) unfold m_open. destruct (lookup s (normalize_path p)); [discriminate | reflexivity].
  - (* OpenFile *) cbn [wf_op_ord] in Hwf. apply andb_true_iff in Hwf as [Hn Hwf]. apply andb_true_iff in Hn as [Hn _].
    set (k := normalize_path p) in *. assert (Hc : canon k) by now apply canon_normalize.
    unfold m_openfile. fold k.
    assert (Hdead : flag_has flag o_trunc && flag_has flag (Z.lor o_rdwr o_wronly) && (Z.land flag memfs_access_mask =? 0) = false).
    { destruct (Z.land flag memfs_access_mask =? 0) eqn:E; [|apply andb_false_r]. apply Z.eqb_eq in E.
      unfold flag_has at 2. change (Z.lor o_rdwr o_wronly) with memfs_access_mask. rewrite E. cbn. now rewrite andb_false_r. }
    destruct (lookup s k) as [f|] eqn:Hl.
    + destruct (flag_has flag o_excl && flag_has flag o_create); [reflexivity|]. cbv zeta. rewrite Hdead.
      destruct (alloc_handle _ _) as [s3 h]. discriminate.
    + destruct (flag_has flag o_create) eqn:Hcr; [|reflexivity].
      assert (Hk : kind_at s k = None) by (unfold kind_at; now rewrite Hl). rewrite Hk in Hwf.
      rewrite (below_file_dir_parent s k Hc Hwf).
      rewrite m_create_node_eq.
      destruct (reg_new_present s k (new_file k (mclock s)) 0 W Hc Hl) as (q & Hq & -> & W'); auto.
      cbv zeta. rewrite Hdead.
      match goal with |- context [alloc_handle ?a ?b] => set (s2 := a); set (hh := b) end.
      assert (Hl3 : lookup (fst (alloc_handle s2 hh)) k = Some (length (mheap s))).
      { unfold alloc_handle, lookup. cbn [fst mdata]. fold (lookup s2 k). unfold s2.
        destruct (flag_has flag o_trunc && flag_has flag (Z.lor o_rdwr o_wronly) && negb (Z.land flag memfs_access_mask =? 0));
          rewrite ?lookup_upd, lookup_put_new, beqb_refl; reflexivity. }
      destruct (alloc_handle s2 hh) as [s3 h]. cbn [fst] in Hl3.
      rewrite (set_file_mode_canon s3 k _ _ Hc Hl3). discriminate.
  - (* Remove *) cbn [wf_op_ord] in Hwf. apply andb_true_iff in Hwf as [Hn Hwf]. apply andb_true_iff in Hn as [Hn Hroot].
    set (k := normalize_path p) in *. apply negb_true_iff, beqb_neq in Hroot.
    unfold m_remove. fold k. destruct (lookup s k) as [f|] eqn:Hl; [|reflexivity].
    destruct (GWF_unregister kempty kempty kempty s k f W Hl (WF_fresh s k f W Hl) Hroot) as (q & qn & _ & _ & _ & Hun & _); [intros [] | intros [] |].
    rewrite Hun. discriminate.
  - (* RemoveAll *) cbn [wf_op_ord] in Hwf. apply andb_true_iff in Hwf as [Hn Hwf]. apply andb_true_iff in Hn as [Hn Hroot].
    set (k := normalize_path p) in *. assert (Hc : canon k) by now apply canon_normalize. apply negb_true_iff, beqb_neq in Hroot.
    unfold m_removeall. fold k. destruct (lookup s k) as [f|] eqn:Hl.
    + destruct (GWF_unregister kempty kempty kempty s k f W Hl (WF_fresh s k f W Hl) Hroot) as (q & qn & _ & _ & _ & Hun & _); [intros [] | intros [] |].
      rewrite Hun. discriminate.
    + assert (Hun : unregister s k = Some (s, false)) by (unfold unregister; now rewrite (lockfree_open_canon s k Hc), Hl).
      rewrite Hun. discriminate.
  - (* Rename *) destruct (WF_rename s p q W Hwf) as [_ Hok].
    destruct (lookup s (normalize_path p)) as [f|] eqn:Hl.
    + rewrite Hok by congruence. discriminate.
    + unfold m_rename. rewrite Hl. match goal with |- context [if ?c then _ else _] => destruct c end; reflexivity.
  - (* Stat *) unfold m_stat. destruct (lookup s (normalize_path p)) as [f|]; [|reflexivity]. destruct (get_node s f); reflexivity.
  - (* Chmod *) cbn [wf_op_ord] in Hwf. apply andb_true_iff in Hwf as [Hn _].
    unfold m_chmod. destruct (lookup s (normalize_path p)) as [f|] eqn:Hl; [|reflexivity].
    rewrite (set_file_mode_ok s _ _ f (canon_normalize p Hn) Hl). discriminate.
  - (* Chown *) unfold m_chown. destruct (lookup s (normalize_path p)); [discriminate | reflexivity].
  - (* Chtimes *) unfold m_chtimes. destruct (lookup s (normalize_path p)); [discriminate | reflexivity].
  - (* HRead *) apply view_m_hop. intros hd nd _. destruct (f_read (ndata nd) hd n). reflexivity.
  - (* HReadAt *) apply view_m_hop. intros hd nd _. destruct (f_readat (ndata nd) hd n off). reflexivity.
  - (* HWrite *) apply view_m_hop. intros hd nd. pose proof (f_write_err (ndata nd) hd b) as E.
    destruct (f_write (ndata nd) hd b) as [[d h'] r]. cbn [fst snd] in *. intros Hr. rewrite (E Hr). reflexivity.
  - (* HWriteAt *) apply view_m_hop. intros hd nd. pose proof (f_writeat_err (ndata nd) hd b off) as E.
    destruct (f_writeat (ndata nd) hd b off) as [[d h'] r]. cbn [fst snd] in *. intros Hr. rewrite (E Hr). reflexivity.
  - (* HWriteString *) apply view_m_hop. intros hd nd. pose proof (f_write_err (ndata nd) hd b) as E.
    destruct (f_write (ndata nd) hd b) as [[d h'] r]. cbn [fst snd] in *. intros Hr. rewrite (E Hr). reflexivity.
  - (* HSeek *) apply view_m_hop. intros hd nd _. destruct (f_seek (ndata nd) hd off whence). reflexivity.
  - (* HTruncate *) apply view_m_hop. intros hd nd. pose proof (f_truncate_err (ndata nd) hd n) as E.
    destruct (f_truncate (ndata nd) hd n) as [d r]. cbn [fst snd] in *. intros Hr. rewrite (E Hr). reflexivity.
  - (* HClose *) apply view_m_hop. intros hd nd. destruct (hclosed hd); [reflexivity | discriminate].
  - (* HReaddir *) apply view_m_hop. intros hd nd _. pose proof (view_readdir s h hd n) as E.
    destruct (m_readdir s h hd n) as [[s1 infos] e]. cbn [fst] in E.
    destruct e as [er|]; [destruct infos; [destruct (errk_eqb (ek er) KEOF)|]|]; exact E.
  - (* HReaddirnames *) apply view_m_hop. intros hd nd _. pose proof (view_readdir s h hd n) as E.
    destruct (m_readdir s h hd n) as [[s1 infos] e]. cbn [fst] in E.
    destruct e as [er|]; [destruct infos; [destruct (errk_eqb (ek er) KEOF)|]|]; exact E.
  - apply view_m_hop. reflexivity.
  - apply view_m_hop. reflexivity.
  - apply view_m_hop. reflexivity.
Qed.

Theorem failed_call_is_noop s o : WF s -> wf_op s o = true ->
  res_is_err (snd (m_step s o)) = true -> fs_view (fst (m_step s o)) = fs_view s.
Proof.
  intros W Hwf. pose proof (failed_raw s o W Hwf) as H. unfold m_step.
  destruct (m_step_raw s o) as [s1 r]. exact H.
Qed.
