(* Proofs/CacheReady.v — C10: the sane-state hypothesis [layer_ready] of the first-read theorem, discharged
   for EVERY well-formed state of the cache layer (the invariant WF of C01, Proofs/MemFsWF.v: holds in every
   state reachable by well-formed programs, MemFsInv.wf_seq_WF) and EVERY name that is absolute after
   normalisation and is not the root, provided the layer holds no regular file at a proper ancestor of the
   name.  In that last situation (the one corner) copyFile's Create answers ENOTDIR and nothing is copied:
   [copy_below_file_refused]. *)
From AF Require Import Lib.Bytes Lib.Path Lib.Ops Gen.Consts Model.MemFile Model.MemFs Model.WfOps Model.Union Model.Cow
  Model.Cache Proofs.MemFsBasics Proofs.MemFsPath Proofs.MemFsWF Proofs.MemBelow Proofs.MemFsStep Proofs.MemFsInv
  Proofs.MemBelowRefused Proofs.MemFsBelow Proofs.CacheProof Proofs.CopyFailedCreate.
From AF Require Proofs.FaultyMem.
Local Open Scope Z_scope.

Lemma copyfile_cleans_name_is_1 : copyfile_cleans_name = 1. Proof. reflexivity. Qed.

(* a call that satisfies the ordinary preconditions keeps the invariant of MemMapFs *)
Lemma WF_step_ord s o : WF s -> wf_op_ord s o = true -> WF (fst (m_step s o)).
Proof. intros W H. apply WF_step; [exact W | now apply wf_op_of_ord]. Qed.

(* ---------- names ---------- *)
(* a name that is absolute after normalisation and is not the root: its clean form is its key, the
   directory copyFile prepares is the key's parent *)
Lemma wf_name_clean name : wf_name name = true -> normalize_path name <> s_slash -> clean name = normalize_path name.
Proof.
  intros Hw Hr. unfold normalize_path in *. destruct (is_dot (clean name) || is_dotdot (clean name)); [|reflexivity].
  now contradiction Hr.
Qed.

Lemma copy_dir_key name : wf_name name = true -> normalize_path name <> s_slash ->
  copy_dir name = par (normalize_path name).
Proof.
  intros Hw Hr. unfold copy_dir. rewrite copyfile_cleans_name_is_1. cbn [Z.eqb Pos.eqb].
  rewrite (wf_name_clean name Hw Hr). reflexivity.
Qed.

Lemma parent_key_par k : canon k -> parent_key k = par k.
Proof. intros Hc. unfold parent_key. now apply find_parent_path. Qed.

(* ---------- bump (the clock tick of one API call) keeps everything the statements look at ---------- *)
Lemma WF_bump s : WF s -> WF (bump s).
Proof. apply WF_view; reflexivity. Qed.
Lemma lookup_bump s k : lookup (bump s) k = lookup s k. Proof. reflexivity. Qed.
Lemma get_node_bump s r : get_node (bump s) r = get_node s r. Proof. reflexivity. Qed.
Lemma kind_at_bump s k : kind_at (bump s) k = kind_at s k. Proof. reflexivity. Qed.

Lemma WF_wf_map s : WF s -> wf_map s.
Proof. intros W k v H. exact (GWF_lt _ _ _ _ _ _ W H). Qed.

(* ---------- Create where the name is free or a directory, the parent entry a directory ---------- *)
(* generalises CacheProof.create_ok_new: the name may also be bound to a directory (MemMapFs then binds it to a
   new regular file) *)
Lemma create_ok_free s name p pn :
  wf_map s -> is_file_at s (normalize_path name) = false -> (forall r, lookup s (normalize_path name) = Some r -> get_node s r <> None) ->
  parent_key (normalize_path name) <> normalize_path name ->
  lookup s (parent_key (normalize_path name)) = Some p -> get_node s p = Some pn -> ndir pn = true ->
  CreateOK s name.
Proof.
  intros Hwf Hnf Hnode Hne Hp Hpn Hpd. set (key := normalize_path name) in *.
  assert (Hpf : p <> length (mheap s)) by (pose proof (Hwf _ _ Hp); lia).
  unfold CreateOK. rewrite m_step_bump. cbn [m_step_raw]. unfold m_create. fold key.
  assert (Hex : match lookup s key with
                | Some f => match get_node s f with Some n => if ndir n then None else Some f | None => None end
                | None => None
                end = None).
  { unfold is_file_at, kind_at in Hnf. destruct (lookup s key) as [f|]; [|reflexivity].
    destruct (get_node s f) as [n|]; [|reflexivity]. destruct (ndir n); [reflexivity | discriminate Hnf]. }
  rewrite Hex, (below_file_parent_dir s key p pn Hp Hpn Hpd).
  unfold m_create_node, alloc_node. cbn [fst snd].
  set (f := length (mheap s)) in *.
  set (s2 := set_data _ _).
  assert (Hgf : get_node s2 f = Some (new_file key (mclock s))).
  { unfold s2, set_data, get_node. cbn [mheap]. apply nth_error_app_last. }
  assert (Hfp : find_parent s2 f = Some p).
  { unfold find_parent, node_name. rewrite Hgf. cbn [nname new_file]. unfold lockfree_open, lookup, s2, set_data. cbn [mdata].
    fold (parent_key key). rewrite alist_get_set_neq by exact Hne. exact Hp. }
  unfold reg. cbn [register]. rewrite Hfp. unfold add_kid.
  set (s3 := upd_node s2 p _).
  cbn [alloc_handle fst snd].
  eexists. exists (length (mhandles s3)), f, (new_file key (mclock s)).
  split; [reflexivity|]. repeat split.
  - unfold bump. cbn [mhandles]. apply nth_error_app_last.
  - unfold bump, get_node. cbn [mheap]. change (get_node s3 f = Some (new_file key (mclock s))).
    unfold s3. rewrite get_node_upd_neq by congruence. exact Hgf.
  - unfold bump, lookup. cbn [mdata]. unfold s3. rewrite CacheProof.mdata_upd. unfold s2, set_data. cbn [mdata].
    apply alist_get_set_eq.
Qed.

(* Create in a well-formed layer whose entry for the parent of the name is a directory: whatever the name is
   bound to (nothing, a regular file, a directory) *)
Lemma create_ok_wf s name :
  WF s -> wf_name name = true -> normalize_path name <> s_slash ->
  is_dir_at s (par (normalize_path name)) = true -> CreateOK s name.
Proof.
  intros W Hw Hr Hd. set (key := normalize_path name) in *.
  assert (Hc : canon key) by (apply canon_normalize; exact Hw).
  apply is_dir_at_true in Hd as (p & pn & Hp & Hpn & Hpd).
  destruct (is_file_at s key) eqn:Hf.
  - unfold is_file_at in Hf. destruct (kind_at s key) as [[|]|] eqn:Hk; try discriminate Hf.
    apply kind_at_some in Hk as (r & n & Hl & Hn & Hnd). exact (create_ok_cached s name r n Hl Hn Hnd).
  - apply (create_ok_free s name p pn); fold key.
    + now apply WF_wf_map.
    + exact Hf.
    + intros r Hl. destruct (GWF_lookup_node _ _ _ _ _ _ W Hl) as (n & Hn). congruence.
    + rewrite (parent_key_par key Hc). now apply par_neq.
    + rewrite (parent_key_par key Hc). exact Hp.
    + exact Hpn.
    + exact Hpd.
Qed.

(* ---------- no regular file on the way to the name ---------- *)
(* every entry of the layer at a proper ancestor of k is a directory *)
Lemma no_file_prefix_dir s a k r : WF s -> no_file_prefix s k = true -> below a k = true -> lookup s a = Some r ->
  is_dir_at s a = true.
Proof.
  intros W Hn Hb Hl. unfold no_file_prefix in Hn.
  pose proof (forallb_lookup _ s a r tt Hn Hl) as Hf. cbn [fst] in Hf. rewrite Hb in Hf. cbn [andb] in Hf.
  destruct (GWF_lookup_node _ _ _ _ _ _ W Hl) as (n & Hg).
  unfold is_file_at, is_dir_at, kind_at in *. rewrite Hl, Hg in *. now destruct (ndir n).
Qed.

Lemma root_is_dir s : WF s -> is_dir_at s s_slash = true.
Proof.
  intros W. destruct (g_root _ _ _ _ W) as (r & n & Hl & Hn & _ & Hd). unfold is_dir_at, kind_at. now rewrite Hl, Hn, Hd.
Qed.

(* the entry at the parent of k, when there is one, is a directory *)
Lemma no_file_prefix_parent s k r : WF s -> canon k -> k <> s_slash -> no_file_prefix s k = true ->
  lookup s (par k) = Some r -> is_dir_at s (par k) = true.
Proof.
  intros W Hc Hr Hn Hl. destruct (str_eq_dec (par k) s_slash) as [E|E].
  - rewrite E. now apply root_is_dir.
  - apply (no_file_prefix_dir s (par k) k r W Hn); [now apply below_par | exact Hl].
Qed.

(* every existing prefix of the parent of k, the parent included, is a directory: MkdirAll's precondition *)
Lemma no_file_prefix_prefixes_dirs s k : WF s -> canon k -> k <> s_slash -> no_file_prefix s k = true ->
  prefixes_dirs s (par k) = true.
Proof.
  intros W Hc Hr Hn. unfold prefixes_dirs. apply forallb_forall. intros [a r] Hin. cbn [fst].
  assert (Hl : lookup s a = Some r) by (apply in_aget; [exact (g_nodup _ _ _ _ W) | exact Hin]).
  destruct (beqb a (par k) || below a (par k)) eqn:E; [|reflexivity]. cbn [negb orb].
  apply orb_true_iff in E as [E|E].
  - apply beqb_eq in E. subst a. now apply (no_file_prefix_parent s k r).
  - assert (Hpr : par k <> s_slash).
    { intros Hq. rewrite Hq in E. pose proof (g_canon _ _ _ _ W a r Hl) as Ha. now apply (below_not_root a s_slash Ha E). }
    apply (no_file_prefix_dir s a k r W Hn); [|exact Hl].
    eapply below_trans; [exact E | now apply below_par].
Qed.

(* ---------- copyFile's directory preparation on a well-formed layer ---------- *)
Lemma stat_found s p f n : lookup s (normalize_path p) = Some f -> get_node s f = Some n ->
  m_step s (Stat p) = (bump s, RInfo (finfo_of n)).
Proof. apply mstep_stat. Qed.
Lemma stat_missing s p : lookup s (normalize_path p) = None -> m_step s (Stat p) = (bump s, RErr (EW KNotExist)).
Proof. intros Hl. rewrite m_step_bump. cbn [m_step_raw]. unfold m_stat. now rewrite Hl. Qed.

Theorem dir_prep_wf sl name :
  WF sl -> wf_name name = true -> normalize_path name <> s_slash ->
  no_file_prefix sl (normalize_path name) = true ->
  snd (dir_prep sl name) = None /\ WF (fst (dir_prep sl name)) /\
  is_dir_at (fst (dir_prep sl name)) (par (normalize_path name)) = true.
Proof.
  intros W Hw Hr Hn. set (key := normalize_path name) in *.
  assert (Hc : canon key) by (apply canon_normalize; exact Hw).
  assert (Hcp : canon (par key)) by now apply canon_par.
  unfold dir_prep, l_exists. rewrite (copy_dir_key name Hw Hr). fold key.
  destruct (lookup sl (par key)) as [p|] eqn:Hp.
  - (* the directory is there *)
    destruct (GWF_lookup_node _ _ _ _ _ _ W Hp) as (pn & Hpn).
    rewrite (stat_found sl (par key) p pn) by (try rewrite (canon_norm _ Hcp); assumption). cbn [fst snd].
    split; [reflexivity|]. split; [now apply WF_bump|].
    change (is_dir_at (bump sl) (par key)) with (is_dir_at sl (par key)). now apply (no_file_prefix_parent sl key p).
  - (* it is not: MkdirAll of it, which creates it and its missing ancestors *)
    rewrite (stat_missing sl (par key)) by (rewrite (canon_norm _ Hcp); assumption).
    cbn [is_not_exist ek EW errk_eqb].
    assert (Hwfop : wf_op_ord (bump sl) (MkdirAll (par key) 511) = true).
    { cbn [wf_op_ord]. unfold wf_name. rewrite (canon_norm _ Hcp). destruct Hcp as [_ Hrt]. rewrite Hrt. cbn [andb].
      exact (no_file_prefix_prefixes_dirs sl key W Hc Hr Hn). }
    pose proof (WF_step_ord (bump sl) (MkdirAll (par key) 511) (WF_bump sl W) Hwfop) as W'.
    assert (Hbf : below_file (bump sl) (normalize_path (par key)) = false).
    { rewrite (canon_norm _ Hcp). apply (below_file_prefixes_dirs (bump sl) (par key) (WF_bump sl W) Hcp).
      exact (no_file_prefix_prefixes_dirs sl key W Hc Hr Hn). }
    assert (Hl0 : lookup (bump sl) (normalize_path (par key)) = None) by (rewrite (canon_norm _ Hcp); exact Hp).
    destruct (FaultyMem.mkdirall_fresh (bump sl) (par key) 511 Hl0 Hbf) as (s' & Hst & _ & (item & nd & Hli & Hgi & Hdi & _) & _).
    change FaultyMem.bump with bump in Hst.
    rewrite Hst in *. cbn [fst snd] in *. split; [reflexivity|]. split; [exact W'|].
    rewrite (canon_norm _ Hcp) in Hli. unfold is_dir_at, kind_at. rewrite lookup_bump, Hli, get_node_bump, Hgi, Hdi. reflexivity.
Qed.

(* C10: the sane-state hypothesis holds — the preparation succeeds and Create then behaves *)
Theorem layer_ready_wf sl name :
  WF sl -> wf_name name = true -> normalize_path name <> s_slash ->
  no_file_prefix sl (normalize_path name) = true ->
  snd (dir_prep sl name) = None /\ CreateOK (fst (dir_prep sl name)) name.
Proof.
  intros W Hw Hr Hn. destruct (dir_prep_wf sl name W Hw Hr Hn) as (Hp & W' & Hd).
  split; [exact Hp|]. now apply create_ok_wf.
Qed.

Corollary layer_ready_holds sl name :
  WF sl -> wf_name name = true -> normalize_path name <> s_slash ->
  no_file_prefix sl (normalize_path name) = true -> layer_ready sl name.
Proof. intros W Hw Hr Hn _. exact (proj2 (layer_ready_wf sl name W Hw Hr Hn)). Qed.

(* C10, first read, without a hypothesis on what the layer's Create does: the copy the cache makes of a regular
   base file SUCCEEDS and leaves the base's bytes under the base's mtime, for every file size, every
   well-formed layer state and every directory depth (missing directories are created) *)
Theorem first_read_total sb sl name fb nb :
  lookup sb (normalize_path name) = Some fb -> get_node sb fb = Some nb -> ndir nb = false ->
  WF sl -> wf_name name = true -> normalize_path name <> s_slash ->
  no_file_prefix sl (normalize_path name) = true ->
  exists sb' sl' fl nl, cache_copy_to_layer m_step m_step sb sl name = (sb', sl', None) /\
    lookup sl' (normalize_path name) = Some fl /\ get_node sl' fl = Some nl /\
    ndir nl = false /\ ndata nl = ndata nb /\ nmtime nl = nmtime nb /\ fs_view sb' = fs_view sb.
Proof.
  intros Hl Hg Hd W Hw Hr Hn. destruct (layer_ready_wf sl name W Hw Hr Hn) as [Hp Hc].
  exact (cache_copy_correct sb sl name fb nb Hl Hg Hd Hp Hc).
Qed.

Theorem first_read_union_total sb sl name fb nb :
  lookup sb (normalize_path name) = Some fb -> get_node sb fb = Some nb -> ndir nb = false ->
  WF sl -> wf_name name = true -> normalize_path name <> s_slash ->
  no_file_prefix sl (normalize_path name) = true ->
  exists sb' sl' fl nl, copy_to_layer m_step m_step sb sl name = (sb', sl', None) /\
    lookup sl' (normalize_path name) = Some fl /\ get_node sl' fl = Some nl /\
    ndir nl = false /\ ndata nl = ndata nb /\ nmtime nl = nmtime nb /\ fs_view sb' = fs_view sb.
Proof.
  intros Hl Hg Hd W Hw Hr Hn. destruct (layer_ready_wf sl name W Hw Hr Hn) as [Hp Hc].
  exact (copy_to_layer_correct sb sl name fb nb Hl Hg Hd Hp Hc).
Qed.

(* a well-formed base: a regular file is never the root, so that hypothesis can be dropped *)
Lemma regular_not_root sb k fb nb : WF sb -> lookup sb k = Some fb -> get_node sb fb = Some nb -> ndir nb = false -> k <> s_slash.
Proof.
  intros W Hl Hg Hd ->. destruct (g_root _ _ _ _ W) as (r & n & Hl' & Hn' & _ & Hd'). congruence.
Qed.

(* ---------- the corner: the layer holds a regular file where the name needs a directory ---------- *)
(* the parent of the name is a regular file in the layer: the preparation "succeeds" (Exists answers true for
   any kind of entry), Create answers ENOTDIR, the copy fails with that error and the layer's tree is unchanged *)
Theorem copy_below_file_refused sb sl name fb nb p pn :
  lookup sb (normalize_path name) = Some fb -> get_node sb fb = Some nb ->
  wf_name name = true -> normalize_path name <> s_slash ->
  lookup sl (normalize_path name) = None ->
  lookup sl (par (normalize_path name)) = Some p -> get_node sl p = Some pn -> ndir pn = false ->
  ~ layer_ready sl name /\
  exists sb' sl', copy_to_layer m_step m_step sb sl name = (sb', sl', Some (EW KENOTDIR)) /\
    fs_view sl' = fs_view sl /\ fs_view sb' = fs_view sb.
Proof.
  intros Hl Hg Hw Hr Hfree Hp Hpn Hpd. set (key := normalize_path name) in *.
  assert (Hc : canon key) by (apply canon_normalize; exact Hw).
  assert (Hcp : canon (par key)) by now apply canon_par.
  assert (Hprep : dir_prep sl name = (bump sl, None)).
  { unfold dir_prep, l_exists. rewrite (copy_dir_key name Hw Hr). fold key.
    rewrite (stat_found sl (par key) p pn) by (try rewrite (canon_norm _ Hcp); assumption). reflexivity. }
  assert (Hbf : below_file (bump sl) key = true).
  { apply (below_file_parent_file (bump sl) key p pn); [|exact Hpn | exact Hpd].
    change (path_dir key) with (par key). rewrite (canon_norm _ Hcp). exact Hp. }
  assert (Hcr : m_step (bump sl) (Create name) = (bump (bump sl), RErr (EW KENOTDIR))).
  { rewrite m_step_bump. cbn [m_step_raw]. unfold m_create. fold key. rewrite lookup_bump, Hfree, Hbf. reflexivity. }
  split.
  - intros Hready. unfold layer_ready in Hready. rewrite Hprep in Hready. cbn [fst snd] in Hready.
    destruct (Hready eq_refl) as (s2 & lh & fl & nl & Hcreate & _). rewrite Hcr in Hcreate. discriminate Hcreate.
  - unfold copy_to_layer, copy_to_layer_with.
    assert (Ho : m_step sb (Open name) = (bump (fst (alloc_handle sb (mkH fb 0 0 false true))), RHandle (length (mhandles sb)))).
    { rewrite m_step_bump. cbn [m_step_raw]. unfold m_open. fold key. rewrite Hl. reflexivity. }
    rewrite Ho, copy_file_prep, Hprep. unfold copy_body. rewrite Hcr. cbn [res_err].
    (* copyFile removes the name after the failed Create: there is no such entry, the Remove is refused *)
    rewrite after_failed_create_today.
    assert (Hrm : m_step (bump (bump sl)) (Remove name) = (bump (bump (bump sl)), RErr (EW KNotExist))).
    { rewrite m_step_bump. cbn [m_step_raw]. unfold m_remove. fold key. rewrite !lookup_bump, Hfree. reflexivity. }
    rewrite Hrm. cbn [fst].
    eexists. eexists. split; [reflexivity|]. split; [reflexivity|].
    (* closing the read-only base handle *)
    rewrite m_step_bump. cbn [m_step_raw]. unfold m_hop.
    assert (Hh : nth_error (mhandles (bump (fst (alloc_handle sb (mkH fb 0 0 false true))))) (length (mhandles sb)) = Some (mkH fb 0 0 false true)).
    { unfold bump, alloc_handle. cbn [fst mhandles]. apply nth_error_app_last. }
    rewrite Hh. cbn [href]. change (get_node (bump (fst (alloc_handle sb (mkH fb 0 0 false true)))) fb) with (get_node sb fb).
    rewrite Hg. reflexivity.
Qed.

Theorem first_read_total_wf_base sb sl name fb nb :
  WF sb -> lookup sb (normalize_path name) = Some fb -> get_node sb fb = Some nb -> ndir nb = false ->
  WF sl -> no_file_prefix sl (normalize_path name) = true ->
  exists sb' sl' fl nl, cache_copy_to_layer m_step m_step sb sl name = (sb', sl', None) /\
    lookup sl' (normalize_path name) = Some fl /\ get_node sl' fl = Some nl /\
    ndir nl = false /\ ndata nl = ndata nb /\ nmtime nl = nmtime nb /\ fs_view sb' = fs_view sb.
Proof.
  intros Wb Hl Hg Hd W Hn.
  assert (Hw : wf_name name = true).
  { unfold wf_name. destruct (g_canon _ _ _ _ Wb _ _ Hl) as [_ Hr]. exact Hr. }
  exact (first_read_total sb sl name fb nb Hl Hg Hd W Hw (regular_not_root sb _ fb nb Wb Hl Hg Hd) Hn).
Qed.
