(* Proofs/CowFailedProof.v — C06, "a failed call leaves the view unchanged", MemMapFs on both sides,
   for EVERY method of the CopyOnWriteFs and of the handles it returns, every well-formed base and
   overlay and every absolute name: whenever the call returns an error, the union view (overlay's
   entry if it has one, else the base's; kind and bytes) of EVERY path is what it was — including the
   failures after a successful or half-done copy-up, where the overlay HAS changed: it gained
   ancestor directories the base also has, or a copy of the base's file with identical bytes. *)
From AF Require Import Lib.Bytes Lib.Path Lib.Ops Gen.Consts Model.MemFile Model.MemFs Model.WfOps Model.CowView
  Model.ReadOnly Model.Union Model.Cow
  Proofs.MemFsPath Proofs.MemFsBasics Proofs.MemFsWF Proofs.MemBelow Proofs.MemFsStep Proofs.MemFsInv Proofs.MemFsBelow Proofs.MemFsNoop
  Proofs.PathProof Proofs.CowProof Proofs.CowViewProof Proofs.CopyUpProof Proofs.CowLayer Proofs.CowFileOps Proofs.CopyUpFull Proofs.CowWriteProof.
From AF Require Proofs.MemCreate.
Local Open Scope Z_scope.

(* ---------------- absolute names ---------------- *)
Lemma abs_wf p : is_rooted p = true -> wf_name p = true.
Proof.
  intros H. unfold wf_name, normalize_path. destruct (is_dot (clean p) || is_dotdot (clean p)); [reflexivity|].
  now rewrite PathProof.is_rooted_clean.
Qed.

Lemma abs_split p : is_rooted p = true -> is_rooted (fst (path_split p)) = true.
Proof.
  destruct p as [|c p']; [discriminate|]. cbn [is_rooted]. intros Hc. unfold path_split. cbn [split_last_aux].
  destruct (split_last_aux p') as [[d f]|]; [exact Hc|]. rewrite Hc. exact Hc.
Qed.

Lemma abs_dir p : is_rooted p = true -> is_rooted (path_dir p) = true.
Proof. intros H. unfold path_dir. rewrite PathProof.is_rooted_clean. now apply abs_split. Qed.

(* ---------------- what the overlay answers ---------------- *)
Lemma layer_stat s p : WF s ->
  m_step s (Stat p) = (tick s, match lookup s (normalize_path p) with
                               | Some r => match get_node s r with Some n => RInfo (finfo_of n) | None => RPanic end
                               | None => RErr (EW KNotExist)
                               end).
Proof. intros W. rewrite m_step_tick. cbn [m_step_raw]. unfold m_stat. destruct (lookup s (normalize_path p)) as [r|]; [|reflexivity]. now destruct (get_node s r). Qed.

Lemma is_base_file_mem sb sl name : WF sb -> WF sl ->
  is_base_file m_step m_step sb sl name =
    match lookup sl (normalize_path name) with
    | Some _ => (sb, tick sl, false, None)
    | None => (tick sb, tick sl, match lookup sb (normalize_path name) with Some _ => true | None => false end, None)
    end.
Proof.
  intros Wb W. unfold is_base_file. rewrite (layer_stat sl name W).
  destruct (lookup sl (normalize_path name)) as [r|] eqn:Hl.
  - destruct (GWF_lookup_node _ _ _ _ _ _ W Hl) as (n & ->). reflexivity.
  - rewrite (layer_stat sb name Wb). destruct (lookup sb (normalize_path name)) as [rb|] eqn:Hb.
    + destruct (GWF_lookup_node _ _ _ _ _ _ Wb Hb) as (n & ->). reflexivity.
    + reflexivity.
Qed.

(* a failed call on the layer leaves what it stores as it was: the calls a CopyOnWriteFs makes *)
Lemma view_of_tick s t : fs_view s = fs_view t -> fs_view (tick s) = fs_view t.
Proof. intros H. exact H. Qed.

Lemma layer_open_view s p : fs_view (fst (m_step s (Open p))) = fs_view s.
Proof. rewrite m_step_tick. cbn [m_step_raw fst]. unfold m_open. now destruct (lookup s (normalize_path p)). Qed.

Lemma layer_stat_view s p : fs_view (fst (m_step s (Stat p))) = fs_view s.
Proof. rewrite m_step_tick. cbn [m_step_raw fst]. unfold m_stat. destruct (lookup s (normalize_path p)) as [r|]; [|reflexivity]. now destruct (get_node s r). Qed.

Lemma layer_remove_err s o p : o = Remove p \/ o = RemoveAll p -> res_is_err (snd (m_step s o)) = true ->
  fs_view (fst (m_step s o)) = fs_view s.
Proof.
  intros [-> | ->]; rewrite m_step_tick; cbn [m_step_raw fst snd].
  - unfold m_remove. destruct (lookup s (normalize_path p)); [|reflexivity].
    unfold unregister. destruct (lockfree_open s (normalize_path p)) as [f|]; [|reflexivity].
    destruct (find_parent s f) as [q|]; [|reflexivity]. destruct (get_node s q) as [qn|]; [|reflexivity].
    destruct (nhasdir qn); [discriminate | reflexivity].
  - unfold m_removeall. destruct (unregister s (normalize_path p)) as [[s1 b]|]; [discriminate | reflexivity].
Qed.

Lemma layer_meta_err s o : WF s ->
  match o with Chmod p _ | Chown p _ _ | Chtimes p _ => wf_name p = true | _ => False end ->
  res_is_err (snd (m_step s o)) = true -> fs_view (fst (m_step s o)) = fs_view s.
Proof.
  intros W Ho. destruct o; try contradiction; rewrite m_step_tick; cbn [m_step_raw fst snd].
  - unfold m_chmod. destruct (lookup s (normalize_path p)) as [f|] eqn:Hl; [|reflexivity].
    rewrite (set_file_mode_ok s _ _ f (canon_normalize p Ho) Hl). discriminate.
  - unfold m_chown. destruct (lookup s (normalize_path p)); [discriminate | reflexivity].
  - unfold m_chtimes. destruct (lookup s (normalize_path p)); [discriminate | reflexivity].
Qed.

(* the handle methods: an error means no change of what is stored (no hypothesis at all) *)
Lemma layer_hop_err s o : op_handle_of o <> None -> res_is_err (snd (m_step s o)) = true ->
  fs_view (fst (m_step s o)) = fs_view s.
Proof.
  intros Ho. rewrite m_step_tick. cbn [fst snd]. destruct o; try (exfalso; now apply Ho); cbn [m_step_raw].
  - apply view_m_hop. intros hd nd _. destruct (f_read (ndata nd) hd n). reflexivity.
  - apply view_m_hop. intros hd nd _. destruct (f_readat (ndata nd) hd n off). reflexivity.
  - apply view_m_hop. intros hd nd. pose proof (f_write_err (ndata nd) hd b) as E.
    destruct (f_write (ndata nd) hd b) as [[d h'] r]. cbn [fst snd] in *. intros Hr. rewrite (E Hr). reflexivity.
  - apply view_m_hop. intros hd nd. pose proof (f_writeat_err (ndata nd) hd b off) as E.
    destruct (f_writeat (ndata nd) hd b off) as [[d h'] r]. cbn [fst snd] in *. intros Hr. rewrite (E Hr). reflexivity.
  - apply view_m_hop. intros hd nd. pose proof (f_write_err (ndata nd) hd b) as E.
    destruct (f_write (ndata nd) hd b) as [[d h'] r]. cbn [fst snd] in *. intros Hr. rewrite (E Hr). reflexivity.
  - apply view_m_hop. intros hd nd _. destruct (f_seek (ndata nd) hd off whence). reflexivity.
  - apply view_m_hop. intros hd nd. pose proof (f_truncate_err (ndata nd) hd n) as E.
    destruct (f_truncate (ndata nd) hd n) as [d r]. cbn [fst snd] in *. intros Hr. rewrite (E Hr). reflexivity.
  - apply view_m_hop. intros hd nd. destruct (hclosed hd); [reflexivity | discriminate].
  - apply view_m_hop. intros hd nd _. pose proof (view_readdir s h hd n) as E.
    destruct (m_readdir s h hd n) as [[s1 infos] e]. cbn [fst] in E.
    destruct e as [er|]; [destruct infos; [destruct (errk_eqb (ek er) KEOF)|]|]; exact E.
  - apply view_m_hop. intros hd nd _. pose proof (view_readdir s h hd n) as E.
    destruct (m_readdir s h hd n) as [[s1 infos] e]. cbn [fst] in E.
    destruct e as [er|]; [destruct infos; [destruct (errk_eqb (ek er) KEOF)|]|]; exact E.
  - apply view_m_hop. reflexivity.
  - apply view_m_hop. reflexivity.
  - apply view_m_hop. reflexivity.
Qed.

(* OpenFile: whenever MemMapFs.OpenFile has created or truncated anything it returns a handle *)
Lemma layer_openfile_err s name flag perm : wf_name name = true ->
  res_is_err (snd (m_step s (OpenFile name flag perm))) = true ->
  fs_view (fst (m_step s (OpenFile name flag perm))) = fs_view s.
Proof.
  intros Hw. pose proof (wf_name_canon name Hw) as Hc. rewrite m_step_tick. cbn [m_step_raw fst snd].
  unfold m_openfile. set (k := normalize_path name) in *.
  pose proof (trunc_ro_dead flag) as Hdead.
  destruct (lookup s k) as [f|] eqn:Hl.
  - destruct (flag_has flag o_excl && flag_has flag o_create); [reflexivity|]. cbv zeta. rewrite Hdead.
    destruct (alloc_handle _ _) as [s3 h]. discriminate.
  - destruct (flag_has flag o_create); [|reflexivity].
    destruct (below_file s k); [reflexivity|].
    rewrite MemCreate.m_create_node_attach.
    destruct (MemCreate.attach_general s k (new_file k (mclock s)) 0) as (Hlk & _ & _ & _ & _).
    set (s1 := MemCreate.attach s k (new_file k (mclock s)) 0) in *. cbv zeta. rewrite Hdead.
    match goal with |- context [alloc_handle ?a ?b] => set (s2 := a); set (hh := b) end.
    assert (Hl3 : lookup (fst (alloc_handle s2 hh)) k = Some (length (mheap s))).
    { unfold alloc_handle, lookup. cbn [fst mdata]. fold (lookup s2 k). unfold s2.
      destruct (flag_has flag o_trunc && flag_has flag (Z.lor o_rdwr o_wronly) && negb (Z.land flag memfs_access_mask =? 0));
        rewrite ?lookup_upd; exact Hlk. }
    destruct (alloc_handle s2 hh) as [s3 h]. cbn [fst] in Hl3.
    rewrite (set_file_mode_canon s3 k _ _ Hc Hl3). discriminate.
Qed.

(* ---------------- methods through an inert (read-only or closed) handle ---------------- *)
Lemma inert_hop s o i : op_handle_of o = Some i ->
  (forall h, nth_error (mhandles s) i = Some h -> inert h = true) ->
  fs_view (fst (m_step s o)) = fs_view s /\
  (forall j h, nth_error (mhandles (fst (m_step s o))) j = Some h ->
     exists h0, nth_error (mhandles s) j = Some h0 /\ (inert h0 = true -> inert h = true)).
Proof.
  intros Ho Hin. rewrite m_step_tick. cbn [fst].
  assert (Keep : forall s' : mst, mhandles s' = mhandles s -> forall j h, nth_error (mhandles s') j = Some h ->
            exists h0, nth_error (mhandles s) j = Some h0 /\ (inert h0 = true -> inert h = true)).
  { intros s' E j h Hj. rewrite E in Hj. exists h. auto. }
  assert (Set_ : forall (hd h' : hnd), nth_error (mhandles s) i = Some hd -> inert h' = inert hd ->
            forall j h, nth_error (mhandles (set_handle s i h')) j = Some h ->
            exists h0, nth_error (mhandles s) j = Some h0 /\ (inert h0 = true -> inert h = true)).
  { intros hd h' Hhd Hi j h Hj. cbn [set_handle mhandles] in Hj. destruct (Nat.eq_dec i j) as [<-|Hne].
    - rewrite nth_list_set_same in Hj by (apply nth_error_Some; congruence). inversion Hj; subst h. exists hd. split; [exact Hhd | congruence].
    - rewrite nth_list_set_other in Hj by exact Hne. exists h. auto. }
  destruct o; try discriminate Ho; cbn [op_handle_of] in Ho; inversion Ho; subst; clear Ho; cbn [m_step_raw]; unfold m_hop;
    (destruct (nth_error (mhandles s) i) as [hd|] eqn:Hh; [|split; [reflexivity | now apply Keep]]);
    (destruct (get_node s (href hd)) as [nd|]; [|split; [reflexivity | now apply Keep]]);
    pose proof (Hin hd eq_refl) as Hi.
  - pose proof (f_read_inert (ndata nd) hd n) as Hx. destruct (f_read (ndata nd) hd n) as [h' r]. cbn [fst] in *.
    split; [reflexivity | now apply (Set_ hd h')].
  - pose proof (f_readat_inert (ndata nd) hd n off) as Hx. destruct (f_readat (ndata nd) hd n off) as [h' r]. cbn [fst] in *.
    split; [reflexivity | now apply (Set_ hd h')].
  - pose proof (f_write_inert (ndata nd) hd b Hi) as Hd. pose proof (f_write_inert_h (ndata nd) hd b) as Hx.
    destruct (f_write (ndata nd) hd b) as [[d h'] r]. cbn [fst snd] in *. subst d. rewrite put_data_none.
    split; [reflexivity | now apply (Set_ hd h')].
  - pose proof (f_writeat_inert (ndata nd) hd b off Hi) as Hd. pose proof (f_writeat_inert_h (ndata nd) hd b off) as Hx.
    destruct (f_writeat (ndata nd) hd b off) as [[d h'] r]. cbn [fst snd] in *. subst d. rewrite put_data_none.
    split; [reflexivity | now apply (Set_ hd h')].
  - pose proof (f_write_inert (ndata nd) hd b Hi) as Hd. pose proof (f_write_inert_h (ndata nd) hd b) as Hx.
    destruct (f_write (ndata nd) hd b) as [[d h'] r]. cbn [fst snd] in *. subst d. rewrite put_data_none.
    split; [reflexivity | now apply (Set_ hd h')].
  - pose proof (f_seek_inert (ndata nd) hd off whence) as Hx. destruct (f_seek (ndata nd) hd off whence) as [h' r]. cbn [fst] in *.
    split; [reflexivity | now apply (Set_ hd h')].
  - pose proof (f_truncate_inert (ndata nd) hd n Hi) as Hd.
    destruct (f_truncate (ndata nd) hd n) as [d r]. cbn [fst] in *. subst d. rewrite put_data_none.
    split; [reflexivity | now apply Keep].
  - destruct (hclosed hd) eqn:Hc; [split; [reflexivity | now apply Keep]|].
    unfold inert in Hi. rewrite Hc, orb_false_r in Hi. rewrite Hi. cbn [fst].
    split; [reflexivity|]. apply (Set_ hd (set_closed hd) eq_refl). unfold inert. cbn. rewrite Hi. reflexivity.
  - assert (Hm : forall c, fs_view (fst (fst (m_readdir s i hd c))) = fs_view s /\
              forall j h, nth_error (mhandles (fst (fst (m_readdir s i hd c)))) j = Some h ->
                exists h0, nth_error (mhandles s) j = Some h0 /\ (inert h0 = true -> inert h = true)).
    { intros c. unfold m_readdir. destruct (get_node s (href hd)) as [n0|]; [|split; [reflexivity | now apply Keep]].
      destruct (negb (ndir n0)); [split; [reflexivity | now apply Keep]|]. cbn [fst]. split; [reflexivity|].
      apply (Set_ hd _ eq_refl). reflexivity. }
    specialize (Hm n). destruct (m_readdir s i hd n) as [[s1 infos] e]. cbn [fst] in Hm.
    destruct e as [er|]; [destruct infos; [destruct (errk_eqb (ek er) KEOF)|]|]; exact Hm.
  - assert (Hm : forall c, fs_view (fst (fst (m_readdir s i hd c))) = fs_view s /\
              forall j h, nth_error (mhandles (fst (fst (m_readdir s i hd c)))) j = Some h ->
                exists h0, nth_error (mhandles s) j = Some h0 /\ (inert h0 = true -> inert h = true)).
    { intros c. unfold m_readdir. destruct (get_node s (href hd)) as [n0|]; [|split; [reflexivity | now apply Keep]].
      destruct (negb (ndir n0)); [split; [reflexivity | now apply Keep]|]. cbn [fst]. split; [reflexivity|].
      apply (Set_ hd _ eq_refl). reflexivity. }
    specialize (Hm n). destruct (m_readdir s i hd n) as [[s1 infos] e]. cbn [fst] in Hm.
    destruct e as [er|]; [destruct infos; [destruct (errk_eqb (ek er) KEOF)|]|]; exact Hm.
  - split; [reflexivity | now apply Keep].
  - split; [reflexivity | now apply Keep].
  - split; [reflexivity | now apply Keep].
Qed.

(* ---------------- Remove of a regular file of the layer (copyFile's cleanup) ---------------- *)
Lemma layer_remove_file s name g :
  WF s -> wf_name name = true -> let nn := normalize_path name in nn <> s_slash ->
  lookup s nn = Some g -> (exists n, get_node s g = Some n /\ ndir n = false) ->
  exists s', m_step s (Remove name) = (s', ROk) /\ WF s' /\
    (forall k, lookup s' k = if beqb nn k then None else lookup s k) /\
    (forall k, k <> nn -> cview s' k = cview s k) /\
    mhandles s' = mhandles s /\ get_node s' g = get_node s g.
Proof.
  intros W Hw nn Hroot Hl (n & Hn & Hd). pose proof (wf_name_canon name Hw) as Hc. fold nn in Hc.
  assert (HWF : WF (fst (m_step s (Remove name)))).
  { apply WF_step; [exact W|]. apply wf_op_of_ord. cbn [wf_op_ord]. rewrite Hw. fold nn. unfold kind_at. rewrite Hl, Hn, Hd.
    assert (E : beqb nn s_slash = false) by now apply beqb_neq. rewrite E. reflexivity. }
  rewrite m_step_tick in *. cbn [m_step_raw] in *. unfold m_remove in *. fold nn in HWF |- *. rewrite Hl in *.
  destruct (GWF_unregister kempty kempty kempty s nn g W Hl (WF_fresh s nn g W Hl) Hroot) as (q & qn & Hq & Hqn & Hqd & Hun & _);
    [intros [] | intros [] |].
  rewrite Hun in *. cbn [fst snd] in *. set (s1 := upd_node s q (del_kid nn)) in *.
  eexists. split; [reflexivity|]. split; [exact HWF|].
  assert (Hgq : g <> q) by (intros ->; congruence).
  split; [|split; [|split]].
  - intros k. change (lookup (tick (set_data s1 (alist_del nn (mdata s1)))) k) with (lookup (del_key s1 nn) k).
    rewrite lookup_del_key. unfold s1. now rewrite lookup_upd.
  - intros k Hk. unfold cview.
    change (lookup (tick (set_data s1 (alist_del nn (mdata s1)))) k) with (lookup (del_key s1 nn) k).
    rewrite lookup_del_key. assert (E : beqb nn k = false) by (apply beqb_neq; congruence). rewrite E.
    unfold s1 at 1. rewrite lookup_upd.
    destruct (lookup s k) as [r|]; [|reflexivity].
    change (get_node (tick (set_data s1 (alist_del nn (mdata s1)))) r) with (get_node s1 r). unfold s1. rewrite get_upd.
    destruct (Nat.eqb q r) eqn:Eq; [|reflexivity]. apply Nat.eqb_eq in Eq. subst r. rewrite Hqn. reflexivity.
  - change (mhandles (tick (set_data s1 (alist_del nn (mdata s1))))) with (mhandles s1). unfold s1. apply mhandles_upd.
  - change (get_node (tick (set_data s1 (alist_del nn (mdata s1)))) g) with (get_node s1 g). unfold s1. apply get_upd_other. congruence.
Qed.

(* a method of a handle whose node no path names any more changes no entry *)
Lemma orphan_hop_cview g lh s d h o : FH g lh s d h -> (forall k, lookup s k <> Some g) ->
  op_handle_of o = Some lh -> file_op o = true -> forall k, cview (fst (m_step s o)) k = cview s k.
Proof.
  intros F Hno Ho Hf k. destruct (m_step_file_op g lh s d h o F Ho Hf) as (s1 & r & d1 & h1 & r' & E1 & _ & _ & _ & [A1 A2 _ _]).
  rewrite E1. cbn [fst]. unfold cview, lookup. rewrite A1. fold (lookup s k).
  destruct (lookup s k) as [x|] eqn:Hk; [|reflexivity]. rewrite A2; [reflexivity|]. intros ->. now apply (Hno k).
Qed.

(* ---------------- copyFile after Create, the base entry being a directory ---------------- *)
Lemma dir_size_nonzero : dir_size =? 0 = false.
Proof. reflexivity. Qed.

Theorem copy_body_dir sb1 sl2 name f nd bh g lh :
  let nn := normalize_path name in
  wf_name name = true -> nn <> s_slash ->
  BI f nd bh sb1 0 -> ndir nd = true -> ndata nd = [] -> WF sl2 -> LI nn g lh sl2 [] 0 ->
  exists sb' sl', copy_body sb1 sl2 name bh lh = (sb', sl', Some (E KEIO)) /\
    fs_view sb' = fs_view sb1 /\ BI f nd bh sb' 0 /\
    cview sl' nn = None /\ (forall k, k <> nn -> cview sl' k = cview sl2 k).
Proof.
  intros nn Hw Hroot Hb1 Hbd Hdata W2 Hl2. unfold copy_body.
  destruct (base_hstat f nd bh sb1 0 Hb1) as [sb2 [Es [Hb2 Hv2]]]. rewrite Es.
  assert (Hsz : fi_size (finfo_of nd) = dir_size) by (unfold finfo_of; now rewrite Hbd). rewrite Hsz.
  assert (Hb2' : BI f nd bh sb2 (zlen (ndata nd))) by (rewrite Hdata; exact Hb2).
  destruct (base_read_eof f nd bh sb2 Hb2') as [sb3 [Er [Hb3 Hv3]]]. rewrite Hdata in Hb3. cbn [zlen length Z.of_nat] in Hb3.
  cbn [io_copy]. rewrite Er. cbn [zlen length Z.of_nat Z.ltb Z.compare errk_eqb ek E Z.add].
  destruct (base_hstat f nd bh sb3 0 Hb3) as [sb4 [Es4 [Hb4 Hv4]]]. rewrite Es4, Hsz, dir_size_nonzero. cbn [negb].
  (* Remove, Close *)
  destruct Hl2 as [[Hlk (n2 & Hn2 & Hd2 & Hdir2 & _)] Hh2].
  destruct (layer_remove_file sl2 name g W2 Hw Hroot Hlk) as (sl4 & Erm & W4 & Hl4 & Hfr4 & Hh4 & Hg4); [exists n2; auto|].
  fold nn in Hl4, Hfr4. rewrite Erm. cbn [fst].
  assert (F4 : FH g lh sl4 [] (mkH g 0 0 false false)).
  { split; [now rewrite Hh4 | reflexivity|]. exists n2. split; [now rewrite Hg4 | auto]. }
  assert (Hno4 : forall k, lookup sl4 k <> Some g).
  { intros k. rewrite Hl4. destruct (beqb nn k) eqn:Ek; [discriminate|]. apply beqb_neq in Ek.
    intros Hk. apply Ek. apply (GWF_inj _ _ _ sl2 nn k g W2); auto. }
  pose proof (orphan_hop_cview g lh sl4 [] _ (HClose lh) F4 Hno4 eq_refl eq_refl) as Hc5.
  eexists. eexists. split; [reflexivity|]. split; [congruence|]. split; [exact Hb4|]. split.
  - rewrite Hc5. apply cview_none. rewrite Hl4. now rewrite beqb_refl.
  - intros k Hk. rewrite Hc5. now apply Hfr4.
Qed.

(* ---------------- copyToLayer of a base DIRECTORY: always an error, the view of the overlay unchanged
   apart from ancestor directories ---------------- *)
Definition grown (nn : str) (sl sl' : mst) : Prop :=
  forall k, cview sl' k = cview sl k \/
            (cview sl k = None /\ cview sl' k = Some (true, []) /\ canon k /\ (k = par nn \/ below k (par nn) = true)).

Lemma WF_cview_canon s k e : WF s -> cview s k = Some e -> canon k.
Proof.
  intros W H. unfold cview in H. destruct (lookup s k) as [r|] eqn:Hl; [|discriminate]. exact (g_canon _ _ _ _ W k r Hl).
Qed.

Lemma grown_of_view nn sl sl' : fs_view sl' = fs_view sl -> grown nn sl sl'.
Proof. intros E k. left. now apply cview_ext. Qed.

Theorem copy_up_dir sb sl name f nd :
  WF sl -> wf_name name = true ->
  let nn := normalize_path name in
  nn <> s_slash ->
  lookup sb nn = Some f -> get_node sb f = Some nd -> ndir nd = true -> ndata nd = [] ->
  lookup sl nn = None ->
  exists sb' sl' e, copy_to_layer m_step m_step sb sl name = (sb', sl', Some e) /\
    fs_view sb' = fs_view sb /\ grown nn sl sl'.
Proof.
  intros W Hw nn Hroot Hbl Hbn Hbd Hdata Hno.
  pose proof (wf_name_canon name Hw) as Hc. fold nn in Hc.
  pose proof (copy_dir_key name Hw) as Hkey. fold nn in Hkey.
  assert (Hcd : canon (par nn)) by now apply canon_par.
  assert (Hwd : wf_name (copy_dir name) = true) by (unfold wf_name; rewrite Hkey; apply Hcd).
  assert (Hkind : forall s, cview s nn = None -> kind_at s nn <> Some true) by (intros s E; rewrite kind_at_cview, E; discriminate).
  unfold copy_to_layer, copy_to_layer_with.
  destruct (base_open sb name f nd Hbl Hbn) as [sb1 [Eo [Hb1 Hv1]]]. rewrite Eo.
  set (bh := length (mhandles sb)) in *.
  rewrite copy_file_tail. cbv zeta. unfold l_exists.
  (* the common end: Create in an existing directory, the copy fails, the file is removed again *)
  assert (Tail : forall sl1, WF sl1 -> is_dir_at sl1 (par nn) = true -> cview sl1 nn = None ->
            exists sb' sl' e, copy_tail m_step m_step sb1 sl1 name bh = (sb', sl', Some e) /\
              fs_view sb' = fs_view sb1 /\ BI f nd bh sb' 0 /\ forall k, cview sl' k = cview sl1 k).
  { intros sl1 W1 Hpd Hn1. rewrite copy_tail_body.
    destruct (layer_create_in_dir sl1 name W1 Hw Hroot Hpd) as (sl2 & g & Ec & Hl2 & Hfr2 & _ & HW2). fold nn in Hl2, Hfr2.
    rewrite Ec. specialize (HW2 (Hkind sl1 Hn1)).
    destruct (copy_body_dir sb1 sl2 name f nd bh g _ Hw Hroot Hb1 Hbd Hdata HW2 Hl2) as (sb' & sl' & Eb & Hv & Hb' & Hnn & Hfr).
    exists sb', sl', (E KEIO). split; [exact Eb|]. split; [exact Hv|]. split; [exact Hb'|].
    intros k. destruct (str_eq_dec k nn) as [->|Hk]; [fold nn in Hnn; congruence|].
    fold nn in Hfr. rewrite (Hfr k Hk). now apply Hfr2. }
  destruct (lookup sl (par nn)) as [d|] eqn:Hd.
  - destruct (GWF_lookup_node _ _ _ _ _ _ W Hd) as (dn & Hdn).
    assert (Hd' : lookup sl (normalize_path (copy_dir name)) = Some d) by (rewrite Hkey; exact Hd).
    rewrite (layer_stat_ok sl (copy_dir name) d dn Hd' Hdn). cbn [is_not_exist].
    destruct (ndir dn) eqn:Hdd.
    + assert (Hpd : is_dir_at (tick sl) (par nn) = true) by (rewrite is_dir_at_tick; unfold is_dir_at, kind_at; now rewrite Hd, Hdn, Hdd).
      destruct (Tail (tick sl) (WF_tick sl W) Hpd (cview_none _ _ Hno)) as (sb' & sl' & e & Et & Hv & Hb' & Hfr).
      rewrite Et. eexists. exists sl', e. split; [reflexivity|].
      split; [rewrite (base_close f nd bh sb' _ Hb'); congruence|].
      intros k. left. now rewrite Hfr.
    + rewrite copy_tail_body. rewrite (layer_create_below_file (tick sl) name d dn Hw Hno Hd Hdn Hdd).
      rewrite (failed_create_no_entry (tick (tick sl)) name Hno).
      eexists. eexists. eexists. split; [reflexivity|].
      split; [rewrite (base_close f nd bh sb1 _ Hb1); exact Hv1 | now apply grown_of_view].
  - assert (Hd' : lookup sl (normalize_path (copy_dir name)) = None) by (rewrite Hkey; exact Hd).
    rewrite (stat_missing sl (copy_dir name) Hd'). cbn [is_not_exist ek EW].
    destruct (layer_mkdirall (tick sl) (copy_dir name) 511 (WF_tick sl W) Hwd) as [(Hbf & _ & Em) | (Hacc & sl1 & Em & W1 & _ & _ & Hdir1 & Hg1)];
      rewrite Hkey in *; rewrite Em.
    + eexists. eexists. eexists. split; [reflexivity|].
      split; [rewrite (base_close f nd bh sb1 _ Hb1); exact Hv1 | now apply grown_of_view].
    + specialize (Hdir1 Hd).
      assert (Hn1 : cview sl1 nn = None).
      { destruct (Hg1 nn) as [E | (_ & _ & Hnew)]; [rewrite E; apply cview_none; exact Hno|].
        exfalso. exact (new_dir_not_self nn nn Hc Hroot Hnew eq_refl). }
      destruct (Tail sl1 W1 Hdir1 Hn1) as (sb' & sl' & e & Et & Hv & Hb' & Hfr).
      rewrite Et. eexists. exists sl', e. split; [reflexivity|].
      split; [rewrite (base_close f nd bh sb' _ Hb'); congruence|].
      intros k. rewrite Hfr. destruct (Hg1 k) as [E | (E1 & E2 & E3)]; [left; now rewrite E | right].
      split; [exact E1|]. split; [exact E2|]. split; [exact (WF_cview_canon sl1 k _ W1 E2) | exact E3].
Qed.

(* ---------------- "absorbed": the overlay changed only where it held nothing, and there it now shows
   what the base shows — so the union view is the same ---------------- *)
Definition absorbed (sb sl sl' : mst) : Prop :=
  forall k, cview sl' k = cview sl k \/ (cview sl k = None /\ cview sl' k = cview sb k).

Lemma absorbed_uview sb sl sl' : absorbed sb sl sl' -> forall k, uview sb sl' k = uview sb sl k.
Proof.
  intros H k. unfold uview. destruct (H k) as [-> | [E1 E2]]; [reflexivity|]. rewrite E1, E2. now destruct (cview sb k).
Qed.

Lemma absorbed_view sb sl sl' : fs_view sl' = fs_view sl -> absorbed sb sl sl'.
Proof. intros E k. left. now apply cview_ext. Qed.

Lemma absorbed_view_l sb sl0 sl sl' : fs_view sl0 = fs_view sl -> absorbed sb sl0 sl' -> absorbed sb sl sl'.
Proof. intros E H k. rewrite <- (cview_ext sl0 sl E k). apply H. Qed.

Lemma absorbed_view_r sb sl sl1 sl' : fs_view sl' = fs_view sl1 -> absorbed sb sl sl1 -> absorbed sb sl sl'.
Proof. intros E H k. rewrite (cview_ext sl' sl1 E k). apply H. Qed.

Lemma absorbed_base sb sb0 sl sl' : fs_view sb0 = fs_view sb -> absorbed sb0 sl sl' -> absorbed sb sl sl'.
Proof. intros E H k. rewrite <- (cview_ext sb0 sb E k). apply H. Qed.

(* every proper ancestor of an existing name exists and is a directory *)
Lemma WF_anc_exists s : WF s -> forall n k r, (length k <= n)%nat -> lookup s k = Some r ->
  forall a, canon a -> below a k = true -> exists ra, lookup s a = Some ra.
Proof.
  intros W. induction n as [|n IH]; intros k r Hlen Hk a Ha Hb.
  - pose proof (g_canon _ _ _ _ W k r Hk) as Hc. apply canon_nonempty in Hc. destruct k; [congruence | cbn in Hlen; lia].
  - pose proof (g_canon _ _ _ _ W k r Hk) as Hc.
    assert (Hkr : k <> s_slash) by exact (below_not_root a k Ha Hb).
    destruct (g_par _ _ _ _ W k r Hk (WF_fresh s k r W Hk) Hkr) as (p & pn & Hp & Hpn & Hpd & _); [intros [] | intros [] |].
    destruct (below_inv a k Ha Hc Hb) as [-> | Hb']; [now exists p|].
    apply (IH (par k) p (ltac:(pose proof (par_shorter k Hc Hkr); lia)) Hp a Ha Hb').
Qed.

Lemma ancestor_cview s nn f k : WF s -> lookup s nn = Some f -> nn <> s_slash -> canon k ->
  (k = par nn \/ below k (par nn) = true) -> cview s k = Some (true, []).
Proof.
  intros W Hl Hroot Hk Hcase. pose proof (g_canon _ _ _ _ W nn f Hl) as Hc.
  destruct (g_par _ _ _ _ W nn f Hl (WF_fresh s nn f W Hl) Hroot) as (p & pn & Hp & Hpn & Hpd & _); [intros [] | intros [] |].
  destruct Hcase as [-> | Hb].
  - rewrite (cview_some s (par nn) p pn Hp Hpn), Hpd. reflexivity.
  - destruct (WF_anc_exists s W _ (par nn) p (Nat.le_refl _) Hp k Hk Hb) as (ra & Hra).
    destruct (GWF_lookup_node _ _ _ _ _ _ W Hra) as (na & Hna).
    rewrite (cview_some s k ra na Hra Hna), (WF_anc_dir s W _ (par nn) p (Nat.le_refl _) Hp k ra na Hk Hb Hra Hna). reflexivity.
Qed.

Lemma grown_absorbed sb sl sl' nn f : WF sb -> lookup sb nn = Some f -> nn <> s_slash -> grown nn sl sl' -> absorbed sb sl sl'.
Proof.
  intros Wb Hl Hroot H k. destruct (H k) as [E | (E1 & E2 & Hc & E3)]; [now left | right].
  split; [exact E1|]. rewrite E2. symmetry. exact (ancestor_cview sb nn f k Wb Hl Hroot Hc E3).
Qed.

(* a successful copy-up of a regular file *)
Lemma copied_absorbed sb sl sl' nn f nd g mt : WF sb -> WF sl' ->
  lookup sb nn = Some f -> get_node sb f = Some nd -> ndir nd = false -> nn <> s_slash ->
  cview sl nn = None -> LF nn g sl' (ndata nd) mt -> copy_up_frame nn sl sl' -> absorbed sb sl sl'.
Proof.
  intros Wb W' Hl Hn Hd Hroot Hno Hlf Hfr k. destruct (str_eq_dec k nn) as [->|Hk].
  - right. split; [exact Hno|]. rewrite (LF_cview _ _ _ _ _ Hlf), (cview_some sb nn f nd Hl Hn), Hd. reflexivity.
  - destruct (Hfr k Hk) as [E | (E1 & E2 & E3)]; [now left | right]. split; [exact E1|]. rewrite E2. symmetry.
    exact (ancestor_cview sb nn f k Wb Hl Hroot (WF_cview_canon sl' k _ W' E2) E3).
Qed.

(* ---------------- copyToLayer of a name only the base has, whatever the base holds there ---------------- *)
Lemma absent_not_root s nn : WF s -> lookup s nn = None -> nn <> s_slash.
Proof. intros W Hno ->. destruct (g_root _ _ _ _ W) as (r & n & Hl & _). congruence. Qed.

Theorem copy_base_only sb sl name f :
  WF sb -> WF sl -> wf_name name = true ->
  let nn := normalize_path name in
  lookup sb nn = Some f -> lookup sl nn = None -> dir_no_bytes sb nn ->
  exists sb' sl' e, copy_to_layer m_step m_step sb sl name = (sb', sl', e) /\
    fs_view sb' = fs_view sb /\ absorbed sb sl sl' /\
    (e = None -> WF sl' /\ exists g d, LF nn g sl' d None).
Proof.
  intros Wb W Hw nn Hbl Hno Hdnb. pose proof (absent_not_root sl nn W Hno) as Hroot.
  destruct (GWF_lookup_node _ _ _ _ _ _ Wb Hbl) as (nd & Hbn).
  destruct (ndir nd) eqn:Hbd.
  - destruct (copy_up_dir sb sl name f nd W Hw Hroot Hbl Hbn Hbd (Hdnb f nd Hbl Hbn Hbd) Hno) as (sb' & sl' & e & Ec & Hv & Hg).
    exists sb', sl', (Some e). split; [exact Ec|]. split; [exact Hv|]. split; [exact (grown_absorbed sb sl sl' nn f Wb Hbl Hroot Hg) | discriminate].
  - assert (Hk : kind_at sl nn <> Some true) by (unfold kind_at; rewrite Hno; discriminate).
    destruct (copy_up_full sb sl name f nd W Hw Hroot Hbl Hbn Hbd Hk) as (sb' & sl' & e & Ec & Hv & _ & Hok & Herr).
    exists sb', sl', e. split; [exact Ec|]. split; [exact Hv|]. destruct e as [e|].
    + split; [apply absorbed_view; apply Herr; discriminate | discriminate].
    + destruct (Hok eq_refl) as ((g & Hlf) & W' & Hfr). split.
      * exact (copied_absorbed sb sl sl' nn f nd g _ Wb W' Hbl Hbn Hbd Hroot (cview_none _ _ Hno) Hlf Hfr).
      * intros _. split; [exact W'|]. exists g, (ndata nd). destruct Hlf as [H1 (n & H2 & H3 & H4 & _)]. split; [exact H1|]. exists n. auto.
Qed.

Section Failed.
Notation cowmm := (cow_step m_step m_step).
Notation layer st := (snd (fst st)).

Lemma dir_no_bytes_tick s k : dir_no_bytes s k -> dir_no_bytes (tick s) k.
Proof. intros H. exact H. Qed.

(* Chmod / Chown / Chtimes *)
Lemma cow_meta_failed sb sl tbl name o :
  WF sb -> WF sl -> is_rooted name = true -> dir_no_bytes sb (normalize_path name) ->
  (exists a, o = Chmod name a) \/ (exists a b, o = Chown name a b) \/ (exists a, o = Chtimes name a) ->
  res_is_err (snd (cow_meta m_step m_step sb sl tbl name o)) = true ->
  absorbed sb sl (layer (fst (cow_meta m_step m_step sb sl tbl name o))).
Proof.
  intros Wb W Habs Hdnb Ho. pose proof (abs_wf name Habs) as Hw. set (nn := normalize_path name) in *.
  assert (Hmeta : match o with Chmod p _ | Chown p _ _ | Chtimes p _ => wf_name p = true | _ => False end).
  { destruct Ho as [(a & ->) | [(a & b & ->) | (a & ->)]]; exact Hw. }
  unfold cow_meta. rewrite (is_base_file_mem sb sl name Wb W). fold nn.
  destruct (lookup sl nn) as [r|] eqn:Hl.
  - destruct (m_step (tick sl) o) as [sl2 r2] eqn:E2. cbn [ret fst snd]. intros Herr.
    pose proof (layer_meta_err (tick sl) o (WF_tick _ W) Hmeta) as Hx. rewrite E2 in Hx. apply absorbed_view. apply Hx. exact Herr.
  - destruct (lookup sb nn) as [f|] eqn:Hb.
    + destruct (copy_base_only (tick sb) (tick sl) name f (WF_tick _ Wb) (WF_tick _ W) Hw Hb Hl (dir_no_bytes_tick sb nn Hdnb))
        as (sb' & sl' & e & Ec & Hv & Ha & Hok).
      rewrite Ec. destruct e as [e|].
      * cbn [ret fst snd]. intros _. exact Ha.
      * destruct (Hok eq_refl) as (W' & _). destruct (m_step sl' o) as [sl3 r3] eqn:E3. cbn [ret fst snd]. intros Herr.
        pose proof (layer_meta_err sl' o W' Hmeta) as Hx. rewrite E3 in Hx. cbn [fst snd] in Hx.
        exact (absorbed_view_r _ _ sl' sl3 (Hx Herr) Ha).
    + destruct (m_step (tick sl) o) as [sl2 r2] eqn:E2. cbn [ret fst snd]. intros Herr.
      pose proof (layer_meta_err (tick sl) o (WF_tick _ W) Hmeta) as Hx. rewrite E2 in Hx. apply absorbed_view. apply Hx. exact Herr.
Qed.

(* directories MkdirAll made in the overlay where the base has a directory: absorbed *)
Lemma self_or_anc_cview s dq r n k : WF s -> lookup s dq = Some r -> get_node s r = Some n -> ndir n = true ->
  canon k -> (k = dq \/ below k dq = true) -> cview s k = Some (true, []).
Proof.
  intros W Hl Hn Hd Hk [-> | Hb].
  - rewrite (cview_some s dq r n Hl Hn), Hd. reflexivity.
  - destruct (WF_anc_exists s W _ dq r (Nat.le_refl _) Hl k Hk Hb) as (ra & Hra).
    destruct (GWF_lookup_node _ _ _ _ _ _ W Hra) as (na & Hna).
    rewrite (cview_some s k ra na Hra Hna), (WF_anc_dir s W _ dq r (Nat.le_refl _) Hl k ra na Hk Hb Hra Hna). reflexivity.
Qed.

Lemma grows_dirs_absorbed sb sl sl' dq r n : WF sb -> WF sl' -> lookup sb dq = Some r -> get_node sb r = Some n -> ndir n = true ->
  grows_dirs (fun k => k = dq \/ below k dq = true) sl sl' -> absorbed sb sl sl'.
Proof.
  intros Wb W' Hl Hn Hd H k. destruct (H k) as [E | (E1 & E2 & E3)]; [now left | right]. split; [exact E1|]. rewrite E2. symmetry.
  exact (self_or_anc_cview sb dq r n k Wb Hl Hn Hd (WF_cview_canon sl' k _ W' E2) E3).
Qed.

Lemma open_layer_failed (sb : mst) sl tbl name flag perm : wf_name name = true ->
  res_is_err (snd (open_layer m_step sb sl tbl (OpenFile name flag perm))) = true ->
  fs_view (layer (fst (open_layer m_step sb sl tbl (OpenFile name flag perm)))) = fs_view sl.
Proof.
  intros Hw. unfold open_layer. pose proof (layer_openfile_err sl name flag perm Hw) as Hx.
  destruct (m_step sl (OpenFile name flag perm)) as [sl1 r]. cbn [fst snd] in Hx.
  destruct r; cbn [alloc_ch ret fst snd]; exact Hx.
Qed.

Lemma b_is_dir_mem sb p : WF sb ->
  b_is_dir m_step sb p = (tick sb, match lookup sb (normalize_path p) return (bool + err) with
                                  | Some r => match get_node sb r return (bool + err) with Some n => inl (ndir n) | None => inr (E KOther) end
                                  | None => inr (EW KNotExist)
                                  end).
Proof.
  intros W. unfold b_is_dir. rewrite (layer_stat sb p W). destruct (lookup sb (normalize_path p)) as [r|]; [|reflexivity].
  destruct (get_node sb r) as [n|]; [|reflexivity]. unfold finfo_of. reflexivity.
Qed.

Lemma l_is_dir_view sl p : fs_view (fst (l_is_dir m_step sl p)) = fs_view sl.
Proof.
  unfold l_is_dir. pose proof (layer_stat_view sl p) as H. destruct (m_step sl (Stat p)) as [s1 r]. cbn [fst] in H.
  destruct r; exact H.
Qed.

(* OpenFile / Create *)
Lemma cow_openfile_failed sb sl tbl name flag perm :
  WF sb -> WF sl -> is_rooted name = true -> dir_no_bytes sb (normalize_path name) ->
  res_is_err (snd (cow_openfile m_step m_step sb sl tbl name flag perm)) = true ->
  absorbed sb sl (layer (fst (cow_openfile m_step m_step sb sl tbl name flag perm))).
Proof.
  intros Wb W Habs Hdnb. pose proof (abs_wf name Habs) as Hw. set (nn := normalize_path name) in *.
  pose proof (abs_wf _ (abs_dir name Habs)) as Hwd.
  unfold cow_openfile. rewrite (is_base_file_mem sb sl name Wb W). fold nn.
  (* the two ways a call ends in the overlay's own OpenFile *)
  assert (OL : forall (sb' : mst) sl1, absorbed sb sl sl1 ->
            res_is_err (snd (open_layer m_step sb' sl1 tbl (OpenFile name flag perm))) = true ->
            absorbed sb sl (layer (fst (open_layer m_step sb' sl1 tbl (OpenFile name flag perm))))).
  { intros sb' sl1 Ha Herr. exact (absorbed_view_r _ _ sl1 _ (open_layer_failed sb' sl1 tbl name flag perm Hw Herr) Ha). }
  assert (LD : forall (sb' : mst) sl1, fs_view sl1 = fs_view sl ->
            res_is_err (snd (match l_is_dir m_step sl1 (path_dir name) with
                             | (sl2, inr er2) => ret sb' sl2 tbl (RErr er2)
                             | (sl2, inl true) => open_layer m_step sb' sl2 tbl (OpenFile name flag perm)
                             | (sl2, inl false) => ret sb' sl2 tbl (RErr (EW KENOTDIR))
                             end)) = true ->
            absorbed sb sl (layer (fst (match l_is_dir m_step sl1 (path_dir name) with
                             | (sl2, inr er2) => ret sb' sl2 tbl (RErr er2)
                             | (sl2, inl true) => open_layer m_step sb' sl2 tbl (OpenFile name flag perm)
                             | (sl2, inl false) => ret sb' sl2 tbl (RErr (EW KENOTDIR))
                             end)))).
  { intros sb' sl1 Hv1. pose proof (l_is_dir_view sl1 (path_dir name)) as Hv2.
    destruct (l_is_dir m_step sl1 (path_dir name)) as [sl2 [[|]|er2]]; cbn [fst] in Hv2.
    - apply OL. apply absorbed_view. congruence.
    - intros _. cbn [ret fst snd]. apply absorbed_view. congruence.
    - intros _. cbn [ret fst snd]. apply absorbed_view. congruence. }
  destruct (lookup sl nn) as [r|] eqn:Hl.
  - (* the overlay has the name *)
    destruct (negb (Z.land flag cow_mask =? 0)); [|apply OL; now apply absorbed_view].
    rewrite (b_is_dir_mem sb (path_dir name) Wb).
    destruct (lookup sb (normalize_path (path_dir name))) as [rd|] eqn:Hbd.
    + destruct (GWF_lookup_node _ _ _ _ _ _ Wb Hbd) as (nd & Hnd). rewrite Hnd. destruct (ndir nd) eqn:Hdd.
      * (* the base has the directory: MkdirAll in the overlay *)
        destruct (layer_mkdirall (tick sl) (path_dir name) 511 (WF_tick _ W) Hwd) as [(_ & _ & Em) | (_ & sl2 & Em & W2 & _ & _ & _ & Hg)]; rewrite Em.
        -- intros _. cbn [ret fst snd]. now apply absorbed_view.
        -- apply OL. exact (grows_dirs_absorbed sb (tick sl) sl2 _ rd nd Wb W2 Hbd Hnd Hdd Hg).
      * apply LD. reflexivity.
    + cbn [is_not_exist ek EW negb]. apply LD. reflexivity.
  - destruct (lookup sb nn) as [f|] eqn:Hb.
    + (* only the base has it *)
      destruct (negb (Z.land flag cow_mask =? 0)).
      * destruct (copy_base_only (tick sb) (tick sl) name f (WF_tick _ Wb) (WF_tick _ W) Hw Hb Hl (dir_no_bytes_tick sb nn Hdnb))
          as (sb' & sl' & e & Ec & Hv & Ha & Hok).
        rewrite Ec. destruct e as [e|]; [intros _; cbn [ret fst snd]; exact Ha | apply OL; exact Ha].
      * unfold open_base. destruct (m_step (tick sb) (OpenFile name flag perm)) as [sb2 r2].
        destruct r2; cbn [alloc_ch ret fst snd]; intros _; now apply absorbed_view.
    + (* neither has it *)
      destruct (negb (Z.land flag cow_mask =? 0)); [|apply OL; now apply absorbed_view].
      rewrite (b_is_dir_mem (tick sb) (path_dir name) (WF_tick _ Wb)).
      change (lookup (tick sb) (normalize_path (path_dir name))) with (lookup sb (normalize_path (path_dir name))).
      destruct (lookup sb (normalize_path (path_dir name))) as [rd|] eqn:Hbd.
      * destruct (GWF_lookup_node _ _ _ _ _ _ Wb Hbd) as (nd & Hnd).
        change (get_node (tick sb) rd) with (get_node sb rd). rewrite Hnd. destruct (ndir nd) eqn:Hdd.
        -- destruct (layer_mkdirall (tick sl) (path_dir name) 511 (WF_tick _ W) Hwd) as [(_ & _ & Em) | (_ & sl2 & Em & W2 & _ & _ & _ & Hg)]; rewrite Em.
           ++ intros _. cbn [ret fst snd]. now apply absorbed_view.
           ++ apply OL. exact (grows_dirs_absorbed sb (tick sl) sl2 _ rd nd Wb W2 Hbd Hnd Hdd Hg).
        -- apply LD. reflexivity.
      * cbn [is_not_exist ek EW negb]. apply LD. reflexivity.
Qed.
End Failed.

(* ---------------- every method of a UnionFile calls the layer only through the layer handle ---------------- *)
Section LayerCalls.
Context {B L : Type} (bstep : B -> op -> B * res) (lstep : L -> op -> L * res).
Variable P : L -> Prop.
Variable lh0 : option nat.
Hypothesis HPl : forall s o lh, lh0 = Some lh -> op_handle_of o = Some lh -> P s -> P (fst (lstep s o)).

Ltac lcallP :=
  match goal with
  | Hs : P ?s |- context [lstep ?s ?o] =>
    let s1 := fresh "sl" in let r := fresh "rl" in let E := fresh "El" in let H := fresh "HPl1" in
    destruct (lstep s o) as [s1 r] eqn:E;
    assert (H : P s1) by (let HH := fresh in pose proof (HPl s o _ eq_refl eq_refl Hs) as HH; rewrite E in HH; exact HH);
    cbn [fst snd] in *
  end.
Ltac bcallL :=
  match goal with
  | |- context [bstep ?s ?o] =>
    let s1 := fresh "sb" in let r := fresh "rb" in let E := fresh "Eb" in
    destruct (bstep s o) as [s1 r] eqn:E; cbn [fst snd] in *
  end.
Ltac brkL :=
  match goal with
  | |- context [match ?x with _ => _ end] =>
    lazymatch x with
    | context [bstep] => fail
    | context [lstep] => fail
    | context [match _ with _ => _ end] => fail
    | _ => destruct x eqn:?
    end
  end.
Ltac auto_L := repeat (cbn [fst snd]; first [assumption | lcallP | bcallL | brkL]).

Lemma uf_op_L sb sl ob off files o : P sl ->
  P (snd (fst (fst (uf_op bstep lstep sb sl (mkUF ob lh0 off files) o)))).
Proof.
  intros Hs. destruct lh0 as [lh|] eqn:Elh; destruct o; try exact Hs; cbn [uf_op op_set_handle ubase ulayer uoff ufiles]; auto_L.
Qed.
End LayerCalls.

(* ---------------- the theorem ---------------- *)
(* the handle table: the layer handle of every union (directory) handle is read-only or closed — what
   CopyOnWriteFs.Open makes them (Open is read-only), and no method ever changes it back *)
Definition union_handles_inert (sl : mst) (tbl : list chandle) : Prop :=
  forall i u lh h, nth_error tbl i = Some (HU u) -> ulayer u = Some lh -> nth_error (mhandles sl) lh = Some h -> inert h = true.

(* what is asked of the call beyond absolute names *)
Definition cow_call_ok (sb sl : mst) (o : op) : Prop :=
  match o with
  | Rename p q => wf_op sl (Rename p q) = true \/ lookup sl (normalize_path p) = None
  | Create p | OpenFile p _ _ | Chmod p _ | Chown p _ _ | Chtimes p _ => dir_no_bytes sb (normalize_path p)
  | _ => True
  end.

Section Main.
Notation cowmm := (cow_step m_step m_step).
Notation layer st := (snd (fst st)).

Lemma cow_hop (sb sl : mst) tbl o i : op_handle_of o = Some i ->
  cowmm (sb, sl, tbl) o =
    match nth_error tbl i with
    | None => ret sb sl tbl RNoSlot
    | Some (HB h) => let '(sb1, r) := m_step sb (op_set_handle o h) in ret sb1 sl tbl r
    | Some (HL h) => let '(sl1, r) := m_step sl (op_set_handle o h) in ret sb sl1 tbl r
    | Some (HU u) => let '(sb1, sl1, u1, r) := uf_op m_step m_step sb sl u o in ret sb1 sl1 (list_set i (HU u1) tbl) r
    end.
Proof. destruct o; cbn [op_handle_of]; intros H; try discriminate H; inversion H; subst; reflexivity. Qed.

Lemma op_set_handle_of o i h : op_handle_of o = Some i -> op_handle_of (op_set_handle o h) <> None.
Proof. destruct o; cbn; intros H; try discriminate H; discriminate. Qed.

Lemma cow_hop_failed sb sl tbl o i : union_handles_inert sl tbl -> op_handle_of o = Some i ->
  res_is_err (snd (cowmm (sb, sl, tbl) o)) = true ->
  fs_view (layer (fst (cowmm (sb, sl, tbl) o))) = fs_view sl.
Proof.
  intros Hin Ho. rewrite (cow_hop sb sl tbl o i Ho).
  destruct (nth_error tbl i) as [[h|h|u]|] eqn:Ht.
  - destruct (m_step sb (op_set_handle o h)) as [sb1 r]. reflexivity.
  - pose proof (layer_hop_err sl (op_set_handle o h) (op_set_handle_of o i h Ho)) as Hx.
    destruct (m_step sl (op_set_handle o h)) as [sl1 r]. cbn [ret fst snd] in *. exact Hx.
  - intros _. destruct u as [ob ol off files].
    pose proof (uf_op_L m_step m_step
      (fun s => fs_view s = fs_view sl /\ forall lh h, ol = Some lh -> nth_error (mhandles s) lh = Some h -> inert h = true) ol) as HL.
    assert (HP : forall s o0 lh, ol = Some lh -> op_handle_of o0 = Some lh ->
              (fs_view s = fs_view sl /\ forall lh h, ol = Some lh -> nth_error (mhandles s) lh = Some h -> inert h = true) ->
              (fs_view (fst (m_step s o0)) = fs_view sl /\
               forall lh h, ol = Some lh -> nth_error (mhandles (fst (m_step s o0))) lh = Some h -> inert h = true)).
    { intros s o0 lh El Ho0 [Hv Hi]. destruct (inert_hop s o0 lh Ho0 (fun h Hh => Hi lh h El Hh)) as [Hv' Hk].
      split; [congruence|]. intros lh' h' El' Hh'. destruct (Hk lh' h' Hh') as (h0 & Hh0 & Himp). apply Himp. exact (Hi lh' h0 El' Hh0). }
    specialize (HL HP sb sl ob off files o).
    destruct (uf_op m_step m_step sb sl (mkUF ob ol off files) o) as [[[sb1 sl1] u1] r]. cbn [ret fst snd] in *.
    apply HL. split; [reflexivity|]. intros lh h El Hh. exact (Hin i (mkUF ob ol off files) lh h Ht El Hh).
  - reflexivity.
Qed.

Lemma cow_open_layer_view sb sl tbl name : WF sb -> WF sl ->
  fs_view (layer (fst (cow_open m_step m_step sb sl tbl name))) = fs_view sl.
Proof.
  intros Wb W. unfold cow_open. rewrite (is_base_file_mem sb sl name Wb W).
  assert (OL : forall (sb' : mst) sl1, fs_view sl1 = fs_view sl ->
            fs_view (layer (fst (open_layer m_step sb' sl1 tbl (Open name)))) = fs_view sl).
  { intros sb' sl1 Hv. unfold open_layer. pose proof (layer_open_view sl1 name) as Hx.
    destruct (m_step sl1 (Open name)) as [sl2 r]. cbn [fst] in Hx. destruct r; cbn [alloc_ch ret fst snd]; congruence. }
  assert (Tail : forall (sb' : mst), fs_view (layer (fst (
            match l_is_dir m_step (tick sl) name with
            | (sl2, inr er) => ret sb' sl2 tbl (RErr er)
            | (sl2, inl false) => open_layer m_step sb' sl2 tbl (Open name)
            | (sl2, inl true) =>
              match b_is_dir m_step sb' name with
              | (sb2, inl true) =>
                let '(sb3, rb) := m_step sb2 (Open name) in
                let '(sl3, rl) := m_step sl2 (Open name) in
                match rb, rl with
                | RHandle bh, RHandle lh => let '(tbl1, i) := alloc_ch tbl (HU (mkUF (Some bh) (Some lh) 0 [])) in ret sb3 sl3 tbl1 (RHandle i)
                | _, _ => ret sb3 sl3 tbl (RErr (E KCombined))
                end
              | (sb2, _) => open_layer m_step sb2 sl2 tbl (Open name)
              end
            end))) = fs_view sl).
  { intros sb'. pose proof (l_is_dir_view (tick sl) name) as Hv2.
    change (fs_view (tick sl)) with (fs_view sl) in Hv2.
    destruct (l_is_dir m_step (tick sl) name) as [sl2 [[|]|er]]; cbn [fst] in Hv2.
    - destruct (b_is_dir m_step sb' name) as [sb2 [[|]|er]]; try (apply OL; exact Hv2).
      destruct (m_step sb2 (Open name)) as [sb3 rb]. pose proof (layer_open_view sl2 name) as Hx.
      destruct (m_step sl2 (Open name)) as [sl3 rl]. cbn [fst] in Hx.
      destruct rb, rl; cbn [alloc_ch ret fst snd]; congruence.
    - apply OL. exact Hv2.
    - cbn [ret fst snd]. exact Hv2. }
  destruct (lookup sl (normalize_path name)); [apply Tail|].
  destruct (lookup sb (normalize_path name)); [|apply Tail].
  unfold open_base. destruct (m_step (tick sb) (Open name)) as [sb2 r]. destruct r; reflexivity.
Qed.

Lemma layer_mkdirall_err s p perm : WF s -> wf_name p = true ->
  res_is_err (snd (m_step s (MkdirAll p perm))) = true -> fs_view (fst (m_step s (MkdirAll p perm))) = fs_view s.
Proof.
  intros W Hw. destruct (layer_mkdirall s p perm W Hw) as [(_ & _ & ->) | (_ & s' & -> & _)]; [reflexivity | discriminate].
Qed.

Lemma wf_op_tick s o : wf_op (tick s) o = wf_op s o.
Proof. reflexivity. Qed.

Theorem cow_failed_call_view sb sl tbl o :
  WF sb -> WF sl -> all_inert sb -> union_handles_inert sl tbl ->
  op_names_abs o = true -> cow_call_ok sb sl o ->
  res_is_err (snd (cowmm (sb, sl, tbl) o)) = true ->
  fs_view (fst (fst (fst (cowmm (sb, sl, tbl) o)))) = fs_view sb /\
  forall k, uview (fst (fst (fst (cowmm (sb, sl, tbl) o)))) (layer (fst (cowmm (sb, sl, tbl) o))) k = uview sb sl k.
Proof.
  intros Wb W Hinert Htbl Habs Hok Herr.
  (* the base: C05 *)
  assert (Hbase : fs_view (fst (fst (fst (cowmm (sb, sl, tbl) o)))) = fs_view sb).
  { pose proof (cow_step_P m_step m_step (fun s => fs_view s = fs_view sb /\ all_inert s)) as HP.
    assert (HK : forall s o0, ro_passes o0 = true -> (fs_view s = fs_view sb /\ all_inert s) ->
               (fs_view (fst (m_step s o0)) = fs_view sb /\ all_inert (fst (m_step s o0)))).
    { intros s o0 Hr [Hv Hi]. destruct (reading_step s o0 Hr Hi) as [Hv' Hi']. split; [congruence | exact Hi']. }
    destruct (HP HK (sb, sl, tbl) o (conj eq_refl Hinert)) as [Hv _]. exact Hv. }
  split; [exact Hbase|].
  assert (Hlayer : absorbed sb sl (layer (fst (cowmm (sb, sl, tbl) o)))).
  { destruct (op_handle_of o) as [i|] eqn:Ho; [apply absorbed_view; exact (cow_hop_failed sb sl tbl o i Htbl Ho Herr)|].
    destruct o; try discriminate Ho; cbn [op_names_abs] in Habs; cbn [cow_call_ok] in Hok; cbn [cow_step] in Herr |- *.
    - (* Create *) exact (cow_openfile_failed sb sl tbl p _ _ Wb W Habs Hok Herr).
    - (* Mkdir *)
      rewrite cow_mkdir_checks_union_on in *. change (1 =? 1) with true in *. cbv iota in Herr |- *.
      rewrite (layer_stat sl p W) in *. destruct (lookup sl (normalize_path p)) as [r|] eqn:Hl.
      + destruct (GWF_lookup_node _ _ _ _ _ _ W Hl) as (n & Hn). rewrite Hn in *. now apply absorbed_view.
      + cbn [err_of res_err cow_is_not_exist ek EW] in Herr |- *. rewrite (layer_stat sb p Wb) in *.
        destruct (lookup sb (normalize_path p)) as [rb|] eqn:Hb.
        * destruct (GWF_lookup_node _ _ _ _ _ _ Wb Hb) as (n & Hn). rewrite Hn in *. now apply absorbed_view.
        * pose proof (layer_mkdirall_err (tick sl) p perm (WF_tick _ W) (abs_wf p Habs)) as Hx.
          destruct (m_step (tick sl) (MkdirAll p perm)) as [sl2 r2]. cbn [ret fst snd] in *. apply absorbed_view. now apply Hx.
    - (* MkdirAll *)
      rewrite (b_is_dir_mem sb p Wb) in *.
      assert (Hm : forall sb' : mst,
                res_is_err (snd (let '(sl1, r) := m_step sl (MkdirAll p perm) in ret sb' sl1 tbl r)) = true ->
                absorbed sb sl (layer (fst (let '(sl1, r) := m_step sl (MkdirAll p perm) in ret sb' sl1 tbl r)))).
      { intros sb'. pose proof (layer_mkdirall_err sl p perm W (abs_wf p Habs)) as Hx.
        destruct (m_step sl (MkdirAll p perm)) as [sl2 r2]. cbn [ret fst snd] in *. intros He. apply absorbed_view. now apply Hx. }
      destruct (lookup sb (normalize_path p)) as [rb|] eqn:Hb; [|now apply Hm].
      destruct (get_node sb rb) as [n|]; [|now apply Hm]. destruct (ndir n); [discriminate Herr | now apply Hm].
    - (* Open *) apply absorbed_view. now apply cow_open_layer_view.
    - (* OpenFile *) exact (cow_openfile_failed sb sl tbl p flag perm Wb W Habs Hok Herr).
    - (* Remove *)
      pose proof (layer_remove_err sl (Remove p) p (or_introl eq_refl)) as Hx.
      destruct (m_step sl (Remove p)) as [sl1 r]. cbn [fst snd] in Hx. apply absorbed_view.
      destruct r; cbn [ret fst snd] in *; try (now apply Hx); try discriminate Herr.
      destruct (errk_eqb (ek e) KENOENT && negb (ewrapped e)); [destruct (m_step sb (Stat p)) as [sb1 rb]; destruct rb|]; cbn [ret fst snd]; now apply Hx.
    - (* RemoveAll *)
      pose proof (layer_remove_err sl (RemoveAll p) p (or_intror eq_refl)) as Hx.
      destruct (m_step sl (RemoveAll p)) as [sl1 r]. cbn [fst snd] in Hx. apply absorbed_view.
      destruct r; cbn [ret fst snd] in *; try (now apply Hx); try discriminate Herr.
      destruct (errk_eqb (ek e) KENOENT && negb (ewrapped e)); [destruct (m_step sb (Stat p)) as [sb1 rb]; destruct rb|]; cbn [ret fst snd]; now apply Hx.
    - (* Rename *)
      apply andb_true_iff in Habs as [Hp Hq].
      rewrite (is_base_file_mem sb sl p Wb W) in *. apply absorbed_view.
      destruct (lookup sl (normalize_path p)) as [r|] eqn:Hl.
      + destruct Hok as [Hwf | Hx]; [|discriminate Hx].
        pose proof (failed_call_is_noop (tick sl) (Rename p q) (WF_tick _ W) Hwf) as Hx.
        destruct (m_step (tick sl) (Rename p q)) as [sl2 r2]. cbn [ret fst snd] in *. now apply Hx.
      + destruct (lookup sb (normalize_path p)); [reflexivity|].
        rewrite m_step_tick. cbn [m_step_raw]. unfold m_rename. change (lookup (tick sl) (normalize_path p)) with (lookup sl (normalize_path p)).
        rewrite Hl. match goal with |- context [if ?c then _ else _] => destruct c end; reflexivity.
    - (* Stat *)
      apply absorbed_view. pose proof (layer_stat_view sl p) as Hx. destruct (m_step sl (Stat p)) as [sl1 r]. cbn [fst] in Hx.
      destruct r; cbn [ret fst snd]; try exact Hx;
        (destruct (cow_is_not_exist _); [destruct (m_step sb (Stat p)) as [sb1 rb]|]; cbn [ret fst snd]; exact Hx).
    - (* Chmod *) exact (cow_meta_failed sb sl tbl p _ Wb W Habs Hok (or_introl (ex_intro _ m eq_refl)) Herr).
    - (* Chown *) exact (cow_meta_failed sb sl tbl p _ Wb W Habs Hok (or_intror (or_introl (ex_intro _ u (ex_intro _ g eq_refl)))) Herr).
    - (* Chtimes *) exact (cow_meta_failed sb sl tbl p _ Wb W Habs Hok (or_intror (or_intror (ex_intro _ t eq_refl))) Herr). }
  intros k. unfold uview at 1. rewrite (cview_ext _ _ Hbase k). exact (absorbed_uview sb sl _ Hlayer k).
Qed.
End Main.

(* ---------------- the corner that is excluded, with a witness ---------------- *)
(* MemMapFs lets a program open a DIRECTORY with write access and write through the handle; the node
   then carries bytes while Stat keeps reporting the fixed directory size 42.  If it carries exactly 42
   bytes, copyFile's size check passes and copy-up turns the base's directory into a regular FILE of the
   overlay: OpenFile(O_RDWR|O_CREATE|O_EXCL) of that name through the union fails with EEXIST after
   having changed what the union shows under the name (corpus/C06/dir-with-bytes.case replays it). *)
Definition rf_d : str := [47;100]%N.
Definition rf_base1 : mst := fst (run_steps m_step m_init [Mkdir rf_d 493]).
Definition rf_base : mst := fst (run_steps m_step rf_base1 [OpenFile rf_d o_rdwr 0; HWrite 0 (repeat 120%N 42); HClose 0]).
Definition rf_call : op := OpenFile rf_d (Z.lor o_rdwr (Z.lor o_create o_excl)) 420.

Lemma rf_base_WF : WF rf_base.
Proof.
  assert (W1 : WF rf_base1) by (apply index_mirrors_map; vm_compute; reflexivity).
  assert (W2 : WF (fst (m_step rf_base1 (OpenFile rf_d o_rdwr 0)))).
  { apply (WF_view rf_base1); [vm_compute; reflexivity | vm_compute; reflexivity | exact W1]. }
  unfold rf_base. cbn [run_steps].
  destruct (m_step rf_base1 (OpenFile rf_d o_rdwr 0)) as [s2 r2] eqn:E2. cbn [fst] in W2.
  pose proof (WF_step s2 (HWrite 0 (repeat 120%N 42)) W2 eq_refl) as W3.
  destruct (m_step s2 (HWrite 0 (repeat 120%N 42))) as [s3 r3]. cbn [fst] in W3.
  pose proof (WF_step s3 (HClose 0) W3 eq_refl) as W4.
  destruct (m_step s3 (HClose 0)) as [s4 r4]. exact W4.
Qed.

Theorem failed_call_dir_with_bytes_refuted :
  exists sb sl tbl o k,
    WF sb /\ WF sl /\ all_inert sb /\ union_handles_inert sl tbl /\ op_names_abs o = true /\
    ~ dir_no_bytes sb (normalize_path rf_d) /\
    res_is_err (snd (cow_step m_step m_step (sb, sl, tbl) o)) = true /\
    uview sb sl k = Some (true, []) /\
    uview (fst (fst (fst (cow_step m_step m_step (sb, sl, tbl) o)))) (snd (fst (fst (cow_step m_step m_step (sb, sl, tbl) o)))) k
      = Some (false, repeat 120%N 42).
Proof.
  exists rf_base, m_init, [], rf_call, rf_d.
  split; [exact rf_base_WF|]. split; [exact WF_init|].
  split. { intros i h Hh. destruct i as [|[|i]]; vm_compute in Hh; [inversion Hh; reflexivity | discriminate | discriminate]. }
  split. { intros i u lh h Hn. destruct i; discriminate Hn. }
  split; [reflexivity|].
  split. { intros H. specialize (H 1%nat). vm_compute in H. specialize (H _ eq_refl eq_refl eq_refl). discriminate H. }
  split; [vm_compute; reflexivity|]. split; vm_compute; reflexivity.
Qed.

(* ---------------- writing to a file the OVERLAY already holds ---------------- *)
Lemma LF_of_cview s nn d : cview s nn = Some (false, d) -> exists g, LF nn g s d None.
Proof.
  unfold cview. destruct (lookup s nn) as [g|] eqn:Hl; [|discriminate]. destruct (get_node s g) as [n|] eqn:Hn; [|discriminate].
  destruct (ndir n) eqn:Hd; [discriminate|]. intros H. inversion H. exists g. split; [exact Hl|]. exists n. now repeat split.
Qed.

(* the directory CopyOnWriteFs.OpenFile looks at is filepath.Dir of the name AS GIVEN; it is the parent of
   the normalised name whenever the last element of the name is an ordinary one *)
Lemma dir_key_good_last name : wf_name name = true -> MemCreate.good_seg (snd (path_split name)) ->
  normalize_path (path_dir name) = par (normalize_path name).
Proof.
  intros Hw Hg. pose proof (wf_name_canon name Hw) as Hc.
  destruct (MemCreate.parent_key_by_split name Hg) as [H _]. unfold MemCreate.parent_key in H.
  unfold path_dir at 1. rewrite normalize_clean, <- H.
  change (path_dir (normalize_path name)) with (par (normalize_path name)). apply canon_norm. now apply canon_par.
Qed.

Section OverlayWrite.
Notation cowmm := (cow_step m_step m_step).

Theorem cow_write_overlay_file sb sl tbl name flag perm g d mt ops :
  WF sb -> WF sl -> wf_name name = true ->
  let nn := normalize_path name in
  LF nn g sl d mt -> normalize_path (path_dir name) = par nn ->
  Z.land flag cow_mask <> 0 -> flag_has flag o_excl && flag_has flag o_create = false ->
  let i := length tbl in
  Forall (fun o => op_handle_of o = Some i /\ file_op o = true) ops ->
  let spec := ByteFile.bf_run (spec_open flag d) (map (fun o => op_set_handle o 0) ops) in
  exists sb' sl' lh outs g',
    run_steps cowmm (sb, sl, tbl) (OpenFile name flag perm :: ops) = ((sb', sl', tbl ++ [HL lh]), RHandle i :: outs) /\
    length outs = length ops /\ MemFileProof.proj_all ops outs = snd spec /\
    fs_view sb' = fs_view sb /\
    LF nn g' sl' (ByteFile.bdata (fst spec)) None /\ WF sl' /\ (forall k, k <> nn -> cview sl' k = cview sl k).
Proof.
  intros Wb W Hw nn Hlf Hdir Hmask Hex i Hall spec.
  pose proof (wf_name_canon name Hw) as Hc. fold nn in Hc.
  destruct Hlf as [Hl (n & Hn & Hd & Hdn & _)].
  assert (Hroot : nn <> s_slash).
  { intros E. destruct (g_root _ _ _ _ W) as (r0 & n0 & Hl0 & Hn0 & _ & Hd0). rewrite E in Hl. congruence. }
  destruct (g_par _ _ _ _ W nn g Hl (WF_fresh sl nn g W Hl) Hroot) as (p & pn & Hp & Hpn & Hpd & _); [intros [] | intros [] |].
  assert (Hcv : cview sl nn = Some (false, d)) by (rewrite (cview_some sl nn g n Hl Hn), Hdn, Hd; reflexivity).
  (* whatever the base says about the directory, the call ends in the overlay's own OpenFile on a state
     that still holds the file *)
  assert (Pre : exists (sb1 : mst) sl1, fs_view sb1 = fs_view sb /\ WF sl1 /\ (forall k, cview sl1 k = cview sl k) /\
            cowmm (sb, sl, tbl) (OpenFile name flag perm) = open_layer m_step sb1 sl1 tbl (OpenFile name flag perm)).
  { cbn [cow_step]. unfold cow_openfile. rewrite (is_base_file_mem sb sl name Wb W). fold nn. rewrite Hl.
    destruct (Z.land flag cow_mask =? 0) eqn:Em; [apply Z.eqb_eq in Em; contradiction|]. cbn [negb].
    rewrite (b_is_dir_mem sb (path_dir name) Wb), Hdir.
    assert (LD : forall sb' : mst, fs_view sb' = fs_view sb ->
              exists (sb1 : mst) sl1, fs_view sb1 = fs_view sb /\ WF sl1 /\ (forall k, cview sl1 k = cview sl k) /\
                match l_is_dir m_step (tick sl) (path_dir name) with
                | (sl2, inr er2) => ret sb' sl2 tbl (RErr er2)
                | (sl2, inl true) => open_layer m_step sb' sl2 tbl (OpenFile name flag perm)
                | (sl2, inl false) => ret sb' sl2 tbl (RErr (EW KENOTDIR))
                end = open_layer m_step sb1 sl1 tbl (OpenFile name flag perm)).
    { intros sb' Hv'. unfold l_is_dir. rewrite (layer_stat (tick sl) (path_dir name) (WF_tick _ W)), Hdir.
      change (lookup (tick sl) (par nn)) with (lookup sl (par nn)). rewrite Hp.
      change (get_node (tick sl) p) with (get_node sl p). rewrite Hpn. unfold finfo_of. cbn [fi_dir]. rewrite Hpd.
      exists sb', (tick (tick sl)). split; [exact Hv'|]. split; [apply WF_tick, WF_tick, W|]. split; [intros k; reflexivity | reflexivity]. }
    destruct (lookup sb (par nn)) as [rd|] eqn:Hbd.
    - destruct (GWF_lookup_node _ _ _ _ _ _ Wb Hbd) as (nd & Hnd). rewrite Hnd. destruct (ndir nd).
      + assert (Hwd : wf_name (path_dir name) = true) by (unfold wf_name; rewrite Hdir; apply (canon_par nn Hc)).
        destruct (layer_mkdirall (tick sl) (path_dir name) 511 (WF_tick _ W) Hwd) as [(_ & Hno & _) | (_ & sl2 & Em' & W2 & _ & _ & _ & Hg)].
        * rewrite Hdir in Hno. change (lookup (tick sl) (par nn)) with (lookup sl (par nn)) in Hno. congruence.
        * rewrite Em'. exists (tick sb), sl2. split; [reflexivity|]. split; [exact W2|]. split; [|reflexivity].
          (* nothing new: every directory MkdirAll could make is an ancestor the overlay already has *)
          intros k. destruct (Hg k) as [E | (E1 & E2 & E3)]; [exact E|]. exfalso. rewrite cview_tick in E1. rewrite Hdir in E3.
          assert (Hck : canon k) by exact (WF_cview_canon sl2 k _ W2 E2).
          pose proof (self_or_anc_cview sl (par nn) p pn k W Hp Hpn Hpd Hck E3) as Hx. congruence.
      + apply LD. reflexivity.
    - cbn [is_not_exist ek EW negb]. apply LD. reflexivity. }
  destruct Pre as (sb1 & sl1 & Hv1 & W1 & Hcv1 & Eopen).
  destruct (LF_of_cview sl1 nn d (eq_trans (Hcv1 nn) Hcv)) as (g1 & Hlf1).
  rewrite CopyUpProof.run_steps_cons, Eopen. unfold open_layer.
  destruct (layer_openfile_existing nn g1 sl1 _ _ name flag perm eq_refl W1 Hlf1 Hex) as (sl2 & Eo & W2 & F2 & Hlf2 & Fr2).
  rewrite Eo. cbn [alloc_ch ret]. set (lh := length (mhandles sl1)) in *. set (tbl1 := tbl ++ [HL lh]).
  assert (Hi : nth_error tbl1 i = Some (HL lh)) by apply nth_error_app_last.
  assert (Hall1 : Forall (fun o => op_handle_of o = Some i) ops) by (eapply Forall_impl; [|exact Hall]; now intros o [H _]).
  rewrite (cow_run_overlay_handle m_step m_step i lh ops sb1 sl2 tbl1 Hi Hall1).
  destruct (m_run_file_ops g1 lh (map (fun o => op_set_handle o lh) ops) sl2 _ _ (spec_open flag d) W2 F2
              (open_spec_rel flag d g1) (Forall_retarget i lh ops Hall))
    as (sl3 & outs & d3 & h3 & Er & Ep & W3 & F3 & R3 & Fr3).
  rewrite Er. cbn [fst snd]. rewrite map_retarget_twice in Ep, R3. rewrite proj_all_retarget in Ep. fold spec in Ep, R3.
  assert (Hlen : length outs = length ops).
  { pose proof (run_steps_length m_step (map (fun o => op_set_handle o lh) ops) sl2) as Hx. rewrite Er, map_length in Hx. exact Hx. }
  exists sb1, sl3, lh, outs, g1. split; [reflexivity|]. split; [exact Hlen|]. split; [exact Ep|]. split; [exact Hv1|].
  assert (Hl3 : lookup sl3 nn = Some g1) by (rewrite (hop_frame_lookup g1 lh sl2 sl3 nn Fr3); apply Hlf2).
  destruct R3 as [Hd3 _]. cbn [fdata] in Hd3. rewrite <- Hd3.
  split; [exact (FH_LF nn g1 lh sl3 d3 h3 Hl3 F3)|]. split; [exact W3|].
  intros k Hk'. destruct Hlf1 as [Hl1 _]. destruct Hlf2 as [Hl2 _].
  rewrite (hop_frame_cview g1 lh sl2 sl3 nn W2 Hl2 Fr3 k Hk'), (hop_frame_cview g1 lh sl1 sl2 nn W1 Hl1 Fr2 k Hk'). apply Hcv1.
Qed.
End OverlayWrite.

Lemma dir_key_ordinary_last name :
  wf_name name = true ->
  let b := snd (path_split name) in
  b <> [] -> b <> s_dot -> b <> s_dotdot -> ~ In SLASH b ->
  normalize_path (path_dir name) = par (normalize_path name).
Proof. intros Hw b H1 H2 H3 H4. apply dir_key_good_last; [exact Hw|]. split; [split; [exact H1 | split; [exact H2 | exact H3]] | exact H4]. Qed.

(* ---------------- handles never lose inertness; path methods only append handles ---------------- *)
Lemma reg_handles s f perm : mhandles (reg s f perm) = mhandles s.
Proof. destruct (MemCreate.reg_preserves s f perm) as (_ & _ & H & _). exact H. Qed.

Lemma unregister_handles s k s1 b : unregister s k = Some (s1, b) -> mhandles s1 = mhandles s.
Proof.
  unfold unregister. destruct (lockfree_open s k) as [f|]; [|intros H; inversion H; reflexivity].
  destruct (find_parent s f) as [p|]; [|discriminate]. destruct (get_node s p) as [pn|]; [|discriminate].
  destruct (nhasdir pn); [|discriminate]. intros H. inversion H. apply mhandles_upd.
Qed.

Lemma rename_one_handles old new s d s1 b : rename_one old new s d = Some (s1, b) -> mhandles s1 = mhandles s.
Proof.
  unfold rename_one. destruct (unregister s (node_name s d)) as [[s0 [|]]|] eqn:E; [| |discriminate].
  - intros H. inversion H. rewrite reg_handles. cbn [set_data mhandles]. rewrite mhandles_upd. exact (unregister_handles _ _ _ _ E).
  - intros H. inversion H; subst. exact (unregister_handles _ _ _ _ E).
Qed.

Lemma rename_descs_handles old new : forall ds s removes s1 b rm, rename_descs old new s ds removes = Some (s1, b, rm) ->
  mhandles s1 = mhandles s.
Proof.
  induction ds as [|d ds IH]; intros s removes s1 b rm; cbn [rename_descs]; [intros H; inversion H; reflexivity|].
  destruct (rename_one old new s d) as [[s0 [|]]|] eqn:E; [| |discriminate].
  - intros Hd. rewrite (IH _ _ _ _ _ Hd). exact (rename_one_handles _ _ _ _ _ _ E).
  - intros Hd. inversion Hd; subst. exact (rename_one_handles _ _ _ _ _ _ E).
Qed.

Lemma m_rename_handles s p q : mhandles (fst (m_rename s p q)) = mhandles s.
Proof.
  unfold m_rename. destruct (lookup s (normalize_path p)) as [f|];
    [|match goal with |- context [if ?c then _ else _] => destruct c end; reflexivity].
  destruct (beqb (normalize_path p) (normalize_path q)); [reflexivity|].
  destruct (below_file s (normalize_path q)); [reflexivity|].
  destruct (unregister s (normalize_path p)) as [[s1 [|]]|] eqn:E; [| |reflexivity].
  - pose proof (unregister_handles _ _ _ _ E) as H1.
    match goal with |- context [rename_descs ?o ?n ?s3 ?ds ?rm] => destruct (rename_descs o n s3 ds rm) as [[[s4 [|]] removes]|] eqn:Er end;
      cbn [fst].
    + rewrite reg_handles. cbn [set_data mhandles]. rewrite (rename_descs_handles _ _ _ _ _ _ _ _ Er). cbn [set_data mhandles].
      rewrite mhandles_upd. exact H1.
    + rewrite (rename_descs_handles _ _ _ _ _ _ _ _ Er). cbn [set_data mhandles]. rewrite mhandles_upd. exact H1.
    + cbn [set_data mhandles]. rewrite mhandles_upd. exact H1.
  - cbn [fst]. exact (unregister_handles _ _ _ _ E).
Qed.

Lemma set_file_mode_handles s k m : mhandles (fst (set_file_mode s k m)) = mhandles s.
Proof. unfold set_file_mode. destruct (lookup s (normalize_path k)); [apply mhandles_upd | reflexivity]. Qed.

Lemma m_create_node_handles s k : mhandles (fst (m_create_node s k)) = mhandles s.
Proof. rewrite MemCreate.m_create_node_attach. cbn [fst]. destruct (MemCreate.attach_general s k (new_file k (mclock s)) 0) as (_ & _ & _ & H & _). exact H. Qed.

(* a path method leaves every existing handle where and as it is (it may append one) *)
Lemma path_op_handles s o : op_handle_of o = None ->
  exists extra, mhandles (fst (m_step s o)) = mhandles s ++ extra.
Proof.
  intros Ho. rewrite m_step_tick. cbn [fst]. change (mhandles (tick (fst (m_step_raw s o)))) with (mhandles (fst (m_step_raw s o))).
  destruct o; try discriminate Ho; cbn [m_step_raw].
  - (* Create *) unfold m_create. cbv zeta.
    match goal with |- context [match ?x with Some _ => _ | None => (s, RErr _) end] => destruct x as [[s1 f]|] eqn:Epre end;
      [|exists []; now rewrite app_nil_r].
    cbn [alloc_handle fst mhandles]. eexists. f_equal.
    match type of Epre with
    | match ?ef with Some _ => _ | None => _ end = _ => destruct ef as [f0|]
    end.
    + inversion Epre; subst. apply mhandles_upd.
    + destruct (below_file s (normalize_path p)); [discriminate|].
      pose proof (m_create_node_handles s (normalize_path p)) as Hc. destruct (m_create_node s (normalize_path p)) as [sx fx].
      inversion Epre; subst. exact Hc.
  - (* Mkdir *) exists []. rewrite app_nil_r. unfold m_mkdir. destruct (lookup s (normalize_path p)); [reflexivity|].
    destruct (below_file s (normalize_path p)); [reflexivity|]. cbn [alloc_node]. rewrite set_file_mode_handles, reg_handles. reflexivity.
  - (* MkdirAll *) exists []. rewrite app_nil_r. rewrite m_mkdirall_fst. unfold m_mkdir. destruct (lookup s (normalize_path p)); [reflexivity|].
    destruct (below_file s (normalize_path p)); [reflexivity|]. cbn [alloc_node]. rewrite set_file_mode_handles, reg_handles. reflexivity.
  - (* Open *) unfold m_open. destruct (lookup s (normalize_path p)); [|exists []; now rewrite app_nil_r].
    cbn [alloc_handle fst mhandles]. eexists. reflexivity.
  - (* OpenFile *) unfold m_openfile. cbv zeta.
    assert (Tail : forall (s1 : mst) (f : nat) (created : bool), mhandles s1 = mhandles s ->
      exists extra, mhandles (fst (
        let ro := Z.land flag memfs_access_mask =? 0 in
        let data := match get_node s1 f with Some n => ndata n | None => [] end in
        let at_ := if flag_has flag o_append then zlen data else 0 in
        let trunc := flag_has flag o_trunc && flag_has flag (Z.lor o_rdwr o_wronly) in
        let s2 := if trunc && negb ro then upd_node s1 f (fun n => with_mtime (mclock s1) (with_data [] n)) else s1 in
        let '(s3, h) := alloc_handle s2 (mkH f (if trunc && negb ro then at_ else at_) 0 false ro) in
        if trunc && ro then (s2, RErr (EW KReadOnlyHandle))
        else if created then match set_file_mode s3 (normalize_path p) (Z.land perm chmod_bits) with (s4, ROk) => (s4, RHandle h) | (s4, r) => (s4, r) end
        else (s3, RHandle h))) = mhandles s ++ extra).
    { intros s1 f created H1. cbv zeta.
      set (tr := flag_has flag o_trunc && flag_has flag (Z.lor o_rdwr o_wronly)). set (ro := Z.land flag memfs_access_mask =? 0).
      assert (H2 : mhandles (if tr && negb ro then upd_node s1 f (fun n => with_mtime (mclock s1) (with_data [] n)) else s1) = mhandles s)
        by (destruct (tr && negb ro); [rewrite mhandles_upd|]; exact H1).
      cbn [alloc_handle]. destruct (tr && ro); [exists []; rewrite app_nil_r; exact H2|].
      destruct created.
      - match goal with |- context [set_file_mode ?a ?b ?c] => pose proof (set_file_mode_handles a b c) as H4; destruct (set_file_mode a b c) as [s4 r4] end.
        cbn [fst] in H4. eexists. destruct r4; cbn [fst]; rewrite H4; cbn [mhandles]; rewrite H2; reflexivity.
      - cbn [fst mhandles]. rewrite H2. eexists. reflexivity. }
    destruct (lookup s (normalize_path p)) as [f|].
    + destruct (flag_has flag o_excl && flag_has flag o_create); [exists []; now rewrite app_nil_r|]. exact (Tail s f false eq_refl).
    + destruct (flag_has flag o_create); [|exists []; now rewrite app_nil_r].
      destruct (below_file s (normalize_path p)); [exists []; now rewrite app_nil_r|].
      pose proof (m_create_node_handles s (normalize_path p)) as H. destruct (m_create_node s (normalize_path p)) as [s1 f]. exact (Tail s1 f true H).
  - (* Remove *) exists []. rewrite app_nil_r. unfold m_remove. destruct (lookup s (normalize_path p)); [|reflexivity].
    destruct (unregister s (normalize_path p)) as [[s1 [|]]|] eqn:E; [| |reflexivity]; cbn [fst set_data mhandles]; exact (unregister_handles _ _ _ _ E).
  - (* RemoveAll *) exists []. rewrite app_nil_r. unfold m_removeall.
    destruct (unregister s (normalize_path p)) as [[s1 b]|] eqn:E; [|reflexivity]. cbn [fst set_data mhandles]. exact (unregister_handles _ _ _ _ E).
  - (* Rename *) exists []. rewrite app_nil_r. apply m_rename_handles.
  - (* Stat *) exists []. rewrite app_nil_r. unfold m_stat. destruct (lookup s (normalize_path p)) as [f|]; [|reflexivity]. now destruct (get_node s f).
  - (* Chmod *) exists []. rewrite app_nil_r. unfold m_chmod. destruct (lookup s (normalize_path p)); [apply set_file_mode_handles | reflexivity].
  - (* Chown *) exists []. rewrite app_nil_r. unfold m_chown. destruct (lookup s (normalize_path p)); [apply mhandles_upd | reflexivity].
  - (* Chtimes *) exists []. rewrite app_nil_r. unfold m_chtimes. destruct (lookup s (normalize_path p)); [apply mhandles_upd | reflexivity].
Qed.

Lemma nth_error_set_fwd {A} (l : list A) i v j x : nth_error l j = Some x ->
  nth_error (list_set i v l) j = Some (if Nat.eqb i j then v else x).
Proof.
  intros Hj. destruct (Nat.eqb i j) eqn:E.
  - apply Nat.eqb_eq in E. subst j. apply nth_list_set_same. apply nth_error_Some. congruence.
  - apply Nat.eqb_neq in E. rewrite nth_list_set_other by exact E. exact Hj.
Qed.

(* EVERY method of MemMapFs and of its handles: a handle that is read-only or closed stays where it is and
   stays read-only or closed *)
Theorem layer_step_keeps_inert s o j h :
  nth_error (mhandles s) j = Some h -> inert h = true ->
  exists h', nth_error (mhandles (fst (m_step s o))) j = Some h' /\ inert h' = true.
Proof.
  intros Hj Hi. destruct (op_handle_of o) as [i|] eqn:Ho.
  - (* a handle method *)
    rewrite m_step_tick. cbn [fst]. change (mhandles (tick (fst (m_step_raw s o)))) with (mhandles (fst (m_step_raw s o))).
    assert (Keep : forall s' : mst, mhandles s' = mhandles s -> exists h', nth_error (mhandles s') j = Some h' /\ inert h' = true)
      by (intros s' E; rewrite E; eauto).
    assert (Set_ : forall hd h' : hnd, nth_error (mhandles s) i = Some hd -> inert h' = inert hd \/ inert h' = true ->
              exists h'', nth_error (mhandles (set_handle s i h')) j = Some h'' /\ inert h'' = true).
    { intros hd h' Hhd Hx. cbn [set_handle mhandles]. rewrite (nth_error_set_fwd _ i h' j h Hj).
      eexists. split; [reflexivity|]. destruct (Nat.eqb i j) eqn:E; [|exact Hi].
      apply Nat.eqb_eq in E. subst j. destruct Hx as [Hx | Hx]; [|exact Hx]. rewrite Hx. congruence. }
    destruct o; try discriminate Ho; cbn [op_handle_of] in Ho; inversion Ho; subst; clear Ho; cbn [m_step_raw]; unfold m_hop;
      (destruct (nth_error (mhandles s) i) as [hd|] eqn:Hh; [|now apply Keep]);
      (destruct (get_node s (href hd)) as [nd|]; [|now apply Keep]).
    + pose proof (f_read_inert (ndata nd) hd n) as Hx. destruct (f_read (ndata nd) hd n) as [h' r]. cbn [fst] in *. apply (Set_ hd h' eq_refl). now left.
    + pose proof (f_readat_inert (ndata nd) hd n off) as Hx. destruct (f_readat (ndata nd) hd n off) as [h' r]. cbn [fst] in *. apply (Set_ hd h' eq_refl). now left.
    + pose proof (f_write_inert_h (ndata nd) hd b) as Hx. destruct (f_write (ndata nd) hd b) as [[d h'] r]. cbn [fst snd] in *.
      destruct d; cbn [put_data]; [rewrite mhandles_upd|]; apply (Set_ hd h' eq_refl); now left.
    + pose proof (f_writeat_inert_h (ndata nd) hd b off) as Hx. destruct (f_writeat (ndata nd) hd b off) as [[d h'] r]. cbn [fst snd] in *.
      destruct d; cbn [put_data]; [rewrite mhandles_upd|]; apply (Set_ hd h' eq_refl); now left.
    + pose proof (f_write_inert_h (ndata nd) hd b) as Hx. destruct (f_write (ndata nd) hd b) as [[d h'] r]. cbn [fst snd] in *.
      destruct d; cbn [put_data]; [rewrite mhandles_upd|]; apply (Set_ hd h' eq_refl); now left.
    + pose proof (f_seek_inert (ndata nd) hd off whence) as Hx. destruct (f_seek (ndata nd) hd off whence) as [h' r]. cbn [fst] in *. apply (Set_ hd h' eq_refl). now left.
    + destruct (f_truncate (ndata nd) hd n) as [d r]. cbn [fst]. destruct d; cbn [put_data]; [rewrite mhandles_upd|]; now apply Keep.
    + destruct (hclosed hd); [now apply Keep|]. cbn [fst].
      destruct (hro hd); [|rewrite mhandles_upd]; apply (Set_ hd (set_closed hd) eq_refl); right; unfold inert; cbn; apply orb_true_r.
    + assert (Hm : forall c, exists h'', nth_error (mhandles (fst (fst (m_readdir s i hd c)))) j = Some h'' /\ inert h'' = true).
      { intros c. unfold m_readdir. destruct (get_node s (href hd)) as [n0|]; [|now apply Keep].
        destruct (negb (ndir n0)); [now apply Keep|]. cbn [fst]. apply (Set_ hd _ eq_refl). now left. }
      specialize (Hm n). destruct (m_readdir s i hd n) as [[s1 infos] e]. cbn [fst] in Hm.
      destruct e as [er|]; [destruct infos; [destruct (errk_eqb (ek er) KEOF)|]|]; exact Hm.
    + assert (Hm : forall c, exists h'', nth_error (mhandles (fst (fst (m_readdir s i hd c)))) j = Some h'' /\ inert h'' = true).
      { intros c. unfold m_readdir. destruct (get_node s (href hd)) as [n0|]; [|now apply Keep].
        destruct (negb (ndir n0)); [now apply Keep|]. cbn [fst]. apply (Set_ hd _ eq_refl). now left. }
      specialize (Hm n). destruct (m_readdir s i hd n) as [[s1 infos] e]. cbn [fst] in Hm.
      destruct e as [er|]; [destruct infos; [destruct (errk_eqb (ek er) KEOF)|]|]; exact Hm.
    + now apply Keep.
    + now apply Keep.
    + now apply Keep.
  - destruct (path_op_handles s o Ho) as (extra & E). rewrite E. exists h. split; [|exact Hi].
    rewrite nth_error_app1; [exact Hj|]. apply nth_error_Some. congruence.
Qed.

(* and the handle CopyOnWriteFs.Open obtains from the layer is read-only *)
Lemma layer_open_handle_inert s p s' lh : m_step s (Open p) = (s', RHandle lh) ->
  exists h, nth_error (mhandles s') lh = Some h /\ inert h = true.
Proof.
  rewrite m_step_tick. cbn [m_step_raw]. unfold m_open. destruct (lookup s (normalize_path p)) as [f|]; [|discriminate].
  cbn [alloc_handle fst snd]. intros H. inversion H; subst. exists (mkH f 0 0 false true). split; [apply nth_error_app_last | reflexivity].
Qed.

(* ---------------- the vocabulary of Props/C06.v, spelled out ---------------- *)
Lemma file_op_meaning o :
  file_op o = true <->
  match o with
  | HRead _ n | HReadAt _ n _ => 0 <= n
  | HWrite _ _ | HWriteAt _ _ _ | HWriteString _ _ | HSeek _ _ _ | HTruncate _ _ | HClose _ | HStat _ | HSync _ => True
  | _ => False
  end.
Proof. destruct o; cbn; try tauto; try (split; [discriminate | tauto]); apply Z.leb_le. Qed.

Lemma spec_open_meaning flag data :
  spec_open flag data =
  let ro := Z.land flag memfs_access_mask =? 0 in
  let trunc := flag_has flag o_trunc && flag_has flag (Z.lor o_rdwr o_wronly) && negb ro in
  ByteFile.mkBS (if trunc then [] else data) [ByteFile.mkBH (Z.to_nat (if flag_has flag o_append then zlen data else 0)) false ro].
Proof. reflexivity. Qed.

Lemma proj_all_meaning ops outs :
  MemFileProof.proj_all ops outs = map (fun '(o, r) => ByteFile.proj o r) (combine ops outs).
Proof. reflexivity. Qed.

Lemma uview_meaning sb sl k : uview sb sl k = match cview sl k with Some e => Some e | None => cview sb k end.
Proof. reflexivity. Qed.

Lemma op_names_abs_meaning o :
  op_names_abs o = match o with
                   | Create p | Mkdir p _ | MkdirAll p _ | Open p | OpenFile p _ _ | Remove p | RemoveAll p | Stat p
                   | Chmod p _ | Chown p _ _ | Chtimes p _ => is_rooted p
                   | Rename p q => is_rooted p && is_rooted q
                   | _ => true
                   end.
Proof. reflexivity. Qed.

Lemma failed_call_hyps_meaning sb sl tbl o :
  (union_handles_inert sl tbl <->
   forall i u lh h, nth_error tbl i = Some (HU u) -> ulayer u = Some lh -> nth_error (mhandles sl) lh = Some h ->
     hro h || hclosed h = true) /\
  (cow_call_ok sb sl o <->
   match o with
   | Rename p q => wf_op sl (Rename p q) = true \/ lookup sl (normalize_path p) = None
   | Create p | OpenFile p _ _ | Chmod p _ | Chown p _ _ | Chtimes p _ =>
       forall f nd, lookup sb (normalize_path p) = Some f -> get_node sb f = Some nd -> ndir nd = true -> ndata nd = []
   | _ => True
   end).
Proof. split; [reflexivity | destruct o; reflexivity]. Qed.
