(* Proofs/MatchNoEscProof.v — C16: the matcher with escapes (Model/Glob.v [match_seg], the
   transcription of filepath.Match both Globs use) agrees with the escape-free matcher
   (Model/MatchNoEsc.v [match_seg_ne]) on every pattern without a backslash, for every name:
   same verdict, same ErrBadPattern.  So everything proved about escape-free patterns is a
   statement about either matcher. *)
From AF Require Import Lib.Bytes Lib.Path Model.Walk Model.Glob Model.MatchNoEsc Proofs.GlobProof.

Lemma ne_cons : forall c r, no_escape (c :: r) = true -> N.eqb c BSLASH = false /\ no_escape r = true.
Proof.
  intros c r H. unfold no_escape in *. cbn [forallb] in H. apply andb_prop in H. destruct H as [H1 H2].
  apply negb_true_iff in H1. split; assumption.
Qed.

Lemma ne_tl : forall p, no_escape p = true -> no_escape (tl p) = true.
Proof. intros [|c r] H; [reflexivity|]. apply (ne_cons c r H). Qed.

Lemma ne_app : forall a b, no_escape a = true -> no_escape b = true -> no_escape (a ++ b) = true.
Proof. intros a b Ha Hb. unfold no_escape in *. rewrite forallb_app, Ha, Hb. reflexivity. Qed.

(* ---------- getEsc ---------- *)
Lemma get_esc_ne : forall chunk, no_escape chunk = true -> get_esc chunk = get_lit chunk.
Proof.
  intros [|c rest] H; [reflexivity|]. destruct (ne_cons c rest H) as [Hb _].
  unfold get_esc, get_lit. rewrite Hb. reflexivity.
Qed.

Lemma get_lit_rest : forall chunk r n, get_lit chunk = Some (r, n) -> n = tl chunk.
Proof.
  intros [|c rest] r n H; [discriminate H|]. unfold get_lit in H.
  destruct (N.eqb c DASH || N.eqb c RBRACK); [discriminate|].
  destruct rest; [discriminate|]. injection H as _ <-. reflexivity.
Qed.

(* ---------- the class loop ---------- *)
Lemma class_loop_ne_eq : forall fuel chunk r nrange matched, no_escape chunk = true ->
  class_loop fuel chunk r nrange matched = class_loop_ne fuel chunk r nrange matched
  /\ (forall m c3, class_loop_ne fuel chunk r nrange matched = Some (m, c3) -> no_escape c3 = true).
Proof.
  induction fuel as [|f IH]; intros chunk r nrange matched Hne; [split; [reflexivity|discriminate]|].
  cbn [class_loop class_loop_ne].
  destruct (match chunk with c :: _ => N.eqb c RBRACK && negb (Nat.eqb nrange 0) | [] => false end).
  { split; [reflexivity|]. intros m c3 H. injection H as _ <-. apply ne_tl. exact Hne. }
  rewrite (get_esc_ne chunk Hne).
  destruct (get_lit chunk) as [[lo chunk1]|] eqn:E1; [|split; [reflexivity|discriminate]].
  assert (Hne1 : no_escape chunk1 = true).
  { rewrite (get_lit_rest _ _ _ E1). apply ne_tl. exact Hne. }
  destruct chunk1 as [|c rest1].
  { apply IH. exact Hne1. }
  destruct (N.eqb c DASH).
  - assert (Hner : no_escape rest1 = true) by (apply (ne_cons c rest1 Hne1)).
    rewrite (get_esc_ne rest1 Hner).
    destruct (get_lit rest1) as [[hi chunk2]|] eqn:E2; [|split; [reflexivity|discriminate]].
    apply IH. rewrite (get_lit_rest _ _ _ E2). apply ne_tl. exact Hner.
  - apply IH. exact Hne1.
Qed.

(* ---------- matchChunk ---------- *)
Lemma match_chunk_ne_eq : forall fuel chunk s failed, no_escape chunk = true ->
  match_chunk_f fuel chunk s failed = match_chunk_ne_f fuel chunk s failed.
Proof.
  induction fuel as [|f IH]; intros chunk s failed Hne.
  - destruct chunk; reflexivity.
  - destruct chunk as [|c chunk1]; [reflexivity|].
    destruct (ne_cons c chunk1 Hne) as [Hb Hne1].
    cbn [match_chunk_f match_chunk_ne_f].
    destruct (N.eqb c LBRACK).
    + set (chunk2 := if match chunk1 with c2 :: _ => N.eqb c2 CARET | [] => false end
                     then tl chunk1 else chunk1).
      assert (Hne2 : no_escape chunk2 = true).
      { subst chunk2. destruct (match chunk1 with c2 :: _ => N.eqb c2 CARET | [] => false end);
          [apply ne_tl|]; exact Hne1. }
      destruct (class_loop_ne_eq (S (length chunk2)) chunk2
                  (if failed || is_empty s then 0%N else hd 0%N s) 0 false Hne2) as [Eq Hc3].
      rewrite Eq.
      destruct (class_loop_ne (S (length chunk2)) chunk2
                  (if failed || is_empty s then 0%N else hd 0%N s) 0 false) as [[m chunk3]|]; [|reflexivity].
      apply IH. apply (Hc3 m chunk3). reflexivity.
    + destruct (N.eqb c QUEST); [apply IH; exact Hne1|].
      rewrite Hb. apply IH. exact Hne1.
Qed.

Lemma match_chunk_ne_eq' : forall chunk s, no_escape chunk = true ->
  match_chunk chunk s = match_chunk_ne chunk s.
Proof. intros chunk s H. apply match_chunk_ne_eq. exact H. Qed.

(* ---------- scanChunk ---------- *)
Lemma scan_aux_ne_eq : forall p ir, no_escape p = true ->
  scan_aux p ir = scan_aux_ne p ir
  /\ no_escape (fst (scan_aux_ne p ir)) = true /\ no_escape (snd (scan_aux_ne p ir)) = true.
Proof.
  induction p as [|c p IH]; intros ir Hne; [repeat split|].
  destruct (ne_cons c p Hne) as [Hb Hne1].
  cbn [scan_aux scan_aux_ne]. rewrite Hb.
  assert (Hc : no_escape [c] = true) by (unfold no_escape; cbn [forallb]; rewrite Hb; reflexivity).
  assert (K : forall ir', scan_aux p ir' = scan_aux_ne p ir' ->
              no_escape (fst (scan_aux_ne p ir')) = true -> no_escape (snd (scan_aux_ne p ir')) = true ->
              (let '(a, b) := scan_aux p ir' in (c :: a, b)) = (let '(a, b) := scan_aux_ne p ir' in (c :: a, b))
              /\ no_escape (fst (let '(a, b) := scan_aux_ne p ir' in (c :: a, b))) = true
              /\ no_escape (snd (let '(a, b) := scan_aux_ne p ir' in (c :: a, b))) = true).
  { intros ir' E Ha Hb'. rewrite E. destruct (scan_aux_ne p ir') as [a b]. cbn [fst snd] in *.
    repeat split; [|exact Hb']. exact (ne_app [c] a Hc Ha). }
  destruct (N.eqb c LBRACK).
  { destruct (IH true Hne1) as (E & Ha & Hb'). apply K; assumption. }
  destruct (N.eqb c RBRACK).
  { destruct (IH false Hne1) as (E & Ha & Hb'). apply K; assumption. }
  destruct (N.eqb c STAR).
  - destruct ir.
    + destruct (IH true Hne1) as (E & Ha & Hb'). apply K; assumption.
    + repeat split. exact Hne.
  - destruct (IH ir Hne1) as (E & Ha & Hb'). apply K; assumption.
Qed.

Lemma strip_stars_ne : forall p, no_escape p = true -> no_escape (snd (strip_stars p)) = true.
Proof.
  induction p as [|c p IH]; intros H; [reflexivity|].
  cbn [strip_stars]. destruct (N.eqb c STAR); cbn [snd]; [|exact H].
  apply IH. apply (ne_cons c p H).
Qed.

Lemma scan_chunk_ne_eq : forall p, no_escape p = true ->
  scan_chunk p = scan_chunk_ne p
  /\ no_escape (snd (fst (scan_chunk_ne p))) = true /\ no_escape (snd (scan_chunk_ne p)) = true.
Proof.
  intros p H. unfold scan_chunk, scan_chunk_ne.
  destruct (strip_stars p) as [star q] eqn:Es.
  assert (Hq : no_escape q = true) by (change q with (snd (star, q)); rewrite <- Es; apply strip_stars_ne; exact H).
  destruct (scan_aux_ne_eq q false Hq) as (E & Ha & Hb). rewrite E.
  destruct (scan_aux_ne q false) as [a b]. cbn [fst snd] in *. repeat split; assumption.
Qed.

(* ---------- the star loop and Match ---------- *)
Lemma star_loop_ne_eq : forall chunk last name, no_escape chunk = true ->
  star_loop chunk last name = star_loop_ne chunk last name.
Proof.
  intros chunk last name H. induction name as [|c name IH]; cbn [star_loop star_loop_ne]; [reflexivity|].
  destruct (N.eqb c SLASH); [reflexivity|].
  rewrite (match_chunk_ne_eq' chunk name H).
  destruct (match_chunk_ne chunk name) as [[t|]|]; [|exact IH|reflexivity].
  destruct (last && negb (is_empty t)); [exact IH|reflexivity].
Qed.

Lemma match_f_ne_eq : forall fuel pattern name, no_escape pattern = true ->
  match_f fuel pattern name = match_ne_f fuel pattern name.
Proof.
  induction fuel as [|f IH]; intros pattern name H.
  - destruct pattern; reflexivity.
  - destruct pattern as [|c0 p0]; [reflexivity|].
    cbn [match_f match_ne_f].
    destruct (scan_chunk_ne_eq (c0 :: p0) H) as (E & Hc & Hr). rewrite E.
    destruct (scan_chunk_ne (c0 :: p0)) as [[star chunk] rest]. cbn [fst snd] in Hc, Hr.
    destruct (star && is_empty chunk); [reflexivity|].
    rewrite (star_loop_ne_eq chunk (is_empty rest) name Hc).
    rewrite (match_chunk_ne_eq' chunk name Hc).
    assert (Haf : (if star
                   then match star_loop_ne chunk (is_empty rest) name with
                        | Some (Some t) => match_f f rest t
                        | Some None => Some false
                        | None => None
                        end
                   else Some false)
                  = (if star
                     then match star_loop_ne chunk (is_empty rest) name with
                          | Some (Some t) => match_ne_f f rest t
                          | Some None => Some false
                          | None => None
                          end
                     else Some false)).
    { destruct star; [|reflexivity].
      destruct (star_loop_ne chunk (is_empty rest) name) as [[t|]|]; try reflexivity. apply IH. exact Hr. }
    rewrite Haf.
    destruct (match_chunk_ne chunk name) as [[t|]|]; try reflexivity.
    destruct (is_empty t || negb (is_empty rest)); [apply IH; exact Hr|reflexivity].
Qed.

(* Match with escapes = Match without escapes on a pattern without a backslash, for every name *)
Theorem match_seg_no_escape : forall pattern name,
  no_escape pattern = true -> match_seg pattern name = match_seg_ne pattern name.
Proof. intros pattern name H. apply match_f_ne_eq. exact H. Qed.

(* in particular the verdict "well-formed patterns never fail" is a statement about either matcher *)
Corollary match_seg_ne_wf : forall pat name, well_formed pat = true -> match_seg_ne pat name <> None.
Proof.
  intros pat name H. rewrite <- match_seg_no_escape.
  - apply match_seg_wf. exact H.
  - apply (well_formed_accepted pat H).
Qed.
