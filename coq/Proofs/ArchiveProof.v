(* Proofs/ArchiveProof.v — C14: the theorems of ZipReadProof / TarReadProof / ArchiveIndexProof /
   PathCleanIdem put together in the form Props/C14.v states them. *)
From AF Require Import Lib.Bytes Lib.Path Lib.Ops Gen.Consts Model.ByteFile Model.Archive Model.Zip Model.Tar
  Proofs.ArchiveLemmas Proofs.ZipReadProof Proofs.TarReadProof Proofs.ArchiveIndexProof Proofs.PathCleanIdem.
From Coq Require Import Permutation.
Local Open Scope Z_scope.

(* ---------------------------------------------------------------- (a) reads are exact *)
Theorem zip_reads_exact : forall (a : archive) (e : aentry) (prog : list op),
  wf_archive a -> In e a -> eisdir e = false ->
  (forall o, In o prog -> is_read_op o = true) ->
  (forall q, In (Open q) prog -> splitpath q = ekey e) ->
  proj14_all prog (zip_run false a prog) = snd (aspec_run true (mkBS (econtent e) []) prog).
Proof.
  intros a e prog W Hin Hf Hops Hopen. unfold zip_run.
  apply (zip_reads_exact_from e Hf prog (zip_init false a) (mkBS (econtent e) [])); auto.
  - constructor.
  - intros q Hq. specialize (Hopen q Hq). unfold zip_resolves. cbn [zix zip_init]. rewrite Hopen.
    split; [|now apply zip_get_entry]. destruct W as [_ Hnr]. specialize (Hnr e Hin).
    destruct (snd (ekey e)); [contradiction|reflexivity].
Qed.

Theorem tar_reads_exact : forall (a : archive) (e : aentry) (prog : list op),
  wf_archive a -> In e a -> eisdir e = false ->
  (forall o, In o prog -> is_read_op o = true) ->
  (forall q, In (Open q) prog -> splitpath q = ekey e) ->
  proj14_all prog (tar_run false a prog) = snd (aspec_run false (mkBS (econtent e) []) prog).
Proof.
  intros a e prog W Hin Hf Hops Hopen. unfold tar_run.
  apply (tar_reads_exact_from e Hf prog (tar_init false a) (mkBS (econtent e) [])); auto.
  - constructor.
  - intros q Hq. specialize (Hopen q Hq). unfold tar_resolves. cbn [tix tar_init]. rewrite Hopen.
    now apply tar_get_entry.
Qed.

(* without any assumption on the archive: whatever entry the opened names resolve to (duplicates,
   odd names), that entry's bytes are what is read *)
Theorem zip_reads_exact_resolved : forall (a : archive) (e : aentry) (prog : list op),
  eisdir e = false ->
  (forall o, In o prog -> is_read_op o = true) ->
  (forall q, In (Open q) prog -> zip_resolves (zip_new false a) q e) ->
  proj14_all prog (zip_run false a prog) = snd (aspec_run true (mkBS (econtent e) []) prog).
Proof.
  intros a e prog Hf Hops Hopen. unfold zip_run.
  apply (zip_reads_exact_from e Hf prog (zip_init false a) (mkBS (econtent e) [])); auto. constructor.
Qed.

Theorem tar_reads_exact_resolved : forall (a : archive) (e : aentry) (prog : list op),
  eisdir e = false ->
  (forall o, In o prog -> is_read_op o = true) ->
  (forall q, In (Open q) prog -> tar_resolves e (tar_new false a) q) ->
  proj14_all prog (tar_run false a prog) = snd (aspec_run false (mkBS (econtent e) []) prog).
Proof.
  intros a e prog Hf Hops Hopen. unfold tar_run.
  apply (tar_reads_exact_from e Hf prog (tar_init false a) (mkBS (econtent e) [])); auto. constructor.
Qed.

(* ---------------------------------------------------------------- (c) entries are found *)
(* p addresses the entry: any spelling that cleans to the entry's cleaned path, in particular the
   cleaned path itself and the raw header name *)
Definition addresses (p : str) (e : aentry) : Prop := splitpath p = ekey e.

Lemma addresses_raw e : addresses (ename e) e.
Proof. reflexivity. Qed.
Lemma addresses_cleaned e : addresses (cpath (ename e)) e.
Proof. apply splitpath_cpath. Qed.

Theorem zip_entry_found : forall (a : archive) (e : aentry) (p : str) (hs : list zh),
  wf_archive a -> In e a -> addresses p e ->
  exists fi,
    zip_step false (mkZS (zip_new false a) hs) (Stat p) = (mkZS (zip_new false a) hs, RInfo fi) /\
    fi_dir fi = eisdir e /\ fi_size fi = esize e /\
    zip_step false (mkZS (zip_new false a) hs) (Open p) =
      (mkZS (zip_new false a) (hs ++ [mkZH (Some e) (eisdir e) false 0 [] None]), RHandle (length hs)).
Proof.
  intros a e p hs W Hin Hp. destruct (zip_entries_found a e p hs W Hin Hp) as [S O].
  exists (zinfo e). cbn [zip_step]. rewrite S, O. auto.
Qed.

Theorem tar_entry_found : forall (a : archive) (e : aentry) (p : str) (hs : list th) (sh : shared),
  wf_archive a -> In e a -> addresses p e ->
  exists fi,
    tar_step false (mkTS (tar_new false a) hs sh) (Stat p) = (mkTS (tar_new false a) hs sh, RInfo fi) /\
    fi_dir fi = eisdir e /\ fi_size fi = esize e /\
    tar_step false (mkTS (tar_new false a) hs sh) (Open p) =
      (mkTS (tar_new false a) (hs ++ [mkTH (Some e) (ekey e) false 0]) sh, RHandle (length hs)).
Proof.
  intros a e p hs sh W Hin Hp. destruct (tar_entries_found a e p hs sh W Hin Hp) as [S O].
  exists (tinfo e). cbn [tar_step]. rewrite S, O. auto.
Qed.

(* the root can always be opened; its handle is the one the listing theorems speak about *)
Lemma zip_open_root a hs :
  zip_step false (mkZS (zip_new false a) hs) (Open s_slash) =
    (mkZS (zip_new false a) (hs ++ [mkZH None true false 0 [] None]), RHandle (length hs)).
Proof. reflexivity. Qed.

Lemma tar_open_root a hs sh :
  tar_step false (mkTS (tar_new false a) hs sh) (Open s_slash) =
    (mkTS (tar_new false a) (hs ++ [mkTH (Some tar_root) (s_slash, []) false 0]) sh, RHandle (length hs)).
Proof.
  cbn [tar_step]. rewrite t_open_get. change (splitpath s_slash) with (s_slash, @nil N).
  cbn [tix]. rewrite get_tar_new. reflexivity.
Qed.
