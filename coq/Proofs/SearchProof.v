From AF Require Import Lib.Bytes Gen.Consts Model.Search Proofs.BytesLemmas.

Lemma search_app_l w t nd : search w nd = true -> search (w ++ t) nd = true.
Proof.
  unfold search. rewrite !existsb_exists. intros [sl [Hin Hs]]. exists sl. split; [exact Hin|].
  apply andb_true_iff in Hs as [Hn Hi]. rewrite Hn. simpl. now apply infixb_app_l.
Qed.

Lemma search_app_r w t nd : search t nd = true -> search (w ++ t) nd = true.
Proof.
  unfold search. rewrite !existsb_exists. intros [sl [Hin Hs]]. exists sl. split; [exact Hin|].
  apply andb_true_iff in Hs as [Hn Hi]. rewrite Hn. simpl. now apply infixb_app_r.
Qed.

Lemma largest_ge nd sl : In sl nd -> length sl <= largest nd.
Proof.
  unfold largest. induction nd as [|x nd IH]; simpl; [tauto|].
  intros [->|Hin]; [lia | specialize (IH Hin); lia].
Qed.

Lemma largest_zero nd : largest nd = 0 -> contains_spec [] nd = false /\ forall c, contains_spec c nd = false.
Proof.
  intros Hz. assert (Hall : forall sl, In sl nd -> sl = []).
  { intros sl Hin. apply largest_ge in Hin. rewrite Hz in Hin. destruct sl; [reflexivity | simpl in Hin; lia]. }
  assert (forall c, contains_spec c nd = false).
  { intros c. unfold contains_spec. apply not_true_is_false. rewrite existsb_exists.
    intros [sl [Hin Hs]]. rewrite (Hall sl Hin) in Hs. discriminate. }
  split; auto.
Qed.

Section Rounds.
Variable nd : list bytes.
Variable H : nat.
Hypothesis Hbig : forall sl, In sl nd -> length sl <= H.

Lemma search_split p c r : H <= length c ->
  search (p ++ c ++ r) nd = true -> search (p ++ c) nd = true \/ search (c ++ r) nd = true.
Proof.
  intros Hc. unfold search. rewrite !existsb_exists. intros [sl [Hin Hs]].
  apply andb_true_iff in Hs as [Hn Hi].
  destruct (infix_split sl p c r) as [Hl|Hr]; [specialize (Hbig sl Hin); lia | exact Hi | |].
  - left. exists sl. now rewrite Hn, Hl.
  - right. exists sl. now rewrite Hn, Hr.
Qed.

(* one round with the window laid out as prev ++ X *)
Lemma round_layout prev X rest :
  length prev = H -> length X = H ->
  let buff1 := prev ++ X in
  let chunk := firstn (length buff1 - H) rest in
  let buff2 := firstn H buff1 ++ copy_into (skipn H buff1) chunk in
  chunk = firstn H rest /\
  firstn (H + length chunk) buff2 = prev ++ chunk /\
  (length chunk = H -> buff2 = prev ++ chunk).
Proof.
  intros Hp HX buff1 chunk buff2.
  assert (Hc : chunk = firstn H rest).
  { unfold chunk, buff1. rewrite app_length. f_equal. lia. }
  assert (Hcl : length chunk <= H) by (rewrite Hc, firstn_length; lia).
  assert (Hb2 : buff2 = prev ++ chunk ++ skipn (length chunk) X).
  { unfold buff2, buff1. rewrite <- Hp at 1. rewrite firstn_app_exact.
    rewrite <- Hp at 1. rewrite skipn_app_exact. rewrite copy_into_short by lia. reflexivity. }
  split; [exact Hc|]. split.
  - rewrite Hb2, app_assoc. rewrite <- Hp at 1. rewrite <- app_length. apply firstn_app_exact.
  - intros Hn. rewrite Hb2, Hn, <- HX, skipn_all. now rewrite app_nil_r.
Qed.

Lemma rounds_ok : forall fuel (i2 : bool) (buff prev rest : bytes),
  length rest < fuel ->
  length prev = H -> 0 < H ->
  (exists P : bytes, length P = H /\ buff = (if i2 then prev ++ P else P ++ prev : bytes)) ->
  search prev nd = false ->
  rounds fuel H i2 buff rest nd = search (prev ++ rest) nd.
Proof.
  induction fuel as [|f IH]; intros i2 buff prev rest Hfuel Hp Hpos [P [HP Hbuff]] Hnot; [lia|].
  cbn [rounds].
  assert (Hb1 : exists X, length X = H /\ (if i2 then buff else copy_into buff (skipn H buff)) = prev ++ X).
  { destruct i2.
    - exists P. now split.
    - exists prev. split; [exact Hp|].
      assert (Hsk : skipn H (P ++ prev) = prev) by (rewrite <- HP; apply skipn_app_exact).
      rewrite Hbuff, Hsk. rewrite copy_into_short by (rewrite app_length; lia).
      rewrite Hp, Hsk. reflexivity. }
  destruct Hb1 as [X [HX ->]].
  destruct (round_layout prev X rest Hp HX) as [Hc [Hwin Hfull]].
  set (chunk := firstn (length (prev ++ X) - H) rest) in *.
  set (buff2 := firstn H (prev ++ X) ++ copy_into (skipn H (prev ++ X)) chunk) in *.
  rewrite Hwin.
  assert (Hrest : rest = chunk ++ skipn (length chunk) rest).
  { rewrite Hc at 1. rewrite Hc, firstn_length.
    destruct (Nat.le_gt_cases H (length rest)).
    - rewrite Nat.min_l by lia. symmetry; apply firstn_skipn.
    - rewrite Nat.min_r by lia. rewrite skipn_all, firstn_all2 by lia. now rewrite app_nil_r. }
  destruct (0 <? length chunk) eqn:Hn0; cbn [andb].
  2:{ apply Nat.ltb_ge in Hn0. assert (chunk = []) by (destruct chunk; [reflexivity | simpl in Hn0; lia]).
      assert (Hr : rest = []).
      { rewrite Hrest, H0. simpl. rewrite H0 in Hc. destruct rest; [reflexivity|].
        destruct H; [lia | simpl in Hc; discriminate]. }
      rewrite H0. cbn [length]. replace (0 <? H) with true by (symmetry; apply Nat.ltb_lt; lia).
      rewrite Hr, app_nil_r. now rewrite Hnot. }
  destruct (search (prev ++ chunk) nd) eqn:Hs.
  - symmetry. rewrite Hrest, app_assoc. now apply search_app_l.
  - destruct (length chunk <? H) eqn:Hshort.
    + apply Nat.ltb_lt in Hshort. assert (Hr : rest = chunk).
      { rewrite Hc. symmetry. apply firstn_all2. rewrite Hc, firstn_length in Hshort. lia. }
      rewrite Hr. now rewrite Hs.
    + apply Nat.ltb_ge in Hshort.
      assert (Hcl : length chunk = H) by (rewrite Hc, firstn_length in *; lia).
      rewrite (IH false buff2 chunk (skipn (length chunk) rest)).
      * rewrite <- Hrest.
        destruct (search rest nd) eqn:Hsr; symmetry.
        -- now apply search_app_r.
        -- apply not_true_is_false. intros Hall. rewrite Hrest in Hall.
           apply search_split in Hall; [|lia]. rewrite <- Hrest in Hall.
           destruct Hall; congruence.
      * rewrite skipn_length. apply Nat.ltb_lt in Hn0.
        assert (length chunk <= length rest) by (rewrite Hc, firstn_length; lia). lia.
      * exact Hcl.
      * exact Hpos.
      * exists prev. split; [exact Hp | now apply Hfull].
      * apply not_true_is_false. intros Hc'. apply (search_app_r prev) in Hc'. congruence.
Qed.
End Rounds.

Theorem go_contains_any_exact factor content nd :
  2 <= factor -> Nat.even factor = true ->
  go_contains_any factor 2 content nd = contains_spec content nd.
Proof.
  intros Hf Hev. unfold go_contains_any.
  destruct (largest nd =? 0) eqn:HL.
  { apply Nat.eqb_eq in HL. symmetry. now apply largest_zero. }
  apply Nat.eqb_neq in HL.
  set (L := largest nd) in *.
  assert (Hdiv : exists k, factor = 2 * k /\ 1 <= k).
  { apply Nat.even_spec in Hev. destruct Hev as [k ->]. exists k. split; lia. }
  destruct Hdiv as [k [-> Hk]].
  set (H := Nat.div (2 * k * L) 2).
  assert (HH : H = k * L).
  { unfold H. replace (2 * k * L) with ((k * L) * 2) by lia. apply Nat.div_mul. lia. }
  assert (HLH : L <= H) by (rewrite HH; nia).
  assert (Hbig : forall sl, In sl nd -> length sl <= H).
  { intros sl Hin. apply largest_ge in Hin. fold L in Hin. lia. }
  assert (Hbl : 2 * k * L = H + H) by lia.
  set (chunk := firstn H content).
  assert (Hcl : length chunk <= H) by (unfold chunk; rewrite firstn_length; lia).
  assert (Hb1 : copy_into (zeros (2 * k * L)) chunk = chunk ++ skipn (length chunk) (zeros (2 * k * L))).
  { apply copy_into_short. rewrite zeros_length. lia. }
  rewrite Hb1, firstn_app_exact.
  assert (Hcont : content = chunk ++ skipn (length chunk) content).
  { unfold chunk. rewrite firstn_length.
    destruct (Nat.le_gt_cases H (length content)).
    - rewrite Nat.min_l by lia. symmetry; apply firstn_skipn.
    - rewrite Nat.min_r by lia. rewrite skipn_all, firstn_all2 by lia. now rewrite app_nil_r. }
  unfold contains_spec. fold (search content nd).
  destruct (0 <? length chunk) eqn:Hn0; cbn [andb].
  2:{ apply Nat.ltb_ge in Hn0. assert (Hce : chunk = []) by (destruct chunk; [reflexivity | simpl in Hn0; lia]).
      assert (Hr : content = []).
      { unfold chunk in Hce. destruct content; [reflexivity|]. destruct H; [lia | simpl in Hce; discriminate]. }
      rewrite Hce. cbn [length]. replace (0 <? H) with true by (symmetry; apply Nat.ltb_lt; lia).
      rewrite Hr. unfold search. symmetry. apply not_true_is_false. rewrite existsb_exists.
      intros [sl [Hin Hs]]. apply andb_true_iff in Hs as [Hn Hi]. destruct sl; [discriminate|].
      simpl in Hi. discriminate. }
  destruct (search chunk nd) eqn:Hs.
  - symmetry. rewrite Hcont. now apply search_app_l.
  - destruct (length chunk <? H) eqn:Hshort.
    + apply Nat.ltb_lt in Hshort. assert (Hr : content = chunk).
      { unfold chunk. symmetry. apply firstn_all2. unfold chunk in Hshort. rewrite firstn_length in Hshort. lia. }
      rewrite Hr. now rewrite Hs.
    + apply Nat.ltb_ge in Hshort. assert (Hcl' : length chunk = H) by lia.
      rewrite (rounds_ok nd H Hbig _ true _ chunk).
      * now rewrite <- Hcont.
      * rewrite skipn_length. lia.
      * exact Hcl'.
      * lia.
      * exists (skipn (length chunk) (zeros (2 * k * L))). split; [|reflexivity].
        rewrite skipn_length, zeros_length. lia.
      * exact Hs.
Qed.

(* the only facts about the source constants the proof needs *)
Lemma search_factor_facts : 2 <= Z.to_nat search_factor /\ Nat.even (Z.to_nat search_factor) = true.
Proof. vm_compute. split; [repeat constructor | reflexivity]. Qed.
Lemma search_half_div_fact : Z.to_nat search_half_div = 2.
Proof. reflexivity. Qed.

Theorem reader_contains_any_exact content nd :
  reader_contains_any content nd = contains_spec content nd.
Proof.
  unfold reader_contains_any. rewrite search_half_div_fact. apply go_contains_any_exact; apply search_factor_facts.
Qed.
