(* Proofs/MemFsStep.v — every well-formed call preserves the invariant WF (part 2: the
   operations of MemMapFs except Rename, which is in MemFsRename.v). *)
From AF Require Import Lib.Bytes Lib.Path Lib.Ops Gen.Consts Model.MemFile Model.MemFs Model.WfOps
  Proofs.BytesLemmas Proofs.MemFsPath Proofs.MemFsWF Proofs.MemBelow.
Local Open Scope Z_scope.

Lemma WF_view s t : mdata s = mdata t -> mheap s = mheap t -> WF s -> WF t.
Proof. apply GWF_view. Qed.

Lemma WF_alloc_handle s h : WF s -> WF (fst (alloc_handle s h)).
Proof. apply WF_view; reflexivity. Qed.
Lemma WF_set_handle s i h : WF s -> WF (set_handle s i h).
Proof. apply WF_view; reflexivity. Qed.

Ltac wf_view := match goal with |- WF (mkM (mdata ?x) (mheap ?x) _ _) => apply (WF_view x); [reflexivity | reflexivity |] end.

Lemma WF_attr s r f : keeps_shape f -> WF s -> WF (upd_node s r f).
Proof. apply GWF_attr. Qed.

Lemma GWF_to_WF (P D S : kset) s : (forall x, ~ P x) -> (forall x, ~ D x) -> (forall x, ~ S x) -> GWF P D S s -> WF s.
Proof.
  intros HP HD HS. apply GWF_ext; [intros x; split; [intros H; now apply HP in H | intros []] | intros x H; now apply HD in H | intros x H; now apply HS in H].
Qed.

Lemma WF_fresh s k r : WF s -> lookup s k = Some r -> node_name s r = k.
Proof. intros W H. apply (g_fresh _ _ _ _ W k r H). intros []. Qed.

Lemma WF_init : WF m_init.
Proof.
  assert (L : forall k r, lookup m_init k = Some r -> k = s_slash /\ r = 0%nat).
  { intros k r. unfold lookup, m_init. cbn. destruct (beqb k s_slash) eqn:E; [|discriminate].
    apply beqb_eq in E. intros H. inversion H. auto. }
  split.
  - cbn. constructor; [intros [] | constructor].
  - intros k r H. destruct (L k r H) as [-> _]. apply canon_root.
  - intros k r H. destruct (L k r H) as [-> ->]. exists root_node. repeat split; constructor.
  - intros k r H _. destruct (L k r H) as [-> ->]. reflexivity.
  - exists 0%nat, root_node. repeat split.
  - intros k r H _ Hr. destruct (L k r H) as [-> _]. contradiction.
  - intros d p pn name r H Hp. destruct (L d p H) as [-> ->]. cbn in Hp. inversion Hp; subst pn. discriminate.
Qed.

(* ---------- kinds ---------- *)
Lemma kind_at_some s k b : kind_at s k = Some b -> exists r n, lookup s k = Some r /\ get_node s r = Some n /\ ndir n = b.
Proof.
  unfold kind_at. destruct (lookup s k) as [r|]; [|discriminate]. destruct (get_node s r) as [n|] eqn:E; [|discriminate].
  intros H. inversion H. now exists r, n.
Qed.
Lemma is_dir_at_true s k : is_dir_at s k = true -> exists r n, lookup s k = Some r /\ get_node s r = Some n /\ ndir n = true.
Proof. unfold is_dir_at. destruct (kind_at s k) as [[|]|] eqn:E; try discriminate. intros _. now apply kind_at_some. Qed.
Lemma WF_kind_none s k : WF s -> kind_at s k = None -> lookup s k = None.
Proof.
  intros W. unfold kind_at. destruct (lookup s k) as [r|] eqn:E; [|reflexivity].
  destruct (GWF_lookup_node _ _ _ _ _ _ W E) as (n & ->). discriminate.
Qed.

(* ---------- the ancestor check (memmap.go lockfreeBelowFile) never refuses a well-formed call ---------- *)
(* every existing name among d, its proper ancestors and the root is a directory *)
Definition anc_dirs (s : mst) (d : str) : Prop :=
  forall a r n, canon a -> (a = d \/ below a d = true \/ a = s_slash) ->
    lookup s a = Some r -> get_node s r = Some n -> ndir n = true.

Lemma anc_dirs_par s d : canon d -> d <> s_slash -> anc_dirs s d -> anc_dirs s (par d).
Proof.
  intros Hc Hne H a r n Ha Hcase. apply H; [exact Ha|].
  destruct (str_eq_dec (par d) s_slash) as [Ep|Ep].
  - destruct Hcase as [ -> | [ Hb | -> ] ]; [now right; right | | now right; right].
    rewrite Ep in Hb. exfalso. now apply (below_not_root a s_slash Ha Hb).
  - destruct Hcase as [ -> | [ Hb | -> ] ]; [| |now right; right]; right; left.
    + now apply below_par.
    + eapply below_trans; [exact Hb | now apply below_par].
Qed.

Lemma below_file_walk_dirs fuel s : forall d, canon d -> anc_dirs s d -> below_file_walk fuel s d = false.
Proof.
  induction fuel as [|fu IH]; intros d Hc H; cbn [below_file_walk]; unfold lockfree_open; rewrite (canon_norm d Hc);
    destruct (lookup s d) as [r|] eqn:Hl.
  - destruct (get_node s r) as [n|] eqn:Hn; [|reflexivity]. rewrite (H d r n Hc (or_introl eq_refl) Hl Hn). reflexivity.
  - now destruct (beqb d (path_dir d)).
  - destruct (get_node s r) as [n|] eqn:Hn; [|reflexivity]. rewrite (H d r n Hc (or_introl eq_refl) Hl Hn). reflexivity.
  - destruct (beqb d (path_dir d)) eqn:E; [reflexivity|]. apply beqb_neq in E.
    assert (Hne : d <> s_slash) by (intros ->; now apply E).
    apply (IH (par d)); [now apply canon_par | now apply anc_dirs_par].
Qed.

Lemma below_file_anc_dirs s k : canon k -> anc_dirs s (par k) -> below_file s k = false.
Proof.
  intros Hc H. unfold below_file. change (path_dir k) with (par k).
  rewrite below_file_walk_dirs; [apply andb_false_r | now apply canon_par | exact H].
Qed.

(* the parent directory is there (Create, Mkdir, OpenFile with O_CREATE, Rename to a free name) *)
Lemma below_file_dir_parent s k : canon k -> is_dir_at s (par k) = true -> below_file s k = false.
Proof.
  intros Hc Hd. unfold is_dir_at, kind_at in Hd.
  destruct (lookup s (par k)) as [r|] eqn:Hl; [|discriminate]. destruct (get_node s r) as [n|] eqn:Hn; [|discriminate].
  apply (below_file_parent_dir s k r n); [|exact Hn|now destruct (ndir n)].
  change (path_dir k) with (par k). now rewrite (canon_norm _ (canon_par k Hc)).
Qed.

(* every existing prefix is a directory (MkdirAll) *)
Lemma below_file_prefixes_dirs s k : WF s -> canon k -> prefixes_dirs s k = true -> below_file s k = false.
Proof.
  intros W Hc Hp. destruct (str_eq_dec k s_slash) as [->|Hne].
  - apply below_file_anc_dirs; [exact canon_root|]. rewrite par_root. intros a r n Ha Hcase Hl Hn.
    destruct (g_root _ _ _ _ W) as (r0 & n0 & Hl0 & Hn0 & _ & Hd0).
    assert (a = s_slash) as -> by (destruct Hcase as [ -> | [ Hb | -> ] ]; auto; exfalso; now apply (below_not_root a s_slash Ha Hb)).
    congruence.
  - apply below_file_anc_dirs; [exact Hc|]. intros a r n Ha Hcase Hl Hn.
    destruct (str_eq_dec a s_slash) as [->|Hane].
    + destruct (g_root _ _ _ _ W) as (r0 & n0 & Hl0 & Hn0 & _ & Hd0). congruence.
    + assert (Hb : below a k = true).
      { apply below_step; auto. destruct Hcase as [ -> | [ Hb | -> ] ]; [now left | now right | contradiction]. }
      unfold prefixes_dirs in Hp. rewrite forallb_forall in Hp. specialize (Hp (a, r) (aget_in _ _ _ Hl)). cbn [fst] in Hp.
      rewrite Hb, orb_true_r in Hp. cbn [negb orb] in Hp. unfold is_dir_at, kind_at in Hp. rewrite Hl, Hn in Hp.
      now destruct (ndir n).
Qed.

(* the name itself is there (Rename onto an existing file): its parent is a directory *)
Lemma below_file_existing s k r : WF s -> lookup s k = Some r -> below_file s k = false.
Proof.
  intros W Hl. pose proof (g_canon _ _ _ _ W k r Hl) as Hc.
  destruct (str_eq_dec k s_slash) as [->|Hne].
  - destruct (g_root _ _ _ _ W) as (r0 & n0 & Hl0 & Hn0 & _ & Hd0).
    apply (below_file_parent_dir s s_slash r0 n0); [exact Hl0 | exact Hn0 | exact Hd0].
  - assert (Hnm : node_name s r = k) by (apply (g_fresh _ _ _ _ W k r Hl); intros []).
    destruct (g_par _ _ _ _ W k r Hl Hnm Hne) as (p & pn & Hp & Hpn & Hpd & _); [intros [] | intros [] |].
    apply (below_file_parent_dir s k p pn); [|exact Hpn | exact Hpd].
    change (path_dir k) with (par k). now rewrite (canon_norm _ (canon_par k Hc)).
Qed.

(* ---------- creating a node under an existing directory ---------- *)
Lemma reg_new_present s k n0 perm :
  WF s -> canon k -> lookup s k = None -> nname n0 = k -> ndir n0 = nhasdir n0 -> nkids n0 = [] ->
  is_dir_at s (par k) = true ->
  exists p, lookup s (par k) = Some p /\
    reg (put_new s k n0) (length (mheap s)) perm = upd_node (put_new s k n0) p (set_kid k (length (mheap s))) /\
    WF (upd_node (put_new s k n0) p (set_kid k (length (mheap s)))).
Proof.
  intros W Hc Hfree Hnm Hdir Hkids Hpd. apply is_dir_at_true in Hpd as (p & pn & Hp & Hpn & Hpdir).
  exists p. split; [exact Hp|].
  set (s2 := put_new s k n0). set (item := length (mheap s)).
  assert (Hkr : k <> s_slash). { intros ->. destruct (g_root _ _ _ _ W) as (r0 & n1 & Hl & _). congruence. }
  assert (Hkp : k <> par k) by (intros E; symmetry in E; revert E; now apply par_neq).
  assert (G2 : GWF (kadd kempty k) kempty kempty s2) by (apply GWF_new; auto).
  assert (Lp : lookup s2 (par k) = Some p).
  { unfold s2. rewrite lookup_put_new. assert (E : beqb k (par k) = false) by now apply beqb_neq. now rewrite E. }
  assert (Lk : lookup s2 k = Some item) by (unfold s2; rewrite lookup_put_new, beqb_refl; reflexivity).
  assert (Gp : get_node s2 p = Some pn) by (unfold s2; rewrite get_put_new_old; [exact Hpn | now apply get_some_lt in Hpn]).
  assert (Nk : node_name s2 item = k) by (unfold node_name, s2, item; now rewrite get_put_new_new).
  destruct (g_node _ _ _ _ W _ _ Hp) as (pn' & Hpn' & _ & Hpd & _). rewrite Hpn in Hpn'. inversion Hpn'; subst pn'.
  split.
  - unfold reg. apply (register_present _ s2 item perm k p pn); auto. congruence.
  - eapply GWF_to_WF; [| | |eapply (GWF_add_kid _ _ _ s2 k item p pn); eauto].
    + intros x [[[]|Hx] Hx2]; contradiction.
    + intros x [[] _].
    + intros x [].
Qed.

Lemma set_file_mode_canon s k m f : canon k -> lookup s k = Some f -> set_file_mode s k m = (upd_node s f (with_mode m), ROk).
Proof. intros Hc Hk. unfold set_file_mode. now rewrite (canon_norm k Hc), Hk. Qed.

Lemma WF_set_file_mode s k m : WF s -> WF (fst (set_file_mode s k m)).
Proof.
  intros W. unfold set_file_mode. destruct (lookup s (normalize_path k)); [|exact W]. cbn. apply WF_attr; [apply keeps_mode | exact W].
Qed.

(* ---------- Mkdir / MkdirAll ---------- *)
Lemma m_mkdir_missing s p perm0 : lookup s (normalize_path p) = None -> below_file s (normalize_path p) = false ->
  m_mkdir s p perm0 =
    let k := normalize_path p in let perm := Z.land perm0 chmod_bits in
    set_file_mode (reg (put_new s k (mkdir_node k perm (mclock s))) (length (mheap s)) perm) k (Z.lor perm mode_dir).
Proof. intros H Hb. unfold m_mkdir. rewrite H, Hb. reflexivity. Qed.

Lemma forallb_lookup {B} (f : str * nat -> bool) s k r (g : B) :
  forallb f (mdata s) = true -> lookup s k = Some r -> f (k, r) = true.
Proof. intros Hf Hl. rewrite forallb_forall in Hf. apply Hf. now apply aget_in. Qed.

Lemma WF_mkdir_chain s k perm :
  WF s -> canon k -> lookup s k = None -> prefixes_dirs s k = true ->
  WF (reg (put_new s k (mkdir_node k perm (mclock s))) (length (mheap s)) perm) /\
  reg_frame perm k (put_new s k (mkdir_node k perm (mclock s))) (reg (put_new s k (mkdir_node k perm (mclock s))) (length (mheap s)) perm).
Proof.
  intros W Hc Hfree Hpre. set (nd := mkdir_node k perm (mclock s)). set (s2 := put_new s k nd). set (item := length (mheap s)).
  assert (Hkr : k <> s_slash). { intros ->. destruct (g_root _ _ _ _ W) as (r0 & n1 & Hl & _). congruence. }
  assert (G2 : GWF (kadd kempty k) kempty kempty s2) by (apply GWF_new; auto).
  assert (Lk : lookup s2 k = Some item) by (unfold s2; rewrite lookup_put_new, beqb_refl; reflexivity).
  assert (Nk : node_name s2 item = k) by (unfold node_name, s2, item; now rewrite get_put_new_new).
  destruct (register_chain (S (length (node_name s2 item))) (kadd kempty k) s2 k item perm) as [G3 F3]; auto.
  - rewrite Nk. lia.
  - intros x [[] | ->]. congruence.
  - now right.
  - intros a r n Hb Hl Hn. assert (Hak : a <> k) by (intros ->; rewrite below_irrefl in Hb; discriminate).
    unfold s2 in Hl. rewrite lookup_put_new in Hl. assert (E : beqb k a = false) by (apply beqb_neq; congruence). rewrite E in Hl.
    unfold s2 in Hn. rewrite get_put_new_old in Hn by (eapply GWF_lt; eauto).
    pose proof (forallb_lookup _ s a r tt Hpre Hl) as Hf. cbn [fst] in Hf. rewrite Hb, orb_true_r in Hf. cbn in Hf.
    apply is_dir_at_true in Hf as (r' & n' & Hl' & Hn' & Hd'). congruence.
  - split; [|exact F3]. eapply GWF_to_WF; [| | |exact G3]; [intros x [[[]|Hx] Hx2]; contradiction | intros x [] | intros x []].
Qed.

Lemma WF_mkdir s p perm : WF s -> wf_op_ord s (Mkdir p perm) = true -> WF (fst (m_mkdir s p perm)).
Proof.
  intros W Hwf. cbn [wf_op_ord] in Hwf. apply andb_true_iff in Hwf as [Hn Hwf].
  destruct (lookup s (normalize_path p)) as [f|] eqn:Hl.
  - unfold m_mkdir. rewrite Hl. exact W.
  - assert (Hc0 : canon (normalize_path p)) by now apply canon_normalize.
    rewrite (m_mkdir_missing s p perm Hl (below_file_dir_parent s _ Hc0 Hwf)). cbv zeta. apply WF_set_file_mode.
    set (k := normalize_path p) in *. assert (Hc : canon k) by now apply canon_normalize.
    destruct (reg_new_present s k (mkdir_node k (Z.land perm chmod_bits) (mclock s)) (Z.land perm chmod_bits) W Hc Hl)
      as (q & Hq & -> & W'); auto.
Qed.

Lemma m_mkdirall_fst s p perm : fst (m_mkdirall s p perm) = fst (m_mkdir s p perm).
Proof.
  unfold m_mkdirall. destruct (m_mkdir s p perm) as [s' r]. destruct r; try reflexivity.
  destruct (errk_eqb (ek e) KExist); reflexivity.
Qed.

Lemma WF_mkdirall s p perm : WF s -> wf_op_ord s (MkdirAll p perm) = true -> WF (fst (m_mkdirall s p perm)).
Proof.
  intros W Hwf. rewrite m_mkdirall_fst. cbn [wf_op_ord] in Hwf. apply andb_true_iff in Hwf as [Hn Hwf].
  destruct (lookup s (normalize_path p)) as [f|] eqn:Hl.
  - unfold m_mkdir. rewrite Hl. exact W.
  - assert (Hc0 : canon (normalize_path p)) by now apply canon_normalize.
    rewrite (m_mkdir_missing s p perm Hl (below_file_prefixes_dirs s _ W Hc0 Hwf)). cbv zeta. apply WF_set_file_mode.
    apply WF_mkdir_chain; auto.
Qed.

(* ---------- Create / Open / OpenFile ---------- *)
Lemma m_create_node_eq s k : m_create_node s k = (reg (put_new s k (new_file k (mclock s))) (length (mheap s)) 0, length (mheap s)).
Proof. reflexivity. Qed.

Lemma WF_create_node s k : WF s -> canon k -> lookup s k = None -> is_dir_at s (par k) = true -> WF (fst (m_create_node s k)).
Proof.
  intros W Hc Hl Hd. rewrite m_create_node_eq. cbn [fst].
  destruct (reg_new_present s k (new_file k (mclock s)) 0 W Hc Hl) as (q & Hq & -> & W'); auto.
Qed.

Lemma WF_create s p : WF s -> wf_op_ord s (Create p) = true -> WF (fst (m_create s p)).
Proof.
  intros W Hwf. cbn [wf_op_ord] in Hwf. apply andb_true_iff in Hwf as [Hn Hwf].
  set (k := normalize_path p) in *. assert (Hc : canon k) by now apply canon_normalize.
  unfold m_create. fold k.
  destruct (kind_at s k) as [[|]|] eqn:Hk; [discriminate| |].
  - apply kind_at_some in Hk as (r & n & Hl & Hg & Hd). rewrite Hl, Hg, Hd. unfold alloc_handle. cbn [fst].
    wf_view.
    apply WF_attr; [|exact W]. apply (keeps_comp (with_mtime _) (with_data _)); [apply keeps_mtime | apply keeps_data].
  - apply (WF_kind_none s k W) in Hk. rewrite Hk, (below_file_dir_parent s k Hc Hwf).
    pose proof (WF_create_node s k W Hc Hk Hwf) as W'. destruct (m_create_node s k) as [s1 f]. unfold alloc_handle. cbn [fst].
    wf_view. exact W'.
Qed.

Lemma WF_open s p : WF s -> WF (fst (m_open s p)).
Proof. intros W. unfold m_open. destruct (lookup s (normalize_path p)); [|exact W]. unfold alloc_handle. cbn [fst]. wf_view. exact W. Qed.

Lemma WF_openfile s p flag perm : WF s -> wf_op_ord s (OpenFile p flag perm) = true -> WF (fst (m_openfile s p flag perm)).
Proof.
  intros W Hwf. cbn [wf_op_ord] in Hwf. apply andb_true_iff in Hwf as [Hn Hwf]. apply andb_true_iff in Hn as [Hn _].
  set (k := normalize_path p) in *. assert (Hc : canon k) by now apply canon_normalize.
  unfold m_openfile. fold k.
  assert (Tail : forall (s1 : mst) (f : nat) (created : bool), WF s1 ->
    WF (fst (let ro := Z.land flag memfs_access_mask =? 0 in
       let data := match get_node s1 f with Some n => ndata n | None => [] end in
       let at_ := if flag_has flag o_append then zlen data else 0 in
       let trunc := flag_has flag o_trunc && flag_has flag (Z.lor o_rdwr o_wronly) in
       let s2 := if trunc && negb ro then upd_node s1 f (fun n => with_mtime (mclock s1) (with_data [] n)) else s1 in
       let '(s3, h) := alloc_handle s2 (mkH f (if trunc && negb ro then at_ else at_) 0 false ro) in
       if trunc && ro then (s2, RErr (EW KReadOnlyHandle))
       else if created then match set_file_mode s3 k (Z.land perm chmod_bits) with (s4, ROk) => (s4, RHandle h) | (s4, r) => (s4, r) end
       else (s3, RHandle h)))).
  { intros s1 f created W1. cbv zeta.
    set (tr := flag_has flag o_trunc && flag_has flag (Z.lor o_rdwr o_wronly)). set (ro := Z.land flag memfs_access_mask =? 0).
    assert (W2 : WF (if tr && negb ro then upd_node s1 f (fun n => with_mtime (mclock s1) (with_data [] n)) else s1)).
    { destruct (tr && negb ro); [|exact W1]. apply WF_attr; [|exact W1].
      apply (keeps_comp (with_mtime _) (with_data _)); [apply keeps_mtime | apply keeps_data]. }
    match goal with |- context [alloc_handle ?a ?b] =>
      pose proof (WF_alloc_handle a b W2) as W3; destruct (alloc_handle a b) as [s3 h] end.
    cbn [fst] in W3. destruct (tr && ro); [exact W2|]. destruct created; [|exact W3].
    pose proof (WF_set_file_mode s3 k (Z.land perm chmod_bits) W3) as W4.
    destruct (set_file_mode s3 k (Z.land perm chmod_bits)) as [s4 r4]. cbn [fst] in W4. destruct r4; exact W4. }
  destruct (lookup s k) as [f|] eqn:Hl.
  - destruct (flag_has flag o_excl && flag_has flag o_create); [exact W|]. exact (Tail s f false W).
  - destruct (flag_has flag o_create) eqn:Hcr; [|exact W].
    assert (Hk : kind_at s k = None) by (unfold kind_at; now rewrite Hl). rewrite Hk in Hwf.
    rewrite (below_file_dir_parent s k Hc Hwf).
    pose proof (WF_create_node s k W Hc Hl Hwf) as W'. destruct (m_create_node s k) as [s1 f]. exact (Tail s1 f true W').
Qed.

(* ---------- Remove ---------- *)
Lemma existsb_lookup (f : str * nat -> bool) s k r : lookup s k = Some r -> f (k, r) = true -> existsb f (mdata s) = true.
Proof. intros Hl Hf. apply existsb_exists. exists (k, r). split; [now apply aget_in | exact Hf]. Qed.

Lemma WF_remove s p : WF s -> wf_op_ord s (Remove p) = true -> WF (fst (m_remove s p)).
Proof.
  intros W Hwf. cbn [wf_op_ord] in Hwf. apply andb_true_iff in Hwf as [Hn Hwf]. apply andb_true_iff in Hn as [Hn Hroot].
  set (k := normalize_path p) in *. assert (Hc : canon k) by now apply canon_normalize.
  apply negb_true_iff, beqb_neq in Hroot.
  unfold m_remove. fold k. destruct (lookup s k) as [f|] eqn:Hl; [|exact W].
  pose proof (WF_fresh s k f W Hl) as Hname.
  destruct (GWF_unregister kempty kempty kempty s k f W Hl Hname Hroot) as (q & qn & Hq & Hqn & Hqd & Hun & G1); [intros [] | intros [] |].
  rewrite Hun. cbn [fst]. set (s1 := upd_node s q (del_kid k)) in *.
  change (set_data s1 (alist_del k (mdata s1))) with (del_key s1 k).
  assert (L1 : forall x, lookup s1 x = lookup s x) by (intros; apply lookup_upd).
  eapply GWF_to_WF; [| | |eapply (GWF_del _ _ _ s1 k G1)]; auto.
  - intros x [[[]|Hx] Hx2]; contradiction.
  - intros x [[] _].
  - now right.
  - intros k' r' Hne Hl' E. rewrite (g_fresh _ _ _ _ G1 k' r' Hl') in E by (intros []). contradiction.
  - intros k' r' Hl' Hne Hr' Hnm' HP' Epar.
    rewrite L1 in Hl'.
    destruct (g_par _ _ _ _ W k' r' Hl' (WF_fresh s k' r' W Hl') Hr') as (p' & pn' & Hlp & Hpn' & Hpd' & _); [intros [] | intros [] |].
    rewrite Epar, Hl in Hlp. inversion Hlp; subst p'.
    destruct (kind_at s k) as [[|]|] eqn:Hk.
    + apply negb_true_iff in Hwf. unfold has_kids in Hwf. assert (Hb : below k k' = true).
      { rewrite <- Epar. apply below_par; [exact (g_canon _ _ _ _ W k' r' Hl') | exact Hr' | now rewrite Epar]. }
      rewrite (existsb_lookup _ s k' r' Hl' Hb) in Hwf. discriminate.
    + apply kind_at_some in Hk as (r2 & n2 & Hl2 & Hn2 & Hd2). congruence.
    + apply (WF_kind_none s k W) in Hk. congruence.
Qed.

(* ---------- RemoveAll ---------- *)
Definition prune (s : mst) (path : str) : mst :=
  set_data s (filter (fun kv => negb (under path (fst kv))) (mdata s)).

Lemma lookup_prune s path k : lookup (prune s path) k = if under path k then None else lookup s k.
Proof.
  unfold prune, set_data, lookup. cbn [mdata].
  rewrite (aget_filter (fun x => negb (under path x)) k (mdata s)). now destruct (under path k).
Qed.

Lemma under_spec path k : under path k = true <-> k = path \/ below path k = true.
Proof.
  unfold under, below. rewrite orb_true_iff, beqb_eq. tauto.
Qed.

Lemma GWF_prune (P : kset) s path :
  GWF P kempty kempty s -> canon path -> path <> s_slash ->
  (forall x, P x -> x = path) -> (lookup s path <> None -> P path) ->
  WF (prune s path).
Proof.
  intros G Hc Hr HP1 HP2. pose proof G as [H1 H2 H3 H4 H5 H6 H7].
  set (s' := prune s path).
  assert (Inv : forall k r, lookup s' k = Some r -> under path k = false /\ lookup s k = Some r).
  { intros k r Hk. unfold s' in Hk. rewrite lookup_prune in Hk. destruct (under path k); [discriminate | auto]. }
  assert (L : forall k, under path k = false -> lookup s' k = lookup s k).
  { intros k Hu. unfold s'. now rewrite lookup_prune, Hu. }
  assert (Gn : forall r, get_node s' r = get_node s r) by reflexivity.
  assert (Nn : forall r, node_name s' r = node_name s r) by reflexivity.
  assert (Fr : forall k r, lookup s k = Some r -> node_name s r = k) by (intros k r Hk; apply (H4 k r Hk); intros []).
  (* the parent of a kept name is kept *)
  assert (Up : forall k, canon k -> k <> s_slash -> under path (par k) = true -> under path k = true).
  { intros k Hck Hkr Hu. apply under_spec in Hu. apply under_spec. right.
    apply below_step; auto. destruct Hu as [Hu|Hu]; [left; now rewrite Hu | now right]. }
  split.
  - unfold s', prune, set_data. cbn [mdata]. now apply nodup_filter.
  - intros k r Hk. destruct (Inv k r Hk) as [_ Hk']. eauto.
  - intros k r Hk. destruct (Inv k r Hk) as [Hu Hk']. destruct (H3 k r Hk') as (n & Hn & Hl & Hd & Hnd).
    exists n. rewrite Gn. repeat split; auto. pose proof (Fr k r Hk') as E. rewrite (node_name_get s r n Hn) in E. now rewrite E.
  - intros k r Hk _. destruct (Inv k r Hk) as [_ Hk']. rewrite Nn. now apply Fr.
  - destruct H5 as (r & n & Hl & Hn & Hx). exists r, n. rewrite L; [auto|].
    destruct (under path s_slash) eqn:E; [|reflexivity]. apply under_spec in E as [E|E]; [congruence|].
    apply (below_not_root path s_slash Hc) in E. congruence.
  - intros k r Hk Hn Hkr _ _. destruct (Inv k r Hk) as [Hu Hk'].
    assert (HPk : ~ P k). { intros Hx. apply HP1 in Hx. rewrite Hx in Hu. unfold under in Hu. now rewrite beqb_refl in Hu. }
    destruct (H6 k r Hk' (Fr k r Hk') Hkr HPk) as (p & pn & Hl & Hpn & Hdp & Hg); [intros []|].
    exists p, pn. rewrite L; [auto|]. destruct (under path (par k)) eqn:E; [|reflexivity].
    rewrite (Up k (H2 k r Hk') Hkr E) in Hu. discriminate.
  - intros d p pn name r Hd Hp Hg. destruct (Inv d p Hd) as [Hu Hd']. rewrite Gn in Hp.
    destruct (H7 d p pn name r Hd' Hp Hg) as (Hy & [[]|(Hx1 & Hx2 & Hx3 & Hx4)]).
    assert (Edp : d = par name) by (rewrite <- (Fr d p Hd'), <- (Fr _ p Hy); reflexivity).
    assert (Hun : under path name = false).
    { destruct (under path name) eqn:E; [|reflexivity]. exfalso. apply under_spec in E as [E|E].
      - apply Hx1. rewrite E. apply HP2. rewrite <- E. congruence.
      - apply below_inv in E; [|exact Hc | eapply H2; eauto]. rewrite <- Edp in E.
        assert (Hud : under path d = true) by (apply under_spec; destruct E; auto). congruence. }
    split; [rewrite <- Edp; rewrite L; auto|]. right. repeat split; auto; try (now intros []). now rewrite L.
Qed.

Lemma WF_removeall s p : WF s -> wf_op_ord s (RemoveAll p) = true -> WF (fst (m_removeall s p)).
Proof.
  intros W Hwf. cbn [wf_op_ord] in Hwf. apply andb_true_iff in Hwf as [Hn Hwf]. apply andb_true_iff in Hn as [Hn Hroot].
  set (k := normalize_path p) in *. assert (Hc : canon k) by now apply canon_normalize.
  apply negb_true_iff, beqb_neq in Hroot.
  unfold m_removeall. fold k. destruct (lookup s k) as [f|] eqn:Hl.
  - pose proof (WF_fresh s k f W Hl) as Hname.
    destruct (GWF_unregister kempty kempty kempty s k f W Hl Hname Hroot) as (q & qn & Hq & Hqn & Hqd & Hun & G1); [intros [] | intros [] |].
    rewrite Hun. cbn [fst]. apply (GWF_prune (kadd kempty k)); auto.
    + intros x [[]|Hx]; exact Hx.
    + intros _. now right.
  - assert (Hun : unregister s k = Some (s, false)).
    { unfold unregister. now rewrite (lockfree_open_canon s k Hc), Hl. }
    rewrite Hun. cbn [fst]. apply (GWF_prune kempty); auto; [intros x [] | intros Hx; congruence].
Qed.

(* ---------- metadata ---------- *)
Lemma WF_chmod s p m : WF s -> WF (fst (m_chmod s p m)).
Proof. intros W. unfold m_chmod. destruct (lookup s (normalize_path p)); [|exact W]. now apply WF_set_file_mode. Qed.
Lemma WF_chown s p u g : WF s -> WF (fst (m_chown s p u g)).
Proof. intros W. unfold m_chown. destruct (lookup s (normalize_path p)); [|exact W]. cbn. apply WF_attr; [apply keeps_owner | exact W]. Qed.
Lemma WF_chtimes s p t : WF s -> WF (fst (m_chtimes s p t)).
Proof. intros W. unfold m_chtimes. destruct (lookup s (normalize_path p)); [|exact W]. cbn. apply WF_attr; [apply keeps_mtime | exact W]. Qed.
Lemma WF_stat s p : WF s -> WF (fst (m_stat s p)).
Proof. intros W. unfold m_stat. destruct (lookup s (normalize_path p)) as [f|]; [|exact W]. destruct (get_node s f); exact W. Qed.

(* ---------- handle operations ---------- *)
Lemma WF_m_hop s i k : WF s -> (forall h nd, WF (fst (k h nd))) -> WF (fst (m_hop s i k)).
Proof.
  intros W Hk. unfold m_hop. destruct (nth_error (mhandles s) i) as [h|]; [|exact W].
  destruct (get_node s (href h)) as [nd|]; [apply Hk | exact W].
Qed.

Lemma WF_put_data s f d : WF s -> WF (put_data s f d).
Proof.
  intros W. destruct d as [d|]; [|exact W]. cbn. apply WF_attr; [|exact W].
  apply (keeps_comp (with_mtime _) (with_data _)); [apply keeps_mtime | apply keeps_data].
Qed.

Lemma WF_readdir s i h n : WF s -> WF (fst (fst (m_readdir s i h n))).
Proof.
  intros W. unfold m_readdir. destruct (get_node s (href h)) as [nd|]; [|exact W].
  destruct (negb (ndir nd)); [exact W|]. cbn [fst]. now apply WF_set_handle.
Qed.

Lemma WF_handle_ops s o : WF s ->
  match o with
  | HRead _ _ | HReadAt _ _ _ | HWrite _ _ | HWriteAt _ _ _ | HWriteString _ _ | HSeek _ _ _ | HTruncate _ _
  | HClose _ | HReaddir _ _ | HReaddirnames _ _ | HStat _ | HName _ | HSync _ => WF (fst (m_step_raw s o))
  | _ => True
  end.
Proof.
  intros W. destruct o; try exact I; cbn [m_step_raw]; apply WF_m_hop; try exact W; intros hd nd.
  - destruct (f_read (ndata nd) hd n) as [h' r]. now apply WF_set_handle.
  - destruct (f_readat (ndata nd) hd n off) as [h' r]. now apply WF_set_handle.
  - destruct (f_write (ndata nd) hd b) as [[d h'] r]. cbn [fst]. apply WF_put_data. now apply WF_set_handle.
  - destruct (f_writeat (ndata nd) hd b off) as [[d h'] r]. cbn [fst]. apply WF_put_data. now apply WF_set_handle.
  - destruct (f_write (ndata nd) hd b) as [[d h'] r]. cbn [fst]. apply WF_put_data. now apply WF_set_handle.
  - destruct (f_seek (ndata nd) hd off whence) as [h' r]. now apply WF_set_handle.
  - destruct (f_truncate (ndata nd) hd n) as [d r]. cbn [fst]. now apply WF_put_data.
  - destruct (hclosed hd); [exact W|]. cbn [fst]. destruct (hro hd); [now apply WF_set_handle|].
    apply WF_attr; [apply keeps_mtime | now apply WF_set_handle].
  - pose proof (WF_readdir s h hd n W) as Wr. destruct (m_readdir s h hd n) as [[s1 infos] e]. cbn [fst] in Wr.
    destruct e as [er|]; [destruct infos; [destruct (errk_eqb (ek er) KEOF)|]|]; exact Wr.
  - pose proof (WF_readdir s h hd n W) as Wr. destruct (m_readdir s h hd n) as [[s1 infos] e]. cbn [fst] in Wr.
    destruct e as [er|]; [destruct infos; [destruct (errk_eqb (ek er) KEOF)|]|]; exact Wr.
  - exact W.
  - exact W.
  - exact W.
Qed.
