(* Proofs/FaultyProof.v — C12: a copy-up that is interrupted by one fault leaves the layer with no
   entry, the untouched older entry, or a complete copy, and reports an error otherwise. *)
From AF Require Import Lib.Bytes Lib.Path Lib.Ops Gen.Consts Model.MemFile Model.MemFs Model.Union Model.Cow Model.Cache
  Model.Faulty Proofs.PathProof Proofs.MemBelow Proofs.FaultyMem Proofs.CopyFailedCreate.
Local Open Scope Z_scope.

(* ---------------------------------------------------------------- the injector, call by call *)
Definition fault_plain (o : op) : bool :=
  match o with
  | HRead _ _ | HReadAt _ _ _ | HWrite _ _ | HWriteAt _ _ _ | HWriteString _ _ | HName _ | HSeek _ _ _
  | HReaddir _ _ | HReaddirnames _ _ => false
  | _ => true
  end.

Lemma faulty_plain {St} (inner : St -> op -> St * res) pl s n o : fault_plain o = true ->
  faulty_step inner pl (s, n) o = ((fst (inner s o), S n), snd (inner s o))
  \/ (exists e, pl n = FltFail e /\ faulty_step inner pl (s, n) o = ((s, S n), RErr e)).
Proof.
  intros Hp. unfold faulty_step. destruct (pl n) as [|e|k] eqn:E.
  - left. now destruct (inner s o).
  - right. exists e. split; [reflexivity|]. destruct o; try discriminate; reflexivity.
  - left. assert (H1 : fault_shorten o k = o) by (destruct o; try discriminate; reflexivity).
    rewrite H1. destruct (inner s o) as [s' r]. cbn [fst snd].
    assert (H2 : fault_short_res o r = r) by (destruct o; try discriminate; reflexivity).
    now rewrite H2.
Qed.

Lemma faulty_write {St} (inner : St -> op -> St * res) pl s n lh b :
  (exists k, faulty_step inner pl (s, n) (HWrite lh b) =
             ((fst (inner s (HWrite lh (firstn k b))), S n), snd (inner s (HWrite lh (firstn k b)))) /\
             (firstn k b <> b -> pl n <> FltPass))
  \/ (exists e, pl n = FltFail e /\ faulty_step inner pl (s, n) (HWrite lh b) = ((s, S n), RCount 0 (Some e))).
Proof.
  unfold faulty_step. destruct (pl n) as [|e|k] eqn:E.
  - left. exists (length b). rewrite firstn_all. destruct (inner s (HWrite lh b)). split; [reflexivity | congruence].
  - right. exists e. now split.
  - left. exists k. cbn [fault_shorten]. destruct (inner s (HWrite lh (firstn k b))) as [s' r].
    split; [|discriminate]. cbn [fst snd]. now destruct r as [| | | | | | ? [?|] | | | | |].
Qed.

Lemma faulty_read_cases {St} (inner : St -> op -> St * res) pl s n bh :
  (exists m, 0 <= m <= 32768 /\ exists s' r, inner s (HRead bh m) = (s', r) /\
     (faulty_step inner pl (s, n) (HRead bh 32768) = ((s', S n), r) \/
      exists b, r = RData b None /\ faulty_step inner pl (s, n) (HRead bh 32768) = ((s', S n), RData b (Some (E KEOF)))))
  \/ (exists e, faulty_step inner pl (s, n) (HRead bh 32768) = ((s, S n), RData [] (Some e))).
Proof.
  unfold faulty_step. destruct (pl n) as [|e|k] eqn:E.
  - left. exists 32768. split; [lia|]. destruct (inner s (HRead bh 32768)) as [s' r]. exists s', r. split; [reflexivity | now left].
  - right. now exists e.
  - left. cbn [fault_shorten]. exists (fault_zmin 32768 (Z.of_nat k)). split.
    { unfold fault_zmin. destruct (32768 <? Z.of_nat k) eqn:E2; [lia | apply Z.ltb_ge in E2; lia]. }
    destruct (inner s (HRead bh (fault_zmin 32768 (Z.of_nat k)))) as [s' r]. exists s', r. split; [reflexivity|].
    destruct r as [| | | | | |b [e|]| | | | |]; try (now left). right. now exists b.
Qed.

Definition fault_used (pl : plan) (n n' : nat) : Prop := exists i, (n <= i < n')%nat /\ pl i <> FltPass.

Lemma fault_used_mono pl a b c d : (c <= a)%nat -> (b <= d)%nat -> fault_used pl a b -> fault_used pl c d.
Proof. intros H1 H2 (i & Hi & Hp). exists i. split; [lia | exact Hp]. Qed.

(* at most one fault among the calls numbered c and up *)
Definition amo_from (pl : plan) (c : nat) : Prop :=
  forall i j, (c <= i)%nat -> (c <= j)%nat -> pl i <> FltPass -> pl j <> FltPass -> i = j.

Lemma amo_from_all pl c : at_most_one_fault pl -> amo_from pl c.
Proof. intros H i j _ _. apply H. Qed.

Lemma amo_from_le pl c c' : (c <= c')%nat -> amo_from pl c -> amo_from pl c'.
Proof. intros Hle H i j Hi Hj. apply H; lia. Qed.

Lemma amo_from_clean pl c : (forall i, (c <= i)%nat -> pl i = FltPass) -> amo_from pl c.
Proof. intros H i j Hi _ Hp. now rewrite (H i Hi) in Hp. Qed.

Lemma amo_pass_after pl c n n' j : amo_from pl c -> (c <= n)%nat -> fault_used pl n n' -> (n' <= j)%nat -> pl j = FltPass.
Proof.
  intros Ha Hc (i & Hi & Hp) Hj. destruct (pl j) eqn:E; [reflexivity | |];
    exfalso; assert (i = j) by (apply Ha; [lia | lia | exact Hp | rewrite E; discriminate]); lia.
Qed.

(* ---------------------------------------------------------------- io.Copy *)
Section Copy.
Variable name : str.
Variables fb bh lh : nat.
Variable nb : node.
Let d := ndata nb.

Lemma firstn_firstn_skipn a k : (k <= length d - a)%nat ->
  firstn a d ++ firstn k (skipn a d) = firstn (a + k) d /\ length (firstn k (skipn a d)) = k.
Proof.
  intros Hk. split; [symmetry; apply firstn_plus_skipn|]. rewrite firstn_length, skipn_length. lia.
Qed.

(* what one Read of the source through the injector yields, whatever the plan *)
Lemma base_read_any pl sb n a : reading sb fb bh nb a ->
  exists sb1 k er, faulty_step m_step pl (sb, n) (HRead bh 32768) = ((sb1, S n), RData (firstn k (skipn a d)) er) /\
    reading sb1 fb bh nb (a + k) /\ (k <= length d - a)%nat /\ mdata sb1 = mdata sb /\ mheap sb1 = mheap sb.
Proof.
  intros Hr. destruct (faulty_read_cases m_step pl sb n bh) as [(m & Hm & s' & r & Hi & Hf)|(e & Hf)].
  - destruct (read_spec sb fb bh nb a m Hr (proj1 Hm)) as (s1 & k & er & E1 & R1 & D1 & H1 & _ & _ & Hk).
    rewrite E1 in Hi. inversion Hi; subst s' r.
    assert (Hkl : (k <= length d - a)%nat).
    { destruct ((0 <? m) && (Z.of_nat a =? zlen (ndata nb))); destruct Hk as [-> _]; [lia|].
      destruct Hr as (_ & _ & _ & _ & _ & _ & Hle). unfold zlen, d in *. lia. }
    destruct Hf as [Hf|(b & Hb & Hf)].
    + exists (bump s1), k, er. rewrite Hf. repeat split; auto.
    + exists (bump s1), k, (Some (E KEOF)). rewrite Hf. inversion Hb. repeat split; auto.
  - exists sb, 0%nat, (Some e). rewrite Hf, Nat.add_0_r. cbn [firstn]. repeat split; auto. lia.
Qed.

(* base behind the injector (any plan), layer fault-free: the layer always holds a prefix *)
Lemma io_copy_base_faulty pl : forall fuel sb n sl a,
  reading sb fb bh nb a -> copying sl name lh (firstn a d) ->
  exists sb' n' sl' w' e a',
    io_copy (faulty_step m_step pl) m_step fuel (sb, n) sl bh lh (Z.of_nat a) = ((sb', n'), sl', w', e) /\
    reading sb' fb bh nb a' /\ copying sl' name lh (firstn a' d) /\ (e = None -> w' = Z.of_nat a') /\
    mdata sb' = mdata sb /\ mheap sb' = mheap sb.
Proof.
  induction fuel as [|f IH]; intros sb n sl a Hr Hc.
  - cbn [io_copy]. exists sb, n, sl, (Z.of_nat a), (Some (E KOther)), a. repeat split; auto.
  - cbn [io_copy].
    destruct (base_read_any pl sb n a Hr) as (sb1 & k & er & E1 & R1 & Hk & D1 & H1). rewrite E1.
    destruct (firstn_firstn_skipn a k Hk) as [Happ Hlen].
    set (chunk := firstn k (skipn a d)) in *.
    destruct (0 <? zlen chunk) eqn:Hz.
    + destruct (write_spec sl name lh (firstn a d) chunk Hc) as (sl1 & E2 & C2). rewrite E2.
      assert (Hb : ((zlen chunk <? 0) || (zlen chunk <? zlen chunk)) = false).
      { apply orb_false_iff. split; apply Z.ltb_ge; [apply zlen_ge0 | lia]. }
      rewrite Hb, Z.eqb_refl. cbn [negb]. rewrite Happ in C2.
      assert (Hw : Z.of_nat a + zlen chunk = Z.of_nat (a + k)) by (unfold zlen; rewrite Hlen; lia).
      destruct er as [e|].
      * exists sb1, (S n), (bump sl1), (Z.of_nat a + zlen chunk), (if errk_eqb (ek e) KEOF then None else Some e), (a + k)%nat.
        repeat split; auto.
      * destruct (IH sb1 (S n) (bump sl1) (a + k)%nat R1 (copying_bump _ _ _ _ C2))
          as (sb' & n' & sl' & w' & e & a' & E3 & R3 & C3 & W3 & D3 & H3).
        rewrite Hw, E3. exists sb', n', sl', w', e, a'. repeat split; auto; congruence.
    + assert (Hk0 : k = 0%nat). { apply Z.ltb_ge in Hz. unfold zlen in Hz. lia. }
      unfold chunk in *; clear chunk; subst k. rewrite Nat.add_0_r in *. rewrite Z.add_0_r.
      destruct er as [e|].
      * exists sb1, (S n), sl, (Z.of_nat a), (if errk_eqb (ek e) KEOF then None else Some e), a. repeat split; auto.
      * destruct (IH sb1 (S n) sl a R1 Hc) as (sb' & n' & sl' & w' & e & a' & E3 & R3 & C3 & W3 & D3 & H3).
        rewrite E3. exists sb', n', sl', w', e, a'. repeat split; auto; congruence.
Qed.

(* layer behind the injector, base fault-free, enough fuel: complete, or an error caused by a fault *)
Lemma io_copy_layer_faulty pl : forall fuel sb sl n a,
  reading sb fb bh nb a -> copying sl name lh (firstn a d) -> (length d - a < fuel)%nat ->
  exists sb' sl' n' w' e a' ab',
    io_copy m_step (faulty_step m_step pl) fuel sb (sl, n) bh lh (Z.of_nat a) = (sb', (sl', n'), w', e) /\
    reading sb' fb bh nb ab' /\ copying sl' name lh (firstn a' d) /\ (n <= n')%nat /\
    mdata sb' = mdata sb /\ mheap sb' = mheap sb /\
    ((e = None /\ a' = length d /\ w' = zlen d) \/ (e <> None /\ fault_used pl n n')).
Proof.
  induction fuel as [|f IH]; intros sb sl n a Hr Hc Hfuel; [lia|].
  cbn [io_copy].
  destruct (read_spec sb fb bh nb a 32768 Hr ltac:(lia)) as (sb1 & k & er & E1 & R1 & D1 & H1 & _ & _ & Hk).
  rewrite E1. assert (Hle : (a <= length d)%nat) by (destruct Hr as (_ & _ & _ & _ & _ & _ & Hle); exact Hle).
  fold d in Hk. change (0 <? 32768) with true in Hk. cbn [andb] in Hk.
  destruct (Z.of_nat a =? zlen d) eqn:Heq.
  - destruct Hk as [-> ->]. cbn [firstn zlen length Z.of_nat Z.ltb Z.compare]. cbn [errk_eqb E ek].
    apply Z.eqb_eq in Heq. rewrite Nat.add_0_r in R1.
    exists (bump sb1), sl, n, (Z.of_nat a + 0), None, a, a. rewrite Z.add_0_r.
    repeat split; auto. left. unfold zlen in Heq. repeat split; [lia | exact Heq].
  - destruct Hk as [-> ->]. apply Z.eqb_neq in Heq.
    set (k := Z.to_nat (Z.min 32768 (zlen d - Z.of_nat a))) in *.
    assert (Hk1 : (1 <= k <= length d - a)%nat) by (unfold k, zlen in *; lia).
    destruct (firstn_firstn_skipn a k (proj2 Hk1)) as [Happ Hlen].
    set (chunk := firstn k (skipn a d)) in *.
    assert (Hz : (0 <? zlen chunk) = true) by (apply Z.ltb_lt; unfold zlen; lia).
    fold d. fold chunk. rewrite Hz.
    destruct (faulty_write m_step pl sl n lh chunk) as [(j & Hf & Hj)|(e & He & Hf)].
    + rewrite Hf.
      destruct (write_spec sl name lh (firstn a d) (firstn j chunk) Hc) as (sl1 & E2 & C2).
      rewrite E2. cbn [fst snd].
      assert (Hjl : zlen (firstn j chunk) <= zlen chunk).
      { unfold zlen. rewrite firstn_length. lia. }
      assert (Hb : ((zlen (firstn j chunk) <? 0) || (zlen chunk <? zlen (firstn j chunk))) = false).
      { apply orb_false_iff. split; apply Z.ltb_ge; [apply zlen_ge0 | lia]. }
      rewrite Hb.
      destruct (zlen (firstn j chunk) =? zlen chunk) eqn:Hfull; cbn [negb].
      * (* the whole chunk went through *)
        apply Z.eqb_eq in Hfull.
        assert (Hall : firstn j chunk = chunk).
        { unfold zlen in Hfull. rewrite firstn_length in Hfull. apply firstn_all2. lia. }
        rewrite Hall in *. rewrite Happ in C2.
        assert (Hw : Z.of_nat a + zlen chunk = Z.of_nat (a + k)) by (unfold zlen; rewrite Hlen; lia).
        rewrite Hw.
        destruct (IH (bump sb1) (bump sl1) (S n) (a + k)%nat (reading_bump _ _ _ _ _ R1) (copying_bump _ _ _ _ C2) ltac:(lia))
          as (sb' & sl' & n' & w' & e & a' & ab' & E3 & R3 & C3 & N3 & D3 & H3 & Hres).
        unfold bump in D3, H3; cbn [mdata mheap] in D3, H3.
        rewrite E3. exists sb', sl', n', w', e, a', ab'. repeat split; auto; try congruence; try lia.
        destruct Hres as [?|[? U]]; [now left | right; split; [assumption|]].
        eapply fault_used_mono; [| |exact U]; lia.
      * (* short write *)
        apply Z.eqb_neq in Hfull.
        assert (Hne : firstn j chunk <> chunk) by (intros E; rewrite E in Hfull; congruence).
        assert (Hj' : firstn j chunk = firstn (Nat.min j k) (skipn a d)).
        { unfold chunk. now rewrite firstn_firstn. }
        assert (Hjk : (Nat.min j k <= length d - a)%nat) by lia.
        destruct (firstn_firstn_skipn a (Nat.min j k) Hjk) as [Happ2 _].
        rewrite Hj', Happ2 in C2.
        exists (bump sb1), (bump sl1), (S n), (Z.of_nat a + zlen (firstn j chunk)), (Some (E KShortWrite)), (a + Nat.min j k)%nat, (a + k)%nat.
        repeat split; auto. right. split; [discriminate|]. exists n. split; [lia | now apply Hj].
    + rewrite Hf.
      exists (bump sb1), sl, (S n), (Z.of_nat a + 0), (Some e), a, (a + k)%nat.
      assert (Hb : ((0 <? 0) || (zlen chunk <? 0)) = false).
      { apply orb_false_iff. split; apply Z.ltb_ge; [lia | apply zlen_ge0]. }
      rewrite Hb. repeat split; auto. right. split; [discriminate|]. exists n. split; [lia | rewrite He; discriminate].
Qed.

End Copy.

(* ---------------------------------------------------------------- copyFile, from the back *)
(* the part of copy_file after the layer's Create returned the handle lh *)
Definition copy_tail {B L : Type} (bstep : B -> op -> B * res) (lstep : L -> op -> L * res)
    (sb : B) (sl2 : L) (name : str) (bh lh : nat) : B * L * option err :=
  let '(sb1, st) := bstep sb (HStat bh) in
  let fuel := match st with RInfo fi => S (S (Z.to_nat (fi_size fi))) | _ => 2%nat end in
  let '(sb2, sl3, n, cerr) := io_copy bstep lstep fuel sb1 sl2 bh lh 0 in
  match cerr with
  | Some e =>
    let sl4 := fst (lstep sl3 (Remove name)) in
    let sl5 := fst (lstep sl4 (HClose lh)) in (sb2, sl5, Some e)
  | None =>
    let '(sb3, st2) := bstep sb2 (HStat bh) in
    match st2 with
    | RInfo bfi =>
      if negb (fi_size bfi =? n) then
        let sl4 := fst (lstep sl3 (Remove name)) in
        let sl5 := fst (lstep sl4 (HClose lh)) in (sb3, sl5, Some (E KEIO))
      else
        match lstep sl3 (HClose lh) with
        | (sl4, ROk) =>
          match lstep sl4 (Chtimes name (fi_mtime bfi)) with
          | (sl5, ROk) => (sb3, sl5, None)
          | (sl5, r) => (sb3, sl5, match res_err r with Some e => Some e | None => Some (E KOther) end)
          end
        | (sl4, r) =>
          let sl5 := fst (lstep sl4 (Remove name)) in
          let sl6 := fst (lstep sl5 (HClose lh)) in
          (sb3, sl6, match res_err r with Some e => Some e | None => Some (E KOther) end)
        end
    | _ =>
      let sl4 := fst (lstep sl3 (Remove name)) in
      let sl5 := fst (lstep sl4 (HClose lh)) in (sb3, sl5, Some (E KEIO))
    end
  end.

(* ... and the part from Create on *)
Definition copy_create {B L : Type} (bstep : B -> op -> B * res) (lstep : L -> op -> L * res)
    (sb : B) (sl1 : L) (name : str) (bh : nat) : B * L * option err :=
  match lstep sl1 (Create name) with
  | (sl2, RHandle lh) => copy_tail bstep lstep sb sl2 name bh lh
  | (sl2, r) => (sb, after_failed_create lstep sl2 name, match res_err r with Some e => Some e | None => Some (E KOther) end)
  end.

Lemma copy_file_unfold {B L : Type} (bstep : B -> op -> B * res) (lstep : L -> op -> L * res) sb sl name bh :
  copy_file bstep lstep sb sl name bh =
  let '(sl0, ex) := l_exists lstep sl (copy_dir name) in
  match ex with
  | inr e => (sb, sl0, Some e)
  | inl true => copy_create bstep lstep sb sl0 name bh
  | inl false =>
    match lstep sl0 (MkdirAll (copy_dir name) 511) with
    | (s, ROk) => copy_create bstep lstep sb s name bh
    | (s, r) => (sb, s, Some (match res_err r with Some e => e | None => E KOther end))
    end
  end.
Proof.
  unfold copy_file, copy_file_gen, copy_create, copy_tail, after_failed_create.
  destruct (l_exists lstep sl (copy_dir name)) as [sl0 [[|]|e]]; try reflexivity.
  destruct (lstep sl0 (MkdirAll (copy_dir name) 511)) as [s r].
  destruct r as [| | |?| | |? [?|]|? [?|]|? [?|]|? [?|]|? [?|]|]; reflexivity.
Qed.

Lemma faulty_close_cosmetic pl s n lh :
  exists s', fst (faulty_step m_step pl (s, n) (HClose lh)) = (s', S n) /\ cosmetic s s'.
Proof.
  destruct (faulty_plain m_step pl s n (HClose lh) eq_refl) as [H|(e & _ & H)]; rewrite H; cbn [fst].
  - eexists. split; [reflexivity | apply close_cosmetic].
  - eexists. split; [reflexivity | apply cosmetic_refl].
Qed.

Section Tail.
Variable name : str.
Hypothesis Hn : normalize_path name = name.
Variables fb bh : nat.
Variable nb : node.
Hypothesis Hfile : ndir nb = false.
Let d := ndata nb.

Lemma cleanup pl s3 m lh dat : pl m = FltPass -> copying s3 name lh dat ->
  exists s5, fst (faulty_step m_step pl (fst (faulty_step m_step pl (s3, m) (Remove name))) (HClose lh)) = (s5, S (S m)) /\
             lookup s5 name = None /\ par_ok s5 name.
Proof.
  intros Hp Hc. destruct (faulty_plain m_step pl s3 m (Remove name) eq_refl) as [H|(e & He & _)]; [|congruence].
  rewrite H. destruct (remove_spec s3 name lh dat Hn Hc) as (s' & E & L & P & _). rewrite E. cbn [fst].
  destruct (faulty_close_cosmetic pl (bump s') (S m) lh) as (s5 & E5 & C5). rewrite E5.
  exists s5. split; [reflexivity|]. split.
  - rewrite (cosmetic_lookup _ _ _ C5). exact L.
  - apply (cosmetic_par_ok (bump s')); [exact C5 | exact P].
Qed.

Lemma fi_size_file : fi_size (finfo_of nb) = zlen d.
Proof. unfold finfo_of. cbn [fi_size]. now rewrite Hfile. Qed.

Lemma copy_tail_layer pl sb sl2 c lh : amo_from pl c ->
  reading sb fb bh nb 0 -> copying sl2 name lh [] ->
  exists sb' sl' n' r ab, copy_tail m_step (faulty_step m_step pl) sb (sl2, c) name bh lh = (sb', (sl', n'), r) /\
    reading sb' fb bh nb ab /\ mdata sb' = mdata sb /\ mheap sb' = mheap sb /\ par_ok sl' name /\ (c <= n')%nat /\
    (r <> None -> fault_used pl c n') /\
    ((lookup sl' name = None /\ r <> None) \/ file_at sl' name d).
Proof.
  intros Hamo Hr Hc. unfold copy_tail.
  rewrite (hstat_spec sb fb bh nb 0 Hr), fi_size_file.
  assert (Hfuel : (length d - 0 < S (S (Z.to_nat (zlen d))))%nat) by (unfold zlen; rewrite Nat2Z.id; lia).
  destruct (io_copy_layer_faulty name fb bh lh nb pl _ (bump sb) sl2 c 0%nat (reading_bump _ _ _ _ _ Hr) Hc Hfuel)
    as (sb2 & sl3 & n1 & w & e & a' & ab & E & R2 & C3 & N1 & D2 & H2 & Hres).
  change (Z.of_nat 0) with 0 in E. fold d. rewrite E.
  unfold bump in D2, H2; cbn [mdata mheap] in D2, H2.
  destruct Hres as [(-> & -> & ->)|(He & U)].
  - (* the copy loop completed *)
    rewrite (hstat_spec sb2 fb bh nb ab R2), fi_size_file, Z.eqb_refl. cbn [negb].
    rewrite firstn_all in C3.
    destruct (faulty_plain m_step pl sl3 n1 (HClose lh) eq_refl) as [H|(e & He & H)]; rewrite H.
    + destruct (close_copying sl3 name lh d C3) as (s4 & E4). rewrite E4. cbn [fst snd].
      pose proof (close_cosmetic sl3 lh) as C4. rewrite E4 in C4. cbn [fst] in C4.
      destruct (copying_file_at _ _ _ _ C3) as [F3 P3].
      destruct (faulty_plain m_step pl s4 (S n1) (Chtimes name (fi_mtime (finfo_of nb))) eq_refl) as [H5|(e & He & H5)]; rewrite H5.
      * pose proof (chtimes_cosmetic s4 name (fi_mtime (finfo_of nb))) as C5.
        assert (Hok : snd (m_step s4 (Chtimes name (fi_mtime (finfo_of nb)))) = ROk).
        { destruct F3 as (g & gn & L & _). apply (chtimes_ok _ _ _ g). rewrite Hn, (cosmetic_lookup _ _ _ C4). exact L. }
        rewrite Hok. eexists _, _, _, None, ab. split; [reflexivity|].
        pose proof (cosmetic_trans _ _ _ C4 C5) as C45.
        repeat split; auto; try lia; try congruence.
        all: try (now apply (cosmetic_par_ok sl3)).
        all: try (right; now apply (cosmetic_file_at sl3)).
      * cbn [res_err]. eexists _, _, _, (Some e), ab. split; [reflexivity|].
        repeat split; auto; try lia.
        all: try (now apply (cosmetic_par_ok sl3)).
        all: try (right; now apply (cosmetic_file_at sl3)).
        all: intros _; exists (S n1); split; [lia | rewrite He; discriminate].
    + (* Close refused: clean up *)
      cbn [res_err].
      assert (Hp : pl (S n1) = FltPass).
      { apply (amo_pass_after pl c n1 (S n1)); [exact Hamo | lia | | lia]. exists n1. split; [lia | rewrite He; discriminate]. }
      destruct (cleanup pl sl3 (S n1) lh _ Hp C3) as (s5 & E5 & L5 & P5). rewrite E5.
      eexists _, _, _, (Some e), ab. split; [reflexivity|].
      repeat split; auto; try lia.
      all: try (left; split; [exact L5 | discriminate]).
      all: intros _; exists n1; split; [lia | rewrite He; discriminate].
  - (* the copy loop stopped with an error: a fault was consumed, the clean-up is fault-free *)
    destruct e as [e|]; [|congruence].
    assert (Hp : pl n1 = FltPass) by (apply (amo_pass_after pl c c n1); [exact Hamo | lia | exact U | lia]).
    destruct (cleanup pl sl3 n1 lh _ Hp C3) as (s5 & E5 & L5 & P5). rewrite E5.
    eexists _, _, _, (Some e), ab. split; [reflexivity|].
    repeat split; auto; try lia.
    all: try (left; split; [exact L5 | discriminate]).
    all: intros _; eapply fault_used_mono; [| |exact U]; lia.
Qed.
End Tail.

Section TailBase.
Variable name : str.
Hypothesis Hn : normalize_path name = name.
Variables fb bh : nat.
Variable nb : node.
Hypothesis Hfile : ndir nb = false.
Let d := ndata nb.

Lemma cleanup0 s3 lh dat : copying s3 name lh dat ->
  exists s5, fst (m_step (fst (m_step s3 (Remove name))) (HClose lh)) = s5 /\ lookup s5 name = None /\ par_ok s5 name.
Proof.
  intros Hc. destruct (remove_spec s3 name lh dat Hn Hc) as (s' & E & L & P & _). rewrite E. cbn [fst].
  pose proof (close_cosmetic (bump s') lh) as C5. eexists. split; [reflexivity|]. split.
  - rewrite (cosmetic_lookup _ _ _ C5). exact L.
  - apply (cosmetic_par_ok (bump s')); [exact C5 | exact P].
Qed.

Lemma copy_tail_base pl sb nB sl2 lh :
  reading sb fb bh nb 0 -> copying sl2 name lh [] ->
  exists sb' n' sl' r ab, copy_tail (faulty_step m_step pl) m_step (sb, nB) sl2 name bh lh = ((sb', n'), sl', r) /\
    reading sb' fb bh nb ab /\ mdata sb' = mdata sb /\ mheap sb' = mheap sb /\ par_ok sl' name /\
    ((lookup sl' name = None /\ r <> None) \/ file_at sl' name d).
Proof.
  intros Hr Hc. unfold copy_tail.
  assert (H1 : exists sb1 st, faulty_step m_step pl (sb, nB) (HStat bh) = ((sb1, S nB), st) /\
                reading sb1 fb bh nb 0 /\ mdata sb1 = mdata sb /\ mheap sb1 = mheap sb).
  { destruct (faulty_plain m_step pl sb nB (HStat bh) eq_refl) as [H|(e & _ & H)]; rewrite H.
    - rewrite (hstat_spec sb fb bh nb 0 Hr). cbn [fst snd]. eexists _, _. split; [reflexivity|]. repeat split; auto.
    - eexists _, _. split; [reflexivity|]. repeat split; auto. }
  destruct H1 as (sb1 & st & E1 & R1 & D1 & M1). rewrite E1.
  destruct (io_copy_base_faulty name fb bh lh nb pl
              (match st with RInfo fi => S (S (Z.to_nat (fi_size fi))) | _ => 2%nat end) sb1 (S nB) sl2 0%nat R1 Hc)
    as (sb2 & n2 & sl3 & w & e & a' & E & R2 & C3 & W & D2 & M2).
  change (Z.of_nat 0) with 0 in E. rewrite E.
  destruct e as [e|].
  - destruct (cleanup0 sl3 lh _ C3) as (s5 & E5 & L5 & P5). rewrite E5.
    eexists _, _, _, (Some e), a'. split; [reflexivity|]. repeat split; auto; try congruence.
    all: try (left; split; [exact L5 | discriminate]).
  - specialize (W eq_refl). subst w.
    destruct (faulty_plain m_step pl sb2 n2 (HStat bh) eq_refl) as [H|(e & _ & H)]; rewrite H.
    + rewrite (hstat_spec sb2 fb bh nb a' R2). cbn [fst snd]. rewrite (fi_size_file nb Hfile). fold d.
      destruct (zlen d =? Z.of_nat a') eqn:Hsz; cbn [negb].
      * apply Z.eqb_eq in Hsz. assert (a' = length d) by (unfold zlen in Hsz; lia). subst a'.
        rewrite firstn_all in C3.
        destruct (close_copying sl3 name lh d C3) as (s4 & E4). rewrite E4.
        pose proof (close_cosmetic sl3 lh) as C4. rewrite E4 in C4. cbn [fst] in C4.
        destruct (copying_file_at _ _ _ _ C3) as [F3 P3].
        pose proof (chtimes_cosmetic s4 name (fi_mtime (finfo_of nb))) as C5.
        assert (Hok : snd (m_step s4 (Chtimes name (fi_mtime (finfo_of nb)))) = ROk).
        { destruct F3 as (g & gn & L & _). apply (chtimes_ok _ _ _ g). rewrite Hn, (cosmetic_lookup _ _ _ C4). exact L. }
        destruct (m_step s4 (Chtimes name (fi_mtime (finfo_of nb)))) as [s5 r5]. cbn [fst snd] in *. subst r5.
        pose proof (cosmetic_trans _ _ _ C4 C5) as C45.
        eexists _, _, _, None, (length d). split; [reflexivity|].
        unfold bump; cbn [mdata mheap].
        repeat split; auto; try congruence.
        all: try (now apply (cosmetic_par_ok sl3)).
        all: try (right; now apply (cosmetic_file_at sl3)).
      * destruct (cleanup0 sl3 lh _ C3) as (s5 & E5 & L5 & P5). rewrite E5.
        eexists _, _, _, (Some (Ops.E KEIO)), a'. split; [reflexivity|].
        unfold bump; cbn [mdata mheap].
        repeat split; auto; try congruence.
        all: try (left; split; [exact L5 | discriminate]).
    + destruct (cleanup0 sl3 lh _ C3) as (s5 & E5 & L5 & P5). rewrite E5.
      eexists _, _, _, (Some (Ops.E KEIO)), a'. split; [reflexivity|]. repeat split; auto; try congruence.
      all: try (left; split; [exact L5 | discriminate]).
Qed.
End TailBase.

(* ---------------------------------------------------------------- copyFile, from the front *)
(* for a name in normal form both spellings of the parent directory coincide *)
Lemma copy_dir_normal name : normalize_path name = name -> copy_dir name = path_dir name.
Proof.
  intros Hn. unfold copy_dir. destruct (Z.eqb copyfile_cleans_name 1); [|reflexivity].
  assert (Hc : clean name = name) by (rewrite <- Hn; apply clean_normalize). now rewrite Hc.
Qed.

Definition name_acyclic (name : str) : Prop :=
  let pk := normalize_path (path_dir name) in ~ In name (pk :: anc_keys (S (length pk)) pk).

Section Front.
Variable name : str.
Hypothesis Hn : normalize_path name = name.
Hypothesis Hacyc : name_acyclic name.
Variables fb bh : nat.
Variable nb : node.
Hypothesis Hfile : ndir nb = false.
Let d := ndata nb.

(* what a (possibly interrupted) copy may leave, relative to the layer state s0 before it *)
Definition outcome (s0 sl' : mst) (r : option err) : Prop :=
  (lookup sl' name = None /\ r <> None) \/
  (mdata sl' = mdata s0 /\ mheap sl' = mheap s0 /\ r <> None) \/
  file_at sl' name d.

Definition entry_state (s : mst) : Prop := lookup s name = None \/ exists dat, file_at s name dat.

Lemma sane_of_par s : par_ok s name -> entry_state s -> layer_sane s name.
Proof. intros P H. left. now split. Qed.

Lemma sane_same s s' : mdata s' = mdata s -> mheap s' = mheap s -> layer_sane s name -> layer_sane s' name.
Proof.
  intros D M. apply cosmetic_layer_sane. split; [exact D|]. intros r n H. exists n.
  unfold get_node in *. rewrite M. auto.
Qed.

Lemma copy_create_layer pl sb sA c : amo_from pl c ->
  reading sb fb bh nb 0 -> par_ok sA name -> entry_state sA ->
  exists sb' sl' n' r ab, copy_create m_step (faulty_step m_step pl) sb (sA, c) name bh = (sb', (sl', n'), r) /\
    reading sb' fb bh nb ab /\ mdata sb' = mdata sb /\ mheap sb' = mheap sb /\ layer_sane sl' name /\ (c <= n')%nat /\
    (r <> None -> fault_used pl c n') /\ outcome sA sl' r.
Proof.
  intros Hamo Hr P Hent. unfold copy_create.
  destruct (faulty_plain m_step pl sA c (Create name) eq_refl) as [H|(e & He & H)]; rewrite H.
  - destruct (create_spec sA name Hn P Hent) as (s' & E & C). rewrite E. cbn [fst snd].
    destruct (copy_tail_layer name Hn fb bh nb Hfile pl sb (bump s') (S c) _ (amo_from_le pl c (S c) ltac:(lia) Hamo) Hr (copying_bump _ _ _ _ C))
      as (sb' & sl' & n' & r & ab & E2 & R2 & D2 & M2 & P2 & N2 & U2 & O2).
    rewrite E2. exists sb', sl', n', r, ab. split; [reflexivity|].
    repeat split; auto; try lia.
    + apply sane_of_par; [exact P2|]. destruct O2 as [[L _]|F]; [now left | right; now exists (ndata nb)].
    + intros Hne. eapply fault_used_mono; [| |exact (U2 Hne)]; lia.
    + destruct O2 as [O2|O2]; [left; exact O2 | right; right; exact O2].
  - (* Create refused by the injector: nothing was done; copyFile removes the name (call c+1, which the single
       fault cannot hit): an older copy goes away, otherwise the Remove finds nothing *)
    cbn [res_err]. rewrite after_failed_create_today.
    assert (Hp : pl (S c) = FltPass).
    { apply (amo_pass_after pl c c (S c) (S c) Hamo); [lia | | lia]. exists c. split; [lia | rewrite He; discriminate]. }
    destruct (faulty_plain m_step pl sA (S c) (Remove name) eq_refl) as [H2|(e2 & He2 & _)]; [|congruence].
    rewrite H2. cbn [fst].
    assert (Hu : fault_used pl c (S (S c))) by (exists c; split; [lia | rewrite He; discriminate]).
    destruct Hent as [L|[dat F]].
    + rewrite (remove_missing sA name Hn L). cbn [fst].
      exists sb, (bump sA), (S (S c)), (Some e), 0%nat. split; [reflexivity|].
      repeat split; auto; try lia.
      * apply sane_of_par; [exact (cosmetic_par_ok sA _ name (cosmetic_bump sA) P) | left; exact L].
      * right. left. repeat split; auto. discriminate.
    + destruct (remove_file_spec sA name dat Hn F P) as (s' & E & L' & P' & _). rewrite E. cbn [fst].
      exists sb, (bump s'), (S (S c)), (Some e), 0%nat. split; [reflexivity|].
      repeat split; auto; try lia.
      * apply sane_of_par; [exact (cosmetic_par_ok s' _ name (cosmetic_bump s') P') | left; exact L'].
      * left. split; [exact L' | discriminate].
Qed.

(* MkdirAll of the parent (made or refused), then the rest *)
Lemma mkdir_create_layer pl sb s0 m : amo_from pl m ->
  reading sb fb bh nb 0 -> layer_sane s0 name ->
  exists sb' sl' n' r ab,
    match faulty_step m_step pl (s0, m) (MkdirAll (path_dir name) 511) with
    | (s, ROk) => copy_create m_step (faulty_step m_step pl) sb s name bh
    | (s, r) => (sb, s, Some (match res_err r with Some e => e | None => E KOther end))
    end = (sb', (sl', n'), r) /\
    reading sb' fb bh nb ab /\ mdata sb' = mdata sb /\ mheap sb' = mheap sb /\ layer_sane sl' name /\ (m <= n')%nat /\
    (r <> None -> fault_used pl m n') /\ outcome s0 sl' r.
Proof.
  intros Hamo Hr Hs.
  destruct (faulty_plain m_step pl s0 m (MkdirAll (path_dir name) 511) eq_refl) as [H|(e & He & H)]; rewrite H.
  - destruct Hs as [[P Hent]|[Lp [Ln Hclr]]].
    + (* the parent is there: nothing happens *)
      destruct P as (p & pn & Lpk & Gp & Ap & Bp).
      rewrite (mkdirall_existing s0 (path_dir name) 511 p Lpk). cbn [fst snd].
      destruct (copy_create_layer pl sb (bump s0) (S m) (amo_from_le pl m (S m) ltac:(lia) Hamo) Hr) as (sb' & sl' & n' & r & ab & E2 & R2 & D2 & M2 & S2 & N2 & U2 & O2).
      { now exists p, pn. } { exact Hent. }
      rewrite E2. exists sb', sl', n', r, ab. split; [reflexivity|]. repeat split; auto; try lia.
      intros Hne. eapply fault_used_mono; [| |exact (U2 Hne)]; lia.
    + (* the parent chain is created *)
      destruct (mkdirall_fresh s0 (path_dir name) 511 Lp (chain_clear_below_file s0 _ Hclr)) as (s' & E & G & (item & nd & Li & Gi & Ai & Bi) & K).
      rewrite E. cbn [fst snd].
      assert (Ln' : lookup s' name = None).
      { destruct (lookup s' name) eqn:El; [|reflexivity]. exfalso.
        destruct (K name) as [H1|H1]; [congruence | congruence | exact (Hacyc H1)]. }
      destruct (copy_create_layer pl sb (bump s') (S m) (amo_from_le pl m (S m) ltac:(lia) Hamo) Hr) as (sb' & sl' & n' & r & ab & E2 & R2 & D2 & M2 & S2 & N2 & U2 & O2).
      { now exists item, nd. } { now left. }
      rewrite E2. exists sb', sl', n', r, ab. split; [reflexivity|]. repeat split; auto; try lia.
      * intros Hne. eapply fault_used_mono; [| |exact (U2 Hne)]; lia.
      * destruct O2 as [O2|[(D3 & M3 & R3)|O2]]; [left; exact O2 | | right; right; exact O2].
        left. split; [|exact R3]. unfold lookup. rewrite D3. exact Ln'.
  - cbn [res_err]. exists sb, s0, (S m), (Some e), 0%nat. split; [reflexivity|]. repeat split; auto.
    + intros _. exists m. split; [lia | rewrite He; discriminate].
    + right. left. repeat split; auto. discriminate.
Qed.

Lemma outcome_same s0 s1 sl' r : mdata s1 = mdata s0 -> mheap s1 = mheap s0 -> outcome s1 sl' r -> outcome s0 sl' r.
Proof. intros D M [O|[(D1 & M1 & R)|O]]; [now left | right; left; repeat split; congruence | right; now right]. Qed.

Lemma copy_file_layer pl sb sl n0 : amo_from pl n0 ->
  reading sb fb bh nb 0 -> layer_sane sl name ->
  exists sb' sl' n' r ab, copy_file m_step (faulty_step m_step pl) sb (sl, n0) name bh = (sb', (sl', n'), r) /\
    reading sb' fb bh nb ab /\ mdata sb' = mdata sb /\ mheap sb' = mheap sb /\ layer_sane sl' name /\ (n0 <= n')%nat /\
    (r <> None -> fault_used pl n0 n') /\ outcome sl sl' r.
Proof.
  intros Hamo Hr Hs. rewrite copy_file_unfold, (copy_dir_normal name Hn). unfold l_exists.
  destruct (faulty_plain m_step pl sl n0 (Stat (path_dir name)) eq_refl) as [H|(e & He & H)]; rewrite H.
  - (* Stat performed *)
    destruct Hs as [[P Hent]|[Lp [Ln Hclr]]].
    + destruct P as (p & pn & Lpk & Gp & Ap & Bp).
      rewrite (stat_found sl (path_dir name) p pn Lpk Gp). cbn [fst snd].
      destruct (copy_create_layer pl sb (bump sl) (S n0) (amo_from_le pl n0 (S n0) ltac:(lia) Hamo) Hr) as (sb' & sl' & n' & r & ab & E2 & R2 & D2 & M2 & S2 & N2 & U2 & O2).
      { now exists p, pn. } { exact Hent. }
      rewrite E2. exists sb', sl', n', r, ab. split; [reflexivity|]. repeat split; auto; try lia.
      intros Hne. eapply fault_used_mono; [| |exact (U2 Hne)]; lia.
    + rewrite (stat_missing sl (path_dir name) Lp). cbn [fst snd is_not_exist ek EW].
      destruct (mkdir_create_layer pl sb (bump sl) (S n0) (amo_from_le pl n0 (S n0) ltac:(lia) Hamo) Hr) as (sb' & sl' & n' & r & ab & E2 & R2 & D2 & M2 & S2 & N2 & U2 & O2).
      { right. split; [exact Lp|]. split; [exact Ln|]. exact (cosmetic_mkdirall_clear sl (bump sl) _ (cosmetic_bump sl) Hclr). }
      rewrite E2. exists sb', sl', n', r, ab. split; [reflexivity|]. repeat split; auto; try lia.
      intros Hne. eapply fault_used_mono; [| |exact (U2 Hne)]; lia.
  - (* Stat refused with e *)
    destruct (is_not_exist e).
    + destruct (mkdir_create_layer pl sb sl (S n0) (amo_from_le pl n0 (S n0) ltac:(lia) Hamo) Hr Hs) as (sb' & sl' & n' & r & ab & E2 & R2 & D2 & M2 & S2 & N2 & U2 & O2).
      rewrite E2. exists sb', sl', n', r, ab. split; [reflexivity|]. repeat split; auto; try lia.
      intros _. exists n0. split; [lia | rewrite He; discriminate].
    + exists sb, sl, (S n0), (Some e), 0%nat. split; [reflexivity|]. repeat split; auto.
      * intros _. exists n0. split; [lia | rewrite He; discriminate].
      * right. left. repeat split; auto. discriminate.
Qed.
End Front.

Section FrontBase.
Variable name : str.
Hypothesis Hn : normalize_path name = name.
Hypothesis Hacyc : name_acyclic name.
Variables fb bh : nat.
Variable nb : node.
Hypothesis Hfile : ndir nb = false.

Lemma copy_create_base pl sb nB sA :
  reading sb fb bh nb 0 -> par_ok sA name -> entry_state name sA ->
  exists sb' n' sl' r ab, copy_create (faulty_step m_step pl) m_step (sb, nB) sA name bh = ((sb', n'), sl', r) /\
    reading sb' fb bh nb ab /\ mdata sb' = mdata sb /\ mheap sb' = mheap sb /\ layer_sane sl' name /\
    ((lookup sl' name = None /\ r <> None) \/ file_at sl' name (ndata nb)).
Proof.
  intros Hr P Hent. unfold copy_create.
  destruct (create_spec sA name Hn P Hent) as (s' & E & C). rewrite E.
  destruct (copy_tail_base name Hn fb bh nb Hfile pl sb nB (bump s') _ Hr (copying_bump _ _ _ _ C))
    as (sb' & n' & sl' & r & ab & E2 & R2 & D2 & M2 & P2 & O2).
  rewrite E2. exists sb', n', sl', r, ab. split; [reflexivity|]. repeat split; auto.
  apply sane_of_par; [exact P2|]. destruct O2 as [[L _]|F]; [now left | right; now exists (ndata nb)].
Qed.

Lemma copy_file_base pl sb nB sl :
  reading sb fb bh nb 0 -> layer_sane sl name ->
  exists sb' n' sl' r ab, copy_file (faulty_step m_step pl) m_step (sb, nB) sl name bh = ((sb', n'), sl', r) /\
    reading sb' fb bh nb ab /\ mdata sb' = mdata sb /\ mheap sb' = mheap sb /\ layer_sane sl' name /\
    outcome name nb sl sl' r.
Proof.
  intros Hr Hs. rewrite copy_file_unfold, (copy_dir_normal name Hn). unfold l_exists.
  destruct Hs as [[P Hent]|[Lp [Ln Hclr]]].
  - destruct P as (p & pn & Lpk & Gp & Ap & Bp).
    rewrite (stat_found sl (path_dir name) p pn Lpk Gp).
    destruct (copy_create_base pl sb nB (bump sl) Hr) as (sb' & n' & sl' & r & ab & E2 & R2 & D2 & M2 & S2 & O2).
    { now exists p, pn. } { exact Hent. }
    rewrite E2. exists sb', n', sl', r, ab. split; [reflexivity|]. repeat split; auto.
    destruct O2 as [O2|O2]; [left; exact O2 | right; right; exact O2].
  - rewrite (stat_missing sl (path_dir name) Lp). cbn [is_not_exist ek EW].
    destruct (mkdirall_fresh (bump sl) (path_dir name) 511 Lp
                (chain_clear_below_file (bump sl) _ (cosmetic_mkdirall_clear sl (bump sl) _ (cosmetic_bump sl) Hclr)))
      as (s' & E & G & (item & nd & Li & Gi & Ai & Bi) & K).
    rewrite E.
    assert (Ln' : lookup s' name = None).
    { destruct (lookup s' name) eqn:El; [|reflexivity]. exfalso.
      destruct (K name) as [H1|H1]; [congruence | | exact (Hacyc H1)]. apply H1. exact Ln. }
    destruct (copy_create_base pl sb nB (bump s') Hr) as (sb' & n' & sl' & r & ab & E2 & R2 & D2 & M2 & S2 & O2).
    { now exists item, nd. } { now left. }
    rewrite E2. exists sb', n', sl', r, ab. split; [reflexivity|]. repeat split; auto.
    destruct O2 as [O2|O2]; [left; exact O2 | right; right; exact O2].
Qed.
End FrontBase.

(* ---------------------------------------------------------------- copyToLayer / copyFileToLayer *)
Definition reg_file (s : mst) (name : str) (dat : bytes) : Prop :=
  exists f n, lookup s name = Some f /\ get_node s f = Some n /\ ndir n = false /\ ndata n = dat.

(* how the callers open the source: Open(name), or OpenFile(name, O_RDONLY, perm) *)
Definition read_open (name : str) (o : op) : Prop := o = Open name \/ exists perm, o = OpenFile name o_rdonly perm.

Lemma cosmetic_same s s' : mdata s' = mdata s -> mheap s' = mheap s -> cosmetic s s'.
Proof. intros D M. split; [exact D|]. intros r n H. exists n. unfold get_node in *. rewrite M. auto. Qed.

Lemma cosmetic_reg_file s s' name dat : cosmetic s s' -> reg_file s name dat -> reg_file s' name dat.
Proof.
  intros C (f & n & L & G & A & D). destruct (proj2 C f n G) as (n' & G' & A' & _ & D' & _).
  exists f, n'. rewrite (cosmetic_lookup _ _ _ C). repeat split; congruence.
Qed.

Lemma open_spec s name o f n : normalize_path name = name -> lookup s name = Some f -> get_node s f = Some n ->
  read_open name o ->
  fault_plain o = true /\
  exists s1, m_step s o = (s1, RHandle (length (mhandles s))) /\ reading s1 f (length (mhandles s)) n 0 /\
             mdata s1 = mdata s /\ mheap s1 = mheap s.
Proof.
  intros Hn L G [->|[perm ->]]; (split; [reflexivity|]); rewrite m_step_bump; cbn [m_step_raw].
  - unfold m_open. rewrite Hn, L. cbn [fst snd]. eexists. split; [reflexivity|].
    split; [|now split]. exists (mkH f 0 0 false true). cbn [bump mhandles alloc_handle fst].
    split; [apply nth_app_new|]. repeat split; auto. lia.
  - unfold m_openfile. rewrite Hn, L.
    change (flag_has o_rdonly o_excl) with false. change (flag_has o_rdonly o_create) with false.
    change (flag_has o_rdonly o_append) with false. change (flag_has o_rdonly o_trunc) with false.
    change (Z.land o_rdonly memfs_access_mask =? 0) with true. cbn [andb negb fst snd].
    eexists. split; [reflexivity|]. split; [|now split].
    exists (mkH f 0 0 false true). cbn [bump mhandles alloc_handle fst].
    split; [apply nth_app_new|]. repeat split; auto. lia.
Qed.

Definition three_way (sl sl' : mst) (name : str) (dat : bytes) (r : option err) : Prop :=
  (lookup sl' name = None /\ r <> None) \/
  (lookup sl' name = lookup sl name /\ fs_entry sl' name = fs_entry sl name /\ r <> None) \/
  (exists nd, fs_entry sl' name = Some nd /\ ndir nd = false /\ ndata nd = dat).

Lemma outcome_three_way name nb sl sl' r : outcome name nb sl sl' r -> three_way sl sl' name (ndata nb) r.
Proof.
  intros [O|[(D & M & R)|O]]; [now left | right; left | right; right; now apply file_at_entry].
  unfold fs_entry, lookup, get_node. rewrite D, M. now repeat split.
Qed.

Theorem copy_atomic_layer name pl sb sl dat o n0 :
  normalize_path name = name -> name_acyclic name -> amo_from pl n0 ->
  reg_file sb name dat -> layer_sane sl name -> read_open name o ->
  exists sb' sl' n' r,
    copy_to_layer_with m_step (faulty_step m_step pl) sb (sl, n0) name o = (sb', (sl', n'), r) /\
    cosmetic sb sb' /\ layer_sane sl' name /\ (n0 <= n')%nat /\ (r <> None -> fault_used pl n0 n') /\
    three_way sl sl' name dat r.
Proof.
  intros Hn Hac Hamo (f & n & L & G & A & D) Hs Ho. subst dat.
  destruct (open_spec sb name o f n Hn L G Ho) as (_ & s1 & E1 & R1 & D1 & M1).
  unfold copy_to_layer_with. rewrite E1.
  destruct (copy_file_layer name Hn Hac f (length (mhandles sb)) n A pl s1 sl n0 Hamo R1 Hs)
    as (sb2 & sl' & n' & r & ab & E2 & R2 & D2 & M2 & S2 & N2 & U2 & O2).
  rewrite E2. eexists _, sl', n', r. split; [reflexivity|].
  split; [|split; [exact S2 | split; [exact N2 | split; [exact U2 | now apply (outcome_three_way name n)]]]].
  eapply cosmetic_trans; [|apply close_cosmetic]. apply cosmetic_same; congruence.
Qed.

Theorem copy_atomic_base name pl sb nB sl dat o :
  normalize_path name = name -> name_acyclic name ->
  reg_file sb name dat -> layer_sane sl name -> read_open name o ->
  exists sb' n' sl' r,
    copy_to_layer_with (faulty_step m_step pl) m_step (sb, nB) sl name o = ((sb', n'), sl', r) /\
    cosmetic sb sb' /\ layer_sane sl' name /\ three_way sl sl' name dat r.
Proof.
  intros Hn Hac (f & n & L & G & A & D) Hs Ho. subst dat.
  destruct (open_spec sb name o f n Hn L G Ho) as (Hpl & s1 & E1 & R1 & D1 & M1).
  unfold copy_to_layer_with.
  destruct (faulty_plain m_step pl sb nB o Hpl) as [H|(e & He & H)]; rewrite H.
  - rewrite E1. cbn [fst snd].
    destruct (copy_file_base name Hn Hac f (length (mhandles sb)) n A pl s1 (S nB) sl R1 Hs)
      as (sb2 & n2 & sl' & r & ab & E2 & R2 & D2 & M2 & S2 & O2).
    rewrite E2.
    destruct (faulty_close_cosmetic pl sb2 n2 (length (mhandles sb))) as (sb3 & E3 & C3). rewrite E3.
    eexists _, _, sl', r. split; [reflexivity|].
    split; [|split; [exact S2 | now apply (outcome_three_way name n)]].
    eapply cosmetic_trans; [|exact C3]. apply cosmetic_same; congruence.
  - cbn [res_err]. eexists _, _, sl, (Some e). split; [reflexivity|].
    split; [apply cosmetic_refl|]. split; [exact Hs|]. right. left. repeat split; auto. discriminate.
Qed.

(* no fault from call n0 on: the copy succeeds and is complete *)
Corollary copy_fault_free name pl sb sl dat o n0 :
  normalize_path name = name -> name_acyclic name -> (forall i, (n0 <= i)%nat -> pl i = FltPass) ->
  reg_file sb name dat -> layer_sane sl name -> read_open name o ->
  exists sb' sl' n',
    copy_to_layer_with m_step (faulty_step m_step pl) sb (sl, n0) name o = (sb', (sl', n'), None) /\
    cosmetic sb sb' /\ layer_sane sl' name /\
    exists nd, fs_entry sl' name = Some nd /\ ndir nd = false /\ ndata nd = dat.
Proof.
  intros Hn Hac Hclean Hb Hs Ho.
  destruct (copy_atomic_layer name pl sb sl dat o n0 Hn Hac (amo_from_clean pl n0 Hclean) Hb Hs Ho)
    as (sb' & sl' & n' & r & E & C & S' & _ & U & T).
  assert (Hr : r = None).
  { destruct r as [e|]; [|reflexivity]. destruct (U ltac:(discriminate)) as (i & Hi & Hp).
    exfalso. apply Hp. apply Hclean. lia. }
  subst r. exists sb', sl', n'. split; [exact E|]. split; [exact C|]. split; [exact S'|].
  destruct T as [[_ H]|[(_ & _ & H)|H]]; [congruence | congruence | exact H].
Qed.

(* after a copy that failed under a single-fault plan, the next copy through the same (still
   faulty, same counter) layer is fault-free, succeeds and is complete *)
Corollary next_copy_is_full name pl sb sl dat o o2 n0 sb' sl' n' e :
  normalize_path name = name -> name_acyclic name -> amo_from pl n0 ->
  reg_file sb name dat -> layer_sane sl name -> read_open name o -> read_open name o2 ->
  copy_to_layer_with m_step (faulty_step m_step pl) sb (sl, n0) name o = (sb', (sl', n'), Some e) ->
  exists sb'' sl'' n'',
    copy_to_layer_with m_step (faulty_step m_step pl) sb' (sl', n') name o2 = (sb'', (sl'', n''), None) /\
    exists nd, fs_entry sl'' name = Some nd /\ ndir nd = false /\ ndata nd = dat.
Proof.
  intros Hn Hac Hamo Hb Hs Ho Ho2 E.
  destruct (copy_atomic_layer name pl sb sl dat o n0 Hn Hac Hamo Hb Hs Ho)
    as (sb1 & sl1 & n1 & r & E1 & C & S' & N & U & T).
  rewrite E in E1. inversion E1; subst sb1 sl1 n1 r.
  assert (Hclean : forall i, (n' <= i)%nat -> pl i = FltPass).
  { intros i Hi. apply (amo_pass_after pl n0 n0 n' i Hamo (le_n _) (U ltac:(discriminate)) Hi). }
  destruct (copy_fault_free name pl sb' sl' dat o2 n' Hn Hac Hclean (cosmetic_reg_file _ _ _ _ C Hb) S' Ho2)
    as (sb'' & sl'' & n'' & E2 & _ & _ & H).
  now exists sb'', sl'', n''.
Qed.

(* ---------------------------------------------------------------- the callers report a failed copy *)
(* for ANY two filesystems: the error of copyToLayer / copyFileToLayer is what the caller returns *)
Section Callers.
Context {B L : Type} (bstep : B -> op -> B * res) (lstep : L -> op -> L * res).

Lemma cow_openfile_reports sb sl tbl name flag perm sb1 sl1 sb2 sl2 ce :
  is_base_file bstep lstep sb sl name = (sb1, sl1, true, None) ->
  Z.land flag cow_mask <> 0 ->
  copy_to_layer bstep lstep sb1 sl1 name = (sb2, sl2, Some ce) ->
  cow_step bstep lstep (sb, sl, tbl) (OpenFile name flag perm) = ((sb2, sl2, tbl), RErr ce).
Proof.
  intros H1 H2 H3. cbn [cow_step]. unfold cow_openfile. rewrite H1. apply Z.eqb_neq in H2. rewrite H2.
  cbn [negb]. now rewrite H3.
Qed.

Lemma cow_openfile_copied sb sl tbl name flag perm sb1 sl1 sb2 sl2 :
  is_base_file bstep lstep sb sl name = (sb1, sl1, true, None) ->
  Z.land flag cow_mask <> 0 ->
  copy_to_layer bstep lstep sb1 sl1 name = (sb2, sl2, None) ->
  cow_step bstep lstep (sb, sl, tbl) (OpenFile name flag perm) = open_layer lstep sb2 sl2 tbl (OpenFile name flag perm).
Proof.
  intros H1 H2 H3. cbn [cow_step]. unfold cow_openfile. rewrite H1. apply Z.eqb_neq in H2. rewrite H2.
  cbn [negb]. now rewrite H3.
Qed.

Definition meta_op (o : op) (name : str) : Prop :=
  (exists m, o = Chmod name m) \/ (exists t, o = Chtimes name t) \/ (exists u g, o = Chown name u g).

Lemma cow_meta_reports sb sl tbl name o sb1 sl1 sb2 sl2 ce :
  meta_op o name ->
  is_base_file bstep lstep sb sl name = (sb1, sl1, true, None) ->
  copy_to_layer bstep lstep sb1 sl1 name = (sb2, sl2, Some ce) ->
  cow_step bstep lstep (sb, sl, tbl) o = ((sb2, sl2, tbl), RErr ce).
Proof.
  intros [[m ->]|[[t ->]|[u [g ->]]]] H1 H3; cbn [cow_step]; unfold cow_meta; rewrite H1, H3; reflexivity.
Qed.

(* CacheOnReadFs.copyToLayer (Model/Cache.v cache_copy_to_layer, since the fix): the base's Stat first; for a
   base entry that is NOT a directory it is Union's copyToLayer on the base state the Stat left *)
Lemma cache_copy_dir_mkdir_is_1 : cache_copy_dir_mkdir = 1. Proof. reflexivity. Qed.
Lemma copyfiletolayer_clears_append_is_1 : copyfiletolayer_clears_append = 1. Proof. reflexivity. Qed.

Lemma cache_copy_nondir sb sl name sb1 bfi :
  bstep sb (Stat name) = (sb1, RInfo bfi) -> fi_dir bfi = false ->
  cache_copy_to_layer bstep lstep sb sl name = copy_to_layer bstep lstep sb1 sl name.
Proof.
  intros H1 H2. unfold cache_copy_to_layer. rewrite cache_copy_dir_mkdir_is_1. cbn [Z.eqb Pos.eqb].
  rewrite H1, H2. reflexivity.
Qed.

(* ... and when the base's Stat fails (e.g. a fault on the base side) the copy is attempted all the same *)
Lemma cache_copy_stat_fails sb sl name :
  (forall fi, snd (bstep sb (Stat name)) <> RInfo fi) ->
  cache_copy_to_layer bstep lstep sb sl name = copy_to_layer bstep lstep (fst (bstep sb (Stat name))) sl name.
Proof.
  intros H. unfold cache_copy_to_layer. rewrite cache_copy_dir_mkdir_is_1. cbn [Z.eqb Pos.eqb].
  destruct (bstep sb (Stat name)) as [sb1 r]. cbn [fst snd] in *. destruct r; try reflexivity.
  exfalso. exact (H fi eq_refl).
Qed.

Lemma cache_open_miss_reports dur now sb sl tbl name sb1 sl1 fi sb2 bfi sb3 sl2 ce :
  cache_status bstep lstep dur now sb sl name = (sb1, sl1, CMiss, fi, None) ->
  bstep sb1 (Stat name) = (sb2, RInfo bfi) -> fi_dir bfi = false ->
  cache_copy_to_layer bstep lstep sb2 sl1 name = (sb3, sl2, Some ce) ->
  cache_step bstep lstep dur now (sb, sl, tbl) (Open name) = ((sb3, sl2, tbl), RErr ce).
Proof.
  intros H1 H2 H3 H4. cbn [cache_step]. rewrite H1, H2, H3, H4. reflexivity.
Qed.

Lemma cache_open_stale_reports dur now sb sl tbl name sb1 sl1 f sb3 sl2 ce :
  cache_status bstep lstep dur now sb sl name = (sb1, sl1, CStale, Some f, None) -> fi_dir f = false ->
  cache_copy_to_layer bstep lstep sb1 sl1 name = (sb3, sl2, Some ce) ->
  cache_step bstep lstep dur now (sb, sl, tbl) (Open name) = ((sb3, sl2, tbl), RErr ce).
Proof.
  intros H1 H3 H4. cbn [cache_step]. rewrite H1, H3, H4. reflexivity.
Qed.

(* CacheOnReadFs.OpenFile: the base is Stat-ed first (since the fix, cache_openfile_dir_mkdir = 1: a directory is
   made in the layer, not copied); for anything that is not a directory copyFileToLayer opens the base with the
   caller's flags less O_APPEND (since the fix, copyfiletolayer_clears_append = 1); its error is the result *)
Lemma cache_openfile_dir_mkdir_is_1 : cache_openfile_dir_mkdir = 1. Proof. reflexivity. Qed.
Lemma cache_openfile_reports dur now sb sl tbl name flag perm sb1 sl1 cs fi sb1' rs sb2 sl2 ce :
  cache_status bstep lstep dur now sb sl name = (sb1, sl1, cs, fi, None) -> cs = CMiss \/ cs = CStale ->
  bstep sb1 (Stat name) = (sb1', rs) -> (forall bfi, rs = RInfo bfi -> fi_dir bfi = false) ->
  copy_to_layer_with bstep lstep sb1' sl1 name (OpenFile name (Z.land flag (Z.lnot o_append)) perm) = (sb2, sl2, Some ce) ->
  cache_step bstep lstep dur now (sb, sl, tbl) (OpenFile name flag perm) = ((sb2, sl2, tbl), RErr ce).
Proof.
  intros H1 Hcs Hst Hnd H4. cbn [cache_step]. rewrite H1, copyfiletolayer_clears_append_is_1, cache_openfile_dir_mkdir_is_1. cbn [Z.eqb Pos.eqb].
  destruct Hcs as [->| ->]; rewrite Hst; (destruct rs; try (rewrite H4; reflexivity); rewrite (Hnd fi0 eq_refl), H4; reflexivity).
Qed.

(* the read-only OpenFile of the callers stays read-only: O_RDONLY &^ O_APPEND = O_RDONLY *)
Lemma rdonly_clears_append : Z.land o_rdonly (Z.lnot o_append) = o_rdonly. Proof. reflexivity. Qed.
End Callers.

(* a file that only the base holds, MemMapFs base, MemMapFs layer behind the injector *)
Lemma is_base_file_base_only pl sb sl n name f nd :
  lookup sl (normalize_path name) = None -> lookup sb (normalize_path name) = Some f -> get_node sb f = Some nd ->
  exists slx, is_base_file m_step (faulty_step m_step pl) sb (sl, n) name = (bump sb, (slx, S n), true, None) /\
              mdata slx = mdata sl /\ mheap slx = mheap sl.
Proof.
  intros Hl Hb Hg. unfold is_base_file.
  destruct (faulty_plain m_step pl sl n (Stat name) eq_refl) as [H|(e & _ & H)]; rewrite H.
  - rewrite (stat_missing sl name Hl), (stat_found sb name f nd Hb Hg). cbn [fst snd]. exists (bump sl). now repeat split.
  - rewrite (stat_found sb name f nd Hb Hg). exists sl. now repeat split.
Qed.

Theorem cow_openfile_interrupted name pl sb sl tbl flag perm dat :
  normalize_path name = name -> name_acyclic name -> at_most_one_fault pl ->
  reg_file sb name dat -> layer_sane sl name -> lookup sl name = None -> Z.land flag cow_mask <> 0 ->
  exists sb2 sl2 n2 rc,
    three_way sl sl2 name dat rc /\ layer_sane sl2 name /\
    match rc with
    | Some ce => cow_step m_step (faulty_step m_step pl) (sb, (sl, 0%nat), tbl) (OpenFile name flag perm)
                 = ((sb2, (sl2, n2), tbl), RErr ce)
    | None => cow_step m_step (faulty_step m_step pl) (sb, (sl, 0%nat), tbl) (OpenFile name flag perm)
              = open_layer (faulty_step m_step pl) sb2 (sl2, n2) tbl (OpenFile name flag perm)
    end.
Proof.
  intros Hn Hac Hamo Hb Hs Hl Hfl. pose proof Hb as (f & nd & Lb & Gb & Ab & Db).
  destruct (is_base_file_base_only pl sb sl 0 name f nd) as (slx & Eb & Dx & Mx); try (rewrite Hn; assumption); [exact Gb|].
  assert (Cx : cosmetic sl slx) by (apply cosmetic_same; assumption).
  destruct (copy_atomic_layer name pl (bump sb) slx dat (Open name) 1 Hn Hac (amo_from_all pl 1 Hamo))
    as (sb2 & sl2 & n2 & rc & E & _ & S2 & _ & _ & T).
  { apply (cosmetic_reg_file sb); [apply cosmetic_bump | exact Hb]. }
  { now apply (cosmetic_layer_sane sl). }
  { now left. }
  exists sb2, sl2, n2, rc. split; [|split; [exact S2|]].
  - unfold three_way in *. unfold fs_entry, lookup, get_node in *. rewrite Dx, Mx in T. exact T.
  - destruct rc as [ce|].
    + apply (cow_openfile_reports _ _ _ _ _ _ _ _ _ _ _ _ _ Eb Hfl E).
    + apply (cow_openfile_copied _ _ _ _ _ _ _ _ _ _ _ _ Eb Hfl E).
Qed.

(* ---------------------------------------------------------------- CacheOnReadFs.copyToLayer *)
(* cache_copy_to_layer (Open / Chtimes / Chmod / Chown / Rename of the cache on a miss or a stale copy) on a
   regular base file: the base's Stat, then the copy above — same three-way outcome *)
Theorem cache_copy_atomic_layer name pl sb sl dat n0 :
  normalize_path name = name -> name_acyclic name -> amo_from pl n0 ->
  reg_file sb name dat -> layer_sane sl name ->
  exists sb' sl' n' r,
    cache_copy_to_layer m_step (faulty_step m_step pl) sb (sl, n0) name = (sb', (sl', n'), r) /\
    cosmetic sb sb' /\ layer_sane sl' name /\ (n0 <= n')%nat /\ (r <> None -> fault_used pl n0 n') /\
    three_way sl sl' name dat r.
Proof.
  intros Hn Hac Hamo Hb Hs. pose proof Hb as (f & n & L & G & A & D).
  assert (Hst : m_step sb (Stat name) = (bump sb, RInfo (finfo_of n))) by (apply (stat_found sb name f n); [now rewrite Hn | exact G]).
  rewrite (cache_copy_nondir m_step (faulty_step m_step pl) sb (sl, n0) name (bump sb) (finfo_of n) Hst A).
  destruct (copy_atomic_layer name pl (bump sb) sl dat (Open name) n0 Hn Hac Hamo
              (cosmetic_reg_file _ _ _ _ (cosmetic_bump sb) Hb) Hs (or_introl eq_refl))
    as (sb' & sl' & n' & r & E & C & S' & N & U & T).
  exists sb', sl', n', r. split; [exact E|]. split; [|now repeat split].
  eapply cosmetic_trans; [apply cosmetic_bump | exact C].
Qed.

(* faults on the BASE side: the Stat may be refused — the copy is attempted all the same *)
Theorem cache_copy_atomic_base name pl sb nB sl dat :
  normalize_path name = name -> name_acyclic name ->
  reg_file sb name dat -> layer_sane sl name ->
  exists sb' n' sl' r,
    cache_copy_to_layer (faulty_step m_step pl) m_step (sb, nB) sl name = ((sb', n'), sl', r) /\
    cosmetic sb sb' /\ layer_sane sl' name /\ three_way sl sl' name dat r.
Proof.
  intros Hn Hac Hb Hs. pose proof Hb as (f & n & L & G & A & D).
  assert (Hst : m_step sb (Stat name) = (bump sb, RInfo (finfo_of n))) by (apply (stat_found sb name f n); [now rewrite Hn | exact G]).
  destruct (faulty_plain m_step pl sb nB (Stat name) eq_refl) as [H|(e & He & H)].
  - rewrite Hst in H. cbn [fst snd] in H.
    rewrite (cache_copy_nondir (faulty_step m_step pl) m_step (sb, nB) sl name (bump sb, S nB) (finfo_of n) H A).
    destruct (copy_atomic_base name pl (bump sb) (S nB) sl dat (Open name) Hn Hac
                (cosmetic_reg_file _ _ _ _ (cosmetic_bump sb) Hb) Hs (or_introl eq_refl))
      as (sb' & n' & sl' & r & E & C & S' & T).
    exists sb', n', sl', r. split; [exact E|]. split; [|now split].
    eapply cosmetic_trans; [apply cosmetic_bump | exact C].
  - rewrite (cache_copy_stat_fails (faulty_step m_step pl) m_step (sb, nB) sl name) by (rewrite H; cbn [snd]; discriminate).
    rewrite H. cbn [fst].
    destruct (copy_atomic_base name pl sb (S nB) sl dat (Open name) Hn Hac Hb Hs (or_introl eq_refl))
      as (sb' & n' & sl' & r & E & C & S' & T).
    exists sb', n', sl', r. split; [exact E|]. split; [exact C | split; [exact S' | exact T]].
Qed.
