(* Proofs/MemFsSim.v — MemMapFs simulates the POSIX specification of Model/Posix.v on well-formed
   call sequences: same projected outcome for every call, same tree, contents, permission bits
   and directory listings.  Part 1: the relation and the path-level calls. *)
From Coq Require Import Sorting.Permutation Sorting.Sorted.
From AF Require Import Proofs.MemFileProof.
From AF Require Import Lib.Bytes Lib.Path Lib.Ops Gen.Consts Model.MemFile Model.ByteFile Model.MemFs Model.WfOps Model.Posix
  Proofs.BytesLemmas Proofs.MemFsPath Proofs.MemFsBasics Proofs.MemFsWF Proofs.MemFsStep Proofs.MemFsRename
  Proofs.MemFsInv Proofs.MemFsNoop Proofs.MemFsList Proofs.MemFsBelow.
Local Open Scope Z_scope.

(* ---------- the relation ---------- *)
Definition irel (n : node) (x : inode) : Prop :=
  match x with
  | IDir pm => ndir n = true /\ Z.land (nmode n) chmod_bits = pm
  | IFile d pm => ndir n = false /\ ndata n = d /\ (forall p, pm = Some p -> Z.land (nmode n) chmod_bits = p)
  end.
Definition hrel2 (h : hnd) (x : phandle) : Prop :=
  href h = pino x /\ hat h = Z.of_nat (ppos x) /\ hrdc h = Z.of_nat (prdc x) /\ hclosed h = pclosed x /\ hro h = pro x.

Definition tree_rel (s : mst) (t : pfs) : Prop := forall k, lookup s k = plookup t k.
Definition heap_rel (s : mst) (t : pfs) : Prop :=
  length (mheap s) = length (pinodes t) /\
  forall r n, get_node s r = Some n -> exists x, pinode t r = Some x /\ irel n x.

Record Rsim (s : mst) (t : pfs) : Prop := mkRsim {
  rs_wf : WF s;
  rs_tree : tree_rel s t;
  rs_nodup : NoDup (map fst (ptree t));
  rs_heap : heap_rel s t;
  rs_handles : Forall2 hrel2 (mhandles s) (phandles t)
}.

Definition core (n : node) : bool * bytes * Z := (ndir n, ndata n, nmode n).
Lemma irel_core n n' x : core n' = core n -> irel n x -> irel n' x.
Proof. unfold core. intros E. inversion E as [[E1 E2 E3]]. destruct x; cbn; now rewrite E1, ?E2, E3. Qed.
Lemma attrs_core n n' : attrs n' = attrs n -> core n' = core n.
Proof. unfold attrs, core. intros E. inversion E. reflexivity. Qed.

Lemma Rsim_init : Rsim m_init p_init.
Proof.
  split.
  - exact WF_init.
  - intros k. reflexivity.
  - cbn. constructor; [intros [] | constructor].
  - split; [reflexivity|]. intros [|r] n H; cbn in H; [|destruct r; discriminate].
    inversion H; subst n. exists (IDir 493). split; [reflexivity|]. split; reflexivity.
  - constructor.
Qed.

(* ---------- reading the relation ---------- *)
Lemma rel_node s t k r : Rsim s t -> lookup s k = Some r ->
  exists n x, get_node s r = Some n /\ plookup t k = Some r /\ pinode t r = Some x /\ pnode_at t k = Some x /\ irel n x.
Proof.
  intros R Hl. destruct (GWF_lookup_node _ _ _ _ _ _ (rs_wf _ _ R) Hl) as (n & Hn).
  destruct (proj2 (rs_heap _ _ R) r n Hn) as (x & Hx & Hi). exists n, x.
  assert (Hp : plookup t k = Some r) by (rewrite <- (rs_tree _ _ R); exact Hl).
  repeat split; auto. unfold pnode_at. now rewrite Hp.
Qed.

Lemma rel_none s t k : Rsim s t -> lookup s k = None -> plookup t k = None /\ pnode_at t k = None.
Proof. intros R Hl. assert (Hp : plookup t k = None) by (rewrite <- (rs_tree _ _ R); exact Hl). split; [exact Hp|]. unfold pnode_at. now rewrite Hp. Qed.

Lemma rel_is_dir s t k : Rsim s t -> is_dir_at s k = pis_dir t k.
Proof.
  intros R. unfold is_dir_at, kind_at, pis_dir. destruct (lookup s k) as [r|] eqn:Hl.
  - destruct (rel_node s t k r R Hl) as (n & x & Hn & _ & _ & Hx & Hi). rewrite Hn, Hx.
    destruct x as [pm|d pm]; cbn in Hi; destruct Hi as [Hd _]; now rewrite Hd.
  - destruct (rel_none s t k R Hl) as [_ Hx]. now rewrite Hx.
Qed.

Lemma rel_is_file s t k : Rsim s t -> is_file_at s k = pis_file t k.
Proof.
  intros R. unfold is_file_at, kind_at, pis_file. destruct (lookup s k) as [r|] eqn:Hl.
  - destruct (rel_node s t k r R Hl) as (n & x & Hn & _ & _ & Hx & Hi). rewrite Hn, Hx.
    destruct x as [pm|d pm]; cbn in Hi; destruct Hi as [Hd _]; now rewrite Hd.
  - destruct (rel_none s t k R Hl) as [_ Hx]. now rewrite Hx.
Qed.

Lemma existsb_keys' {A B} (g : str -> bool) (l1 : list (str * A)) (l2 : list (str * B)) :
  (forall k, alist_get k l1 = None <-> alist_get k l2 = None) ->
  existsb (fun kv => g (fst kv)) l1 = existsb (fun kv => g (fst kv)) l2.
Proof.
  intros Hk.
  assert (Hx : forall {C D} (a : list (str * C)) (b : list (str * D)),
     (forall k, alist_get k a = None <-> alist_get k b = None) ->
     existsb (fun kv => g (fst kv)) a = true -> existsb (fun kv => g (fst kv)) b = true).
  { intros C D a b Hab Ha. apply existsb_exists in Ha as ([k v] & Hin & Hg). cbn in Hg.
    assert (Hka : alist_get k a <> None). { intros E. apply aget_none_keys in E. apply E. apply in_map_iff. now exists (k, v). }
    destruct (alist_get k b) as [v'|] eqn:Eb; [|exfalso; apply Hka; now apply Hab].
    apply existsb_exists. exists (k, v'). split; [now apply aget_in | exact Hg]. }
  destruct (existsb (fun kv => g (fst kv)) l1) eqn:E1.
  - symmetry. now apply (Hx _ _ l1 l2).
  - destruct (existsb (fun kv => g (fst kv)) l2) eqn:E2; [|reflexivity].
    rewrite (Hx _ _ l2 l1) in E1; [discriminate | intros k; symmetry; apply Hk | exact E2].
Qed.

(* "the name passes through a regular file" means the same on both sides *)
Lemma rel_through s t k : Rsim s t -> through_file s k = pthrough_file t k.
Proof.
  intros R. unfold through_file, pthrough_file.
  assert (E : forall l : list (str * nat), existsb (fun kv => below (fst kv) k && is_file_at s (fst kv)) l =
                                           existsb (fun kv => pbelow (fst kv) k && pis_file t (fst kv)) l).
  { induction l as [|kv l IH]; [reflexivity|]. cbn [existsb]. now rewrite IH, (rel_is_file s t _ R). }
  rewrite E.
  apply (existsb_keys' (fun a => pbelow a k && pis_file t a)). intros k'. fold (lookup s k') (plookup t k'). now rewrite (rs_tree _ _ R).
Qed.

(* the ordinary preconditions: the specification resolves the name(s) of the call *)
Ltac resolve_ord R Hwf Hnt :=
  pose proof (ord_not_through _ _ (rs_wf _ _ R) Hwf) as Hnt; cbv beta iota zeta in Hnt; rewrite ?(rel_through _ _ _ R) in Hnt.

(* ---------- building the relation after a step ---------- *)
Lemma heap_rel_kept s s' t t' : heap_rel s t -> attrs_kept s s' -> pinodes t' = pinodes t -> heap_rel s' t'.
Proof.
  intros [Hlen Hp] (Hl & _ & Ha) Ep. split; [unfold pinode; rewrite Ep; congruence|].
  intros r n' Hn'. assert (Hlt : (r < length (mheap s))%nat) by (rewrite <- Hl; now apply get_some_lt in Hn').
  destruct (nth_error (mheap s) r) as [n|] eqn:Hn; [|apply nth_error_None in Hn; lia].
  destruct (Ha r n Hn) as (n2 & Hn2 & Ea). rewrite Hn' in Hn2. inversion Hn2; subst n2.
  destruct (Hp r n Hn) as (x & Hx & Hi). exists x. split; [unfold pinode; now rewrite Ep|].
  apply (irel_core n); [now apply attrs_core | exact Hi].
Qed.

(* the same, when only the "core" (kind, contents, mode) of every node is kept *)
Definition core_kept (s s' : mst) : Prop :=
  length (mheap s') = length (mheap s) /\
  forall r n, get_node s r = Some n -> exists n', get_node s' r = Some n' /\ core n' = core n.
Lemma heap_rel_core s s' t t' : heap_rel s t -> core_kept s s' -> pinodes t' = pinodes t -> heap_rel s' t'.
Proof.
  intros [Hlen Hp] (Hl & Ha) Ep. split; [unfold pinode; rewrite Ep; congruence|].
  intros r n' Hn'. assert (Hlt : (r < length (mheap s))%nat) by (rewrite <- Hl; now apply get_some_lt in Hn').
  destruct (nth_error (mheap s) r) as [n|] eqn:Hn; [|apply nth_error_None in Hn; lia].
  destruct (Ha r n Hn) as (n2 & Hn2 & Ea). rewrite Hn' in Hn2. inversion Hn2; subst n2.
  destruct (Hp r n Hn) as (x & Hx & Hi). exists x. split; [unfold pinode; now rewrite Ep|].
  apply (irel_core n); [exact Ea | exact Hi].
Qed.
Lemma core_upd s r g : (forall m, core (g m) = core m) -> core_kept s (upd_node s r g).
Proof.
  intros Hg. split; [apply mheap_upd_len|]. intros x n Hx. rewrite get_upd. destruct (Nat.eqb r x) eqn:E.
  - apply Nat.eqb_eq in E. subst x. rewrite Hx. cbn. exists (g n). auto.
  - exists n. auto.
Qed.

(* one node and its inode change together *)
Lemma heap_rel_set s t r g x :
  heap_rel s t -> (forall n, get_node s r = Some n -> irel (g n) x) ->
  heap_rel (upd_node s r g) (set_inode t r x).
Proof.
  intros [Hlen Hp] Hg. split; [rewrite mheap_upd_len; unfold set_inode; cbn [pinodes]; now rewrite list_set_len|].
  intros y n' Hn'. rewrite get_upd in Hn'. unfold pinode, set_inode. cbn [pinodes]. destruct (Nat.eqb r y) eqn:E.
  - apply Nat.eqb_eq in E. subst y. destruct (get_node s r) as [n|] eqn:Hn; [|discriminate]. cbn in Hn'. inversion Hn'; subst n'.
    exists x. split; [|now apply Hg]. apply nth_list_set_same. rewrite <- Hlen. now apply get_some_lt in Hn.
  - apply Nat.eqb_neq in E. rewrite nth_list_set_other by exact E. now apply Hp.
Qed.

(* a new node and a new inode *)
Lemma heap_rel_new s t k n0 x : heap_rel s t -> irel n0 x ->
  heap_rel (put_new s k n0) (padd t k x).
Proof.
  intros [Hlen Hp] Hi. split.
  - unfold put_new, alloc_node, set_data, padd. cbn [mheap pinodes]. rewrite !app_length. cbn. lia.
  - intros r n Hn. unfold pinode, padd. cbn [pinodes].
    destruct (Nat.lt_ge_cases r (length (mheap s))) as [Hlt|Hge].
    + rewrite get_put_new_old in Hn by exact Hlt. destruct (Hp r n Hn) as (y & Hy & Hiy). exists y. split; [|exact Hiy].
      rewrite nth_error_app1 by (rewrite <- Hlen; exact Hlt). exact Hy.
    + assert (r = length (mheap s)).
      { apply get_some_lt in Hn. unfold put_new, alloc_node, set_data in Hn. cbn [mheap] in Hn. rewrite app_length in Hn. cbn in Hn. lia. }
      subst r. rewrite get_put_new_new in Hn. inversion Hn; subst n. exists x. split; [|exact Hi].
      rewrite Hlen, nth_error_app2, Nat.sub_diag by lia. reflexivity.
Qed.

Lemma tree_rel_new s t k n0 x : heap_rel s t -> tree_rel s t -> tree_rel (put_new s k n0) (padd t k x).
Proof.
  intros [Hlen _] Ht k'. rewrite lookup_put_new. unfold plookup, padd. cbn [ptree]. rewrite aget_set, <- Hlen.
  destruct (beqb k k'); [reflexivity | apply Ht].
Qed.

Lemma handles_alloc hs ps h x : Forall2 hrel2 hs ps -> hrel2 h x -> Forall2 hrel2 (hs ++ [h]) (ps ++ [x]).
Proof. intros H Hx. apply Forall2_app; [exact H | now constructor]. Qed.

(* bit facts about chmodBits *)
Lemma lor_lnot_land a c : Z.land (Z.lor (Z.land a (Z.lnot c)) (Z.land c c)) c = c -> True. Proof. auto. Qed.
Lemma perm_bits_dir p : Z.land (Z.lor mode_dir (Z.land p chmod_bits)) chmod_bits = Z.land p chmod_bits.
Proof.
  rewrite Z.land_lor_distr_l. change (Z.land mode_dir chmod_bits) with 0. rewrite Z.lor_0_l.
  rewrite <- Z.land_assoc, Z.land_diag. reflexivity.
Qed.
Lemma perm_bits_dir' p : Z.land (Z.lor (Z.land p chmod_bits) mode_dir) chmod_bits = Z.land p chmod_bits.
Proof. rewrite Z.lor_comm. apply perm_bits_dir. Qed.
Lemma perm_bits_plain p : Z.land (Z.land p chmod_bits) chmod_bits = Z.land p chmod_bits.
Proof. rewrite <- Z.land_assoc, Z.land_diag. reflexivity. Qed.
Lemma perm_bits_chmod a m : Z.land (Z.lor (Z.land a (Z.lnot chmod_bits)) (Z.land m chmod_bits)) chmod_bits = Z.land m chmod_bits.
Proof.
  rewrite Z.land_lor_distr_l, <- !Z.land_assoc, Z.land_diag.
  replace (Z.land (Z.lnot chmod_bits) chmod_bits) with 0 by (rewrite Z.land_comm; symmetry; apply Z.land_lnot_diag).
  rewrite Z.land_0_r, Z.lor_0_l. reflexivity.
Qed.

Lemma heap_rel_mheap s s' t t' : mheap s' = mheap s -> pinodes t' = pinodes t -> heap_rel s t -> heap_rel s' t'.
Proof. unfold heap_rel, get_node, pinode. intros -> ->. auto. Qed.

Lemma heap_rel_upd s t r g :
  heap_rel s t -> (forall n x, get_node s r = Some n -> pinode t r = Some x -> irel n x -> irel (g n) x) ->
  heap_rel (upd_node s r g) t.
Proof.
  intros [Hlen Hp] Hg. split; [now rewrite mheap_upd_len|].
  intros y n' Hn'. rewrite get_upd in Hn'. destruct (Nat.eqb r y) eqn:E; [|now apply Hp].
  apply Nat.eqb_eq in E. subst y. destruct (get_node s r) as [n|] eqn:Hn; [|discriminate]. cbn in Hn'. inversion Hn'; subst n'.
  destruct (Hp r n Hn) as (x & Hx & Hi). exists x. split; [exact Hx | now apply (Hg n x)].
Qed.

Lemma heap_rel_leaf s t s' k x n' :
  heap_rel s t ->
  length (mheap s') = S (length (mheap s)) ->
  (forall r n2, (r < length (mheap s))%nat -> get_node s' r = Some n2 -> exists n, get_node s r = Some n /\ core n2 = core n) ->
  get_node s' (length (mheap s)) = Some n' -> irel n' x ->
  heap_rel s' (padd t k x).
Proof.
  intros [Hlen Hp] Hl Hold Hnew Hi. split; [unfold padd; cbn [pinodes]; rewrite app_length; cbn; lia|].
  intros r n2 Hn2. unfold pinode, padd. cbn [pinodes].
  destruct (Nat.lt_ge_cases r (length (mheap s))) as [Hlt|Hge].
  - destruct (Hold r n2 Hlt Hn2) as (n & Hn & Ec). destruct (Hp r n Hn) as (y & Hy & Hiy). exists y.
    split; [rewrite nth_error_app1 by (rewrite <- Hlen; exact Hlt); exact Hy | apply (irel_core n); auto].
  - assert (r = length (mheap s)) by (apply get_some_lt in Hn2; lia). subst r.
    rewrite Hnew in Hn2. inversion Hn2; subst n2. exists x. split; [|exact Hi].
    rewrite Hlen, nth_error_app2, Nat.sub_diag by lia. reflexivity.
Qed.

Lemma Rsim_view s s' t : mdata s' = mdata s -> mheap s' = mheap s -> mhandles s' = mhandles s -> Rsim s t -> Rsim s' t.
Proof.
  intros Hd Hh Hn [W T N H Hs]. split.
  - eapply WF_view; [| |exact W]; congruence.
  - intros k. unfold lookup. rewrite Hd. apply T.
  - exact N.
  - eapply heap_rel_mheap; [exact Hh | reflexivity | exact H].
  - now rewrite Hn.
Qed.

Definition sim_raw (s : mst) (t : pfs) (o : op) : Prop :=
  Rsim (fst (m_step_raw s o)) (fst (p_step t o)) /\ mproj o (snd (m_step_raw s o)) = snd (p_step t o).

(* ---------- Mkdir ---------- *)
Lemma mkdir_eq s p perm :
  WF s -> wf_op_ord s (Mkdir p perm) = true -> lookup s (normalize_path p) = None ->
  let k := normalize_path p in let pm := Z.land perm chmod_bits in let item := length (mheap s) in
  exists q, lookup s (par k) = Some q /\
    m_mkdir s p perm = (upd_node (upd_node (put_new s k (mkdir_node k pm (mclock s))) q (set_kid k item)) item (with_mode (Z.lor pm mode_dir)), ROk).
Proof.
  intros W Hwf Hl k pm item. cbn [wf_op_ord] in Hwf. apply andb_true_iff in Hwf as [Hn Hwf]. fold k in Hwf, Hl. rewrite Hl in Hwf.
  assert (Hc : canon k) by now apply canon_normalize.
  rewrite (m_mkdir_missing s p perm Hl (below_file_dir_parent s k Hc Hwf)). cbv zeta. fold k pm.
  destruct (reg_new_present s k (mkdir_node k pm (mclock s)) pm W Hc Hl) as (q & Hq & -> & W'); auto.
  exists q. split; [exact Hq|]. apply set_file_mode_canon; [exact Hc|].
  rewrite lookup_upd, lookup_put_new, beqb_refl. reflexivity.
Qed.

Lemma sim_mkdir s t p perm : Rsim s t -> wf_op_ord s (Mkdir p perm) = true -> sim_raw s t (Mkdir p perm).
Proof.
  intros R Hwf. pose proof R as [W T N H Hs]. unfold sim_raw. cbn [m_step_raw p_step].
  resolve_ord R Hwf Hnt. rewrite Hnt.
  set (k := normalize_path p) in *.
  destruct (lookup s k) as [f|] eqn:Hl.
  - destruct (rel_node s t k f R Hl) as (n & x & _ & Hp & _). unfold m_mkdir. fold k. rewrite Hl, Hp. split; [exact R | reflexivity].
  - destruct (rel_none s t k R Hl) as [Hp _]. rewrite Hp.
    pose proof (WF_mkdir s p perm W Hwf) as W'.
    destruct (mkdir_eq s p perm W Hwf Hl) as (q & Hq & Em). fold k in Em, Hq. rewrite Em in *. cbn [fst snd] in *.
    assert (Hd : pis_dir t (pparent k) = true).
    { rewrite <- (rel_is_dir s t _ R). cbn [wf_op_ord] in Hwf. apply andb_true_iff in Hwf as [_ Hwf]. fold k in Hwf. now rewrite Hl in Hwf. }
    rewrite Hd. cbn [fst snd mproj]. split; [|reflexivity].
    set (pm := Z.land perm chmod_bits) in *. set (item := length (mheap s)) in *.
    split.
    + exact W'.
    + intros k'. rewrite !lookup_upd. now apply tree_rel_new.
    + unfold padd. cbn [ptree]. now apply nodup_set.
    + eapply (heap_rel_leaf s t _ k (IDir pm) (with_mode (Z.lor pm mode_dir) (mkdir_node k pm (mclock s)))); auto.
      * rewrite !mheap_upd_len. unfold put_new, alloc_node, set_data. cbn [mheap]. rewrite app_length. cbn. lia.
      * intros r n2 Hlt Hn2. rewrite !get_upd in Hn2.
        destruct (Nat.eqb item r) eqn:E1; [apply Nat.eqb_eq in E1; unfold item in E1; lia|].
        destruct (Nat.eqb q r) eqn:E2.
        -- apply Nat.eqb_eq in E2. subst r. rewrite get_put_new_old in Hn2 by exact Hlt.
           destruct (get_node s q) as [n|]; [|discriminate]. cbn in Hn2. inversion Hn2; subst n2. exists n. auto.
        -- rewrite get_put_new_old in Hn2 by exact Hlt. exists n2. auto.
      * rewrite get_upd, Nat.eqb_refl, get_upd.
        assert (E : Nat.eqb q item = false).
        { apply Nat.eqb_neq. intros ->. apply (GWF_lt _ _ _ _ _ _ W) in Hq. unfold item in Hq. lia. }
        rewrite E. unfold item. rewrite get_put_new_new. reflexivity.
      * cbn. split; [reflexivity | apply perm_bits_dir'].
    + rewrite !mhandles_upd. exact Hs.
Qed.

(* ---------- MkdirAll: the chain of auto-created ancestors ---------- *)
Lemma p_mkchain_present fuel t k perm i : plookup t k = Some i -> p_mkchain fuel t k perm = t.
Proof. intros H. destruct fuel; cbn [p_mkchain]; [reflexivity | now rewrite H]. Qed.

Lemma irel_set_kid k f n x : irel n x -> irel (set_kid k f n) x.
Proof. apply irel_core. reflexivity. Qed.

Lemma register_chain_sim : forall fuel fuel' (P : kset) s t k f perm,
  (length k < fuel)%nat -> (length k <= fuel')%nat ->
  GWF P kempty kempty s -> (forall x, P x -> lookup s x <> None) ->
  lookup s k = Some f -> node_name s f = k -> k <> s_slash -> P k ->
  (forall a r n, below a k = true -> lookup s a = Some r -> get_node s r = Some n -> ndir n = true) ->
  Z.land perm chmod_bits = perm ->
  tree_rel s t -> heap_rel s t -> NoDup (map fst (ptree t)) ->
  let s' := register fuel s f perm in let t' := p_mkchain fuel' t (pparent k) perm in
  tree_rel s' t' /\ heap_rel s' t' /\ NoDup (map fst (ptree t')) /\ phandles t' = phandles t.
Proof.
  induction fuel as [|fu IH]; intros fuel' P s t k f perm Hfuel Hfuel' G HPkeys Hk Hname Hkr HPk Hdirs Hperm T H N; [lia|].
  assert (Hc : canon k) by (eapply g_canon; eauto).
  change (pparent k) with (par k).
  destruct (lookup s (par k)) as [p|] eqn:Hpar.
  - destruct (g_node _ _ _ _ G _ _ Hpar) as (pn & Hpn & _ & Hpd & _).
    assert (Hdir : ndir pn = true).
    { destruct (str_eq_dec (par k) s_slash) as [E|E].
      - destruct (g_root _ _ _ _ G) as (r0 & n0 & Hl0 & Hn0 & _ & Hd0). rewrite E in Hpar. congruence.
      - apply (Hdirs (par k) p pn); auto. now apply below_par. }
    rewrite (register_present (S fu) s f perm k p pn Hname Hc Hpar Hpn) by congruence.
    assert (Hpp : plookup t (par k) = Some p) by (rewrite <- T; exact Hpar).
    rewrite (p_mkchain_present fuel' t (par k) perm p Hpp). cbv zeta.
    split; [intros k'; rewrite lookup_upd; apply T|]. split; [|auto].
    apply heap_rel_upd; [exact H|]. intros n x _ _. apply irel_set_kid.
  - rewrite (register_missing fu s f perm k Hname Hc Hpar). cbv zeta.
    set (pk := par k) in *. set (nd := mkdir_node pk perm (mclock s)).
    set (s2 := put_new s pk nd). set (item := length (mheap s)).
    assert (Hcp : canon pk) by now apply canon_par.
    assert (Hpkr : pk <> s_slash).
    { intros E. destruct (g_root _ _ _ _ G) as (r0 & n0 & Hl0 & _). rewrite E in Hpar. congruence. }
    assert (G2 : GWF (kadd P pk) kempty kempty s2) by (apply GWF_new; auto).
    assert (L2 : forall k', k' <> pk -> lookup s2 k' = lookup s k').
    { intros k' Hne. unfold s2. rewrite lookup_put_new. assert (E : beqb pk k' = false) by (apply beqb_neq; congruence). now rewrite E. }
    assert (L2k : lookup s2 pk = Some item) by (unfold s2; rewrite lookup_put_new, beqb_refl; reflexivity).
    assert (Gn2 : forall r, (r < length (mheap s))%nat -> get_node s2 r = get_node s r) by (intros; now apply get_put_new_old).
    assert (Gi2 : get_node s2 item = Some nd) by apply get_put_new_new.
    assert (Hkpk : k <> pk) by (intros E; symmetry in E; revert E; now apply par_neq).
    assert (Hlen : (length pk < length k)%nat) by (apply par_shorter; auto).
    assert (Hpp : plookup t pk = None) by (rewrite <- T; exact Hpar).
    destruct fuel' as [|fu']; [destruct k; [now apply canon_nonempty in Hc | cbn in Hfuel'; lia]|].
    cbn [p_mkchain]. rewrite Hpp. set (t2 := padd t pk (IDir perm)).
    assert (Hpk2 : forall x, kadd P pk x -> lookup s2 x <> None).
    { intros x [Hx | ->]; [rewrite L2; [now apply HPkeys | intros ->; apply (HPkeys _ Hx); exact Hpar] | congruence]. }
    assert (Hnm2 : node_name s2 item = pk) by (unfold node_name; now rewrite Gi2).
    assert (Hdirs2 : forall a r n, below a pk = true -> lookup s2 a = Some r -> get_node s2 r = Some n -> ndir n = true).
    { intros a r n Hb Hl Hn. assert (Hane : a <> pk) by (intros ->; rewrite below_irrefl in Hb; discriminate).
      rewrite L2 in Hl by exact Hane. rewrite Gn2 in Hn by (eapply GWF_lt; eauto).
      apply (Hdirs a r n); auto. eapply below_trans; [exact Hb|]. now apply below_par. }
    assert (T2 : tree_rel s2 t2) by (now apply tree_rel_new).
    assert (H2 : heap_rel s2 t2).
    { apply heap_rel_new; [exact H|]. unfold irel, nd, mkdir_node. cbn [ndir nmode with_mode new_dir]. split; [reflexivity|].
      rewrite <- Hperm at 1. rewrite perm_bits_dir. exact Hperm. }
    assert (N2 : NoDup (map fst (ptree t2))) by (unfold t2, padd; cbn [ptree]; now apply nodup_set).
    destruct (register_chain fu (kadd P pk) s2 pk item perm) as [G3 F3]; auto; [lia | now right|].
    destruct (IH fu' (kadd P pk) s2 t2 pk item perm) as (T3 & H3 & N3 & Hh3); auto; [lia | lia | now right|].
    set (s3 := register fu s2 item perm) in *. set (t3 := p_mkchain fu' t2 (pparent pk) perm) in *.
    assert (L3k : lookup s3 pk = Some item) by (apply (rf_keep _ _ _ _ F3); exact L2k).
    rewrite L3k.
    destruct (rf_nodes _ _ _ _ F3 item nd Gi2) as (n3 & Hn3 & En3).
    destruct (with_kids_nil_fields _ _ En3) as (A1 & A2 & A3 & _).
    rewrite (add_kid_eq s3 item f n3 Hn3) by (rewrite A3; reflexivity).
    split; [intros k'; rewrite lookup_upd; apply T3|]. split; [|split; [exact N3 | exact Hh3]].
    apply heap_rel_upd; [exact H3|]. intros n x _ _. apply irel_set_kid.
Qed.

Lemma sim_mkdirall s t p perm : Rsim s t -> wf_op_ord s (MkdirAll p perm) = true -> sim_raw s t (MkdirAll p perm).
Proof.
  intros R Hwf. pose proof R as [W T N H Hs]. unfold sim_raw. cbn [m_step_raw p_step].
  resolve_ord R Hwf Hnt. rewrite Hnt.
  pose proof (WF_mkdirall s p perm W Hwf) as W'.
  cbn [wf_op_ord] in Hwf. apply andb_true_iff in Hwf as [Hn Hwf].
  set (k := normalize_path p) in *. assert (Hc : canon k) by now apply canon_normalize.
  destruct (lookup s k) as [f|] eqn:Hl.
  - destruct (rel_node s t k f R Hl) as (n & x & Hgn & Hp & Hpi & Hpn & Hi).
    assert (Hd : is_dir_at s k = true).
    { pose proof (forallb_lookup _ s k f tt Hwf Hl) as Hf. cbn [fst] in Hf. now rewrite beqb_refl in Hf. }
    unfold is_dir_at, kind_at in Hd. rewrite Hl, Hgn in Hd.
    rewrite Hpn. destruct x as [pm|d pm]; [|destruct Hi as [Hi _]; rewrite Hi in Hd; discriminate].
    unfold m_mkdirall, m_mkdir. fold k. rewrite Hl. cbn. split; [exact R | reflexivity].
  - destruct (rel_none s t k R Hl) as [Hp Hpn]. rewrite Hpn.
    unfold m_mkdirall in *. rewrite (m_mkdir_missing s p perm Hl (below_file_prefixes_dirs s k W Hc Hwf)) in *. cbv zeta in *. fold k in W' |- *.
    set (pm := Z.land perm chmod_bits) in *. set (item := length (mheap s)) in *.
    set (nd := mkdir_node k pm (mclock s)) in *. set (s2 := put_new s k nd) in *.
    destruct (WF_mkdir_chain s k pm W Hc Hl Hwf) as [W3 F3]. fold nd s2 item in W3, F3.
    set (s3 := reg s2 item pm) in *.
    assert (L2k : lookup s2 k = Some item) by (unfold s2; rewrite lookup_put_new, beqb_refl; reflexivity).
    assert (L3k : lookup s3 k = Some item) by (apply (rf_keep _ _ _ _ F3); exact L2k).
    rewrite (set_file_mode_canon s3 k _ item Hc L3k) in *. cbn [fst snd mproj] in *.
    assert (Hkr : k <> s_slash). { intros E. destruct (g_root _ _ _ _ W) as (r0 & n1 & Hl0 & _). rewrite E in Hl. congruence. }
    assert (Nk : node_name s2 item = k) by (unfold node_name, s2, item; now rewrite get_put_new_new).
    cbn [p_mkchain]. rewrite Hp. set (t2 := padd t k (IDir pm)).
    assert (Hpmid : Z.land pm chmod_bits = pm) by apply perm_bits_plain.
    destruct (register_chain_sim (S (length (node_name s2 item))) (length k) (kadd kempty k) s2 t2 k item pm) as (T3 & H3 & N3 & Hh3); auto.
    + rewrite Nk. lia.
    + apply GWF_new; auto.
    + intros x [[] | ->]. congruence.
    + now right.
    + intros a r n Hb Hla Hna. assert (Hak : a <> k) by (intros ->; rewrite below_irrefl in Hb; discriminate).
      unfold s2 in Hla. rewrite lookup_put_new in Hla. assert (E : beqb k a = false) by (apply beqb_neq; congruence). rewrite E in Hla.
      unfold s2 in Hna. rewrite get_put_new_old in Hna by (eapply GWF_lt; eauto).
      pose proof (forallb_lookup _ s a r tt Hwf Hla) as Hf. cbn [fst] in Hf. rewrite Hb, orb_true_r in Hf. cbn in Hf.
      apply is_dir_at_true in Hf as (r' & n' & Hl' & Hn' & Hd'). congruence.
    + now apply tree_rel_new.
    + apply heap_rel_new; [exact H|]. unfold irel, nd, mkdir_node. cbn [ndir nmode with_mode new_dir]. split; [reflexivity|]. apply perm_bits_dir.
    + unfold t2, padd. cbn [ptree]. now apply nodup_set.
    + fold s3 in T3, H3. split; [|reflexivity]. split.
      * exact W'.
      * intros k'. rewrite lookup_upd. apply T3.
      * exact N3.
      * apply heap_rel_upd; [exact H3|]. intros n x Hn3 Hx3 Hi.
        assert (Gi2 : get_node s2 item = Some nd) by apply get_put_new_new.
        destruct (rf_nodes _ _ _ _ F3 item nd Gi2) as (n3 & Hn3' & En3). rewrite Hn3 in Hn3'. inversion Hn3'; subst n3.
        destruct (with_kids_nil_fields _ _ En3) as (_ & A2 & _ & _ & A5 & _).
        destruct x as [pm0|d pm0]; cbn in Hi |- *.
        -- destruct Hi as [Hd Hm]. split; [exact Hd|]. rewrite <- Hm, A5. unfold nd, mkdir_node. cbn [nmode with_mode].
           now rewrite Z.lor_comm.
        -- destruct Hi as [Hd _]. rewrite A2 in Hd. discriminate.
      * rewrite mhandles_upd. rewrite (rf_handles _ _ _ _ F3). rewrite Hh3. exact Hs.
Qed.

(* ---------- Open / Stat / Chmod / Chown / Chtimes ---------- *)
Lemma F2_len {A B} (R : A -> B -> Prop) l1 l2 : Forall2 R l1 l2 -> length l1 = length l2.
Proof. induction 1; cbn; congruence. Qed.
Lemma handles_len s t : Rsim s t -> length (mhandles s) = length (phandles t).
Proof. intros R. apply (F2_len _ _ _ (rs_handles _ _ R)). Qed.

Lemma Rsim_alloc_handle s t h x : Rsim s t -> hrel2 h x ->
  Rsim (fst (alloc_handle s h)) (mkP (ptree t) (pinodes t) (phandles t ++ [x])).
Proof.
  intros [W T N H Hs] Hx. split; auto.
  - now apply WF_alloc_handle.
  - cbn. now apply handles_alloc.
Qed.

Lemma sim_open s t p : Rsim s t -> wf_op_ord s (Open p) = true -> sim_raw s t (Open p).
Proof.
  intros R Hwf. unfold sim_raw. cbn [m_step_raw p_step]. resolve_ord R Hwf Hnt. rewrite Hnt. unfold m_open. set (k := normalize_path p).
  destruct (lookup s k) as [f|] eqn:Hl.
  - destruct (rel_node s t k f R Hl) as (n & x & _ & Hp & _). rewrite Hp. unfold popen, alloc_handle. cbn [fst snd mproj].
    split; [|now rewrite (handles_len s t R)].
    refine (Rsim_alloc_handle s t (mkH f 0 0 false true) (mkPH f 0 0 false true) R _). repeat split.
  - destruct (rel_none s t k R Hl) as [Hp _]. rewrite Hp. split; [exact R | reflexivity].
Qed.

Lemma zlen_to_nat {A} (l : list A) : Z.to_nat (zlen l) = length l.
Proof. unfold zlen. apply Nat2Z.id. Qed.

Lemma sim_stat s t p : Rsim s t -> wf_op_ord s (Stat p) = true -> sim_raw s t (Stat p).
Proof.
  intros R Hwf. unfold sim_raw. cbn [m_step_raw p_step]. resolve_ord R Hwf Hnt. rewrite Hnt. unfold m_stat. set (k := normalize_path p).
  destruct (lookup s k) as [f|] eqn:Hl.
  - destruct (rel_node s t k f R Hl) as (n & x & Hn & Hp & _ & Hx & Hi). rewrite Hn, Hx. cbn [fst snd mproj finfo_of fi_dir fi_size].
    destruct x as [pm|d pm]; cbn in Hi.
    + destruct Hi as [Hd _]. rewrite Hd. split; [exact R | reflexivity].
    + destruct Hi as (Hd & Hdat & _). rewrite Hd, Hdat, zlen_to_nat. split; [exact R | reflexivity].
  - destruct (rel_none s t k R Hl) as [_ Hx]. rewrite Hx. split; [exact R | reflexivity].
Qed.

Lemma Rsim_core s t r g : Rsim s t -> keeps_shape g -> (forall m, core (g m) = core m) -> Rsim (upd_node s r g) t.
Proof.
  intros [W T N H Hs] Hk Hg. split.
  - now apply WF_attr.
  - intros k. rewrite lookup_upd. apply T.
  - exact N.
  - apply heap_rel_upd; [exact H|]. intros n x _ _. apply irel_core. apply Hg.
  - now rewrite mhandles_upd.
Qed.

Lemma sim_chown s t p u g : Rsim s t -> wf_op_ord s (Chown p u g) = true -> sim_raw s t (Chown p u g).
Proof.
  intros R Hwf. unfold sim_raw. cbn [m_step_raw p_step]. resolve_ord R Hwf Hnt. rewrite Hnt. unfold m_chown. set (k := normalize_path p).
  destruct (lookup s k) as [f|] eqn:Hl.
  - destruct (rel_node s t k f R Hl) as (n & x & _ & Hp & _). rewrite Hp. cbn [fst snd mproj].
    split; [|reflexivity]. apply Rsim_core; [exact R | apply keeps_owner | reflexivity].
  - destruct (rel_none s t k R Hl) as [Hp _]. rewrite Hp. split; [exact R | reflexivity].
Qed.

Lemma sim_chtimes s t p tm : Rsim s t -> wf_op_ord s (Chtimes p tm) = true -> sim_raw s t (Chtimes p tm).
Proof.
  intros R Hwf. unfold sim_raw. cbn [m_step_raw p_step]. resolve_ord R Hwf Hnt. rewrite Hnt. unfold m_chtimes. set (k := normalize_path p).
  destruct (lookup s k) as [f|] eqn:Hl.
  - destruct (rel_node s t k f R Hl) as (n & x & _ & Hp & _). rewrite Hp. cbn [fst snd mproj].
    split; [|reflexivity]. apply Rsim_core; [exact R | apply keeps_mtime | reflexivity].
  - destruct (rel_none s t k R Hl) as [Hp _]. rewrite Hp. split; [exact R | reflexivity].
Qed.

(* one node and its inode change together, everything else stays *)
Lemma Rsim_set s t r g x : Rsim s t -> keeps_shape g ->
  (forall n, get_node s r = Some n -> irel (g n) x) -> Rsim (upd_node s r g) (set_inode t r x).
Proof.
  intros [W T N H Hs] Hk Hg. split.
  - now apply WF_attr.
  - intros k. rewrite lookup_upd. apply T.
  - exact N.
  - now apply heap_rel_set.
  - now rewrite mhandles_upd.
Qed.

Lemma sim_chmod s t p m : Rsim s t -> wf_op_ord s (Chmod p m) = true -> sim_raw s t (Chmod p m).
Proof.
  intros R Hwf. unfold sim_raw. cbn [m_step_raw p_step]. resolve_ord R Hwf Hnt. rewrite Hnt. unfold m_chmod. set (k := normalize_path p).
  cbn [wf_op_ord] in Hwf. apply andb_true_iff in Hwf as [Hn _]. assert (Hc : canon k) by now apply canon_normalize.
  destruct (lookup s k) as [f|] eqn:Hl.
  - destruct (rel_node s t k f R Hl) as (n & x & Hn' & Hp & _ & Hx & Hi). rewrite Hp, Hx, Hn'.
    rewrite (set_file_mode_canon s k _ f Hc Hl).
    destruct x as [pm|d pm]; cbn [fst snd mproj]; (split; [|reflexivity]); apply Rsim_set; auto using keeps_mode;
      intros n0 Hn0; rewrite Hn' in Hn0; inversion Hn0; subst n0; cbn in Hi |- *.
    + destruct Hi as [Hd _]. split; [exact Hd | apply perm_bits_chmod].
    + destruct Hi as (Hd & Hdat & _). repeat split; auto. intros p0 E. inversion E. apply perm_bits_chmod.
  - destruct (rel_none s t k R Hl) as [Hp _]. rewrite Hp. split; [exact R | reflexivity].
Qed.

(* ---------- a new leaf ---------- *)
Lemma Rsim_leaf s t s' k n0 n' x ph :
  Rsim s t -> WF s' -> mdata s' = mdata (put_new s k n0) -> length (mheap s') = S (length (mheap s)) ->
  (forall r n2, (r < length (mheap s))%nat -> get_node s' r = Some n2 -> exists n, get_node s r = Some n /\ core n2 = core n) ->
  get_node s' (length (mheap s)) = Some n' -> irel n' x ->
  Forall2 hrel2 (mhandles s') ph ->
  Rsim s' (mkP (ptree (padd t k x)) (pinodes (padd t k x)) ph).
Proof.
  intros [W T N H Hs] W' Hd Hlen Hold Hnew Hi Hh. split.
  - exact W'.
  - intros k'. unfold lookup. rewrite Hd. fold (lookup (put_new s k n0) k'). apply (tree_rel_new s t k n0 x H T).
  - unfold padd. cbn [ptree]. now apply nodup_set.
  - apply (heap_rel_mheap s' s' (padd t k x)); [reflexivity | reflexivity|]. eapply heap_rel_leaf; eauto.
  - exact Hh.
Qed.

Lemma leaf_old_nodes s k n0 q g r n2 :
  (forall m, core (g m) = core m) -> (r < length (mheap s))%nat ->
  get_node (upd_node (put_new s k n0) q g) r = Some n2 -> exists n, get_node s r = Some n /\ core n2 = core n.
Proof.
  intros Hg Hlt Hn2. rewrite get_upd in Hn2. destruct (Nat.eqb q r) eqn:E.
  - apply Nat.eqb_eq in E. subst r. rewrite get_put_new_old in Hn2 by exact Hlt.
    destruct (get_node s q) as [n|]; [|discriminate]. cbn in Hn2. inversion Hn2; subst n2. exists n. auto.
  - rewrite get_put_new_old in Hn2 by exact Hlt. exists n2. auto.
Qed.

Lemma leaf_new_node s k n0 q g : (q < length (mheap s))%nat ->
  get_node (upd_node (put_new s k n0) q g) (length (mheap s)) = Some n0.
Proof.
  intros Hq. rewrite get_upd. assert (E : Nat.eqb q (length (mheap s)) = false) by (apply Nat.eqb_neq; lia).
  rewrite E. apply get_put_new_new.
Qed.

Lemma leaf_len s k n0 q g : length (mheap (upd_node (put_new s k n0) q g)) = S (length (mheap s)).
Proof. rewrite mheap_upd_len. unfold put_new, alloc_node, set_data. cbn [mheap]. rewrite app_length. cbn. lia. Qed.

(* ---------- Create ---------- *)
Lemma sim_create s t p : Rsim s t -> wf_op_ord s (Create p) = true -> sim_raw s t (Create p).
Proof.
  intros R Hwf. pose proof R as [W T N H Hs]. unfold sim_raw.
  pose proof (WF_create s p W Hwf) as W'. cbn [m_step_raw p_step] in *. resolve_ord R Hwf Hnt. rewrite Hnt.
  cbn [wf_op_ord] in Hwf. apply andb_true_iff in Hwf as [Hn Hwf].
  set (k := normalize_path p) in *. assert (Hc : canon k) by now apply canon_normalize.
  unfold m_create in *. fold k in W' |- *.
  destruct (lookup s k) as [f|] eqn:Hl.
  - destruct (rel_node s t k f R Hl) as (n & x & Hgn & Hp & _ & Hx & Hi).
    unfold kind_at in Hwf. rewrite Hl, Hgn in Hwf. destruct (ndir n) eqn:Hd; [discriminate|].
    rewrite Hgn, Hd in *. rewrite Hp, Hx. destruct x as [pm|d pm]; cbn in Hi; [destruct Hi; congruence|].
    unfold popen, alloc_handle. cbn [fst snd mproj phandles set_inode]. split; [|now rewrite mhandles_upd, (handles_len s t R)].
    refine (Rsim_alloc_handle _ (set_inode t f (IFile [] pm)) (mkH f 0 0 false false) (mkPH f 0 0 false false) _ _); [|repeat split].
    apply Rsim_set; [exact R | apply (keeps_comp (with_mtime _) (with_data _)); [apply keeps_mtime | apply keeps_data] |].
    intros n0 Hn0. rewrite Hgn in Hn0. inversion Hn0; subst n0. cbn. destruct Hi as (_ & _ & Hpm). auto.
  - destruct (rel_none s t k R Hl) as [Hp Hx]. rewrite Hp.
    assert (Hk : kind_at s k = None) by (unfold kind_at; now rewrite Hl). rewrite Hk in Hwf.
    rewrite <- (rel_is_dir s t _ R). change (pparent k) with (par k). rewrite Hwf.
    rewrite (below_file_dir_parent s k Hc Hwf) in *.
    rewrite m_create_node_eq in *.
    destruct (reg_new_present s k (new_file k (mclock s)) 0 W Hc Hl) as (q & Hq & Ereg & _); auto.
    rewrite Ereg in *. unfold popen, alloc_handle in *. cbn [fst snd mproj] in *.
    split; [|rewrite mhandles_upd; cbn [mhandles put_new alloc_node set_data phandles padd]; now rewrite (handles_len s t R)].
    eapply (Rsim_leaf s t _ k (new_file k (mclock s)) (new_file k (mclock s)) (IFile [] None)); eauto.
    + cbn [mdata]. now rewrite mdata_upd.
    + cbn [mheap]. apply leaf_len.
    + intros r n2 Hlt Hn2. apply (leaf_old_nodes s k (new_file k (mclock s)) q (set_kid k (length (mheap s))) r n2); auto.
    + apply (leaf_new_node s k (new_file k (mclock s)) q). eapply GWF_lt; eauto.
    + cbn. repeat split. intros p0 E. discriminate.
    + cbn [mhandles]. rewrite mhandles_upd. apply handles_alloc; [exact Hs|]. unfold hrel2. cbn. rewrite (proj1 H). repeat split.
Qed.

(* ---------- OpenFile ---------- *)
Lemma land_mask_zero flag M bit : Z.land flag (Z.lnot M) = 0 -> Z.land bit M = 0 -> Z.land flag bit = 0.
Proof.
  intros H1 H2. rewrite <- (Z.land_m1_r bit), <- (Z.lor_lnot_diag M), Z.land_lor_distr_r, H2, Z.lor_0_l.
  rewrite (Z.land_comm bit), Z.land_assoc, H1. reflexivity.
Qed.

Lemma flag_ok_facts flag : flag_ok flag = true ->
  flag_has flag o_append = false /\
  (flag_has flag o_trunc && flag_has flag (Z.lor o_rdwr o_wronly) && negb (Z.land flag memfs_access_mask =? 0)
     = fl flag o_trunc && negb (Z.land flag memfs_access_mask =? 0)) /\
  (flag_has flag o_trunc && flag_has flag (Z.lor o_rdwr o_wronly) && (Z.land flag memfs_access_mask =? 0) = false).
Proof.
  unfold flag_ok. intros H. apply andb_true_iff in H as [H _]. apply andb_true_iff in H as [H _]. apply Z.eqb_eq in H.
  split; [|split].
  - unfold flag_has. rewrite (land_mask_zero flag flag_mask o_append H); reflexivity.
  - change (Z.lor o_rdwr o_wronly) with memfs_access_mask. unfold flag_has at 2.
    destruct (Z.land flag memfs_access_mask =? 0) eqn:E; [now rewrite !andb_false_r|]. apply Z.eqb_neq in E.
    assert (0 <= Z.land flag memfs_access_mask) by (apply Z.land_nonneg; right; discriminate).
    assert (E2 : 0 <? Z.land flag memfs_access_mask = true) by (apply Z.ltb_lt; lia). rewrite E2, andb_true_r. reflexivity.
  - change (Z.lor o_rdwr o_wronly) with memfs_access_mask. unfold flag_has at 2.
    destruct (Z.land flag memfs_access_mask =? 0) eqn:E; [|apply andb_false_r]. apply Z.eqb_eq in E. rewrite E. cbn. now rewrite andb_false_r.
Qed.

Lemma sim_openfile s t p flag perm : Rsim s t -> wf_op_ord s (OpenFile p flag perm) = true -> sim_raw s t (OpenFile p flag perm).
Proof.
  intros R Hwf. pose proof R as [W T N H Hs]. unfold sim_raw.
  pose proof (WF_openfile s p flag perm W Hwf) as W'. cbn [m_step_raw p_step] in *. resolve_ord R Hwf Hnt. rewrite Hnt.
  cbn [wf_op_ord] in Hwf. apply andb_true_iff in Hwf as [Hn Hwf]. apply andb_true_iff in Hn as [Hn Hfl].
  destruct (flag_ok_facts flag Hfl) as (Happ & Htr & Hdead).
  set (k := normalize_path p) in *. assert (Hc : canon k) by now apply canon_normalize.
  unfold m_openfile in *. fold k in W' |- *.
  change (Z.land flag 3 =? 0) with (Z.land flag memfs_access_mask =? 0).
  set (ro := Z.land flag memfs_access_mask =? 0) in *.
  change (fl flag) with (flag_has flag) in *.
  destruct (lookup s k) as [f|] eqn:Hl.
  - destruct (rel_node s t k f R Hl) as (n & x & Hgn & Hp & _ & Hx & Hi). rewrite Hp, Hx.
    rewrite (andb_comm (flag_has flag o_create)).
    destruct (flag_has flag o_excl && flag_has flag o_create) eqn:Eex; [split; [exact R | reflexivity]|].
    cbv zeta in *. rewrite Happ, Htr, Hdead in *. unfold kind_at in Hwf. rewrite Hl, Hgn in Hwf.
    destruct x as [pm|d pm]; cbn in Hi.
    + destruct Hi as [Hd _]. rewrite Hd in Hwf. rewrite Hwf.
      apply andb_true_iff in Hwf as [Hro _]. rewrite Hro in *. rewrite andb_false_r in *.
      unfold popen, alloc_handle in *. cbn [fst snd mproj] in *. split; [|now rewrite (handles_len s t R)].
      refine (Rsim_alloc_handle s t (mkH f 0 0 false true) (mkPH f 0 0 false true) R _). repeat split.
    + destruct (flag_has flag o_trunc && negb ro) eqn:Et.
      * unfold popen, alloc_handle in *. cbn [fst snd mproj phandles set_inode] in *.
        split; [|now rewrite mhandles_upd, (handles_len s t R)].
        refine (Rsim_alloc_handle _ (set_inode t f (IFile [] pm)) (mkH f 0 0 false ro) (mkPH f 0 0 false ro) _ _); [|repeat split].
        apply Rsim_set; [exact R | apply (keeps_comp (with_mtime _) (with_data _)); [apply keeps_mtime | apply keeps_data] |].
        intros n0 Hn0. rewrite Hgn in Hn0. inversion Hn0; subst n0. cbn. destruct Hi as (Hd & _ & Hpm). auto.
      * unfold popen, alloc_handle in *. cbn [fst snd mproj] in *. split; [|now rewrite (handles_len s t R)].
        refine (Rsim_alloc_handle s t (mkH f 0 0 false ro) (mkPH f 0 0 false ro) R _). repeat split.
  - destruct (rel_none s t k R Hl) as [Hp Hx]. rewrite Hp.
    destruct (flag_has flag o_create) eqn:Hcr; [|split; [exact R | reflexivity]].
    assert (Hk : kind_at s k = None) by (unfold kind_at; now rewrite Hl). rewrite Hk in Hwf.
    rewrite <- (rel_is_dir s t _ R). change (pparent k) with (par k). rewrite Hwf.
    rewrite (below_file_dir_parent s k Hc Hwf) in *.
    rewrite m_create_node_eq in *.
    destruct (reg_new_present s k (new_file k (mclock s)) 0 W Hc Hl) as (q & Hq & Ereg & _); auto.
    rewrite Ereg in *. cbv zeta in *. rewrite Happ, Htr, Hdead in *.
    assert (Hat0 : (if flag_has flag o_trunc && negb ro then 0 else 0) = 0) by (destruct (flag_has flag o_trunc && negb ro); reflexivity).
    rewrite Hat0 in *.
    set (item := length (mheap s)) in *. set (nf := new_file k (mclock s)) in *.
    set (s1 := upd_node (put_new s k nf) q (set_kid k item)) in *.
    set (G := fun n0 : node => with_mtime (mclock s1) (with_data [] n0)) in *.
    set (s2 := if flag_has flag o_trunc && negb ro then upd_node s1 item G else s1) in *.
    assert (Hl3 : lookup (fst (alloc_handle s2 (mkH item 0 0 false ro))) k = Some item).
    { unfold alloc_handle, lookup. cbn [fst mdata]. fold (lookup s2 k). unfold s2, s1.
      destruct (flag_has flag o_trunc && negb ro); rewrite ?lookup_upd, lookup_put_new, beqb_refl; reflexivity. }
    destruct (alloc_handle s2 (mkH item 0 0 false ro)) as [s3 h] eqn:Eah. cbn [fst] in Hl3.
    rewrite (set_file_mode_canon s3 k _ _ Hc Hl3) in *. cbn [fst snd mproj] in *.
    unfold alloc_handle in Eah. inversion Eah; subst s3 h. clear Eah.
    unfold popen. cbn [fst snd].
    assert (Hh2 : mhandles s2 = mhandles s).
    { unfold s2, s1. destruct (flag_has flag o_trunc && negb ro); rewrite ?mhandles_upd; reflexivity. }
    split; [|rewrite Hh2; now rewrite (handles_len s t R)].
    assert (Hq' : (q < item)%nat) by (eapply GWF_lt; eauto).
    assert (Hold2 : forall r n2, (r < item)%nat -> get_node s2 r = Some n2 -> exists n, get_node s r = Some n /\ core n2 = core n).
    { intros r n2 Hlt Hn2. apply (leaf_old_nodes s k nf q (set_kid k item) r n2); auto. fold s1.
      unfold s2 in Hn2. destruct (flag_has flag o_trunc && negb ro); [|exact Hn2].
      rewrite get_upd in Hn2. assert (E : Nat.eqb item r = false) by (apply Nat.eqb_neq; lia). now rewrite E in Hn2. }
    assert (Hnew2 : exists n2, get_node s2 item = Some n2 /\ ndir n2 = false /\ ndata n2 = []).
    { pose proof (leaf_new_node s k nf q (set_kid k item) Hq') as Hn1. fold item s1 in Hn1.
      unfold s2. destruct (flag_has flag o_trunc && negb ro).
      - rewrite get_upd, Nat.eqb_refl, Hn1. cbn. eexists; split; [reflexivity | split; reflexivity].
      - exists nf. split; [exact Hn1 | split; reflexivity]. }
    destruct Hnew2 as (n2 & Hn2 & Hd2 & Hdat2).
    eapply (Rsim_leaf s t _ k nf (with_mode (Z.land perm chmod_bits) n2) (IFile [] (Some (Z.land perm chmod_bits)))); eauto.
    + rewrite mdata_upd. cbn [mdata]. unfold s2, s1. destruct (flag_has flag o_trunc && negb ro); rewrite ?mdata_upd; reflexivity.
    + rewrite mheap_upd_len. cbn [mheap]. unfold s2. destruct (flag_has flag o_trunc && negb ro); rewrite ?mheap_upd_len; apply leaf_len.
    + intros r n3 Hlt Hn3. rewrite get_upd in Hn3. assert (E : Nat.eqb item r = false) by (apply Nat.eqb_neq; unfold item; lia).
      rewrite E in Hn3. apply (Hold2 r n3 Hlt). exact Hn3.
    + rewrite get_upd, Nat.eqb_refl. change (get_node (mkM (mdata s2) (mheap s2) _ (mclock s2)) item) with (get_node s2 item). now rewrite Hn2.
    + cbn. repeat split; auto. intros p0 E. inversion E. apply perm_bits_plain.
    + rewrite mhandles_upd. cbn [mhandles]. rewrite Hh2. apply handles_alloc; [exact Hs|]. unfold hrel2. cbn. unfold item. rewrite (proj1 H). repeat split.
Qed.

(* ---------- association lists whose keys are renamed ---------- *)
Section MapKeys.
Context {A : Type} (phi : str -> str).
Definition mapk (l : list (str * A)) : list (str * A) := map (fun kv => (phi (fst kv), snd kv)) l.

Lemma aget_mapk (l : list (str * A)) :
  (forall k1 k2, In k1 (map fst l) -> In k2 (map fst l) -> phi k1 = phi k2 -> k1 = k2) ->
  forall k, In k (map fst l) -> alist_get (phi k) (mapk l) = alist_get k l.
Proof.
  induction l as [|[k0 v0] l IH]; intros Hinj k Hin; [destruct Hin|]. cbn [mapk map fst snd alist_get].
  destruct (str_eq_dec k k0) as [->|Hne].
  - now rewrite !beqb_refl.
  - assert (E1 : beqb k k0 = false) by now apply beqb_neq.
    assert (E2 : beqb (phi k) (phi k0) = false).
    { apply beqb_neq. intros E. apply Hne. apply Hinj; auto. now left. }
    rewrite E1, E2. apply IH.
    + intros k1 k2 H1 H2. apply Hinj; now right.
    + destruct Hin as [Hin|Hin]; [cbn in Hin; congruence | exact Hin].
Qed.

Lemma aget_mapk_none (l : list (str * A)) k' :
  (forall k0, In k0 (map fst l) -> phi k0 <> k') -> alist_get k' (mapk l) = None.
Proof.
  induction l as [|[k0 v0] l IH]; intros Hn; [reflexivity|]. cbn [mapk map fst snd alist_get].
  assert (E : beqb k' (phi k0) = false) by (apply beqb_neq; intros E; apply (Hn k0); [now left | congruence]).
  rewrite E. apply IH. intros k1 H1. apply Hn. now right.
Qed.

Lemma nodup_mapk (l : list (str * A)) :
  (forall k1 k2, In k1 (map fst l) -> In k2 (map fst l) -> phi k1 = phi k2 -> k1 = k2) ->
  NoDup (map fst l) -> NoDup (map fst (mapk l)).
Proof.
  induction l as [|[k0 v0] l IH]; intros Hinj Hnd; [constructor|]. cbn [mapk map fst snd].
  inversion Hnd as [|? ? Hni Hnd']; subst. constructor.
  - intros Hin. apply in_map_iff in Hin as ([k1 v1] & E & Hin). cbn in E.
    apply in_map_iff in Hin as ([k2 v2] & E2 & Hin2). cbn in E2. inversion E2; subst k1 v1.
    assert (k2 = k0). { apply Hinj; [right; apply in_map_iff; now exists (k2, v2) | now left | congruence]. }
    subst k2. apply Hni. apply in_map_iff. now exists (k0, v2).
  - apply IH; [|exact Hnd']. intros k1 k2 H1 H2. apply Hinj; now right.
Qed.
End MapKeys.

Lemma existsb_keys {A B} (g : str -> bool) (l1 : list (str * A)) (l2 : list (str * B)) :
  (forall k, alist_get k l1 = None <-> alist_get k l2 = None) ->
  existsb (fun kv => g (fst kv)) l1 = existsb (fun kv => g (fst kv)) l2.
Proof. apply existsb_keys'. Qed.

(* ---------- Remove / RemoveAll ---------- *)
Lemma sim_remove s t p : Rsim s t -> wf_op_ord s (Remove p) = true -> sim_raw s t (Remove p).
Proof.
  intros R Hwf. pose proof R as [W T N H Hs]. unfold sim_raw.
  pose proof (WF_remove s p W Hwf) as W'. cbn [m_step_raw p_step] in *. resolve_ord R Hwf Hnt. rewrite Hnt.
  cbn [wf_op_ord] in Hwf. apply andb_true_iff in Hwf as [Hn Hwf]. apply andb_true_iff in Hn as [Hn Hroot].
  set (k := normalize_path p) in *. apply negb_true_iff in Hroot.
  unfold m_remove in *. fold k in W' |- *.
  destruct (lookup s k) as [f|] eqn:Hl.
  - destruct (rel_node s t k f R Hl) as (n & x & Hgn & Hp & _ & Hx & Hi). rewrite Hx.
    assert (Hroot' : k <> s_slash) by now apply beqb_neq.
    destruct (GWF_unregister kempty kempty kempty s k f W Hl (WF_fresh s k f W Hl) Hroot') as (q & qn & _ & _ & _ & Hun & _); [intros [] | intros [] |].
    rewrite Hun in *. cbn [fst snd mproj] in *.
    assert (Rdel : Rsim (set_data (upd_node s q (del_kid k)) (alist_del k (mdata (upd_node s q (del_kid k)))))
                        (set_tree t (alist_del k (ptree t)))).
    { split.
      - exact W'.
      - intros k'. unfold lookup, plookup, set_data, set_tree. cbn [mdata ptree]. rewrite mdata_upd, !aget_del.
        destruct (beqb k k'); [reflexivity | apply T].
      - unfold set_tree. cbn [ptree]. now apply nodup_del.
      - eapply heap_rel_mheap; [reflexivity | reflexivity|]. apply heap_rel_upd; [exact H|]. intros n0 x0 _ _. apply irel_core. reflexivity.
      - cbn [mhandles set_data]. now rewrite mhandles_upd. }
    destruct x as [pm|d pm]; cbn in Hi.
    + destruct Hi as [Hd _]. unfold kind_at in Hwf. rewrite Hl, Hgn, Hd in Hwf. apply negb_true_iff in Hwf.
      assert (Hch : phas_children t k = false).
      { unfold phas_children. rewrite <- Hwf. unfold has_kids. symmetry. apply existsb_keys. intros k'. fold (lookup s k') (plookup t k'). now rewrite T. }
      rewrite Hch, Hroot. cbn [orb fst snd]. split; [exact Rdel | reflexivity].
    + split; [exact Rdel | reflexivity].
  - destruct (rel_none s t k R Hl) as [_ Hx]. rewrite Hx. split; [exact R | reflexivity].
Qed.

Lemma sim_removeall s t p : Rsim s t -> wf_op_ord s (RemoveAll p) = true -> sim_raw s t (RemoveAll p).
Proof.
  intros R Hwf. pose proof R as [W T N H Hs]. unfold sim_raw.
  pose proof (WF_removeall s p W Hwf) as W'. cbn [m_step_raw p_step] in *. resolve_ord R Hwf Hnt. rewrite Hnt.
  cbn [wf_op_ord] in Hwf. apply andb_true_iff in Hwf as [Hn Hwf]. apply andb_true_iff in Hn as [Hn Hroot].
  set (k := normalize_path p) in *. assert (Hc : canon k) by now apply canon_normalize. apply negb_true_iff, beqb_neq in Hroot.
  unfold m_removeall in *. fold k in W' |- *.
  assert (Hp : forall k', plookup (set_tree t (filter (fun kv => negb (patbelow k (fst kv))) (ptree t))) k' =
                          if under k k' then None else plookup t k').
  { intros k'. unfold plookup, set_tree. cbn [ptree]. rewrite (aget_filter (fun x => negb (patbelow k x)) k' (ptree t)).
    change (patbelow k k') with (under k k'). now destruct (under k k'). }
  destruct (lookup s k) as [f|] eqn:Hl.
  - destruct (GWF_unregister kempty kempty kempty s k f W Hl (WF_fresh s k f W Hl) Hroot) as (q & qn & _ & _ & _ & Hun & _); [intros [] | intros [] |].
    rewrite Hun in *. cbn [fst snd mproj] in *. split; [|reflexivity]. split.
    + exact W'.
    + intros k'. fold (prune (upd_node s q (del_kid k)) k). rewrite lookup_prune, lookup_upd, Hp. destruct (under k k'); [reflexivity | apply T].
    + unfold set_tree. cbn [ptree]. now apply nodup_filter.
    + eapply heap_rel_mheap; [reflexivity | reflexivity|]. apply heap_rel_upd; [exact H|]. intros n0 x0 _ _. apply irel_core. reflexivity.
    + cbn [mhandles set_data]. now rewrite mhandles_upd.
  - assert (Hun : unregister s k = Some (s, false)) by (unfold unregister; now rewrite (lockfree_open_canon s k Hc), Hl).
    rewrite Hun in *. cbn [fst snd mproj] in *. split; [|reflexivity]. split.
    + exact W'.
    + intros k'. fold (prune s k). rewrite lookup_prune, Hp. destruct (under k k'); [reflexivity | apply T].
    + unfold set_tree. cbn [ptree]. now apply nodup_filter.
    + exact H.
    + exact Hs.
Qed.

(* ---------- Rename ---------- *)
Lemma patbelow_iff a k : patbelow a k = true <-> atbelow a k.
Proof. unfold patbelow, atbelow, pbelow, below. rewrite orb_true_iff, beqb_eq. tauto. Qed.

Lemma atbelow_rw_inv old new k : atbelow new k -> exists k0, atbelow old k0 /\ k = rw old new k0.
Proof.
  intros Hk. apply atbelow_suffix in Hk as (rest & Hr & ->). exists (old ++ rest). split; [apply atbelow_suffix; now exists rest|].
  now rewrite rw_app.
Qed.

Lemma atbelow_prefix a k : atbelow a k -> prefixb a k = true.
Proof. intros [->|H]; [apply prefixb_spec; exists []; now rewrite app_nil_r | now apply below_prefix]. Qed.

Lemma sim_rename s t p q : Rsim s t -> wf_op_ord s (Rename p q) = true -> sim_raw s t (Rename p q).
Proof.
  intros R Hwf. pose proof R as [W T N H Hs]. unfold sim_raw. cbn [m_step_raw p_step].
  resolve_ord R Hwf Hnt. destruct Hnt as (Hn1 & Hn2).
  assert (Hco : canon (normalize_path p) /\ canon (normalize_path q)).
  { cbn [wf_op_ord] in Hwf. apply andb_true_iff in Hwf as [Hn _]. apply andb_true_iff in Hn as [Hn _].
    apply andb_true_iff in Hn as [Hnp Hnq]. split; now apply canon_normalize. }
  destruct Hco as [Hco Hcn].
  set (old := normalize_path p) in *. set (new := normalize_path q) in *.
  rewrite Hn1, <- (rel_is_dir s t _ R). change (pparent old) with (par old).
  destruct (lookup s old) as [f|] eqn:Hl.
  2:{ (* a missing source: nothing changes; ENOTDIR iff its directory is there and the target passes through a regular file *)
      destruct (rel_none s t old R Hl) as [Hp _]. rewrite Hp, <- (rel_through s t new R).
      rewrite (m_rename_missing s p q W Hco Hcn Hl). fold old new.
      destruct (is_dir_at s (par old)); cbn [negb andb]; [|split; [exact R | reflexivity]].
      destruct (through_file s new); split; try exact R; reflexivity. }
  destruct Hn2 as [Hdo Hnn]; [congruence|]. rewrite Hdo, Hnn. cbn [negb].
  destruct (rel_node s t old f R Hl) as (fn & fx & _ & Hp & _). rewrite Hp.
  destruct (beqb old new) eqn:Eon.
  { unfold m_rename. fold old new. rewrite Hl, Eon. split; [exact R | reflexivity]. }
  apply beqb_neq in Eon.
  destruct (rename_full s p q f W Hwf Hl Eon) as (Hres & W' & [Ma Msub Mgone Mrest]). fold old new in Msub, Mgone, Mrest.
  destruct (rename_pre_facts s p q f W Hwf Hl Eon) as (Ho & Hn & Hor & Hnr & Hb1 & Hb2 & Hfree). fold old new in Ho, Hn, Hor, Hnr, Hb1, Hb2, Hfree.
  rewrite Hres. cbn [fst snd mproj]. split; [|reflexivity].
  set (s1 := fst (m_rename s p q)) in *.
  set (phi := fun k => if patbelow old k then prewrite old new k else k).
  set (l := alist_del new (ptree t)).
  assert (Emap : map (fun kv : str * nat => if patbelow old (fst kv) then (prewrite old new (fst kv), snd kv) else kv) l = mapk phi l).
  { unfold mapk. apply map_ext. intros [k v]. unfold phi. cbn [fst snd]. now destruct (patbelow old k). }
  rewrite Emap.
  (* keys of l *)
  assert (Lk : forall k, alist_get k l = if beqb new k then None else plookup t k) by (intros k; unfold l, plookup; apply aget_del).
  assert (Lkeys : forall k, In k (map fst l) -> k <> new /\ exists r, lookup s k = Some r).
  { intros k Hin. apply aget_some_keys in Hin as [v Hv]. rewrite Lk in Hv. destruct (beqb new k) eqn:E; [discriminate|].
    apply beqb_neq in E. split; [congruence|]. exists v. now rewrite T. }
  assert (Lcanon : forall k, In k (map fst l) -> canon k).
  { intros k Hin. destruct (Lkeys k Hin) as (_ & r & Hr). apply (g_canon _ _ _ _ W k r Hr). }
  assert (Lfree : forall k, In k (map fst l) -> ~ atbelow new k).
  { intros k Hin [E|E]; destruct (Lkeys k Hin) as (Hne & r & Hr); [congruence|]. rewrite (Hfree k r Hr) in E. discriminate. }
  assert (Hdisj : forall x, canon x -> atbelow old x -> atbelow new x -> False) by (apply disjoint_trees; auto).
  assert (Hphi_at : forall k, In k (map fst l) -> atbelow old k -> phi k = rw old new k /\ canon (phi k) /\ atbelow new (phi k)).
  { intros k Hin Hat. unfold phi. rewrite (proj2 (patbelow_iff old k) Hat). split; [reflexivity|]. split; [|now apply rw_at].
    destruct Hat as [->|Hb]; [now rewrite rw_self | apply (rw_canon old new k Ho Hn Hnr (Lcanon k Hin) Hb)]. }
  assert (Hphi_out : forall k, ~ atbelow old k -> phi k = k).
  { intros k Hat. unfold phi. destruct (patbelow old k) eqn:E; [apply patbelow_iff in E; contradiction | reflexivity]. }
  assert (Hat_dec : forall k, atbelow old k \/ ~ atbelow old k).
  { intros k. destruct (patbelow old k) eqn:E; [left; now apply patbelow_iff | right; intros Y; apply patbelow_iff in Y; congruence]. }
  assert (Hinj : forall k1 k2, In k1 (map fst l) -> In k2 (map fst l) -> phi k1 = phi k2 -> k1 = k2).
  { intros k1 k2 H1 H2 E. destruct (Hat_dec k1) as [A1|A1], (Hat_dec k2) as [A2|A2].
    - destruct (Hphi_at k1 H1 A1) as (E1 & _), (Hphi_at k2 H2 A2) as (E2 & _). rewrite E1, E2 in E.
      apply (rw_inj old new); auto using atbelow_prefix.
    - exfalso. destruct (Hphi_at k1 H1 A1) as (_ & _ & X). rewrite E, (Hphi_out k2 A2) in X. now apply (Lfree k2 H2).
    - exfalso. destruct (Hphi_at k2 H2 A2) as (_ & _ & X). rewrite <- E, (Hphi_out k1 A1) in X. now apply (Lfree k1 H1).
    - now rewrite (Hphi_out k1 A1), (Hphi_out k2 A2) in E. }
  assert (Pl : forall k, plookup (set_tree t (mapk phi l)) k = alist_get k (mapk phi l)) by reflexivity.
  split.
  - exact W'.
  - intros k. rewrite Pl.
    destruct (Hat_dec k) as [Ak|Ak].
    + (* at or below old: gone on both sides *)
      rewrite (Mgone k Ak). symmetry. apply aget_mapk_none. intros k0 H0 E.
      destruct (Hat_dec k0) as [A0|A0].
      * destruct (Hphi_at k0 H0 A0) as (_ & Hc0 & X). rewrite E in Hc0, X. now apply (Hdisj k).
      * rewrite (Hphi_out k0 A0) in E. subst k0. contradiction.
    + destruct (patbelow new k) eqn:En.
      * (* at or below new: the image of a name at or below old *)
        apply patbelow_iff in En. destruct (atbelow_rw_inv old new k En) as (k0 & A0 & ->).
        rewrite (Msub k0 A0), T.
        assert (Hk0new : k0 <> new). { intros ->. destruct A0 as [A0|A0]; congruence. }
        destruct (in_dec str_eq_dec k0 (map fst l)) as [I|I].
        -- destruct (Hphi_at k0 I A0) as (E0 & _). rewrite <- E0, (aget_mapk phi l Hinj k0 I), Lk.
           assert (E : beqb new k0 = false) by (apply beqb_neq; congruence). now rewrite E.
        -- assert (Hnone : plookup t k0 = None).
           { apply aget_none_keys in I. rewrite Lk in I. assert (E : beqb new k0 = false) by (apply beqb_neq; congruence). now rewrite E in I. }
           rewrite Hnone. symmetry. apply aget_mapk_none. intros k1 H1 E.
           destruct (Hat_dec k1) as [A1|A1].
           ++ destruct (Hphi_at k1 H1 A1) as (E1 & _). rewrite E1 in E. apply rw_inj in E; auto using atbelow_prefix. subst k1. contradiction.
           ++ rewrite (Hphi_out k1 A1) in E. subst k1. apply (Lfree _ H1). now apply rw_at.
      * (* elsewhere: unchanged *)
        assert (An : ~ atbelow new k) by (intros Y; apply patbelow_iff in Y; congruence).
        rewrite (Mrest k Ak An), T.
        assert (Hknew : k <> new) by (intros ->; apply An; now left).
        destruct (in_dec str_eq_dec k (map fst l)) as [I|I].
        -- rewrite <- (Hphi_out k Ak) at 2. rewrite (aget_mapk phi l Hinj k I), Lk.
           assert (E : beqb new k = false) by (apply beqb_neq; congruence). now rewrite E.
        -- assert (Hnone : plookup t k = None).
           { apply aget_none_keys in I. rewrite Lk in I. assert (E : beqb new k = false) by (apply beqb_neq; congruence). now rewrite E in I. }
           rewrite Hnone. symmetry. apply aget_mapk_none. intros k1 H1 E.
           destruct (Hat_dec k1) as [A1|A1].
           ++ destruct (Hphi_at k1 H1 A1) as (_ & _ & X). rewrite E in X. contradiction.
           ++ rewrite (Hphi_out k1 A1) in E. subst k1. contradiction.
  - unfold set_tree. cbn [ptree]. apply nodup_mapk; [exact Hinj|]. unfold l. now apply nodup_del.
  - eapply heap_rel_kept; [exact H | exact Ma | reflexivity].
  - destruct Ma as (_ & Mh & _). now rewrite Mh.
Qed.

(* ---------- handle I/O: delegated to the C02 refinement lemmas (Proofs/MemFileProof.v) ---------- *)
Definition conv (r : ByteFile.pres) : pout :=
  match r with
  | PNone => PNoSlot
  | POk => PSucc
  | PErr c => PFail (if Nat.eqb c C_CLOSED then CClosed else COther)
  | ByteFile.PBytes b e => PData b e
  | PCount n => PNum n
  | PPos n => PNum n
  | PSize _ => PSucc
  end.

Definition io_err (e : err) : bool :=
  match ek e with KClosed | KReadOnlyHandle | KNegative | KOutOfRange | KEOF | KUnexpectedEOF => true | _ => false end.
Definition res_io (r : res) : Prop :=
  match r with
  | ROk | RData _ None | RCount _ None | RPos _ None => True
  | RErr e | RData _ (Some e) | RCount _ (Some e) | RPos _ (Some e) => io_err e = true
  | _ => False
  end.

Lemma mproj_conv o r : res_io r -> mproj o r = conv (proj o r).
Proof.
  destruct r as [| | |e| | |b [e|]|n [e|]|n [e|]| | |]; cbn; try tauto; try reflexivity;
    destruct e as [k w]; destruct k; cbn; intros H; try discriminate H; reflexivity.
Qed.

Lemma f_read_io d h n : snd (f_read d h n) = RPanic \/ res_io (snd (f_read d h n)).
Proof. unfold f_read. repeat match goal with |- context [if ?c then _ else _] => destruct c end; cbn; auto. Qed.
Lemma f_readat_io d h n off : snd (f_readat d h n off) = RPanic \/ res_io (snd (f_readat d h n off)).
Proof.
  unfold f_readat. destruct (off <? 0); [right; reflexivity|].
  pose proof (f_read_io d (set_at h off) n) as H. destruct (f_read d (set_at h off) n) as [h1 r]. cbn [snd] in *.
  destruct r as [| | |e| | |b [e|]|n0 [e|]|n0 [e|]| | |]; cbn in *; auto. destruct (zlen b <? n); cbn; auto.
Qed.
Lemma f_write_io d h b : snd (f_write d h b) = RPanic \/ res_io (snd (f_write d h b)).
Proof. unfold f_write. repeat match goal with |- context [if ?c then _ else _] => destruct c end; cbn; auto. Qed.
Lemma f_writeat_io d h b off : snd (f_writeat d h b off) = RPanic \/ res_io (snd (f_writeat d h b off)).
Proof.
  unfold f_writeat. destruct (off <? 0); [right; reflexivity|].
  pose proof (f_write_io d (set_at h off) b) as H. destruct (f_write d (set_at h off) b) as [[dd h1] r]. exact H.
Qed.
Lemma f_seek_io d h off wh : res_io (snd (f_seek d h off wh)).
Proof. unfold f_seek. repeat match goal with |- context [if ?c then _ else _] => destruct c end; cbn; auto. Qed.
Lemma f_truncate_io d h n : res_io (snd (f_truncate d h n)).
Proof. unfold f_truncate. repeat match goal with |- context [if ?c then _ else _] => destruct c end; cbn; auto. Qed.

(* handles keep their node and their directory offset under byte I/O *)
Lemma f_read_href d h n : href (fst (f_read d h n)) = href h /\ hrdc (fst (f_read d h n)) = hrdc h.
Proof. unfold f_read. repeat match goal with |- context [if ?c then _ else _] => destruct c end; cbn; auto. Qed.
Lemma f_seek_href d h off wh : href (fst (f_seek d h off wh)) = href h /\ hrdc (fst (f_seek d h off wh)) = hrdc h.
Proof. unfold f_seek. repeat match goal with |- context [if ?c then _ else _] => destruct c end; cbn; auto. Qed.

Definition bh_of (x : phandle) : bh := mkBH (ppos x) (pclosed x) (pro x).
Lemma hrel_of h x : hrel2 h x -> hrel h (bh_of x).
Proof. intros (_ & Ha & _ & Hc & Hr). repeat split; auto. Qed.

Lemma Rsim_set_handle s t i h x : Rsim s t -> hrel2 h x -> Rsim (set_handle s i h) (set_phandle t i x).
Proof.
  intros [W T N H Hs] Hx. split; auto.
  - now apply WF_set_handle.
  - cbn. now apply F2_set.
Qed.

Lemma Rsim_set_handle_same s t i h x : Rsim s t -> nth_error (phandles t) i = Some x -> hrel2 h x -> Rsim (set_handle s i h) t.
Proof.
  intros R Hn Hx. pose proof (Rsim_set_handle s t i h x R Hx) as [W T N H Hs]. destruct R as [_ _ _ _ _].
  split; auto. cbn in Hs. now rewrite (list_set_same _ _ _ Hn) in Hs.
Qed.

Lemma Rsim_put_data s t r nd d pm dopt :
  Rsim s t -> get_node s r = Some nd -> pinode t r = Some (IFile d pm) -> irel nd (IFile d pm) ->
  Rsim (put_data s r dopt) (set_inode t r (IFile (dflt dopt d) pm)).
Proof.
  intros R Hn Hp Hi. destruct dopt as [d'|]; cbn [put_data dflt].
  - apply Rsim_set; [exact R | apply (keeps_comp (with_mtime _) (with_data _)); [apply keeps_mtime | apply keeps_data] |].
    intros n0 Hn0. rewrite Hn in Hn0. inversion Hn0; subst n0. cbn in Hi |- *. destruct Hi as (Hd & _ & Hpm). auto.
  - destruct R as [W T N H Hs]. split; auto. eapply heap_rel_mheap; [reflexivity | | exact H].
    unfold set_inode. cbn [pinodes]. apply list_set_same. exact Hp.
Qed.

(* the handle and its file, on both sides — or a closed handle on a directory *)
Lemma handle_file s t i h : Rsim s t -> nth_error (mhandles s) i = Some h -> file_handle_ok s i = true ->
  (exists x nd d pm, nth_error (phandles t) i = Some x /\ hrel2 h x /\ get_node s (href h) = Some nd /\
                     pinode t (pino x) = Some (IFile d pm) /\ irel nd (IFile d pm) /\ ndata nd = d) \/
  (exists x nd pm, nth_error (phandles t) i = Some x /\ hrel2 h x /\ get_node s (href h) = Some nd /\
                   pinode t (pino x) = Some (IDir pm) /\ hclosed h = true /\ pclosed x = true).
Proof.
  intros R Hh Hok. unfold file_handle_ok in Hok. rewrite Hh in Hok.
  destruct (get_node s (href h)) as [nd|] eqn:Hn; [|discriminate].
  destruct (F2_nth _ _ _ i h (rs_handles _ _ R) Hh) as (x & Hx & Hr).
  destruct (proj2 (rs_heap _ _ R) _ nd Hn) as (y & Hy & Hi). pose proof Hr as (Ehr & _ & _ & Ecl & _).
  destruct y as [pm|d pm]; cbn in Hi.
  - right. destruct Hi as [Hd _]. rewrite Hd in Hok. cbn in Hok. exists x, nd, pm.
    split; [exact Hx|]. split; [exact Hr|]. split; [reflexivity|]. split; [now rewrite <- Ehr|]. split; [exact Hok | congruence].
  - left. exists x, nd, d, pm. split; [exact Hx|]. split; [exact Hr|]. split; [reflexivity|].
    split; [now rewrite <- Ehr|]. split; [exact Hi | apply Hi].
Qed.

Ltac hop_start R Hwf Hw Hok h Hh :=
  unfold wf_op_simx in Hwf; apply andb_true_iff in Hwf as [Hw Hok]; rewrite wf_op_handle in Hw by discriminate; cbn [wf_op_ord] in Hw;
  unfold sim_raw; cbn [m_step_raw p_step]; unfold m_hop;
  match goal with |- context [nth_error (mhandles ?s) ?i] =>
    destruct (nth_error (mhandles s) i) as [h|] eqn:Hh;
    [|rewrite (F2_nth_none _ _ _ i (rs_handles _ _ R) Hh); split; [exact R | reflexivity]] end.

Lemma sim_hread s t i n : Rsim s t -> wf_op_simx s (HRead i n) = true -> sim_raw s t (HRead i n).
Proof.
  intros R Hwf. hop_start R Hwf Hw Hok h Hh. apply Z.leb_le in Hw.
  destruct (handle_file s t i h R Hh Hok) as [(x & nd & d & pm & Hx & Hr & Hn & Hp & Hi & Hd)|(x & nd & pm & Hx & Hr & Hn & Hp & Hcl & Hpcl)].
  2:{ rewrite Hx, Hn, Hp, Hpcl. unfold f_read. rewrite Hcl. cbn. split; [eapply Rsim_set_handle_same; eauto | reflexivity]. }
  rewrite Hx, Hn, Hp, Hd.
  pose proof (sim_read d h (bh_of x) n i (hrel_of h x Hr) Hw) as [Hnp Hsim].
  destruct (f_read_io d h n) as [Hio|Hio]; [contradiction|].
  pose proof (f_read_href d h n) as [Eh Er].
  destruct (f_read d h n) as [h' r]. cbn [fst snd] in *.
  rewrite (mproj_conv _ _ Hio). cbn [bh_of bclosed bpos bro] in Hsim.
  destruct (pclosed x) eqn:Ecl.
  - destruct Hsim as [-> Hpr]. rewrite Hpr. cbn [conv Nat.eqb C_CLOSED]. split; [eapply Rsim_set_handle_same; eauto | reflexivity].
  - cbv zeta in Hsim. destruct Hsim as [Hrel Hpr]. rewrite Hpr. cbn [conv]. split; [|reflexivity].
    apply Rsim_set_handle; [exact R|]. destruct Hr as (E1 & E2 & E3 & E4 & E5). destruct Hrel as (F1 & F2 & F3).
    cbn in F1, F2, F3. repeat split; cbn; congruence.
Qed.

Lemma sim_hreadat s t i n off : Rsim s t -> wf_op_simx s (HReadAt i n off) = true -> sim_raw s t (HReadAt i n off).
Proof.
  intros R Hwf. hop_start R Hwf Hw Hok h Hh. apply Z.leb_le in Hw.
  destruct (handle_file s t i h R Hh Hok) as [(x & nd & d & pm & Hx & Hr & Hn & Hp & Hi & Hd)|(x & nd & pm & Hx & Hr & Hn & Hp & Hcl & Hpcl)].
  2:{ rewrite Hx, Hn, Hp, Hpcl. unfold f_readat, f_read. cbn [hclosed set_at]. rewrite Hcl. destruct (off <? 0); cbn; (split; [|reflexivity]); try (eapply Rsim_set_handle_same; eauto). }
  rewrite Hx, Hn, Hp, Hd.
  pose proof (sim_readat d h (bh_of x) n off i (hrel_of h x Hr) Hw) as (Hnp & Hfst & Hpr).
  destruct (f_readat_io d h n off) as [Hio|Hio]; [contradiction|].
  destruct (f_readat d h n off) as [h' r]. cbn [fst snd] in *. subst h'.
  rewrite (mproj_conv _ _ Hio), Hpr. cbn [bh_of bclosed].
  assert (Rs : Rsim (set_handle s i h) t) by (eapply Rsim_set_handle_same; eauto).
  destruct (off <? 0); [split; [exact Rs | reflexivity]|]. destruct (pclosed x); split; try exact Rs; reflexivity.
Qed.

Lemma sim_write_gen s t i b o :
  (m_step_raw s o = m_hop s i (fun h nd => let '(d, h', r) := f_write (ndata nd) h b in (put_data (set_handle s i h') (href h) d, r))) ->
  (forall r, proj o r = proj (HWrite i b) r) -> (forall r, mproj o r = mproj (HWrite i b) r) ->
  p_step t o = p_step t (HWrite i b) ->
  Rsim s t -> file_handle_ok s i = true -> sim_raw s t o.
Proof.
  intros Em Epr Emp Ep R Hok. unfold sim_raw. rewrite Em, Ep. cbn [p_step]. unfold m_hop.
  destruct (nth_error (mhandles s) i) as [h|] eqn:Hh;
    [|rewrite (F2_nth_none _ _ _ i (rs_handles _ _ R) Hh); split; [exact R | rewrite Emp; reflexivity]].
  destruct (handle_file s t i h R Hh Hok) as [(x & nd & d & pm & Hx & Hr & Hn & Hp & Hi & Hd)|(x & nd & pm & Hx & Hr & Hn & Hp & Hcl & Hpcl)].
  2:{ rewrite Hx, Hn, Hp, Hpcl. unfold f_write. rewrite Hcl. cbn. split; [eapply Rsim_set_handle_same; eauto | reflexivity]. }
  rewrite Hx, Hn, Hp, Hd.
  assert (Hat : 0 <= hat h) by (destruct Hr as (_ & E & _); lia).
  pose proof (sim_write d h (bh_of x) b (HWrite i b) (hrel_of h x Hr) Hat) as Hsim. cbv zeta in Hsim.
  destruct (f_write_io d h b) as [Hio|Hio]; [destruct Hsim; contradiction|].
  destruct (f_write d h b) as [[dopt h'] r]. cbn [fst snd] in *. destruct Hsim as [_ Hsim].
  rewrite Emp, (mproj_conv _ _ Hio). cbn [bh_of bclosed bro] in Hsim.
  destruct (pclosed x) eqn:Ecl.
  - destruct Hsim as (-> & -> & Hpr). rewrite Hpr. cbn [conv put_data Nat.eqb C_CLOSED]. split; [eapply Rsim_set_handle_same; eauto | reflexivity].
  - destruct (pro x) eqn:Ero.
    + destruct Hsim as (-> & -> & Hpr). rewrite Hpr. cbn [conv put_data]. split; [eapply Rsim_set_handle_same; eauto | reflexivity].
    + destruct Hsim as (Hdat & -> & Hpr). rewrite Hpr. cbn [conv]. split; [|reflexivity].
      destruct Hr as (E1 & E2 & E3 & E4 & E5).
      assert (Hpos : Z.to_nat (hat h) = ppos x) by (rewrite E2; apply Nat2Z.id).
      rewrite Hpos in Hdat. rewrite <- Hdat, E1.
      apply (Rsim_put_data _ (set_phandle t i _) (pino x) nd d pm dopt); auto.
      * apply Rsim_set_handle; [exact R|]. repeat split; cbn; auto; try congruence. unfold zlen. lia.
      * rewrite <- E1. exact Hn.
Qed.

Lemma sim_hwrite s t i b : Rsim s t -> wf_op_simx s (HWrite i b) = true -> sim_raw s t (HWrite i b).
Proof. intros R Hwf. unfold wf_op_simx in Hwf. apply andb_true_iff in Hwf as [_ Hok]. now apply (sim_write_gen s t i b (HWrite i b)). Qed.
Lemma sim_hwritestring s t i b : Rsim s t -> wf_op_simx s (HWriteString i b) = true -> sim_raw s t (HWriteString i b).
Proof.
  intros R Hwf. unfold wf_op_simx in Hwf. apply andb_true_iff in Hwf as [_ Hok]. apply (sim_write_gen s t i b (HWriteString i b)); auto.
Qed.

Lemma sim_hwriteat s t i b off : Rsim s t -> wf_op_simx s (HWriteAt i b off) = true -> sim_raw s t (HWriteAt i b off).
Proof.
  intros R Hwf. hop_start R Hwf Hw Hok h Hh.
  destruct (handle_file s t i h R Hh Hok) as [(x & nd & d & pm & Hx & Hr & Hn & Hp & Hi & Hd)|(x & nd & pm & Hx & Hr & Hn & Hp & Hcl & Hpcl)].
  2:{ rewrite Hx, Hn, Hp, Hpcl. unfold f_writeat, f_write. cbn [hclosed set_at]. rewrite Hcl. destruct (off <? 0); cbn; (split; [|reflexivity]); try (eapply Rsim_set_handle_same; eauto). }
  rewrite Hx, Hn, Hp, Hd.
  pose proof (sim_writeat d h (bh_of x) b off (HWriteAt i b off) (hrel_of h x Hr)) as Hsim. cbv zeta in Hsim.
  destruct (f_writeat_io d h b off) as [Hio|Hio]; [destruct Hsim; contradiction|].
  destruct (f_writeat d h b off) as [[dopt h'] r]. cbn [fst snd] in *. destruct Hsim as (_ & -> & Hsim).
  rewrite (mproj_conv _ _ Hio). cbn [bh_of bclosed bro] in Hsim.
  assert (Rs : Rsim (set_handle s i h) t) by (eapply Rsim_set_handle_same; eauto).
  destruct (off <? 0); [destruct Hsim as (-> & Hpr); rewrite Hpr; split; [exact Rs | reflexivity]|].
  destruct (pclosed x); [destruct Hsim as (-> & Hpr); rewrite Hpr; split; [exact Rs | reflexivity]|].
  destruct (pro x); [destruct Hsim as (-> & Hpr); rewrite Hpr; split; [exact Rs | reflexivity]|].
  destruct Hsim as (Hdat & Hpr). rewrite Hpr. cbn [conv]. split; [|reflexivity].
  destruct Hr as (E1 & _). rewrite <- Hdat, E1. apply (Rsim_put_data _ t (pino x) nd d pm dopt); auto. rewrite <- E1. exact Hn.
Qed.

Lemma sim_hseek s t i off wh : Rsim s t -> wf_op_simx s (HSeek i off wh) = true -> sim_raw s t (HSeek i off wh).
Proof.
  intros R Hwf. hop_start R Hwf Hw Hok h Hh.
  destruct (handle_file s t i h R Hh Hok) as [(x & nd & d & pm & Hx & Hr & Hn & Hp & Hi & Hd)|(x & nd & pm & Hx & Hr & Hn & Hp & Hcl & Hpcl)].
  2:{ rewrite Hx, Hn, Hp, Hpcl. unfold f_seek. rewrite Hcl. cbn. split; [eapply Rsim_set_handle_same; eauto | reflexivity]. }
  rewrite Hx, Hn, Hp, Hd.
  pose proof (sim_seek d h (bh_of x) off wh (HSeek i off wh) (hrel_of h x Hr)) as Hsim. cbv zeta in Hsim.
  pose proof (f_seek_io d h off wh) as Hio. pose proof (f_seek_href d h off wh) as [Eh Er].
  destruct (f_seek d h off wh) as [h' r]. cbn [fst snd] in *. destruct Hsim as [_ Hsim].
  rewrite (mproj_conv _ _ Hio). cbn [bh_of bclosed bpos bro] in Hsim.
  destruct (pclosed x) eqn:Ecl.
  - destruct Hsim as [-> Hpr]. rewrite Hpr. cbn [conv Nat.eqb C_CLOSED]. split; [eapply Rsim_set_handle_same; eauto | reflexivity].
  - match type of Hsim with (if ?c then _ else _) => destruct c end.
    + destruct Hsim as [-> Hpr]. rewrite Hpr. cbn [conv]. split; [eapply Rsim_set_handle_same; eauto | reflexivity].
    + destruct Hsim as [Hrel Hpr]. rewrite Hpr. cbn [conv]. split; [|reflexivity].
      apply Rsim_set_handle; [exact R|]. destruct Hr as (E1 & E2 & E3 & E4 & E5). destruct Hrel as (F1 & F2 & F3).
      cbn in F1, F2, F3. repeat split; cbn; congruence.
Qed.

Lemma sim_htruncate s t i n : Rsim s t -> wf_op_simx s (HTruncate i n) = true -> sim_raw s t (HTruncate i n).
Proof.
  intros R Hwf. hop_start R Hwf Hw Hok h Hh.
  destruct (handle_file s t i h R Hh Hok) as [(x & nd & d & pm & Hx & Hr & Hn & Hp & Hi & Hd)|(x & nd & pm & Hx & Hr & Hn & Hp & Hcl & Hpcl)].
  2:{ rewrite Hx, Hn, Hp, Hpcl. unfold f_truncate. rewrite Hcl. cbn. split; [exact R | reflexivity]. }
  rewrite Hx, Hn, Hp, Hd.
  pose proof (sim_truncate d h (bh_of x) n (HTruncate i n) (hrel_of h x Hr)) as Hsim. cbv zeta in Hsim.
  pose proof (f_truncate_io d h n) as Hio.
  destruct (f_truncate d h n) as [dopt r]. cbn [fst snd] in *. destruct Hsim as [_ Hsim].
  rewrite (mproj_conv _ _ Hio). cbn [bh_of bclosed bro] in Hsim.
  destruct (pclosed x); [destruct Hsim as (-> & Hpr); rewrite Hpr; split; [exact R | reflexivity]|].
  destruct (pro x); [destruct Hsim as (-> & Hpr); rewrite Hpr; split; [exact R | reflexivity]|].
  destruct (n <? 0); [destruct Hsim as (-> & Hpr); rewrite Hpr; split; [exact R | reflexivity]|].
  destruct Hsim as (-> & Hpr). rewrite Hpr. cbn [conv]. split; [|reflexivity].
  destruct Hr as (E1 & _). rewrite E1.
  apply (Rsim_put_data s t (pino x) nd d pm (Some (ptrunc d (Z.to_nat n)))); auto. rewrite <- E1. exact Hn.
Qed.

(* ---------- Close / Stat / Sync / Name on a handle ---------- *)
Lemma handle_any s t i h : Rsim s t -> nth_error (mhandles s) i = Some h -> any_handle_ok s i = true ->
  exists x nd y, nth_error (phandles t) i = Some x /\ hrel2 h x /\ get_node s (href h) = Some nd /\
                 pinode t (pino x) = Some y /\ irel nd y.
Proof.
  intros R Hh Hok. unfold any_handle_ok in Hok. rewrite Hh in Hok.
  destruct (get_node s (href h)) as [nd|] eqn:Hn; [|discriminate].
  destruct (F2_nth _ _ _ i h (rs_handles _ _ R) Hh) as (x & Hx & Hr).
  destruct (proj2 (rs_heap _ _ R) _ nd Hn) as (y & Hy & Hi).
  exists x, nd, y. repeat split; auto; try apply Hr. destruct Hr as (E & _). now rewrite <- E.
Qed.

Lemma sim_hclose s t i : Rsim s t -> wf_op_simx s (HClose i) = true -> sim_raw s t (HClose i).
Proof.
  intros R Hwf. hop_start R Hwf Hw Hok h Hh.
  destruct (handle_any s t i h R Hh Hok) as (x & nd & y & Hx & Hr & Hn & Hp & Hi). rewrite Hx, Hn.
  pose proof Hr as (E1 & E2 & E3 & E4 & E5). rewrite <- E4.
  destruct (hclosed h) eqn:Ecl; [split; [exact R | reflexivity]|]. cbn [fst snd mproj]. split; [|reflexivity].
  assert (Rs : Rsim (set_handle s i (set_closed h)) (set_phandle t i (mkPH (pino x) (ppos x) (prdc x) true (pro x)))).
  { apply Rsim_set_handle; [exact R|]. repeat split; cbn; auto. }
  destruct (hro h); [exact Rs|]. apply Rsim_core; [exact Rs | apply keeps_mtime | reflexivity].
Qed.

Lemma sim_hstat s t i : Rsim s t -> wf_op_simx s (HStat i) = true -> sim_raw s t (HStat i).
Proof.
  intros R Hwf. hop_start R Hwf Hw Hok h Hh.
  destruct (handle_any s t i h R Hh Hok) as (x & nd & y & Hx & Hr & Hn & Hp & Hi). rewrite Hx, Hn, Hp.
  cbn [fst snd mproj finfo_of fi_dir fi_size]. destruct y as [pm|d pm]; cbn in Hi.
  - destruct Hi as [Hd _]. rewrite Hd. split; [exact R | reflexivity].
  - destruct Hi as (Hd & Hdat & _). rewrite Hd, Hdat, zlen_to_nat. split; [exact R | reflexivity].
Qed.

Lemma sim_hsync s t i : Rsim s t -> wf_op_simx s (HSync i) = true -> sim_raw s t (HSync i).
Proof.
  intros R Hwf. hop_start R Hwf Hw Hok h Hh.
  destruct (handle_any s t i h R Hh Hok) as (x & nd & y & Hx & Hr & Hn & Hp & Hi). rewrite Hx, Hn. split; [exact R | reflexivity].
Qed.
Lemma sim_hname s t i : Rsim s t -> wf_op_simx s (HName i) = true -> sim_raw s t (HName i).
Proof.
  intros R Hwf. hop_start R Hwf Hw Hok h Hh.
  destruct (handle_any s t i h R Hh Hok) as (x & nd & y & Hx & Hr & Hn & Hp & Hi). rewrite Hx, Hn. split; [exact R | reflexivity].
Qed.

(* ---------- directory reading ---------- *)
Lemma plisting_is_listing s t d : Rsim s t -> canon d -> is_listing s d (plisting t d).
Proof.
  intros R Hc. pose proof R as [W T N H Hs]. unfold plisting.
  set (ch := pchildren t d).
  assert (Hch : forall k, In k ch <-> is_child s d k).
  { intros k. unfold ch, pchildren. rewrite in_map_iff. split.
    - intros ([k' v] & E & Hin). cbn in E. subst k'. apply filter_In in Hin as [Hin Hf]. cbn [fst] in Hf.
      apply andb_true_iff in Hf as [H1 H2]. apply negb_true_iff, beqb_neq in H1. apply beqb_eq in H2.
      exists v. split; [rewrite T; now apply in_aget | auto].
    - intros (v & Hl & Hr & Hp). exists (k, v). split; [reflexivity|]. apply filter_In. split.
      + apply aget_in. change (plookup t k = Some v). now rewrite <- T.
      + cbn [fst]. apply andb_true_iff. split; [now apply negb_true_iff, beqb_neq | now apply beqb_eq]. }
  assert (Hnd : NoDup ch).
  { unfold ch, pchildren. apply (nodup_filter _ (ptree t)). exact N. }
  assert (Hdec : forall k, In k ch -> k = cpfx d ++ base k).
  { intros k Hk. apply Hch in Hk as (v & Hl & Hr & Hp). rewrite <- Hp. apply child_decomp; [apply (g_canon _ _ _ _ W k v Hl) | exact Hr]. }
  assert (Hperm : Permutation (sort_by bltb (map pbase ch)) (map pbase ch)) by apply sort_by_perm.
  split.
  - intros x. split.
    + intros Hx. apply (Permutation_in _ Hperm) in Hx. apply in_map_iff in Hx as (k & <- & Hk). exists k. split; [now apply Hch | reflexivity].
    + intros (k & Hk & ->). apply (Permutation_in _ (Permutation_sym Hperm)). apply in_map_iff. exists k. split; [reflexivity | now apply Hch].
  - apply strict_of_sorted_nodup.
    + apply (sort_by_sorted bltb); [apply bltb_asym | intros a b c; apply bleq_trans].
    + apply (Permutation_NoDup (Permutation_sym Hperm)).
      clear - Hnd Hdec. induction ch as [|k ch IH]; cbn; [constructor|]. inversion Hnd as [|? ? Hni Hnd']; subst.
      constructor; [|apply IH; auto; intros; apply Hdec; now right].
      intros Hin. apply in_map_iff in Hin as (k' & E & Hk'). apply Hni. change (base k' = base k) in E.
      assert (Ek : k = k') by (rewrite (Hdec k (or_introl eq_refl)), (Hdec k' (or_intror Hk')); now f_equal).
      now subst k'.
Qed.

Lemma pname_of_some t i k : pname_of t i = Some k -> In (k, i) (ptree t).
Proof.
  unfold pname_of. destruct (filter (fun kv => Nat.eqb (snd kv) i) (ptree t)) as [|[k' v] r] eqn:E; [discriminate|].
  intros Hk. inversion Hk; subst k'. assert (Hin : In (k, v) (filter (fun kv => Nat.eqb (snd kv) i) (ptree t))) by (rewrite E; now left).
  apply filter_In in Hin as [Hin Hv]. cbn in Hv. apply Nat.eqb_eq in Hv. now subst v.
Qed.
Lemma pname_of_ex t i k : In (k, i) (ptree t) -> exists k', pname_of t i = Some k'.
Proof.
  intros Hin. unfold pname_of. destruct (filter (fun kv => Nat.eqb (snd kv) i) (ptree t)) as [|[k' v] r] eqn:E.
  - exfalso. assert (Hf : In (k, i) (filter (fun kv => Nat.eqb (snd kv) i) (ptree t))) by (apply filter_In; split; [exact Hin | apply Nat.eqb_refl]).
    now rewrite E in Hf.
  - now exists k'.
Qed.

Lemma sim_readdir nm s t i n : Rsim s t -> wf_op_simx s (rdop nm i n) = true -> sim_raw s t (rdop nm i n).
Proof.
  intros R Hwf. pose proof R as [W T N H Hs].
  assert (Hok : dir_handle_ok s i = true).
  { unfold wf_op_simx in Hwf. apply andb_true_iff in Hwf as [_ Hok]. now destruct nm. }
  unfold sim_raw.
  assert (Ep : p_step t (rdop nm i n) = p_step t (HReaddirnames i n)) by (destruct nm; reflexivity). rewrite Ep. cbn [p_step].
  destruct (nth_error (mhandles s) i) as [h|] eqn:Hh.
  2:{ rewrite (F2_nth_none _ _ _ i Hs Hh). destruct nm; cbn [rdop m_step_raw]; unfold m_hop; rewrite Hh; split; try exact R; reflexivity. }
  unfold dir_handle_ok in Hok. rewrite Hh in Hok. destruct (get_node s (href h)) as [nd|] eqn:Hn; [|discriminate].
  apply andb_true_iff in Hok as [Hd Hlive].
  destruct (F2_nth _ _ _ i h Hs Hh) as (x & Hx & Hr). pose proof Hr as (E1 & E2 & E3 & E4 & E5).
  destruct (proj2 H _ nd Hn) as (y & Hy & Hi). rewrite Hx, <- E1, Hy.
  destruct y as [pm|dd pm]; cbn in Hi; [|destruct Hi; congruence].
  apply existsb_exists in Hlive as ([k0 r0] & Hin0 & Er0). cbn in Er0. apply Nat.eqb_eq in Er0. subst r0.
  assert (Hl0 : lookup s k0 = Some (href h)) by (apply in_aget; [apply (g_nodup _ _ _ _ W) | exact Hin0]).
  assert (Hin0' : In (k0, href h) (ptree t)) by (apply aget_in; change (plookup t k0 = Some (href h)); now rewrite <- T).
  destruct (pname_of_ex t (href h) k0 Hin0') as (d & Hd').
  rewrite Hd'. apply pname_of_some in Hd' as Hind.
  assert (Hld : lookup s d = Some (href h)) by (rewrite T; now apply in_aget).
  assert (Hcd : canon d) by (apply (g_canon _ _ _ _ W d _ Hld)).
  assert (Elist : plisting t d = dir_names s nd).
  { apply (is_listing_unique s d); [now apply plisting_is_listing | now apply (listing_is_children s d (href h) nd)]. }
  assert (Hc : 0 <= hrdc h) by lia.
  rewrite (readdir_page_raw s i h nd n nm Hh Hn Hd Hc). cbv zeta. cbn [fst snd].
  assert (Elen : length (plisting t d) = length (dir_infos s nd)) by (rewrite Elist; unfold dir_names; apply map_length).
  assert (Eoff : Nat.min (prdc x) (length (plisting t d)) = Nat.min (Z.to_nat (hrdc h)) (length (dir_infos s nd))).
  { rewrite Elen, E3, Nat2Z.id. reflexivity. }
  rewrite Eoff. set (c := Nat.min (Z.to_nat (hrdc h)) (length (dir_infos s nd))).
  set (M := skipn c (dir_infos s nd)).
  assert (Erest : skipn c (plisting t d) = map fi_name M).
  { rewrite Elist. unfold M, dir_names. now rewrite skipn_map. }
  rewrite Erest, map_length. fold (page_out (length M) n).
  split.
  - apply Rsim_set_handle; [exact R|]. repeat split; cbn; auto. lia.
  - rewrite firstn_map.
    destruct ((0 <? n) && Nat.eqb (length M) 0); destruct nm; reflexivity.
Qed.

(* creating below a regular file: refused on both sides, nothing changes *)
Lemma below_spec_step s t o : Rsim s t -> wf_below s o = true -> p_step t o = (t, PFail CNotDir).
Proof.
  intros R Hb. pose proof (rs_wf _ _ R) as W.
  destruct o; cbn [wf_below] in Hb; try discriminate Hb; cbn [p_step].
  - apply andb_true_iff in Hb as [_ Ht]. now rewrite <- (rel_through s t _ R), Ht.
  - apply andb_true_iff in Hb as [_ Ht]. now rewrite <- (rel_through s t _ R), Ht.
  - apply andb_true_iff in Hb as [_ Ht]. now rewrite <- (rel_through s t _ R), Ht.
  - apply andb_true_iff in Hb as [_ Ht]. now rewrite <- (rel_through s t _ R), Ht.
  - apply andb_true_iff in Hb as [_ Hb].
    destruct (kind_at s (normalize_path p)) as [isd|] eqn:Hk; [|discriminate]. apply andb_true_iff in Hb as [_ Ht].
    apply kind_at_lookup in Hk as [f Hl].
    rewrite <- !(rel_through s t _ R), <- (rel_is_dir s t _ R), Ht.
    change (pparent (normalize_path p)) with (par (normalize_path p)).
    now rewrite (WF_not_through_existing s _ f W Hl), (WF_parent_dir s _ f W Hl).
Qed.

Lemma sim_below s t o : Rsim s t -> wf_below s o = true -> sim_raw s t o.
Proof.
  intros R Hb. unfold sim_raw. rewrite (below_raw s o (rs_wf _ _ R) Hb), (below_spec_step s t o R Hb).
  split; [exact R | reflexivity].
Qed.

(* ---------- every well-formed call ---------- *)
Theorem sim_step_raw s t o : Rsim s t -> wf_op_simx s o = true -> sim_raw s t o.
Proof.
  intros R Hwf. assert (Hw0 : wf_op s o = true) by (unfold wf_op_simx in Hwf; now apply andb_true_iff in Hwf as [Hw _]).
  apply wf_op_cases in Hw0 as [Hw | Hb]; [|now apply sim_below].
  destruct o.
  - now apply sim_create.
  - now apply sim_mkdir.
  - now apply sim_mkdirall.
  - now apply sim_open.
  - now apply sim_openfile.
  - now apply sim_remove.
  - now apply sim_removeall.
  - now apply sim_rename.
  - now apply sim_stat.
  - now apply sim_chmod.
  - now apply sim_chown.
  - now apply sim_chtimes.
  - now apply sim_hread.
  - now apply sim_hreadat.
  - now apply sim_hwrite.
  - now apply sim_hwriteat.
  - now apply sim_hwritestring.
  - now apply sim_hseek.
  - now apply sim_htruncate.
  - now apply sim_hclose.
  - now apply (sim_readdir false).
  - now apply (sim_readdir true).
  - now apply sim_hstat.
  - now apply sim_hname.
  - now apply sim_hsync.
Qed.

Theorem sim_step s t o : Rsim s t -> wf_op_simx s o = true ->
  Rsim (fst (m_step s o)) (fst (p_step t o)) /\ mproj o (snd (m_step s o)) = snd (p_step t o).
Proof.
  intros R Hwf. destruct (sim_step_raw s t o R Hwf) as [R' Hp]. unfold m_step.
  destruct (m_step_raw s o) as [s1 r]. cbn [fst snd] in *. split; [|exact Hp].
  eapply Rsim_view; [| | |exact R']; reflexivity.
Qed.

Definition mproj_all (ops : list op) (outs : list res) : list pout := map (fun '(o, r) => mproj o r) (combine ops outs).

Theorem sim_run : forall ops s t, Rsim s t -> wf_seq_simx s ops = true ->
  mproj_all ops (snd (run_steps m_step s ops)) = snd (p_run t ops) /\
  Rsim (fst (run_steps m_step s ops)) (fst (p_run t ops)).
Proof.
  induction ops as [|o ops IH]; intros s t R Hseq; [split; [reflexivity | exact R]|].
  cbn [wf_seq_simx] in Hseq. apply andb_true_iff in Hseq as [Ho Hr].
  destruct (sim_step s t o R Ho) as [R1 Hp]. cbn [run_steps p_run].
  destruct (m_step s o) as [s1 x]. destruct (p_step t o) as [t1 px]. cbn [fst snd] in *.
  destruct (IH s1 t1 R1 Hr) as [Hps R']. destruct (run_steps m_step s1 ops) as [s2 xs]. destruct (p_run t1 ops) as [t2 pxs].
  cbn [fst snd] in *. split; [|exact R']. unfold mproj_all in *. cbn [combine map]. now rewrite Hp, Hps.
Qed.

(* ---------- what the relation lets one observe ---------- *)
Definition mentry (s : mst) (k : str) : option (bool * bytes * Z) :=
  match lookup s k with
  | Some r => match get_node s r with
              | Some n => Some (ndir n, if ndir n then [] else ndata n, Z.land (nmode n) chmod_bits)
              | None => None
              end
  | None => None
  end.
(* same kind, same contents, and the permission bits agree wherever they were set explicitly *)
Definition obs_agree (a : option (bool * bytes * Z)) (b : option (bool * bytes * option Z)) : Prop :=
  match a, b with
  | None, None => True
  | Some (d, c, pm), Some (d', c', opm) => d = d' /\ c = c' /\ (forall p, opm = Some p -> pm = p)
  | _, _ => False
  end.

Record Observe (s : mst) (t : pfs) : Prop := mkObserve {
  ob_tree : forall k, obs_agree (mentry s k) (pentry t k);
  ob_list : forall d r n, lookup s d = Some r -> get_node s r = Some n -> ndir n = true -> dir_names s n = plisting t d
}.

Theorem Rsim_observe s t : Rsim s t -> Observe s t.
Proof.
  intros R. split.
  - intros k. unfold mentry, pentry. destruct (lookup s k) as [r|] eqn:Hl.
    + destruct (rel_node s t k r R Hl) as (n & x & Hn & _ & _ & Hx & Hi). rewrite Hn, Hx.
      destruct x as [pm|d pm]; cbn in Hi |- *.
      * destruct Hi as [Hd Hm]. rewrite Hd. repeat split. intros p0 E. inversion E. now subst.
      * destruct Hi as (Hd & Hdat & Hm). rewrite Hd. repeat split; auto.
    + destruct (rel_none s t k R Hl) as [_ Hx]. now rewrite Hx.
  - intros d r n Hl Hn Hd. symmetry. apply (is_listing_unique s d).
    + apply plisting_is_listing; [exact R | apply (g_canon _ _ _ _ (rs_wf _ _ R) d r Hl)].
    + now apply (listing_is_children s d r n (rs_wf _ _ R)).
Qed.

Theorem simulation ops : wf_seq_simx m_init ops = true ->
  mproj_all ops (snd (run_steps m_step m_init ops)) = snd (p_run p_init ops) /\
  Observe (fst (run_steps m_step m_init ops)) (fst (p_run p_init ops)).
Proof.
  intros Hseq. destruct (sim_run ops m_init p_init Rsim_init Hseq) as [Hp R]. split; [exact Hp | now apply Rsim_observe].
Qed.
