(* Proofs/SearchChunkedProof.v — readerContainsAny over an arbitrary io.Reader (Model/SearchChunked.v).

   1. io.ReadAtLeast (ral_loop_spec): whatever the oracle, the bytes placed are a prefix of what was
      left, at least `min` of them unless the input ended, never more than len(buf); the fuel
      "bytes left + oracle entries left + 1" is never exhausted.
   2. readerContainsAny always calls it with len(buf) = min = halflen (bufflen = factor*L with an
      even factor, halflen = bufflen/2), so the count is halflen or "everything that was left":
      the oracle cannot influence which bytes reach the window (read_at_least_full).
   3. Hence, round by round, the chunked model computes what the full-read model of Model/Search.v
      computes (chunked_eq_full), for EVERY oracle; exactness follows from SearchProof.v. *)
From AF Require Import Lib.Bytes Gen.Consts Model.Search Model.SearchChunked
  Proofs.BytesLemmas Proofs.SearchProof.

(* ---------------------------------------------------------------- list facts *)
Lemma copy_into_nil dst : copy_into dst [] = dst.
Proof. unfold copy_into. rewrite firstn_nil. reflexivity. Qed.

Lemma skipn_skipn' {A} (x y : nat) (l : list A) : skipn x (skipn y l) = skipn (y + x) l.
Proof.
  revert l. induction y as [|y IH]; intros l; [reflexivity|].
  destruct l; [now rewrite !skipn_nil | apply IH].
Qed.

Lemma place_length (buf : bytes) n d : n <= length buf ->
  length (firstn n buf ++ copy_into (skipn n buf) d) = length buf.
Proof.
  intros Hn. rewrite app_length, copy_into_length, firstn_length, skipn_length. lia.
Qed.

(* two consecutive Reads into buf[n:] and buf[n+len d1:] = one Read of d1 ++ d2 into buf[n:] *)
Lemma place_app (buf : bytes) n d1 d2 : n + length d1 + length d2 <= length buf ->
  firstn (n + length d1) (firstn n buf ++ copy_into (skipn n buf) d1)
    ++ copy_into (skipn (n + length d1) (firstn n buf ++ copy_into (skipn n buf) d1)) d2
  = firstn n buf ++ copy_into (skipn n buf) (d1 ++ d2).
Proof.
  intros Hle.
  assert (Hf : length (firstn n buf) = n) by (rewrite firstn_length; lia).
  assert (Hs : length (skipn n buf) = length buf - n) by apply skipn_length.
  rewrite (copy_into_short (skipn n buf) d1) by lia.
  rewrite (copy_into_short (skipn n buf) (d1 ++ d2)) by (rewrite app_length; lia).
  set (T := skipn (length d1) (skipn n buf)).
  assert (HT : length T = length buf - n - length d1) by (unfold T; rewrite skipn_length; lia).
  assert (Hpre : length (firstn n buf ++ d1) = n + length d1) by (rewrite app_length; lia).
  rewrite (app_assoc (firstn n buf) d1 T). rewrite <- Hpre.
  rewrite firstn_app_exact, skipn_app_exact.
  rewrite (copy_into_short T d2) by lia.
  unfold T. rewrite skipn_skipn', app_length, <- !app_assoc.
  reflexivity.
Qed.

(* ---------------------------------------------------------------- one Read call *)
Definition measure (rd : reader) : nat := length (r_rest rd) + length (r_calls rd).

Lemma read_core (rest : bytes) c plen e :
  let data := firstn (Nat.min c plen) rest in
  let rest' := skipn (length data) rest in
  let eof := negb (c =? 0) && is_nil rest' && (is_nil data || e) in
  rest = data ++ rest' /\ length data <= plen /\ length rest' <= length rest /\
  (eof = true -> rest' = []) /\
  (eof = false -> c = plen -> 0 < plen -> e = false -> length rest' < length rest).
Proof.
  intros data rest' eof.
  assert (Hd : length data = Nat.min (Nat.min c plen) (length rest)) by apply firstn_length.
  assert (Hsplit : rest = data ++ rest').
  { unfold rest'. rewrite Hd. unfold data. set (q := Nat.min c plen).
    destruct (Nat.le_gt_cases q (length rest)).
    - rewrite Nat.min_l by lia. symmetry. apply firstn_skipn.
    - rewrite Nat.min_r by lia. rewrite skipn_all, firstn_all2 by lia. now rewrite app_nil_r. }
  assert (Hr : length rest = length data + length rest') by (rewrite Hsplit at 1; apply app_length).
  split; [exact Hsplit|]. split; [lia|]. split; [lia|]. split.
  - unfold eof. intros He. apply andb_true_iff in He as [He _]. apply andb_true_iff in He as [_ He].
    destruct rest'; [reflexivity | discriminate].
  - intros He -> Hp ->. rewrite Nat.min_id in Hd.
    destruct (Nat.eq_dec (length data) 0) as [Hz|]; [exfalso|lia].
    assert (Hrest : rest = []) by (destruct rest; [reflexivity | simpl in Hd; lia]).
    unfold eof, rest', data in He. rewrite Hrest, Nat.min_id in He.
    destruct plen; [lia|]. simpl in He. discriminate.
Qed.

Lemma reader_read_spec rd plen : 0 < plen ->
  exists data eof rd', reader_read rd plen = (data, eof, rd') /\
    r_rest rd = data ++ r_rest rd' /\
    length data <= plen /\
    (eof = true -> r_rest rd' = []) /\
    length (r_calls rd') <= length (r_calls rd) /\
    (eof = false -> measure rd' < measure rd).
Proof.
  intros Hp. unfold reader_read, measure.
  destruct rd as [rest calls k]. cbn [r_rest r_calls r_reads].
  destruct calls as [|[c e] t].
  - destruct (read_core rest plen plen false) as (H1 & H2 & H3 & H4 & H5).
    eexists _, _, _. split; [reflexivity|]. cbn [r_rest r_calls length].
    repeat split; auto. intros He. specialize (H5 He eq_refl Hp eq_refl). lia.
  - destruct (read_core rest c plen e) as (H1 & H2 & H3 & H4 & H5).
    eexists _, _, _. split; [reflexivity|]. cbn [r_rest r_calls length].
    repeat split; auto. intros He. lia.
Qed.

(* ---------------------------------------------------------------- io.ReadAtLeast *)
Lemma ral_loop_spec : forall fuel rd buf n m,
  n <= length buf -> m <= length buf -> measure rd < fuel ->
  exists data eof rd',
    ral_loop fuel rd buf n m
      = Some (firstn n buf ++ copy_into (skipn n buf) data, n + length data, eof, rd') /\
    r_rest rd = data ++ r_rest rd' /\
    n + length data <= length buf /\
    (eof = false -> m <= n + length data) /\
    (eof = true -> r_rest rd' = []) /\
    length (r_calls rd') <= length (r_calls rd).
Proof.
  induction fuel as [|f IH]; intros rd buf n m Hn Hm Hfuel; [lia|].
  cbn [ral_loop]. destruct (n <? m) eqn:Hlt.
  2:{ apply Nat.ltb_ge in Hlt. exists [], false, rd. cbn [length app].
      rewrite copy_into_nil, firstn_skipn, Nat.add_0_r. repeat split; auto; try lia; discriminate. }
  apply Nat.ltb_lt in Hlt.
  destruct (reader_read_spec rd (length buf - n) ltac:(lia)) as (d1 & eof1 & rd1 & Hrd & Hsplit & Hlen & Heof & Hcalls & Hdec).
  rewrite Hrd. destruct eof1.
  - exists d1, true, rd1. repeat split; auto; try lia; discriminate.
  - specialize (Hdec eq_refl).
    destruct (IH rd1 (firstn n buf ++ copy_into (skipn n buf) d1) (n + length d1) m) as
        (d2 & eof2 & rd2 & Hrun & Hsplit2 & Hlen2 & Hmin2 & Heof2 & Hcalls2).
    + rewrite place_length by lia. lia.
    + rewrite place_length by lia. lia.
    + lia.
    + rewrite place_length in Hlen2 by lia.
      exists (d1 ++ d2), eof2, rd2. rewrite Hrun, place_app by lia. rewrite app_length, Nat.add_assoc.
      repeat split; auto; try lia.
      rewrite Hsplit, Hsplit2. now rewrite app_assoc.
Qed.

(* ReadAtLeast(r, buf, len(buf)): the oracle has no say — H bytes, or all that was left *)
Lemma read_at_least_full rfuel rd slice H :
  0 < H -> length slice = H -> measure rd < rfuel ->
  exists err rd',
    read_at_least rfuel rd slice H
      = Some (copy_into slice (firstn H (r_rest rd)), length (firstn H (r_rest rd)), err, rd') /\
    is_err err = (length (firstn H (r_rest rd)) <? H) /\
    r_rest rd' = skipn (length (firstn H (r_rest rd))) (r_rest rd) /\
    length (r_calls rd') <= length (r_calls rd).
Proof.
  intros Hpos Hsl Hfuel. unfold read_at_least.
  replace (length slice <? H) with false by (symmetry; apply Nat.ltb_ge; lia).
  destruct (ral_loop_spec rfuel rd slice 0 H ltac:(lia) ltac:(lia) Hfuel) as
      (data & eof & rd' & Hrun & Hsplit & Hlen & Hmin & Heof & Hcalls).
  rewrite Hrun. cbn [firstn skipn app Nat.add] in *.
  assert (Hchunk : firstn H (r_rest rd) = data).
  { rewrite Hsplit. destruct eof.
    - rewrite (Heof eq_refl), app_nil_r. apply firstn_all2. lia.
    - specialize (Hmin eq_refl). replace H with (length data) by lia. apply firstn_app_exact. }
  rewrite Hchunk.
  eexists _, rd'. split; [reflexivity|]. split; [|split; [|exact Hcalls]].
  - destruct (H <=? length data) eqn:Hle.
    + apply Nat.leb_le in Hle. symmetry. apply Nat.ltb_ge. exact Hle.
    + apply Nat.leb_gt in Hle. replace (length data <? H) with true by (symmetry; apply Nat.ltb_lt; exact Hle).
      destruct eof; [|specialize (Hmin eq_refl); lia].
      destruct (0 <? length data); reflexivity.
  - rewrite Hsplit. symmetry. apply skipn_app_exact.
Qed.

(* ---------------------------------------------------------------- rounds i >= 2 *)
Lemma rounds_sim nd H : 0 < H ->
  forall fuel fuel' rfuel i buff rd,
  length buff = H + H -> 1 <= i ->
  length (r_rest rd) < fuel -> length (r_rest rd) < fuel' -> measure rd < rfuel ->
  option_map fst (rounds_chunked fuel rfuel H i buff rd nd)
    = Some (rounds fuel' H (i =? 1) buff (r_rest rd) nd).
Proof.
  intros Hpos. induction fuel as [|f IH]; intros fuel' rfuel i buff rd Hbuff Hi Hfuel Hfuel' Hrf; [lia|].
  destruct fuel' as [|f']; [lia|].
  cbn [rounds_chunked rounds].
  replace (S i =? 1) with false by (symmetry; apply Nat.eqb_neq; lia).
  change (S i =? 2) with (i =? 1). cbn [orb].
  match goal with |- context [read_at_least _ _ (skipn H ?b) H] => set (buff1 := b) end.
  assert (Hb1 : length buff1 = H + H).
  { unfold buff1. destruct (i =? 1); [exact Hbuff | now rewrite copy_into_length]. }
  assert (Hsl : length (skipn H buff1) = H) by (rewrite skipn_length; lia).
  destruct (read_at_least_full rfuel rd (skipn H buff1) H Hpos Hsl Hrf) as (err & rd' & Hral & Herr & Hrest & Hcalls).
  rewrite Hral. replace (length buff1 - H) with H by lia.
  set (chunk := firstn H (r_rest rd)) in *.
  assert (Hcl : length chunk <= length (r_rest rd)) by (unfold chunk; rewrite firstn_length; lia).
  rewrite Herr.
  destruct ((0 <? length chunk) && search (firstn (H + length chunk) (firstn H buff1 ++ copy_into (skipn H buff1) chunk)) nd);
    [reflexivity|].
  destruct (length chunk <? H) eqn:Hshort; [reflexivity|]. apply Nat.ltb_ge in Hshort.
  rewrite (IH f' rfuel (S i) _ rd').
  - replace (S i =? 1) with false by (symmetry; apply Nat.eqb_neq; lia). now rewrite Hrest.
  - rewrite app_length, copy_into_length, firstn_length. lia.
  - lia.
  - rewrite Hrest, skipn_length. lia.
  - rewrite Hrest, skipn_length. lia.
  - unfold measure in *. rewrite Hrest, skipn_length. lia.
Qed.

(* ---------------------------------------------------------------- round 1 and the whole function *)
Lemma copy_into_prefix (buff chunk : bytes) H : length chunk <= H -> H <= length buff ->
  copy_into (firstn H buff) chunk ++ skipn H buff = copy_into buff chunk.
Proof.
  intros Hc HH. rewrite !copy_into_short by (try rewrite firstn_length; lia).
  rewrite <- app_assoc. f_equal.
  rewrite <- (firstn_skipn H buff) at 3.
  rewrite skipn_app, firstn_length.
  replace (length chunk - Nat.min H (length buff)) with 0 by lia. reflexivity.
Qed.

Theorem chunked_eq_full factor content calls nd :
  2 <= factor -> Nat.even factor = true ->
  go_contains_any_chunked factor 2 content calls nd = Some (go_contains_any factor 2 content nd).
Proof.
  intros Hf Hev. unfold go_contains_any_chunked, go_contains_any_chunked_tr, go_contains_any.
  destruct (largest nd =? 0) eqn:HL; [reflexivity|].
  apply Nat.eqb_neq in HL. set (L := largest nd) in *.
  apply Nat.even_spec in Hev. destruct Hev as [k ->].
  set (H := Nat.div (2 * k * L) 2).
  assert (HH : H = k * L).
  { unfold H. replace (2 * k * L) with ((k * L) * 2) by lia. apply Nat.div_mul. lia. }
  assert (Hpos : 0 < H) by (rewrite HH; nia).
  assert (Hbl : length (zeros (2 * k * L)) = H + H) by (rewrite zeros_length; lia).
  set (buff := zeros (2 * k * L)) in *.
  remember (S (length content + length calls)) as f0 eqn:Hf0.
  replace (search_fuel content calls) with (S f0) by (unfold search_fuel; lia).
  set (rfuel := S f0).
  unfold rfuel at 1. cbn [rounds_chunked Nat.eqb orb r_rest].
  assert (Hsl : length (firstn H buff) = H) by (rewrite firstn_length; lia).
  destruct (read_at_least_full rfuel (mkReader content calls 0) (firstn H buff) H Hpos Hsl
              ltac:(unfold measure, rfuel; cbn [r_rest r_calls]; lia)) as (err & rd' & Hral & Herr & Hrest & Hcalls).
  rewrite Hral. cbn [r_rest r_calls] in *.
  set (chunk := firstn H content) in *.
  assert (Hcl : length chunk <= H) by (unfold chunk; rewrite firstn_length; lia).
  assert (Hcc : length chunk <= length content) by (unfold chunk; rewrite firstn_length; lia).
  rewrite copy_into_prefix by lia. rewrite Herr.
  destruct ((0 <? length chunk) && search (firstn (length chunk) (copy_into buff chunk)) nd); [reflexivity|].
  destruct (length chunk <? H) eqn:Hshort; [reflexivity|]. apply Nat.ltb_ge in Hshort.
  rewrite (rounds_sim nd H Hpos f0 (S (length content)) rfuel 1 _ rd').
  - cbn [Nat.eqb]. now rewrite Hrest.
  - now rewrite copy_into_length.
  - lia.
  - rewrite Hrest, skipn_length. lia.
  - rewrite Hrest, skipn_length. lia.
  - unfold measure, rfuel. rewrite Hrest, skipn_length. lia.
Qed.

(* ---------------------------------------------------------------- main theorems *)
Theorem go_contains_any_chunked_exact factor content calls nd :
  2 <= factor -> Nat.even factor = true ->
  go_contains_any_chunked factor 2 content calls nd = Some (contains_spec content nd).
Proof.
  intros Hf Hev. rewrite chunked_eq_full by assumption. f_equal. now apply go_contains_any_exact.
Qed.

Theorem reader_contains_any_chunked_exact content calls nd :
  reader_contains_any_chunked content calls nd = Some (contains_spec content nd).
Proof.
  unfold reader_contains_any_chunked. rewrite search_half_div_fact.
  apply go_contains_any_chunked_exact; apply search_factor_facts.
Qed.

(* the full-read model of Model/Search.v is the empty oracle (every Read fills its buffer) — and,
   by chunked_eq_full, every other oracle computes the same *)
Theorem reader_contains_any_is_fill_instance content nd :
  reader_contains_any_chunked content [] nd = Some (reader_contains_any content nd).
Proof.
  unfold reader_contains_any_chunked, reader_contains_any. rewrite search_half_div_fact.
  apply chunked_eq_full; apply search_factor_facts.
Qed.
