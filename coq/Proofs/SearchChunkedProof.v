(* Proofs/SearchChunkedProof.v — readerContainsAny over an arbitrary io.Reader (Model/SearchChunked.v).

   1. io.ReadAtLeast (ral_loop_spec): whatever the oracle, the bytes placed are a prefix of what was
      left, at least `min` of them unless the input ended, never more than len(buf); the fuel
      "bytes left + oracle entries left + 1" is never exhausted.
   2. readerContainsAny always calls it with len(buf) = min = halflen (bufflen = factor*L with an
      even factor, halflen = bufflen/2), so the count is halflen or "everything that was left":
      the oracle cannot influence which bytes reach the window (read_at_least_full).
   3. Hence, round by round (Section Sim: rounds_sim, whole_sim), the chunked model computes what the
      full-read model of Model/Search.v computes (chunked_eq_full), for EVERY oracle; exactness
      follows from SearchProof.v.
   4. The same simulation, instantiated with a reader whose every Read fills its buffer
      (read_at_least_fill), shows for EVERY factor and divisor with 1 <= hdiv <= factor that the
      full-read model is that instance of the chunked one (chunked_fill_is_full). *)
From AF Require Import Lib.Bytes Gen.Consts Model.Search Model.SearchChunked
  Proofs.BytesLemmas Proofs.SearchProof.

(* ---------------------------------------------------------------- list facts *)
Lemma copy_into_nil dst : copy_into dst [] = dst.
Proof. unfold copy_into. rewrite firstn_nil. reflexivity. Qed.

Lemma skipn_skipn' {A} (x y : nat) (l : list A) : skipn x (skipn y l) = skipn (y + x) l.
Proof.
  revert l. induction y as [|y IH]; intros l; [reflexivity|].
  destruct l; [now rewrite !skipn_nil | apply IH].
Qed.

Lemma place_length (buf : bytes) n d : n <= length buf ->
  length (firstn n buf ++ copy_into (skipn n buf) d) = length buf.
Proof.
  intros Hn. rewrite app_length, copy_into_length, firstn_length, skipn_length. lia.
Qed.

(* two consecutive Reads into buf[n:] and buf[n+len d1:] = one Read of d1 ++ d2 into buf[n:] *)
Lemma place_app (buf : bytes) n d1 d2 : n + length d1 + length d2 <= length buf ->
  firstn (n + length d1) (firstn n buf ++ copy_into (skipn n buf) d1)
    ++ copy_into (skipn (n + length d1) (firstn n buf ++ copy_into (skipn n buf) d1)) d2
  = firstn n buf ++ copy_into (skipn n buf) (d1 ++ d2).
Proof.
  intros Hle.
  assert (Hf : length (firstn n buf) = n) by (rewrite firstn_length; lia).
  assert (Hs : length (skipn n buf) = length buf - n) by apply skipn_length.
  rewrite (copy_into_short (skipn n buf) d1) by lia.
  rewrite (copy_into_short (skipn n buf) (d1 ++ d2)) by (rewrite app_length; lia).
  set (T := skipn (length d1) (skipn n buf)).
  assert (HT : length T = length buf - n - length d1) by (unfold T; rewrite skipn_length; lia).
  assert (Hpre : length (firstn n buf ++ d1) = n + length d1) by (rewrite app_length; lia).
  rewrite (app_assoc (firstn n buf) d1 T). rewrite <- Hpre.
  rewrite firstn_app_exact, skipn_app_exact.
  rewrite (copy_into_short T d2) by lia.
  unfold T. rewrite skipn_skipn', app_length, <- !app_assoc.
  reflexivity.
Qed.

(* ---------------------------------------------------------------- one Read call *)
Definition measure (rd : reader) : nat := length (r_rest rd) + length (r_calls rd).

Lemma read_core (rest : bytes) c plen e :
  let data := firstn (Nat.min c plen) rest in
  let rest' := skipn (length data) rest in
  let eof := negb (c =? 0) && is_nil rest' && (is_nil data || e) in
  rest = data ++ rest' /\ length data <= plen /\ length rest' <= length rest /\
  (eof = true -> rest' = []) /\
  (eof = false -> c = plen -> 0 < plen -> e = false -> length rest' < length rest).
Proof.
  intros data rest' eof.
  assert (Hd : length data = Nat.min (Nat.min c plen) (length rest)) by apply firstn_length.
  assert (Hsplit : rest = data ++ rest').
  { unfold rest'. rewrite Hd. unfold data. set (q := Nat.min c plen).
    destruct (Nat.le_gt_cases q (length rest)).
    - rewrite Nat.min_l by lia. symmetry. apply firstn_skipn.
    - rewrite Nat.min_r by lia. rewrite skipn_all, firstn_all2 by lia. now rewrite app_nil_r. }
  assert (Hr : length rest = length data + length rest') by (rewrite Hsplit at 1; apply app_length).
  split; [exact Hsplit|]. split; [lia|]. split; [lia|]. split.
  - unfold eof. intros He. apply andb_true_iff in He as [He _]. apply andb_true_iff in He as [_ He].
    destruct rest'; [reflexivity | discriminate].
  - intros He -> Hp ->. rewrite Nat.min_id in Hd.
    destruct (Nat.eq_dec (length data) 0) as [Hz|]; [exfalso|lia].
    assert (Hrest : rest = []) by (destruct rest; [reflexivity | simpl in Hd; lia]).
    unfold eof, rest', data in He. rewrite Hrest, Nat.min_id in He.
    destruct plen; [lia|]. simpl in He. discriminate.
Qed.

Lemma reader_read_spec rd plen : 0 < plen ->
  exists data eof rd', reader_read rd plen = (data, eof, rd') /\
    r_rest rd = data ++ r_rest rd' /\
    length data <= plen /\
    (eof = true -> r_rest rd' = []) /\
    (exists used, r_calls rd = used ++ r_calls rd') /\
    (eof = false -> measure rd' < measure rd).
Proof.
  intros Hp. unfold reader_read, measure.
  destruct rd as [rest calls k]. cbn [r_rest r_calls r_reads].
  destruct calls as [|[c e] t].
  - destruct (read_core rest plen plen false) as (H1 & H2 & H3 & H4 & H5).
    eexists _, _, _. split; [reflexivity|]. cbn [r_rest r_calls length].
    repeat split; auto; [now exists []|]. intros He. specialize (H5 He eq_refl Hp eq_refl). lia.
  - destruct (read_core rest c plen e) as (H1 & H2 & H3 & H4 & H5).
    eexists _, _, _. split; [reflexivity|]. cbn [r_rest r_calls length].
    repeat split; auto; [now exists [(c, e)]|]. intros He. lia.
Qed.

(* ---------------------------------------------------------------- io.ReadAtLeast *)
Lemma ral_loop_spec : forall fuel rd buf n m,
  n <= length buf -> m <= length buf -> measure rd < fuel ->
  exists data eof rd',
    ral_loop fuel rd buf n m
      = Some (firstn n buf ++ copy_into (skipn n buf) data, n + length data, eof, rd') /\
    r_rest rd = data ++ r_rest rd' /\
    n + length data <= length buf /\
    (eof = false -> m <= n + length data) /\
    (eof = true -> r_rest rd' = []) /\
    (exists used, r_calls rd = used ++ r_calls rd').
Proof.
  induction fuel as [|f IH]; intros rd buf n m Hn Hm Hfuel; [lia|].
  cbn [ral_loop]. destruct (n <? m) eqn:Hlt.
  2:{ apply Nat.ltb_ge in Hlt. exists [], false, rd. cbn [length app].
      rewrite copy_into_nil, firstn_skipn, Nat.add_0_r.
      repeat split; auto; try lia; try discriminate. now exists []. }
  apply Nat.ltb_lt in Hlt.
  destruct (reader_read_spec rd (length buf - n) ltac:(lia)) as (d1 & eof1 & rd1 & Hrd & Hsplit & Hlen & Heof & [u1 Hcalls] & Hdec).
  rewrite Hrd. destruct eof1.
  - exists d1, true, rd1. repeat split; auto; try lia; try discriminate. now exists u1.
  - specialize (Hdec eq_refl).
    destruct (IH rd1 (firstn n buf ++ copy_into (skipn n buf) d1) (n + length d1) m) as
        (d2 & eof2 & rd2 & Hrun & Hsplit2 & Hlen2 & Hmin2 & Heof2 & [u2 Hcalls2]).
    + rewrite place_length by lia. lia.
    + rewrite place_length by lia. lia.
    + lia.
    + rewrite place_length in Hlen2 by lia.
      exists (d1 ++ d2), eof2, rd2. rewrite Hrun, place_app by lia. rewrite app_length, Nat.add_assoc.
      repeat split; auto; try lia.
      * rewrite Hsplit, Hsplit2. now rewrite app_assoc.
      * exists (u1 ++ u2). rewrite Hcalls, Hcalls2. now rewrite app_assoc.
Qed.

(* What the rounds of readerContainsAny need from one ReadAtLeast(r, slice, H): the count and the bytes
   are determined by what is left, not by the oracle.  [okc]: a property of the oracle that survives. *)
Definition ral_determined (okc : list rcall -> Prop) (H : nat) (rfuel : nat) (rd : reader) (slice : bytes) : Prop :=
  let chunk := firstn (length slice) (r_rest rd) in
  exists err rd',
    read_at_least rfuel rd slice H = Some (copy_into slice chunk, length chunk, err, rd') /\
    is_err err = (length chunk <? H) /\
    r_rest rd' = skipn (length chunk) (r_rest rd) /\
    length (r_calls rd') <= length (r_calls rd) /\
    okc (r_calls rd').

Lemma suffix_length (calls used calls' : list rcall) : calls = used ++ calls' -> length calls' <= length calls.
Proof. intros ->. rewrite app_length. lia. Qed.

(* (A) ReadAtLeast(r, buf, len(buf)), ANY oracle: H bytes, or all that was left *)
Lemma read_at_least_full rfuel rd slice H :
  0 < H -> length slice = H -> measure rd < rfuel ->
  ral_determined (fun _ => True) H rfuel rd slice.
Proof.
  intros Hpos Hsl Hfuel. unfold ral_determined, read_at_least. rewrite Hsl.
  replace (H <? H) with false by (symmetry; apply Nat.ltb_ge; lia).
  destruct (ral_loop_spec rfuel rd slice 0 H ltac:(lia) ltac:(lia) Hfuel) as
      (data & eof & rd' & Hrun & Hsplit & Hlen & Hmin & Heof & [used Hcalls]).
  rewrite Hrun. cbn [firstn skipn app Nat.add] in *.
  assert (Hchunk : firstn H (r_rest rd) = data).
  { rewrite Hsplit. destruct eof.
    - rewrite (Heof eq_refl), app_nil_r. apply firstn_all2. lia.
    - specialize (Hmin eq_refl). replace H with (length data) by lia. apply firstn_app_exact. }
  rewrite Hchunk.
  eexists _, rd'. split; [reflexivity|]. split; [|split; [|split; [now apply suffix_length in Hcalls | exact I]]].
  - destruct (H <=? length data) eqn:Hle.
    + apply Nat.leb_le in Hle. symmetry. apply Nat.ltb_ge. exact Hle.
    + apply Nat.leb_gt in Hle. replace (length data <? H) with true by (symmetry; apply Nat.ltb_lt; exact Hle).
      destruct eof; [|specialize (Hmin eq_refl); lia].
      destruct (0 <? length data); reflexivity.
  - rewrite Hsplit. symmetry. apply skipn_app_exact.
Qed.

(* (B) a reader whose every Read fills the buffer (entries (c, false) with c >= B >= len p; the empty
   oracle is one), any min <= len(buf): len(buf) bytes, or all that was left; len(buf) = 0 < min is
   io.ErrShortBuffer *)
Definition fills (B : nat) (ce : rcall) : Prop := B <= fst ce /\ snd ce = false.

Lemma eof_fill (rest : bytes) c plen : 0 < plen ->
  negb (c =? 0) && is_nil (skipn (length (firstn plen rest)) rest) && (is_nil (firstn plen rest) || false) = true ->
  rest = [].
Proof.
  intros Hp He. apply andb_true_iff in He as [_ He]. rewrite orb_false_r in He.
  destruct rest; [reflexivity|]. destruct plen; [lia | discriminate].
Qed.

Lemma reader_read_fill B rd plen :
  Forall (fills B) (r_calls rd) -> 0 < plen -> plen <= B ->
  exists eof rd', reader_read rd plen = (firstn plen (r_rest rd), eof, rd') /\
    (eof = true -> r_rest rd = []).
Proof.
  intros Hf Hp HB. unfold reader_read. destruct rd as [rest calls k]. cbn [r_rest r_calls r_reads] in *.
  destruct calls as [|[c e] t].
  - rewrite Nat.min_id. eexists _, _. split; [reflexivity|]. now apply eof_fill.
  - inversion Hf as [|? ? [Hc He] Ht]; subst. cbn [fst snd] in *. subst e.
    rewrite (Nat.min_r c plen) by lia. eexists _, _. split; [reflexivity|]. now apply eof_fill.
Qed.

Lemma read_at_least_fill B rfuel rd slice H :
  0 < H -> Forall (fills B) (r_calls rd) -> length slice <= B ->
  (H <= length slice \/ length slice = 0) -> measure rd < rfuel ->
  ral_determined (Forall (fills B)) H rfuel rd slice.
Proof.
  intros Hpos Hf HB Hlen Hfuel. unfold ral_determined, read_at_least.
  destruct Hlen as [Hlen | Hz].
  2:{ rewrite Hz. replace (0 <? H) with true by (symmetry; apply Nat.ltb_lt; lia).
      cbn [firstn length]. rewrite copy_into_nil. eexists _, rd. split; [reflexivity|].
      repeat split; auto. symmetry. apply Nat.ltb_lt. lia. }
  replace (length slice <? H) with false by (symmetry; apply Nat.ltb_ge; lia).
  set (b := length slice) in *.
  destruct rfuel as [|f]; [lia|]. cbn [ral_loop].
  replace (0 <? H) with true by (symmetry; apply Nat.ltb_lt; lia).
  fold b. rewrite Nat.sub_0_r.
  destruct (reader_read_fill B rd b Hf ltac:(lia) HB) as (eof1 & rd1 & Hrd & Heof1).
  destruct (reader_read_spec rd b ltac:(lia)) as (d1 & eof1' & rd1' & Hrd' & Hsplit & Hl1 & Hend1 & [u1 Hcalls1] & Hdec).
  rewrite Hrd in Hrd'. injection Hrd' as <- <- <-.
  rewrite Hrd. cbn [firstn skipn app Nat.add].
  set (chunk := firstn b (r_rest rd)) in *.
  assert (Hok1 : Forall (fills B) (r_calls rd1)).
  { rewrite Hcalls1 in Hf. now apply Forall_app in Hf. }
  destruct eof1.
  - (* nothing was left *)
    assert (Hc : chunk = []) by (unfold chunk; now rewrite (Heof1 eq_refl), firstn_nil).
    eexists _, rd1. split; [reflexivity|]. rewrite Hc. cbn [length skipn]. split; [|split; [|split]].
    + replace (H <=? 0) with false by (symmetry; apply Nat.leb_gt; lia).
      replace (0 <? H) with true by (symmetry; apply Nat.ltb_lt; lia). reflexivity.
    + rewrite Hsplit, Hc. reflexivity.
    + now apply suffix_length in Hcalls1.
    + exact Hok1.
  - specialize (Hdec eq_refl).
    destruct (ral_loop_spec f rd1 (copy_into slice chunk) (length chunk) H) as
        (d2 & eof2 & rd2 & Hrun & Hsplit2 & Hlen2 & Hmin2 & Heof2 & [u2 Hcalls2]).
    + rewrite copy_into_length. exact Hl1.
    + rewrite copy_into_length. exact Hlen.
    + lia.
    + rewrite copy_into_length in Hlen2.
      (* the second part of the loop adds nothing: the buffer is full or the input is exhausted *)
      assert (Hd2 : d2 = []).
      { destruct (Nat.eq_dec (length chunk) b) as [Hfull|Hnot].
        - destruct d2; [reflexivity | simpl in Hlen2; lia].
        - assert (Hr1 : r_rest rd1 = []).
          { assert (Hall : length (r_rest rd) < b).
            { unfold chunk in Hnot. rewrite firstn_length in Hnot. lia. }
            assert (Hcr : chunk = r_rest rd) by (unfold chunk; apply firstn_all2; lia).
            apply (f_equal (@length _)) in Hsplit. rewrite app_length, Hcr in Hsplit.
            destruct (r_rest rd1); [reflexivity | simpl in Hsplit; lia]. }
          rewrite Hr1 in Hsplit2. symmetry in Hsplit2. now apply app_eq_nil in Hsplit2. }
      subst d2. cbn [length app] in *. rewrite Nat.add_0_r, copy_into_nil, firstn_skipn in Hrun.
      rewrite Nat.add_0_r in *. rewrite Hrun.
      eexists _, rd2. split; [reflexivity|]. repeat split.
      * destruct (H <=? length chunk) eqn:Hle.
        -- apply Nat.leb_le in Hle. symmetry. apply Nat.ltb_ge. exact Hle.
        -- apply Nat.leb_gt in Hle. replace (length chunk <? H) with true by (symmetry; apply Nat.ltb_lt; exact Hle).
           destruct eof2; [|specialize (Hmin2 eq_refl); lia].
           destruct (0 <? length chunk); reflexivity.
      * rewrite <- Hsplit2. rewrite Hsplit. symmetry. apply skipn_app_exact.
      * apply suffix_length in Hcalls1, Hcalls2. lia.
      * rewrite Hcalls2 in Hok1. now apply Forall_app in Hok1.
Qed.

Lemma copy_into_prefix (buff chunk : bytes) H : length chunk <= H -> H <= length buff ->
  copy_into (firstn H buff) chunk ++ skipn H buff = copy_into buff chunk.
Proof.
  intros Hc HH. rewrite !copy_into_short by (try rewrite firstn_length; lia).
  rewrite <- app_assoc. f_equal.
  rewrite <- (firstn_skipn H buff) at 3.
  rewrite skipn_app, firstn_length.
  replace (length chunk - Nat.min H (length buff)) with 0 by lia. reflexivity.
Qed.

(* ---------------------------------------------------------------- the rounds, given ral_determined *)
Section Sim.
Variable nd : list bytes.
Variables H slen : nat.
Variable okc : list rcall -> Prop.
Hypothesis Hpos : 0 < H.
Hypothesis Hral : forall rfuel rd slice, okc (r_calls rd) ->
  length slice = H \/ length slice = slen -> measure rd < rfuel -> ral_determined okc H rfuel rd slice.

(* rounds i >= 2 *)
Lemma rounds_sim : forall fuel fuel' rfuel i buff rd,
  length buff = H + slen -> 1 <= i -> okc (r_calls rd) ->
  length (r_rest rd) < fuel -> length (r_rest rd) < fuel' -> measure rd < rfuel ->
  option_map fst (rounds_chunked fuel rfuel H i buff rd nd)
    = Some (rounds fuel' H (i =? 1) buff (r_rest rd) nd).
Proof.
  induction fuel as [|f IH]; intros fuel' rfuel i buff rd Hbuff Hi Hok Hfuel Hfuel' Hrf; [lia|].
  destruct fuel' as [|f']; [lia|].
  cbn [rounds_chunked rounds].
  replace (S i =? 1) with false by (symmetry; apply Nat.eqb_neq; lia).
  change (S i =? 2) with (i =? 1). cbn [orb].
  match goal with |- context [read_at_least _ _ (skipn H ?b) H] => set (buff1 := b) end.
  assert (Hb1 : length buff1 = H + slen).
  { unfold buff1. destruct (i =? 1); [exact Hbuff | now rewrite copy_into_length]. }
  assert (Hsl : length (skipn H buff1) = slen) by (rewrite skipn_length; lia).
  destruct (Hral rfuel rd (skipn H buff1) Hok (or_intror Hsl) Hrf) as (err & rd' & Hral' & Herr & Hrest & Hcalls & Hok').
  rewrite Hsl in *. rewrite Hral'. replace (length buff1 - H) with slen by lia.
  set (chunk := firstn slen (r_rest rd)) in *.
  assert (Hcl : length chunk <= length (r_rest rd)) by (unfold chunk; rewrite firstn_length; lia).
  rewrite Herr.
  destruct ((0 <? length chunk) && search (firstn (H + length chunk) (firstn H buff1 ++ copy_into (skipn H buff1) chunk)) nd);
    [reflexivity|].
  destruct (length chunk <? H) eqn:Hshort; [reflexivity|]. apply Nat.ltb_ge in Hshort.
  rewrite (IH f' rfuel (S i) _ rd').
  - replace (S i =? 1) with false by (symmetry; apply Nat.eqb_neq; lia). now rewrite Hrest.
  - rewrite app_length, copy_into_length, firstn_length, Hsl. lia.
  - lia.
  - exact Hok'.
  - rewrite Hrest, skipn_length. lia.
  - rewrite Hrest, skipn_length. lia.
  - unfold measure in *. rewrite Hrest, skipn_length. lia.
Qed.

(* round 1 followed by the rounds = the body of go_contains_any *)
Lemma whole_sim : forall f0 rfuel buff rd,
  length buff = H + slen -> okc (r_calls rd) ->
  length (r_rest rd) < f0 -> measure rd < rfuel ->
  option_map fst (rounds_chunked (S f0) rfuel H 0 buff rd nd)
    = Some (let chunk := firstn H (r_rest rd) in
            let n := length chunk in
            let buff1 := copy_into buff chunk in
            if (0 <? n) && search (firstn n buff1) nd then true
            else if n <? H then false
            else rounds (S (length (r_rest rd))) H true buff1 (skipn n (r_rest rd)) nd).
Proof.
  intros f0 rfuel buff rd Hbuff Hok Hfuel Hrf.
  cbn [rounds_chunked Nat.eqb orb]. cbv zeta.
  assert (Hsl : length (firstn H buff) = H) by (rewrite firstn_length; lia).
  destruct (Hral rfuel rd (firstn H buff) Hok (or_introl Hsl) Hrf) as (err & rd' & Hral' & Herr & Hrest & Hcalls & Hok').
  rewrite Hsl in *. rewrite Hral'.
  set (chunk := firstn H (r_rest rd)) in *.
  assert (Hcl : length chunk <= H) by (unfold chunk; rewrite firstn_length; lia).
  assert (Hcc : length chunk <= length (r_rest rd)) by (unfold chunk; rewrite firstn_length; lia).
  rewrite copy_into_prefix by lia. rewrite Herr.
  destruct ((0 <? length chunk) && search (firstn (length chunk) (copy_into buff chunk)) nd); [reflexivity|].
  destruct (length chunk <? H) eqn:Hshort; [reflexivity|]. apply Nat.ltb_ge in Hshort.
  rewrite (rounds_sim f0 (S (length (r_rest rd))) rfuel 1 _ rd').
  - cbn [Nat.eqb]. now rewrite Hrest.
  - now rewrite copy_into_length.
  - lia.
  - exact Hok'.
  - rewrite Hrest, skipn_length. lia.
  - rewrite Hrest, skipn_length. lia.
  - unfold measure in *. rewrite Hrest, skipn_length. lia.
Qed.
End Sim.

(* ---------------------------------------------------------------- the whole function *)
(* (A) even factor, halflen = bufflen/2: EVERY oracle computes what the full-read model computes *)
Theorem chunked_eq_full factor content calls nd :
  2 <= factor -> Nat.even factor = true ->
  go_contains_any_chunked factor 2 content calls nd = Some (go_contains_any factor 2 content nd).
Proof.
  intros Hf Hev. unfold go_contains_any_chunked, go_contains_any_chunked_tr, go_contains_any.
  destruct (largest nd =? 0) eqn:HL; [reflexivity|].
  apply Nat.eqb_neq in HL. set (L := largest nd) in *.
  apply Nat.even_spec in Hev. destruct Hev as [k ->].
  set (H := Nat.div (2 * k * L) 2).
  assert (HH : H = k * L).
  { unfold H. replace (2 * k * L) with ((k * L) * 2) by lia. apply Nat.div_mul. lia. }
  assert (Hpos : 0 < H) by (rewrite HH; nia).
  replace (search_fuel content calls) with (S (S (length content + length calls))) by (unfold search_fuel; lia).
  rewrite (whole_sim nd H H (fun _ => True) Hpos).
  - reflexivity.
  - intros rfuel rd slice _ Hsl Hrf. apply read_at_least_full; [exact Hpos | destruct Hsl; assumption | exact Hrf].
  - rewrite zeros_length. lia.
  - exact I.
  - cbn [r_rest]. lia.
  - unfold measure. cbn [r_rest r_calls]. lia.
Qed.

(* (B) ANY factor and divisor with 1 <= hdiv <= factor, a reader whose every Read fills its buffer:
   the model of Model/Search.v is this instance of the chunked model *)
Theorem chunked_fill_is_full factor hdiv content calls nd :
  1 <= hdiv -> hdiv <= factor ->
  Forall (fills (factor * largest nd)) calls ->
  go_contains_any_chunked factor hdiv content calls nd = Some (go_contains_any factor hdiv content nd).
Proof.
  intros Hd Hdf Hfill. unfold go_contains_any_chunked, go_contains_any_chunked_tr, go_contains_any.
  destruct (largest nd =? 0) eqn:HL; [reflexivity|].
  apply Nat.eqb_neq in HL. set (L := largest nd) in *.
  set (B := factor * L) in *. set (H := Nat.div B hdiv).
  assert (HdH : hdiv * H <= B) by (apply Nat.mul_div_le; lia).
  assert (HLH : L <= H) by (apply Nat.div_le_lower_bound; [lia | unfold B; nia]).
  assert (Hpos : 0 < H) by lia.
  assert (HHB : H <= B) by nia.
  assert (Hslen : H <= B - H \/ B - H = 0).
  { destruct (Nat.eq_dec hdiv 1) as [->|]; [right; unfold H; rewrite Nat.div_1_r; lia | left; nia]. }
  replace (search_fuel content calls) with (S (S (length content + length calls))) by (unfold search_fuel; lia).
  rewrite (whole_sim nd H (B - H) (Forall (fills B)) Hpos).
  - reflexivity.
  - intros rfuel rd slice Hok Hsl Hrf. apply read_at_least_fill; try assumption.
    + destruct Hsl as [-> | ->]; lia.
    + destruct Hsl as [-> | ->]; [left; lia | exact Hslen].
  - rewrite zeros_length. lia.
  - exact Hfill.
  - cbn [r_rest]. lia.
  - unfold measure. cbn [r_rest r_calls]. lia.
Qed.

(* ---------------------------------------------------------------- main theorems *)
Theorem go_contains_any_chunked_exact factor content calls nd :
  2 <= factor -> Nat.even factor = true ->
  go_contains_any_chunked factor 2 content calls nd = Some (contains_spec content nd).
Proof.
  intros Hf Hev. rewrite chunked_eq_full by assumption. f_equal. now apply go_contains_any_exact.
Qed.

Theorem reader_contains_any_chunked_exact content calls nd :
  reader_contains_any_chunked content calls nd = Some (contains_spec content nd).
Proof.
  unfold reader_contains_any_chunked. rewrite search_half_div_fact.
  apply go_contains_any_chunked_exact; apply search_factor_facts.
Qed.

(* the full-read model of Model/Search.v is the empty oracle (every Read fills its buffer) *)
Theorem reader_contains_any_is_fill_instance content nd :
  reader_contains_any_chunked content [] nd = Some (reader_contains_any content nd).
Proof.
  unfold reader_contains_any_chunked, reader_contains_any.
  apply chunked_fill_is_full; [| | constructor]; vm_compute; repeat constructor.
Qed.
