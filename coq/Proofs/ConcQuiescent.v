(* Proofs/ConcQuiescent.v — C03, quiescent consistency WITHOUT a sequential-preservation hypothesis.

   conc_transfer (Proofs/ConcProof.v) reduces "P holds in every configuration of every schedule" to
   "each sequential body preserves P on the calls of the class".  Here the bodies are discharged for
     TI G s :=  WF s                                   (Proofs/MemFsWF.v: the child indexes mirror the path map)
             /\ KI s                                   (every existing name is a regular file iff it is a file NAME)
             /\ every name of G is absent in s         (G: the x targets of directory renames still to come)
   and for the class cc_wtq (Model/ConcClass.v).  WF alone is not preserved by the bodies in every
   state another goroutine can produce (Create over a directory, Rename onto a non-empty directory ...):
   the kinds of the names and the freshness of the rename targets are what makes each call
   well-formed — or harmless — in EVERY state in which it can start.  Because a directory rename
   consumes its target, the invariant depends on which renames are still to come: the transfer is
   redone here with that ghost (conc_step_J), re-using cc_sem_P for every section but Rename's. *)
From Coq Require Import String Sorting.Permutation.
From AF Require Import Lib.Bytes Lib.Path Lib.Ops Gen.Consts Model.MemFile Model.MemFs Model.WfOps Model.Conc Model.ConcClass
  Proofs.BytesLemmas Proofs.MemFsPath Proofs.MemFsWF Proofs.MemBelow Proofs.MemFsStep Proofs.MemFsRename Proofs.MemFsBelow
  Proofs.MemFsInv Proofs.MemRenameChain Proofs.ConcProof.
Local Open Scope Z_scope.

(* ================================================================== names and kinds *)
Lemma first_is_excl c1 c2 s : c1 <> c2 -> cc_first_is c1 s = true -> cc_first_is c2 s = false.
Proof.
  intros Hne. unfold cc_first_is. destruct s as [|x r]; [discriminate|]. intros H. apply N.eqb_eq in H. subst x.
  now apply N.eqb_neq.
Qed.

Lemma file_not_x p : cc_is_file_name p = true -> cc_is_x_name p = false.
Proof. apply first_is_excl. discriminate. Qed.
Lemma x_not_file p : cc_is_x_name p = true -> cc_is_file_name p = false.
Proof. apply first_is_excl. discriminate. Qed.
Lemma dir_name_inv p : cc_is_dir_name p = true -> cc_is_file_name p = false /\ cc_is_x_name p = false.
Proof. unfold cc_is_dir_name. intros H. apply andb_true_iff in H as [H1 H2]. now apply negb_true_iff in H1, H2. Qed.

Lemma root_is_dir_name : cc_is_dir_name s_slash = true.
Proof. reflexivity. Qed.

(* the kind of a name depends on its normal form only *)
Lemma base_norm p : canon (normalize_path p) -> cc_base (normalize_path p) = cc_base p.
Proof. intros Hc. unfold cc_base. now rewrite (canon_norm _ Hc). Qed.
Lemma file_name_norm p : canon (normalize_path p) -> cc_is_file_name (normalize_path p) = cc_is_file_name p.
Proof. intros Hc. unfold cc_is_file_name. now rewrite base_norm. Qed.
Lemma x_name_norm p : canon (normalize_path p) -> cc_is_x_name (normalize_path p) = cc_is_x_name p.
Proof. intros Hc. unfold cc_is_x_name. now rewrite base_norm. Qed.
Lemma dir_name_norm p : canon (normalize_path p) -> cc_is_dir_name (normalize_path p) = cc_is_dir_name p.
Proof. intros Hc. unfold cc_is_dir_name. now rewrite file_name_norm, x_name_norm. Qed.

Definition dirnames_above (k : str) : Prop := forall a, canon a -> below a k = true -> cc_is_dir_name a = true.

Lemma anc_walk_spec fuel : forall k, canon k -> (length k <= fuel)%nat -> cc_anc_walk fuel k = true -> dirnames_above k.
Proof.
  induction fuel as [|fu IH]; intros k Hc Hlen H a Ha Hb.
  - apply canon_nonempty in Hc. destruct k; [contradiction | cbn in Hlen; lia].
  - cbn [cc_anc_walk] in H. destruct (str_eq_dec k s_slash) as [->|Hne].
    + exfalso. now apply (below_not_root a s_slash Ha Hb).
    + assert (E : beqb (path_dir k) k = false) by (apply beqb_neq; exact (par_neq k Hc Hne)).
      rewrite E in H. cbn [orb] in H. apply andb_true_iff in H as [H1 H2].
      destruct (below_inv a k Ha Hc Hb) as [->|Hb']; [exact H1|].
      apply (IH (par k)); auto; [now apply canon_par|]. pose proof (par_shorter k Hc Hne). lia.
Qed.

Lemma anc_ok_spec k : canon k -> cc_anc_ok k = true -> dirnames_above k.
Proof. intros Hc H. apply (anc_walk_spec (length k) k Hc); [lia | exact H]. Qed.

(* the last component survives the re-keying of a descendant *)
Lemma split_last_slash_tail a t : exists d, split_last_aux (a ++ SLASH :: t) = Some (d, snd (path_split (SLASH :: t))).
Proof.
  induction a as [|c a IH].
  - cbn [app]. unfold path_split. cbn [split_last_aux]. change (N.eqb SLASH SLASH) with true.
    destruct (split_last_aux t) as [[d f]|]; eexists; reflexivity.
  - cbn [app split_last_aux]. destruct IH as [d ->]. eexists. reflexivity.
Qed.

Lemma base_app_slash a t : snd (path_split (a ++ SLASH :: t)) = snd (path_split (SLASH :: t)).
Proof. destruct (split_last_slash_tail a t) as [d H]. unfold path_split at 1. now rewrite H. Qed.

Lemma base_rw old new k : canon old -> canon new -> new <> s_slash -> canon k -> below old k = true ->
  cc_base (rw old new k) = cc_base k.
Proof.
  intros Ho Hn Hnr Hk Hb. destruct (rw_canon old new k Ho Hn Hnr Hk Hb) as [Hc _].
  unfold cc_base. rewrite (canon_norm _ Hc), (canon_norm _ Hk).
  apply below_spec in Hb as [t ->]. rewrite rw_app. now rewrite !base_app_slash.
Qed.

(* ================================================================== WF reads the tree part only *)
Lemma tree_get s s' r : cc_tree_of s = cc_tree_of s' ->
  option_map cc_node_tree (get_node s r) = option_map cc_node_tree (get_node s' r).
Proof.
  intros H. unfold cc_tree_of in H. inversion H as [[Hd Hh]]. unfold get_node. now rewrite <- !nth_error_map, Hh.
Qed.

Lemma tree_get_some s s' r n : cc_tree_of s = cc_tree_of s' -> get_node s r = Some n ->
  exists n', get_node s' r = Some n' /\ nname n' = nname n /\ ndir n' = ndir n /\ nhasdir n' = nhasdir n /\ nkids n' = nkids n.
Proof.
  intros H Hn. pose proof (tree_get s s' r H) as E. rewrite Hn in E. destruct (get_node s' r) as [n'|]; [|discriminate].
  cbn in E. unfold cc_node_tree in E. inversion E. exists n'. auto.
Qed.

Lemma WF_tree s s' : cc_tree_of s = cc_tree_of s' -> WF s -> WF s'.
Proof.
  intros H [H1 H2 H3 H4 H5 H6 H7].
  assert (Hd : mdata s' = mdata s) by (unfold cc_tree_of in H; now inversion H).
  assert (L : forall k, lookup s' k = lookup s k) by (intros; unfold lookup; now rewrite Hd).
  assert (Gn : forall r n, get_node s r = Some n -> exists n', get_node s' r = Some n' /\
             nname n' = nname n /\ ndir n' = ndir n /\ nhasdir n' = nhasdir n /\ nkids n' = nkids n)
    by (intros r n; now apply tree_get_some).
  assert (Gi : forall r n', get_node s' r = Some n' -> exists n, get_node s r = Some n /\
             nname n = nname n' /\ ndir n = ndir n' /\ nhasdir n = nhasdir n' /\ nkids n = nkids n')
    by (intros r n'; now apply tree_get_some).
  assert (N : forall r, node_name s' r = node_name s r).
  { intros r. unfold node_name. destruct (get_node s r) as [n|] eqn:E.
    - destruct (Gn r n E) as (n' & -> & E1 & _). exact E1.
    - destruct (get_node s' r) as [n'|] eqn:E'; [|reflexivity]. destruct (Gi r n' E') as (n & Hn & _). congruence. }
  split.
  - now rewrite Hd.
  - intros k r. rewrite L. apply H2.
  - intros k r. rewrite L. intros Hk. destruct (H3 k r Hk) as (n & Hn & Hl & Hdd & Hnd).
    destruct (Gn r n Hn) as (n' & Hn' & E1 & E2 & E3 & E4). exists n'. rewrite L, E1, E2, E3, E4. auto.
  - intros k r. rewrite L, N. apply H4.
  - destruct H5 as (r & n & Hl & Hn & Hnm & Hdd). destruct (Gn r n Hn) as (n' & Hn' & E1 & E2 & E3 & E4).
    exists r, n'. rewrite L, E1, E2. auto.
  - intros k r. rewrite L, N. intros Hk Hn Hr Hp Hdd. destruct (H6 k r Hk Hn Hr Hp Hdd) as (p & pn & Hl & Hpn & Hpd & Hg).
    destruct (Gn p pn Hpn) as (n' & Hn' & E1 & E2 & E3 & E4). exists p, n'. rewrite L, E2, E4. auto.
  - intros d p pn' name r. rewrite !L, N. intros Hdl Hp Hk.
    destruct (Gi p pn' Hp) as (pn & Hpn & E1 & E2 & E3 & E4). rewrite <- E4 in Hk. apply (H7 d p pn name r Hdl Hpn Hk).
Qed.

(* ================================================================== the kinds of the existing names *)
Definition KI (s : mst) : Prop :=
  forall k r n, lookup s k = Some r -> get_node s r = Some n -> ndir n = negb (cc_is_file_name k).

Lemma kinds_ok_KI s : cc_kinds_ok s = true -> KI s.
Proof.
  intros H k r n Hl Hn. unfold cc_kinds_ok in H. rewrite forallb_forall in H. specialize (H (k, r) (aget_in _ _ _ Hl)).
  unfold cc_kind_ok in H. cbn [fst snd] in H. rewrite Hn in H. now apply eqb_prop in H.
Qed.

Lemma KI_tree s s' : cc_tree_of s = cc_tree_of s' -> KI s -> KI s'.
Proof.
  intros H K k r n' Hl Hn'. symmetry in H.
  assert (Hd : mdata s' = mdata s) by (unfold cc_tree_of in H; now inversion H).
  unfold lookup in Hl. rewrite Hd in Hl.
  destruct (tree_get_some s' s r n' H Hn') as (n & Hn & _ & E & _). rewrite <- E. exact (K k r n Hl Hn).
Qed.

(* a state whose names and kinds come from another one *)
Definition sub_state (s s' : mst) : Prop :=
  (forall k r, lookup s' k = Some r -> lookup s k = Some r) /\
  (forall r n', get_node s' r = Some n' -> exists n, get_node s r = Some n /\ ndir n' = ndir n).

Lemma KI_sub s s' : sub_state s s' -> KI s -> KI s'.
Proof. intros [Hl Hn] K k r n' Hk Hr. destruct (Hn r n' Hr) as (n & Hn0 & ->). exact (K k r n (Hl k r Hk) Hn0). Qed.

(* ================================================================== the invariant *)
Definition absent_all (G : list str) (s : mst) : Prop := forall y, In y G -> lookup s y = None.

Record TI (G : list str) (s : mst) : Prop := mkTI { ti_wf : WF s; ti_k : KI s; ti_x : absent_all G s }.

(* an x target: an x name whose proper ancestors are directory names *)
Definition xpath (y : str) : Prop := canon y /\ cc_is_x_name y = true /\ dirnames_above y.

Lemma TI_tree G s s' : cc_tree_of s = cc_tree_of s' -> TI G s -> TI G s'.
Proof.
  intros H [W K X]. split; [eapply WF_tree; eauto | eapply KI_tree; eauto |].
  intros y Hy. assert (Hd : mdata s' = mdata s) by (unfold cc_tree_of in H; now inversion H).
  unfold lookup. rewrite Hd. now apply X.
Qed.

Lemma TI_incl G G' s : incl G' G -> TI G s -> TI G' s.
Proof. intros Hi [W K X]. split; auto. intros y Hy. apply X. now apply Hi. Qed.

Lemma absent_sub G s s' : sub_state s s' -> absent_all G s -> absent_all G s'.
Proof.
  intros [Hl _] X y Hy. destruct (lookup s' y) as [r|] eqn:E; [|reflexivity]. apply Hl in E. rewrite (X y Hy) in E. discriminate.
Qed.

Lemma typed_anc_dirs s k : WF s -> KI s -> dirnames_above k ->
  forall a r n, below a k = true -> lookup s a = Some r -> get_node s r = Some n -> ndir n = true.
Proof.
  intros W K Hd a r n Hb Hl Hn. pose proof (g_canon _ _ _ _ W a r Hl) as Ha.
  destruct (dir_name_inv a (Hd a Ha Hb)) as [Hf _]. rewrite (K a r n Hl Hn), Hf. reflexivity.
Qed.

Lemma WF_root_present s : WF s -> lookup s s_slash <> None.
Proof. intros W. destruct (g_root _ _ _ _ W) as (r & n & Hl & _). congruence. Qed.

(* ================================================================== creating a name (and its missing ancestors) *)
Lemma TI_put_reg G s k n0 perm :
  Forall xpath G -> TI G s -> canon k -> lookup s k = None -> nname n0 = k -> ndir n0 = nhasdir n0 -> nkids n0 = [] ->
  ndir n0 = negb (cc_is_file_name k) -> cc_is_x_name k = false -> dirnames_above k ->
  TI G (reg (put_new s k n0) (length (mheap s)) perm).
Proof.
  intros HG [W K X] Hc Hfree Hnm Hdh Hkids Hkind Hnx Hanc.
  set (s2 := put_new s k n0). set (item := length (mheap s)).
  assert (Hkr : k <> s_slash) by (intros ->; now apply (WF_root_present s W)).
  assert (G2 : GWF (kadd kempty k) kempty kempty s2) by (apply GWF_new; auto).
  assert (L2 : forall k', lookup s2 k' = if beqb k k' then Some item else lookup s k') by (intros; apply lookup_put_new).
  assert (Lk : lookup s2 k = Some item) by (rewrite L2, beqb_refl; reflexivity).
  assert (Gi2 : get_node s2 item = Some n0) by apply get_put_new_new.
  assert (Go2 : forall r, (r < length (mheap s))%nat -> get_node s2 r = get_node s r) by (intros; now apply get_put_new_old).
  assert (Nk : node_name s2 item = k) by (unfold node_name; now rewrite Gi2).
  destruct (register_chain (S (length (node_name s2 item))) (kadd kempty k) s2 k item perm) as [G3 F3]; auto.
  { rewrite Nk. lia. }
  { intros x [[] | ->]. congruence. }
  { now right. }
  { intros a r n Hb Hl Hn. assert (Hak : a <> k) by (intros ->; rewrite below_irrefl in Hb; discriminate).
    rewrite L2 in Hl. assert (E : beqb k a = false) by (apply beqb_neq; congruence). rewrite E in Hl.
    rewrite Go2 in Hn by (eapply GWF_lt; eauto). eapply typed_anc_dirs; eauto. }
  fold (reg s2 item perm) in G3, F3. set (s3 := reg s2 item perm) in *.
  assert (W3 : WF s3).
  { eapply GWF_to_WF; [| | |exact G3]; [intros x [[[]|Hx] Hx2]; contradiction | intros x [] | intros x []]. }
  split; [exact W3 | |].
  - intros k' r n' Hl Hn'. destruct (lookup s2 k') as [r2|] eqn:E2.
    + pose proof (rf_keep _ _ _ _ F3 k' r2 E2) as Hl3. rewrite Hl in Hl3. inversion Hl3; subst r2.
      rewrite L2 in E2. destruct (beqb k k') eqn:Ek.
      * apply beqb_eq in Ek. subst k'. inversion E2; subst r.
        destruct (rf_nodes _ _ _ _ F3 item n0 Gi2) as (n3 & Hn3 & En3). rewrite Hn' in Hn3. inversion Hn3; subst n3.
        destruct (with_kids_nil_fields _ _ En3) as (_ & -> & _). exact Hkind.
      * destruct (GWF_lookup_node _ _ _ _ _ _ W E2) as (n & Hn).
        assert (Hn2 : get_node s2 r = Some n) by (rewrite Go2; [exact Hn | now apply get_some_lt in Hn]).
        destruct (rf_nodes _ _ _ _ F3 r n Hn2) as (n3 & Hn3 & En3). rewrite Hn' in Hn3. inversion Hn3; subst n3.
        destruct (with_kids_nil_fields _ _ En3) as (_ & -> & _). exact (K k' r n E2 Hn).
    + destruct (rf_new _ _ _ _ F3 k' r Hl E2) as (Hb & n & Hn & En). rewrite Hn' in Hn. inversion Hn; subst n.
      apply (f_equal ndir) in En. cbn in En. rewrite En.
      pose proof (g_canon _ _ _ _ W3 k' r Hl) as Hc'. destruct (dir_name_inv k' (Hanc k' Hc' Hb)) as [-> _]. reflexivity.
  - intros y Hy. rewrite Forall_forall in HG. destruct (HG y Hy) as (Hcy & Hxy & Hay).
    destruct (lookup s3 y) as [r|] eqn:E3; [exfalso|reflexivity].
    assert (Hky : k <> y) by (intros ->; congruence).
    assert (E2 : lookup s2 y = None). { rewrite L2. assert (E : beqb k y = false) by now apply beqb_neq. rewrite E. now apply X. }
    destruct (rf_new _ _ _ _ F3 y r E3 E2) as (Hb & _). destruct (dir_name_inv y (Hanc y Hcy Hb)) as [_ Hx]. congruence.
Qed.

Ltac split_andb :=
  repeat match goal with
         | H : (_ && _)%bool = true |- _ => apply andb_true_iff in H; destruct H
         end.

Lemma typed_below_file s k : WF s -> KI s -> canon k -> dirnames_above k -> below_file s k = false.
Proof.
  intros W K Hc Hanc. apply below_file_anc_dirs; [exact Hc|]. intros a r n Ha Hcase Hl Hn.
  destruct (str_eq_dec a s_slash) as [->|Hane].
  - destruct (g_root _ _ _ _ W) as (r0 & n0 & Hl0 & Hn0 & _ & Hd0). congruence.
  - assert (Hb : below a k = true).
    { destruct (str_eq_dec k s_slash) as [->|Hkr].
      - exfalso. rewrite par_root in Hcase. destruct Hcase as [E|[E|E]]; try contradiction.
        now apply (below_not_root a s_slash Ha E).
      - apply below_step; auto. destruct Hcase as [E|[E|E]]; [now left | now right | contradiction]. }
    eapply typed_anc_dirs; eauto.
Qed.

Lemma wf_name_canon p : wf_name p = true -> canon (normalize_path p).
Proof. apply canon_normalize. Qed.

Lemma TI_alloc_handle G s h : TI G s -> TI G (fst (alloc_handle s h)).
Proof. apply TI_tree. reflexivity. Qed.

Lemma TI_attr G s r g : (forall n, cc_node_tree (g n) = cc_node_tree n) -> TI G s -> TI G (upd_node s r g).
Proof. intros Hg. apply TI_tree. symmetry. now apply tree_upd_node. Qed.

(* ---------- Create ---------- *)
Lemma wtq_file_name p : wf_name p = true -> cc_is_file_name p = true ->
  canon (normalize_path p) /\ cc_is_file_name (normalize_path p) = true /\ normalize_path p <> s_slash.
Proof.
  intros Hn Hf. pose proof (wf_name_canon p Hn) as Hc. split; [exact Hc|]. rewrite (file_name_norm p Hc). split; [exact Hf|].
  intros E. rewrite <- (file_name_norm p Hc), E in Hf. discriminate.
Qed.

Lemma TI_new_file G s k perm m :
  Forall xpath G -> TI G s -> canon k -> cc_is_file_name k = true -> dirnames_above k -> lookup s k = None ->
  TI G (reg (put_new s k (with_mode m (new_file k (mclock s)))) (length (mheap s)) perm).
Proof.
  intros HG T Hc Hf Hanc Hl. apply TI_put_reg; auto; cbn; try reflexivity; [now rewrite Hf | now apply file_not_x].
Qed.

Lemma TI_create G s p : Forall xpath G -> TI G s -> cc_wtq_op (Create p) = true ->
  TI G (fst (m_create s (normalize_path p))).
Proof.
  intros HG T Hcl. unfold cc_wtq_op in Hcl. cbn [cc_wt_op cc_names_ok] in Hcl. split_andb.
  destruct (wtq_file_name p) as (Hc & Hf & Hkr); auto.
  set (k := normalize_path p) in *. assert (Hanc : dirnames_above k) by now apply anc_ok_spec.
  pose proof T as [W K X]. unfold m_create. rewrite (canon_norm k Hc).
  destruct (lookup s k) as [f|] eqn:Hl.
  - destruct (GWF_lookup_node _ _ _ _ _ _ W Hl) as (n & Hn). rewrite Hn.
    rewrite (K k f n Hl Hn), Hf. cbn [negb]. unfold alloc_handle. cbn [fst].
    eapply TI_tree; [|apply (TI_attr G s f (fun n => with_mtime (mclock s) (with_data [] n))); [intros; reflexivity | exact T]].
    reflexivity.
  - rewrite (typed_below_file s k W K Hc Hanc). rewrite m_create_node_eq. unfold alloc_handle. cbn [fst].
    eapply TI_tree; [|apply (TI_new_file G s k 0 mode_temporary HG T Hc Hf Hanc Hl)]. reflexivity.
Qed.

(* ---------- OpenFile with O_CREATE: lockfreeOpenOrCreate ---------- *)
Lemma TI_open_or_create G s p fl pm s' x : Forall xpath G -> TI G s -> cc_wtq_op (OpenFile p fl pm) = true ->
  cc_open_or_create s (normalize_path p) fl (Z.land pm chmod_bits) = inr (s', x) -> TI G s'.
Proof.
  intros HG T Hcl Hoc. unfold cc_wtq_op in Hcl. cbn [cc_wt_op cc_names_ok] in Hcl. split_andb.
  destruct (wtq_file_name p) as (Hc & Hf & Hkr); auto.
  set (k := normalize_path p) in *. assert (Hanc : dirnames_above k) by now apply anc_ok_spec.
  unfold cc_open_or_create in Hoc. destruct (lookup s k) as [x0|] eqn:Hl.
  - destruct (flag_has fl o_excl); [discriminate|]. inversion Hoc; subst. exact T.
  - destruct (below_file s k); [discriminate|]. unfold alloc_node in Hoc. inversion Hoc; subst s' x.
    apply (TI_new_file G s k 0 (Z.land pm chmod_bits) HG T Hc Hf Hanc Hl).
Qed.

(* ---------- Mkdir / MkdirAll: the write-locked section ---------- *)
Lemma TI_mkdir_body G s p pm : Forall xpath G -> TI G s ->
  cc_wtq_op (Mkdir p pm) = true \/ cc_wtq_op (MkdirAll p pm) = true -> lookup s (normalize_path p) = None ->
  TI G (cc_mkdir_body s (normalize_path p) (Z.land pm chmod_bits)).
Proof.
  intros HG T Hcl Hl.
  assert (Hcl' : cc_is_dir_name p = true /\ wf_name p = true /\ cc_anc_ok (normalize_path p) = true).
  { destruct Hcl as [Hcl|Hcl]; unfold cc_wtq_op in Hcl; cbn [cc_wt_op cc_names_ok] in Hcl; split_andb; auto. }
  destruct Hcl' as (Hd & Hn & Ha). pose proof (wf_name_canon p Hn) as Hc.
  rewrite <- (dir_name_norm p Hc) in Hd. set (k := normalize_path p) in *.
  destruct (dir_name_inv k Hd) as [Hf Hx].
  apply (TI_put_reg G s k (mkdir_node k (Z.land pm chmod_bits) (mclock s)) (Z.land pm chmod_bits)); auto; cbn; try reflexivity.
  - now rewrite Hf.
  - now apply anc_ok_spec.
Qed.

(* ---------- Remove / RemoveAll only take names away ---------- *)
Lemma sub_state_refl s : sub_state s s.
Proof. split; [auto|]. intros r n Hn. now exists n. Qed.

Lemma sub_state_trans s1 s2 s3 : sub_state s1 s2 -> sub_state s2 s3 -> sub_state s1 s3.
Proof.
  intros [L1 N1] [L2 N2]. split; [auto|]. intros r n3 H3. destruct (N2 r n3 H3) as (n2 & H2 & E2).
  destruct (N1 r n2 H2) as (n1 & H1 & E1). exists n1. split; [exact H1 | congruence].
Qed.

Lemma sub_state_kids s p g : (forall n, ndir (g n) = ndir n) -> sub_state s (upd_node s p g).
Proof.
  intros Hg. split; [intros k r; now rewrite lookup_upd|]. intros r n'. rewrite get_upd. destruct (Nat.eqb p r) eqn:E.
  - apply Nat.eqb_eq in E. subst r. destruct (get_node s p) as [n|]; [|discriminate]. cbn. intros H. inversion H; subst n'.
    exists n. auto.
  - intros H. now exists n'.
Qed.

Lemma unregister_sub s name s1 b : unregister s name = Some (s1, b) -> sub_state s s1.
Proof.
  unfold unregister. destruct (lockfree_open s name) as [f|]; [|intros H; inversion H; apply sub_state_refl].
  destruct (find_parent s f) as [p|]; [|discriminate]. destruct (get_node s p) as [pn|]; [|discriminate].
  destruct (nhasdir pn); [|discriminate]. intros H. inversion H; subst. apply sub_state_kids. intros; reflexivity.
Qed.

Lemma sub_state_keys s d : (forall k r, alist_get k d = Some r -> lookup s k = Some r) -> sub_state s (set_data s d).
Proof. intros H. split; [exact H|]. intros r n Hn. now exists n. Qed.

Lemma m_remove_sub s p : sub_state s (fst (m_remove s p)).
Proof.
  unfold m_remove. destruct (lookup s (normalize_path p)); [|apply sub_state_refl].
  destruct (unregister s (normalize_path p)) as [[s1 [|]]|] eqn:Hu; cbn [fst]; try apply sub_state_refl.
  - eapply sub_state_trans; [exact (unregister_sub _ _ _ _ Hu)|]. apply sub_state_keys. intros k r.
    rewrite aget_del. destruct (beqb (normalize_path p) k); [discriminate | auto].
  - exact (unregister_sub _ _ _ _ Hu).
Qed.

Lemma m_removeall_sub s p : sub_state s (fst (m_removeall s p)).
Proof.
  unfold m_removeall. destruct (unregister s (normalize_path p)) as [[s1 b]|] eqn:Hu; cbn [fst]; [|apply sub_state_refl].
  eapply sub_state_trans; [exact (unregister_sub _ _ _ _ Hu)|]. apply sub_state_keys. intros k r.
  rewrite (aget_filter (fun x => negb (under (normalize_path p) x)) k (mdata s1)).
  destruct (negb (under (normalize_path p) k)); [auto | discriminate].
Qed.

Lemma TI_sub G s s' : sub_state s s' -> WF s' -> TI G s -> TI G s'.
Proof. intros Hs W' [W K X]. split; [exact W' | eapply KI_sub; eauto | eapply absent_sub; eauto]. Qed.

Lemma TI_remove G s p : TI G s -> cc_wtq_op (Remove p) = true -> TI G (fst (m_remove s (normalize_path p))).
Proof.
  intros T Hcl. unfold cc_wtq_op in Hcl. cbn [cc_wt_op cc_names_ok] in Hcl. split_andb.
  destruct (wtq_file_name p) as (Hc & Hf & Hkr); auto. set (k := normalize_path p) in *.
  apply (TI_sub G s); [apply m_remove_sub | | exact T]. pose proof T as [W K X].
  destruct (lookup s k) as [f|] eqn:Hl.
  - apply WF_remove; [exact W|]. cbn [wf_op_ord]. unfold wf_name. rewrite (canon_norm k Hc).
    destruct Hc as [_ Hr]. rewrite Hr. assert (E : beqb k s_slash = false) by now apply beqb_neq. rewrite E. cbn [negb andb].
    destruct (GWF_lookup_node _ _ _ _ _ _ W Hl) as (n & Hn). unfold kind_at. rewrite Hl, Hn, (K k f n Hl Hn), Hf. reflexivity.
  - unfold m_remove. rewrite (canon_norm k Hc), Hl. exact W.
Qed.

(* RemoveAll of any name but the root keeps WF (WF_removeall without its unused precondition) *)
Lemma WF_removeall_any s k : WF s -> canon k -> k <> s_slash -> WF (fst (m_removeall s k)).
Proof.
  intros W Hc Hroot. unfold m_removeall. rewrite (canon_norm k Hc). destruct (lookup s k) as [f|] eqn:Hl.
  - pose proof (WF_fresh s k f W Hl) as Hname.
    destruct (GWF_unregister kempty kempty kempty s k f W Hl Hname Hroot) as (q & qn & Hq & Hqn & Hqd & Hun & G1); [intros [] | intros [] |].
    rewrite Hun. cbn [fst]. apply (GWF_prune (kadd kempty k)); auto.
    + intros x [[]|Hx]; exact Hx.
    + intros _. now right.
  - assert (Hun : unregister s k = Some (s, false)).
    { unfold unregister. now rewrite (lockfree_open_canon s k Hc), Hl. }
    rewrite Hun. cbn [fst]. apply (GWF_prune kempty); auto; [intros x [] | intros Hx; congruence].
Qed.

Lemma TI_removeall G s p : TI G s -> cc_wtq_op (RemoveAll p) = true -> TI G (fst (m_removeall s (normalize_path p))).
Proof.
  intros T Hcl. unfold cc_wtq_op in Hcl. cbn [cc_wt_op cc_names_ok] in Hcl. split_andb.
  apply (TI_sub G s); [apply m_removeall_sub | | exact T]. apply WF_removeall_any; [apply T | now apply wf_name_canon |].
  unfold cc_is_root in *. apply beqb_neq. now apply negb_true_iff.
Qed.

(* ---------- Rename ---------- *)
Lemma atbelow_dec a x : {atbelow a x} + {~ atbelow a x}.
Proof.
  unfold atbelow. destruct (str_eq_dec x a) as [E|E]; [left; now left|].
  destruct (below a x) eqn:Hb; [left; now right | right; intros [H|H]; [contradiction | discriminate]].
Qed.

(* the source of a name at or below the target *)
Lemma atbelow_rw_back old new k' : atbelow new k' -> exists k0, atbelow old k0 /\ rw old new k0 = k' /\ (k0 = old <-> k' = new).
Proof.
  intros [->|Hb].
  - exists old. split; [now left|]. split; [apply rw_self | tauto].
  - apply below_spec in Hb as [t ->]. exists (old ++ SLASH :: t). split; [right; apply below_spec; now exists t|].
    split; [apply rw_app|]. split; intros E; exfalso.
    + assert (Hlen := f_equal (@length _) E). rewrite app_length in Hlen. cbn in Hlen. lia.
    + assert (Hlen := f_equal (@length _) E). rewrite app_length in Hlen. cbn in Hlen. lia.
Qed.

Lemma m_rename_unchanged_missing s p q : lookup s (normalize_path p) = None -> fst (m_rename s p q) = s.
Proof. intros Hl. unfold m_rename. rewrite Hl. now destruct (_ && _ && _)%bool. Qed.

Lemma TI_rename G G' s p q : Forall xpath G -> TI G s -> cc_wtq_op (Rename p q) = true ->
  (cc_is_x_name q = true -> In (normalize_path q) G) ->
  incl G' G -> (cc_is_x_name q = true -> ~ In (normalize_path q) G') ->
  TI G' (fst (m_rename s (normalize_path p) q)).
Proof.
  intros HG T Hcl HxG Hincl HxG'. unfold cc_wtq_op in Hcl. cbn [cc_wt_op cc_names_ok] in Hcl. split_andb.
  match goal with H : wf_name p = true |- _ => pose proof (wf_name_canon p H) as Ho end.
  match goal with H : wf_name q = true |- _ => pose proof (wf_name_canon q H) as Hn end.
  match goal with H : negb (cc_is_root p) = true |- _ => rename H into Hroot end.
  match goal with H : negb (below _ _) = true |- _ => rename H into Hb1 end.
  match goal with H : cc_anc_ok _ = true |- _ => pose proof (anc_ok_spec _ Hn H) as Hanc end.
  match goal with H : (_ || _)%bool = true |- _ => rename H into Hkinds end.
  set (old := normalize_path p) in *. set (new := normalize_path q) in *.
  assert (Hor : old <> s_slash) by (unfold cc_is_root in Hroot; apply beqb_neq; now apply negb_true_iff).
  apply negb_true_iff in Hb1.
  (* the kinds of the two names *)
  assert (Hk : (cc_is_file_name old = true /\ cc_is_file_name new = true /\ cc_is_x_name new = false) \/
               (cc_is_file_name old = false /\ cc_is_file_name new = false /\ cc_is_x_name new = true)).
  { unfold old, new. rewrite !file_name_norm, x_name_norm by assumption. apply orb_true_iff in Hkinds as [Hk|Hk]; split_andb.
    - left. repeat split; auto. now apply file_not_x.
    - right. match goal with H : cc_is_dir_name p = true |- _ => destruct (dir_name_inv p H) as [Hf _] end.
      repeat split; auto. now apply x_not_file. }
  assert (Hxq : cc_is_x_name q = cc_is_x_name new) by (unfold new; now rewrite x_name_norm).
  rewrite Hxq in HxG, HxG'.
  pose proof T as [W K X].
  destruct (lookup s old) as [f|] eqn:Hl.
  2:{ rewrite (m_rename_unchanged_missing s old q) by (now rewrite (canon_norm old Ho)). now apply (TI_incl G). }
  destruct (beqb old new) eqn:Eon.
  { unfold m_rename. rewrite (canon_norm old Ho), Hl. fold new. rewrite Eon. cbn [fst]. now apply (TI_incl G). }
  assert (Hne : old <> new) by now apply beqb_neq.
  assert (Hnr : new <> s_slash).
  { intros E. rewrite E in Hk. destruct Hk as [(_ & Hf & _)|(_ & _ & Hx)]; discriminate. }
  assert (Hnodir : forall r n, lookup s new = Some r -> get_node s r = Some n -> ndir n = true -> False).
  { intros r n Hr Hnn Hd. destruct Hk as [(_ & Hf & _)|(_ & _ & Hx)].
    - rewrite (K new r n Hr Hnn), Hf in Hd. discriminate.
    - rewrite (X new (HxG Hx)) in Hr. discriminate. }
  assert (Hfree : forall k r, lookup s k = Some r -> below new k = false).
  { intros k r Hkk. destruct (below new k) eqn:Hb; [|reflexivity]. exfalso.
    pose proof (WF_ancestors_dirs s W k r Hkk new Hn Hb) as Hd. apply is_dir_at_true in Hd as (rn & nn & Hrn & Hnn & Hdd).
    eapply Hnodir; eauto. }
  assert (Hb2 : below new old = false) by (eapply Hfree; eauto).
  assert (Hpnew : forall a r n, below a new = true -> lookup s a = Some r -> get_node s r = Some n -> ndir n = true)
    by (eapply typed_anc_dirs; eauto).
  assert (Hbf : below_file s new = false) by now apply typed_below_file.
  assert (Ebody : m_rename s old q = RC.rename_body old new f s).
  { unfold m_rename, RC.rename_body. rewrite (canon_norm old Ho), Hl. fold new. rewrite Eon, Hbf. reflexivity. }
  rewrite Ebody.
  destruct (RC.rename_core_gen old new f Ho Hn Hor Hnr Hne Hb1 Hb2 s W Hl Hfree Hpnew) as (_ & W' & M).
  set (s' := fst (RC.rename_body old new f s)) in *.
  (* the file-name-ness of a moved name *)
  assert (Hfile : forall k0, canon k0 -> atbelow old k0 -> cc_is_file_name (rw old new k0) = cc_is_file_name k0).
  { intros k0 Hc0 [->|Hb]; [rewrite rw_self; destruct Hk as [(-> & -> & _)|(-> & -> & _)]; reflexivity|].
    unfold cc_is_file_name. now rewrite (base_rw old new k0 Ho Hn Hnr Hc0 Hb). }
  assert (Hnode : forall r n n', get_node s r = Some n -> get_node s' r = Some n' -> ndir n' = ndir n).
  { intros r n n' Hg1 Hg2. destruct (mc_nodes _ _ _ _ M r n Hg1) as (n2 & Hn2 & E). congruence. }
  split; [exact W' | |].
  - intros k' r n' Hl' Hn'. destruct (atbelow_dec new k') as [Hat|Hnat].
    + destruct (atbelow_rw_back old new k' Hat) as (k0 & Hat0 & Erw & _). rewrite <- Erw in Hl'.
      rewrite (mc_sub _ _ _ _ M k0 Hat0) in Hl'. destruct (GWF_lookup_node _ _ _ _ _ _ W Hl') as (n & Hnn).
      rewrite (Hnode r n n' Hnn Hn'), (K k0 r n Hl' Hnn), <- Erw, Hfile; [reflexivity | exact (g_canon _ _ _ _ W k0 r Hl') | exact Hat0].
    + destruct (atbelow_dec old k') as [Hat|Hnat'].
      * rewrite (mc_gone _ _ _ _ M k' Hat) in Hl'. discriminate.
      * destruct (mc_rest _ _ _ _ M k' Hnat' Hnat) as [E|(_ & Hb & r2 & n2 & Hr2 & Hn2 & Hd2)].
        -- rewrite E in Hl'. destruct (GWF_lookup_node _ _ _ _ _ _ W Hl') as (n & Hnn).
           rewrite (Hnode r n n' Hnn Hn'). exact (K k' r n Hl' Hnn).
        -- rewrite Hl' in Hr2. inversion Hr2; subst r2. rewrite Hn' in Hn2. inversion Hn2; subst n2. rewrite Hd2.
           pose proof (g_canon _ _ _ _ W' k' r Hl') as Hc'. destruct (dir_name_inv k' (Hanc k' Hc' Hb)) as [-> _]. reflexivity.
  - intros y Hy. pose proof (Hincl y Hy) as HyG. rewrite Forall_forall in HG. destruct (HG y HyG) as (Hcy & Hxy & Hay).
    destruct (lookup s' y) as [r|] eqn:E'; [exfalso|reflexivity].
    destruct (atbelow_dec new y) as [[->|Hb]|Hnat].
    + destruct Hk as [(_ & _ & Hx)|(_ & _ & Hx)]; [congruence | now apply (HxG' Hx)].
    + destruct (dir_name_inv new (Hay new Hn Hb)) as [Hf Hx]. destruct Hk as [(_ & Hf' & _)|(_ & _ & Hx')]; congruence.
    + destruct (atbelow_dec old y) as [Hat|Hnat'].
      * rewrite (mc_gone _ _ _ _ M y Hat) in E'. discriminate.
      * destruct (mc_rest _ _ _ _ M y Hnat' Hnat) as [E|(_ & Hb & _)].
        -- rewrite E, (X y HyG) in E'. discriminate.
        -- destruct (dir_name_inv y (Hanc y Hcy Hb)) as [_ Hx]. congruence.
Qed.

(* ================================================================== the transfer, with the pending rename targets as ghost *)
Definition A_cls (o : op) : Prop := cc_wtq_op o = true.

Definition is_ren_act (i : cc_instr) : bool := match i with CcAct ARenameT | CcAct ARename => true | _ => false end.
Definition ren_count (code : list cc_instr) : nat := length (filter is_ren_act code).
Definition is_rename_op (o : op) : bool := match o with Rename _ _ => true | _ => false end.

(* the x targets of the directory renames a thread has not carried out yet: those of the calls not yet
   started, and that of the running call as long as its code still contains Rename's sections *)
Definition pend_th (th : cc_thread) : list str :=
  (if th_active th && existsb is_ren_act (th_code th) then cc_xt_op (fr_op (th_fr th)) else []) ++ cc_xt_ops (th_prog th).
Definition pend (c : cc_cfg) : list str := flat_map pend_th (cf_threads c).

Definition th_ok (th : cc_thread) : Prop :=
  Forall A_cls (th_prog th) /\
  (th_active th = true ->
   A_cls (fr_op (th_fr th)) /\ cc_code_for (fr_op (th_fr th)) (th_code th) = true /\
   (is_rename_op (fr_op (th_fr th)) = true -> (ren_count (th_code th) <= 1)%nat)).

Definition J (c : cc_cfg) : Prop :=
  cf_legacy c = false /\ TI (pend c) (cf_st c) /\ NoDup (pend c) /\
  forall t th, nth_error (cf_threads c) t = Some th -> th_ok th.

(* ---------- lists ---------- *)
Lemma flat_map_list_set {A B} (g : A -> list B) l : forall t x y, nth_error l t = Some x ->
  exists l1 l2, flat_map g l = l1 ++ g x ++ l2 /\ flat_map g (list_set t y l) = l1 ++ g y ++ l2.
Proof.
  induction l as [|a l IH]; intros [|t] x y H; cbn in H; try discriminate.
  - inversion H; subst a. exists [], (flat_map g l). split; reflexivity.
  - destruct (IH t x y H) as (l1 & l2 & E1 & E2). exists (g a ++ l1), l2. cbn [flat_map list_set].
    rewrite E1, E2, <- !app_assoc. split; reflexivity.
Qed.

Lemma nodup_drop {A} (l1 X Y : list A) : NoDup (l1 ++ X ++ Y) -> NoDup (l1 ++ Y) /\ forall x, In x X -> ~ In x (l1 ++ Y).
Proof.
  induction X as [|a X IH]; cbn [app]; intros H; [split; [exact H | intros x []]|].
  apply NoDup_remove in H as [H1 H2]. destruct (IH H1) as [H3 H4]. split; [exact H3|].
  intros x [<-|Hx]; [|now apply H4]. intros Hin. apply H2. rewrite !in_app_iff in *. tauto.
Qed.

Lemma ren_count_zero l : ren_count l = 0%nat -> existsb is_ren_act l = false.
Proof.
  unfold ren_count. induction l as [|i l IH]; [reflexivity|]. cbn [filter existsb]. destruct (is_ren_act i); cbn; [discriminate | exact IH].
Qed.

Lemma ren_count_app a b : ren_count (a ++ b) = (ren_count a + ren_count b)%nat.
Proof. unfold ren_count. now rewrite filter_app, app_length. Qed.

Lemma ren_count_lockonly code : cc_lockonly code = true -> ren_count code = 0%nat.
Proof.
  unfold cc_lockonly, ren_count. induction code as [|i code IH]; [reflexivity|]. cbn [forallb filter]. intros H.
  apply andb_true_iff in H as [H1 H2]. destruct i; try discriminate; cbn; auto.
Qed.

Lemma ren_count_tl code : (ren_count (tl code) <= ren_count code)%nat.
Proof. destruct code as [|i code]; [auto|]. unfold ren_count. cbn [tl filter]. destruct (is_ren_act i); cbn; lia. Qed.

(* ---------- what the class says about the x target of a call ---------- *)
Lemma xt_op_xpath o : A_cls o -> Forall xpath (cc_xt_op o).
Proof.
  intros Ho. destruct o as [| | | | | | |p0 q0| | | | | | | | | | | | | | | | |]; cbn [cc_xt_op]; try constructor.
  destruct (cc_is_x_name q0) eqn:Hx; constructor; [|constructor].
  unfold A_cls, cc_wtq_op in Ho. cbn [cc_wt_op cc_names_ok] in Ho. split_andb.
  match goal with H : wf_name q0 = true |- _ => pose proof (wf_name_canon _ H) as Hc end.
  split; [exact Hc|]. split; [now rewrite x_name_norm | now apply anc_ok_spec].
Qed.

Lemma xt_ops_xpath ops : Forall A_cls ops -> Forall xpath (cc_xt_ops ops).
Proof.
  intros H. unfold cc_xt_ops. induction H as [|o ops Ho _ IH]; [constructor|]. cbn [flat_map].
  apply Forall_app. split; [now apply xt_op_xpath | exact IH].
Qed.

Lemma pend_th_xpath th : th_ok th -> Forall xpath (pend_th th).
Proof.
  intros [Hp Ha]. unfold pend_th. apply Forall_app. split; [|now apply xt_ops_xpath].
  destruct (th_active th) eqn:E; [|constructor]. cbn [andb]. destruct (existsb _ _); [|constructor].
  apply xt_op_xpath. now apply Ha.
Qed.

Lemma pend_xpath c : (forall t th, nth_error (cf_threads c) t = Some th -> th_ok th) -> Forall xpath (pend c).
Proof.
  intros H. unfold pend. apply Forall_forall. intros y Hy. apply in_flat_map in Hy as (th & Hin & Hy).
  apply In_nth_error in Hin as [t Hn]. pose proof (pend_th_xpath th (H t th Hn)) as Hf. rewrite Forall_forall in Hf. auto.
Qed.

Lemma pend_th_in c t th y : nth_error (cf_threads c) t = Some th -> In y (pend_th th) -> In y (pend c).
Proof. intros Hn Hy. unfold pend. apply in_flat_map. exists th. split; [eapply nth_error_In; eauto | exact Hy]. Qed.

(* ---------- re-establishing J after a step of thread t ---------- *)
Lemma J_upd c c' t th th' :
  J c -> nth_error (cf_threads c) t = Some th ->
  cf_legacy c' = false -> cf_threads c' = list_set t th' (cf_threads c) ->
  th_ok th' -> pend_th th' = pend_th th -> TI (pend c) (cf_st c') -> J c'.
Proof.
  intros (Hlg & T & Hnd & Hall) Hn Hlg' Hth Hok Hpe T'.
  assert (Ep : pend c' = pend c).
  { unfold pend. rewrite Hth. destruct (flat_map_list_set pend_th (cf_threads c) t th th' Hn) as (l1 & l2 & E1 & E2).
    rewrite E1, E2, Hpe. reflexivity. }
  split; [exact Hlg'|]. rewrite Ep. split; [exact T'|]. split; [exact Hnd|].
  rewrite Hth. eapply threads_set; eauto.
Qed.

Lemma J_drop c c' t th th' X :
  J c -> nth_error (cf_threads c) t = Some th ->
  cf_legacy c' = false -> cf_threads c' = list_set t th' (cf_threads c) ->
  th_ok th' -> pend_th th = X ++ pend_th th' ->
  (forall G', incl G' (pend c) -> (forall x, In x X -> ~ In x G') -> TI G' (cf_st c')) -> J c'.
Proof.
  intros (Hlg & T & Hnd & Hall) Hn Hlg' Hth Hok Hpe T'.
  destruct (flat_map_list_set pend_th (cf_threads c) t th th' Hn) as (l1 & l2 & E1 & E2).
  fold (pend c) in E1. rewrite <- Hth in E2. fold (pend c') in E2. rewrite Hpe, <- app_assoc in E1.
  rewrite E1 in Hnd. destruct (nodup_drop l1 X (pend_th th' ++ l2) Hnd) as [Hnd' Hnot].
  split; [exact Hlg'|]. rewrite E2. split; [|split; [exact Hnd'|]].
  - apply T'; [|exact Hnot]. rewrite E1. intros y Hy. rewrite !in_app_iff in *. tauto.
  - rewrite Hth. eapply threads_set; eauto.
Qed.

(* ---------- the sections ---------- *)
Definition A_nr (o : op) : Prop := A_cls o /\ is_rename_op o = false.

(* every section but Rename's two: cc_sem_P with the ghost fixed *)
Lemma cc_sem_TI G a f s : Forall xpath G -> A_nr (fr_op f) -> cc_aid_for a (fr_op f) = true -> TI G s ->
  match cc_sem a f s with CcCont s' _ _ => TI G s' | CcPanic s' => TI G s' end.
Proof.
  intros HG. apply (cc_sem_P (TI G) A_nr).
  - intros s0 s1. apply TI_tree.
  - intros s0 p [Ha _] T. now apply TI_create.
  - intros s0 p fl pm s' x [Ha _] Hoc T. eapply TI_open_or_create; eauto.
  - intros s0 p [Ha _] T. now apply TI_removeall.
  - intros s0 p pm Ha Hl T. apply TI_mkdir_body; auto. destruct Ha as [[Ha _]|[Ha _]]; auto.
  - intros s0 p [Ha _] T. now apply TI_remove.
  - intros s0 p q [_ Ha]. discriminate.
Qed.

Lemma xt_op_nonrename o : is_rename_op o = false -> cc_xt_op o = [].
Proof. destruct o; try reflexivity. discriminate. Qed.

Lemma aid_nonrename a o : cc_aid_for a o = true -> is_ren_act (CcAct a) = false -> is_rename_op o = false.
Proof. intros Ha Hr. destruct o; try reflexivity. destruct a; try discriminate Ha; discriminate Hr. Qed.

Lemma aid_rename a o : cc_aid_for a o = true -> is_ren_act (CcAct a) = true -> exists p q, o = Rename p q.
Proof. intros Ha Hr. destruct a; try discriminate Hr; destruct o; try discriminate Ha; eauto. Qed.

Lemma tick_tree s : cc_tree_of (cc_tick s) = cc_tree_of s.
Proof. reflexivity. Qed.

Lemma pend_th_eq th th' :
  th_prog th' = th_prog th -> th_active th' = th_active th -> fr_op (th_fr th') = fr_op (th_fr th) ->
  existsb is_ren_act (th_code th') = existsb is_ren_act (th_code th) -> pend_th th' = pend_th th.
Proof. intros H1 H2 H3 H4. unfold pend_th. now rewrite H1, H2, H3, H4. Qed.

Lemma th_ok_tl th th' :
  th_ok th -> th_prog th' = th_prog th -> th_active th' = th_active th -> th_fr th' = th_fr th ->
  (th_code th' = tl (th_code th) \/ th_code th' = th_code th) -> th_ok th'.
Proof.
  intros [Hp Ha] H1 H2 H3 H4. split; [now rewrite H1|]. rewrite H2, H3. intros Hact. destruct (Ha Hact) as (HA & Hcf & Hrc).
  split; [exact HA|]. destruct H4 as [-> | ->]; (split; [|intros Hr; specialize (Hrc Hr)]); auto.
  - now apply forallb_tl.
  - pose proof (ren_count_tl (th_code th)). lia.
Qed.

Lemma existsb_tl_lock (i : cc_instr) r : is_ren_act i = false -> existsb is_ren_act (tl (i :: r)) = existsb is_ren_act (i :: r).
Proof. intros H. cbn [tl existsb]. now rewrite H. Qed.

Ltac lgl := cbn [cf_legacy cf_set_thread]; first [reflexivity | assumption].

Lemma conc_step_J c t : J c -> J (cc_step c t).
Proof.
  intros HJ. pose proof HJ as (Hlg & T & Hnd & Hall). unfold cc_step. rewrite Hlg. destruct (cc_enabled c t); cbn [negb]; [|exact HJ].
  destruct (nth_error (cf_threads c) t) as [th|] eqn:Hn; [|exact HJ].
  pose proof (Hall t th Hn) as Hok. pose proof Hok as [Hprog Hact].
  assert (HG : Forall xpath (pend c)) by now apply pend_xpath.
  destruct (cc_next_of th) eqn:Hnx; [ | | | |exact HJ].
  - (* a call starts *)
    apply next_start in Hnx as (Hina & o & rest & Hp). rewrite Hp.
    destruct (cc_begin false o (th_slots th)) as [f code] eqn:Hb.
    pose proof (cc_begin_for o (th_slots th)) as [H1 H2]. rewrite Hb in H1, H2. cbn [fst snd] in H1, H2.
    rewrite Hp in Hprog. inversion Hprog as [|? ? HAo Hrest]; subst.
    eapply (J_upd c _ t th); [exact HJ | exact Hn | lgl | reflexivity | | | exact T].
    + split; cbn [th_prog th_active th_fr th_code]; [exact Hrest|]. intros _. split; [exact HAo|]. split; [exact H2|].
      intros Hr. destruct (fr_op f); try discriminate Hr. cbn in Hb. inversion Hb; subst. cbn. lia.
    + unfold pend_th. cbn [th_prog th_active th_fr th_code]. rewrite Hina, Hp. cbn [andb app cc_xt_ops flat_map].
      destruct (is_rename_op (fr_op f)) eqn:Hr.
      * destruct (fr_op f); try discriminate Hr. cbn in Hb. inversion Hb; subst. reflexivity.
      * rewrite (xt_op_nonrename _ Hr). now destruct (existsb is_ren_act code).
  - (* an instruction *)
    apply next_instr in Hnx as (Hactive & r & Hc). destruct (Hact Hactive) as (HA & Hcf & Hrc).
    destruct i as [l x|l|l|a].
    + unfold cc_acquire. destruct l; (eapply (J_upd c _ t th); [exact HJ | exact Hn | lgl | reflexivity | | | exact T];
        [eapply th_ok_tl; eauto | apply pend_th_eq; try reflexivity; cbn [th_code th_set_held th_set_code]; rewrite Hc; reflexivity]).
    + destruct (cc_release_shape c t (th_set_code th (tl (th_code th))) l) as (Hs & x & Hx & Hp & Ha & Hf & Hcd & _).
      eapply (J_upd c _ t th); [exact HJ | exact Hn | now rewrite cc_release_legacy | exact Hx | | | now rewrite Hs].
      * eapply th_ok_tl; eauto.
      * apply pend_th_eq; auto; [now rewrite Hf|]. rewrite Hcd. cbn [th_code th_set_code]. rewrite Hc. reflexivity.
    + eapply (J_upd c _ t th); [exact HJ | exact Hn | lgl | reflexivity | | | exact T];
        [eapply th_ok_tl; eauto | apply pend_th_eq; try reflexivity; cbn [th_code th_set_defers th_set_code]; rewrite Hc; reflexivity].
    + (* a section *)
      rewrite Hc in Hcf. cbn [cc_code_for forallb] in Hcf. apply andb_true_iff in Hcf as [Hfa Hcr].
      pose proof (cc_sem_for a (th_fr th) (cf_st c) Hfa) as Hfor.
      cbn [th_code th_set_code]. rewrite Hc. cbn [tl].
      destruct (is_ren_act (CcAct a)) eqn:Hra.
      * (* Rename's sections *)
        destruct (aid_rename a _ Hfa Hra) as (p & q & Hop).
        assert (Hrc1 : ren_count r = 0%nat).
        { specialize (Hrc ltac:(now rewrite Hop)). rewrite Hc in Hrc. unfold ren_count in *. cbn [filter] in Hrc. rewrite Hra in Hrc. cbn in Hrc. lia. }
        destruct a; try discriminate Hra.
        -- (* ARenameT: the transient locks *)
           cbn [cc_sem] in *. destruct Hfor as [_ Hfor].
           eapply (J_upd c _ t th); [exact HJ | exact Hn | lgl | reflexivity | | | ].
           ++ split; cbn [th_prog th_active th_fr th_code]; [exact Hprog|]. intros _. split; [exact HA|]. split.
              ** unfold cc_code_for in *. rewrite forallb_app, Hfor. exact Hcr.
              ** intros _. rewrite !ren_count_app, Hrc1, (ren_count_lockonly _ (lockonly_rename_code _ _ _)). cbn. lia.
           ++ unfold pend_th. cbn [th_prog th_active th_fr th_code]. rewrite Hactive, Hc. cbn [andb existsb is_ren_act orb].
              rewrite !existsb_app. cbn [existsb is_ren_act]. now rewrite orb_true_r.
           ++ cbn [cf_st]. eapply TI_tree; [|exact T]. symmetry. apply tick_tree.
        -- (* ARename: the move *)
           cbn [cc_sem] in *. rewrite Hop in *. cbn [cc_path] in *.
           assert (Hpe : forall th', th_prog th' = th_prog th -> th_active th' = true -> existsb is_ren_act (th_code th') = false ->
                     pend_th th = cc_xt_op (Rename p q) ++ pend_th th').
           { intros th' E1 E2 E3. unfold pend_th. rewrite E1, E2, E3, Hactive, Hc, Hop. reflexivity. }
           assert (HT : forall G', incl G' (pend c) -> (forall y, In y (cc_xt_op (Rename p q)) -> ~ In y G') ->
                     TI G' (fst (m_rename (cc_tick (cf_st c)) (normalize_path p) q))).
           { intros G' Hi Hx. apply (TI_rename (pend c)); auto.
             - eapply TI_tree; [|exact T]. symmetry. apply tick_tree.
             - intros Hxq. apply (pend_th_in c t th); [exact Hn|]. unfold pend_th. rewrite Hactive, Hc, Hop. cbn [andb existsb is_ren_act orb cc_xt_op].
               rewrite Hxq. now left.
             - intros Hxq. apply Hx. cbn [cc_xt_op]. rewrite Hxq. now left. }
           destruct (m_rename (cc_tick (cf_st c)) (normalize_path p) q) as [s1 res] eqn:Hm. cbn [fst] in HT.
           assert (Hok' : forall fr' code' lk, fr_op fr' = Rename p q -> code' = r \/ code' = [] ->
                     th_ok (mkCcT (th_prog th) true code' (th_defers th) fr' (th_slots th) (th_results th) (th_mu th) (th_f th) lk)).
           { intros fr' code' lk Hfr Hcode. split; cbn [th_prog th_active th_fr th_code]; [exact Hprog|]. intros _. rewrite Hfr.
             split; [exact HA|]. destruct Hcode as [-> | ->]; (split; [|intros _; cbn; lia]); [exact Hcr | reflexivity]. }
           destruct res; cbn [app];
             try (eapply (J_drop c _ t th _ (cc_xt_op (Rename p q)));
                  [exact HJ | exact Hn | lgl | reflexivity | apply Hok'; [cbn; now rewrite Hop | now left]
                  | apply Hpe; [reflexivity | reflexivity | exact (ren_count_zero r Hrc1)] | exact HT]).
           (* the panic: the rest of the call is skipped *)
           eapply (J_drop c _ t th _ (cc_xt_op (Rename p q)));
             [exact HJ | exact Hn | lgl | reflexivity | apply Hok'; [cbn; now rewrite Hop | now right]
             | apply Hpe; reflexivity | ].
           cbn [cf_st]. intros G' Hi _. apply (TI_incl (pend c)); [exact Hi|]. eapply TI_tree; [|exact T]. symmetry. apply tick_tree.
      * (* the sections of the other methods *)
        pose proof (aid_nonrename a _ Hfa Hra) as Hnr.
        pose proof (cc_sem_TI (pend c) a (th_fr th) (cf_st c) HG (conj HA Hnr) Hfa T) as HT.
        destruct (cc_sem a (th_fr th) (cf_st c)) as [s1 f1 code1|s1].
        -- destruct Hfor as [Hfo Hfc].
           eapply (J_upd c _ t th); [exact HJ | exact Hn | lgl | reflexivity | | | exact HT].
           ++ split; cbn [th_prog th_active th_fr th_code]; [exact Hprog|]. intros _. rewrite Hfo. split; [exact HA|]. split.
              ** unfold cc_code_for in *. rewrite forallb_app, Hfc. exact Hcr.
              ** rewrite Hnr. discriminate.
           ++ unfold pend_th. cbn [th_prog th_active th_fr th_code]. rewrite Hfo, (xt_op_nonrename _ Hnr). now destruct (_ && _)%bool, (_ && _)%bool.
        -- eapply (J_upd c _ t th); [exact HJ | exact Hn | lgl | reflexivity | | | exact HT].
           ++ split; cbn [th_prog th_active th_fr th_code]; [exact Hprog|]. intros _. cbn. split; [exact HA|]. split; [reflexivity|].
              rewrite Hnr. discriminate.
           ++ unfold pend_th. cbn [th_prog th_active th_fr th_code]. cbn [fr_op fr_set_res]. rewrite (xt_op_nonrename _ Hnr). now destruct (_ && _)%bool, (_ && _)%bool.
  - (* a deferred unlock *)
    apply next_deferred in Hnx as (Hactive & Hc & d & Hd).
    destruct (cc_release_shape c t (th_set_defers th (tl (th_defers th))) l) as (Hs & x & Hx & Hp & Ha & Hf & Hcd & _).
    eapply (J_upd c _ t th); [exact HJ | exact Hn | now rewrite cc_release_legacy | exact Hx | | | now rewrite Hs].
    + eapply th_ok_tl; eauto.
    + apply pend_th_eq; auto; [now rewrite Hf | now rewrite Hcd].
  - (* the call returns *)
    apply next_finish in Hnx as (Hactive & Hc & Hd).
    eapply (J_upd c _ t th); [exact HJ | exact Hn | lgl | reflexivity | | | exact T].
    + split; cbn [th_prog th_active]; [exact Hprog | discriminate].
    + unfold pend_th. cbn [th_prog th_active th_fr th_code]. rewrite Hactive, Hc. reflexivity.
Qed.

(* ================================================================== all schedules *)
Lemma conc_run_J sched : forall c, J c -> J (run_sched_from c sched).
Proof. unfold run_sched_from. induction sched as [|t sched IH]; intros c H; [exact H|]. cbn [fold_left]. apply IH. now apply conc_step_J. Qed.

Lemma nodupb_spec l : cc_nodupb l = true -> NoDup l.
Proof.
  induction l as [|x l IH]; cbn [cc_nodupb]; intros H; [constructor|]. apply andb_true_iff in H as [H1 H2].
  constructor; [|now apply IH]. intros Hin. apply negb_true_iff in H1.
  assert (E : existsb (beqb x) l = true) by (apply existsb_exists; exists x; split; [exact Hin | apply beqb_refl]). congruence.
Qed.

Lemma pend_init s progs : pend (cc_init_from s progs) = cc_xtargets progs.
Proof.
  unfold pend, cc_init_from, cc_init_gen, cc_xtargets. cbn [cf_threads]. induction progs as [|sp progs IH]; [reflexivity|].
  cbn [map flat_map]. now rewrite IH.
Qed.

Lemma conc_init_J_gen s0 progs :
  TI (cc_xtargets progs) s0 -> NoDup (cc_xtargets progs) -> (forall sp, In sp progs -> Forall A_cls (snd sp)) ->
  J (cc_init_from s0 progs).
Proof.
  intros T Hnd Hcl. split; [reflexivity|]. rewrite pend_init. split; [exact T|]. split; [exact Hnd|].
  intros t th Hn. cbn [cc_init_from cc_init_gen cf_threads] in Hn. rewrite nth_error_map in Hn.
  destruct (nth_error progs t) as [sp|] eqn:Hs; [|discriminate]. inversion Hn; subst th. split; cbn; [|discriminate].
  apply Hcl. eapply nth_error_In; eauto.
Qed.

Lemma forallb_A_cls ops : forallb cc_wtq_op ops = true -> Forall A_cls ops.
Proof. intros H. rewrite forallb_forall in H. apply Forall_forall. intros o Ho. now apply H. Qed.

Lemma conc_init_J s0 progs : WF s0 -> cc_kinds_ok s0 = true -> cc_wtq s0 progs = true -> J (cc_init_from s0 progs).
Proof.
  intros W Hk Hcl. unfold cc_wtq, cc_xfresh in Hcl. split_andb. apply conc_init_J_gen.
  - split; [exact W | now apply kinds_ok_KI |]. intros y Hy.
    match goal with H : forallb (cc_absent s0) _ = true |- _ => rewrite forallb_forall in H; specialize (H y Hy) end.
    unfold cc_absent in *. now destruct (lookup s0 y).
  - now apply nodupb_spec.
  - intros sp Hsp. apply forallb_A_cls.
    match goal with H : forallb _ progs = true |- _ => rewrite forallb_forall in H; now apply H end.
Qed.

(* ================================================================== WF and the three clauses of the property *)
(* the clauses over the path map (the existing paths) and the child indexes (the listings):
   C1: every existing path other than the root has an existing parent, which is a directory and lists
       the path — under the path's own name, as that node;
   C2: every entry listed by an existing directory exists — under the listed name, as the listed
       node — and that directory is its parent. *)
Definition cc_clause_parent (s : mst) : Prop :=
  forall k r, In (k, r) (mdata s) -> k <> s_slash ->
    exists pr pn, lookup s (cc_parent_path k) = Some pr /\ get_node s pr = Some pn /\
                  ndir pn = true /\ nhasdir pn = true /\ alist_get k (nkids pn) = Some r.
Definition cc_clause_listed (s : mst) : Prop :=
  forall d p, In (d, p) (mdata s) ->
    exists n, get_node s p = Some n /\
      forall name c, In (name, c) (nkids n) -> lookup s name = Some c /\ cc_parent_path name = d.
Definition cc_tree_consistent (s : mst) : Prop := cc_clause_parent s /\ cc_clause_listed s.

Lemma cc_consistentb_spec s : cc_consistentb s = true <-> cc_tree_consistent s.
Proof.
  unfold cc_consistentb, cc_tree_consistent, cc_clause_parent, cc_clause_listed. rewrite andb_true_iff, !forallb_forall. split.
  - intros [H1 H2]. split.
    + intros k r Hin Hne. specialize (H1 (k, r) Hin). unfold cc_entry_ok in H1.
      assert (E : beqb k s_slash = false) by now apply beqb_neq. rewrite E in H1. cbn [orb] in H1.
      destruct (lookup s (cc_parent_path k)) as [pr|]; [|discriminate]. apply andb_true_iff in H1 as [Hd H1].
      unfold cc_is_dir_node in Hd. destruct (get_node s pr) as [pn|] eqn:Hpn; [|discriminate]. apply andb_true_iff in Hd as [Hd1 Hd2].
      destruct (alist_get k (nkids pn)) as [r'|] eqn:Hg; [|discriminate]. apply Nat.eqb_eq in H1. subst r'. exists pr, pn. auto.
    + intros d p Hin. specialize (H2 (d, p) Hin). unfold cc_listing_ok in H2. destruct (get_node s p) as [n|] eqn:Hnn; [|discriminate].
      exists n. split; [reflexivity|]. intros name c Hc. rewrite forallb_forall in H2. specialize (H2 (name, c) Hc). cbn [fst snd] in H2.
      destruct (lookup s name) as [r'|] eqn:Hln; [|discriminate]. apply andb_true_iff in H2 as [E1 E2]. apply Nat.eqb_eq in E1. apply beqb_eq in E2.
      now subst.
  - intros [H1 H2]. split.
    + intros [k r] Hin. unfold cc_entry_ok. destruct (beqb k s_slash) eqn:E; [reflexivity|]. apply beqb_neq in E. cbn [orb].
      destruct (H1 k r Hin E) as (pr & pn & -> & Hpn & Hd1 & Hd2 & Hg). unfold cc_is_dir_node. rewrite Hpn, Hd1, Hd2, Hg.
      cbn [andb]. apply Nat.eqb_refl.
    + intros [d p] Hin. unfold cc_listing_ok. destruct (H2 d p Hin) as (n & -> & Hk). apply forallb_forall. intros [name c] Hc.
      cbn [fst snd]. destruct (Hk name c Hc) as [-> ->]. now rewrite Nat.eqb_refl, beqb_refl.
Qed.

Lemma parent_path_canon k : canon k -> cc_parent_path k = par k.
Proof. intros Hc. unfold cc_parent_path. now apply find_parent_path. Qed.

Theorem WF_tree_consistent s : WF s -> cc_tree_consistent s.
Proof.
  intros W. split.
  - intros k r Hin Hne. pose proof (in_aget _ _ _ (g_nodup _ _ _ _ W) Hin) as Hl.
    destruct (g_par _ _ _ _ W k r Hl (WF_fresh s k r W Hl) Hne) as (p & pn & Hp & Hpn & Hpd & Hk); [intros [] | intros [] |].
    destruct (g_node _ _ _ _ W _ _ Hp) as (pn' & Hpn' & _ & Hdh & _). rewrite Hpn in Hpn'. inversion Hpn'; subst pn'.
    exists p, pn. rewrite (parent_path_canon k (g_canon _ _ _ _ W k r Hl)). repeat split; auto. congruence.
  - intros d p Hin. pose proof (in_aget _ _ _ (g_nodup _ _ _ _ W) Hin) as Hl.
    destruct (g_node _ _ _ _ W _ _ Hl) as (n & Hn & _ & _ & Hnd). exists n. split; [exact Hn|]. intros name c Hc.
    pose proof (in_aget _ _ _ Hnd Hc) as Hg.
    destruct (g_kids _ _ _ _ W d p n name c Hl Hn Hg) as (Hy & [[]|(_ & _ & Hlc & _)]). split; [exact Hlc|].
    rewrite (parent_path_canon name (g_canon _ _ _ _ W name c Hlc)).
    apply (GWF_inj _ _ _ s (par name) d p W); auto.
Qed.

Corollary WF_consistentb s : WF s -> cc_consistentb s = true.
Proof. intros W. apply cc_consistentb_spec. now apply WF_tree_consistent. Qed.

(* ================================================================== the same calls run sequentially (setup, prologues) *)
Lemma TI_set_file_mode G s k m : TI G s -> TI G (fst (set_file_mode s k m)).
Proof.
  intros T. unfold set_file_mode. destruct (lookup s (normalize_path k)); [|exact T]. cbn [fst]. apply TI_attr; [intros; reflexivity | exact T].
Qed.

Lemma TI_step_nr G s o : Forall xpath G -> TI G s -> A_cls o -> is_rename_op o = false -> TI G (fst (m_step_raw s o)).
Proof.
  intros HG T HA Hnr.
  assert (Hh : op_handle_of o <> None -> TI G (fst (m_step_raw s o))).
  { intros Hh. eapply TI_tree; [|exact T]. symmetry. now apply tree_handle_op. }
  destruct o; try (apply Hh; discriminate); try discriminate Hnr; try discriminate HA (* Chown: not in the class *); cbn [m_step_raw].
  - (* Create *)
    pose proof HA as HA'. unfold A_cls, cc_wtq_op in HA'. cbn [cc_wt_op cc_names_ok] in HA'. split_andb.
    match goal with H : wf_name p = true |- _ => pose proof (wf_name_canon p H) as Hc end.
    assert (E : m_create s p = m_create s (normalize_path p)) by (unfold m_create; now rewrite (canon_norm _ Hc)).
    rewrite E. now apply TI_create.
  - (* Mkdir *)
    unfold m_mkdir. destruct (lookup s (normalize_path p)) eqn:Hl; [exact T|].
    destruct (below_file s (normalize_path p)); [exact T|].
    change (TI G (fst (set_file_mode (cc_mkdir_body s (normalize_path p) (Z.land perm chmod_bits)) (normalize_path p)
                                     (Z.lor (Z.land perm chmod_bits) mode_dir)))).
    apply TI_set_file_mode. apply TI_mkdir_body; auto.
  - (* MkdirAll *)
    rewrite m_mkdirall_fst. unfold m_mkdir. destruct (lookup s (normalize_path p)) eqn:Hl; [exact T|].
    destruct (below_file s (normalize_path p)); [exact T|].
    change (TI G (fst (set_file_mode (cc_mkdir_body s (normalize_path p) (Z.land perm chmod_bits)) (normalize_path p)
                                     (Z.lor (Z.land perm chmod_bits) mode_dir)))).
    apply TI_set_file_mode. apply TI_mkdir_body; auto.
  - (* Open *)
    unfold m_open. destruct (lookup s (normalize_path p)); [|exact T]. unfold alloc_handle. cbn [fst]. eapply TI_tree; [|exact T]. reflexivity.
  - (* OpenFile *)
    pose proof HA as HA'. unfold A_cls, cc_wtq_op in HA'. cbn [cc_wt_op cc_names_ok] in HA'. split_andb.
    destruct (wtq_file_name p) as (Hc & Hf & Hkr); auto.
    set (k := normalize_path p) in *. assert (Hanc : dirnames_above k) by now apply anc_ok_spec.
    unfold m_openfile. fold k.
    assert (Tail : forall (s1 : mst) (f : nat) (created : bool), TI G s1 ->
      TI G (fst (let ro := Z.land flag memfs_access_mask =? 0 in
         let data := match get_node s1 f with Some n => ndata n | None => [] end in
         let at_ := if flag_has flag o_append then zlen data else 0 in
         let trunc := flag_has flag o_trunc && flag_has flag (Z.lor o_rdwr o_wronly) in
         let s2 := if trunc && negb ro then upd_node s1 f (fun n => with_mtime (mclock s1) (with_data [] n)) else s1 in
         let '(s3, h) := alloc_handle s2 (mkH f (if trunc && negb ro then at_ else at_) 0 false ro) in
         if trunc && ro then (s2, RErr (EW KReadOnlyHandle))
         else if created then match set_file_mode s3 k (Z.land perm chmod_bits) with (s4, ROk) => (s4, RHandle h) | (s4, r) => (s4, r) end
         else (s3, RHandle h)))).
    { intros s1 f created T1. cbv zeta.
      set (tr := flag_has flag o_trunc && flag_has flag (Z.lor o_rdwr o_wronly)). set (ro := Z.land flag memfs_access_mask =? 0).
      assert (T2 : TI G (if tr && negb ro then upd_node s1 f (fun n => with_mtime (mclock s1) (with_data [] n)) else s1)).
      { destruct (tr && negb ro); [|exact T1]. apply TI_attr; [intros; reflexivity | exact T1]. }
      match goal with |- context [alloc_handle ?a ?b] =>
        pose proof (TI_alloc_handle G a b T2) as T3; destruct (alloc_handle a b) as [s3 h] end.
      cbn [fst] in T3. destruct (tr && ro); [exact T2|]. destruct created; [|exact T3].
      pose proof (TI_set_file_mode G s3 k (Z.land perm chmod_bits) T3) as T4.
      destruct (set_file_mode s3 k (Z.land perm chmod_bits)) as [s4 r4]. cbn [fst] in T4. destruct r4; exact T4. }
    pose proof T as [W K X].
    destruct (lookup s k) as [f|] eqn:Hl.
    + destruct (flag_has flag o_excl && flag_has flag o_create); [exact T|]. exact (Tail s f false T).
    + destruct (flag_has flag o_create) eqn:Hcr; [|exact T].
      rewrite (typed_below_file s k W K Hc Hanc).
      assert (T' : TI G (fst (m_create_node s k))).
      { rewrite m_create_node_eq. cbn [fst]. apply (TI_new_file G s k 0 mode_temporary HG T Hc Hf Hanc Hl). }
      destruct (m_create_node s k) as [s1 f]. exact (Tail s1 f true T').
  - (* Remove *)
    pose proof HA as HA'. unfold A_cls, cc_wtq_op in HA'. cbn [cc_wt_op cc_names_ok] in HA'. split_andb.
    match goal with H : wf_name p = true |- _ => pose proof (wf_name_canon p H) as Hc end.
    assert (E : m_remove s p = m_remove s (normalize_path p)) by (unfold m_remove; now rewrite (canon_norm _ Hc)).
    rewrite E. now apply TI_remove.
  - (* RemoveAll *)
    pose proof HA as HA'. unfold A_cls, cc_wtq_op in HA'. cbn [cc_wt_op cc_names_ok] in HA'. split_andb.
    match goal with H : wf_name p = true |- _ => pose proof (wf_name_canon p H) as Hc end.
    assert (E : m_removeall s p = m_removeall s (normalize_path p)) by (unfold m_removeall; now rewrite (canon_norm _ Hc)).
    rewrite E. now apply TI_removeall.
  - (* Stat *)
    unfold m_stat. destruct (lookup s (normalize_path p)) as [f|]; [|exact T]. destruct (get_node s f); exact T.
  - (* Chmod *) eapply TI_tree; [|exact T]. symmetry. apply tree_m_chmod.
  - (* Chtimes *) eapply TI_tree; [|exact T]. symmetry. apply tree_m_chtimes.
Qed.

Lemma TI_step G G' s o : Forall xpath G -> TI G s -> A_cls o -> incl (cc_xt_op o) G -> incl G' G ->
  (forall y, In y (cc_xt_op o) -> ~ In y G') -> TI G' (fst (m_step s o)).
Proof.
  intros HG T HA Hin Hi Hx.
  assert (H : TI G' (fst (m_step_raw s o))).
  { destruct (is_rename_op o) eqn:Hr; [|apply (TI_incl G); [exact Hi | now apply TI_step_nr]].
    destruct o; try discriminate Hr. cbn [m_step_raw].
    pose proof HA as HA'. unfold A_cls, cc_wtq_op in HA'. cbn [cc_wt_op cc_names_ok] in HA'. split_andb.
    match goal with H : wf_name p = true |- _ => pose proof (wf_name_canon p H) as Hc end.
    assert (E : m_rename s p q = m_rename s (normalize_path p) q) by (unfold m_rename; now rewrite (canon_norm _ Hc)).
    rewrite E. apply (TI_rename G); auto.
    - intros Hxq. apply Hin. cbn [cc_xt_op]. rewrite Hxq. now left.
    - intros Hxq. apply Hx. cbn [cc_xt_op]. rewrite Hxq. now left. }
  unfold m_step. destruct (m_step_raw s o) as [s1 r]. cbn [fst] in *. eapply TI_tree; [|exact H]. reflexivity.
Qed.

Lemma handle_op_cls o h : op_handle_of o <> None -> A_cls (op_set_handle o h) /\ cc_xt_op (op_set_handle o h) = [] /\ cc_xt_op o = [].
Proof. destruct o; cbn [op_handle_of]; try congruence; intros _; repeat split. Qed.

Lemma cc_seq_TI : forall ops s slots G0,
  Forall A_cls ops -> Forall xpath G0 -> NoDup (cc_xt_ops ops ++ G0) -> TI (cc_xt_ops ops ++ G0) s ->
  TI G0 (fst (cc_seq s slots ops)).
Proof.
  induction ops as [|o ops IH]; intros s slots G0 Hcl HG0 Hnd T; [exact T|].
  inversion Hcl as [|? ? HAo Hrest]; subst.
  assert (HG : Forall xpath (cc_xt_ops (o :: ops) ++ G0)) by (apply Forall_app; split; [now apply xt_ops_xpath | exact HG0]).
  unfold cc_xt_ops in *. cbn [flat_map] in *. rewrite <- app_assoc in *.
  assert (Hnd' : NoDup (flat_map cc_xt_op ops ++ G0) /\ forall y, In y (cc_xt_op o) -> ~ In y (flat_map cc_xt_op ops ++ G0)).
  { apply (nodup_drop [] (cc_xt_op o) (flat_map cc_xt_op ops ++ G0)). exact Hnd. }
  destruct Hnd' as [Hnd1 Hnd2].
  assert (Hstep : forall o', A_cls o' -> cc_xt_op o' = cc_xt_op o \/ cc_xt_op o' = [] ->
            TI (flat_map cc_xt_op ops ++ G0) (fst (m_step s o'))).
  { intros o' HA' Hxt. apply (TI_step (cc_xt_op o ++ flat_map cc_xt_op ops ++ G0)); auto.
    - destruct Hxt as [-> | ->]; [apply incl_appl, incl_refl | intros y []].
    - apply incl_appr, incl_refl.
    - destruct Hxt as [-> | ->]; [exact Hnd2 | intros y []]. }
  cbn [cc_seq]. destruct (op_handle_of o) as [i|] eqn:Hh.
  - destruct (nth_error slots i) as [[h|]|].
    + destruct (handle_op_cls o h) as (HA' & Hx' & Hxo); [congruence|].
      pose proof (Hstep _ HA' (or_intror Hx')) as T1. destruct (m_step s (op_set_handle o h)) as [s1 r1]. cbn [fst] in T1. now apply IH.
    + apply IH; auto. apply (TI_incl (cc_xt_op o ++ flat_map cc_xt_op ops ++ G0)); [apply incl_appr, incl_refl | exact T].
    + apply IH; auto. apply (TI_incl (cc_xt_op o ++ flat_map cc_xt_op ops ++ G0)); [apply incl_appr, incl_refl | exact T].
  - pose proof (Hstep o HAo (or_introl eq_refl)) as T1. destruct (m_step s o) as [s1 r1]. cbn [fst] in T1. now apply IH.
Qed.

Lemma cc_prologues_TI : forall (progs : list (list op * list op)) s G0,
  Forall A_cls (flat_map fst progs) -> Forall xpath G0 -> NoDup (cc_xt_ops (flat_map fst progs) ++ G0) ->
  TI (cc_xt_ops (flat_map fst progs) ++ G0) s ->
  TI G0 (fst (cc_prologues s progs)) /\ map snd (snd (cc_prologues s progs)) = map snd progs.
Proof.
  induction progs as [|[pro ops] progs IH]; intros s G0 Hcl HG0 Hnd T; [split; [exact T | reflexivity]|].
  cbn [flat_map fst] in *. apply Forall_app in Hcl as [Hc1 Hc2].
  unfold cc_xt_ops in *. rewrite flat_map_app, <- app_assoc in *.
  assert (HG1 : Forall xpath (flat_map cc_xt_op (flat_map fst progs) ++ G0)) by (apply Forall_app; split; [now apply xt_ops_xpath | exact HG0]).
  pose proof (cc_seq_TI pro s [] _ Hc1 HG1 Hnd T) as T1.
  cbn [cc_prologues]. destruct (cc_seq s [] pro) as [s1 slots]. cbn [fst] in T1.
  assert (Hnd1 : NoDup (flat_map cc_xt_op (flat_map fst progs) ++ G0)).
  { apply (nodup_drop [] (flat_map cc_xt_op pro) _ Hnd). }
  destruct (IH s1 G0 Hc2 HG0 Hnd1 T1) as [T2 E2]. destruct (cc_prologues s1 progs) as [s2 rest]. cbn [fst snd] in *.
  split; [exact T2|]. cbn [map snd]. now rewrite E2.
Qed.

Lemma TI_init G : Forall xpath G -> TI G m_init.
Proof.
  intros HG. split; [exact WF_init | apply kinds_ok_KI; reflexivity |]. intros y Hy. rewrite Forall_forall in HG.
  destruct (HG y Hy) as (_ & Hx & _). unfold lookup, m_init. cbn [mdata alist_get]. destruct (beqb y s_slash) eqn:E; [|reflexivity].
  apply beqb_eq in E. subst y. discriminate Hx.
Qed.

Lemma xtargets_map_snd (ps : list (list (option nat) * list op)) (progs : list (list op * list op)) :
  map snd ps = map snd progs -> cc_xtargets ps = cc_xt_ops (flat_map snd progs).
Proof.
  revert progs. induction ps as [|sp ps IH]; intros [|pp progs] H; try discriminate; [reflexivity|].
  cbn [map] in H. inversion H as [[H1 H2]]. unfold cc_xtargets, cc_xt_ops in *. cbn [flat_map]. rewrite flat_map_app, H1. f_equal. now apply IH.
Qed.

Theorem conc_case_J setup progs : cc_case_wtq setup progs = true -> J (cc_case_cfg setup progs).
Proof.
  intros Hcl. unfold cc_case_wtq, cc_case_ops in Hcl. apply andb_true_iff in Hcl as [Hops Hnd].
  apply forallb_A_cls in Hops. apply nodupb_spec in Hnd. apply Forall_app in Hops as [Hc1 Hops]. apply Forall_app in Hops as [Hc2 Hc3].
  unfold cc_xt_ops in Hnd. rewrite !flat_map_app in Hnd. fold (cc_xt_ops setup) (cc_xt_ops (flat_map fst progs)) (cc_xt_ops (flat_map snd progs)) in Hnd.
  set (G3 := cc_xt_ops (flat_map snd progs)) in *. set (G2 := cc_xt_ops (flat_map fst progs)) in *.
  assert (HG3 : Forall xpath G3) by now apply xt_ops_xpath.
  assert (HG23 : Forall xpath (G2 ++ G3)) by (apply Forall_app; split; [now apply xt_ops_xpath | exact HG3]).
  assert (HGall : Forall xpath (cc_xt_ops setup ++ G2 ++ G3)) by (apply Forall_app; split; [now apply xt_ops_xpath | exact HG23]).
  pose proof (cc_seq_TI setup m_init [] (G2 ++ G3) Hc1 HG23 Hnd (TI_init _ HGall)) as T0.
  unfold cc_case_cfg. destruct (cc_seq m_init [] setup) as [s0 sl0]. cbn [fst] in T0.
  assert (Hnd23 : NoDup (G2 ++ G3)) by (apply (nodup_drop [] (cc_xt_ops setup) _ Hnd)).
  destruct (cc_prologues_TI progs s0 G3 Hc2 HG3 Hnd23 T0) as [T1 E1].
  destruct (cc_prologues s0 progs) as [s1 ps]. cbn [fst snd] in *.
  assert (Ex : cc_xtargets ps = G3) by now apply xtargets_map_snd.
  apply conc_init_J_gen.
  - now rewrite Ex.
  - rewrite Ex. apply (nodup_drop [] G2 G3 Hnd23).
  - intros sp Hsp. rewrite Forall_forall in Hc3 |- *. intros o Ho. apply Hc3. apply in_flat_map.
    assert (Hin : In (snd sp) (map snd progs)) by (rewrite <- E1; now apply in_map).
    apply in_map_iff in Hin as (pp & Epp & Hpp). exists pp. split; [exact Hpp | now rewrite Epp].
Qed.

(* ================================================================== the theorem *)
Theorem conc_quiescent_TI s0 progs sched :
  WF s0 -> cc_kinds_ok s0 = true -> cc_wtq s0 progs = true ->
  J (cc_run_from s0 progs sched).
Proof. intros W Hk Hcl. unfold cc_run_from. apply conc_run_J. now apply conc_init_J. Qed.

Theorem conc_quiescent_consistent s0 progs sched :
  WF s0 -> cc_kinds_ok s0 = true -> cc_wtq s0 progs = true ->
  let s := cf_st (cc_run_from s0 progs sched) in
  WF s /\ cc_consistentb s = true /\ cc_clause_parent s /\ cc_clause_listed s.
Proof.
  intros W Hk Hcl s. destruct (conc_quiescent_TI s0 progs sched W Hk Hcl) as (_ & [W' _ _] & _).
  split; [exact W'|]. split; [now apply WF_consistentb | now apply WF_tree_consistent].
Qed.

Theorem conc_quiescent_empty progs sched :
  cc_wtq m_init progs = true -> cc_consistentb (cf_st (cc_run_from m_init progs sched)) = true.
Proof. intros H. apply (conc_quiescent_consistent m_init progs sched WF_init); [reflexivity | exact H]. Qed.

(* a whole case of the harness: setup and prologues run sequentially from the empty filesystem, then
   the goroutines run concurrently under any schedule *)
Theorem conc_quiescent_case setup progs sched :
  cc_case_wtq setup progs = true ->
  let s := cf_st (run_sched_from (cc_case_cfg setup progs) sched) in
  WF s /\ cc_consistentb s = true /\ cc_clause_parent s /\ cc_clause_listed s.
Proof.
  intros Hcl s. destruct (conc_run_J sched _ (conc_case_J setup progs Hcl)) as (_ & [W' _ _] & _).
  split; [exact W'|]. split; [now apply WF_consistentb | now apply WF_tree_consistent].
Qed.
