(* Proofs/ArchiveLemmas.v — list, association-list and index lemmas used by the C14 proofs *)
From AF Require Import Lib.Bytes Lib.Path Lib.Ops Model.ByteFile Model.Archive.
From Coq Require Import Permutation.

(* ---------------------------------------------------------------- beqb is equality *)
Lemma beqb_refl a : beqb a a = true.
Proof. induction a as [|x a IH]; cbn; [reflexivity|]. now rewrite N.eqb_refl, IH. Qed.

Lemma beqb_eq a b : beqb a b = true <-> a = b.
Proof.
  split; [|intros ->; apply beqb_refl].
  revert b; induction a as [|x a IH]; intros [|y b] H; cbn in H; try discriminate; [reflexivity|].
  apply andb_true_iff in H as [Hx Hr]. apply N.eqb_eq in Hx. now rewrite Hx, (IH b Hr).
Qed.

Lemma beqb_neq a b : beqb a b = false <-> a <> b.
Proof.
  split.
  - intros H E. apply beqb_eq in E. congruence.
  - intros H. destruct (beqb a b) eqn:E; [|reflexivity]. apply beqb_eq in E. contradiction.
Qed.

Lemma key_eqb_eq a b : key_eqb a b = true <-> a = b.
Proof.
  destruct a as [a1 a2], b as [b1 b2]; unfold key_eqb; cbn [fst snd].
  rewrite andb_true_iff, !beqb_eq. split; [intros [-> ->]; reflexivity|intros E; inversion E; auto].
Qed.

Lemma key_eqb_refl a : key_eqb a a = true.
Proof. now apply key_eqb_eq. Qed.

Lemma is_empty_true s : is_empty s = true <-> s = [].
Proof. destruct s; cbn; split; congruence. Qed.

(* ---------------------------------------------------------------- firstn / skipn *)
Lemma pread_prefix {A} (c : list A) (m off n : nat) :
  off + n <= m \/ length c <= m ->
  firstn n (skipn off (firstn m c)) = firstn n (skipn off c).
Proof.
  intros H. rewrite skipn_firstn_comm, firstn_firstn.
  destruct (Nat.le_ge_cases n (m - off)) as [L|L].
  - now rewrite Nat.min_l.
  - rewrite Nat.min_r by exact L.
    destruct H as [H|H]; [replace (m - off) with n by lia; reflexivity|].
    rewrite !firstn_all2; [reflexivity| |]; rewrite skipn_length; lia.
Qed.

Lemma firstn_prefix_app {A} (c : list A) (a k : nat) :
  firstn a c ++ firstn k (skipn a c) = firstn (a + k) c.
Proof.
  revert c; induction a as [|a IH]; intros c; cbn; [reflexivity|].
  destruct c as [|x c]; cbn; [now rewrite firstn_nil|]. now rewrite IH.
Qed.

Lemma zlen_nonneg {A} (l : list A) : (0 <= zlen l)%Z.
Proof. unfold zlen; lia. Qed.

Lemma zlen_app {A} (a b : list A) : zlen (a ++ b) = (zlen a + zlen b)%Z.
Proof. unfold zlen; rewrite app_length; lia. Qed.

(* ---------------------------------------------------------------- list_set / nth_error *)
Lemma nth_error_list_set_same {A} (l : list A) i v x :
  nth_error l i = Some x -> nth_error (list_set i v l) i = Some v.
Proof.
  revert i; induction l as [|y l IH]; intros [|i] H; cbn in *; try discriminate; [reflexivity|].
  now apply IH.
Qed.

Lemma list_set_length {A} (l : list A) i v : length (list_set i v l) = length l.
Proof. revert i; induction l as [|y l IH]; intros [|i]; cbn; auto. Qed.

Lemma Forall2_nth_error {A B} (R : A -> B -> Prop) l1 l2 i :
  Forall2 R l1 l2 ->
  match nth_error l1 i, nth_error l2 i with
  | Some x, Some y => R x y
  | None, None => True
  | _, _ => False
  end.
Proof.
  intros H; revert i; induction H as [|x y l1 l2 Hxy H IH]; intros [|i]; cbn; auto.
  apply IH.
Qed.

Lemma Forall2_list_set {A B} (R : A -> B -> Prop) l1 l2 i x y :
  Forall2 R l1 l2 -> R x y -> Forall2 R (list_set i x l1) (list_set i y l2).
Proof.
  intros H Hxy; revert i; induction H as [|a b l1 l2 Hab H IH]; intros [|i]; cbn; auto.
Qed.

Lemma Forall2_snoc {A B} (R : A -> B -> Prop) l1 l2 x y :
  Forall2 R l1 l2 -> R x y -> Forall2 R (l1 ++ [x]) (l2 ++ [y]).
Proof. intros H Hxy. apply Forall2_app; auto. Qed.

Lemma Forall_list_set {A} (P : A -> Prop) l i x : Forall P l -> P x -> Forall P (list_set i x l).
Proof.
  intros H Hx; revert i; induction H as [|a l Ha H IH]; intros [|i]; cbn; auto.
Qed.

Lemma Forall_nth_error {A} (P : A -> Prop) l i x : Forall P l -> nth_error l i = Some x -> P x.
Proof. intros H E. apply nth_error_In in E. rewrite Forall_forall in H. auto. Qed.

Lemma NoDup_snoc {A} (l : list A) x : NoDup l -> ~ In x l -> NoDup (l ++ [x]).
Proof.
  intros ND N. induction ND as [|y l Hy ND IH]; cbn; [constructor; [tauto|constructor]|].
  constructor.
  - rewrite in_app_iff; cbn. intros [H|[H|[]]]; [tauto|]. subst. apply N; now left.
  - apply IH. intros H; apply N; now right.
Qed.

(* ---------------------------------------------------------------- association lists *)
Section Alist.
Context {A : Type}.
Implicit Types (l : list (str * A)).

Lemma alist_get_set_same k v l : alist_get k (alist_set k v l) = Some v.
Proof.
  induction l as [|[k' v'] l IH]; cbn; [now rewrite beqb_refl|].
  destruct (beqb k k') eqn:E; cbn; [now rewrite beqb_refl|now rewrite E].
Qed.

Lemma alist_get_set_other k k' v l : k <> k' -> alist_get k' (alist_set k v l) = alist_get k' l.
Proof.
  intros N. induction l as [|[k2 v2] l IH]; cbn.
  - assert (beqb k' k = false) as -> by (apply beqb_neq; congruence). reflexivity.
  - destruct (beqb k k2) eqn:E; cbn.
    + apply beqb_eq in E; subst k2.
      assert (beqb k' k = false) as -> by (apply beqb_neq; congruence). reflexivity.
    + now rewrite IH.
Qed.

Lemma alist_get_snoc k k' v l :
  alist_get k (l ++ [(k', v)]) =
  match alist_get k l with Some x => Some x | None => if beqb k k' then Some v else None end.
Proof.
  induction l as [|[k2 v2] l IH]; cbn; [reflexivity|]. destruct (beqb k k2); auto.
Qed.

Lemma alist_get_In k v l : alist_get k l = Some v -> In (k, v) l.
Proof.
  induction l as [|[k2 v2] l IH]; cbn; [discriminate|].
  destruct (beqb k k2) eqn:E; intros H.
  - apply beqb_eq in E; subst; inversion H; auto.
  - right; auto.
Qed.

Lemma alist_In_get k v l : NoDup (map fst l) -> In (k, v) l -> alist_get k l = Some v.
Proof.
  induction l as [|[k2 v2] l IH]; cbn; [tauto|]. intros ND [E|H].
  - inversion E; subst. now rewrite beqb_refl.
  - inversion ND as [|? ? Hn ND']; subst.
    destruct (beqb k k2) eqn:E.
    + apply beqb_eq in E; subst. exfalso; apply Hn. apply in_map_iff. exists (k2, v); auto.
    + auto.
Qed.

Lemma alist_set_keys k v l :
  map fst (alist_set k v l) =
  match alist_get k l with Some _ => map fst l | None => map fst l ++ [k] end.
Proof.
  induction l as [|[k2 v2] l IH]; cbn; [reflexivity|].
  destruct (beqb k k2) eqn:E; cbn.
  - apply beqb_eq in E; now subst.
  - rewrite IH. destruct (alist_get k l); reflexivity.
Qed.

Lemma alist_get_None_notin k l : alist_get k l = None -> ~ In k (map fst l).
Proof.
  induction l as [|[k2 v2] l IH]; cbn; [tauto|].
  destruct (beqb k k2) eqn:E; [discriminate|]. intros H [F|F]; [|now apply IH].
  apply beqb_neq in E; congruence.
Qed.

Lemma alist_set_nodup k v l : NoDup (map fst l) -> NoDup (map fst (alist_set k v l)).
Proof.
  intros ND. rewrite alist_set_keys. destruct (alist_get k l) eqn:E; [exact ND|].
  apply NoDup_snoc; auto. now apply alist_get_None_notin.
Qed.
End Alist.

(* ---------------------------------------------------------------- the specification, one handle at a time *)
Local Open Scope Z_scope.

Definition ok_whence (wh : Z) : bool := (wh =? 0) || (wh =? 1) || (wh =? 2).

(* what aspec_step does to the handle an operation addresses *)
Definition bh_local (strict : bool) (c : bytes) (b : bh) (o : op) : bh * pres :=
  match o with
  | HRead _ n =>
      if bclosed b then (b, PErr C_CLOSED) else
      let x := pread c (bpos b) (Z.to_nat n) in
      (mkBH (bpos b + length x) false (bro b), PBytes x ((0 <? n) && Nat.eqb (length x) 0))
  | HReadAt _ n off =>
      if bclosed b then (b, PErr C_CLOSED) else
      if off <? 0 then (b, PErr C_INVALID) else
      let x := pread c (Z.to_nat off) (Z.to_nat n) in (b, PBytes x (zlen x <? n))
  | HSeek _ off wh =>
      if bclosed b then (b, PErr C_CLOSED) else
      if negb (ok_whence wh) then (b, PErr C_INVALID) else
      let target := if wh =? 0 then off else if wh =? 1 then Z.of_nat (bpos b) + off else zlen c + off in
      if strict && (zlen c <? target) then (b, PErr C_INVALID) else
      if target <? 0 then (b, PErr C_INVALID)
      else (mkBH (Z.to_nat target) false (bro b), PPos (Z.to_nat target))
  | HClose _ => (mkBH (bpos b) true (bro b), POk)
  | _ => (b, PNone)
  end.

Definition op_handle (o : op) : option nat :=
  match o with
  | HRead i _ | HReadAt i _ _ | HSeek i _ _ | HClose i => Some i
  | _ => None
  end.

Lemma list_set_same {A} (l : list A) i x : nth_error l i = Some x -> list_set i x l = l.
Proof.
  revert i; induction l as [|y l IH]; intros [|i] H; cbn in *; try discriminate.
  - now inversion H.
  - now rewrite IH.
Qed.

Lemma aspec_step_local strict s o i b :
  op_handle o = Some i -> nth_error (bhs s) i = Some b ->
  aspec_step strict s o =
  (mkBS (bdata s) (list_set i (fst (bh_local strict (bdata s) b o)) (bhs s)), snd (bh_local strict (bdata s) b o)).
Proof.
  intros Ho Hn.
  assert (Hs : forall p : pres, (s, p) = (mkBS (bdata s) (list_set i b (bhs s)), p)).
  { intros p. rewrite (list_set_same _ _ _ Hn). now destruct s. }
  destruct o; cbn in Ho; try discriminate; inversion Ho; subst; clear Ho.
  - (* HRead *)
    unfold aspec_step, bf_step, bh_local. rewrite Hn. destruct (bclosed b); [apply Hs|reflexivity].
  - (* HReadAt *)
    unfold aspec_step, bf_step, bh_local. rewrite Hn. destruct (bclosed b); [apply Hs|].
    destruct (off <? 0); apply Hs.
  - (* HSeek *)
    unfold aspec_step, bf_step, bh_local, ok_whence. rewrite Hn. destruct (bclosed b) eqn:Ec; [apply Hs|].
    destruct (negb ((whence =? 0) || (whence =? 1) || (whence =? 2))) eqn:Ew; [apply Hs|].
    assert ((if whence =? 0 then off else if whence =? 1 then Z.of_nat (bpos b) + off
             else if whence =? 2 then zlen (bdata s) + off else Z.of_nat (bpos b)) =
            (if whence =? 0 then off else if whence =? 1 then Z.of_nat (bpos b) + off else zlen (bdata s) + off)) as ->.
    { destruct (whence =? 0), (whence =? 1), (whence =? 2); cbn in Ew; try reflexivity; discriminate. }
    set (target := if whence =? 0 then off else if whence =? 1 then Z.of_nat (bpos b) + off else zlen (bdata s) + off).
    destruct (strict && (zlen (bdata s) <? target)); [apply Hs|].
    destruct (target <? 0); [apply Hs|reflexivity].
  - (* HClose *)
    unfold aspec_step, bf_step, bh_local. rewrite Hn. destruct (bclosed b) eqn:Ec; [|reflexivity].
    cbn [fst snd].
    assert (Eb : mkBH (bpos b) true (bro b) = b) by (destruct b as [p c r]; cbn in *; now subst).
    rewrite Eb. apply Hs.
Qed.

Lemma aspec_step_noslot strict s o i :
  op_handle o = Some i -> nth_error (bhs s) i = None -> aspec_step strict s o = (s, PNone).
Proof.
  intros Ho Hn. destruct o; cbn in Ho; try discriminate; inversion Ho; subst;
    unfold aspec_step, bf_step; rewrite Hn; reflexivity.
Qed.
