(* Proofs/MemBelow.v — elementary facts about the ancestor check of MemMapFs
   (memmap.go lockfreeBelowFile, Model/MemFs.v below_file): what it answers when the parent
   directory of the name is present.  Only the model is imported, so that every proof file
   about m_create / m_mkdir / m_openfile / m_rename can use these.
   The general statements are in MemFsStep.v (well-formed states: never refused) and
   MemBelowRefused.v (nearest existing ancestor is a regular file: always refused). *)
From AF Require Import Lib.Bytes Lib.Path Lib.Ops Gen.Consts Model.MemFile Model.MemFs.
Local Open Scope Z_scope.

(* the fact about the source the "refused" theorems rest on: Create, Mkdir, Rename and the
   creating path of OpenFile carry the ancestor check.  Compiles iff Gen/Consts.v says so. *)
Lemma memfs_refuses_below_file_fact : memfs_refuses_below_file = 1.
Proof. reflexivity. Qed.

(* Rename of a missing source resolves both directories first.  Compiles iff Gen/Consts.v says so. *)
Lemma memfs_rename_missing_source_enotdir_fact : memfs_rename_missing_source_enotdir = 1.
Proof. reflexivity. Qed.

Lemma below_file_off s name : memfs_refuses_below_file <> 1 -> below_file s name = false.
Proof. intros H. unfold below_file. apply Z.eqb_neq in H. now rewrite H. Qed.

(* the parent is present: the walk stops at once and the answer is the parent's kind *)
Lemma below_file_walk_here fuel s d f n :
  lockfree_open s d = Some f -> get_node s f = Some n -> below_file_walk fuel s d = negb (ndir n).
Proof. intros Hl Hn. destruct fuel; cbn [below_file_walk]; now rewrite Hl, Hn. Qed.

Lemma below_file_parent_dir s name d dn :
  lookup s (normalize_path (path_dir name)) = Some d -> get_node s d = Some dn -> ndir dn = true ->
  below_file s name = false.
Proof.
  intros Hl Hn Hd. unfold below_file.
  rewrite (below_file_walk_here _ s (path_dir name) d dn Hl Hn), Hd. apply andb_false_r.
Qed.

Lemma below_file_parent_file s name d dn :
  lookup s (normalize_path (path_dir name)) = Some d -> get_node s d = Some dn -> ndir dn = false ->
  below_file s name = true.
Proof.
  intros Hl Hn Hd. unfold below_file. rewrite memfs_refuses_below_file_fact.
  now rewrite (below_file_walk_here _ s (path_dir name) d dn Hl Hn), Hd.
Qed.

(* the check reads the path map and the kinds of the nodes, nothing else *)
Lemma below_file_walk_ext fuel s t : mdata s = mdata t -> (forall r, option_map ndir (get_node s r) = option_map ndir (get_node t r)) ->
  forall d, below_file_walk fuel s d = below_file_walk fuel t d.
Proof.
  intros Hd Hk. induction fuel as [|fu IH]; intros d; cbn [below_file_walk]; unfold lockfree_open, lookup; rewrite Hd;
    (destruct (alist_get (normalize_path d) (mdata t)) as [f|];
     [specialize (Hk f); destruct (get_node s f), (get_node t f); cbn in Hk; congruence || (inversion Hk; congruence)|]).
  - reflexivity.
  - now rewrite IH.
Qed.

Lemma below_file_ext s t name : mdata s = mdata t -> (forall r, option_map ndir (get_node s r) = option_map ndir (get_node t r)) ->
  below_file s name = below_file t name.
Proof. intros Hd Hk. unfold below_file. now rewrite (below_file_walk_ext _ s t Hd Hk). Qed.

(* the check is not triggered from d upwards: the first existing name among d, Dir d, Dir (Dir d), ...
   is a directory, or the walk reaches the fixed point of filepath.Dir without meeting any *)
Inductive chain_clear (s : mst) : str -> Prop :=
| cc_dir d f n : lookup s (normalize_path d) = Some f -> get_node s f = Some n -> ndir n = true -> chain_clear s d
| cc_up d : lookup s (normalize_path d) = None -> chain_clear s (path_dir d) -> chain_clear s d
| cc_top d : lookup s (normalize_path d) = None -> path_dir d = d -> chain_clear s d.

Lemma chain_clear_walk s d : chain_clear s d -> forall fuel, below_file_walk fuel s d = false.
Proof.
  induction 1 as [d f n Hl Hn Hd | d Hl _ IH | d Hl Hfix]; intros fuel.
  - rewrite (below_file_walk_here fuel s d f n Hl Hn), Hd. reflexivity.
  - destruct fuel as [|fu]; cbn [below_file_walk]; unfold lockfree_open; rewrite Hl;
      destruct (beqb d (path_dir d)); try reflexivity. apply IH.
  - assert (E : beqb d (path_dir d) = true).
    { rewrite Hfix. clear. induction d as [|c d IH]; [reflexivity|]. cbn [beqb]. now rewrite N.eqb_refl. }
    destruct fuel; cbn [below_file_walk]; unfold lockfree_open; now rewrite Hl, E.
Qed.

(* Create / Mkdir / MkdirAll / OpenFile(O_CREATE) of name, Rename to name: not refused *)
Lemma chain_clear_below_file s name : chain_clear s (path_dir name) -> below_file s name = false.
Proof. intros H. unfold below_file. rewrite (chain_clear_walk s _ H). apply andb_false_r. Qed.

(* ... and that is stable under every change that keeps the path map and the kinds of the nodes *)
Lemma chain_clear_stable s t d : mdata t = mdata s ->
  (forall r n, get_node s r = Some n -> exists n', get_node t r = Some n' /\ ndir n' = ndir n) ->
  chain_clear s d -> chain_clear t d.
Proof.
  intros Hd Hk. induction 1 as [d f n Hl Hn Hdir | d Hl _ IH | d Hl Hfix].
  - destruct (Hk f n Hn) as (n' & Hn' & E). apply (cc_dir t d f n'); [unfold lookup in *; now rewrite Hd | exact Hn' | congruence].
  - apply cc_up; [unfold lookup in *; now rewrite Hd | exact IH].
  - apply cc_top; [unfold lookup in *; now rewrite Hd | exact Hfix].
Qed.
