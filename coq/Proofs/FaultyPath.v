(* Proofs/FaultyPath.v — the keys of the ancestors of a name never include the name itself
   (for a name in MemMapFs normal form other than the root): each step to the parent key
   drops at least one path segment. *)
From AF Require Import Lib.Bytes Lib.Path Lib.Ops Gen.Consts Model.MemFile Model.MemFs Proofs.PathProof Proofs.FaultyMem.

Definition nsegs (x : str) : nat := length (clean_segs x).

Lemma sla_free l : slash_free l -> split_last_aux l = None.
Proof.
  induction l as [|c l IH]; intros Hf; [reflexivity|]. cbn [split_last_aux].
  rewrite IH by (intros H; apply Hf; now right).
  destruct (N.eqb c SLASH) eqn:E; [|reflexivity]. apply N.eqb_eq in E. subst c. exfalso. apply Hf. now left.
Qed.

Lemma sla_app pre last : slash_free last -> split_last_aux (pre ++ SLASH :: last) = Some (pre ++ [SLASH], last).
Proof.
  intros Hf. induction pre as [|c pre IH].
  - cbn [app split_last_aux]. rewrite (sla_free last Hf). now rewrite N.eqb_refl.
  - cbn [app split_last_aux]. now rewrite IH.
Qed.

Lemma nsegs_normalize y : (nsegs (normalize_path y) <= nsegs y)%nat.
Proof.
  unfold normalize_path, nsegs. destruct (is_dot (clean y) || is_dotdot (clean y)).
  - cbn. lia.
  - now rewrite clean_segs_clean.
Qed.

Lemma nsegs_trailing_slash r init : nf r init -> init <> [] -> clean_segs (render r init ++ [SLASH]) = init.
Proof.
  intros Hnf Hi. change [SLASH] with (SLASH :: []).
  rewrite clean_segs_cat by now apply render_nonnil.
  rewrite norm_aux_app. change (split_slash []) with [[] : str].
  rewrite norm_aux_skip by now left. cbn [norm_aux]. rewrite rev_involutive.
  rewrite is_rooted_render by exact Hnf.
  pose proof (clean_segs_render r init Hnf) as H. unfold clean_segs in H.
  now rewrite is_rooted_render in H by exact Hnf.
Qed.

Lemma nsegs_dir_of_clean x : (nsegs (fst (path_split (clean x))) <= nsegs x - 1)%nat.
Proof.
  unfold nsegs at 2. pose proof (clean_segs_nf x) as Hnf. unfold clean.
  set (r := is_rooted x) in *. set (segs := clean_segs x) in *.
  destruct segs as [|s0 rest] eqn:Es.
  - destruct r; cbn; lia.
  - assert (Hne : s0 :: rest <> []) by discriminate.
    destruct (exists_last Hne) as (init & last & E). rewrite E in *. clear Hne.
    assert (Hlast : slash_free last).
    { destruct Hnf as [Hf _]. apply Forall_app in Hf as [_ Hf]. inversion Hf as [|? ? [_ [_ H]] _]. exact H. }
    rewrite app_length. cbn [length]. destruct init as [|i0 init'].
    + cbn [app]. destruct r; unfold render; change (join_slash [last]) with last.
      * unfold path_split. pose proof (sla_app [] last Hlast) as H0. cbn [app] in H0. rewrite H0. cbn. lia.
      * unfold path_split. rewrite (sla_free last Hlast). cbn. lia.
    + assert (Hinit : nf r (i0 :: init')) by (apply (nf_app_inv r _ [last]); exact Hnf).
      rewrite render_app; [|exact Hinit | discriminate | discriminate].
      change (join_slash [last]) with last. unfold path_split. rewrite (sla_app _ last Hlast). cbn [fst].
      unfold nsegs. rewrite nsegs_trailing_slash; [|exact Hinit | discriminate]. lia.
Qed.

Lemma nsegs_pkey x : (nsegs (pkey x) <= nsegs x - 1)%nat.
Proof.
  unfold pkey, path_dir. eapply Nat.le_trans; [apply nsegs_normalize|].
  unfold nsegs at 1. rewrite clean_segs_clean. apply nsegs_dir_of_clean.
Qed.

Lemma nsegs_anc fuel : forall x k, In k (anc_keys fuel x) -> (nsegs k <= nsegs x - 1)%nat.
Proof.
  induction fuel as [|fu IH]; intros x k; cbn [anc_keys]; [intros []|].
  intros [<-|H]; [apply nsegs_pkey|]. pose proof (IH _ _ H). pose proof (nsegs_pkey x). lia.
Qed.

Lemma nsegs_pos name : normalize_path name = name -> name <> s_slash -> (1 <= nsegs name)%nat.
Proof.
  intros Hn Hne. unfold nsegs. destruct (clean_segs name) as [|s0 rest] eqn:E; [|cbn; lia].
  exfalso. apply Hne. rewrite <- Hn. unfold normalize_path, clean. rewrite E.
  destruct (is_rooted name); reflexivity.
Qed.

(* the hypothesis of the C12 theorems holds for every normal-form name but the root *)
Theorem name_acyclic_normal name : normalize_path name = name -> name <> s_slash ->
  let pk := normalize_path (path_dir name) in ~ In name (pk :: anc_keys (S (length pk)) pk).
Proof.
  intros Hn Hne pk. pose proof (nsegs_pos name Hn Hne) as Hpos.
  assert (Hc : clean name = name) by (rewrite <- Hn; apply clean_normalize).
  assert (Hpk : pk = pkey name) by (unfold pk, pkey; now rewrite Hc).
  pose proof (nsegs_pkey name) as H1. rewrite <- Hpk in H1.
  intros [H|H].
  - rewrite H in H1. lia.
  - apply nsegs_anc in H. lia.
Qed.
