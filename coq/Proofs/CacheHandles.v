(* Proofs/CacheHandles.v — C11: what one method of a mem.File does to the state of a MemMapFs: only the handle
   itself and the node it refers to change; the path map never; a handle that is closed or read-only
   ("inert") does not change the bytes. *)
From AF Require Import Lib.Bytes Lib.Path Lib.Ops Gen.Consts Model.MemFile Model.MemFs Model.WfOps Model.Union Model.Cow
  Model.Cache Proofs.MemFsBasics Proofs.MemFsPath Proofs.MemFsWF Proofs.MemFsStep Proofs.MemFsInv Proofs.MemFileProof
  Proofs.MemFsRename Proofs.CacheProof Proofs.CacheInv Proofs.CacheFrames.
Local Open Scope Z_scope.

Definition meta_op (o : op) : bool :=
  match o with HClose _ | HReaddir _ _ | HReaddirnames _ _ | HStat _ | HName _ | HSync _ => true | _ => false end.
Definition close_op (o : op) : bool := match o with HClose _ => true | _ => false end.

Record HopEff (s s' : mst) (i : nat) (h h' : hnd) : Prop := mkHopEff {
  he_data : mdata s' = mdata s;
  he_heap : length (mheap s') = length (mheap s);
  he_hlen : length (mhandles s') = length (mhandles s);
  he_other : forall j, j <> i -> nth_error (mhandles s') j = nth_error (mhandles s) j;
  he_this : nth_error (mhandles s') i = Some h';
  he_href : href h' = href h;
  he_ro : hro h' = hro h;
  he_nodes : forall r, r <> href h -> get_node s' r = get_node s r;
  he_node : forall n, get_node s (href h) = Some n ->
            exists n', get_node s' (href h) = Some n' /\ ndir n' = ndir n /\ (inert h = true -> ndata n' = ndata n);
  he_inert : inert h = true -> inert h' = true
}.

Lemma hopeff_set s i h h' :
  nth_error (mhandles s) i = Some h -> href h' = href h -> hro h' = hro h -> (inert h = true -> inert h' = true) ->
  HopEff s (bump (set_handle s i h')) i h h'.
Proof.
  intros Hh Hf Hr Hi. split; try reflexivity; auto.
  - unfold bump, set_handle. cbn [mhandles]. apply list_set_len.
  - intros j Hj. unfold bump, set_handle. cbn [mhandles]. apply nth_error_list_set_neq. congruence.
  - unfold bump, set_handle. cbn [mhandles]. apply nth_error_list_set_eq. now apply nth_error_lt in Hh.
  - intros n Hn. exists n. auto.
Qed.

Lemma hopeff_same s i h :
  nth_error (mhandles s) i = Some h -> HopEff s (bump s) i h h.
Proof. intros Hh. split; try reflexivity; auto. intros n Hn. exists n. auto. Qed.

Lemma hopeff_upd s i h h' g :
  nth_error (mhandles s) i = Some h -> href h' = href h -> hro h' = hro h -> (inert h = true -> inert h' = true) ->
  (forall m, ndir (g m) = ndir m) -> (inert h = true -> forall m, ndata (g m) = ndata m) ->
  HopEff s (bump (upd_node (set_handle s i h') (href h) g)) i h h'.
Proof.
  intros Hh Hf Hr Hi Hg Hd. split; auto.
  - unfold bump. cbn [mdata]. now rewrite MemFsWF.mdata_upd.
  - unfold bump. cbn [mheap]. now rewrite mheap_upd_len.
  - unfold bump. cbn [mhandles]. rewrite MemFsWF.mhandles_upd. unfold set_handle. cbn [mhandles]. apply list_set_len.
  - intros j Hj. unfold bump. cbn [mhandles]. rewrite MemFsWF.mhandles_upd. unfold set_handle. cbn [mhandles]. apply nth_error_list_set_neq. congruence.
  - unfold bump. cbn [mhandles]. rewrite MemFsWF.mhandles_upd. unfold set_handle. cbn [mhandles]. apply nth_error_list_set_eq. now apply nth_error_lt in Hh.
  - intros r Hr0. change (get_node (upd_node (set_handle s i h') (href h) g) r = get_node s r). rewrite get_upd_other by congruence. reflexivity.
  - intros n Hn. exists (g n). split; [change (get_node (upd_node (set_handle s i h') (href h) g) (href h) = Some (g n)); now apply get_upd_same|].
    split; [apply Hg | intros Hin; now apply Hd].
Qed.

Lemma hopeff_upd_same s i h g :
  nth_error (mhandles s) i = Some h ->
  (forall m, ndir (g m) = ndir m) -> (inert h = true -> forall m, ndata (g m) = ndata m) ->
  HopEff s (bump (upd_node s (href h) g)) i h h.
Proof.
  intros Hh Hg Hd. split; auto.
  - unfold bump. cbn [mdata]. now rewrite MemFsWF.mdata_upd.
  - unfold bump. cbn [mheap]. now rewrite mheap_upd_len.
  - unfold bump. cbn [mhandles]. now rewrite MemFsWF.mhandles_upd.
  - intros j Hj. unfold bump. cbn [mhandles]. now rewrite MemFsWF.mhandles_upd.
  - unfold bump. cbn [mhandles]. now rewrite MemFsWF.mhandles_upd.
  - intros r Hr0. change (get_node (upd_node s (href h) g) r = get_node s r). rewrite get_upd_other by congruence. reflexivity.
  - intros n Hn. exists (g n). split; [change (get_node (upd_node s (href h) g) (href h) = Some (g n)); now apply get_upd_same|].
    split; [apply Hg | intros Hin; now apply Hd].
Qed.

Lemma put_data_eff s i h h' d :
  nth_error (mhandles s) i = Some h -> href h' = href h -> hro h' = hro h -> (inert h = true -> inert h' = true) ->
  (inert h = true -> d = None) ->
  HopEff s (bump (put_data (set_handle s i h') (href h) d)) i h h'.
Proof.
  intros Hh Hf Hr Hi Hd. destruct d as [d'|]; cbn [put_data].
  - apply hopeff_upd; auto. intros Hin. specialize (Hd Hin). discriminate.
  - now apply hopeff_set.
Qed.

Lemma inert_true_closed h : hclosed h = true -> inert h = true.
Proof. unfold inert. intros ->. apply orb_true_r. Qed.

(* ONE method on handle i *)
Theorem hop_eff s o i h n :
  op_handle_of o = Some i -> nth_error (mhandles s) i = Some h -> get_node s (href h) = Some n ->
  exists h', HopEff s (fst (m_step s o)) i h h' /\
             (meta_op o = true -> hat h' = hat h /\ hclosed h' = (hclosed h || close_op o)).
Proof.
  intros Ho Hh Hn. rewrite m_step_bump. cbn [fst].
  destruct o; try discriminate Ho; cbn [op_handle_of] in Ho; inversion Ho; subst; cbn [m_step_raw]; unfold m_hop; rewrite Hh, Hn.
  - (* Read *)
    pose proof (f_read_inert (ndata n) h n0) as Hi. pose proof (hsem_href (HRead i n0) h (ndata n)) as Hf.
    pose proof (hsem_caps (HRead i n0) h (ndata n)) as [_ Hr]. unfold h_new in Hf, Hr. cbn [hsem] in Hf, Hr.
    destruct (f_read (ndata n) h n0) as [h' r]. cbn [fst snd] in *. exists h'. split; [|discriminate].
    apply hopeff_set; auto. intros Hin. now rewrite Hi.
  - (* ReadAt *)
    pose proof (f_readat_handle (ndata n) h n0 off) as Hf. destruct (f_readat (ndata n) h n0 off) as [h' r]. cbn [fst snd] in *. subst h'.
    exists h. split; [|discriminate]. apply hopeff_set; auto.
  - (* Write *)
    pose proof (f_write_inert_h (ndata n) h b) as Hi. pose proof (f_write_inert (ndata n) h b) as Hd.
    pose proof (hsem_href (HWrite i b) h (ndata n)) as Hf. pose proof (hsem_caps (HWrite i b) h (ndata n)) as [_ Hr].
    unfold h_new in Hf, Hr. cbn [hsem] in Hf, Hr.
    destruct (f_write (ndata n) h b) as [[d h'] r]. cbn [fst snd] in *. exists h'. split; [|discriminate].
    apply put_data_eff; auto. intros Hin. now rewrite Hi.
  - (* WriteAt *)
    pose proof (f_writeat_handle (ndata n) h b off) as Hf. pose proof (f_writeat_inert (ndata n) h b off) as Hd.
    destruct (f_writeat (ndata n) h b off) as [[d h'] r]. cbn [fst snd] in *. subst h'. exists h. split; [|discriminate].
    apply put_data_eff; auto.
  - (* WriteString *)
    pose proof (f_write_inert_h (ndata n) h b) as Hi. pose proof (f_write_inert (ndata n) h b) as Hd.
    pose proof (hsem_href (HWrite i b) h (ndata n)) as Hf. pose proof (hsem_caps (HWrite i b) h (ndata n)) as [_ Hr].
    unfold h_new in Hf, Hr. cbn [hsem] in Hf, Hr.
    destruct (f_write (ndata n) h b) as [[d h'] r]. cbn [fst snd] in *. exists h'. split; [|discriminate].
    apply put_data_eff; auto. intros Hin. now rewrite Hi.
  - (* Seek *)
    pose proof (f_seek_inert (ndata n) h off whence) as Hi. pose proof (hsem_href (HSeek i off whence) h (ndata n)) as Hf.
    pose proof (hsem_caps (HSeek i off whence) h (ndata n)) as [_ Hr]. unfold h_new in Hf, Hr. cbn [hsem] in Hf, Hr.
    destruct (f_seek (ndata n) h off whence) as [h' r]. cbn [fst snd] in *. exists h'. split; [|discriminate].
    apply hopeff_set; auto. intros Hin. now rewrite Hi.
  - (* Truncate *)
    pose proof (f_truncate_inert (ndata n) h n0) as Hd. destruct (f_truncate (ndata n) h n0) as [d r]. cbn [fst snd] in *.
    exists h. split; [|discriminate]. destruct d as [d'|]; cbn [put_data].
    + apply hopeff_upd_same; auto. intros Hin. specialize (Hd Hin). discriminate.
    + now apply hopeff_same.
  - (* Close *)
    destruct (hclosed h) eqn:Hc; cbn [fst snd].
    + exists h. split; [now apply hopeff_same|]. intros _. split; [reflexivity | now rewrite Hc].
    + exists (set_closed h). split; [|intros _; split; reflexivity].
      destruct (hro h) eqn:Hr.
      * apply hopeff_set; auto. intros _. now apply inert_true_closed.
      * change (upd_node (set_handle s i (set_closed h)) (href h) (with_mtime (mclock s)))
          with (upd_node (set_handle s i (set_closed h)) (href h) (with_mtime (mclock s))).
        apply hopeff_upd; auto; try reflexivity. intros _. now apply inert_true_closed.
  - (* Readdir *)
    assert (Hm : exists h', HopEff s (bump (fst (fst (m_readdir s i h n0)))) i h h' /\ hat h' = hat h /\ hclosed h' = hclosed h).
    { unfold m_readdir. rewrite Hn. destruct (negb (ndir n)); cbn [fst].
      - exists h. split; [now apply hopeff_same | now split].
      - eexists. split; [apply hopeff_set; auto|split; reflexivity]. }
    destruct Hm as (h' & He & Ha & Hc). exists h'. destruct (m_readdir s i h n0) as [[s1 infos] e]. cbn [fst] in He.
    split; [|intros _; split; [exact Ha | rewrite Hc; now rewrite orb_false_r]].
    destruct e as [er|]; [destruct infos; [destruct (errk_eqb (ek er) KEOF)|]|]; exact He.
  - (* Readdirnames *)
    assert (Hm : exists h', HopEff s (bump (fst (fst (m_readdir s i h n0)))) i h h' /\ hat h' = hat h /\ hclosed h' = hclosed h).
    { unfold m_readdir. rewrite Hn. destruct (negb (ndir n)); cbn [fst].
      - exists h. split; [now apply hopeff_same | now split].
      - eexists. split; [apply hopeff_set; auto|split; reflexivity]. }
    destruct Hm as (h' & He & Ha & Hc). exists h'. destruct (m_readdir s i h n0) as [[s1 infos] e]. cbn [fst] in He.
    split; [|intros _; split; [exact Ha | rewrite Hc; now rewrite orb_false_r]].
    destruct e as [er|]; [destruct infos; [destruct (errk_eqb (ek er) KEOF)|]|]; exact He.
  - exists h. split; [now apply hopeff_same | intros _; split; [reflexivity | now rewrite orb_false_r]].
  - exists h. split; [now apply hopeff_same | intros _; split; [reflexivity | now rewrite orb_false_r]].
  - exists h. split; [now apply hopeff_same | intros _; split; [reflexivity | now rewrite orb_false_r]].
Qed.

(* the slot holds no handle, or the handle's node is gone: nothing happens *)
Lemma hop_nothing s o i :
  op_handle_of o = Some i ->
  (nth_error (mhandles s) i = None \/ exists h, nth_error (mhandles s) i = Some h /\ get_node s (href h) = None) ->
  fst (m_step s o) = bump s.
Proof.
  intros Ho H. rewrite m_step_bump. cbn [fst].
  destruct o; try discriminate Ho; cbn [op_handle_of] in Ho; inversion Ho; subst; cbn [m_step_raw]; unfold m_hop;
    (destruct H as [H|(h & H & Hn)]; [rewrite H | rewrite H, Hn]); reflexivity.
Qed.

(* Close, Readdir, Readdirnames, Stat, Name, Sync never change bytes *)
Lemma hop_meta_data s o i h n :
  meta_op o = true -> op_handle_of o = Some i -> nth_error (mhandles s) i = Some h -> get_node s (href h) = Some n ->
  exists n', get_node (fst (m_step s o)) (href h) = Some n' /\ ndata n' = ndata n.
Proof.
  intros Hm Ho Hh Hn. rewrite m_step_bump. cbn [fst].
  destruct o; try discriminate Hm; cbn [op_handle_of] in Ho; inversion Ho; subst; cbn [m_step_raw]; unfold m_hop; rewrite Hh, Hn.
  - destruct (hclosed h); cbn [fst]; [now exists n|]. destruct (hro h); [now exists n|].
    exists (with_mtime (mclock s) n). split; [|reflexivity].
    change (get_node (upd_node (set_handle s i (set_closed h)) (href h) (with_mtime (mclock s))) (href h) = Some (with_mtime (mclock s) n)).
    now apply get_upd_same.
  - assert (Hx : get_node (fst (fst (m_readdir s i h n0))) (href h) = Some n).
    { unfold m_readdir. rewrite Hn. destruct (negb (ndir n)); exact Hn. }
    destruct (m_readdir s i h n0) as [[s1 infos] e]. cbn [fst] in Hx. exists n. split; [|reflexivity].
    destruct e as [er|]; [destruct infos; [destruct (errk_eqb (ek er) KEOF)|]|]; exact Hx.
  - assert (Hx : get_node (fst (fst (m_readdir s i h n0))) (href h) = Some n).
    { unfold m_readdir. rewrite Hn. destruct (negb (ndir n)); exact Hn. }
    destruct (m_readdir s i h n0) as [[s1 infos] e]. cbn [fst] in Hx. exists n. split; [|reflexivity].
    destruct e as [er|]; [destruct infos; [destruct (errk_eqb (ek er) KEOF)|]|]; exact Hx.
  - now exists n.
  - now exists n.
  - now exists n.
Qed.

(* the frame of one method: names unchanged, the node of the handle keeps its kind; the content of a directory
   is safe when handles on directories are inert *)
Lemma hopeff_frame s s' i h h' :
  HopEff s s' i h h' -> (forall n, get_node s (href h) = Some n -> ndir n = true -> inert h = true) ->
  Frame Some s s' /\ dkeep (only (href h)) s s'.
Proof.
  intros [Hd Hl _ _ _ _ _ Hn Hx _] Hdir. split; [split|].
  - intros k. left. cbn [olookup]. unfold lookup. now rewrite Hd.
  - intros r n Hr. destruct (Nat.eq_dec r (href h)) as [->|Hne].
    + destruct (Hx n Hr) as (n' & A & B & C). exists n'. split; [exact A|]. split; [exact B|]. intros Hdn. apply C. now apply (Hdir n).
    + exists n. rewrite (Hn r Hne). auto.
  - intros k r n' _ Hf Hn'. exfalso. apply get_some_lt in Hn'. unfold fresh_in in Hf. lia.
  - lia.
  - intros r n n' Hr Hr' HX. rewrite (Hn r) in Hr' by (intros E; now apply HX). congruence.
Qed.

(* ---------- a method of a UnionFile: at most one method on each inner handle ---------- *)
Definition side_step (o : op) (s s' : mst) (h : nat) : Prop :=
  (s' = s /\ close_op o = false) \/
  (exists ob, op_handle_of ob = Some h /\ s' = fst (m_step s ob) /\ (forall x, WfOps.wf_op_ord x o = true -> WfOps.wf_op_ord x ob = true) /\
              (meta_op o = true -> meta_op ob = true /\ close_op ob = close_op o)).

Ltac side_same := left; split; reflexivity.
Ltac side_by E := right; eexists;
  (split; [|split; [symmetry; exact (f_equal fst E) | split;
     [intros x Hx; try exact Hx; reflexivity | intros Hm; try discriminate Hm; split; reflexivity]]]); reflexivity.

Lemma uf_op_sides sb sl u o i bh lh sb' sl' u' r :
  op_handle_of o = Some i -> ubase u = Some bh -> ulayer u = Some lh ->
  uf_op m_step m_step sb sl u o = (sb', sl', u', r) ->
  side_step o sb sb' bh /\ side_step o sl sl' lh /\ ubase u' = Some bh /\ ulayer u' = Some lh.
Proof.
  intros Ho Hb Hl H. destruct u as [ob ol off files]. cbn [ubase ulayer] in Hb, Hl. subst ob ol.
  destruct o; try discriminate Ho; cbn [uf_op ubase ulayer uoff ufiles] in H.
  - (* Read *)
    destruct (m_step sl (HRead lh n)) as [sl1 r1] eqn:El.
    destruct (ok_or_eof (res_err r1)).
    + destruct (m_step sb (HSeek bh (count_of r1) 1)) as [sb1 rs] eqn:Eb.
      destruct (res_err rs); inversion H; subst; (split; [side_by Eb | split; [side_by El | split; reflexivity]]).
    + inversion H; subst. split; [side_same | split; [side_by El | split; reflexivity]].
  - (* ReadAt *)
    destruct (m_step sl (HReadAt lh n off0)) as [sl1 r1] eqn:El.
    destruct ((union_readat_seeks_base =? 1) && ok_or_eof (res_err r1)).
    + destruct (m_step sb (HSeek bh (off0 + count_of r1) 0)) as [sb1 rs] eqn:Eb.
      inversion H; subst. split; [side_by Eb | split; [side_by El | split; reflexivity]].
    + inversion H; subst. split; [side_same | split; [side_by El | split; reflexivity]].
  - (* Write *)
    cbn [op_set_handle] in H. destruct (m_step sl (HWrite lh b)) as [sl1 r1] eqn:El.
    destruct (res_err r1).
    + inversion H; subst. split; [side_same | split; [side_by El | split; reflexivity]].
    + destruct (m_step sb (HWrite bh b)) as [sb1 rb] eqn:Eb. inversion H; subst.
      split; [side_by Eb | split; [side_by El | split; reflexivity]].
  - (* WriteAt *)
    cbn [op_set_handle] in H. destruct (m_step sl (HWriteAt lh b off0)) as [sl1 r1] eqn:El.
    destruct (res_err r1).
    + inversion H; subst. split; [side_same | split; [side_by El | split; reflexivity]].
    + destruct (m_step sb (HWriteAt bh b off0)) as [sb1 rb] eqn:Eb. inversion H; subst.
      split; [side_by Eb | split; [side_by El | split; reflexivity]].
  - (* WriteString *)
    cbn [op_set_handle] in H. destruct (m_step sl (HWriteString lh b)) as [sl1 r1] eqn:El.
    destruct (res_err r1).
    + inversion H; subst. split; [side_same | split; [side_by El | split; reflexivity]].
    + destruct (m_step sb (HWriteString bh b)) as [sb1 rb] eqn:Eb. inversion H; subst.
      split; [side_by Eb | split; [side_by El | split; reflexivity]].
  - (* Seek *)
    destruct (m_step sl (HSeek lh off0 whence)) as [sl1 r1] eqn:El.
    destruct (ok_or_eof (res_err r1)).
    + destruct (m_step sb (HSeek bh off0 whence)) as [sb1 rs] eqn:Eb. inversion H; subst.
      split; [side_by Eb | split; [side_by El | split; reflexivity]].
    + inversion H; subst. split; [side_same | split; [side_by El | split; reflexivity]].
  - (* Truncate *)
    cbn [op_set_handle] in H. destruct (m_step sl (HTruncate lh n)) as [sl1 r1] eqn:El.
    destruct (res_err r1).
    + inversion H; subst. split; [side_same | split; [side_by El | split; reflexivity]].
    + destruct (m_step sb (HTruncate bh n)) as [sb1 rb] eqn:Eb. inversion H; subst.
      split; [side_by Eb | split; [side_by El | split; reflexivity]].
  - (* Close *)
    destruct (m_step sl (HClose lh)) as [sl1 r1] eqn:El. inversion H; subst.
    split; [right; exists (HClose bh); split; [reflexivity|]; split; [reflexivity|]; split; [auto | intros _; split; reflexivity]|].
    split; [side_by El | split; reflexivity].
  - (* Readdir *)
    destruct (uoff (mkUF (Some bh) (Some lh) off files) =? 0) eqn:E0; cbn [uoff] in E0; rewrite E0 in H.
    + destruct (m_step sl (HReaddir lh (-1))) as [sl1 r1] eqn:El.
      assert (Hlay : side_step (HReaddir h n) sl sl1 lh) by (side_by El).
      destruct r1 as [| | | | | | | | |l e|l e|]; try (destruct (res_err _)); try destruct e;
        cbn [res_err] in H;
        try (inversion H; subst; split; [side_same | split; [exact Hlay | split; reflexivity]]).
      all: destruct (m_step sb (HReaddir bh (-1))) as [sb1 rb] eqn:Eb;
        assert (Hbas : side_step (HReaddir h n) sb sb1 bh) by (side_by Eb).
      all: destruct rb as [| | | | | | | | |l2 e2|l2 e2|]; try (destruct (res_err _)); try destruct e2; cbn [res_err] in H;
        repeat match type of H with context [if ?c then _ else _] => destruct c end;
        inversion H; subst; (split; [exact Hbas | split; [exact Hlay | split; reflexivity]]).
    + repeat match type of H with context [if ?c then _ else _] => destruct c end;
        inversion H; subst; (split; [side_same | split; [side_same | split; reflexivity]]).
  - (* Readdirnames *)
    destruct (uoff (mkUF (Some bh) (Some lh) off files) =? 0) eqn:E0; cbn [uoff] in E0; rewrite E0 in H.
    + destruct (m_step sl (HReaddir lh (-1))) as [sl1 r1] eqn:El.
      assert (Hlay : side_step (HReaddirnames h n) sl sl1 lh) by (side_by El).
      destruct r1 as [| | | | | | | | |l e|l e|]; try (destruct (res_err _)); try destruct e;
        cbn [res_err] in H;
        try (inversion H; subst; split; [side_same | split; [exact Hlay | split; reflexivity]]).
      all: destruct (m_step sb (HReaddir bh (-1))) as [sb1 rb] eqn:Eb;
        assert (Hbas : side_step (HReaddirnames h n) sb sb1 bh) by (side_by Eb).
      all: destruct rb as [| | | | | | | | |l2 e2|l2 e2|]; try (destruct (res_err _)); try destruct e2; cbn [res_err] in H;
        repeat match type of H with context [if ?c then _ else _] => destruct c end;
        inversion H; subst; (split; [exact Hbas | split; [exact Hlay | split; reflexivity]]).
    + repeat match type of H with context [if ?c then _ else _] => destruct c end;
        inversion H; subst; (split; [side_same | split; [side_same | split; reflexivity]]).
  - (* Stat *)
    destruct (m_step sl (HStat lh)) as [sl1 r1] eqn:El. inversion H; subst.
    split; [side_same | split; [side_by El | split; reflexivity]].
  - (* Name *)
    destruct (m_step sl (HName lh)) as [sl1 r1] eqn:El. inversion H; subst.
    split; [side_same | split; [side_by El | split; reflexivity]].
  - (* Sync *)
    cbn [op_set_handle] in H. destruct (m_step sl (HSync lh)) as [sl1 r1] eqn:El.
    destruct (res_err r1).
    + inversion H; subst. split; [side_same | split; [side_by El | split; reflexivity]].
    + destruct (m_step sb (HSync bh)) as [sb1 rb] eqn:Eb. inversion H; subst.
      split; [side_by Eb | split; [side_by El | split; reflexivity]].
Qed.

(* a method that does not write: the frame and the bytes *)
Lemma meta_step s o i h n :
  meta_op o = true -> op_handle_of o = Some i -> nth_error (mhandles s) i = Some h -> get_node s (href h) = Some n ->
  let s' := fst (m_step s o) in
  Frame Some s s' /\ dkeep nobody s s' /\ (forall j, j <> i -> nth_error (mhandles s') j = nth_error (mhandles s) j) /\
  length (mhandles s') = length (mhandles s) /\ (forall k, lookup s' k = lookup s k).
Proof.
  intros Hm Ho Hh Hn s'. destruct (hop_eff s o i h n Ho Hh Hn) as (h' & E & _). fold s' in E.
  destruct (hop_meta_data s o i h n Hm Ho Hh Hn) as (n' & Hn' & Hd'). fold s' in Hn'.
  split.
  - split.
    + intros k. left. cbn [olookup]. unfold lookup. now rewrite (he_data _ _ _ _ _ E).
    + intros r m Hr. destruct (Nat.eq_dec r (href h)) as [->|Hne].
      * rewrite Hn in Hr. inversion Hr; subst m. destruct (he_node _ _ _ _ _ E n Hn) as (n2 & Hn2 & Hd2 & _).
        exists n2. split; [exact Hn2|]. split; [exact Hd2|]. intros _. congruence.
      * exists m. rewrite (he_nodes _ _ _ _ _ E r Hne). auto.
    + intros k r m _ Hf Hr. exfalso. apply get_some_lt in Hr. rewrite (he_heap _ _ _ _ _ E) in Hr. unfold fresh_in in Hf. lia.
    + rewrite (he_heap _ _ _ _ _ E). lia.
  - split.
    + intros r m m' Hr Hr' _. destruct (Nat.eq_dec r (href h)) as [->|Hne]; [congruence|].
      rewrite (he_nodes _ _ _ _ _ E r Hne) in Hr'. congruence.
    + split; [exact (he_other _ _ _ _ _ E)|]. split; [exact (he_hlen _ _ _ _ _ E)|].
      intros k. unfold lookup. now rewrite (he_data _ _ _ _ _ E).
Qed.
