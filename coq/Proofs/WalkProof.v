(* Proofs/WalkProof.v — C16: afero.Walk (with the final SkipDir -> nil conversion) and
   path/filepath.Walk are the same function of (tree, root, callback machine, initial state);
   without the conversion they differ (refutation with a concrete witness). *)
From AF Require Import Lib.Bytes Lib.Path Gen.Consts Model.Walk.

(* ---------- induction principle for the nested tree type ---------- *)
Section TreeInd.
  Variable P : tree -> Prop.
  Hypothesis HF : P F.
  Hypothesis HD : forall kids, Forall (fun nc => P (snd nc)) kids -> P (D kids).
  Fixpoint tree_ind' (t : tree) : P t :=
    match t with
    | F => HF
    | D kids =>
      HD kids ((fix go (l : list (str * tree)) : Forall (fun nc => P (snd nc)) l :=
                  match l with
                  | [] => Forall_nil _
                  | nc :: r => Forall_cons nc (tree_ind' (snd nc)) (go r)
                  end) kids)
    end.
End TreeInd.

(* ---------- sorting only looks at the names ---------- *)
Definition on_snd {A B} (g : A -> B) (x : str * A) : str * B := (fst x, g (snd x)).

Lemma insert_by_map : forall A B (g : A -> B) x l,
  insert_by (on_snd g x) (map (on_snd g) l) = map (on_snd g) (insert_by x l).
Proof.
  intros A B g x l. induction l as [|y r IH]; cbn [insert_by map]; [reflexivity|].
  unfold on_snd at 1 2. cbn [fst].
  destruct (bltb (fst x) (fst y)); cbn [map]; [reflexivity|].
  f_equal. exact IH.
Qed.

Lemma sort_by_name_map : forall A B (g : A -> B) l,
  sort_by_name (map (on_snd g) l) = map (on_snd g) (sort_by_name l).
Proof.
  intros A B g l. unfold sort_by_name. induction l as [|x r IH]; cbn [map fold_right]; [reflexivity|].
  rewrite IH. apply insert_by_map.
Qed.

Lemma Forall_insert_by : forall A (P : str * A -> Prop) x l,
  P x -> Forall P l -> Forall P (insert_by x l).
Proof.
  intros A P x l Hx Hl. induction Hl as [|y r Hy Hr IH]; cbn [insert_by].
  - constructor; [exact Hx|constructor].
  - destruct (bltb (fst x) (fst y)).
    + constructor; [exact Hx|]. constructor; assumption.
    + constructor; assumption.
Qed.

Lemma Forall_sort_by_name : forall A (P : str * A -> Prop) l,
  Forall P l -> Forall P (sort_by_name l).
Proof.
  intros A P l Hl. unfold sort_by_name. induction Hl as [|x r Hx Hr IH]; cbn [fold_right].
  - constructor.
  - apply Forall_insert_by; assumption.
Qed.

Section Proof.
  Variable S : Type.
  Variable cb : S -> visit -> S * action.

  (* what a caller of walk can tell apart: a directory's SkipDir is as good as nil *)
  Definition norm (d : bool) (a : action) : action :=
    if d then match a with SkipDir => Continue | _ => a end else a.
  Definition post (d : bool) (r : S * action) : S * action := (fst r, norm d (snd r)).

  Definition node_agree (t : tree) : Prop :=
    forall path s, post (isdir t) (afero_walk_node cb t path s) = post (isdir t) (std_walk_node cb t path s).

  Definition mkA (c : tree) : walker S := (isdir c, afero_walk_node cb c).
  Definition mkS (c : tree) : walker S := (isdir c, std_walk_node cb c).

  Lemma map_mkA : forall kids,
    map (fun nc : str * tree => match nc with (n, c) => (n, (isdir c, afero_walk_node cb c)) end) kids
    = map (on_snd mkA) kids.
  Proof. intros kids. apply map_ext. intros [n c]. reflexivity. Qed.
  Lemma map_mkS : forall kids,
    map (fun nc : str * tree => match nc with (n, c) => (n, (isdir c, std_walk_node cb c)) end) kids
    = map (on_snd mkS) kids.
  Proof. intros kids. apply map_ext. intros [n c]. reflexivity. Qed.

  (* the two loops are equal as soon as the children agree up to [post] *)
  Lemma loops_agree : forall path l,
    Forall (fun nc => node_agree (snd nc)) l ->
    forall s, afero_loop path (map (on_snd mkA) l) s = std_loop path (map (on_snd mkS) l) s.
  Proof.
    intros path l Hl. induction Hl as [|[n c] r Hc Hr IH]; intros s; cbn [map afero_loop std_loop].
    - reflexivity.
    - change (on_snd mkA (n, c)) with (n, (isdir c, afero_walk_node cb c)).
      change (on_snd mkS (n, c)) with (n, (isdir c, std_walk_node cb c)).
      cbv beta iota.
      cbn [snd] in Hc. specialize (Hc (path_join [path; n]) s). unfold post in Hc.
      destruct (afero_walk_node cb c (path_join [path; n]) s) as [sa a].
      destruct (std_walk_node cb c (path_join [path; n]) s) as [ss b].
      cbn [fst snd] in Hc. injection Hc as Hs Hn. subst ss.
      unfold norm in Hn.
      destruct (isdir c); destruct a; destruct b; cbn [negb orb] in *; try discriminate; try apply IH;
        try reflexivity; try (injection Hn as Hn; subst; reflexivity).
  Qed.

  Lemma nodes_agree : forall t, node_agree t.
  Proof.
    induction t as [|kids IH] using tree_ind'; intros path s.
    - (* a file *)
      cbn [afero_walk_node std_walk_node isdir].
      destruct (cb s (mkVisit path (Some false) None)) as [s1 a]. destruct a; reflexivity.
    - cbn [afero_walk_node std_walk_node isdir].
      destruct (cb s (mkVisit path (Some true) None)) as [s1 a]. destruct a; try reflexivity.
      rewrite map_mkA, map_mkS, !sort_by_name_map.
      rewrite (loops_agree path (sort_by_name kids)); [reflexivity|].
      apply Forall_sort_by_name. exact IH.
  Qed.

  Definition conv (r : S * action) : S * action :=
    match snd r with SkipDir => (fst r, Continue) | a => (fst r, a) end.

  Lemma conv_post : forall d r1 r2, post d r1 = post d r2 -> conv r1 = conv r2.
  Proof.
    intros d [s1 a1] [s2 a2]. unfold post, conv, norm. cbn [fst snd]. intros H.
    injection H as Hs Ha. subst s2.
    destruct d; destruct a1; destruct a2; try discriminate; try reflexivity;
      try (injection Ha as Ha; subst; reflexivity).
  Qed.

  (* main theorem: the patched afero.Walk IS filepath.Walk *)
  Theorem afero_walk_eq_std : forall t root s,
    afero_walk cb t root s = std_walk cb t root s.
  Proof.
    intros t root s. unfold afero_walk, afero_walk_gen, std_walk.
    destruct (lookup t root) as [n|].
    - pose proof (conv_post _ _ _ (nodes_agree n root s)) as H. unfold conv in H.
      destruct (afero_walk_node cb n root s) as [s1 a1].
      destruct (std_walk_node cb n root s) as [s2 a2]. cbn [fst snd] in H.
      destruct a1; destruct a2; exact H.
    - destruct (cb s (mkVisit root None (Some ENOENT))) as [s1 a]. destruct a; reflexivity.
  Qed.

  (* today's afero.Walk differs from filepath.Walk exactly by the final conversion *)
  Theorem afero_walk_current_vs_std : forall t root s,
    conv (afero_walk_current cb t root s) = std_walk cb t root s.
  Proof.
    intros t root s. rewrite <- afero_walk_eq_std.
    unfold afero_walk, afero_walk_current, afero_walk_gen, conv.
    destruct (match lookup t root with
              | Some n => afero_walk_node cb n root s
              | None => cb s (mkVisit root None (Some ENOENT)) end) as [s1 a].
    destruct a; reflexivity.
  Qed.

  (* ... hence the same visits / final state always, and the same error unless it is SkipDir *)
  Corollary afero_walk_current_state : forall t root s,
    fst (afero_walk_current cb t root s) = fst (std_walk cb t root s).
  Proof.
    intros t root s. rewrite <- afero_walk_current_vs_std. unfold conv.
    destruct (afero_walk_current cb t root s) as [s1 a]. destruct a; reflexivity.
  Qed.

  Corollary afero_walk_current_err : forall t root s,
    snd (afero_walk_current cb t root s) <> SkipDir ->
    afero_walk_current cb t root s = std_walk cb t root s.
  Proof.
    intros t root s H. rewrite <- afero_walk_current_vs_std. unfold conv.
    destruct (afero_walk_current cb t root s) as [s1 a]. cbn [snd fst] in *.
    destruct a; try reflexivity. contradiction.
  Qed.

  Corollary std_walk_never_skipdir : forall t root s, snd (std_walk cb t root s) <> SkipDir.
  Proof.
    intros t root s. unfold std_walk.
    destruct (match lookup t root with
              | Some n => std_walk_node cb n root s
              | None => cb s (mkVisit root None (Some ENOENT)) end) as [s1 a].
    destruct a; cbn [snd]; discriminate.
  Qed.
End Proof.

(* the model of /repo's current text follows the generated constant *)
Theorem afero_walk_repo_eq_std_iff :
  (forall S (cb : S -> visit -> S * action) t root s, afero_walk_repo cb t root s = std_walk cb t root s)
  <-> walk_skipdir_to_nil = 1%Z.
Proof.
  split.
  - intros H. destruct (Z.eqb walk_skipdir_to_nil 1) eqn:E; [apply Z.eqb_eq; exact E|].
    exfalso.
    specialize (H unit (fun s _ => (s, SkipDir)) F [] tt).
    unfold afero_walk_repo in H. rewrite E in H. vm_compute in H. discriminate H.
  - intros E S cb t root s. unfold afero_walk_repo. rewrite E. cbn [Z.eqb Pos.eqb].
    apply afero_walk_eq_std.
Qed.

(* ---------- refutation for the code as pinned ---------- *)
(* D[ "a" = F ], root "/", callback: SkipDir on the first non-directory, nil otherwise *)
Definition cx_tree : tree := D [([97%N], F)].
Definition cx_cb (s : unit) (v : visit) : unit * action :=
  match v_info v with Some false => (s, SkipDir) | _ => (s, Continue) end.

Theorem afero_walk_current_refuted :
  exists (t : tree) (root : str) (cb : unit -> visit -> unit * action) (s0 : unit),
    afero_walk_current cb t root s0 <> std_walk cb t root s0.
Proof.
  exists cx_tree, [SLASH], cx_cb, tt. vm_compute. discriminate.
Qed.

(* the three shapes of the defect *)
Example cx_file_under_root :
  run_afero_current cx_tree [SLASH] [TCont; TSkip] =
    ([mkVisit [47] (Some true) None; mkVisit [47; 97] (Some false) None]%N, SkipDir)
  /\ run_std cx_tree [SLASH] [TCont; TSkip] =
    ([mkVisit [47] (Some true) None; mkVisit [47; 97] (Some false) None]%N, Continue).
Proof. split; vm_compute; reflexivity. Qed.
Example cx_root_is_file :
  run_afero_current cx_tree [47; 97]%N [TSkip] = ([mkVisit [47; 97]%N (Some false) None], SkipDir)
  /\ run_std cx_tree [47; 97]%N [TSkip] = ([mkVisit [47; 97]%N (Some false) None], Continue).
Proof. split; vm_compute; reflexivity. Qed.
Example cx_root_missing :
  run_afero_current cx_tree [47; 98]%N [TSkip] = ([mkVisit [47; 98]%N None (Some ENOENT)], SkipDir)
  /\ run_std cx_tree [47; 98]%N [TSkip] = ([mkVisit [47; 98]%N None (Some ENOENT)], Continue).
Proof. split; vm_compute; reflexivity. Qed.
