(* Proofs/UnionWriteShort.v — UnionFile.Write / WriteAt / WriteString and a base handle that takes fewer bytes than
   the layer handle without reporting an error (what the fault kind short:k of the C12 harness does to the disk
   level of a two-level cache, where the copy-up writes through a UnionFile).

   The tree as pinned dropped the base's count (`_, err = f.Base.Write(s)`): the union handle reported a complete
   write, io.Copy and copyFile's size check were satisfied and the disk level kept a truncated file
   (C12 signatures partial-copy:cache2open|cache2openfile|cache2opencreate:D.HWrite).  Since the repair the three
   methods compare the counts and return (base count, io.ErrShortWrite); the translator reads that from the AST of
   unionFile.go as unionfile_write_checks_base_count (harness/cmd/afcheck/c12_consts.go). *)
From AF Require Import Lib.Bytes Lib.Path Lib.Ops Gen.Consts Model.Union.
Local Open Scope Z_scope.

(* the fact about the source the "today" theorem rests on.  Compiles iff Gen/Consts.v says so. *)
Lemma unionfile_write_checks_base_count_fact : unionfile_write_checks_base_count = 1.
Proof. reflexivity. Qed.

Lemma is_write_op_set_handle o h : is_write_op (op_set_handle o h) = is_write_op o.
Proof. destruct o; reflexivity. Qed.

(* one step of a UnionFile with both handles whose layer call succeeded, for ANY two filesystems and either shape of
   the source *)
Lemma uf_op_write_both {B L : Type} (bstep : B -> op -> B * res) (lstep : L -> op -> L * res)
    (sb : B) (sl : L) (u : ufile) (o : op) (lh bh : nat) (sl1 : L) (sb1 : B) (r rb : res) :
  is_write_op o = true -> ulayer u = Some lh -> ubase u = Some bh ->
  lstep sl (op_set_handle o lh) = (sl1, r) -> res_err r = None ->
  bstep sb (op_set_handle o bh) = (sb1, rb) ->
  uf_op bstep lstep sb sl u o = (sb1, sl1, u, union_write_result o r rb).
Proof.
  intros Hw Hl Hb Hls Hr Hbs.
  destruct o; try discriminate Hw; cbn [uf_op]; rewrite Hl, Hb; cbn [op_set_handle] in *; rewrite Hls, Hr, Hbs; reflexivity.
Qed.

(* today's source: the base's short count comes back, with io.ErrShortWrite *)
Theorem union_write_reports_base_short {B L : Type} (bstep : B -> op -> B * res) (lstep : L -> op -> L * res)
    (sb : B) (sl : L) (u : ufile) (o : op) (lh bh : nat) (sl1 : L) (sb1 : B) (n nb : Z) :
  is_write_op o = true -> ulayer u = Some lh -> ubase u = Some bh ->
  lstep sl (op_set_handle o lh) = (sl1, RCount n None) ->
  bstep sb (op_set_handle o bh) = (sb1, RCount nb None) ->
  uf_op bstep lstep sb sl u o =
    (sb1, sl1, u, if nb <? n then RCount nb (Some (E KShortWrite)) else RCount n None).
Proof.
  intros Hw Hl Hb Hls Hbs.
  rewrite (uf_op_write_both bstep lstep sb sl u o lh bh sl1 sb1 _ _ Hw Hl Hb Hls eq_refl Hbs).
  unfold union_write_result, union_write_result_gen. rewrite unionfile_write_checks_base_count_fact, Hw.
  cbn [Z.eqb Pos.eqb andb]. destruct (nb <? n); reflexivity.
Qed.

(* ... and the error of the base call is handed on as before (either shape of the source) *)
Lemma union_write_base_error {B L : Type} (bstep : B -> op -> B * res) (lstep : L -> op -> L * res)
    (sb : B) (sl : L) (u : ufile) (o : op) (lh bh : nat) (sl1 : L) (sb1 : B) (n nb : Z) (e : err) :
  is_write_op o = true -> ulayer u = Some lh -> ubase u = Some bh ->
  lstep sl (op_set_handle o lh) = (sl1, RCount n None) ->
  bstep sb (op_set_handle o bh) = (sb1, RCount nb (Some e)) ->
  uf_op bstep lstep sb sl u o = (sb1, sl1, u, RCount n (Some e)).
Proof.
  intros Hw Hl Hb Hls Hbs.
  rewrite (uf_op_write_both bstep lstep sb sl u o lh bh sl1 sb1 _ _ Hw Hl Hb Hls eq_refl Hbs). reflexivity.
Qed.

(* the source before the repair (any value of the switch other than 1): whatever the base's count, the union
   handle reports the layer's count and no error — the short write is masked; with the switch at 1 the same
   arguments give the short count and the error *)
Theorem union_write_masks_base_short_before_fix (chk : Z) (o : op) (n nb : Z) :
  chk <> 1 -> union_write_result_gen chk o (RCount n None) (RCount nb None) = RCount n None.
Proof.
  intros Hc. unfold union_write_result_gen. destruct (Z.eqb_spec chk 1) as [E|E]; [contradiction|]. reflexivity.
Qed.

Theorem union_write_masks_witness :
  exists (o : op) (r rb : res),
    is_write_op o = true /\ res_err r = None /\ res_err rb = None /\
    union_write_result_gen 0 o r rb = r /\                                   (* 5 bytes, no error: masked *)
    union_write_result_gen 1 o r rb = RCount 3 (Some (E KShortWrite)).       (* repaired: 3 bytes, ErrShortWrite *)
Proof.
  exists (HWrite 0 [1;2;3;4;5]%N), (RCount 5 None), (RCount 3 None). vm_compute. repeat split; reflexivity.
Qed.
