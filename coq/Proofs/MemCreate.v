(* Proofs/MemCreate.v — lemmas shared by IOUtilProof (C17) and TempProof (C18):
   filepath.Split of a cleaned path, association-list / list_set facts, and what creating a
   file or directory does to a MemMapFs state (m_create_node, m_mkdir, registerWithParent). *)
From AF Require Import Lib.Bytes Lib.Path Lib.Ops Gen.Consts Model.MemFile Model.MemFs
  Proofs.BytesLemmas Proofs.PathProof Proofs.MemFsBasics.
Local Open Scope Z_scope.

(* ------------------------------------------------------------------------------------ *)
(** * filepath.Split *)

Lemma split_last_aux_free b : slash_free b -> split_last_aux b = None.
Proof.
  induction b as [|c b IH]; intros Hf; [reflexivity|].
  cbn [split_last_aux]. rewrite IH by (intros H; apply Hf; now right).
  destruct (N.eqb c SLASH) eqn:E; [|reflexivity].
  apply N.eqb_eq in E. exfalso. apply Hf. now left.
Qed.

Lemma split_last_aux_app a b : slash_free b ->
  split_last_aux (a ++ SLASH :: b) = Some (a ++ [SLASH], b).
Proof.
  intros Hf. induction a as [|c a IH].
  - cbn [app split_last_aux]. rewrite split_last_aux_free by exact Hf. now rewrite N.eqb_refl.
  - cbn [app split_last_aux]. now rewrite IH.
Qed.

Lemma path_split_app a b : slash_free b -> path_split (a ++ SLASH :: b) = (a ++ [SLASH], b).
Proof. intros Hf. unfold path_split. now rewrite split_last_aux_app. Qed.

Lemma path_split_free b : slash_free b -> path_split b = ([], b).
Proof. intros Hf. unfold path_split. now rewrite split_last_aux_free. Qed.

Lemma split_last_aux_spec s d f : split_last_aux s = Some (d, f) ->
  exists d', d = d' ++ [SLASH] /\ s = d' ++ SLASH :: f /\ slash_free f.
Proof.
  revert d f. induction s as [|c s IH]; intros d f H; [discriminate|].
  cbn [split_last_aux] in H. destruct (split_last_aux s) as [[d0 f0]|] eqn:E.
  - inversion H; subst. destruct (IH _ _ eq_refl) as [d' [-> [-> Hf]]].
    exists (c :: d'). now repeat split.
  - destruct (N.eqb c SLASH) eqn:Ec; [|discriminate]. inversion H; subst.
    apply N.eqb_eq in Ec. subst c. exists []. repeat split.
    clear -E. induction f as [|x f IH]; [intros []|].
    cbn [split_last_aux] in E. destruct (split_last_aux f) as [[? ?]|]; [discriminate|].
    destruct (N.eqb x SLASH) eqn:Ex; [discriminate|]. apply N.eqb_neq in Ex.
    intros [H|H]; [congruence | now apply IH].
Qed.

Lemma split_last_aux_none s : split_last_aux s = None -> slash_free s.
Proof.
  induction s as [|x f IH]; intros E; [intros []|].
  cbn [split_last_aux] in E. destruct (split_last_aux f) as [[? ?]|]; [discriminate|].
  destruct (N.eqb x SLASH) eqn:Ex; [discriminate|]. apply N.eqb_neq in Ex.
  intros [H|H]; [congruence | now apply IH].
Qed.

(* filepath.Split: path = dir ++ file; file has no separator; dir is "" or ends in one *)
Lemma path_split_spec s :
  s = fst (path_split s) ++ snd (path_split s) /\ slash_free (snd (path_split s)) /\
  (fst (path_split s) = [] \/ exists d', fst (path_split s) = d' ++ [SLASH]).
Proof.
  unfold path_split. destruct (split_last_aux s) as [[d f]|] eqn:E.
  - destruct (split_last_aux_spec _ _ _ E) as [d' [-> [-> Hf]]]. cbn [fst snd].
    split; [now rewrite <- app_assoc | split; [exact Hf | right; now exists d']].
  - cbn [fst snd]. split; [reflexivity | split; [now apply split_last_aux_none | now left]].
Qed.

(* a good final path element: non-empty, not "." or "..", no separator *)
Definition good_seg (b : str) : Prop := normal_seg b /\ slash_free b.

Lemma good_seg_ok b : good_seg b -> seg_ok b /\ not_dd b.
Proof. intros [[H1 [H2 H3]] H4]. now repeat split. Qed.

Lemma nf_snoc_good r l b : nf r l -> good_seg b -> nf r (l ++ [b]).
Proof. intros Hl Hb. apply good_seg_ok in Hb as [H1 H2]. now apply nf_snoc. Qed.

Lemma clean_dir_slash r l : nf r l -> l <> [] -> clean (render r l ++ [SLASH]) = render r l.
Proof.
  intros Hnf Hl. unfold clean.
  assert (Hn : render r l <> []) by now apply render_nonnil.
  assert (Hr : is_rooted (render r l ++ [SLASH]) = r).
  { rewrite is_rooted_app by exact Hn. now apply is_rooted_render. }
  rewrite Hr. f_equal. unfold clean_segs. rewrite Hr.
  change (render r l ++ [SLASH]) with (render r l ++ SLASH :: []).
  rewrite split_slash_app_gen, norm_aux_app. change (split_slash []) with [[] : str].
  rewrite norm_aux_skip by now left. cbn [norm_aux]. rewrite rev_involutive.
  rewrite norm_split_render by exact Hnf. now apply (norm_aux_id r l []).
Qed.

(* the directory part of a cleaned path whose last element is [b] *)
Lemma path_split_render r l b : nf r (l ++ [b]) ->
  snd (path_split (render r (l ++ [b]))) = b /\
  clean (fst (path_split (render r (l ++ [b])))) = render r l.
Proof.
  intros Hnf. pose proof (nf_app_inv _ _ _ Hnf) as Hl.
  assert (Hb : slash_free b).
  { apply nf_slash_free in Hnf. rewrite Forall_forall in Hnf. apply Hnf, in_or_app. right. now left. }
  destruct l as [|x l].
  - cbn [app]. destruct r; cbn [render join_slash].
    + change (SLASH :: b) with ([] ++ SLASH :: b). rewrite path_split_app by exact Hb. now split.
    + rewrite path_split_free by exact Hb. now split.
  - rewrite render_app by (try exact Hl; discriminate). cbn [join_slash].
    rewrite path_split_app by exact Hb. cbn [fst snd]. split; [reflexivity|].
    apply clean_dir_slash; [exact Hl | discriminate].
Qed.

Lemma render_snoc_neq r l b : nf r (l ++ [b]) -> render r (l ++ [b]) <> render r l.
Proof.
  intros Hnf E. pose proof (nf_app_inv _ _ _ Hnf) as Hl.
  apply (f_equal clean_segs) in E. rewrite !clean_segs_render in E by assumption.
  apply (f_equal (@length str)) in E. rewrite app_length in E. cbn in E. lia.
Qed.

Lemma render_not_dots r l b : nf r (l ++ [b]) -> good_seg b ->
  is_dot (render r (l ++ [b])) || is_dotdot (render r (l ++ [b])) = false.
Proof.
  intros Hnf [[Hb1 [Hb2 Hb3]] _]. apply orb_false_iff. split.
  - apply beqb_false_iff. intros E. apply (f_equal clean_segs) in E.
    rewrite clean_segs_render in E by exact Hnf. change (clean_segs s_dot) with ([] : list str) in E.
    destruct l; discriminate.
  - apply beqb_false_iff. intros E. apply (f_equal clean_segs) in E.
    rewrite clean_segs_render in E by exact Hnf. change (clean_segs s_dotdot) with [s_dotdot] in E.
    destruct l as [|x l]; [inversion E; congruence|]. destruct l; discriminate.
Qed.

Lemma normalize_render_snoc r l b : nf r (l ++ [b]) -> good_seg b ->
  normalize_path (render r (l ++ [b])) = render r (l ++ [b]).
Proof.
  intros Hnf Hb. unfold normalize_path. rewrite clean_render by exact Hnf.
  now rewrite render_not_dots.
Qed.

(* join2 dir b for a good element b: the cleaned directory followed by b *)
Lemma join2_good dir b : dir <> [] -> good_seg b ->
  join2 dir b = render (is_rooted dir) (clean_segs dir ++ [b]).
Proof.
  intros Hd Hb. rewrite <- join2_clean_l by exact Hd. rewrite join2_render. f_equal.
  unfold joined_segs. destruct Hb as [[Hb1 [Hb2 Hb3]] Hb4].
  rewrite split_slash_free by exact Hb4. rewrite norm_aux_push by assumption.
  cbn [norm_aux rev]. now rewrite rev_involutive.
Qed.

Theorem join2_good_split dir b : dir <> [] -> good_seg b ->
  snd (path_split (join2 dir b)) = b /\ path_dir (join2 dir b) = clean dir /\
  normalize_path (join2 dir b) = join2 dir b /\ join2 dir b <> clean dir.
Proof.
  intros Hd Hb. rewrite join2_good by assumption.
  assert (Hnf : nf (is_rooted dir) (clean_segs dir ++ [b])) by (apply nf_snoc_good; [apply clean_segs_nf | exact Hb]).
  destruct (path_split_render _ _ _ Hnf) as [H1 H2]. unfold path_dir.
  repeat split; [exact H1 | exact H2 | now apply normalize_render_snoc | now apply render_snoc_neq].
Qed.

(* the normalised form of a path whose last element (filepath.Split) is a good element *)
Lemma normalize_by_split p :
  let D := fst (path_split p) in let b := snd (path_split p) in
  good_seg b ->
  nf (is_rooted D) (clean_segs D ++ [b]) /\ normalize_path p = render (is_rooted D) (clean_segs D ++ [b]).
Proof.
  intros D b Hb. destruct (path_split_spec p) as [Hp [Hsf HD]]. fold D b in Hp, Hsf, HD.
  clearbody D b. subst p.
  assert (Hnf : nf (is_rooted D) (clean_segs D ++ [b])) by (apply nf_snoc_good; [apply clean_segs_nf | exact Hb]).
  split; [exact Hnf|].
  assert (Hc : is_rooted (D ++ b) = is_rooted D /\ clean_segs (D ++ b) = clean_segs D ++ [b]).
  { destruct Hb as [[Hb1 [Hb2 Hb3]] Hb4]. destruct HD as [HD | [D' HD]].
    - subst D. cbn [app].
      assert (Hr : is_rooted b = false).
      { destruct b as [|c b']; [reflexivity|]. cbn [is_rooted]. destruct (N.eqb c SLASH) eqn:E; [|reflexivity].
        apply N.eqb_eq in E. exfalso. apply Hb4. now left. }
      split; [exact Hr|]. unfold clean_segs. rewrite Hr.
      rewrite split_slash_free by exact Hb4. rewrite norm_aux_push by assumption. reflexivity.
    - assert (Hr : is_rooted (D ++ b) = is_rooted D).
      { rewrite HD. rewrite <- app_assoc. destruct D'; reflexivity. }
      split; [exact Hr|]. unfold clean_segs at 1. rewrite Hr.
      rewrite HD at 2. rewrite <- app_assoc. cbn [app].
      rewrite split_slash_app_gen. rewrite (split_slash_free b) by exact Hb4.
      rewrite norm_aux_app. rewrite norm_aux_push by assumption. cbn [norm_aux rev]. rewrite rev_involutive.
      f_equal. unfold clean_segs. rewrite HD at 3.
      change (D' ++ [SLASH]) with (D' ++ SLASH :: []). rewrite split_slash_app_gen, norm_aux_app.
      change (split_slash []) with [[] : str]. rewrite norm_aux_skip by now left. cbn [norm_aux].
      now rewrite rev_involutive. }
  destruct Hc as [Hr Hs].
  assert (Hcl : clean (D ++ b) = render (is_rooted D) (clean_segs D ++ [b])) by (unfold clean; now rewrite Hr, Hs).
  unfold normalize_path. rewrite Hcl. now rewrite render_not_dots.
Qed.

(* ------------------------------------------------------------------------------------ *)
(** * association lists and list_set *)

Lemma alist_get_set {A} k k' (v : A) l :
  alist_get k (alist_set k' v l) = if beqb k k' then Some v else alist_get k l.
Proof.
  induction l as [|[k0 v0] l IH]; cbn [alist_set alist_get].
  - reflexivity.
  - destruct (beqb k' k0) eqn:E.
    + apply beqb_true_iff in E. subst k0. cbn [alist_get]. now destruct (beqb k k').
    + cbn [alist_get]. destruct (beqb k k0) eqn:E0; [|exact IH].
      apply beqb_true_iff in E0. subst k0. destruct (beqb k k') eqn:E1; [|reflexivity].
      apply beqb_true_iff in E1. subst k'. rewrite beqb_refl in E. discriminate.
Qed.

Lemma alist_get_set_same {A} k (v : A) l : alist_get k (alist_set k v l) = Some v.
Proof. now rewrite alist_get_set, beqb_refl. Qed.

Lemma alist_get_set_other {A} k k' (v : A) l : k <> k' -> alist_get k (alist_set k' v l) = alist_get k l.
Proof. intros H. rewrite alist_get_set. apply beqb_false_iff in H. now rewrite H. Qed.

Lemma list_set_length {A} i (v : A) l : length (list_set i v l) = length l.
Proof. revert i; induction l as [|x l IH]; intros [|i]; cbn; auto. Qed.

Lemma nth_error_list_set_same {A} i (v : A) l : (i < length l)%nat -> nth_error (list_set i v l) i = Some v.
Proof. revert i; induction l as [|x l IH]; intros [|i] H; cbn in *; try lia; [reflexivity | apply IH; lia]. Qed.

Lemma nth_error_list_set_other {A} i j (v : A) l : i <> j -> nth_error (list_set i v l) j = nth_error l j.
Proof.
  revert i j; induction l as [|x l IH]; intros [|i] [|j] H; cbn; try reflexivity; try congruence.
  apply IH. congruence.
Qed.

Lemma nth_error_snoc {A} (l : list A) x : nth_error (l ++ [x]) (length l) = Some x.
Proof. rewrite nth_error_app2 by lia. now rewrite Nat.sub_diag. Qed.

Lemma nth_error_snoc_lt {A} (l : list A) x i : (i < length l)%nat -> nth_error (l ++ [x]) i = nth_error l i.
Proof. intros H. now rewrite nth_error_app1. Qed.

Lemma nth_error_some_lt {A} (l : list A) i x : nth_error l i = Some x -> (i < length l)%nat.
Proof. intros H. apply nth_error_Some. congruence. Qed.

(* ------------------------------------------------------------------------------------ *)
(** * MemMapFs: elementary state updates *)

Lemma get_node_lt s x n : get_node s x = Some n -> (x < length (mheap s))%nat.
Proof. apply nth_error_some_lt. Qed.

Lemma get_upd_same s x g n : get_node s x = Some n -> get_node (upd_node s x g) x = Some (g n).
Proof.
  intros H. unfold upd_node. rewrite H. unfold get_node, set_node. cbn [mheap].
  apply nth_error_list_set_same. now apply get_node_lt in H.
Qed.

Lemma get_upd_other s x y g : x <> y -> get_node (upd_node s x g) y = get_node s y.
Proof.
  intros H. unfold upd_node. destruct (get_node s x); [|reflexivity].
  unfold get_node, set_node. cbn [mheap]. now apply nth_error_list_set_other.
Qed.

Lemma upd_node_data s x g : mdata (upd_node s x g) = mdata s.
Proof. unfold upd_node. now destruct (get_node s x). Qed.
Lemma upd_node_handles s x g : mhandles (upd_node s x g) = mhandles s.
Proof. unfold upd_node. now destruct (get_node s x). Qed.
Lemma upd_node_clock s x g : mclock (upd_node s x g) = mclock s.
Proof. unfold upd_node. now destruct (get_node s x). Qed.
Lemma upd_node_heap_length s x g : length (mheap (upd_node s x g)) = length (mheap s).
Proof. unfold upd_node. destruct (get_node s x); [|reflexivity]. cbn [set_node mheap]. apply list_set_length. Qed.

Lemma lookup_upd s x g k : lookup (upd_node s x g) k = lookup s k.
Proof. unfold lookup. now rewrite upd_node_data. Qed.

(* every path of the map points into the heap *)
Definition mem_wf (s : mst) : Prop :=
  forall k v, lookup s k = Some v -> (v < length (mheap s))%nat.

Lemma mem_wf_init : mem_wf m_init.
Proof.
  intros k v. unfold lookup, m_init. cbn [mdata alist_get mheap length].
  destruct (beqb k s_slash); [|discriminate]. intros H. inversion H. lia.
Qed.

(* ------------------------------------------------------------------------------------ *)
(** * registerWithParent *)

Definition parent_key (nm : str) : str := normalize_path (path_dir nm).

Lemma reg_parent_present s f perm d :
  lookup s (parent_key (node_name s f)) = Some d -> reg s f perm = add_kid s d f.
Proof.
  intros H. unfold reg. cbn [register]. unfold find_parent, lockfree_open.
  unfold parent_key, path_dir in H. now rewrite H.
Qed.

Lemma add_kid_data s p f : mdata (add_kid s p f) = mdata s.
Proof. apply upd_node_data. Qed.

(* registering never removes or re-points a path and never shrinks the heap *)
Lemma register_preserves fuel : forall s f perm,
  (forall k x, lookup s k = Some x -> lookup (register fuel s f perm) k = Some x) /\
  (length (mheap s) <= length (mheap (register fuel s f perm)))%nat /\
  mhandles (register fuel s f perm) = mhandles s /\ mclock (register fuel s f perm) = mclock s.
Proof.
  induction fuel as [|fu IH]; intros s f perm.
  - cbn [register]. destruct (find_parent s f) as [p|].
    + unfold add_kid. repeat split; [intros k x; now rewrite lookup_upd | now rewrite upd_node_heap_length
        | apply upd_node_handles | apply upd_node_clock].
    + repeat split; auto.
  - cbn [register]. destruct (find_parent s f) as [p|].
    + unfold add_kid. repeat split; [intros k x; now rewrite lookup_upd | now rewrite upd_node_heap_length
        | apply upd_node_handles | apply upd_node_clock].
    + set (pn := normalize_path (path_dir (clean (node_name s f)))).
      destruct (lookup s pn) as [x|] eqn:Ex.
      * destruct (get_node s x) as [nx|]; [|repeat split; auto].
        destruct (ndir nx); [|repeat split; auto].
        destruct (lockfree_open s (path_dir (clean (node_name s f)))) as [p|]; [|repeat split; auto].
        unfold add_kid. repeat split; [intros k y; now rewrite lookup_upd | now rewrite upd_node_heap_length
          | apply upd_node_handles | apply upd_node_clock].
      * unfold alloc_node. set (nd := with_mode _ _).
        set (s2 := set_data _ _).
        destruct (IH s2 (length (mheap s)) perm) as [Hl [Hh [Hhd Hck]]].
        assert (Hl2 : forall k y, lookup s k = Some y -> lookup s2 k = Some y).
        { intros k y Hk. unfold s2, lookup, set_data. cbn [mdata]. rewrite alist_get_set_other; [exact Hk|].
          intros ->. unfold lookup in *. congruence. }
        assert (Hh2 : (length (mheap s) <= length (mheap s2))%nat).
        { unfold s2, set_data. cbn [mheap]. rewrite app_length. lia. }
        set (s3 := register fu s2 (length (mheap s)) perm) in *.
        destruct (lockfree_open s3 (path_dir (clean (node_name s f)))) as [p|].
        -- unfold add_kid. repeat split.
           ++ intros k y Hk. rewrite lookup_upd. now apply Hl, Hl2.
           ++ rewrite upd_node_heap_length. lia.
           ++ rewrite upd_node_handles. exact Hhd.
           ++ rewrite upd_node_clock. exact Hck.
        -- repeat split; [intros k y Hk; now apply Hl, Hl2 | lia | exact Hhd | exact Hck].
Qed.

Lemma reg_preserves s f perm :
  (forall k x, lookup s k = Some x -> lookup (reg s f perm) k = Some x) /\
  (length (mheap s) <= length (mheap (reg s f perm)))%nat /\
  mhandles (reg s f perm) = mhandles s /\ mclock (reg s f perm) = mclock s.
Proof. apply register_preserves. Qed.

(* ------------------------------------------------------------------------------------ *)
(** * a new node whose parent directory is present *)

Definition attach (s : mst) (name : str) (nd : node) (perm : Z) : mst :=
  let '(s1, f) := alloc_node s nd in
  reg (set_data s1 (alist_set name f (mdata s1))) f perm.

Definition kid_added (name : str) (f : nat) (dn : node) : node :=
  with_kids (alist_set name f (nkids (init_dir dn))) (init_dir dn).

Lemma attach_parent_present s name nd perm d dn :
  nname nd = name -> lookup s (parent_key name) = Some d -> get_node s d = Some dn ->
  parent_key name <> name ->
  let f := length (mheap s) in
  let s3 := attach s name nd perm in
  mdata s3 = alist_set name f (mdata s) /\ mhandles s3 = mhandles s /\ mclock s3 = mclock s /\
  length (mheap s3) = S (length (mheap s)) /\
  get_node s3 f = Some nd /\ get_node s3 d = Some (kid_added name f dn) /\
  (forall x, x <> d -> x <> f -> get_node s3 x = get_node s x).
Proof.
  intros Hnm Hp Hd Hne f s3. unfold s3, attach, alloc_node. fold f.
  set (s2 := set_data _ _).
  assert (Hdlt : (d < length (mheap s))%nat) by now apply get_node_lt in Hd.
  assert (Hf2 : get_node s2 f = Some nd) by (unfold s2, get_node, set_data; cbn [mheap]; apply nth_error_snoc).
  assert (Hnn : node_name s2 f = name) by (unfold node_name; now rewrite Hf2).
  assert (Hd2 : get_node s2 d = Some dn).
  { unfold s2, get_node, set_data. cbn [mheap]. rewrite nth_error_snoc_lt by exact Hdlt. exact Hd. }
  assert (Hreg : reg s2 f perm = add_kid s2 d f).
  { apply reg_parent_present. rewrite Hnn. unfold s2, lookup, set_data. cbn [mdata].
    rewrite alist_get_set_other by exact Hne. exact Hp. }
  rewrite Hreg. unfold add_kid. rewrite Hnn.
  assert (Hdf : d <> f) by (unfold f; lia).
  repeat split.
  - now rewrite upd_node_data.
  - now rewrite upd_node_handles.
  - now rewrite upd_node_clock.
  - rewrite upd_node_heap_length. unfold s2, set_data. cbn [mheap]. rewrite app_length. cbn. lia.
  - rewrite get_upd_other by exact Hdf. exact Hf2.
  - rewrite (get_upd_same _ _ _ _ Hd2). reflexivity.
  - intros x Hxd Hxf. rewrite get_upd_other by congruence.
    unfold s2, get_node, set_data. cbn [mheap].
    destruct (Nat.lt_ge_cases x (length (mheap s))) as [Hlt|Hge].
    + now rewrite nth_error_snoc_lt.
    + assert (Hn1 : nth_error (mheap s) x = None) by now apply nth_error_None.
      rewrite Hn1. apply nth_error_None. rewrite app_length. cbn. unfold f in Hxf. lia.
Qed.

Lemma m_create_node_attach s name :
  m_create_node s name = (attach s name (new_file name (mclock s)) 0, length (mheap s)).
Proof. reflexivity. Qed.

(* the general case (any chain of missing ancestors): the path is bound to the fresh node,
   no other path is lost, nothing is removed from the heap *)
Lemma attach_general s name nd perm :
  let f := length (mheap s) in
  let s3 := attach s name nd perm in
  lookup s3 name = Some f /\ (f < length (mheap s3))%nat /\
  (forall k x, k <> name -> lookup s k = Some x -> lookup s3 k = Some x) /\
  mhandles s3 = mhandles s /\ mclock s3 = mclock s.
Proof.
  intros f s3. unfold s3, attach, alloc_node. fold f. set (s2 := set_data _ _).
  destruct (reg_preserves s2 f perm) as [Hl [Hh [Hhd Hck]]].
  assert (H2 : lookup s2 name = Some f) by (unfold s2, lookup, set_data; cbn [mdata]; apply alist_get_set_same).
  repeat split.
  - now apply Hl.
  - eapply Nat.lt_le_trans; [|exact Hh]. unfold s2, set_data. cbn [mheap]. rewrite app_length. cbn. unfold f. lia.
  - intros k x Hk Hx. apply Hl. unfold s2, lookup, set_data. cbn [mdata].
    rewrite alist_get_set_other by exact Hk. exact Hx.
  - exact Hhd.
  - exact Hck.
Qed.

(* ------------------------------------------------------------------------------------ *)
(** * the parent of a normalised path *)

Lemma parent_key_render r l b : nf r (l ++ [b]) -> good_seg b ->
  parent_key (render r (l ++ [b])) = normalize_path (render r l) /\ parent_key (render r (l ++ [b])) <> render r (l ++ [b]).
Proof.
  intros Hnf Hb. destruct (path_split_render _ _ _ Hnf) as [_ H2].
  assert (E : parent_key (render r (l ++ [b])) = normalize_path (render r l)).
  { unfold parent_key, path_dir. now rewrite H2. }
  split; [exact E|]. rewrite E. intros Heq. apply (f_equal clean_segs) in Heq.
  rewrite (clean_segs_render _ _ Hnf) in Heq.
  pose proof (nf_app_inv _ _ _ Hnf) as Hl.
  unfold normalize_path in Heq. rewrite (clean_render _ _ Hl) in Heq.
  destruct (is_dot (render r l) || is_dotdot (render r l)).
  - change (clean_segs s_slash) with ([] : list str) in Heq. destruct l; discriminate.
  - rewrite (clean_segs_render _ _ Hl) in Heq. apply (f_equal (@length str)) in Heq.
    rewrite app_length in Heq. cbn in Heq. lia.
Qed.

Theorem parent_key_by_split p :
  good_seg (snd (path_split p)) ->
  parent_key (normalize_path p) = normalize_path (fst (path_split p)) /\ parent_key (normalize_path p) <> normalize_path p.
Proof.
  intros Hb. destruct (normalize_by_split p Hb) as [Hnf ->].
  destruct (parent_key_render _ _ _ Hnf Hb) as [H1 H2]. split; [|exact H2].
  rewrite H1. change (render (is_rooted (fst (path_split p))) (clean_segs (fst (path_split p))))
    with (clean (fst (path_split p))). apply normalize_clean.
Qed.
