(* Proofs/GcsProof.v — C20: the data path of gcsfs (Model/Gcs.v) against the flat byte array of
   Model/ByteFile.v, and the folder rules against the object list. *)
From AF Require Import Lib.Bytes Lib.Path Lib.Ops Gen.Consts Model.ByteFile Model.Gcs Model.GcsFs.
From AF Require Import Proofs.BytesLemmas.
Local Open Scope Z_scope.

(* ------------------------------------------------------------------ association lists *)
Lemma beqb_refl a : beqb a a = true.
Proof. induction a as [|x a IH]; simpl; [reflexivity|]. now rewrite N.eqb_refl, IH. Qed.

Lemma beqb_eq a b : beqb a b = true <-> a = b.
Proof.
  revert b; induction a as [|x a IH]; intros [|y b]; simpl; split; try discriminate; try reflexivity.
  - rewrite andb_true_iff, N.eqb_eq, IH. now intros [-> ->].
  - intros H; inversion H; subst. now rewrite N.eqb_refl, beqb_refl.
Qed.

Lemma beqb_neq a b : a <> b -> beqb a b = false.
Proof. intros H. destruct (beqb a b) eqn:E; [|reflexivity]. now apply beqb_eq in E. Qed.

Lemma alist_get_set_same {A} k (v : A) l : alist_get k (alist_set k v l) = Some v.
Proof.
  induction l as [|[k' v'] l IH]; simpl.
  - now rewrite beqb_refl.
  - destruct (beqb k k') eqn:E; simpl; [now rewrite beqb_refl | now rewrite E].
Qed.

Lemma alist_get_set_other {A} k k' (v : A) l : k' <> k -> alist_get k' (alist_set k v l) = alist_get k' l.
Proof.
  intros Hne. induction l as [|[k2 v2] l IH]; simpl.
  - now rewrite (beqb_neq k' k).
  - destruct (beqb k k2) eqn:E; simpl.
    + apply beqb_eq in E; subst k2. now rewrite (beqb_neq k' k).
    + now rewrite IH.
Qed.

(* ------------------------------------------------------------------ list arithmetic *)
Lemma zlen_app {A} (a b : list A) : zlen (a ++ b) = zlen a + zlen b.
Proof. unfold zlen. rewrite app_length. lia. Qed.
Lemma zlen_nonneg {A} (a : list A) : 0 <= zlen a.
Proof. unfold zlen. lia. Qed.
Lemma zlen_firstn {A} (l : list A) n : 0 <= n <= zlen l -> zlen (firstn (Z.to_nat n) l) = n.
Proof. unfold zlen. intros H. rewrite firstn_length. lia. Qed.
Lemma skipn_all2' {A} (l : list A) n : (length l <= n)%nat -> skipn n l = [].
Proof. intros H. apply skipn_all2. exact H. Qed.
Lemma skipn_skipn' {A} (l : list A) a b : skipn a (skipn b l) = skipn (b + a) l.
Proof.
  revert l; induction b as [|b IH]; intros l; simpl; [reflexivity|].
  destruct l; [now rewrite !skipn_nil | apply IH].
Qed.

(* ------------------------------------------------------------------ the invariant of an open handle *)
(* the resource denotes a valid object of the bucket *)
Definition rvalid (bkt : str) (r : resource) : Prop :=
  r_bk r = bkt /\ r_path r <> [] /\ split_name (r_name r) = (bkt, r_path r).

(* [data] is what the object will hold once the pending I/O of the resource is committed *)
Definition content (objs : gstore) (r : resource) (data : bytes) : Prop :=
  match r_writer r with
  | None =>
    alist_get (r_path r) objs = Some data /\
    match r_reader r with
    | None => True
    | Some rem => 0 <= r_off r /\ rem = skipn (Z.to_nat (r_off r)) data
    end
  | Some w =>
    r_reader r = None /\
    exists old, alist_get (r_path r) objs = Some old /\ r_size r = zlen old /\ 0 <= r_off r /\
                zlen w = r_off r /\ data = w ++ skipn (Z.to_nat (r_off r)) old
  end.

(* every other object is untouched *)
Definition frame (path : str) (objs objs' : gstore) : Prop :=
  forall k, k <> path -> alist_get k objs' = alist_get k objs.

Lemma frame_refl p o : frame p o o.
Proof. intros k _. reflexivity. Qed.
Lemma frame_trans p a b c : frame p a b -> frame p b c -> frame p a c.
Proof. intros H1 H2 k Hk. now rewrite H2, H1. Qed.
Lemma frame_set p o v : frame p o (alist_set p v o).
Proof. intros k Hk. now apply alist_get_set_other. Qed.

Lemma o_check_valid bkt r : rvalid bkt r -> o_check bkt (r_bk r) (r_path r) = None.
Proof.
  intros (Hb & Hp & _). unfold o_check. rewrite Hb, beqb_refl. simpl.
  destruct (r_path r); [contradiction | reflexivity].
Qed.

Lemma rvalid_set_io bkt r sz off rd wr : rvalid bkt r -> rvalid bkt (set_io r sz off rd wr).
Proof. intros H; exact H. Qed.

(* committing: afterwards the bucket holds [data], nothing is pending *)
Lemma close_io_ok bkt (objs : gstore) r (data : bytes) :
  rvalid bkt r -> content objs r data ->
  exists objs' r',
    close_io bkt objs r = (objs', r', None) /\
    alist_get (r_path r) objs' = Some data /\ frame (r_path r) objs objs' /\
    r_reader r' = None /\ r_writer r' = None /\
    r_name r' = r_name r /\ r_bk r' = r_bk r /\ r_path r' = r_path r.
Proof.
  intros Hv Hc. pose proof (o_check_valid _ _ Hv) as Hck.
  unfold close_io, close_writer, content in *. cbn [set_io r_writer r_off r_size r_bk r_path r_reader r_name].
  destruct (r_writer r) as [w|] eqn:Ew.
  - destruct Hc as (_ & old & Hg & Hsz & Hoff & Hw & Hd).
    destruct (r_off r <? r_size r) eqn:Elt.
    + apply Z.ltb_lt in Elt.
      unfold o_range. rewrite Hck, Hg.
      replace (r_off r <? 0) with false by (symmetry; apply Z.ltb_ge; lia).
      replace (zlen old <? r_off r) with false by (symmetry; apply Z.ltb_ge; lia).
      cbn [orb andb Z.leb]. change (0 <=? -1) with false. cbn [andb].
      unfold o_put. rewrite Hck.
      eexists _, _. split; [reflexivity|]. cbn.
      rewrite alist_get_set_same, Hd. repeat split; auto using frame_set.
    + apply Z.ltb_ge in Elt.
      unfold o_put. rewrite Hck.
      eexists _, _. split; [reflexivity|]. cbn.
      rewrite alist_get_set_same, Hd.
      rewrite (skipn_all2' old) by (unfold zlen in *; lia).
      repeat split; auto using frame_set.
  - destruct Hc as (Hg & _). eexists _, _. split; [reflexivity|]. cbn.
    repeat split; auto using frame_refl.
Qed.

Lemma nfi_file bkt (objs : gstore) r (d : bytes) :
  rvalid bkt r -> alist_get (r_path r) objs = Some d ->
  new_file_info bkt objs (r_name r) = inr (mkGI (r_name r) false (zlen d)).
Proof.
  intros Hv Hg. pose proof (o_check_valid _ _ Hv) as Hck. destruct Hv as (Hb & Hp & Hs).
  unfold new_file_info. rewrite Hs. unfold get_bucket. rewrite beqb_refl.
  unfold o_attrs. rewrite <- Hb at 2. rewrite Hck, Hg. reflexivity.
Qed.

Lemma attrs_file bkt (objs : gstore) r (d : bytes) :
  rvalid bkt r -> alist_get (r_path r) objs = Some d ->
  o_attrs bkt objs (r_bk r) (r_path r) = inr (zlen d).
Proof. intros Hv Hg. unfold o_attrs. now rewrite (o_check_valid _ _ Hv), Hg. Qed.

Lemma range_tail bkt (objs : gstore) r (d : bytes) off :
  rvalid bkt r -> alist_get (r_path r) objs = Some d -> 0 <= off <= zlen d ->
  o_range bkt objs (r_bk r) (r_path r) off (-1) = inr (skipn (Z.to_nat off) d).
Proof.
  intros Hv Hg Ho. unfold o_range. rewrite (o_check_valid _ _ Hv), Hg.
  replace (off <? 0) with false by (symmetry; apply Z.ltb_ge; lia).
  replace (zlen d <? off) with false by (symmetry; apply Z.ltb_ge; lia).
  reflexivity.
Qed.

(* one Read on the open reader *)
Lemma rd_take_ok r (data : bytes) n :
  0 < n -> 0 <= r_off r ->
  exists r' e,
    rd_take r (skipn (Z.to_nat (r_off r)) data) n = (r', pread data (Z.to_nat (r_off r)) (Z.to_nat n), e) /\
    (e = None \/ e = Some GEOF) /\
    r_writer r' = r_writer r /\ 0 <= r_off r' /\
    r_reader r' = Some (skipn (Z.to_nat (r_off r')) data) /\
    r_name r' = r_name r /\ r_bk r' = r_bk r /\ r_path r' = r_path r.
Proof.
  intros Hn Hoff. unfold rd_take, pread.
  set (rem := skipn (Z.to_nat (r_off r)) data).
  destruct rem as [|x rem'] eqn:Erem.
  - eexists _, _. split; [rewrite firstn_nil; reflexivity|]. cbn.
    repeat split; auto. fold rem. now rewrite Erem.
  - eexists _, _. split; [reflexivity|]. cbn [set_io r_writer r_off r_reader r_name r_bk r_path].
    repeat split; auto.
    + pose proof (zlen_nonneg (firstn (Z.to_nat n) (x :: rem'))). lia.
    + f_equal. rewrite <- Erem. unfold rem. rewrite skipn_skipn'.
      set (m := Z.to_nat n). set (o := Z.to_nat (r_off r)).
      assert (Hlen : length (skipn o data) = (length data - o)%nat) by apply skipn_length.
      destruct (Nat.le_gt_cases m (length data - o)) as [Hle|Hgt].
      * f_equal. unfold zlen. rewrite firstn_length, Hlen. lia.
      * rewrite (skipn_all2' data (o + m)) by lia.
        rewrite skipn_all2'; [reflexivity|].
        unfold zlen. rewrite firstn_length, Hlen. lia.
Qed.

Ltac splits := repeat match goal with |- _ /\ _ => split end.

Lemma rvalid_names bkt r r' :
  r_name r' = r_name r -> r_bk r' = r_bk r -> r_path r' = r_path r -> rvalid bkt r -> rvalid bkt r'.
Proof. unfold rvalid. intros -> -> ->. auto. Qed.

(* resource.ReadAt inside the object: the bytes of the flat array *)
Lemma read_ok bkt (objs : gstore) r (data : bytes) n off :
  rvalid bkt r -> content objs r data -> 0 <= n -> 0 <= off <= zlen data ->
  exists objs' r' e,
    res_read_at bkt objs r n off = (objs', r', pread data (Z.to_nat off) (Z.to_nat n), e) /\
    (e = None \/ e = Some GEOF) /\
    content objs' r' data /\ rvalid bkt r' /\ frame (r_path r) objs objs' /\ r_path r' = r_path r.
Proof.
  intros Hv Hc Hn Hoff. unfold res_read_at.
  destruct (n <=? 0) eqn:En.
  { apply Z.leb_le in En. assert (n = 0) by lia. subst n.
    exists objs, r, None. unfold pread. simpl. splits; auto using frame_refl. }
  apply Z.leb_gt in En.
  destruct (if off =? r_off r then r_reader r else None) as [rem|] eqn:Efast.
  - destruct (off =? r_off r) eqn:Eo; [|discriminate]. apply Z.eqb_eq in Eo. subst off.
    unfold content in Hc. destruct (r_writer r) as [w|] eqn:Ew.
    { destruct Hc as (Hr & _). rewrite Hr in Efast. discriminate. }
    rewrite Efast in Hc. destruct Hc as (Hg & Ho & Hrem). subst rem.
    destruct (rd_take_ok r data n En Ho) as (r' & e & Ht & He & Hw & Ho' & Hrd & Hn1 & Hn2 & Hn3).
    rewrite Ht. exists objs, r', e. splits; auto using frame_refl.
    + unfold content. rewrite Hw, Ew, Hrd, Hn3. auto.
    + eapply rvalid_names; eauto.
  - assert (Hdc : (match r_reader r, r_writer r with
                   | None, None => match new_file_info bkt objs (r_name r) with
                                   | inl e => Some e | inr i => if gi_dir i then Some GEISDIR else None end
                   | _, _ => None end) = None).
    { destruct (r_reader r) eqn:Er; [reflexivity|]. destruct (r_writer r) eqn:Ew; [reflexivity|].
      unfold content in Hc. rewrite Ew in Hc. destruct Hc as (Hg & _).
      now rewrite (nfi_file _ _ _ _ Hv Hg). }
    rewrite Hdc.
    destruct (close_io_ok _ _ _ _ Hv Hc) as (o1 & r1 & Hcl & Hg1 & Hf1 & Hr1 & Hw1 & Hn1 & Hn2 & Hn3).
    rewrite Hcl.
    assert (Hv1 : rvalid bkt r1) by (eapply rvalid_names; eauto).
    rewrite <- Hn3 in Hg1.
    rewrite (range_tail _ _ _ _ off Hv1 Hg1 Hoff).
    set (r2 := set_io r1 (r_size r1) off (Some (skipn (Z.to_nat off) data)) (r_writer r1)).
    assert (Ho2 : 0 <= r_off r2) by (cbn; lia).
    destruct (rd_take_ok r2 data n En Ho2) as (r' & e & Ht & He & Hw & Ho' & Hrd & Hm1 & Hm2 & Hm3).
    subst r2. cbn [set_io r_off r_writer r_name r_bk r_path] in Ht, Hw, Hm1, Hm2, Hm3.
    match goal with |- context [rd_take ?a ?b ?c] =>
      replace (rd_take a b c) with (r', pread data (Z.to_nat off) (Z.to_nat n), e) by (symmetry; exact Ht) end.
    exists o1, r', e.
    splits; auto.
    + unfold content. rewrite Hw, Hw1, Hrd, Hm3. auto.
    + eapply rvalid_names; [ | | | exact Hv1]; auto.
    + congruence.
Qed.

Lemma pwrite_inside (data b : bytes) off : (off <= length data)%nat ->
  pwrite data off b = firstn off data ++ b ++ skipn (off + length b) data.
Proof.
  intros H. unfold pwrite. replace (off - length data)%nat with 0%nat by lia.
  simpl. now rewrite app_nil_r.
Qed.

(* the re-assembly: prefix ++ written bytes, the old tail still to be appended by the commit *)
Lemma reassemble (w old b : bytes) off :
  length w = off ->
  pwrite (w ++ skipn off old) off b = (w ++ b) ++ skipn (off + length b) old.
Proof.
  intros Hw. subst off. rewrite pwrite_inside by (rewrite app_length; lia).
  rewrite firstn_app_exact, skipn_app.
  rewrite (skipn_all2' w) by lia.
  replace (length w + length b - length w)%nat with (length b) by lia.
  rewrite skipn_skipn'. simpl. now rewrite <- app_assoc.
Qed.

(* resource.WriteAt at an offset inside the object *)
Lemma write_ok bkt (objs : gstore) r (data b : bytes) off :
  rvalid bkt r -> content objs r data -> 0 <= off <= zlen data ->
  exists objs' r',
    res_write_at bkt objs r b off = (objs', r', zlen b, None) /\
    content objs' r' (pwrite data (Z.to_nat off) b) /\ rvalid bkt r' /\
    frame (r_path r) objs objs' /\ r_path r' = r_path r.
Proof.
  intros Hv Hc Hoff. unfold res_write_at.
  destruct (if off =? r_off r then r_writer r else None) as [w|] eqn:Efast.
  - destruct (off =? r_off r) eqn:Eo; [|discriminate]. apply Z.eqb_eq in Eo.
    unfold content in Hc. rewrite Efast in Hc.
    destruct Hc as (Hr & old & Hg & Hsz & Ho & Hw & Hd).
    eexists _, _. split; [reflexivity|]. cbn [set_io r_path r_name r_bk].
    splits; auto using frame_refl.
    unfold content. cbn [set_io r_writer r_reader r_path r_size r_off].
    split; [exact Hr|]. exists old. splits; auto.
    + pose proof (zlen_nonneg b). lia.
    + rewrite zlen_app. lia.
    + subst data. rewrite <- Eo in *.
      replace (Z.to_nat (off + zlen b)) with (Z.to_nat off + length b)%nat by (unfold zlen; lia).
      apply reassemble. unfold zlen in Hw. lia.
  - destruct (close_io_ok _ _ _ _ Hv Hc) as (o1 & r1 & Hcl & Hg1 & Hf1 & Hr1 & Hw1 & Hn1 & Hn2 & Hn3).
    rewrite Hcl.
    assert (Hv1 : rvalid bkt r1) by (eapply rvalid_names; eauto).
    rewrite <- Hn3 in Hg1.
    rewrite (attrs_file _ _ _ _ Hv1 Hg1).
    replace (zlen data <? off) with false by (symmetry; apply Z.ltb_ge; lia).
    cbn [set_io r_bk r_path r_reader r_writer r_off r_size].
    match goal with |- context [if 0 <? off then ?x else ?y] =>
      assert (Hp : (if 0 <? off then x else y) = inr (firstn (Z.to_nat off) data));
      [ destruct (0 <? off) eqn:E0;
        [ rewrite (range_tail _ _ _ _ 0 Hv1 Hg1) by (pose proof (zlen_nonneg data); lia); reflexivity
        | apply Z.ltb_ge in E0; replace off with 0 by lia; reflexivity ]
      | rewrite Hp ] end.
    eexists _, _. split; [reflexivity|]. cbn [set_io r_path r_name r_bk].
    splits; auto.
    + unfold content. cbn [set_io r_writer r_reader r_path r_size r_off].
      split; [exact Hr1|]. exists data. splits; auto.
      * pose proof (zlen_nonneg b). lia.
      * rewrite zlen_app, zlen_firstn by lia. reflexivity.
      * replace (Z.to_nat (off + zlen b)) with (Z.to_nat off + length b)%nat by (unfold zlen; lia).
        rewrite <- (reassemble (firstn (Z.to_nat off) data) data b (Z.to_nat off)).
        -- now rewrite firstn_skipn.
        -- rewrite firstn_length. unfold zlen in Hoff. lia.
Qed.

Lemma sync_ok bkt (objs : gstore) r (data : bytes) :
  rvalid bkt r -> content objs r data ->
  exists objs' r',
    close_io bkt objs r = (objs', r', None) /\
    content objs' r' data /\ rvalid bkt r' /\ frame (r_path r) objs objs' /\ r_path r' = r_path r /\
    alist_get (r_path r') objs' = Some data /\ r_reader r' = None /\ r_writer r' = None /\ r_name r' = r_name r.
Proof.
  intros Hv Hc.
  destruct (close_io_ok _ _ _ _ Hv Hc) as (o1 & r1 & Hcl & Hg1 & Hf1 & Hr1 & Hw1 & Hn1 & Hn2 & Hn3).
  exists o1, r1. rewrite <- Hn3 in Hg1. splits; auto.
  - unfold content. rewrite Hw1, Hr1. auto.
  - eapply rvalid_names; eauto.
Qed.

Lemma stat_ok bkt (objs : gstore) r (data : bytes) :
  rvalid bkt r -> content objs r data ->
  exists objs' r',
    gf_stat bkt objs r = (objs', r', inr (mkGI (r_name r) false (zlen data))) /\
    content objs' r' data /\ rvalid bkt r' /\ frame (r_path r) objs objs' /\ r_path r' = r_path r.
Proof.
  intros Hv Hc.
  destruct (sync_ok _ _ _ _ Hv Hc) as (o1 & r1 & Hcl & Hc1 & Hv1 & Hf1 & Hp1 & Hg1 & Hr1 & Hw1 & Hn1).
  unfold gf_stat. rewrite Hcl. rewrite (nfi_file _ _ _ _ Hv1 Hg1), Hn1.
  exists o1, r1. splits; auto.
Qed.

Lemma pad_loop_done fuel (w : bytes) x : pad_loop fuel w x x = Some w.
Proof. destruct fuel; simpl; now rewrite Z.ltb_irrefl. Qed.

(* Truncate to a size inside the object *)
Lemma truncate_ok bkt fuel (objs : gstore) r (data : bytes) n :
  rvalid bkt r -> content objs r data -> 0 <= n <= zlen data ->
  exists objs' r',
    res_truncate bkt fuel objs r n = (objs', r', TOk) /\
    content objs' r' (ptrunc data (Z.to_nat n)) /\ rvalid bkt r' /\
    frame (r_path r) objs objs' /\ r_path r' = r_path r.
Proof.
  intros Hv Hc Hn.
  destruct (sync_ok _ _ _ _ Hv Hc) as (o1 & r1 & Hcl & Hc1 & Hv1 & Hf1 & Hp1 & Hg1 & Hr1 & Hw1 & Hn1).
  unfold res_truncate.
  replace (n <? 0) with false by (symmetry; apply Z.ltb_ge; lia).
  rewrite Hcl.
  assert (Hrange : o_range bkt o1 (r_bk r1) (r_path r1) 0 n = inr (firstn (Z.to_nat n) data)).
  { unfold o_range. rewrite (o_check_valid _ _ Hv1), Hg1.
    replace (zlen data <? 0) with false by (symmetry; apply Z.ltb_ge; pose proof (zlen_nonneg data); lia).
    cbn [Z.ltb Z.compare orb Z.to_nat skipn].
    replace (0 <=? n) with true by (symmetry; apply Z.leb_le; lia). cbn [andb].
    destruct (0 + n <? zlen data) eqn:E; [reflexivity|].
    apply Z.ltb_ge in E. rewrite firstn_all2; [reflexivity | unfold zlen in *; lia]. }
  rewrite Hrange.
  rewrite zlen_firstn by lia. rewrite pad_loop_done.
  unfold o_put. rewrite (o_check_valid _ _ Hv1).
  eexists _, _. split; [reflexivity|]. splits; auto.
  - unfold content. rewrite Hw1, Hr1. split; [|exact I].
    rewrite alist_get_set_same. f_equal. unfold ptrunc.
    replace (Z.to_nat n - length data)%nat with 0%nat by (unfold zlen in *; lia).
    simpl. now rewrite app_nil_r.
  - eapply frame_trans; [exact Hf1|]. rewrite <- Hp1. apply frame_set.
Qed.

(* ------------------------------------------------------------------ one call on the handle *)
From AF Require Import Model.GcsSpec.

Definition hinv (h : ghandle) (pos : nat) (dirty ro : bool) : Prop :=
  h_closed h = false /\ (dirty = false -> h_off h = Z.of_nat pos) /\
  (ro = false -> (h_flags h =? o_rdonly) = false).

Lemma content_exists (objs : gstore) r (data : bytes) :
  content objs r data -> exists d : bytes, alist_get (r_path r) objs = Some d.
Proof.
  unfold content. destruct (r_writer r).
  - intros (_ & old & Hg & _). eauto.
  - intros (Hg & _). eauto.
Qed.

(* the only use of the platform constant: O_RDONLY has no bits, so the read-only test of
   GcsFile.WriteAt never fires *)
Lemma land_rdonly x : (Z.land x o_rdonly =? 0) = true.
Proof. unfold o_rdonly. now rewrite Z.land_0_r. Qed.

Lemma gf_write_at_ok bkt (objs : gstore) r h (data b : bytes) off :
  rvalid bkt r -> content objs r data -> h_closed h = false -> 0 <= off <= zlen data ->
  exists objs' r',
    gf_write_at bkt objs r h b off = (objs', r', set_hoff h (h_off h + zlen b), zlen b, None) /\
    content objs' r' (pwrite data (Z.to_nat off) b) /\ rvalid bkt r' /\
    frame (r_path r) objs objs' /\ r_path r' = r_path r.
Proof.
  intros Hv Hc Hcl Hoff. unfold gf_write_at. rewrite Hcl, land_rdonly. cbn [negb].
  destruct (content_exists _ _ _ Hc) as (d & Hd).
  rewrite (attrs_file _ _ _ _ Hv Hd).
  destruct (write_ok _ _ _ _ b off Hv Hc Hoff) as (o1 & r1 & Hw & Hc1 & Hv1 & Hf1 & Hp1).
  rewrite Hw. exists o1, r1. splits; auto.
Qed.

Lemma gf_read_at_ok bkt (objs : gstore) r h (data : bytes) n off :
  rvalid bkt r -> content objs r data -> h_closed h = false -> 0 <= n -> 0 <= off <= zlen data ->
  exists objs' r' e,
    let b := pread data (Z.to_nat off) (Z.to_nat n) in
    gf_read_at bkt objs r h n off = (objs', r', set_hoff h (h_off h + zlen b), b, e) /\
    (e = None \/ e = Some GEOF) /\
    content objs' r' data /\ rvalid bkt r' /\ frame (r_path r) objs objs' /\ r_path r' = r_path r.
Proof.
  intros Hv Hc Hcl Hn Hoff. unfold gf_read_at. rewrite Hcl.
  destruct (read_ok _ _ _ _ n off Hv Hc Hn Hoff) as (o1 & r1 & e & Hr & He & Hc1 & Hv1 & Hf1 & Hp1).
  rewrite Hr. exists o1, r1, e. splits; auto.
Qed.

Lemma gf_seek_ok bkt (objs : gstore) r h (data : bytes) off wh t :
  rvalid bkt r -> content objs r data -> h_closed h = false ->
  t = (if wh =? 0 then off else if wh =? 1 then h_off h + off else zlen data + off) ->
  (wh =? 0) || (wh =? 1) || (wh =? 2) = true ->
  exists objs' r',
    gf_seek bkt objs r h off wh = (objs', r', set_hoff h t, t, None) /\
    content objs' r' data /\ rvalid bkt r' /\ frame (r_path r) objs objs' /\ r_path r' = r_path r.
Proof.
  intros Hv Hc Hcl Ht Hwh. unfold gf_seek. rewrite Hcl.
  destruct (((wh =? 0) && (off =? h_off h)) || ((wh =? 1) && (off =? 0))) eqn:Efast.
  - assert (t = h_off h) as ->.
    { subst t. apply orb_true_iff in Efast. destruct Efast as [E|E]; apply andb_true_iff in E; destruct E as (E1 & E2);
        apply Z.eqb_eq in E2.
      - now rewrite E1.
      - apply Z.eqb_eq in E1. subst wh. cbn. lia. }
    exists objs, r. destruct h; cbn. splits; auto using frame_refl.
  - destruct (sync_ok _ _ _ _ Hv Hc) as (o1 & r1 & Hs & Hc1 & Hv1 & Hf1 & Hp1 & _).
    rewrite Hs.
    destruct (stat_ok _ _ _ _ Hv1 Hc1) as (o2 & r2 & Hst & Hc2 & Hv2 & Hf2 & Hp2).
    rewrite Hst. cbn [gi_size].
    assert (Et : (if wh =? 0 then off else if wh =? 1 then h_off h + off
                  else if wh =? 2 then zlen data + off else h_off h) = t).
    { subst t. destruct (wh =? 0); [reflexivity|]. destruct (wh =? 1); [reflexivity|].
      cbn in Hwh. now rewrite Hwh. }
    rewrite Et. exists o2, r2. splits; auto.
    + eapply frame_trans; [exact Hf1|]. now rewrite <- Hp1.
    + congruence.
Qed.

Ltac bools :=
  repeat match goal with
         | H : _ && _ = true |- _ => apply andb_true_iff in H; destruct H
         | H : negb _ = true |- _ => apply negb_true_iff in H
         | H : (_ <=? _) = true |- _ => apply Z.leb_le in H
         | H : Nat.eqb _ _ = true |- _ => apply Nat.eqb_eq in H
         end.

Lemma step_ok c bkt fuel (objs : gstore) r h (data : bytes) pos dirty ro o :
  rvalid bkt r -> content objs r data -> hinv h pos dirty ro -> op_ok ro data pos dirty o = true ->
  exists objs' r' h' x data' pos' p,
    h_step c bkt fuel objs r h o = (objs', r', h', x) /\
    bf_step (bs1 data pos ro) o = (bs1 data' pos' ro, p) /\
    res_agrees x p /\ rvalid bkt r' /\ content objs' r' data' /\ hinv h' pos' (dirty_after dirty o) ro /\
    frame (r_path r) objs objs' /\ r_path r' = r_path r.
Proof.
  intros Hv Hc (Hcl & Hpos & Hro) Hok.
  destruct o; cbn [op_ok] in Hok; try discriminate; bools; subst.
  - (* HRead *)
    specialize (Hpos eq_refl).
    destruct (gf_read_at_ok _ _ _ h _ n (Z.of_nat pos) Hv Hc Hcl) as (o1 & r1 & e & Hr & He & Hc1 & Hv1 & Hf1 & Hp1);
      [lia | lia |].
    rewrite Nat2Z.id in Hr. cbn zeta in Hr.
    unfold h_step. rewrite Hpos, Hr.
    eexists o1, r1, _, _, data, (pos + length (pread data pos (Z.to_nat n)))%nat, _.
    split; [reflexivity|]. split; [reflexivity|]. split; [cbn; auto|]. splits; auto.
    unfold hinv. cbn. splits; auto. intros _. unfold zlen. lia.
  - (* HReadAt *)
    destruct (gf_read_at_ok _ _ _ h _ n off Hv Hc Hcl) as (o1 & r1 & e & Hr & He & Hc1 & Hv1 & Hf1 & Hp1);
      [lia | lia |].
    cbn zeta in Hr. unfold h_step. rewrite Hr.
    eexists o1, r1, _, _, data, pos, _.
    split; [reflexivity|]. split.
    { unfold bf_step, bs1. cbn.
      replace (off <? 0) with false by (symmetry; apply Z.ltb_ge; lia). reflexivity. }
    split; [cbn; auto|]. splits; auto. unfold hinv. cbn. splits; auto. discriminate.
  - (* HWrite *)
    specialize (Hpos eq_refl).
    destruct (gf_write_at_ok _ _ _ h _ b (Z.of_nat pos) Hv Hc Hcl) as (o1 & r1 & Hw & Hc1 & Hv1 & Hf1 & Hp1); [lia|].
    rewrite Nat2Z.id in Hc1.
    unfold h_step. rewrite Hpos, Hw.
    eexists o1, r1, _, _, (pwrite data pos b), (pos + length b)%nat, _.
    split; [reflexivity|]. split; [reflexivity|]. split; [cbn; reflexivity|]. splits; auto.
    unfold hinv. cbn. splits; auto. intros _. unfold zlen. lia.
  - (* HWriteAt *)
    destruct (gf_write_at_ok _ _ _ h _ b off Hv Hc Hcl) as (o1 & r1 & Hw & Hc1 & Hv1 & Hf1 & Hp1); [lia|].
    unfold h_step. rewrite Hw.
    eexists o1, r1, _, _, (pwrite data (Z.to_nat off) b), pos, _.
    split; [reflexivity|]. split.
    { unfold bf_step, bs1. cbn.
      replace (off <? 0) with false by (symmetry; apply Z.ltb_ge; lia). reflexivity. }
    split; [cbn; reflexivity|]. splits; auto.
    unfold hinv. cbn. splits; auto. discriminate.
  - (* HWriteString *)
    specialize (Hpos eq_refl).
    destruct (gf_write_at_ok _ _ _ h _ b (Z.of_nat pos) Hv Hc Hcl) as (o1 & r1 & Hw & Hc1 & Hv1 & Hf1 & Hp1); [lia|].
    rewrite Nat2Z.id in Hc1.
    unfold h_step. rewrite Hpos, Hw.
    eexists o1, r1, _, _, (pwrite data pos b), (pos + length b)%nat, _.
    split; [reflexivity|]. split; [reflexivity|]. split; [cbn; reflexivity|]. splits; auto.
    unfold hinv. cbn. splits; auto. intros _. unfold zlen. lia.
  - (* HSeek *)
    set (t := if whence =? 0 then off else if whence =? 1 then Z.of_nat pos + off else zlen data + off) in *.
    assert (Ht : t = (if whence =? 0 then off else if whence =? 1 then h_off h + off else zlen data + off)).
    { unfold t. destruct (whence =? 0); [reflexivity|]. destruct (whence =? 1) eqn:E1; [|reflexivity].
      apply Z.eqb_eq in E1. subst whence.
      match goal with H : _ || _ || _ = true |- _ => cbn in H; apply negb_true_iff in H; rewrite (Hpos H) end.
      reflexivity. }
    assert (Hwh : (whence =? 0) || (whence =? 1) || (whence =? 2) = true).
    { match goal with H : _ || _ || _ = true |- _ => revert H end.
      destruct (whence =? 0), (whence =? 1), (whence =? 2); cbn; auto. }
    destruct (gf_seek_ok _ _ _ h _ off whence t Hv Hc Hcl Ht Hwh) as (o1 & r1 & Hs & Hc1 & Hv1 & Hf1 & Hp1).
    unfold h_step. rewrite Hs.
    eexists o1, r1, _, _, data, (Z.to_nat t), _.
    split; [reflexivity|]. split.
    { unfold bf_step, bs1. cbn. fold t.
      assert (Et : (if whence =? 0 then off else if whence =? 1 then Z.of_nat pos + off
                    else if whence =? 2 then zlen data + off else Z.of_nat pos) = t).
      { unfold t. destruct (whence =? 0); [reflexivity|]. destruct (whence =? 1); [reflexivity|].
        cbn in Hwh. now rewrite Hwh. }
      rewrite Et. replace (t <? 0) with false by (symmetry; apply Z.ltb_ge; lia). reflexivity. }
    split; [cbn; lia|]. splits; auto.
    unfold hinv. cbn. splits; auto. intros _. lia.
  - (* HTruncate *)
    destruct (truncate_ok _ fuel _ _ _ n Hv Hc) as (o1 & r1 & Ht & Hc1 & Hv1 & Hf1 & Hp1); [lia|].
    unfold h_step, gf_truncate. rewrite Hcl, (Hro eq_refl), Ht.
    eexists o1, r1, _, _, (ptrunc data (Z.to_nat n)), pos, _.
    split; [reflexivity|]. split.
    { unfold bf_step, bs1. cbn.
      replace (n <? 0) with false by (symmetry; apply Z.ltb_ge; lia). reflexivity. }
    split; [cbn; exact I|]. splits; auto.
    unfold hinv. splits; auto.
  - (* HStat *)
    destruct (stat_ok _ _ _ _ Hv Hc) as (o1 & r1 & Hs & Hc1 & Hv1 & Hf1 & Hp1).
    unfold h_step. rewrite Hs.
    eexists o1, r1, _, _, data, pos, _.
    split; [reflexivity|]. split; [reflexivity|]. split; [cbn; auto|]. splits; auto.
    unfold hinv. splits; auto.
  - (* HSync *)
    destruct (sync_ok _ _ _ _ Hv Hc) as (o1 & r1 & Hs & Hc1 & Hv1 & Hf1 & Hp1 & _).
    unfold h_step, gf_sync. rewrite Hs.
    eexists o1, r1, _, _, data, pos, _.
    split; [reflexivity|]. split; [reflexivity|]. split; [cbn; exact I|]. splits; auto.
    unfold hinv. splits; auto.
Qed.

(* ------------------------------------------------------------------ sequences *)
Lemma run_ok c bkt fuel : forall ops (objs : gstore) r h (data : bytes) pos dirty ro,
  rvalid bkt r -> content objs r data -> hinv h pos dirty ro -> in_class ro data pos dirty ops = true ->
  exists objs' r' h' outs data' pos' dirty' pouts,
    h_run c bkt fuel objs r h ops = (objs', r', h', outs) /\
    bf_run (bs1 data pos ro) ops = (bs1 data' pos' ro, pouts) /\
    Forall2 res_agrees outs pouts /\ rvalid bkt r' /\ content objs' r' data' /\ hinv h' pos' dirty' ro /\
    frame (r_path r) objs objs' /\ r_path r' = r_path r.
Proof.
  induction ops as [|o ops IH]; intros objs r h data pos dirty ro Hv Hc Hh Hin.
  - exists objs, r, h, [], data, pos, dirty, []. cbn. splits; auto using frame_refl.
  - cbn [in_class] in Hin. apply andb_true_iff in Hin. destruct Hin as (Hok & Hrest).
    destruct (step_ok c bkt fuel _ _ _ _ _ _ _ _ Hv Hc Hh Hok)
      as (o1 & r1 & h1 & x & d1 & p1 & p & Hs & Hb & Ha & Hv1 & Hc1 & Hh1 & Hf1 & Hp1).
    rewrite Hb in Hrest. cbn [bs1 bpos] in Hrest.
    destruct (IH _ _ _ _ _ _ _ Hv1 Hc1 Hh1 Hrest)
      as (o2 & r2 & h2 & xs & d2 & p2 & dy2 & ps & Hr & Hbr & Hfa & Hv2 & Hc2 & Hh2 & Hf2 & Hp2).
    exists o2, r2, h2, (x :: xs), d2, p2, dy2, (p :: ps).
    cbn [h_run bf_run]. rewrite Hs, Hr, Hb, Hbr. splits; auto.
    + eapply frame_trans; [exact Hf1|]. now rewrite <- Hp1.
    + congruence.
Qed.

Lemma h_run_app c bkt fuel : forall a b (objs : gstore) r h,
  h_run c bkt fuel objs r h (a ++ b) =
  let '(o1, r1, h1, xs) := h_run c bkt fuel objs r h a in
  let '(o2, r2, h2, ys) := h_run c bkt fuel o1 r1 h1 b in (o2, r2, h2, xs ++ ys).
Proof.
  induction a as [|o a IH]; intros b objs r h; cbn [h_run app].
  - destruct (h_run c bkt fuel objs r h b) as [[[? ?] ?] ?]. reflexivity.
  - destruct (h_step c bkt fuel objs r h o) as [[[o1 r1] h1] x]. rewrite IH.
    destruct (h_run c bkt fuel o1 r1 h1 a) as [[[o2 r2] h2] xs].
    destruct (h_run c bkt fuel o2 r2 h2 b) as [[[o3 r3] h3] ys]. reflexivity.
Qed.

Lemma bf_run_app : forall a b s,
  bf_run s (a ++ b) = let '(s1, xs) := bf_run s a in let '(s2, ys) := bf_run s1 b in (s2, xs ++ ys).
Proof.
  induction a as [|o a IH]; intros b s; cbn [bf_run app].
  - destruct (bf_run s b). reflexivity.
  - destruct (bf_step s o) as [s1 x]. rewrite IH.
    destruct (bf_run s1 a) as [s2 xs]. destruct (bf_run s2 b) as [s3 ys]. reflexivity.
Qed.

(* C20, data path.  For every sequence of calls in the property's class on one open handle of an
   existing object, followed by Close: every call returns what the flat byte array returns, after
   Close the bucket holds exactly the flat array's content under that name, every other object is
   untouched, and nothing is left pending. *)
Theorem data_exact c bkt fuel (objs : gstore) r h (d0 : bytes) p0 ro ops :
  rvalid bkt r -> r_reader r = None -> r_writer r = None ->
  alist_get (r_path r) objs = Some d0 ->
  h_closed h = false -> h_off h = Z.of_nat p0 -> (ro = false -> (h_flags h =? o_rdonly) = false) ->
  in_class ro d0 p0 false ops = true ->
  exists objs' r' h' outs bs pouts,
    h_run c bkt fuel objs r h (ops ++ [HClose 0]) = (objs', r', h', outs) /\
    bf_run (bs1 d0 p0 ro) (ops ++ [HClose 0]) = (bs, pouts) /\
    Forall2 res_agrees outs pouts /\
    alist_get (r_path r) objs' = Some (bdata bs) /\
    (forall k, k <> r_path r -> alist_get k objs' = alist_get k objs) /\
    r_reader r' = None /\ r_writer r' = None /\ h_closed h' = true.
Proof.
  intros Hv Hrd Hwr Hg Hcl Hoff Hro Hin.
  assert (Hc : content objs r d0) by (unfold content; rewrite Hwr, Hrd; auto).
  assert (Hh : hinv h p0 false ro) by (unfold hinv; auto).
  destruct (run_ok c bkt fuel ops _ _ _ _ _ _ _ Hv Hc Hh Hin)
    as (o1 & r1 & h1 & xs & d1 & p1 & dy1 & ps & Hr & Hb & Hfa & Hv1 & Hc1 & (Hcl1 & _ & _) & Hf1 & Hp1).
  destruct (close_io_ok _ _ _ _ Hv1 Hc1) as (o2 & r2 & Hci & Hg2 & Hf2 & Hr2 & Hw2 & _).
  rewrite h_run_app, bf_run_app, Hr, Hb. cbn [h_run h_step bf_run].
  unfold gf_close. rewrite Hcl1, Hci.
  eexists _, _, _, _, _, _. split; [reflexivity|]. split; [reflexivity|].
  splits; auto.
  - apply Forall2_app; [exact Hfa|]. constructor; [cbn; exact I | constructor].
  - cbn. now rewrite <- Hp1.
  - intros k Hk. rewrite Hf2 by (now rewrite Hp1). now apply Hf1.
Qed.
