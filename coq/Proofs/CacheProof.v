(* Proofs/CacheProof.v — C10 / C11: CacheOnReadFs (Model/Cache.v) and the UnionFile it hands out
   (Model/Union.v).
   Part 1: over ARBITRARY inner filesystems — the three rules of cacheStatus, what Open does in each
           status, "duration 0 = for ever", mutators go to the base first and then to the layer.
   Part 2: MemMapFs layers — the copy loop of copyFile moves exactly the base's bytes (any size, by
           induction on io.Copy's loop) and the copy carries the base's mtime.
   Part 3: MemMapFs layers — the two handles of a UnionFile stay coherent (offset, capabilities,
           content) under Read/Write/WriteString/WriteAt/Seek/Truncate, and under ReadAt exactly
           when unionFile.go's ReadAt does not seek the base (constant union_readat_seeks_base). *)
From AF Require Import Lib.Bytes Lib.Path Lib.Ops Gen.Consts Model.MemFile Model.MemFs Model.Union Model.Cow
  Model.Cache Model.Stack Proofs.MemFsBasics Proofs.MemBelow Proofs.PathProof Proofs.MemFileProof.
Local Open Scope Z_scope.

(* the values of the switches (Gen/Consts.v, regenerated from the Go source) the proofs below depend on *)
Lemma cache_copy_dir_mkdir_is_1 : cache_copy_dir_mkdir = 1. Proof. reflexivity. Qed.
Lemma cache_remove_miss_base_only_is_1 : cache_remove_miss_base_only = 1. Proof. reflexivity. Qed.

(* ------------------------------------------------------------------------------------------ *)
(* Part 1: arbitrary inner filesystems                                                         *)
(* ------------------------------------------------------------------------------------------ *)
Section Generic.
Context {B L : Type} (bstep : B -> op -> B * res) (lstep : L -> op -> L * res).
Variable dur : Z.

Definition cs_base (x : B * L * cache_state * option finfo * option err) : B := let '(b, _, _, _, _) := x in b.
Definition cs_layer (x : B * L * cache_state * option finfo * option err) : L := let '(_, l, _, _, _) := x in l.
Definition cs_state (x : B * L * cache_state * option finfo * option err) : cache_state := let '(_, _, s, _, _) := x in s.
Definition cs_fi (x : B * L * cache_state * option finfo * option err) : option finfo := let '(_, _, _, f, _) := x in f.
Definition cs_err (x : B * L * cache_state * option finfo * option err) : option err := let '(_, _, _, _, e) := x in e.

Lemma not_exist_simpl e : (errk_eqb (ek e) KENOENT && negb (ewrapped e)) || is_not_exist e = is_not_exist e.
Proof. destruct e as [k w]. destruct k, w; reflexivity. Qed.

(* the layer's Stat did not produce a FileInfo *)
Definition no_info (r : res) : Prop := forall fi, r <> RInfo fi.

(* --- cacheStatus, layer lacks the name: miss; without an error exactly for a not-exist error *)
Lemma status_layer_fails now sb sl name :
  no_info (snd (lstep sl (Stat name))) ->
  cache_status bstep lstep dur now sb sl name =
    (sb, fst (lstep sl (Stat name)), CMiss, None,
     if is_not_exist (err_of (snd (lstep sl (Stat name)))) then None else Some (err_of (snd (lstep sl (Stat name))))).
Proof.
  intros Hn. unfold cache_status. destruct (lstep sl (Stat name)) as [sl1 r]. cbn [fst snd] in *.
  destruct r; try (rewrite not_exist_simpl; destruct (is_not_exist _); reflexivity).
  exfalso. exact (Hn fi eq_refl).
Qed.

(* --- duration 0: a hit whenever the layer has the name; the base is not consulted *)
Lemma status_zero now sb sl name lfi :
  dur = 0 -> snd (lstep sl (Stat name)) = RInfo lfi ->
  cache_status bstep lstep dur now sb sl name = (sb, fst (lstep sl (Stat name)), CHit, Some lfi, None).
Proof.
  intros Hd Hl. unfold cache_status. destruct (lstep sl (Stat name)) as [sl1 r]. cbn [fst snd] in *. subst r.
  subst dur. reflexivity.
Qed.

(* --- duration <> 0, copy not older than the duration: a hit, the base is not consulted *)
Lemma status_unexpired now sb sl name lfi :
  dur <> 0 -> snd (lstep sl (Stat name)) = RInfo lfi -> ~ (fi_mtime lfi + dur < now) ->
  cache_status bstep lstep dur now sb sl name = (sb, fst (lstep sl (Stat name)), CHit, Some lfi, None).
Proof.
  intros Hd Hl Hne. unfold cache_status. destruct (lstep sl (Stat name)) as [sl1 r]. cbn [fst snd] in *. subst r.
  destruct (dur =? 0) eqn:E; [apply Z.eqb_eq in E; contradiction|].
  destruct (fi_mtime lfi + dur <? now) eqn:E2; [apply Z.ltb_lt in E2; contradiction | reflexivity].
Qed.

(* --- duration <> 0, copy older than the duration: the base's Stat decides *)
Lemma status_expired now sb sl name lfi :
  dur <> 0 -> snd (lstep sl (Stat name)) = RInfo lfi -> fi_mtime lfi + dur < now ->
  cache_status bstep lstep dur now sb sl name =
    match snd (bstep sb (Stat name)) with
    | RInfo bfi =>
      if fi_mtime lfi <? fi_mtime bfi
      then (fst (bstep sb (Stat name)), fst (lstep sl (Stat name)), CStale, Some bfi, None)
      else (fst (bstep sb (Stat name)), fst (lstep sl (Stat name)), CHit, Some lfi, None)
    | _ => (fst (bstep sb (Stat name)), fst (lstep sl (Stat name)), CLocal, Some lfi, None)
    end.
Proof.
  intros Hd Hl He. unfold cache_status. destruct (lstep sl (Stat name)) as [sl1 r]. cbn [fst snd] in *. subst r.
  destruct (dur =? 0) eqn:E; [apply Z.eqb_eq in E; contradiction|].
  destruct (fi_mtime lfi + dur <? now) eqn:E2; [|apply Z.ltb_ge in E2; lia].
  destruct (bstep sb (Stat name)) as [sb1 rb]. cbn [fst snd]. destruct rb; reflexivity.
Qed.

(* the four situations of a non-zero duration *)
Lemma status_cases now sb sl name lfi :
  dur <> 0 -> snd (lstep sl (Stat name)) = RInfo lfi ->
  let x := cache_status bstep lstep dur now sb sl name in
  let rb := snd (bstep sb (Stat name)) in
  let sb1 := fst (bstep sb (Stat name)) in
  let sl1 := fst (lstep sl (Stat name)) in
  (~ (fi_mtime lfi + dur < now) /\ x = (sb, sl1, CHit, Some lfi, None)) \/
  (fi_mtime lfi + dur < now /\ no_info rb /\ x = (sb1, sl1, CLocal, Some lfi, None)) \/
  (fi_mtime lfi + dur < now /\ exists bfi, rb = RInfo bfi /\ fi_mtime lfi < fi_mtime bfi /\ x = (sb1, sl1, CStale, Some bfi, None)) \/
  (fi_mtime lfi + dur < now /\ exists bfi, rb = RInfo bfi /\ fi_mtime bfi <= fi_mtime lfi /\ x = (sb1, sl1, CHit, Some lfi, None)).
Proof.
  intros Hd Hr. cbv zeta. destruct (Z_lt_dec (fi_mtime lfi + dur) now) as [Hx|Hx].
  - right. rewrite (status_expired now sb sl name lfi Hd Hr Hx).
    destruct (snd (bstep sb (Stat name))) eqn:Hb;
      try (left; split; [exact Hx|]; split; [intros fi0 Hq; discriminate Hq | reflexivity]).
    right. destruct (fi_mtime lfi <? fi_mtime fi) eqn:Hlt.
    + left. apply Z.ltb_lt in Hlt. split; [exact Hx|]. exists fi. repeat split. exact Hlt.
    + right. apply Z.ltb_ge in Hlt. split; [exact Hx|]. exists fi. repeat split. exact Hlt.
  - left. split; [exact Hx|]. apply (status_unexpired now sb sl name lfi Hd Hr Hx).
Qed.

Ltac status_crush :=
  repeat match goal with
  | H : _ /\ _ |- _ => destruct H
  | H : exists _, _ |- _ => destruct H
  | H : _ \/ _ |- _ => destruct H
  | H : RInfo _ = RInfo _ |- _ => inversion H; subst; clear H
  | H : no_info (RInfo ?f) |- _ => exfalso; exact (H f eq_refl)
  | H : ?a = ?b, H2 : no_info ?a |- _ => rewrite H in H2
  | H : ?a = RInfo ?x, H2 : ?a = RInfo ?y |- _ => rewrite H in H2
  end; try discriminate; try contradiction; try lia; try tauto.

(* the rules as equivalences *)
Theorem status_rules now sb sl name :
  let x := cache_status bstep lstep dur now sb sl name in
  let rl := snd (lstep sl (Stat name)) in
  let rb := snd (bstep sb (Stat name)) in
  (* miss (and no error) iff the layer's Stat fails with a not-exist error *)
  ((cs_state x = CMiss /\ cs_err x = None) <-> (no_info rl /\ is_not_exist (err_of rl) = true)) /\
  (* any other failure of the layer's Stat is returned as the error *)
  (no_info rl -> is_not_exist (err_of rl) = false -> cs_err x = Some (err_of rl)) /\
  (forall lfi, rl = RInfo lfi ->
     cs_err x = None /\
     (* duration 0: hit whenever the layer has the file, base untouched *)
     (dur = 0 -> cs_state x = CHit /\ cs_fi x = Some lfi /\ cs_base x = sb) /\
     (dur <> 0 ->
        (* stale iff expired, the base's Stat succeeds and the base copy is newer *)
        (cs_state x = CStale <-> fi_mtime lfi + dur < now /\ exists bfi, rb = RInfo bfi /\ fi_mtime lfi < fi_mtime bfi) /\
        (* local iff expired and the base's Stat fails *)
        (cs_state x = CLocal <-> fi_mtime lfi + dur < now /\ no_info rb) /\
        (* hit otherwise *)
        (cs_state x = CHit <-> ~ (fi_mtime lfi + dur < now) \/ exists bfi, rb = RInfo bfi /\ fi_mtime bfi <= fi_mtime lfi) /\
        (* the FileInfo handed on: the base's when stale, the layer's otherwise *)
        (cs_state x = CStale -> exists bfi, rb = RInfo bfi /\ cs_fi x = Some bfi) /\
        (cs_state x <> CStale -> cs_fi x = Some lfi) /\
        (* the base is consulted only when the copy has expired *)
        (~ (fi_mtime lfi + dur < now) -> cs_base x = sb))).
Proof.
  cbv zeta. split; [|split].
  - split.
    + intros [Hs He]. destruct (snd (lstep sl (Stat name))) eqn:Hr;
        try (assert (Hn : no_info (snd (lstep sl (Stat name)))) by (rewrite Hr; intros fi0 Hx; discriminate Hx);
             rewrite (status_layer_fails now sb sl name Hn) in He; cbn [cs_err] in He; rewrite Hr in *;
             split; [exact Hn|]; destruct (is_not_exist _); [reflexivity | discriminate He]).
      exfalso. destruct (Z.eq_dec dur 0) as [Hd|Hd].
      * rewrite (status_zero now sb sl name fi Hd Hr) in Hs. discriminate Hs.
      * destruct (status_cases now sb sl name fi Hd Hr) as [[_ Hq]|[[_ [_ Hq]]|[[_ [b [_ [_ Hq]]]]|[_ [b [_ [_ Hq]]]]]]];
          rewrite Hq in Hs; discriminate Hs.
    + intros [Hn Hne]. rewrite (status_layer_fails now sb sl name Hn). cbn [cs_state cs_err]. rewrite Hne. now split.
  - intros Hn Hne. rewrite (status_layer_fails now sb sl name Hn). cbn [cs_err]. rewrite Hne. reflexivity.
  - intros lfi Hr. split; [|split].
    + destruct (Z.eq_dec dur 0) as [Hd|Hd]; [rewrite (status_zero now sb sl name lfi Hd Hr); reflexivity|].
      destruct (status_cases now sb sl name lfi Hd Hr) as [[_ Hq]|[[_ [_ Hq]]|[[_ [b [_ [_ Hq]]]]|[_ [b [_ [_ Hq]]]]]]];
        rewrite Hq; reflexivity.
    + intros Hd. rewrite (status_zero now sb sl name lfi Hd Hr). cbn. auto.
    + intros Hd.
      destruct (status_cases now sb sl name lfi Hd Hr) as [[Hx Hq]|[[Hx [Hn Hq]]|[[Hx [b [Hb [Hlt Hq]]]]|[Hx [b [Hb [Hle Hq]]]]]]];
        rewrite Hq; cbn [cs_state cs_fi cs_base].
      * repeat split; intros; status_crush.
      * repeat split; intros; status_crush.
      * repeat split; intros; status_crush.
        all: exists b; now split.
      * repeat split; intros; status_crush.
        right. exists b. now split.
Qed.

(* ---------------- CacheOnReadFs.copyToLayer ---------------- *)
(* the base's Stat comes first; a directory is created in the layer with the base's permission bits
   (nothing is copied, the base is not opened) ... *)
Lemma cache_copy_dir sb sl name sb1 fi :
  bstep sb (Stat name) = (sb1, RInfo fi) -> fi_dir fi = true ->
  cache_copy_to_layer bstep lstep sb sl name =
    match lstep sl (MkdirAll name (Z.land (fi_mode fi) 511)) with
    | (sl1, ROk) => (sb1, sl1, None)
    | (sl1, r) => (sb1, sl1, Some (err_of r))
    end.
Proof.
  intros Hs Hd. unfold cache_copy_to_layer. rewrite cache_copy_dir_mkdir_is_1. cbn [Z.eqb Pos.eqb].
  rewrite Hs, Hd. reflexivity.
Qed.

(* ... anything else (a regular file, or a Stat that fails) goes to Union's copyToLayer, on the base
   state the Stat left *)
Lemma cache_copy_not_dir sb sl name :
  (forall fi, snd (bstep sb (Stat name)) = RInfo fi -> fi_dir fi = false) ->
  cache_copy_to_layer bstep lstep sb sl name = copy_to_layer bstep lstep (fst (bstep sb (Stat name))) sl name.
Proof.
  intros Hd. unfold cache_copy_to_layer. rewrite cache_copy_dir_mkdir_is_1. cbn [Z.eqb Pos.eqb].
  destruct (bstep sb (Stat name)) as [sb1 r]. cbn [fst snd] in *. destruct r; try reflexivity.
  rewrite (Hd fi eq_refl). reflexivity.
Qed.

Lemma cache_copy_file sb sl name sb1 fi :
  bstep sb (Stat name) = (sb1, RInfo fi) -> fi_dir fi = false ->
  cache_copy_to_layer bstep lstep sb sl name = copy_to_layer bstep lstep sb1 sl name.
Proof.
  intros Hs Hd. rewrite cache_copy_not_dir; rewrite Hs; cbn [fst snd]; [reflexivity|].
  intros fi0 Hq. inversion Hq; subst. exact Hd.
Qed.

(* ---------------- what Open does in each status (regular files) ---------------- *)
Notation cstep := (cache_step bstep lstep dur).

(* hit: the layer's Open; the base is not called (beyond cacheStatus' Stat) *)
Theorem open_hit now sb sl tbl p sb1 sl1 f :
  cache_status bstep lstep dur now sb sl p = (sb1, sl1, CHit, Some f, None) -> fi_dir f = false ->
  cstep now (sb, sl, tbl) (Open p) = open_layer lstep sb1 sl1 tbl (Open p).
Proof. intros Hs Hd. cbn [cache_step]. rewrite Hs. cbn [negb]. rewrite Hd. reflexivity. Qed.

(* local: the layer's Open *)
Theorem open_local now sb sl tbl p sb1 sl1 fi :
  cache_status bstep lstep dur now sb sl p = (sb1, sl1, CLocal, fi, None) ->
  cstep now (sb, sl, tbl) (Open p) = open_layer lstep sb1 sl1 tbl (Open p).
Proof. intros Hs. cbn [cache_step]. rewrite Hs. reflexivity. Qed.

(* stale: copyToLayer, then the layer's Open *)
Theorem open_stale now sb sl tbl p sb1 sl1 f :
  cache_status bstep lstep dur now sb sl p = (sb1, sl1, CStale, Some f, None) -> fi_dir f = false ->
  cstep now (sb, sl, tbl) (Open p) =
    match cache_copy_to_layer bstep lstep sb1 sl1 p with
    | (sb3, sl2, Some ce) => ((sb3, sl2, tbl), RErr ce)
    | (sb3, sl2, None) => open_layer lstep sb3 sl2 tbl (Open p)
    end.
Proof. intros Hs Hd. cbn [cache_step]. rewrite Hs. rewrite Hd. reflexivity. Qed.

(* miss: the base's Stat; a regular file is copied, then the layer's Open; a missing file is the base's error *)
Theorem open_miss now sb sl tbl p sb1 sl1 fi :
  cache_status bstep lstep dur now sb sl p = (sb1, sl1, CMiss, fi, None) ->
  cstep now (sb, sl, tbl) (Open p) =
    match bstep sb1 (Stat p) with
    | (sb2, RInfo bfi) =>
      if fi_dir bfi then open_base bstep sb2 sl1 tbl (Open p)
      else match cache_copy_to_layer bstep lstep sb2 sl1 p with
           | (sb3, sl2, Some ce) => ((sb3, sl2, tbl), RErr ce)
           | (sb3, sl2, None) => open_layer lstep sb3 sl2 tbl (Open p)
           end
    | (sb2, r) => ((sb2, sl1, tbl), RErr (err_of r))
    end.
Proof.
  intros Hs. cbn [cache_step]. rewrite Hs. destruct (bstep sb1 (Stat p)) as [sb2 r].
  destruct r; reflexivity.
Qed.

(* an error of cacheStatus is the result *)
Theorem open_status_error now sb sl tbl p sb1 sl1 cs fi er :
  cache_status bstep lstep dur now sb sl p = (sb1, sl1, cs, fi, Some er) ->
  cstep now (sb, sl, tbl) (Open p) = ((sb1, sl1, tbl), RErr er).
Proof. intros Hs. cbn [cache_step]. rewrite Hs. reflexivity. Qed.

(* a handle from the layer: every method goes to the layer only *)
Theorem layer_handle_ops now sb sl tbl o i h :
  op_handle_of o = Some i -> nth_error tbl i = Some (HL h) ->
  cstep now (sb, sl, tbl) o = let '(sl1, r) := lstep sl (op_set_handle o h) in ((sb, sl1, tbl), r).
Proof.
  intros Ho Hn. destruct o; try discriminate Ho; cbn [op_handle_of] in Ho; inversion Ho; subst;
    cbn [cache_step op_handle_of]; rewrite Hn; reflexivity.
Qed.

(* ---------------- duration 0: for ever ---------------- *)
(* Once the layer has the (regular) file, Open / OpenFile without write flags / Stat through the cache are
   the layer's, for ANY base state and ANY base implementation: the result is written without bstep. *)
Theorem zero_open now sb sl tbl p lfi :
  dur = 0 -> snd (lstep sl (Stat p)) = RInfo lfi -> fi_dir lfi = false ->
  cstep now (sb, sl, tbl) (Open p) = open_layer lstep sb (fst (lstep sl (Stat p))) tbl (Open p).
Proof. intros Hd Hl Hf. apply open_hit with (f := lfi); [apply status_zero; assumption | exact Hf]. Qed.

Theorem zero_stat now sb sl tbl p lfi :
  dur = 0 -> snd (lstep sl (Stat p)) = RInfo lfi ->
  cstep now (sb, sl, tbl) (Stat p) = ((sb, fst (lstep sl (Stat p)), tbl), RInfo lfi).
Proof. intros Hd Hl. cbn [cache_step]. rewrite (status_zero now sb sl p lfi Hd Hl). reflexivity. Qed.

Theorem zero_openfile_rdonly now sb sl tbl p flag perm lfi :
  dur = 0 -> snd (lstep sl (Stat p)) = RInfo lfi -> Z.land flag cache_mask = 0 ->
  cstep now (sb, sl, tbl) (OpenFile p flag perm) = open_layer lstep sb (fst (lstep sl (Stat p))) tbl (OpenFile p flag perm).
Proof.
  intros Hd Hl Hm. cbn [cache_step]. rewrite (status_zero now sb sl p lfi Hd Hl). rewrite Hm. reflexivity.
Qed.

(* the base component of the state after open_layer is the one before *)
Lemma open_layer_base (sb : B) sl tbl o : exists (sl' : L) (tbl' : list chandle) (r : res), open_layer lstep sb sl tbl o = ((sb, sl', tbl'), r).
Proof. unfold open_layer, alloc_ch, ret. destruct (lstep sl o) as [sl1 r]. destruct r; cbn; do 3 eexists; reflexivity. Qed.

(* the handle it returns is a layer handle *)
Lemma open_layer_handle (sb : B) sl tbl o st i :
  open_layer lstep sb sl tbl o = (st, RHandle i) -> exists h, nth_error (let '(_, _, t) := st in t) i = Some (HL h).
Proof.
  unfold open_layer. destruct (lstep sl o) as [sl1 r]. destruct r; intros H; inversion H; subst.
  exists h. rewrite nth_error_app2 by lia. rewrite Nat.sub_diag. reflexivity.
Qed.

(* ---------------- mutators: the base first, then the layer with the same call ---------------- *)
Definition both_op (o : op) : bool :=
  match o with Chtimes _ _ | Chmod _ _ | Chown _ _ _ | Rename _ _ | Remove _ | RemoveAll _ => true | _ => false end.
Definition copies_first (o : op) : bool :=
  match o with Chtimes _ _ | Chmod _ _ | Chown _ _ _ | Rename _ _ => true | _ => false end.
Definition op_path (o : op) : str :=
  match o with
  | Chtimes p _ | Chmod p _ | Chown p _ _ | Rename p _ | Remove p | RemoveAll p => p
  | _ => []
  end.

(* Remove since the fix: on a miss only the base is called (the switch cache_remove_miss_base_only) *)
Definition base_only_switch (o : op) : bool :=
  match o with Remove _ => Z.eqb cache_remove_miss_base_only 1 | _ => false end.
(* the one situation in which a mutator does not reach the layer although the base succeeded: Remove of a
   name the layer is known not to hold *)
Definition miss_base_only (o : op) (cs : cache_state) : bool :=
  match o, cs with Remove _, CMiss => true | _, _ => false end.

Lemma cache_step_both now sb sl tbl o :
  both_op o = true ->
  cstep now (sb, sl, tbl) o = cache_both bstep lstep dur now sb sl tbl (op_path o) o (copies_first o) (base_only_switch o).
Proof. destruct o; try discriminate; reflexivity. Qed.

(* the call on the base, then (unless it failed) on the layer *)
Definition base_then_layer (sb : B) (sl : L) (tbl : list chandle) (o : op) : (B * L * list chandle) * res :=
  let '(sb2, r) := bstep sb o in
  match r with
  | RPanic => ((sb2, sl, tbl), RPanic)
  | _ => match res_err r with
         | Some er => ((sb2, sl, tbl), RErr er)                 (* the base's error; the layer is not called *)
         | None => let '(sl3, r') := lstep sl o in ((sb2, sl3, tbl), r')
         end
  end.

Theorem mutator_hit now sb sl tbl o sb1 sl1 fi :
  both_op o = true -> cache_status bstep lstep dur now sb sl (op_path o) = (sb1, sl1, CHit, fi, None) ->
  cstep now (sb, sl, tbl) o = base_then_layer sb1 sl1 tbl o.
Proof.
  intros Hb Hs. rewrite (cache_step_both _ _ _ _ _ Hb). unfold cache_both, base_then_layer. rewrite Hs.
  destruct (bstep sb1 o) as [sb2 r]. destruct r; try reflexivity;
    cbn [res_err]; try (destruct e; reflexivity).
Qed.

(* miss / stale: Chtimes, Chmod, Chown, Rename copy the file into the layer first (CacheOnReadFs.copyToLayer);
   RemoveAll does not; Remove does not either and, on a miss, calls the base only and returns its result *)
Theorem mutator_miss_or_stale now sb sl tbl o sb1 sl1 cs fi :
  both_op o = true -> cs = CMiss \/ cs = CStale ->
  cache_status bstep lstep dur now sb sl (op_path o) = (sb1, sl1, cs, fi, None) ->
  cstep now (sb, sl, tbl) o =
    if miss_base_only o cs then let '(sb2, r) := bstep sb1 o in ((sb2, sl1, tbl), r)
    else if copies_first o then
      match cache_copy_to_layer bstep lstep sb1 sl1 (op_path o) with
      | (sb2, sl2, Some ce) => ((sb2, sl2, tbl), RErr ce)
      | (sb2, sl2, None) => base_then_layer sb2 sl2 tbl o
      end
    else base_then_layer sb1 sl1 tbl o.
Proof.
  intros Hb Hc Hs. rewrite (cache_step_both _ _ _ _ _ Hb). unfold cache_both, base_then_layer. rewrite Hs.
  assert (Hsw : base_only_switch o = match o with Remove _ => true | _ => false end).
  { unfold base_only_switch. rewrite cache_remove_miss_base_only_is_1. destruct o; reflexivity. }
  rewrite Hsw. clear Hsw.
  destruct o; try discriminate Hb; cbn [copies_first miss_base_only op_path].
  all: destruct Hc; subst cs;
    first
    [ (* Chtimes, Chmod, Chown, Rename: copy first *)
      match goal with |- context [cache_copy_to_layer bstep lstep ?a ?b ?q] =>
         destruct (cache_copy_to_layer bstep lstep a b q) as [[sb2 sl2] [ce|]] end; [reflexivity|];
      match goal with |- context [bstep ?a ?oo] => destruct (bstep a oo) as [sb3 r] end;
      destruct r; try reflexivity; cbn [res_err]; try (destruct e; reflexivity)
    | (* Remove, RemoveAll *)
      match goal with |- context [bstep ?a ?oo] => destruct (bstep a oo) as [sb2 r] end;
      destruct r; try reflexivity; cbn [res_err]; try (destruct e; reflexivity) ].
Qed.

(* Remove of a name the layer does not hold: the base's Remove and nothing else *)
Corollary remove_miss now sb sl tbl p sb1 sl1 fi :
  cache_status bstep lstep dur now sb sl p = (sb1, sl1, CMiss, fi, None) ->
  cstep now (sb, sl, tbl) (Remove p) = let '(sb2, r) := bstep sb1 (Remove p) in ((sb2, sl1, tbl), r).
Proof. intros Hs. exact (mutator_miss_or_stale now sb sl tbl (Remove p) sb1 sl1 CMiss fi eq_refl (or_introl eq_refl) Hs). Qed.

(* local (the layer has it, the copy expired and the base has lost it): only the layer *)
Theorem mutator_local now sb sl tbl o sb1 sl1 fi :
  both_op o = true -> cache_status bstep lstep dur now sb sl (op_path o) = (sb1, sl1, CLocal, fi, None) ->
  cstep now (sb, sl, tbl) o = let '(sl3, r) := lstep sl1 o in ((sb1, sl3, tbl), r).
Proof. intros Hb Hs. rewrite (cache_step_both _ _ _ _ _ Hb). unfold cache_both. rewrite Hs. reflexivity. Qed.

(* Mkdir / MkdirAll / Create: the base first; its failure is the result and the layer is not called *)
Theorem mkdir_both now sb sl tbl p perm :
  cstep now (sb, sl, tbl) (Mkdir p perm) =
    match bstep sb (Mkdir p perm) with
    | (sb1, ROk) => let '(sl1, r) := lstep sl (MkdirAll p perm) in ((sb1, sl1, tbl), r)
    | (sb1, r) => ((sb1, sl, tbl), r)
    end.
Proof. cbn [cache_step]. destruct (bstep sb (Mkdir p perm)) as [sb1 r]. destruct r; reflexivity. Qed.

Theorem mkdirall_both now sb sl tbl p perm :
  cstep now (sb, sl, tbl) (MkdirAll p perm) =
    match bstep sb (MkdirAll p perm) with
    | (sb1, ROk) => let '(sl1, r) := lstep sl (MkdirAll p perm) in ((sb1, sl1, tbl), r)
    | (sb1, r) => ((sb1, sl, tbl), r)
    end.
Proof. cbn [cache_step]. destruct (bstep sb (MkdirAll p perm)) as [sb1 r]. destruct r; reflexivity. Qed.

Theorem create_both now sb sl tbl p :
  cstep now (sb, sl, tbl) (Create p) =
    match bstep sb (Create p) with
    | (sb1, RHandle bh) =>
      match lstep sl (Create p) with
      | (sl1, RHandle lh) => ((sb1, sl1, tbl ++ [HU (mkUF (Some bh) (Some lh) 0 [])]), RHandle (length tbl))
      | (sl1, r) => ((fst (bstep sb1 (HClose bh)), sl1, tbl), RErr (err_of r))
      end
    | (sb1, r) => ((sb1, sl, tbl), RErr (err_of r))
    end.
Proof.
  cbn [cache_step]. destruct (bstep sb (Create p)) as [sb1 r]. destruct r; try reflexivity;
  destruct (lstep sl (Create p)) as [sl1 r]; destruct r; reflexivity.
Qed.

(* OpenFile with a write flag on a cached file: the same OpenFile on the base, then on the layer; the
   handle is a UnionFile over both *)
Theorem openfile_write_hit now sb sl tbl p flag perm sb1 sl1 fi :
  Z.land flag cache_mask <> 0 ->
  cache_status bstep lstep dur now sb sl p = (sb1, sl1, CHit, fi, None) ->
  cstep now (sb, sl, tbl) (OpenFile p flag perm) =
    match bstep sb1 (OpenFile p flag perm) with
    | (sb3, RHandle bh) =>
      match lstep sl1 (OpenFile p flag perm) with
      | (sl3, RHandle lh) => ((sb3, sl3, tbl ++ [HU (mkUF (Some bh) (Some lh) 0 [])]), RHandle (length tbl))
      | (sl3, r) => ((fst (bstep sb3 (HClose bh)), sl3, tbl), RErr (err_of r))
      end
    | (sb3, r) => ((sb3, sl1, tbl), RErr (err_of r))
    end.
Proof.
  intros Hm Hs. cbn [cache_step]. rewrite Hs.
  destruct (Z.land flag cache_mask =? 0) eqn:E; [apply Z.eqb_eq in E; contradiction|]. cbn [negb].
  destruct (bstep sb1 (OpenFile p flag perm)) as [sb3 r]. destruct r; try reflexivity;
  destruct (lstep sl1 (OpenFile p flag perm)) as [sl3 r]; destruct r; reflexivity.
Qed.

End Generic.

(* ------------------------------------------------------------------------------------------ *)
(* Part 2: MemMapFs layers — copyFile moves exactly the base's bytes and the base's mtime      *)
(* ------------------------------------------------------------------------------------------ *)

(* --- lists --- *)
Lemma nth_error_list_set_eq {A} (l : list A) i v : (i < length l)%nat -> nth_error (list_set i v l) i = Some v.
Proof.
  revert i. induction l as [|x l IH]; intros i Hi; [cbn in Hi; lia|].
  destruct i; cbn; [reflexivity|]. apply IH. cbn in Hi. lia.
Qed.
Lemma nth_error_list_set_neq {A} (l : list A) i j v : i <> j -> nth_error (list_set i v l) j = nth_error l j.
Proof.
  revert i j. induction l as [|x l IH]; intros i j Hij; [destruct i; reflexivity|].
  destruct i, j; cbn; try reflexivity; [contradiction|]. apply IH. lia.
Qed.
Lemma nth_error_app_last {A} (l : list A) x : nth_error (l ++ [x]) (length l) = Some x.
Proof. rewrite nth_error_app2 by lia. rewrite Nat.sub_diag. reflexivity. Qed.
Lemma nth_error_lt {A} (l : list A) i x : nth_error l i = Some x -> (i < length l)%nat.
Proof. intros H. apply nth_error_Some. rewrite H. discriminate. Qed.
Lemma list_set_len {A} (l : list A) i a : length (list_set i a l) = length l.
Proof. revert i. induction l as [|x l IH]; intros i; [destruct i; reflexivity|]. destruct i; cbn; [reflexivity | now rewrite IH]. Qed.

(* --- the state after one API call: the raw step, then the clock advances --- *)
Definition bump (s : mst) : mst := mkM (mdata s) (mheap s) (mhandles s) (mclock s + 1).
Lemma m_step_bump s o : m_step s o = (bump (fst (m_step_raw s o)), snd (m_step_raw s o)).
Proof. unfold m_step. destruct (m_step_raw s o). reflexivity. Qed.

Lemma get_node_upd_eq s f g nd : get_node s f = Some nd -> get_node (upd_node s f g) f = Some (g nd).
Proof.
  intros H. unfold upd_node. rewrite H. unfold get_node, set_node. cbn [mheap].
  apply nth_error_list_set_eq. exact (nth_error_lt _ _ _ H).
Qed.
Lemma get_node_upd_neq s f g k : k <> f -> get_node (upd_node s f g) k = get_node s k.
Proof.
  intros H. unfold upd_node. destruct (get_node s f); [|reflexivity]. unfold get_node, set_node. cbn [mheap].
  apply nth_error_list_set_neq. congruence.
Qed.
Lemma mhandles_upd s f g : mhandles (upd_node s f g) = mhandles s.
Proof. unfold upd_node. destruct (get_node s f); reflexivity. Qed.
Lemma mdata_upd s f g : mdata (upd_node s f g) = mdata s.
Proof. unfold upd_node. destruct (get_node s f); reflexivity. Qed.
Lemma mclock_upd s f g : mclock (upd_node s f g) = mclock s.
Proof. unfold upd_node. destruct (get_node s f); reflexivity. Qed.
Lemma heap_len_upd s f g : length (mheap (upd_node s f g)) = length (mheap s).
Proof. unfold upd_node. destruct (get_node s f); [|reflexivity]. cbn. apply list_set_len. Qed.

(* --- bytes --- *)
Lemma zlen_app {A} (a b : list A) : zlen (a ++ b) = zlen a + zlen b.
Proof. unfold zlen. rewrite app_length. lia. Qed.
Lemma zlen_ge0 {A} (l : list A) : 0 <= zlen l.
Proof. unfold zlen. lia. Qed.
Lemma zlen_slice (data : bytes) a b : 0 <= a <= b -> b <= zlen data -> zlen (slice data a b) = b - a.
Proof.
  intros Ha Hb. unfold slice, zlen in *. rewrite firstn_length, skipn_length. lia.
Qed.
Lemma firstn_plus {A} (l : list A) a k : firstn (a + k) l = firstn a l ++ firstn k (skipn a l).
Proof.
  revert l. induction a as [|a IH]; intros l; [reflexivity|].
  destruct l as [|x l]; cbn; [now rewrite firstn_nil | now rewrite IH].
Qed.
Lemma firstn_slice (data : bytes) a b : 0 <= a <= b ->
  firstn (Z.to_nat a) data ++ slice data a b = firstn (Z.to_nat b) data.
Proof.
  intros Ha. unfold slice. replace (Z.to_nat b) with (Z.to_nat a + Z.to_nat (b - a))%nat by lia.
  rewrite firstn_plus. reflexivity.
Qed.
Lemma firstn_zlen {A} (l : list A) : firstn (Z.to_nat (zlen l)) l = l.
Proof. unfold zlen. rewrite Nat2Z.id. apply firstn_all. Qed.
Lemma go_write_append data b : go_write data b (zlen data) = data ++ b.
Proof.
  unfold go_write. rewrite Z.sub_diag. cbn [Z.ltb Z.compare].
  assert (H : zlen b + zlen data <? zlen data = false) by (apply Z.ltb_ge; pose proof (zlen_ge0 b); lia).
  rewrite H, firstn_zlen, app_nil_r. reflexivity.
Qed.

(* --- m_step on a handle: what it does to the handle and to the node --- *)
Lemma mstep_hread s i h nd n :
  nth_error (mhandles s) i = Some h -> get_node s (href h) = Some nd ->
  m_step s (HRead i n) = (bump (set_handle s i (fst (f_read (ndata nd) h n))), snd (f_read (ndata nd) h n)).
Proof.
  intros Hh Hn. rewrite m_step_bump. cbn [m_step_raw]. unfold m_hop. rewrite Hh, Hn.
  destruct (f_read (ndata nd) h n). reflexivity.
Qed.
Lemma mstep_hwrite s i h nd b :
  nth_error (mhandles s) i = Some h -> get_node s (href h) = Some nd ->
  m_step s (HWrite i b) =
    (bump (put_data (set_handle s i (snd (fst (f_write (ndata nd) h b)))) (href h) (fst (fst (f_write (ndata nd) h b)))),
     snd (f_write (ndata nd) h b)).
Proof.
  intros Hh Hn. rewrite m_step_bump. cbn [m_step_raw]. unfold m_hop. rewrite Hh, Hn.
  destruct (f_write (ndata nd) h b) as [[d h'] r]. reflexivity.
Qed.
Lemma mstep_hstat s i h nd :
  nth_error (mhandles s) i = Some h -> get_node s (href h) = Some nd ->
  m_step s (HStat i) = (bump s, RInfo (finfo_of nd)).
Proof. intros Hh Hn. rewrite m_step_bump. cbn [m_step_raw]. unfold m_hop. rewrite Hh, Hn. reflexivity. Qed.

Lemma f_read_more data h n :
  hclosed h = false -> 0 <= hat h < zlen data -> 0 < n ->
  f_read data h n = (set_at h (hat h + Z.min n (zlen data - hat h)),
                     RData (slice data (hat h) (hat h + Z.min n (zlen data - hat h))) None).
Proof.
  intros Hc Hk Hn. unfold f_read. rewrite Hc.
  assert (E1 : (hat h =? zlen data) = false) by (apply Z.eqb_neq; lia). rewrite E1, andb_false_r.
  assert (E2 : (zlen data <? hat h) = false) by (apply Z.ltb_ge; lia). rewrite E2.
  assert (E3 : (hat h <? 0) = false) by (apply Z.ltb_ge; lia). rewrite E3.
  destruct (n <=? zlen data - hat h) eqn:E4.
  - apply Z.leb_le in E4. rewrite Z.min_l by lia. reflexivity.
  - apply Z.leb_gt in E4. rewrite Z.min_r by lia. reflexivity.
Qed.
Lemma f_read_eof data h n :
  hclosed h = false -> hat h = zlen data -> 0 < n -> f_read data h n = (h, RData [] (Some (E KEOF))).
Proof.
  intros Hc Hk Hn. unfold f_read. rewrite Hc.
  assert (E0 : (0 <? n) = true) by (apply Z.ltb_lt; lia).
  assert (E1 : (hat h =? zlen data) = true) by (apply Z.eqb_eq; lia). rewrite E0, E1. reflexivity.
Qed.
Lemma f_write_append data h b :
  hclosed h = false -> hro h = false -> b <> [] -> hat h = zlen data ->
  f_write data h b = (Some (data ++ b), set_at h (zlen data + zlen b), RCount (zlen b) None).
Proof.
  intros Hc Hr Hb Hk. unfold f_write. rewrite Hc, Hr.
  assert (E1 : (zlen b =? 0) = false).
  { apply Z.eqb_neq. destruct b; [contradiction|]. unfold zlen. cbn [length]. lia. }
  assert (E2 : (hat h <? 0) = false) by (apply Z.ltb_ge; pose proof (zlen_ge0 data); lia).
  rewrite E1, E2, Hk, go_write_append. reflexivity.
Qed.

(* the base: an open read-only handle bh (as Open hands out) on node fb (content of nb), at offset k *)
Definition BaseAt (s : mst) (bh fb : nat) (nb : node) (k : Z) : Prop :=
  exists hb, nth_error (mhandles s) bh = Some hb /\ href hb = fb /\ hclosed hb = false /\ hro hb = true /\
             hat hb = k /\ get_node s fb = Some nb.
(* the layer: an open writable handle lh on the regular file fl registered as key, holding d, offset at its end *)
Definition LayerAt (s : mst) (lh fl : nat) (key : str) (d : bytes) : Prop :=
  exists hl nl, nth_error (mhandles s) lh = Some hl /\ href hl = fl /\ hclosed hl = false /\ hro hl = false /\
                hat hl = zlen d /\ get_node s fl = Some nl /\ ndir nl = false /\ ndata nl = d /\
                lookup s key = Some fl.

Lemma BaseAt_bump s bh fb nb k : BaseAt s bh fb nb k -> BaseAt (bump s) bh fb nb k.
Proof. intros [hb H]. exists hb. exact H. Qed.

Lemma base_read_more s bh fb nb k :
  BaseAt s bh fb nb k -> 0 <= k < zlen (ndata nb) ->
  let kk := Z.min 32768 (zlen (ndata nb) - k) in
  exists s', m_step s (HRead bh 32768) = (s', RData (slice (ndata nb) k (k + kk)) None) /\
             BaseAt s' bh fb nb (k + kk) /\ fs_view s' = fs_view s.
Proof.
  intros [hb [Hh [Hf [Hc [Hro [Hk Hn]]]]]] Hr kk. subst fb k.
  rewrite (mstep_hread s bh hb nb 32768 Hh Hn), (f_read_more (ndata nb) hb 32768 Hc Hr) by lia.
  cbn [fst snd]. eexists. split; [reflexivity|]. split; [|reflexivity].
  exists (set_at hb (hat hb + kk)). repeat split; try assumption.
  unfold bump, set_handle. cbn [mhandles]. apply nth_error_list_set_eq. exact (nth_error_lt _ _ _ Hh).
Qed.

Lemma base_read_eof s bh fb nb :
  BaseAt s bh fb nb (zlen (ndata nb)) ->
  exists s', m_step s (HRead bh 32768) = (s', RData [] (Some (E KEOF))) /\
             BaseAt s' bh fb nb (zlen (ndata nb)) /\ fs_view s' = fs_view s.
Proof.
  intros [hb [Hh [Hf [Hc [Hro [Hk Hn]]]]]]. subst fb.
  rewrite (mstep_hread s bh hb nb 32768 Hh Hn), (f_read_eof (ndata nb) hb 32768 Hc Hk) by lia.
  cbn [fst snd]. eexists. split; [reflexivity|]. split; [|reflexivity].
  exists hb. repeat split; try assumption.
  unfold bump, set_handle. cbn [mhandles]. apply nth_error_list_set_eq. exact (nth_error_lt _ _ _ Hh).
Qed.

Lemma layer_write s lh fl key d chunk :
  LayerAt s lh fl key d -> chunk <> [] ->
  exists s', m_step s (HWrite lh chunk) = (s', RCount (zlen chunk) None) /\ LayerAt s' lh fl key (d ++ chunk).
Proof.
  intros [hl [nl [Hh [Hf [Hc [Hro [Hk [Hn [Hd [Hdat Hl]]]]]]]]]] Hne. subst fl.
  rewrite (mstep_hwrite s lh hl nl chunk Hh Hn). rewrite Hdat in *.
  rewrite (f_write_append d hl chunk Hc Hro Hne Hk). cbn [fst snd].
  eexists. split; [reflexivity|].
  exists (set_at hl (zlen d + zlen chunk)), (with_mtime (mclock s) (with_data (d ++ chunk) nl)).
  unfold put_data. repeat split.
  - unfold bump. cbn [mhandles]. rewrite mhandles_upd. unfold set_handle. cbn [mhandles].
    apply nth_error_list_set_eq. exact (nth_error_lt _ _ _ Hh).
  - exact Hc.
  - exact Hro.
  - cbn [hat set_at]. rewrite zlen_app. reflexivity.
  - exact (get_node_upd_eq (set_handle s lh (set_at hl (zlen d + zlen chunk))) (href hl)
             (fun n => with_mtime (mclock s) (with_data (d ++ chunk) n)) nl Hn).
  - exact Hd.
  - unfold bump, lookup. cbn [mdata]. rewrite mdata_upd. exact Hl.
Qed.

(* io.Copy's loop: any file size, given enough fuel (copyFile supplies size + 2) *)
Lemma io_copy_correct bh fb nb lh fl key : forall fuel sb sl k,
  BaseAt sb bh fb nb k -> 0 <= k <= zlen (ndata nb) ->
  LayerAt sl lh fl key (firstn (Z.to_nat k) (ndata nb)) ->
  (Z.to_nat (zlen (ndata nb) - k) < fuel)%nat ->
  exists sb' sl', io_copy m_step m_step fuel sb sl bh lh k = (sb', sl', zlen (ndata nb), None) /\
                  BaseAt sb' bh fb nb (zlen (ndata nb)) /\ LayerAt sl' lh fl key (ndata nb) /\
                  fs_view sb' = fs_view sb.
Proof.
  induction fuel as [|fuel IH]; intros sb sl k Hb Hk Hl Hf; [lia|].
  cbn [io_copy]. destruct (Z.eq_dec k (zlen (ndata nb))) as [He|He].
  - subst k. destruct (base_read_eof sb bh fb nb Hb) as [sb' [Hs [Hb' Hv]]]. rewrite Hs.
    cbn [zlen length Z.of_nat Z.ltb Z.compare errk_eqb ek E]. rewrite Z.add_0_r.
    exists sb', sl. repeat split; try assumption. rewrite firstn_zlen in Hl. exact Hl.
  - assert (Hr : 0 <= k < zlen (ndata nb)) by lia.
    destruct (base_read_more sb bh fb nb k Hb Hr) as [sb' [Hs [Hb' Hv]]]. cbv zeta in *. rewrite Hs.
    set (kk := Z.min 32768 (zlen (ndata nb) - k)) in *.
    assert (Hkk : 0 < kk) by (unfold kk; lia).
    assert (Hz : zlen (slice (ndata nb) k (k + kk)) = kk) by (rewrite zlen_slice; unfold kk; lia).
    assert (Hne : slice (ndata nb) k (k + kk) <> []).
    { intros Hq. rewrite Hq in Hz. unfold zlen in Hz. cbn in Hz. lia. }
    destruct (layer_write sl lh fl key _ _ Hl Hne) as [sl' [Hw Hl']]. rewrite Hz in *.
    assert (E1 : (0 <? kk) = true) by (apply Z.ltb_lt; lia). rewrite E1, Hw.
    assert (E2 : (kk <? 0) = false) by (apply Z.ltb_ge; lia).
    assert (E3 : (kk <? kk) = false) by (apply Z.ltb_ge; lia).
    assert (E4 : (kk =? kk) = true) by (apply Z.eqb_eq; reflexivity).
    rewrite E2, E3, E4. cbn [orb negb].
    rewrite firstn_slice in Hl' by lia.
    destruct (IH sb' sl' (k + kk) Hb' ltac:(unfold kk; lia) Hl' ltac:(unfold kk in *; lia)) as [sb2 [sl2 [Hc [Hb2 [Hl2 Hv2]]]]].
    exists sb2, sl2. repeat split; try assumption. congruence.
Qed.

(* --- the rest of copyFile --- *)
Lemma layer_close s lh fl key d :
  LayerAt s lh fl key d ->
  exists s' nl, m_step s (HClose lh) = (s', ROk) /\ get_node s' fl = Some nl /\ ndir nl = false /\ ndata nl = d /\
                lookup s' key = Some fl.
Proof.
  intros [hl [nl [Hh [Hf [Hc [Hro [Hk [Hn [Hd [Hdat Hl]]]]]]]]]]. subst fl.
  rewrite m_step_bump. cbn [m_step_raw]. unfold m_hop. rewrite Hh, Hn, Hc, Hro. cbn [fst snd].
  eexists. exists (with_mtime (mclock (set_handle s lh (set_closed hl))) nl). split; [reflexivity|].
  split; [|split; [exact Hd | split; [exact Hdat|]]].
  - exact (get_node_upd_eq (set_handle s lh (set_closed hl)) (href hl) _ nl Hn).
  - unfold bump, lookup. cbn [mdata]. rewrite mdata_upd. exact Hl.
Qed.

Lemma layer_chtimes s name fl nl t :
  lookup s (normalize_path name) = Some fl -> get_node s fl = Some nl ->
  exists s', m_step s (Chtimes name t) = (s', ROk) /\ get_node s' fl = Some (with_mtime t nl) /\
             lookup s' (normalize_path name) = Some fl.
Proof.
  intros Hl Hn. rewrite m_step_bump. cbn [m_step_raw]. unfold m_chtimes. rewrite Hl. cbn [fst snd].
  eexists. split; [reflexivity|]. split.
  - exact (get_node_upd_eq s fl (with_mtime t) nl Hn).
  - unfold bump, lookup. cbn [mdata]. rewrite mdata_upd. exact Hl.
Qed.

(* the directory preparation of copyFile: Exists(layer, dir), MkdirAll(dir) when missing;
   dir = copy_dir name (Model/Union.v): filepath.Dir of the name, or of the cleaned name when the switch
   copyfile_cleans_name is 1 — nothing below depends on which *)
Definition dir_prep (sl : mst) (name : str) : mst * option err :=
  let dir := copy_dir name in
  let '(sl0, ex) := l_exists m_step sl dir in
  match ex with
  | inr e => (sl0, Some e)
  | inl true => (sl0, None)
  | inl false =>
    match m_step sl0 (MkdirAll dir 511) with
    | (s, ROk) => (s, None)
    | (s, r) => (s, match res_err r with Some e => Some e | None => Some (E KOther) end)
    end
  end.

(* what copyFile needs of layer.Create(name): a fresh read-write handle at offset 0 on an empty regular
   file that is registered under the (normalised) name *)
Definition CreateOK (s : mst) (name : str) : Prop :=
  exists s2 lh fl nl, m_step s (Create name) = (s2, RHandle lh) /\
    nth_error (mhandles s2) lh = Some (mkH fl 0 0 false false) /\
    get_node s2 fl = Some nl /\ ndir nl = false /\ ndata nl = [] /\ lookup s2 (normalize_path name) = Some fl.

(* the sane-state hypothesis of the first-read theorem *)
Definition layer_ready (sl : mst) (name : str) : Prop :=
  snd (dir_prep sl name) = None -> CreateOK (fst (dir_prep sl name)) name.

(* copyFile after the directory preparation (the text of Model/Union.v copy_file from layer.Create on) *)
Definition copy_body (sb sl1 : mst) (name : str) (bh : nat) : mst * mst * option err :=
  match m_step sl1 (Create name) with
  | (sl2, RHandle lh) =>
    let '(sb1, st) := m_step sb (HStat bh) in
    let fuel := match st with RInfo fi => S (S (Z.to_nat (fi_size fi))) | _ => 2%nat end in
    let '(sb2, sl3, n, cerr) := io_copy m_step m_step fuel sb1 sl2 bh lh 0 in
    match cerr with
    | Some e =>
      let sl4 := fst (m_step sl3 (Remove name)) in
      let sl5 := fst (m_step sl4 (HClose lh)) in (sb2, sl5, Some e)
    | None =>
      let '(sb3, st2) := m_step sb2 (HStat bh) in
      match st2 with
      | RInfo bfi =>
        if negb (fi_size bfi =? n) then
          let sl4 := fst (m_step sl3 (Remove name)) in
          let sl5 := fst (m_step sl4 (HClose lh)) in (sb3, sl5, Some (E KEIO))
        else
          match m_step sl3 (HClose lh) with
          | (sl4, ROk) =>
            match m_step sl4 (Chtimes name (fi_mtime bfi)) with
            | (sl5, ROk) => (sb3, sl5, None)
            | (sl5, r) => (sb3, sl5, match res_err r with Some e => Some e | None => Some (E KOther) end)
            end
          | (sl4, r) =>
            let sl5 := fst (m_step sl4 (Remove name)) in
            let sl6 := fst (m_step sl5 (HClose lh)) in
            (sb3, sl6, match res_err r with Some e => Some e | None => Some (E KOther) end)
          end
      | _ =>
        let sl4 := fst (m_step sl3 (Remove name)) in
        let sl5 := fst (m_step sl4 (HClose lh)) in (sb3, sl5, Some (E KEIO))
      end
    end
  | (sl2, r) => (sb, after_failed_create m_step sl2 name, match res_err r with Some e => Some e | None => Some (E KOther) end)
  end.

Lemma copy_file_prep sb sl name bh :
  copy_file m_step m_step sb sl name bh =
  match dir_prep sl name with
  | (sl1, Some e) => (sb, sl1, Some e)
  | (sl1, None) => copy_body sb sl1 name bh
  end.
Proof.
  unfold copy_file, copy_file_gen, dir_prep, copy_body, after_failed_create. destruct (l_exists m_step sl (copy_dir name)) as [sl0 [[|]|e]]; try reflexivity.
  all: destruct (m_step sl0 (MkdirAll (copy_dir name) 511)) as [s r]; destruct r; reflexivity.
Qed.

(* after a Create that behaved, the copy cannot fail and leaves exactly the base's bytes and mtime *)
Lemma copy_body_correct sb sl1 name bh fb nb :
  BaseAt sb bh fb nb 0 -> ndir nb = false -> CreateOK sl1 name ->
  exists sb' sl' fl nl, copy_body sb sl1 name bh = (sb', sl', None) /\
    lookup sl' (normalize_path name) = Some fl /\ get_node sl' fl = Some nl /\
    ndir nl = false /\ ndata nl = ndata nb /\ nmtime nl = nmtime nb /\
    fs_view sb' = fs_view sb /\ BaseAt sb' bh fb nb (zlen (ndata nb)).
Proof.
  intros Hb Hnd [sl2 [lh [fl [nl0 [Hc [Hh [Hn [Hd [Hdat Hl]]]]]]]]].
  unfold copy_body. rewrite Hc.
  assert (Hst : forall s k, BaseAt s bh fb nb k -> m_step s (HStat bh) = (bump s, RInfo (finfo_of nb))).
  { intros s k [h [H1 [H2 [_ [_ [_ H3]]]]]]. subst fb. exact (mstep_hstat s bh h nb H1 H3). }
  rewrite (Hst sb 0 Hb).
  assert (Hsz : fi_size (finfo_of nb) = zlen (ndata nb)) by (unfold finfo_of; cbn [fi_size]; rewrite Hnd; reflexivity).
  rewrite Hsz.
  assert (Hl0 : LayerAt sl2 lh fl (normalize_path name) (firstn (Z.to_nat 0) (ndata nb))).
  { exists (mkH fl 0 0 false false), nl0. cbn [firstn Z.to_nat href hclosed hro hat]. repeat split; assumption. }
  destruct (io_copy_correct bh fb nb lh fl (normalize_path name) (S (S (Z.to_nat (zlen (ndata nb))))) (bump sb) sl2 0
              (BaseAt_bump _ _ _ _ _ Hb) ltac:(pose proof (zlen_ge0 (ndata nb)); lia) Hl0 ltac:(lia))
    as [sb2 [sl3 [Hio [Hb2 [Hl3 Hv]]]]].
  rewrite Hio. rewrite (Hst sb2 _ Hb2). rewrite Hsz, Z.eqb_refl. cbn [negb].
  destruct (layer_close sl3 lh fl _ _ Hl3) as [sl4 [nl4 [Hcl [Hn4 [Hd4 [Hdat4 Hl4]]]]]]. rewrite Hcl.
  destruct (layer_chtimes sl4 name fl nl4 (fi_mtime (finfo_of nb)) Hl4 Hn4) as [sl5 [Hct [Hn5 Hl5]]]. rewrite Hct.
  exists (bump sb2), sl5, fl, (with_mtime (fi_mtime (finfo_of nb)) nl4). repeat split; try assumption.
Qed.

(* copyToLayer: Open on the base, copyFile, Close of the base handle *)
Theorem copy_to_layer_correct sb sl name fb nb :
  lookup sb (normalize_path name) = Some fb -> get_node sb fb = Some nb -> ndir nb = false ->
  snd (dir_prep sl name) = None -> CreateOK (fst (dir_prep sl name)) name ->
  exists sb' sl' fl nl, copy_to_layer m_step m_step sb sl name = (sb', sl', None) /\
    lookup sl' (normalize_path name) = Some fl /\ get_node sl' fl = Some nl /\
    ndir nl = false /\ ndata nl = ndata nb /\ nmtime nl = nmtime nb /\ fs_view sb' = fs_view sb.
Proof.
  intros Hl Hn Hd Hp Hc. unfold copy_to_layer, copy_to_layer_with.
  assert (Ho : m_step sb (Open name) = (bump (fst (alloc_handle sb (mkH fb 0 0 false true))), RHandle (length (mhandles sb)))).
  { rewrite m_step_bump. cbn [m_step_raw]. unfold m_open. rewrite Hl. reflexivity. }
  rewrite Ho. set (sb1 := bump (fst (alloc_handle sb (mkH fb 0 0 false true)))).
  assert (Hb : BaseAt sb1 (length (mhandles sb)) fb nb 0).
  { exists (mkH fb 0 0 false true). repeat split; try reflexivity; [|exact Hn].
    unfold sb1, bump, alloc_handle. cbn [fst mhandles]. apply nth_error_app_last. }
  rewrite copy_file_prep. destruct (dir_prep sl name) as [sl1 pe]. cbn [fst snd] in *. subst pe.
  destruct (copy_body_correct sb1 sl1 name _ fb nb Hb Hd Hc) as [sb2 [sl2 [fl [nl [Hcb [H1 [H2 [H3 [H4 [H5 [H6 H7]]]]]]]]]]].
  rewrite Hcb. destruct H7 as [hb [Hbh [Hbf [Hbc [Hbro [Hbk Hbn]]]]]].
  eexists. exists sl2, fl, nl. split; [reflexivity|]. repeat split; try assumption.
  (* closing the read-only base handle leaves the base as it was *)
  rewrite m_step_bump. cbn [m_step_raw]. unfold m_hop. rewrite Hbh. subst fb. rewrite Hbn, Hbc, Hbro.
  exact H6.
Qed.

(* C10, first read: after a successful copyToLayer of a regular base file the layer holds exactly the
   base's bytes under the base's mtime, and the base is what it was — for every file size *)
Theorem first_read sb sl name fb nb sb' sl' :
  lookup sb (normalize_path name) = Some fb -> get_node sb fb = Some nb -> ndir nb = false ->
  layer_ready sl name ->
  copy_to_layer m_step m_step sb sl name = (sb', sl', None) ->
  exists fl nl, lookup sl' (normalize_path name) = Some fl /\ get_node sl' fl = Some nl /\
    ndir nl = false /\ ndata nl = ndata nb /\ nmtime nl = nmtime nb /\ fs_view sb' = fs_view sb.
Proof.
  intros Hl Hn Hd Hr Hc.
  assert (Hp : snd (dir_prep sl name) = None).
  { destruct (snd (dir_prep sl name)) as [e|] eqn:E; [|reflexivity]. exfalso. revert Hc.
    unfold copy_to_layer, copy_to_layer_with.
    assert (Ho : m_step sb (Open name) = (bump (fst (alloc_handle sb (mkH fb 0 0 false true))), RHandle (length (mhandles sb)))).
    { rewrite m_step_bump. cbn [m_step_raw]. unfold m_open. rewrite Hl. reflexivity. }
    rewrite Ho, copy_file_prep. destruct (dir_prep sl name) as [sl1 pe]. cbn [snd] in E. subst pe.
    intros Hc. inversion Hc. }
  destruct (copy_to_layer_correct sb sl name fb nb Hl Hn Hd Hp (Hr Hp)) as [sb2 [sl2 [fl [nl [Heq H]]]]].
  rewrite Heq in Hc. inversion Hc; subst. exists fl, nl. exact H.
Qed.

(* --- CacheOnReadFs.copyToLayer (Model/Cache.v cache_copy_to_layer) on a regular base file: the base's
   Stat (which changes nothing one can observe: the clock tick only) and then Union's copyToLayer --- *)
Lemma mstep_stat sb name fb nb :
  lookup sb (normalize_path name) = Some fb -> get_node sb fb = Some nb ->
  m_step sb (Stat name) = (bump sb, RInfo (finfo_of nb)).
Proof. intros Hl Hn. rewrite m_step_bump. cbn [m_step_raw]. unfold m_stat. rewrite Hl, Hn. reflexivity. Qed.

Lemma cache_copy_regular sb sl name fb nb :
  lookup sb (normalize_path name) = Some fb -> get_node sb fb = Some nb -> ndir nb = false ->
  cache_copy_to_layer m_step m_step sb sl name = copy_to_layer m_step m_step (bump sb) sl name /\
  fs_view (bump sb) = fs_view sb.
Proof.
  intros Hl Hn Hd. split; [|reflexivity].
  apply (cache_copy_file m_step m_step sb sl name (bump sb) (finfo_of nb) (mstep_stat sb name fb nb Hl Hn)).
  exact Hd.
Qed.

(* C10, first read, as the cache performs it (Open / Chtimes / Chmod / Chown / Rename on a miss or a stale
   copy call cache_copy_to_layer) *)
Theorem first_read_cache sb sl name fb nb sb' sl' :
  lookup sb (normalize_path name) = Some fb -> get_node sb fb = Some nb -> ndir nb = false ->
  layer_ready sl name ->
  cache_copy_to_layer m_step m_step sb sl name = (sb', sl', None) ->
  exists fl nl, lookup sl' (normalize_path name) = Some fl /\ get_node sl' fl = Some nl /\
    ndir nl = false /\ ndata nl = ndata nb /\ nmtime nl = nmtime nb /\ fs_view sb' = fs_view sb.
Proof.
  intros Hl Hn Hd Hr Hc. destruct (cache_copy_regular sb sl name fb nb Hl Hn Hd) as [He Hv]. rewrite He in Hc.
  exact (first_read (bump sb) sl name fb nb sb' sl' Hl Hn Hd Hr Hc).
Qed.

Theorem cache_copy_correct sb sl name fb nb :
  lookup sb (normalize_path name) = Some fb -> get_node sb fb = Some nb -> ndir nb = false ->
  snd (dir_prep sl name) = None -> CreateOK (fst (dir_prep sl name)) name ->
  exists sb' sl' fl nl, cache_copy_to_layer m_step m_step sb sl name = (sb', sl', None) /\
    lookup sl' (normalize_path name) = Some fl /\ get_node sl' fl = Some nl /\
    ndir nl = false /\ ndata nl = ndata nb /\ nmtime nl = nmtime nb /\ fs_view sb' = fs_view sb.
Proof.
  intros Hl Hn Hd Hp Hc. destruct (cache_copy_regular sb sl name fb nb Hl Hn Hd) as [He Hv]. rewrite He.
  exact (copy_to_layer_correct (bump sb) sl name fb nb Hl Hn Hd Hp Hc).
Qed.

(* --- the sane-state hypothesis holds in the two shapes a cache is in --- *)
Lemma alist_get_set_eq {A} k (v : A) l : alist_get k (alist_set k v l) = Some v.
Proof.
  induction l as [|[k' v'] l IH]; cbn; [now rewrite PathProof.beqb_refl|].
  destruct (beqb k k') eqn:E; cbn; [now rewrite PathProof.beqb_refl | now rewrite E].
Qed.
Lemma alist_get_set_neq {A} k k' (v : A) l : k <> k' -> alist_get k (alist_set k' v l) = alist_get k l.
Proof.
  intros Hne. assert (Hb : beqb k k' = false) by (apply PathProof.beqb_false_iff; exact Hne).
  induction l as [|[k2 v2] l IH]; cbn; [now rewrite Hb|].
  destruct (beqb k' k2) eqn:E; cbn.
  - apply PathProof.beqb_true_iff in E. subst k2. now rewrite Hb.
  - destruct (beqb k k2); [reflexivity | exact IH].
Qed.

(* (1) refresh: the name is already cached as a regular file — Create truncates it in place *)
Lemma create_ok_cached s name f n :
  lookup s (normalize_path name) = Some f -> get_node s f = Some n -> ndir n = false -> CreateOK s name.
Proof.
  intros Hl Hn Hd. unfold CreateOK. rewrite m_step_bump. cbn [m_step_raw]. unfold m_create. rewrite Hl, Hn, Hd.
  cbn [fst snd alloc_handle].
  eexists. exists (length (mhandles (upd_node s f (fun n0 => with_mtime (mclock s) (with_data [] n0))))), f,
    (with_mtime (mclock s) (with_data [] n)).
  split; [reflexivity|]. repeat split.
  - unfold bump. cbn [mhandles]. apply nth_error_app_last.
  - exact (get_node_upd_eq s f _ n Hn).
  - exact Hd.
  - unfold bump, lookup. cbn [mdata]. rewrite mdata_upd. exact Hl.
Qed.

(* (2) first fill into a directory the cache already has: no dangling entries in the path map *)
Definition wf_map (s : mst) : Prop := forall k v, lookup s k = Some v -> (v < length (mheap s))%nat.
Definition parent_key (key : str) : str := normalize_path (clean (fst (path_split key))).

Lemma create_ok_new s name p pn :
  wf_map s -> lookup s (normalize_path name) = None -> lookup s (parent_key (normalize_path name)) = Some p ->
  get_node s p = Some pn -> ndir pn = true ->
  CreateOK s name.
Proof.
  intros Hwf Hl Hp Hpn Hpd. set (key := normalize_path name) in *.
  assert (Hne : parent_key key <> key) by (intros Hq; rewrite Hq in Hp; congruence).
  assert (Hpf : p <> length (mheap s)) by (pose proof (Hwf _ _ Hp); lia).
  unfold CreateOK. rewrite m_step_bump. cbn [m_step_raw]. unfold m_create. fold key.
  rewrite Hl, (below_file_parent_dir s key p pn Hp Hpn Hpd).
  unfold m_create_node, alloc_node. cbn [fst snd].
  set (f := length (mheap s)) in *.
  set (s2 := set_data _ _).
  assert (Hgf : get_node s2 f = Some (new_file key (mclock s))).
  { unfold s2, set_data, get_node. cbn [mheap]. apply nth_error_app_last. }
  assert (Hfp : find_parent s2 f = Some p).
  { unfold find_parent, node_name. rewrite Hgf. cbn [nname new_file]. unfold lockfree_open, lookup, s2, set_data. cbn [mdata].
    fold (parent_key key). rewrite alist_get_set_neq by exact Hne. exact Hp. }
  unfold reg. cbn [register]. rewrite Hfp. unfold add_kid.
  set (s3 := upd_node s2 p _).
  cbn [alloc_handle fst snd].
  eexists. exists (length (mhandles s3)), f, (new_file key (mclock s)).
  split; [reflexivity|]. repeat split.
  - unfold bump. cbn [mhandles]. apply nth_error_app_last.
  - unfold bump, get_node. cbn [mheap]. change (get_node s3 f = Some (new_file key (mclock s))).
    unfold s3. rewrite get_node_upd_neq by congruence. exact Hgf.
  - unfold bump, lookup. cbn [mdata]. unfold s3. rewrite mdata_upd. unfold s2, set_data. cbn [mdata].
    apply alist_get_set_eq.
Qed.

(* ------------------------------------------------------------------------------------------ *)
(* Part 3: the two handles of a UnionFile stay coherent (MemMapFs layers)                      *)
(* ------------------------------------------------------------------------------------------ *)

(* mem.File's methods as one function of (handle, content): new handle, new content, result *)
Definition hsem (o : op) (h : hnd) (data : bytes) : hnd * option bytes * res :=
  match o with
  | HRead _ n => let '(h', r) := f_read data h n in (h', None, r)
  | HReadAt _ n off => let '(h', r) := f_readat data h n off in (h', None, r)
  | HWrite _ b | HWriteString _ b => let '(d, h', r) := f_write data h b in (h', d, r)
  | HWriteAt _ b off => let '(d, h', r) := f_writeat data h b off in (h', d, r)
  | HSeek _ off wh => let '(h', r) := f_seek data h off wh in (h', None, r)
  | HTruncate _ n => let '(d, r) := f_truncate data h n in (h, d, r)
  | _ => (h, None, RNoSlot)
  end.
Definition hkind (o : op) : bool :=
  match o with
  | HRead _ _ | HReadAt _ _ _ | HWrite _ _ | HWriteString _ _ | HWriteAt _ _ _ | HSeek _ _ _ | HTruncate _ _ => true
  | _ => false
  end.
Definition h_new (x : hnd * option bytes * res) : hnd := fst (fst x).
Definition h_data (x : hnd * option bytes * res) : option bytes := snd (fst x).
Definition h_res (x : hnd * option bytes * res) : res := snd x.

Lemma hsem_set_handle o j : hsem (op_set_handle o j) = hsem o.
Proof. destruct o; reflexivity. Qed.
Lemma hkind_set_handle o j : hkind (op_set_handle o j) = hkind o.
Proof. destruct o; reflexivity. Qed.
Lemma op_handle_set o j : hkind o = true -> op_handle_of (op_set_handle o j) = Some j.
Proof. destruct o; try discriminate; reflexivity. Qed.

Definition new_node (s : mst) (nd : node) (d : option bytes) : node :=
  match d with Some x => with_mtime (mclock s) (with_data x nd) | None => nd end.

(* one call on handle i of s: the handle and its node change as hsem says, nothing else does *)
Definition HStep (s s' : mst) (i : nat) (h h' : hnd) (nd' : node) : Prop :=
  nth_error (mhandles s') i = Some h' /\ href h' = href h /\ get_node s' (href h) = Some nd' /\
  (forall j, j <> i -> nth_error (mhandles s') j = nth_error (mhandles s) j) /\
  (forall g, g <> href h -> get_node s' g = get_node s g).

Lemma HStep_refl s i h nd : nth_error (mhandles s) i = Some h -> get_node s (href h) = Some nd -> HStep s s i h h nd.
Proof. intros Hh Hn. repeat split; auto. Qed.

Lemma HStep_state s i h h' nd d :
  nth_error (mhandles s) i = Some h -> get_node s (href h) = Some nd -> href h' = href h ->
  HStep s (bump (put_data (set_handle s i h') (href h) d)) i h h' (new_node s nd d).
Proof.
  intros Hh Hn Hf. unfold HStep, put_data, new_node. destruct d as [x|].
  - repeat split.
    + unfold bump. cbn [mhandles]. rewrite mhandles_upd. unfold set_handle. cbn [mhandles].
      apply nth_error_list_set_eq. exact (nth_error_lt _ _ _ Hh).
    + exact Hf.
    + exact (get_node_upd_eq (set_handle s i h') (href h) (fun n => with_mtime (mclock s) (with_data x n)) nd Hn).
    + intros j Hj. unfold bump. cbn [mhandles]. rewrite mhandles_upd. unfold set_handle. cbn [mhandles].
      apply nth_error_list_set_neq. congruence.
    + intros g Hg. exact (get_node_upd_neq (set_handle s i h') (href h) _ g Hg).
  - repeat split.
    + unfold bump, set_handle. cbn [mhandles]. apply nth_error_list_set_eq. exact (nth_error_lt _ _ _ Hh).
    + exact Hf.
    + exact Hn.
    + intros j Hj. unfold bump, set_handle. cbn [mhandles]. apply nth_error_list_set_neq. congruence.
Qed.

Lemma HStep_state_same s i h nd d :
  nth_error (mhandles s) i = Some h -> get_node s (href h) = Some nd ->
  HStep s (bump (put_data s (href h) d)) i h h (new_node s nd d).
Proof.
  intros Hh Hn. unfold HStep, put_data, new_node. destruct d as [x|].
  - repeat split.
    + unfold bump. cbn [mhandles]. rewrite mhandles_upd. exact Hh.
    + exact (get_node_upd_eq s (href h) (fun n => with_mtime (mclock s) (with_data x n)) nd Hn).
    + intros j Hj. unfold bump. cbn [mhandles]. rewrite mhandles_upd. reflexivity.
    + intros g Hg. exact (get_node_upd_neq s (href h) _ g Hg).
  - repeat split; auto.
Qed.

(* every mem.File method keeps the node the handle refers to *)
Lemma hsem_href o h data : href (h_new (hsem o h data)) = href h.
Proof.
  unfold h_new. destruct o; try reflexivity; cbn [hsem].
  - unfold f_read. repeat match goal with |- context [if ?c then _ else _] => destruct c end; reflexivity.
  - pose proof (f_readat_handle data h n off) as H. destruct (f_readat data h n off) as [h' r]. cbn [fst] in *. now subst.
  - unfold f_write. repeat match goal with |- context [if ?c then _ else _] => destruct c end; reflexivity.
  - pose proof (f_writeat_handle data h b off) as H. destruct (f_writeat data h b off) as [[d h'] r]. cbn [fst snd] in *. now subst.
  - unfold f_write. repeat match goal with |- context [if ?c then _ else _] => destruct c end; reflexivity.
  - unfold f_seek. repeat match goal with |- context [if ?c then _ else _] => destruct c end; reflexivity.
  - destruct (f_truncate data h n) as [d r]. reflexivity.
Qed.

Lemma mstep_hsem s o i h nd :
  hkind o = true -> op_handle_of o = Some i ->
  nth_error (mhandles s) i = Some h -> get_node s (href h) = Some nd ->
  exists s', m_step s o = (s', h_res (hsem o h (ndata nd))) /\
             HStep s s' i h (h_new (hsem o h (ndata nd))) (new_node s nd (h_data (hsem o h (ndata nd)))).
Proof.
  intros Hk Ho Hh Hn. pose proof (hsem_href o h (ndata nd)) as Hf.
  destruct o; try discriminate Hk; cbn [op_handle_of] in Ho; inversion Ho; subst;
    rewrite m_step_bump; cbn [m_step_raw]; unfold m_hop; rewrite Hh, Hn; unfold h_res, h_new, h_data in *; cbn [hsem] in *.
  - destruct (f_read (ndata nd) h n) as [h' r]. cbn [fst snd] in *. eexists. split; [reflexivity|].
    apply (HStep_state s i h h' nd None Hh Hn Hf).
  - destruct (f_readat (ndata nd) h n off) as [h' r]. cbn [fst snd] in *. eexists. split; [reflexivity|].
    apply (HStep_state s i h h' nd None Hh Hn Hf).
  - destruct (f_write (ndata nd) h b) as [[d h'] r]. cbn [fst snd] in *. eexists. split; [reflexivity|].
    apply (HStep_state s i h h' nd d Hh Hn Hf).
  - destruct (f_writeat (ndata nd) h b off) as [[d h'] r]. cbn [fst snd] in *. eexists. split; [reflexivity|].
    apply (HStep_state s i h h' nd d Hh Hn Hf).
  - destruct (f_write (ndata nd) h b) as [[d h'] r]. cbn [fst snd] in *. eexists. split; [reflexivity|].
    apply (HStep_state s i h h' nd d Hh Hn Hf).
  - destruct (f_seek (ndata nd) h off whence) as [h' r]. cbn [fst snd] in *. eexists. split; [reflexivity|].
    apply (HStep_state s i h h' nd None Hh Hn Hf).
  - destruct (f_truncate (ndata nd) h n) as [d r]. cbn [fst snd] in *. eexists. split; [reflexivity|].
    apply (HStep_state_same s i h nd d Hh Hn).
Qed.

(* what the methods look at: offset, closed flag, read-only flag and the content *)
Definition hnorm (h : hnd) : hnd := mkH 0 (hat h) 0 (hclosed h) (hro h).
Definition hproj_eq (a b : hnd) : Prop := hat a = hat b /\ hclosed a = hclosed b /\ hro a = hro b.

Ltac ifs := repeat (match goal with |- context [if ?c then _ else _] => destruct c eqn:? end;
                    cbn [fst snd hat hclosed hro href hrdc set_at h_new h_data h_res]).

Lemma hsem_norm o h data :
  hproj_eq (h_new (hsem o h data)) (h_new (hsem o (hnorm h) data)) /\
  h_data (hsem o h data) = h_data (hsem o (hnorm h) data) /\
  h_res (hsem o h data) = h_res (hsem o (hnorm h) data).
Proof.
  destruct h as [f a c cl ro]. unfold hnorm, hproj_eq, h_new, h_data, h_res. cbn [hat hclosed hro].
  destruct o; cbn [hsem fst snd]; try (repeat split; reflexivity).
  - unfold f_read. cbn [hat hclosed hro set_at href hrdc]. ifs; repeat split; reflexivity.
  - unfold f_readat, f_read. cbn [hat hclosed hro set_at href hrdc]. ifs; repeat split; reflexivity.
  - unfold f_write. cbn [hat hclosed hro set_at href hrdc]. ifs; repeat split; reflexivity.
  - unfold f_writeat, f_write. cbn [hat hclosed hro set_at href hrdc]. ifs; repeat split; reflexivity.
  - unfold f_write. cbn [hat hclosed hro set_at href hrdc]. ifs; repeat split; reflexivity.
  - unfold f_seek. cbn [hat hclosed hro set_at href hrdc]. ifs; repeat split; reflexivity.
  - unfold f_truncate. cbn [hat hclosed hro set_at href hrdc]. ifs; repeat split; reflexivity.
Qed.

Lemma hnorm_eq a b : hproj_eq a b -> hnorm a = hnorm b.
Proof. intros [H1 [H2 H3]]. unfold hnorm. now rewrite H1, H2, H3. Qed.

(* equal offset / flags / content: the same call gives equal offset / flags / content / result *)
Lemma hsem_same o h1 h2 data :
  hproj_eq h1 h2 ->
  hproj_eq (h_new (hsem o h1 data)) (h_new (hsem o h2 data)) /\
  h_data (hsem o h1 data) = h_data (hsem o h2 data) /\ h_res (hsem o h1 data) = h_res (hsem o h2 data).
Proof.
  intros He. destruct (hsem_norm o h1 data) as [[A1 [A2 A3]] [A4 A5]].
  destruct (hsem_norm o h2 data) as [[B1 [B2 B3]] [B4 B5]]. rewrite (hnorm_eq _ _ He) in *.
  unfold hproj_eq. repeat split; congruence.
Qed.

(* no method opens, closes or changes the access mode of a handle *)
Lemma hsem_caps o h data : hclosed (h_new (hsem o h data)) = hclosed h /\ hro (h_new (hsem o h data)) = hro h.
Proof.
  unfold h_new. destruct o; try (split; reflexivity); cbn [hsem].
  - destruct h as [f a c cl ro]. unfold f_read. cbn [hat hclosed hro set_at href hrdc]. ifs; split; reflexivity.
  - pose proof (f_readat_handle data h n off) as H. destruct (f_readat data h n off) as [h' r]. cbn [fst] in *. subst. now split.
  - destruct h as [f a c cl ro]. unfold f_write. cbn [hat hclosed hro set_at href hrdc]. ifs; split; reflexivity.
  - pose proof (f_writeat_handle data h b off) as H. destruct (f_writeat data h b off) as [[d h'] r]. cbn [fst snd] in *. subst. now split.
  - destruct h as [f a c cl ro]. unfold f_write. cbn [hat hclosed hro set_at href hrdc]. ifs; split; reflexivity.
  - destruct h as [f a c cl ro]. unfold f_seek. cbn [hat hclosed hro set_at href hrdc]. ifs; split; reflexivity.
  - destruct (f_truncate data h n) as [d r]. now split.
Qed.

Definition write_like (o : op) : bool :=
  match o with HWrite _ _ | HWriteString _ _ | HWriteAt _ _ _ | HTruncate _ _ => true | _ => false end.

(* a failed Write / WriteString / WriteAt / Truncate changes neither the content nor the offset *)
Lemma hsem_write_err o h data :
  write_like o = true -> res_err (h_res (hsem o h data)) <> None ->
  h_data (hsem o h data) = None /\ hat (h_new (hsem o h data)) = hat h.
Proof.
  intros Hw. destruct h as [f a c cl ro]. unfold h_res, h_data, h_new.
  destruct o; try discriminate Hw; cbn [hsem].
  - unfold f_write. cbn [hat hclosed hro set_at href hrdc]. ifs; cbn [res_err]; intros H; try (now split); contradiction.
  - unfold f_writeat, f_write. cbn [hat hclosed hro set_at href hrdc]. ifs; cbn [res_err]; intros H; try (now split); contradiction.
  - unfold f_write. cbn [hat hclosed hro set_at href hrdc]. ifs; cbn [res_err]; intros H; try (now split); contradiction.
  - unfold f_truncate. cbn [hat hclosed hro set_at href hrdc]. ifs; cbn [res_err]; intros H; try (now split); contradiction.
Qed.

(* Seek: never touches the content; a failed Seek keeps the offset *)
Lemma hsem_seek i off wh h data :
  h_data (hsem (HSeek i off wh) h data) = None /\
  (res_err (h_res (hsem (HSeek i off wh) h data)) <> None -> hat (h_new (hsem (HSeek i off wh) h data)) = hat h).
Proof.
  destruct h as [f a c cl ro]. unfold h_res, h_data, h_new. cbn [hsem]. unfold f_seek.
  cbn [hat hclosed hro set_at href hrdc]. ifs; cbn [res_err]; split; try reflexivity; intros H; try reflexivity; contradiction.
Qed.

Lemma hsem_seek_cur i c h data :
  hclosed h = false -> 0 <= hat h + c ->
  hsem (HSeek i c 1) h data = (set_at h (hat h + c), None, RPos (hat h + c) None).
Proof.
  intros Hc Hp. cbn [hsem]. unfold f_seek. rewrite Hc. cbn [Z.eqb Pos.eqb].
  assert (E : (hat h + c <? 0) = false) by (apply Z.ltb_ge; lia). rewrite E. reflexivity.
Qed.

(* Read with a buffer of n >= 0 bytes *)
Lemma hsem_read i n h data :
  0 <= n ->
  let x := hsem (HRead i n) h data in
  h_data x = None /\
  (ok_or_eof (res_err (h_res x)) = true ->
     hclosed h = false /\ 0 <= hat h /\ 0 <= count_of (h_res x) /\ hat (h_new x) = hat h + count_of (h_res x)) /\
  (ok_or_eof (res_err (h_res x)) = false -> hat (h_new x) = hat h).
Proof.
  intros Hn. destruct h as [f a c cl ro]. cbv zeta. unfold h_res, h_data, h_new. cbn [hsem]. unfold f_read.
  cbn [hat hclosed hro set_at href hrdc].
  destruct cl; [cbn; repeat split; intros; try discriminate; reflexivity|].
  destruct ((0 <? n) && (a =? zlen data)) eqn:E1.
  { apply andb_true_iff in E1 as [_ E1]. apply Z.eqb_eq in E1. pose proof (zlen_ge0 data).
    cbn [fst snd res_err ok_or_eof is_eof_err ek E errk_eqb count_of zlen length Z.of_nat hat].
    repeat split; intros; try discriminate; lia. }
  destruct (zlen data <? a) eqn:E2; [cbn; repeat split; intros; try discriminate; reflexivity|].
  destruct (a <? 0) eqn:E3; [cbn; repeat split; intros; try discriminate; reflexivity|].
  apply Z.ltb_ge in E2, E3. cbn [fst snd res_err ok_or_eof count_of hat].
  set (k := if n <=? zlen data - a then n else zlen data - a).
  assert (Hk : 0 <= k /\ a + k <= zlen data) by (unfold k; destruct (n <=? zlen data - a) eqn:E4; [apply Z.leb_le in E4|]; lia).
  clearbody k. destruct Hk as [Hk1 Hk2]. rewrite !zlen_slice by lia. cbn [hat set_at]. repeat split; intros; try discriminate; lia.
Qed.

(* the offsets and flags of the two handles agree and so do the contents they refer to *)
Definition PairCoh (sb sl : mst) (bh lh : nat) : Prop :=
  exists hb hl nb nl, nth_error (mhandles sb) bh = Some hb /\ nth_error (mhandles sl) lh = Some hl /\
    get_node sb (href hb) = Some nb /\ get_node sl (href hl) = Some nl /\
    hproj_eq hb hl /\ ndata nb = ndata nl.

Definition coh_op (o : op) : bool :=
  match o with
  | HRead _ n => 0 <=? n
  | HReadAt _ _ _ | HWrite _ _ | HWriteString _ _ | HWriteAt _ _ _ | HSeek _ _ _ | HTruncate _ _ => true
  | _ => false
  end.

Lemma new_node_data s nd d : ndata (new_node s nd d) = match d with Some x => x | None => ndata nd end.
Proof. destruct d; reflexivity. Qed.

(* Write / WriteString / WriteAt / Truncate through the UnionFile: layer first, then (unless it failed) base *)
Lemma uf_write_like (sb sl : mst) (bh lh : nat) (u : ufile) (o : op) hb hl nb nl :
  write_like o = true ->
  nth_error (mhandles sb) bh = Some hb -> nth_error (mhandles sl) lh = Some hl ->
  get_node sb (href hb) = Some nb -> get_node sl (href hl) = Some nl ->
  hproj_eq hb hl -> ndata nb = ndata nl ->
  exists (sb' sl' : mst) (r : res) hb' hl' nb' nl',
    (let '(sl1, r) := m_step sl (op_set_handle o lh) in
     match Some bh, res_err r with
     | Some bh, None => let '(sb1, rb) := m_step sb (op_set_handle o bh) in (sb1, sl1, u, union_write_result o r rb)
     | _, _ => (sb, sl1, u, r)
     end) = (sb', sl', u, r) /\
    HStep sb sb' bh hb hb' nb' /\ HStep sl sl' lh hl hl' nl' /\ hproj_eq hb' hl' /\ ndata nb' = ndata nl'.
Proof.
  intros Hw Hbh Hlh Hbn Hln Hp Hd.
  assert (Hk : hkind o = true) by (destruct o; try discriminate Hw; reflexivity).
  destruct (mstep_hsem sl (op_set_handle o lh) lh hl nl) as [sl' [Hs Hst]];
    [now rewrite hkind_set_handle | now apply op_handle_set | exact Hlh | exact Hln |].
  rewrite hsem_set_handle in *. rewrite Hs.
  destruct (res_err (h_res (hsem o hl (ndata nl)))) as [e|] eqn:Er.
  - (* the layer call failed: the base is not called, the layer handle keeps offset and content *)
    destruct (hsem_write_err o hl (ndata nl) Hw) as [Hnone Hat]; [rewrite Er; discriminate|].
    destruct (hsem_caps o hl (ndata nl)) as [Hc1 Hc2].
    exists sb, sl', (h_res (hsem o hl (ndata nl))), hb, (h_new (hsem o hl (ndata nl))), nb, (new_node sl nl (h_data (hsem o hl (ndata nl)))).
    split; [reflexivity|]. split; [apply HStep_refl; assumption|]. split; [exact Hst|].
    rewrite Hnone. cbn [new_node]. destruct Hp as [P1 [P2 P3]]. unfold hproj_eq. repeat split; congruence.
  - destruct (mstep_hsem sb (op_set_handle o bh) bh hb nb) as [sb' [Hsb Hstb]];
      [now rewrite hkind_set_handle | now apply op_handle_set | exact Hbh | exact Hbn |].
    rewrite hsem_set_handle in *. rewrite Hsb.
    destruct (hsem_same o hb hl (ndata nl) Hp) as [Q1 [Q2 Q3]].
    eexists sb', sl', _, _, _, _, _. split; [reflexivity|]. split; [exact Hstb|]. split; [exact Hst|].
    rewrite Hd. split; [exact Q1|]. rewrite !new_node_data, Q2, Hd. reflexivity.
Qed.

(* C11 (handles): one method of a UnionFile over two coherent handles leaves them coherent.
   ReadAt: exactly when unionFile.go's ReadAt does not seek the base handle. *)
Theorem uf_op_coherent (sb sl : mst) (bh lh : nat) (off : Z) (files : list finfo) (o : op) hb hl nb nl :
  coh_op o = true ->
  (forall i n k, o = HReadAt i n k -> union_readat_seeks_base = 0) ->
  nth_error (mhandles sb) bh = Some hb -> nth_error (mhandles sl) lh = Some hl ->
  get_node sb (href hb) = Some nb -> get_node sl (href hl) = Some nl ->
  hproj_eq hb hl -> ndata nb = ndata nl ->
  exists (sb' sl' : mst) (r : res) hb' hl' nb' nl',
    uf_op m_step m_step sb sl (mkUF (Some bh) (Some lh) off files) o =
      (sb', sl', mkUF (Some bh) (Some lh) off files, r) /\
    HStep sb sb' bh hb hb' nb' /\ HStep sl sl' lh hl hl' nl' /\ hproj_eq hb' hl' /\ ndata nb' = ndata nl'.
Proof.
  intros Hc Hfix Hbh Hlh Hbn Hln Hp Hd.
  destruct o; try discriminate Hc; cbn [uf_op ulayer ubase].
  - (* Read: the layer reads, the base seeks forward by the count *)
    apply Z.leb_le in Hc.
    destruct (mstep_hsem sl (HRead lh n) lh hl nl eq_refl eq_refl Hlh Hln) as [sl' [Hs Hst]]. rewrite Hs.
    destruct (hsem_read lh n hl (ndata nl) Hc) as [Hnone [Hok Hno]]. cbv zeta in *.
    destruct (hsem_caps (HRead lh n) hl (ndata nl)) as [Hc1 Hc2].
    destruct Hp as [P1 [P2 P3]].
    set (x := hsem (HRead lh n) hl (ndata nl)) in *.
    destruct (ok_or_eof (res_err (h_res x))) eqn:E.
    + destruct (Hok eq_refl) as [Hcl [Hat0 [Hcnt Hnew]]].
      destruct (mstep_hsem sb (HSeek bh (count_of (h_res x)) 1) bh hb nb eq_refl eq_refl Hbh Hbn) as [sb' [Hsb Hstb]].
      rewrite (hsem_seek_cur bh (count_of (h_res x)) hb (ndata nb)) in * by (try congruence; lia).
      unfold h_res, h_new, h_data in *. cbn [fst snd new_node] in Hsb, Hstb. rewrite Hsb. cbn [res_err].
      eexists sb', sl', _, _, _, _, _. split; [reflexivity|]. split; [exact Hstb|]. split; [exact Hst|].
      rewrite Hnone. cbn [new_node]. split; [|exact Hd].
      unfold hproj_eq. cbn [hat hclosed hro set_at]. repeat split; congruence.
    + exists sb, sl', (h_res x), hb, (h_new x), nb, (new_node sl nl (h_data x)).
      split; [reflexivity|]. split; [apply HStep_refl; assumption|]. split; [exact Hst|].
      rewrite Hnone. cbn [new_node]. split; [|exact Hd].
      specialize (Hno eq_refl). unfold hproj_eq. repeat split; congruence.
  - (* ReadAt: only the layer, provided ReadAt does not seek the base *)
    rewrite (Hfix h n off0 eq_refl). cbn [Z.eqb andb].
    destruct (mstep_hsem sl (HReadAt lh n off0) lh hl nl eq_refl eq_refl Hlh Hln) as [sl' [Hs Hst]]. rewrite Hs.
    assert (Hn : h_new (hsem (HReadAt lh n off0) hl (ndata nl)) = hl /\ h_data (hsem (HReadAt lh n off0) hl (ndata nl)) = None).
    { unfold h_new, h_data. cbn [hsem]. pose proof (f_readat_handle (ndata nl) hl n off0) as H.
      destruct (f_readat (ndata nl) hl n off0) as [h' r]. cbn [fst snd] in *. now subst. }
    destruct Hn as [Hn1 Hn2]. rewrite Hn1, Hn2 in Hst. cbn [new_node] in Hst.
    eexists sb, sl', _, hb, hl, nb, nl. split; [reflexivity|]. split; [apply HStep_refl; assumption|].
    split; [exact Hst|]. split; assumption.
  - exact (uf_write_like sb sl bh lh _ (HWrite h b) hb hl nb nl eq_refl Hbh Hlh Hbn Hln Hp Hd).
  - exact (uf_write_like sb sl bh lh _ (HWriteAt h b off0) hb hl nb nl eq_refl Hbh Hlh Hbn Hln Hp Hd).
  - exact (uf_write_like sb sl bh lh _ (HWriteString h b) hb hl nb nl eq_refl Hbh Hlh Hbn Hln Hp Hd).
  - (* Seek: the layer, then (unless it failed) the same Seek on the base *)
    destruct (mstep_hsem sl (HSeek lh off0 whence) lh hl nl eq_refl eq_refl Hlh Hln) as [sl' [Hs Hst]]. rewrite Hs.
    destruct (hsem_seek lh off0 whence hl (ndata nl)) as [Hnone Herr].
    destruct (hsem_caps (HSeek lh off0 whence) hl (ndata nl)) as [Hc1 Hc2].
    set (x := hsem (HSeek lh off0 whence) hl (ndata nl)) in *.
    destruct (ok_or_eof (res_err (h_res x))) eqn:E.
    + destruct (mstep_hsem sb (HSeek bh off0 whence) bh hb nb eq_refl eq_refl Hbh Hbn) as [sb' [Hsb Hstb]].
      rewrite Hsb.
      destruct (hsem_same (HSeek bh off0 whence) hb hl (ndata nl) Hp) as [Q1 [Q2 Q3]].
      change (hsem (HSeek bh off0 whence) hl (ndata nl)) with x in Q1, Q2, Q3.
      eexists sb', sl', _, _, _, _, _. split; [reflexivity|]. split; [exact Hstb|]. split; [exact Hst|].
      rewrite Hd. split; [exact Q1|]. rewrite !new_node_data, Q2, Hd. reflexivity.
    + assert (Hne : res_err (h_res x) <> None) by (intros Hq; rewrite Hq in E; discriminate E).
      specialize (Herr Hne). destruct Hp as [P1 [P2 P3]].
      exists sb, sl', (h_res x), hb, (h_new x), nb, (new_node sl nl (h_data x)).
      split; [reflexivity|]. split; [apply HStep_refl; assumption|]. split; [exact Hst|].
      rewrite Hnone. cbn [new_node]. split; [|exact Hd]. unfold hproj_eq. repeat split; congruence.
  - exact (uf_write_like sb sl bh lh _ (HTruncate h n) hb hl nb nl eq_refl Hbh Hlh Hbn Hln Hp Hd).
Qed.

Corollary pair_coh_preserved (sb sl : mst) bh lh off files o :
  coh_op o = true -> (forall i n k, o = HReadAt i n k -> union_readat_seeks_base = 0) ->
  PairCoh sb sl bh lh ->
  exists sb' sl' r, uf_op m_step m_step sb sl (mkUF (Some bh) (Some lh) off files) o =
                      (sb', sl', mkUF (Some bh) (Some lh) off files, r) /\ PairCoh sb' sl' bh lh.
Proof.
  intros Hc Hfix [hb [hl [nb [nl [Hbh [Hlh [Hbn [Hln [Hp Hd]]]]]]]]].
  destruct (uf_op_coherent sb sl bh lh off files o hb hl nb nl Hc Hfix Hbh Hlh Hbn Hln Hp Hd)
    as [sb' [sl' [r [hb' [hl' [nb' [nl' [He [[B1 [B2 [B3 _]]] [[L1 [L2 [L3 _]]] [Hp' Hd']]]]]]]]]]].
  exists sb', sl', r. split; [exact He|]. exists hb', hl', nb', nl'. rewrite B2, L2.
  exact (conj B1 (conj L1 (conj B3 (conj L3 (conj Hp' Hd'))))).
Qed.

(* --- the handle table of the caching filesystem --- *)
Definition Coh (st : mst * mst * list chandle) : Prop :=
  let '(sb, sl, tbl) := st in
  forall i u bh lh, nth_error tbl i = Some (HU u) -> ubase u = Some bh -> ulayer u = Some lh -> PairCoh sb sl bh lh.

(* the other UnionFiles of the table use other inner handles, and refer to the same base file exactly
   when they refer to the same cached file (what opening the same name in both layers produces) *)
Definition Aligned (st : mst * mst * list chandle) (i : nat) : Prop :=
  let '(sb, sl, tbl) := st in
  forall u bh lh hb hl, nth_error tbl i = Some (HU u) -> ubase u = Some bh -> ulayer u = Some lh ->
    nth_error (mhandles sb) bh = Some hb -> nth_error (mhandles sl) lh = Some hl ->
    forall j u2 bh2 lh2 hb2 hl2, j <> i -> nth_error tbl j = Some (HU u2) -> ubase u2 = Some bh2 -> ulayer u2 = Some lh2 ->
      nth_error (mhandles sb) bh2 = Some hb2 -> nth_error (mhandles sl) lh2 = Some hl2 ->
      bh2 <> bh /\ lh2 <> lh /\ (href hb2 = href hb <-> href hl2 = href hl).

Theorem Coh_preserved_partial dur now (sb sl : mst) tbl i u bh lh o :
  Coh (sb, sl, tbl) -> Aligned (sb, sl, tbl) i ->
  nth_error tbl i = Some (HU u) -> ubase u = Some bh -> ulayer u = Some lh ->
  op_handle_of o = Some i -> coh_op o = true ->
  (forall i n k, o = HReadAt i n k -> union_readat_seeks_base = 0) ->
  Coh (fst (cache_step m_step m_step dur now (sb, sl, tbl) o)).
Proof.
  intros HC HA Hn Hub Hul Ho Hc Hfix. destruct u as [ob ol off files]. cbn [ubase ulayer] in Hub, Hul. subst ob ol.
  destruct (HC i _ bh lh Hn eq_refl eq_refl) as [hb [hl [nb [nl [Hbh [Hlh [Hbn [Hln [Hp Hd]]]]]]]]].
  destruct (uf_op_coherent sb sl bh lh off files o hb hl nb nl Hc Hfix Hbh Hlh Hbn Hln Hp Hd)
    as [sb' [sl' [r [hb' [hl' [nb' [nl' [He [[B1 [B2 [B3 [B4 B5]]]] [[L1 [L2 [L3 [L4 L5]]]] [Hp' Hd']]]]]]]]]]].
  assert (Hstep : cache_step m_step m_step dur now (sb, sl, tbl) o =
                  ((sb', sl', list_set i (HU (mkUF (Some bh) (Some lh) off files)) tbl), r)).
  { destruct o; try discriminate Hc; cbn [op_handle_of] in Ho; inversion Ho; subst;
      cbn [cache_step op_handle_of]; rewrite Hn, He; reflexivity. }
  rewrite Hstep. cbn [fst]. unfold Coh. intros k u2 bh2 lh2 Hk Hub2 Hul2.
  destruct (Nat.eq_dec k i) as [->|Hki].
  - rewrite nth_error_list_set_eq in Hk by exact (nth_error_lt _ _ _ Hn). inversion Hk; subst u2.
    cbn [ubase ulayer] in Hub2, Hul2. inversion Hub2; inversion Hul2; subst bh2 lh2.
    exists hb', hl', nb', nl'. rewrite B2, L2. exact (conj B1 (conj L1 (conj B3 (conj L3 (conj Hp' Hd'))))).
  - rewrite nth_error_list_set_neq in Hk by congruence.
    destruct (HC k u2 bh2 lh2 Hk Hub2 Hul2) as [hb2 [hl2 [nb2 [nl2 [Hbh2 [Hlh2 [Hbn2 [Hln2 [Hp2 Hd2]]]]]]]]].
    destruct (HA _ bh lh hb hl Hn eq_refl eq_refl Hbh Hlh k u2 bh2 lh2 hb2 hl2 Hki Hk Hub2 Hul2 Hbh2 Hlh2) as [Nb [Nl Hal]].
    destruct (Nat.eq_dec (href hb2) (href hb)) as [Eb|Eb].
    + pose proof (proj1 Hal Eb) as El.
      exists hb2, hl2, nb', nl'. rewrite (B4 bh2 Nb), (L4 lh2 Nl), Eb, El.
      exact (conj Hbh2 (conj Hlh2 (conj B3 (conj L3 (conj Hp2 Hd'))))).
    + assert (El : href hl2 <> href hl) by (intros Hq; apply Eb, Hal, Hq).
      exists hb2, hl2, nb2, nl2. rewrite (B4 bh2 Nb), (L4 lh2 Nl), (B5 _ Eb), (L5 _ El).
      exact (conj Hbh2 (conj Hlh2 (conj Hbn2 (conj Hln2 (conj Hp2 Hd2))))).
Qed.
