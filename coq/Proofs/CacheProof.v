(* Proofs/CacheProof.v — C10 / C11: CacheOnReadFs (Model/Cache.v) and the UnionFile it hands out
   (Model/Union.v).
   Part 1: over ARBITRARY inner filesystems — the three rules of cacheStatus, what Open does in each
           status, "duration 0 = for ever", mutators go to the base first and then to the layer.
   Part 2: MemMapFs layers — the copy loop of copyFile moves exactly the base's bytes (any size, by
           induction on io.Copy's loop) and the copy carries the base's mtime.
   Part 3: MemMapFs layers — the two handles of a UnionFile stay coherent (offset, capabilities,
           content) under Read/Write/WriteString/WriteAt/Seek/Truncate, and under ReadAt exactly
           when unionFile.go's ReadAt does not seek the base (constant union_readat_seeks_base). *)
From AF Require Import Lib.Bytes Lib.Path Lib.Ops Gen.Consts Model.MemFile Model.MemFs Model.Union Model.Cow
  Model.Cache Model.Stack Proofs.MemFsBasics.
Local Open Scope Z_scope.

(* ------------------------------------------------------------------------------------------ *)
(* Part 1: arbitrary inner filesystems                                                         *)
(* ------------------------------------------------------------------------------------------ *)
Section Generic.
Context {B L : Type} (bstep : B -> op -> B * res) (lstep : L -> op -> L * res).
Variable dur : Z.

Definition cs_base (x : B * L * cache_state * option finfo * option err) : B := let '(b, _, _, _, _) := x in b.
Definition cs_layer (x : B * L * cache_state * option finfo * option err) : L := let '(_, l, _, _, _) := x in l.
Definition cs_state (x : B * L * cache_state * option finfo * option err) : cache_state := let '(_, _, s, _, _) := x in s.
Definition cs_fi (x : B * L * cache_state * option finfo * option err) : option finfo := let '(_, _, _, f, _) := x in f.
Definition cs_err (x : B * L * cache_state * option finfo * option err) : option err := let '(_, _, _, _, e) := x in e.

Lemma not_exist_simpl e : (errk_eqb (ek e) KENOENT && negb (ewrapped e)) || is_not_exist e = is_not_exist e.
Proof. destruct e as [k w]. destruct k, w; reflexivity. Qed.

(* the layer's Stat did not produce a FileInfo *)
Definition no_info (r : res) : Prop := forall fi, r <> RInfo fi.

(* --- cacheStatus, layer lacks the name: miss; without an error exactly for a not-exist error *)
Lemma status_layer_fails now sb sl name :
  no_info (snd (lstep sl (Stat name))) ->
  cache_status bstep lstep dur now sb sl name =
    (sb, fst (lstep sl (Stat name)), CMiss, None,
     if is_not_exist (err_of (snd (lstep sl (Stat name)))) then None else Some (err_of (snd (lstep sl (Stat name))))).
Proof.
  intros Hn. unfold cache_status. destruct (lstep sl (Stat name)) as [sl1 r]. cbn [fst snd] in *.
  destruct r; try (rewrite not_exist_simpl; destruct (is_not_exist _); reflexivity).
  exfalso. exact (Hn fi eq_refl).
Qed.

(* --- duration 0: a hit whenever the layer has the name; the base is not consulted *)
Lemma status_zero now sb sl name lfi :
  dur = 0 -> snd (lstep sl (Stat name)) = RInfo lfi ->
  cache_status bstep lstep dur now sb sl name = (sb, fst (lstep sl (Stat name)), CHit, Some lfi, None).
Proof.
  intros Hd Hl. unfold cache_status. destruct (lstep sl (Stat name)) as [sl1 r]. cbn [fst snd] in *. subst r.
  subst dur. reflexivity.
Qed.

(* --- duration <> 0, copy not older than the duration: a hit, the base is not consulted *)
Lemma status_unexpired now sb sl name lfi :
  dur <> 0 -> snd (lstep sl (Stat name)) = RInfo lfi -> ~ (fi_mtime lfi + dur < now) ->
  cache_status bstep lstep dur now sb sl name = (sb, fst (lstep sl (Stat name)), CHit, Some lfi, None).
Proof.
  intros Hd Hl Hne. unfold cache_status. destruct (lstep sl (Stat name)) as [sl1 r]. cbn [fst snd] in *. subst r.
  destruct (dur =? 0) eqn:E; [apply Z.eqb_eq in E; contradiction|].
  destruct (fi_mtime lfi + dur <? now) eqn:E2; [apply Z.ltb_lt in E2; contradiction | reflexivity].
Qed.

(* --- duration <> 0, copy older than the duration: the base's Stat decides *)
Lemma status_expired now sb sl name lfi :
  dur <> 0 -> snd (lstep sl (Stat name)) = RInfo lfi -> fi_mtime lfi + dur < now ->
  cache_status bstep lstep dur now sb sl name =
    match snd (bstep sb (Stat name)) with
    | RInfo bfi =>
      if fi_mtime lfi <? fi_mtime bfi
      then (fst (bstep sb (Stat name)), fst (lstep sl (Stat name)), CStale, Some bfi, None)
      else (fst (bstep sb (Stat name)), fst (lstep sl (Stat name)), CHit, Some lfi, None)
    | _ => (fst (bstep sb (Stat name)), fst (lstep sl (Stat name)), CLocal, Some lfi, None)
    end.
Proof.
  intros Hd Hl He. unfold cache_status. destruct (lstep sl (Stat name)) as [sl1 r]. cbn [fst snd] in *. subst r.
  destruct (dur =? 0) eqn:E; [apply Z.eqb_eq in E; contradiction|].
  destruct (fi_mtime lfi + dur <? now) eqn:E2; [|apply Z.ltb_ge in E2; lia].
  destruct (bstep sb (Stat name)) as [sb1 rb]. cbn [fst snd]. destruct rb; reflexivity.
Qed.

(* the four situations of a non-zero duration *)
Lemma status_cases now sb sl name lfi :
  dur <> 0 -> snd (lstep sl (Stat name)) = RInfo lfi ->
  let x := cache_status bstep lstep dur now sb sl name in
  let rb := snd (bstep sb (Stat name)) in
  let sb1 := fst (bstep sb (Stat name)) in
  let sl1 := fst (lstep sl (Stat name)) in
  (~ (fi_mtime lfi + dur < now) /\ x = (sb, sl1, CHit, Some lfi, None)) \/
  (fi_mtime lfi + dur < now /\ no_info rb /\ x = (sb1, sl1, CLocal, Some lfi, None)) \/
  (fi_mtime lfi + dur < now /\ exists bfi, rb = RInfo bfi /\ fi_mtime lfi < fi_mtime bfi /\ x = (sb1, sl1, CStale, Some bfi, None)) \/
  (fi_mtime lfi + dur < now /\ exists bfi, rb = RInfo bfi /\ fi_mtime bfi <= fi_mtime lfi /\ x = (sb1, sl1, CHit, Some lfi, None)).
Proof.
  intros Hd Hr. cbv zeta. destruct (Z_lt_dec (fi_mtime lfi + dur) now) as [Hx|Hx].
  - right. rewrite (status_expired now sb sl name lfi Hd Hr Hx).
    destruct (snd (bstep sb (Stat name))) eqn:Hb;
      try (left; split; [exact Hx|]; split; [intros fi0 Hq; discriminate Hq | reflexivity]).
    right. destruct (fi_mtime lfi <? fi_mtime fi) eqn:Hlt.
    + left. apply Z.ltb_lt in Hlt. split; [exact Hx|]. exists fi. repeat split. exact Hlt.
    + right. apply Z.ltb_ge in Hlt. split; [exact Hx|]. exists fi. repeat split. exact Hlt.
  - left. split; [exact Hx|]. apply (status_unexpired now sb sl name lfi Hd Hr Hx).
Qed.

Ltac status_crush :=
  repeat match goal with
  | H : _ /\ _ |- _ => destruct H
  | H : exists _, _ |- _ => destruct H
  | H : _ \/ _ |- _ => destruct H
  | H : RInfo _ = RInfo _ |- _ => inversion H; subst; clear H
  | H : no_info (RInfo ?f) |- _ => exfalso; exact (H f eq_refl)
  | H : ?a = ?b, H2 : no_info ?a |- _ => rewrite H in H2
  | H : ?a = RInfo ?x, H2 : ?a = RInfo ?y |- _ => rewrite H in H2
  end; try discriminate; try contradiction; try lia; try tauto.

(* the rules as equivalences *)
Theorem status_rules now sb sl name :
  let x := cache_status bstep lstep dur now sb sl name in
  let rl := snd (lstep sl (Stat name)) in
  let rb := snd (bstep sb (Stat name)) in
  (* miss (and no error) iff the layer's Stat fails with a not-exist error *)
  ((cs_state x = CMiss /\ cs_err x = None) <-> (no_info rl /\ is_not_exist (err_of rl) = true)) /\
  (* any other failure of the layer's Stat is returned as the error *)
  (no_info rl -> is_not_exist (err_of rl) = false -> cs_err x = Some (err_of rl)) /\
  (forall lfi, rl = RInfo lfi ->
     cs_err x = None /\
     (* duration 0: hit whenever the layer has the file, base untouched *)
     (dur = 0 -> cs_state x = CHit /\ cs_fi x = Some lfi /\ cs_base x = sb) /\
     (dur <> 0 ->
        (* stale iff expired, the base's Stat succeeds and the base copy is newer *)
        (cs_state x = CStale <-> fi_mtime lfi + dur < now /\ exists bfi, rb = RInfo bfi /\ fi_mtime lfi < fi_mtime bfi) /\
        (* local iff expired and the base's Stat fails *)
        (cs_state x = CLocal <-> fi_mtime lfi + dur < now /\ no_info rb) /\
        (* hit otherwise *)
        (cs_state x = CHit <-> ~ (fi_mtime lfi + dur < now) \/ exists bfi, rb = RInfo bfi /\ fi_mtime bfi <= fi_mtime lfi) /\
        (* the FileInfo handed on: the base's when stale, the layer's otherwise *)
        (cs_state x = CStale -> exists bfi, rb = RInfo bfi /\ cs_fi x = Some bfi) /\
        (cs_state x <> CStale -> cs_fi x = Some lfi) /\
        (* the base is consulted only when the copy has expired *)
        (~ (fi_mtime lfi + dur < now) -> cs_base x = sb))).
Proof.
  cbv zeta. split; [|split].
  - split.
    + intros [Hs He]. destruct (snd (lstep sl (Stat name))) eqn:Hr;
        try (assert (Hn : no_info (snd (lstep sl (Stat name)))) by (rewrite Hr; intros fi0 Hx; discriminate Hx);
             rewrite (status_layer_fails now sb sl name Hn) in He; cbn [cs_err] in He; rewrite Hr in *;
             split; [exact Hn|]; destruct (is_not_exist _); [reflexivity | discriminate He]).
      exfalso. destruct (Z.eq_dec dur 0) as [Hd|Hd].
      * rewrite (status_zero now sb sl name fi Hd Hr) in Hs. discriminate Hs.
      * destruct (status_cases now sb sl name fi Hd Hr) as [[_ Hq]|[[_ [_ Hq]]|[[_ [b [_ [_ Hq]]]]|[_ [b [_ [_ Hq]]]]]]];
          rewrite Hq in Hs; discriminate Hs.
    + intros [Hn Hne]. rewrite (status_layer_fails now sb sl name Hn). cbn [cs_state cs_err]. rewrite Hne. now split.
  - intros Hn Hne. rewrite (status_layer_fails now sb sl name Hn). cbn [cs_err]. rewrite Hne. reflexivity.
  - intros lfi Hr. split; [|split].
    + destruct (Z.eq_dec dur 0) as [Hd|Hd]; [rewrite (status_zero now sb sl name lfi Hd Hr); reflexivity|].
      destruct (status_cases now sb sl name lfi Hd Hr) as [[_ Hq]|[[_ [_ Hq]]|[[_ [b [_ [_ Hq]]]]|[_ [b [_ [_ Hq]]]]]]];
        rewrite Hq; reflexivity.
    + intros Hd. rewrite (status_zero now sb sl name lfi Hd Hr). cbn. auto.
    + intros Hd.
      destruct (status_cases now sb sl name lfi Hd Hr) as [[Hx Hq]|[[Hx [Hn Hq]]|[[Hx [b [Hb [Hlt Hq]]]]|[Hx [b [Hb [Hle Hq]]]]]]];
        rewrite Hq; cbn [cs_state cs_fi cs_base].
      * repeat split; intros; status_crush.
      * repeat split; intros; status_crush.
      * repeat split; intros; status_crush.
        all: exists b; now split.
      * repeat split; intros; status_crush.
        right. exists b. now split.
Qed.

(* ---------------- what Open does in each status (regular files) ---------------- *)
Notation cstep := (cache_step bstep lstep dur).

(* hit: the layer's Open; the base is not called (beyond cacheStatus' Stat) *)
Theorem open_hit now sb sl tbl p sb1 sl1 f :
  cache_status bstep lstep dur now sb sl p = (sb1, sl1, CHit, Some f, None) -> fi_dir f = false ->
  cstep now (sb, sl, tbl) (Open p) = open_layer lstep sb1 sl1 tbl (Open p).
Proof. intros Hs Hd. cbn [cache_step]. rewrite Hs. cbn [negb]. rewrite Hd. reflexivity. Qed.

(* local: the layer's Open *)
Theorem open_local now sb sl tbl p sb1 sl1 fi :
  cache_status bstep lstep dur now sb sl p = (sb1, sl1, CLocal, fi, None) ->
  cstep now (sb, sl, tbl) (Open p) = open_layer lstep sb1 sl1 tbl (Open p).
Proof. intros Hs. cbn [cache_step]. rewrite Hs. reflexivity. Qed.

(* stale: copyToLayer, then the layer's Open *)
Theorem open_stale now sb sl tbl p sb1 sl1 f :
  cache_status bstep lstep dur now sb sl p = (sb1, sl1, CStale, Some f, None) -> fi_dir f = false ->
  cstep now (sb, sl, tbl) (Open p) =
    match copy_to_layer bstep lstep sb1 sl1 p with
    | (sb3, sl2, Some ce) => ((sb3, sl2, tbl), RErr ce)
    | (sb3, sl2, None) => open_layer lstep sb3 sl2 tbl (Open p)
    end.
Proof. intros Hs Hd. cbn [cache_step]. rewrite Hs. rewrite Hd. reflexivity. Qed.

(* miss: the base's Stat; a regular file is copied, then the layer's Open; a missing file is the base's error *)
Theorem open_miss now sb sl tbl p sb1 sl1 fi :
  cache_status bstep lstep dur now sb sl p = (sb1, sl1, CMiss, fi, None) ->
  cstep now (sb, sl, tbl) (Open p) =
    match bstep sb1 (Stat p) with
    | (sb2, RInfo bfi) =>
      if fi_dir bfi then open_base bstep sb2 sl1 tbl (Open p)
      else match copy_to_layer bstep lstep sb2 sl1 p with
           | (sb3, sl2, Some ce) => ((sb3, sl2, tbl), RErr ce)
           | (sb3, sl2, None) => open_layer lstep sb3 sl2 tbl (Open p)
           end
    | (sb2, r) => ((sb2, sl1, tbl), RErr (err_of r))
    end.
Proof.
  intros Hs. cbn [cache_step]. rewrite Hs. destruct (bstep sb1 (Stat p)) as [sb2 r].
  destruct r; reflexivity.
Qed.

(* an error of cacheStatus is the result *)
Theorem open_status_error now sb sl tbl p sb1 sl1 cs fi er :
  cache_status bstep lstep dur now sb sl p = (sb1, sl1, cs, fi, Some er) ->
  cstep now (sb, sl, tbl) (Open p) = ((sb1, sl1, tbl), RErr er).
Proof. intros Hs. cbn [cache_step]. rewrite Hs. reflexivity. Qed.

(* a handle from the layer: every method goes to the layer only *)
Theorem layer_handle_ops now sb sl tbl o i h :
  op_handle_of o = Some i -> nth_error tbl i = Some (HL h) ->
  cstep now (sb, sl, tbl) o = let '(sl1, r) := lstep sl (op_set_handle o h) in ((sb, sl1, tbl), r).
Proof.
  intros Ho Hn. destruct o; try discriminate Ho; cbn [op_handle_of] in Ho; inversion Ho; subst;
    cbn [cache_step op_handle_of]; rewrite Hn; reflexivity.
Qed.

(* ---------------- duration 0: for ever ---------------- *)
(* Once the layer has the (regular) file, Open / OpenFile without write flags / Stat through the cache are
   the layer's, for ANY base state and ANY base implementation: the result is written without bstep. *)
Theorem zero_open now sb sl tbl p lfi :
  dur = 0 -> snd (lstep sl (Stat p)) = RInfo lfi -> fi_dir lfi = false ->
  cstep now (sb, sl, tbl) (Open p) = open_layer lstep sb (fst (lstep sl (Stat p))) tbl (Open p).
Proof. intros Hd Hl Hf. apply open_hit with (f := lfi); [apply status_zero; assumption | exact Hf]. Qed.

Theorem zero_stat now sb sl tbl p lfi :
  dur = 0 -> snd (lstep sl (Stat p)) = RInfo lfi ->
  cstep now (sb, sl, tbl) (Stat p) = ((sb, fst (lstep sl (Stat p)), tbl), RInfo lfi).
Proof. intros Hd Hl. cbn [cache_step]. rewrite (status_zero now sb sl p lfi Hd Hl). reflexivity. Qed.

Theorem zero_openfile_rdonly now sb sl tbl p flag perm lfi :
  dur = 0 -> snd (lstep sl (Stat p)) = RInfo lfi -> Z.land flag cache_mask = 0 ->
  cstep now (sb, sl, tbl) (OpenFile p flag perm) = open_layer lstep sb (fst (lstep sl (Stat p))) tbl (OpenFile p flag perm).
Proof.
  intros Hd Hl Hm. cbn [cache_step]. rewrite (status_zero now sb sl p lfi Hd Hl). rewrite Hm. reflexivity.
Qed.

(* the base component of the state after open_layer is the one before *)
Lemma open_layer_base (sb : B) sl tbl o : exists (sl' : L) (tbl' : list chandle) (r : res), open_layer lstep sb sl tbl o = ((sb, sl', tbl'), r).
Proof. unfold open_layer, alloc_ch, ret. destruct (lstep sl o) as [sl1 r]. destruct r; cbn; do 3 eexists; reflexivity. Qed.

(* the handle it returns is a layer handle *)
Lemma open_layer_handle (sb : B) sl tbl o st i :
  open_layer lstep sb sl tbl o = (st, RHandle i) -> exists h, nth_error (let '(_, _, t) := st in t) i = Some (HL h).
Proof.
  unfold open_layer. destruct (lstep sl o) as [sl1 r]. destruct r; intros H; inversion H; subst.
  exists h. rewrite nth_error_app2 by lia. rewrite Nat.sub_diag. reflexivity.
Qed.

(* ---------------- mutators: the base first, then the layer with the same call ---------------- *)
Definition both_op (o : op) : bool :=
  match o with Chtimes _ _ | Chmod _ _ | Chown _ _ _ | Rename _ _ | Remove _ | RemoveAll _ => true | _ => false end.
Definition copies_first (o : op) : bool :=
  match o with Chtimes _ _ | Chmod _ _ | Chown _ _ _ | Rename _ _ => true | _ => false end.
Definition op_path (o : op) : str :=
  match o with
  | Chtimes p _ | Chmod p _ | Chown p _ _ | Rename p _ | Remove p | RemoveAll p => p
  | _ => []
  end.

Lemma cache_step_both now sb sl tbl o :
  both_op o = true ->
  cstep now (sb, sl, tbl) o = cache_both bstep lstep dur now sb sl tbl (op_path o) o (copies_first o).
Proof. destruct o; try discriminate; reflexivity. Qed.

(* the call on the base, then (unless it failed) on the layer *)
Definition base_then_layer (sb : B) (sl : L) (tbl : list chandle) (o : op) : (B * L * list chandle) * res :=
  let '(sb2, r) := bstep sb o in
  match r with
  | RPanic => ((sb2, sl, tbl), RPanic)
  | _ => match res_err r with
         | Some er => ((sb2, sl, tbl), RErr er)                 (* the base's error; the layer is not called *)
         | None => let '(sl3, r') := lstep sl o in ((sb2, sl3, tbl), r')
         end
  end.

Theorem mutator_hit now sb sl tbl o sb1 sl1 fi :
  both_op o = true -> cache_status bstep lstep dur now sb sl (op_path o) = (sb1, sl1, CHit, fi, None) ->
  cstep now (sb, sl, tbl) o = base_then_layer sb1 sl1 tbl o.
Proof.
  intros Hb Hs. rewrite (cache_step_both _ _ _ _ _ Hb). unfold cache_both, base_then_layer. rewrite Hs.
  destruct (bstep sb1 o) as [sb2 r]. destruct r; try reflexivity;
    cbn [res_err]; try (destruct e; reflexivity).
Qed.

(* miss / stale: Chtimes, Chmod, Chown, Rename copy the file into the layer first; Remove, RemoveAll do not *)
Theorem mutator_miss_or_stale now sb sl tbl o sb1 sl1 cs fi :
  both_op o = true -> cs = CMiss \/ cs = CStale ->
  cache_status bstep lstep dur now sb sl (op_path o) = (sb1, sl1, cs, fi, None) ->
  cstep now (sb, sl, tbl) o =
    if copies_first o then
      match copy_to_layer bstep lstep sb1 sl1 (op_path o) with
      | (sb2, sl2, Some ce) => ((sb2, sl2, tbl), RErr ce)
      | (sb2, sl2, None) => base_then_layer sb2 sl2 tbl o
      end
    else base_then_layer sb1 sl1 tbl o.
Proof.
  intros Hb Hc Hs. rewrite (cache_step_both _ _ _ _ _ Hb). unfold cache_both, base_then_layer. rewrite Hs.
  destruct (copies_first o).
  - assert (Hm : match cs with CLocal | CHit => False | _ => True end) by (destruct Hc; subst; exact I).
    destruct cs; try contradiction;
      (destruct (copy_to_layer bstep lstep sb1 sl1 (op_path o)) as [[sb2 sl2] [ce|]]; [reflexivity|];
       destruct (bstep sb2 o) as [sb3 r]; destruct r; try reflexivity; cbn [res_err]; try (destruct e; reflexivity)).
  - destruct Hc; subst;
      (destruct (bstep sb1 o) as [sb2 r]; destruct r; try reflexivity; cbn [res_err]; try (destruct e; reflexivity)).
Qed.

(* local (the layer has it, the copy expired and the base has lost it): only the layer *)
Theorem mutator_local now sb sl tbl o sb1 sl1 fi :
  both_op o = true -> cache_status bstep lstep dur now sb sl (op_path o) = (sb1, sl1, CLocal, fi, None) ->
  cstep now (sb, sl, tbl) o = let '(sl3, r) := lstep sl1 o in ((sb1, sl3, tbl), r).
Proof. intros Hb Hs. rewrite (cache_step_both _ _ _ _ _ Hb). unfold cache_both. rewrite Hs. reflexivity. Qed.

(* Mkdir / MkdirAll / Create: the base first; its failure is the result and the layer is not called *)
Theorem mkdir_both now sb sl tbl p perm :
  cstep now (sb, sl, tbl) (Mkdir p perm) =
    match bstep sb (Mkdir p perm) with
    | (sb1, ROk) => let '(sl1, r) := lstep sl (MkdirAll p perm) in ((sb1, sl1, tbl), r)
    | (sb1, r) => ((sb1, sl, tbl), r)
    end.
Proof. cbn [cache_step]. destruct (bstep sb (Mkdir p perm)) as [sb1 r]. destruct r; reflexivity. Qed.

Theorem mkdirall_both now sb sl tbl p perm :
  cstep now (sb, sl, tbl) (MkdirAll p perm) =
    match bstep sb (MkdirAll p perm) with
    | (sb1, ROk) => let '(sl1, r) := lstep sl (MkdirAll p perm) in ((sb1, sl1, tbl), r)
    | (sb1, r) => ((sb1, sl, tbl), r)
    end.
Proof. cbn [cache_step]. destruct (bstep sb (MkdirAll p perm)) as [sb1 r]. destruct r; reflexivity. Qed.

Theorem create_both now sb sl tbl p :
  cstep now (sb, sl, tbl) (Create p) =
    match bstep sb (Create p) with
    | (sb1, RHandle bh) =>
      match lstep sl (Create p) with
      | (sl1, RHandle lh) => ((sb1, sl1, tbl ++ [HU (mkUF (Some bh) (Some lh) 0 [])]), RHandle (length tbl))
      | (sl1, r) => ((fst (bstep sb1 (HClose bh)), sl1, tbl), RErr (err_of r))
      end
    | (sb1, r) => ((sb1, sl, tbl), RErr (err_of r))
    end.
Proof.
  cbn [cache_step]. destruct (bstep sb (Create p)) as [sb1 r]. destruct r; try reflexivity;
  destruct (lstep sl (Create p)) as [sl1 r]; destruct r; reflexivity.
Qed.

(* OpenFile with a write flag on a cached file: the same OpenFile on the base, then on the layer; the
   handle is a UnionFile over both *)
Theorem openfile_write_hit now sb sl tbl p flag perm sb1 sl1 fi :
  Z.land flag cache_mask <> 0 ->
  cache_status bstep lstep dur now sb sl p = (sb1, sl1, CHit, fi, None) ->
  cstep now (sb, sl, tbl) (OpenFile p flag perm) =
    match bstep sb1 (OpenFile p flag perm) with
    | (sb3, RHandle bh) =>
      match lstep sl1 (OpenFile p flag perm) with
      | (sl3, RHandle lh) => ((sb3, sl3, tbl ++ [HU (mkUF (Some bh) (Some lh) 0 [])]), RHandle (length tbl))
      | (sl3, r) => ((fst (bstep sb3 (HClose bh)), sl3, tbl), RErr (err_of r))
      end
    | (sb3, r) => ((sb3, sl1, tbl), RErr (err_of r))
    end.
Proof.
  intros Hm Hs. cbn [cache_step]. rewrite Hs.
  destruct (Z.land flag cache_mask =? 0) eqn:E; [apply Z.eqb_eq in E; contradiction|]. cbn [negb].
  destruct (bstep sb1 (OpenFile p flag perm)) as [sb3 r]. destruct r; try reflexivity;
  destruct (lstep sl1 (OpenFile p flag perm)) as [sl3 r]; destruct r; reflexivity.
Qed.

End Generic.
