(* Proofs/FaultyCreate.v — C12: what copyFile leaves when the layer's Create itself fails.

   Today's source (Gen/Consts.v copyfile_removes_after_failed_create = 1, read from the AST of copyFile) calls
   layer.Remove(name) in the error branch of `lfh, err := layer.Create(name)`.
   1. For ANY two filesystems: the copy returns Create's error and the layer state is the one its Remove(name)
      leaves (failed_create_calls_remove); with the switch off it is the state Create left
      (failed_create_before_fix).
   2. MemMapFs layer behind the fault injector, the single fault refuses the Create: afterwards the layer has NO
      entry for the name — an older copy is gone too —, the error is the injected one, and exactly two more calls
      were made on the layer (Create, Remove).
   3. The two-level cache cache(remote, cache(disk, memory)) in the model, memory's Create refused once: with the
      switch off the disk level keeps an EMPTY /d/f and the next fault-free read through both caches returns no
      bytes; with the switch on both levels are clean and the next read returns the file (vm_compute). *)
From AF Require Import Lib.Bytes Lib.Path Lib.Ops Gen.Consts Model.MemFile Model.MemFs Model.Union Model.Cow Model.Cache
  Model.Faulty Model.Stack Proofs.PathProof Proofs.MemBelow Proofs.FaultyMem Proofs.CopyFailedCreate Proofs.FaultyProof
  Proofs.FaultyPath.
Local Open Scope Z_scope.

(* ---------------------------------------------------------------- 1. any two filesystems *)
Section AnyFs.
Context {B L : Type} (bstep : B -> op -> B * res) (lstep : L -> op -> L * res).

(* the directory preparation of copy_file went through (the parent exists, or MkdirAll made it) and left sl1 *)
Definition dir_prepared (sl : L) (name : str) (sl1 : L) : Prop :=
  exists sl0, (l_exists lstep sl (copy_dir name) = (sl0, inl true) /\ sl1 = sl0) \/
              (l_exists lstep sl (copy_dir name) = (sl0, inl false) /\ lstep sl0 (MkdirAll (copy_dir name) 511) = (sl1, ROk)).

Definition create_err (r : res) : err := match res_err r with Some e => e | None => E KOther end.

Lemma copy_file_gen_failed_create rm sb sl name bh sl1 sl2 r :
  dir_prepared sl name sl1 -> lstep sl1 (Create name) = (sl2, r) -> (forall h, r <> RHandle h) ->
  copy_file_gen bstep lstep rm sb sl name bh = (sb, after_failed_create_gen lstep rm sl2 name, Some (create_err r)).
Proof.
  intros (sl0 & [[Hex ->]|[Hex Hmk]]) Hc Hr; unfold copy_file_gen; cbv zeta; rewrite Hex; [|rewrite Hmk]; rewrite Hc;
    unfold create_err; destruct r as [| | |h| | |? [?|]|? [?|]|? [?|]|? [?|]|? [?|]|]; try reflexivity; exfalso; exact (Hr h eq_refl).
Qed.

Theorem failed_create_calls_remove sb sl name bh sl1 sl2 r :
  dir_prepared sl name sl1 -> lstep sl1 (Create name) = (sl2, r) -> (forall h, r <> RHandle h) ->
  copy_file bstep lstep sb sl name bh = (sb, fst (lstep sl2 (Remove name)), Some (create_err r)).
Proof.
  intros Hp Hc Hr. unfold copy_file. rewrite (copy_file_gen_failed_create _ sb sl name bh sl1 sl2 r Hp Hc Hr).
  rewrite copyfile_removes_after_failed_create_is_1. reflexivity.
Qed.

Theorem failed_create_before_fix rm sb sl name bh sl1 sl2 r : rm <> 1 ->
  dir_prepared sl name sl1 -> lstep sl1 (Create name) = (sl2, r) -> (forall h, r <> RHandle h) ->
  copy_file_gen bstep lstep rm sb sl name bh = (sb, sl2, Some (create_err r)).
Proof.
  intros Hrm Hp Hc Hr. rewrite (copy_file_gen_failed_create rm sb sl name bh sl1 sl2 r Hp Hc Hr).
  now rewrite after_failed_create_gen_off.
Qed.
End AnyFs.

(* ---------------------------------------------------------------- 2. MemMapFs behind the injector *)
Lemma faulty_fail {St} (inner : St -> op -> St * res) pl s n o e : fault_plain o = true -> pl n = FltFail e ->
  faulty_step inner pl (s, n) o = ((s, S n), RErr e).
Proof. intros Hp He. unfold faulty_step. rewrite He. destruct o; try discriminate; reflexivity. Qed.

Lemma faulty_pass {St} (inner : St -> op -> St * res) pl s n o : pl n = FltPass ->
  faulty_step inner pl (s, n) o = ((fst (inner s o), S n), snd (inner s o)).
Proof. intros He. unfold faulty_step. rewrite He. now destruct (inner s o). Qed.

(* the one fault is at call c: every other call from n0 on passes *)
Lemma amo_other pl n0 c j : amo_from pl n0 -> (n0 <= c)%nat -> (n0 <= j)%nat -> pl c <> FltPass -> j <> c -> pl j = FltPass.
Proof.
  intros Ha Hc Hj Hp Hne. destruct (pl j) eqn:E; [reflexivity | |];
    exfalso; apply Hne; apply Ha; try assumption; rewrite E; discriminate.
Qed.

(* the number of the layer's Create among the calls of the copy: Stat of the parent, MkdirAll if it is missing *)
Definition create_call (sl : mst) (name : str) (n0 : nat) : nat :=
  match lookup sl (normalize_path (path_dir name)) with Some _ => S n0 | None => S (S n0) end.

Section Mem.
Variable name : str.
Hypothesis Hn : normalize_path name = name.
Hypothesis Hacyc : name_acyclic name.

Lemma copy_create_refused {B} (bstep : B -> op -> B * res) pl (sb : B) sA n0 c bh e :
  amo_from pl n0 -> (n0 <= c)%nat -> pl c = FltFail e ->
  par_ok sA name -> (lookup sA name = None \/ exists dat, file_at sA name dat) ->
  exists sl', copy_create bstep (faulty_step m_step pl) sb (sA, c) name bh = (sb, (sl', S (S c)), Some e) /\
              lookup sl' name = None /\ par_ok sl' name.
Proof.
  intros Hamo Hc He P Hent. unfold copy_create.
  rewrite (faulty_fail m_step pl sA c (Create name) e eq_refl He). cbn [res_err].
  rewrite after_failed_create_today.
  assert (Hp : pl (S c) = FltPass).
  { apply (amo_other pl n0 c (S c) Hamo Hc); [lia | rewrite He; discriminate | lia]. }
  rewrite (faulty_pass m_step pl sA (S c) (Remove name) Hp). cbn [fst].
  destruct Hent as [Lk|[dat F]].
  - rewrite (remove_missing sA name Hn Lk). cbn [fst]. exists (bump sA). split; [reflexivity|].
    split; [exact Lk | exact (cosmetic_par_ok sA _ name (cosmetic_bump sA) P)].
  - destruct (remove_file_spec sA name dat Hn F P) as (s' & E & L' & P' & _). rewrite E. cbn [fst].
    exists (bump s'). split; [reflexivity|]. split; [exact L' | exact (cosmetic_par_ok s' _ name (cosmetic_bump s') P')].
Qed.

Lemma copy_file_create_refused {B} (bstep : B -> op -> B * res) pl (sb : B) sl n0 bh e :
  amo_from pl n0 -> layer_sane sl name -> pl (create_call sl name n0) = FltFail e ->
  exists sl', copy_file bstep (faulty_step m_step pl) sb (sl, n0) name bh = (sb, (sl', S (S (create_call sl name n0))), Some e) /\
              lookup sl' name = None /\ par_ok sl' name.
Proof.
  intros Hamo Hs He. rewrite copy_file_unfold, (copy_dir_normal name Hn). unfold l_exists.
  assert (Hc0 : (n0 <= create_call sl name n0)%nat) by (unfold create_call; destruct (lookup sl _); lia).
  assert (Hne : pl (create_call sl name n0) <> FltPass) by (rewrite He; discriminate).
  assert (Hp0 : pl n0 = FltPass).
  { apply (amo_other pl n0 _ n0 Hamo Hc0); [lia | exact Hne | unfold create_call; destruct (lookup sl _); lia]. }
  rewrite (faulty_pass m_step pl sl n0 (Stat (path_dir name)) Hp0).
  destruct Hs as [[P Hent]|[Lp [Ln Hclr]]].
  - (* the parent is registered: Stat, Create *)
    destruct P as (p & pn & Lpk & Gp & Ap & Bp).
    assert (Hcc : create_call sl name n0 = S n0) by (unfold create_call; now rewrite Lpk). rewrite Hcc in *.
    rewrite (stat_found sl (path_dir name) p pn Lpk Gp). cbn [fst snd].
    apply (copy_create_refused bstep pl sb (bump sl) n0 (S n0) bh e Hamo ltac:(lia) He); [now exists p, pn | exact Hent].
  - (* the parent is missing: Stat, MkdirAll, Create *)
    assert (Hcc : create_call sl name n0 = S (S n0)) by (unfold create_call; now rewrite Lp). rewrite Hcc in *.
    rewrite (stat_missing sl (path_dir name) Lp). cbn [fst snd is_not_exist ek EW].
    assert (Hp1 : pl (S n0) = FltPass) by (apply (amo_other pl n0 (S (S n0)) (S n0) Hamo); [lia | lia | exact Hne | lia]).
    rewrite (faulty_pass m_step pl (bump sl) (S n0) (MkdirAll (path_dir name) 511) Hp1).
    destruct (mkdirall_fresh (bump sl) (path_dir name) 511 Lp
                (chain_clear_below_file (bump sl) _ (cosmetic_mkdirall_clear sl (bump sl) _ (cosmetic_bump sl) Hclr)))
      as (s' & E & G & (item & nd & Li & Gi & Ai & Bi) & K).
    rewrite E. cbn [fst snd].
    assert (Ln' : lookup s' name = None).
    { destruct (lookup s' name) eqn:El; [|reflexivity]. exfalso.
      destruct (K name) as [H1|H1]; [congruence | | exact (Hacyc H1)]. apply H1. exact Ln. }
    apply (copy_create_refused bstep pl sb (bump s') n0 (S (S n0)) bh e Hamo ltac:(lia) He); [now exists item, nd | now left].
Qed.
End Mem.

Theorem failed_create_removes_entry name pl sb sl dat o n0 e :
  normalize_path name = name -> name <> s_slash -> amo_from pl n0 ->
  reg_file sb name dat -> layer_sane sl name -> read_open name o ->
  pl (create_call sl name n0) = FltFail e ->
  exists sb' sl',
    copy_to_layer_with m_step (faulty_step m_step pl) sb (sl, n0) name o
      = (sb', (sl', S (S (create_call sl name n0))), Some e) /\
    fs_entry sl' name = None /\ layer_sane sl' name /\ cosmetic sb sb'.
Proof.
  intros Hn Hne Hamo (f & n & Lb & Gb & Ab & Db) Hs Ho He.
  destruct (open_spec sb name o f n Hn Lb Gb Ho) as (_ & s1 & E1 & R1 & D1 & M1).
  unfold copy_to_layer_with. rewrite E1.
  destruct (copy_file_create_refused name Hn (name_acyclic_normal name Hn Hne) m_step pl s1 sl n0 (length (mhandles sb)) e Hamo Hs He)
    as (sl' & E2 & L2 & P2).
  rewrite E2. eexists _, sl'. split; [reflexivity|].
  split; [unfold fs_entry; now rewrite L2|]. split; [left; split; [exact P2 | now left]|].
  eapply cosmetic_trans; [|apply close_cosmetic]. apply cosmetic_same; congruence.
Qed.

(* ---------------------------------------------------------------- 3. the two-level cache, either shape *)
(* remote = MemMapFs with /d/f = 5 bytes; the copy target is the inner cache cache:100(disk, memory), both levels
   MemMapFs behind injectors; memory's call number i is refused.  copy_file_gen rm is run with the inner cache's
   step as the layer; afterwards the outer cache cache:100(remote, inner) — the model stack of the harness — serves
   a fault-free Open + Read of the name from the states the copy left. *)
Definition b1_f : str := [47;100;47;102]%N.                    (* "/d/f" *)
Definition b1_remote : mst :=
  fst (run_steps m_step m_init [MkdirAll [47;100]%N 493; Create b1_f; HWrite 0 [1;2;3;4;5]%N; HClose 0]).
Definition b1_inner (i : nat) : stack := SCache 100 (SFaulty [] SMem) (SFaulty [(i, FltFail (E KEIO))] SMem).
Definition b1_outer (i : nat) : stack := SCache 100 SMem (b1_inner i).
Definition b1_data (l : list entry) : option bytes := option_map e_data (find (fun en => beqb (e_path en) b1_f) l).

(* (error of the copy, /d/f at the disk level, /d/f at the memory level, calls seen by memory, result of the next Open,
   of the Read on it) *)
Definition b1_run (rm : Z) (i : nat) : option (option err * option bytes * option bytes * nat * res * res) :=
  let kin := b1_inner i in
  match m_step b1_remote (Open b1_f) with
  | (sb1, RHandle bh) =>
    let '(sb2, u1, e) := copy_file_gen m_step (ustep kin) rm sb1 (uset_clock kin (uinit kin) BIG) b1_f bh in
    let sb3 := fst (m_step sb2 (HClose bh)) in
    let kout := b1_outer i in
    let u2 := uset_clock kout (UW2 BIG [] (UMem sb3) u1) (BIG + 1000) in
    let '(u3, ro) := ustep kout u2 (Open b1_f) in
    let rr := match ro with RHandle h => snd (ustep kout u3 (HRead h 100)) | _ => RNoSlot end in
    Some (e, b1_data (usnapshot kin [0;0]%nat u1), b1_data (usnapshot kin [1;0]%nat u1),
          length (wrapped1 (layer2 u1)), ro, rr)
  | _ => None
  end.

(* memory's calls during the copy: Stat /d (existence check, through the inner cache's Stat), MkdirAll /d (the inner
   cache's MkdirAll), then the Create: call 2 *)
Lemma two_level_before_fix :
  b1_run 0 2 = Some (Some (E KEIO), Some [], None, 3%nat, RHandle 0, RData [] (Some (E KEOF))).
Proof. vm_compute. reflexivity. Qed.

Lemma two_level_today :
  b1_run 1 2 = Some (Some (E KEIO), None, None, 4%nat, RHandle 0, RData [1;2;3;4;5]%N None).
Proof. vm_compute. reflexivity. Qed.

(* the run with the switch as the source has it: copy_file itself *)
Lemma two_level_source :
  b1_run copyfile_removes_after_failed_create 2 = b1_run 1 2.
Proof. now rewrite copyfile_removes_after_failed_create_is_1. Qed.
