(* Proofs/TempProof.v — C18: TempFile / TempDir.
   1. every candidate name is  join2 dir (prefix ++ d9 ++ suffix), d9 = nine decimal digits;
   2. over ANY filesystem whose exclusive create honours a contract (succeeds only on a name that did
      not exist, which exists afterwards, leaves every existing entry alone; a failed create changes
      nothing) a successful call returns a fresh, well-shaped name and alters nothing that existed;
   3. MemMapFs (m_openfile with O_CREATE|O_EXCL, m_mkdir) honours the contract;
   4. successive successful calls return pairwise distinct names, and so does every interleaving of the
      attempts of concurrent callers when each attempt is one atomic step.
   Atomicity of MemMapFs's exclusive create under real concurrency is property C04's business and is
   NOT proved here (today it does not hold: lookup and creation are two critical sections). *)
From AF Require Import Lib.Bytes Lib.Path Lib.Ops Gen.Consts Model.MemFile Model.MemFs Model.Temp
  Proofs.BytesLemmas Proofs.PathProof Proofs.MemFsBasics Proofs.MemBelow Proofs.MemCreate.
Local Open Scope Z_scope.

(* ------------------------------------------------------------------------------------ *)
(** * 1. digits *)

Definition is_digit (c : N) : Prop := (48 <= c <= 57)%N.
Definition is_d9 (d : str) : Prop := length d = 9%nat /\ Forall is_digit d.

Lemma digit_of_mod n : is_digit (Z.to_N (48 + n mod 10)).
Proof. pose proof (Z.mod_pos_bound n 10 ltac:(lia)). unfold is_digit. lia. Qed.

Lemma itoa_aux_spec k : forall fuel n acc, (k <= fuel)%nat -> 0 <= n -> 10 ^ Z.of_nat k <= n \/ k = 0%nat ->
  n < 10 ^ Z.of_nat (S k) ->
  exists ds, temp_itoa_aux fuel n acc = ds ++ acc /\ length ds = S k /\ Forall is_digit ds.
Proof.
  induction k as [|k IH]; intros fuel n acc Hf Hn Hlo Hhi.
  - change (10 ^ Z.of_nat 1) with 10 in Hhi. exists [Z.to_N (48 + n mod 10)].
    assert (E : (n <? 10) = true) by (apply Z.ltb_lt; lia).
    destruct fuel; cbn [temp_itoa_aux]; [|rewrite E]; (split; [reflexivity | split; [reflexivity|]]);
      constructor; [apply digit_of_mod | constructor | apply digit_of_mod | constructor].
  - destruct Hlo as [Hlo|]; [|discriminate]. destruct fuel as [|fuel]; [lia|].
    assert (H10 : 10 <= 10 ^ Z.of_nat (S k)).
    { change 10 with (10 ^ 1) at 1. apply Z.pow_le_mono_r; lia. }
    cbn [temp_itoa_aux]. assert (E : (n <? 10) = false) by (apply Z.ltb_ge; lia). rewrite E.
    assert (Hp : 10 ^ Z.of_nat (S k) = 10 * 10 ^ Z.of_nat k) by (rewrite Nat2Z.inj_succ, Z.pow_succ_r; lia).
    assert (Hp2 : 10 ^ Z.of_nat (S (S k)) = 10 * 10 ^ Z.of_nat (S k)) by (rewrite (Nat2Z.inj_succ (S k)), Z.pow_succ_r; lia).
    destruct (IH fuel (n / 10) (Z.to_N (48 + n mod 10) :: acc)) as [ds [E1 [E2 E3]]].
    + lia.
    + apply Z.div_pos; lia.
    + left. apply Z.div_le_lower_bound; lia.
    + apply Z.div_lt_upper_bound; lia.
    + exists (ds ++ [Z.to_N (48 + n mod 10)]). rewrite E1, <- app_assoc. split; [reflexivity|]. split.
      * rewrite app_length, E2. cbn. lia.
      * apply Forall_app. split; [exact E3|]. constructor; [apply digit_of_mod | constructor].
Qed.

Lemma temp_mod_value : temp_mod = 10 ^ 9. Proof. reflexivity. Qed.

Theorem rand_name_d9 r : is_d9 (rand_name r).
Proof.
  unfold rand_name, temp_itoa. pose proof (Z.mod_pos_bound r temp_mod ltac:(reflexivity)) as Hm.
  rewrite temp_mod_value in *.
  destruct (itoa_aux_spec 9 40 (10 ^ 9 + r mod 10 ^ 9) []) as [ds [E [Hl Hd]]].
  - lia.
  - lia.
  - left. change (Z.of_nat 9) with 9. lia.
  - change (Z.of_nat 10) with 10. change (10 ^ 10) with (10 * 10 ^ 9). lia.
  - rewrite E, app_nil_r. destruct ds as [|c ds]; [discriminate|]. cbn [tl]. split.
    + cbn in Hl. lia.
    + now inversion Hd.
Qed.

Lemma tg_next_d9 g : is_d9 (fst (tg_next g)).
Proof.
  unfold tg_next. destruct (if tg_rand g =? 0 then tg_reseed g else (tg_rand g, g)) as [r0 g0].
  unfold next_random. cbn [fst]. apply rand_name_d9.
Qed.

(* ------------------------------------------------------------------------------------ *)
(** * the pattern: prefix and suffix around the LAST '*' *)

Lemma temp_split_star_spec s : 
  match temp_split_star s with
  | Some (a, b) => s = a ++ STAR :: b /\ ~ In STAR b
  | None => ~ In STAR s
  end.
Proof.
  induction s as [|c s IH]; cbn [temp_split_star]; [intros []|].
  destruct (temp_split_star s) as [[a b]|].
  - destruct IH as [-> Hb]. now split.
  - destruct (N.eqb c STAR) eqn:E.
    + apply N.eqb_eq in E. subst c. now split.
    + apply N.eqb_neq in E. intros [H|H]; [congruence | now apply IH].
Qed.

Theorem temp_prefix_suffix_spec pattern :
  let '(prefix, suffix) := temp_prefix_suffix pattern in
  (pattern = prefix ++ STAR :: suffix /\ ~ In STAR suffix) \/
  (~ In STAR pattern /\ prefix = pattern /\ suffix = []).
Proof.
  unfold temp_prefix_suffix. pose proof (temp_split_star_spec pattern) as H.
  destruct (temp_split_star pattern) as [[a b]|]; [left; exact H | right; now repeat split].
Qed.

(* ------------------------------------------------------------------------------------ *)
(** * the generated element is a proper file name when prefix and suffix hold no separator *)

Lemma digit_not_slash c : is_digit c -> c <> SLASH.
Proof. unfold is_digit, SLASH. lia. Qed.

Lemma temp_base_good prefix suffix d :
  slash_free prefix -> slash_free suffix -> is_d9 d -> good_seg (prefix ++ d ++ suffix).
Proof.
  intros Hp Hs [Hl Hd].
  assert (Hlen : (9 <= length (prefix ++ d ++ suffix))%nat) by (rewrite !app_length; lia).
  repeat split.
  - intros E. rewrite E in Hlen. cbn in Hlen. lia.
  - intros E. rewrite E in Hlen. cbn in Hlen. lia.
  - intros E. rewrite E in Hlen. cbn in Hlen. lia.
  - intros H. apply in_app_or in H as [H|H]; [now apply Hp|].
    apply in_app_or in H as [H|H]; [|now apply Hs].
    rewrite Forall_forall in Hd. now apply (digit_not_slash _ (Hd _ H)).
Qed.

(* shape of a candidate: directly inside clean dir, last element = prefix ++ digits ++ suffix *)
Definition shaped (dir prefix suffix name : str) : Prop :=
  exists d, is_d9 d /\ name = join2 dir (prefix ++ d ++ suffix).

Theorem shaped_direct_child dir prefix suffix name :
  dir <> [] -> slash_free prefix -> slash_free suffix -> shaped dir prefix suffix name ->
  path_dir name = clean dir /\
  exists d, is_d9 d /\ snd (path_split name) = prefix ++ d ++ suffix.
Proof.
  intros Hd Hp Hs [d [Hd9 ->]].
  destruct (join2_good_split dir (prefix ++ d ++ suffix) Hd (temp_base_good _ _ _ Hp Hs Hd9)) as [H1 [H2 _]].
  split; [exact H2|]. now exists d.
Qed.

(* ------------------------------------------------------------------------------------ *)
(** * every candidate handed to the filesystem has the shape (a filesystem that logs its calls) *)

Section Logging.
Context {St : Type} (step : St -> op -> St * res).

Definition log_step (sl : St * list op) (o : op) : (St * list op) * res :=
  let '(s', r) := step (fst sl) o in ((s', snd sl ++ [o]), r).

Lemma temp_loop_logged mk fuel : forall s log g nc dir prefix suffix last s' log' g' x,
  temp_loop log_step mk fuel (s, log) g nc dir prefix suffix last = ((s', log'), g', x) ->
  exists more, log' = log ++ more /\
    Forall (fun o => exists name, shaped dir prefix suffix name /\ o = mk name) more.
Proof.
  induction fuel as [|fuel IH]; intros s log g nc dir prefix suffix last s' log' g' x H.
  - cbn [temp_loop] in H. inversion H; subst. exists []. now rewrite app_nil_r.
  - cbn [temp_loop] in H. pose proof (tg_next_d9 g) as Hd9. destruct (tg_next g) as [d g1]. cbn [fst] in Hd9.
    set (name := join2 dir (prefix ++ d ++ suffix)) in *.
    assert (Hsh : exists nm, shaped dir prefix suffix nm /\ mk name = mk nm) by (exists name; split; [now exists d | reflexivity]).
    unfold log_step in H at 1. cbn [fst snd] in H. destruct (step s (mk name)) as [s1 r].
    assert (Hone : forall y, ((s1, log ++ [mk name]), g1, y) = ((s', log'), g', x) ->
                   exists more, log' = log ++ more /\ Forall (fun o => exists nm, shaped dir prefix suffix nm /\ o = mk nm) more).
    { intros y Hy. inversion Hy; subst. exists [mk name]. split; [reflexivity|]. now constructor. }
    destruct r; try (now apply (Hone _ H)).
    destruct (is_exist e); [|now apply (Hone _ H)].
    apply IH in H as [more [-> Hm]]. exists (mk name :: more). rewrite <- app_assoc. split; [reflexivity|].
    now constructor.
Qed.

End Logging.

(* ------------------------------------------------------------------------------------ *)
(** * 2. fresh and shaped, over any filesystem honouring the exclusive-create contract *)

Section Contract.
Context {St V : Type} (step : St -> op -> St * res).
Variable view : St -> str -> option V.        (* what the filesystem shows for a path; None = absent *)
Variable is_create : (str -> op) -> Prop.      (* the exclusive creates: temp_file_op, temp_dir_op *)
Variable good : St -> Prop.                   (* state invariant the contract may rely on *)
Variable cand : str -> Prop.                  (* the names the contract is stated for *)

Definition unchanged_existing (s s' : St) : Prop := forall m, view s m <> None -> view s' m = view s m.

Hypothesis contract_ok : forall mk s n s' r, is_create mk -> good s -> cand n -> step s (mk n) = (s', r) ->
  (r = ROk \/ exists h, r = RHandle h) ->
  view s n = None /\ view s' n <> None /\ unchanged_existing s s' /\ good s'.
Hypothesis contract_err : forall mk s n s' e, is_create mk -> good s -> cand n -> step s (mk n) = (s', RErr e) ->
  (forall m, view s' m = view s m) /\ good s'.

Lemma temp_loop_fresh mk fuel : forall s g nc dir prefix suffix last s' g' name h,
  is_create mk -> good s -> (forall d, is_d9 d -> cand (join2 dir (prefix ++ d ++ suffix))) ->
  (forall nm hh, last <> TempOk nm hh) ->
  temp_loop step mk fuel s g nc dir prefix suffix last = (s', g', TempOk name h) ->
  view s name = None /\ view s' name <> None /\ unchanged_existing s s' /\ good s' /\
  shaped dir prefix suffix name.
Proof.
  induction fuel as [|fuel IH]; intros s g nc dir prefix suffix last s' g' name h Hmk Hg Hc Hlast H.
  - cbn [temp_loop] in H. inversion H. exfalso. now apply (Hlast name h).
  - cbn [temp_loop] in H. pose proof (tg_next_d9 g) as Hd9. destruct (tg_next g) as [d g1]. cbn [fst] in Hd9.
    set (nm := join2 dir (prefix ++ d ++ suffix)) in *.
    destruct (step s (mk nm)) as [s1 r] eqn:E.
    destruct r; try discriminate.
    + (* ROk: TempDir succeeded *)
      inversion H; subst s1 g1 name h.
      destruct (contract_ok _ _ _ _ _ Hmk Hg (Hc _ Hd9) E (or_introl eq_refl)) as [H1 [H2 [H3 H4]]].
      repeat split; try assumption. now exists d.
    + (* RErr *)
      destruct (contract_err _ _ _ _ _ Hmk Hg (Hc _ Hd9) E) as [Hv Hg1].
      destruct (is_exist e); [|discriminate].
      apply IH in H; [|exact Hmk | exact Hg1 | exact Hc | discriminate].
      destruct H as [H1 [H2 [H3 [H4 H5]]]]. repeat split; try assumption.
      * now rewrite <- Hv.
      * intros m Hm. rewrite <- Hv. apply H3. now rewrite Hv.
    + (* RHandle: TempFile succeeded *)
      inversion H; subst s1 g1 name h.
      destruct (contract_ok _ _ _ _ _ Hmk Hg (Hc _ Hd9) E (or_intror (ex_intro _ h0 eq_refl))) as [H1 [H2 [H3 H4]]].
      repeat split; try assumption. now exists d.
Qed.

(* a call that does not succeed leaves every entry as it was *)
Lemma temp_loop_failed mk fuel : forall s g nc dir prefix suffix last s' g' x,
  is_create mk -> good s -> (forall d, is_d9 d -> cand (join2 dir (prefix ++ d ++ suffix))) ->
  temp_loop step mk fuel s g nc dir prefix suffix last = (s', g', x) ->
  (forall nm hh, x <> TempOk nm hh) -> x <> TempPanic ->
  (forall m, view s' m = view s m) /\ good s'.
Proof.
  induction fuel as [|fuel IH]; intros s g nc dir prefix suffix last s' g' x Hmk Hg Hc H Hx Hp.
  - cbn [temp_loop] in H. inversion H; subst. now split.
  - cbn [temp_loop] in H. pose proof (tg_next_d9 g) as Hd9. destruct (tg_next g) as [d g1]. cbn [fst] in Hd9.
    set (nm := join2 dir (prefix ++ d ++ suffix)) in *.
    destruct (step s (mk nm)) as [s1 r] eqn:E.
    destruct r; try (inversion H; subst; congruence).
    destruct (contract_err _ _ _ _ _ Hmk Hg (Hc _ Hd9) E) as [Hv Hg1].
    destruct (is_exist e).
    + apply IH in H; try assumption. destruct H as [H1 H2]. split; [|exact H2].
      intros m. now rewrite H1, Hv.
    + inversion H; subst. now split.
Qed.

(* ---- successive calls ---- *)
Definition call_ok (c : tcall) : Prop :=
  let '(isfile, dir, prefix, suffix) := c in
  forall d, is_d9 d -> cand (join2 dir (prefix ++ d ++ suffix)).

Hypothesis create_file : is_create temp_file_op.
Hypothesis create_dir : is_create temp_dir_op.
(* the creating calls answer nil / a handle / an error, nothing else *)
Hypothesis contract_total : forall mk s n s' r, is_create mk -> good s -> cand n -> step s (mk n) = (s', r) ->
  r = ROk \/ (exists h, r = RHandle h) \/ exists e, r = RErr e.

Lemma is_create_tcall b : is_create (tcall_mk b).
Proof. destruct b; assumption. Qed.

Lemma temp_loop_no_panic mk fuel : forall s g nc dir prefix suffix last s' g' x,
  is_create mk -> good s -> (forall d, is_d9 d -> cand (join2 dir (prefix ++ d ++ suffix))) ->
  last <> TempPanic ->
  temp_loop step mk fuel s g nc dir prefix suffix last = (s', g', x) -> x <> TempPanic.
Proof.
  induction fuel as [|fuel IH]; intros s g nc dir prefix suffix last s' g' x Hmk Hg Hc Hl H.
  - cbn [temp_loop] in H. inversion H; now subst.
  - cbn [temp_loop] in H. pose proof (tg_next_d9 g) as Hd9. destruct (tg_next g) as [d g1]. cbn [fst] in Hd9.
    destruct (step s (mk (join2 dir (prefix ++ d ++ suffix)))) as [s1 r] eqn:E.
    destruct (contract_total _ _ _ _ _ Hmk Hg (Hc _ Hd9) E) as [-> | [[h ->] | [e ->]]].
    + inversion H; subst; discriminate.
    + inversion H; subst; discriminate.
    + destruct (contract_err _ _ _ _ _ Hmk Hg (Hc _ Hd9) E) as [_ Hg1]. destruct (is_exist e).
      * apply IH in H; try assumption. discriminate.
      * inversion H; subst; discriminate.
Qed.

Definition seq_names (xs : list temp_res) : list str := flat_map temp_ok_name xs.

(* any number of successive calls (successful or not): the names handed out are pairwise distinct,
   none of them existed at the start, all exist at the end, and every entry that existed at the
   start is unchanged at the end *)
Theorem temp_seq_distinct calls : forall s g s' g' xs,
  good s -> Forall call_ok calls -> temp_seq step s g calls = (s', g', xs) ->
  NoDup (seq_names xs) /\
  (forall n, In n (seq_names xs) -> view s n = None /\ view s' n <> None) /\
  unchanged_existing s s' /\ good s'.
Proof.
  induction calls as [|[[[isfile dir] prefix] suffix] calls IH]; intros s g s' g' xs Hg Hc H.
  - cbn [temp_seq] in H. inversion H; subst. cbn [seq_names flat_map].
    split; [constructor|]. split; [intros n []|]. split; [now intros m _ | exact Hg].
  - cbn [temp_seq] in H. inversion Hc as [|? ? Hc1 Hc2]; subst.
    destruct (temp_loop step (tcall_mk isfile) (Z.to_nat temp_attempts) s g 0 dir prefix suffix TempNil)
      as [[s1 g1] x] eqn:E1.
    destruct (temp_seq step s1 g1 calls) as [[s2 g2] xs2] eqn:E2. inversion H; subst s' g' xs; clear H.
    pose proof (is_create_tcall isfile) as Hmk.
    assert (Hstep : (forall m, view s m <> None -> view s1 m = view s m) /\ good s1 /\
                    (forall n, In n (temp_ok_name x) -> view s n = None /\ view s1 n <> None)).
    { assert (Hnil : forall nm hh, TempNil <> TempOk nm hh) by (intros; discriminate).
      assert (Hnp : TempNil <> TempPanic) by discriminate.
      pose proof (temp_loop_no_panic _ _ _ _ _ _ _ _ _ _ _ _ Hmk Hg Hc1 Hnp E1) as Hxp.
      destruct x as [nm h| e | |].
      - destruct (temp_loop_fresh _ _ _ _ _ _ _ _ _ _ _ _ _ Hmk Hg Hc1 Hnil E1) as [H1 [H2 [H3 [H4 _]]]].
        split; [exact H3|]. split; [exact H4|]. intros n [<-|[]]. now split.
      - assert (Hx1 : forall nm hh, TempErr e <> TempOk nm hh) by (intros; discriminate).
        destruct (temp_loop_failed _ _ _ _ _ _ _ _ _ _ _ _ Hmk Hg Hc1 E1 Hx1 Hxp) as [H1 H2].
        split; [now intros m _|]. split; [exact H2 | intros n []].
      - destruct (temp_loop_failed _ _ _ _ _ _ _ _ _ _ _ _ Hmk Hg Hc1 E1 Hnil Hxp) as [H1 H2].
        split; [now intros m _|]. split; [exact H2 | intros n []].
      - now contradiction Hxp. }
    destruct Hstep as [Hu1 [Hg1 Hn1]].
    destruct (IH _ _ _ _ _ Hg1 Hc2 E2) as [Hnd [Hnames [Hu2 Hg2]]].
    unfold seq_names. cbn [flat_map]. fold (seq_names xs2). repeat split.
    + (* distinct: a later name did not exist after the first call, the first name did *)
      destruct x as [nm h| e | |]; cbn [temp_ok_name app]; try exact Hnd.
      constructor; [|exact Hnd]. intros Hin. destruct (Hnames _ Hin) as [Hnone _].
      destruct (Hn1 nm (or_introl eq_refl)) as [_ Hex]. contradiction.
    + apply in_app_or in H as [H|H]; [now apply Hn1|].
      destruct (Hnames _ H) as [Hnone _]. destruct (view s n) eqn:Ev; [|reflexivity].
      rewrite <- Hnone. symmetry. rewrite <- Ev. apply Hu1. congruence.
    + apply in_app_or in H as [H|H]; [|now apply Hnames].
      destruct (Hn1 _ H) as [_ Hex]. rewrite (Hu2 _ Hex). exact Hex.
    + intros m Hm. rewrite Hu2; [now apply Hu1|]. rewrite Hu1; assumption.
    + exact Hg2.
Qed.

(* ---- concurrent callers: any interleaving of atomic attempts ---- *)
Definition contrib (c : tcaller) : list str := match tc_result c with Some x => temp_ok_name x | None => [] end.

Lemma conc_names_flat cs : conc_names cs = flat_map contrib cs.
Proof. reflexivity. Qed.

Lemma list_set_split {A} (l1 : list A) c c' l2 : list_set (length l1) c' (l1 ++ c :: l2) = l1 ++ c' :: l2.
Proof. induction l1 as [|x l1 IH]; cbn; [reflexivity | now rewrite IH]. Qed.

Lemma conc_names_same cs i c c' : nth_error cs i = Some c -> contrib c = [] -> contrib c' = [] ->
  conc_names (list_set i c' cs) = conc_names cs.
Proof.
  intros Hn Hc Hc'. destruct (nth_error_split _ _ Hn) as [l1 [l2 [-> <-]]].
  rewrite list_set_split, (conc_names_flat (l1 ++ c' :: l2)), (conc_names_flat (l1 ++ c :: l2)), !flat_map_app.
  cbn [flat_map]. now rewrite Hc, Hc'.
Qed.

Lemma conc_names_add cs i c c' nm : nth_error cs i = Some c -> contrib c = [] -> contrib c' = [nm] ->
  Add nm (conc_names cs) (conc_names (list_set i c' cs)).
Proof.
  intros Hn Hc Hc'. destruct (nth_error_split _ _ Hn) as [l1 [l2 [-> <-]]].
  rewrite list_set_split, (conc_names_flat (l1 ++ c' :: l2)), (conc_names_flat (l1 ++ c :: l2)), !flat_map_app.
  cbn [flat_map]. rewrite Hc, Hc'. cbn [app].
  apply Add_app.
Qed.

Lemma Forall_list_set {A} (P : A -> Prop) i c' cs : Forall P cs -> P c' -> Forall P (list_set i c' cs).
Proof.
  revert i; induction cs as [|x cs IH]; intros i Hf Hc; [destruct i; constructor|].
  inversion Hf; subst. destruct i; cbn [list_set]; constructor; auto.
Qed.

Definition caller_ok (c : tcaller) : Prop :=
  (forall d, is_d9 d -> cand (join2 (tc_dir c) (tc_prefix c ++ d ++ tc_suffix c))) /\
  (forall nm, tc_pending c = Some nm -> cand nm).

Definition cinv (s0 : St) (st : St * tgen * list tcaller) : Prop :=
  let '(s, g, cs) := st in
  good s /\ NoDup (conc_names cs) /\
  (forall n, In n (conc_names cs) -> view s0 n = None /\ view s n <> None) /\
  unchanged_existing s0 s /\ Forall caller_ok cs.

Lemma conc_event_inv s0 st ev : cinv s0 st -> cinv s0 (conc_event step st ev).
Proof.
  destruct st as [[s g] cs]. intros [Hg [Hnd [Hnm [Hun Hok]]]]. unfold conc_event.
  assert (Hsame : cinv s0 (s, g, cs)).
  { cbn [cinv]. split; [exact Hg|]. split; [exact Hnd|]. split; [exact Hnm|]. now split. }
  destruct ev as [i|i]; destruct (nth_error cs i) as [c|] eqn:Ec; try exact Hsame.
  - (* draw *)
    destruct (tc_result c) eqn:Er; [exact Hsame|]. destruct (tc_pending c) eqn:Ep; [exact Hsame|].
    destruct (tc_left c) as [|lft] eqn:El; [exact Hsame|].
    pose proof (tg_next_d9 g) as Hd9. destruct (tg_next g) as [d g1]. cbn [fst] in Hd9.
    assert (Hc : caller_ok c) by (rewrite Forall_forall in Hok; apply Hok; eapply nth_error_In; exact Ec).
    cbn [cinv]. rewrite (conc_names_same cs i c _ Ec); [|unfold contrib; now rewrite Er | reflexivity].
    repeat split; try assumption.
    + now apply Hnm.
    + now apply Hnm.
    + apply Forall_list_set; [exact Hok|]. destruct Hc as [Hc1 Hc2]. split; [exact Hc1|].
      cbn [tc_with tc_pending]. intros nm E. inversion E; subst. now apply Hc1.
  - (* try *)
    destruct (tc_result c) eqn:Er; [exact Hsame|]. destruct (tc_pending c) as [name|] eqn:Ep; [|exact Hsame].
    assert (Hc : caller_ok c) by (rewrite Forall_forall in Hok; apply Hok; eapply nth_error_In; exact Ec).
    destruct Hc as [Hc1 Hc2]. pose proof (Hc2 _ Ep) as Hcand.
    pose proof (is_create_tcall (tc_isfile c)) as Hmk.
    destruct (step s (tcall_mk (tc_isfile c) name)) as [s1 r] eqn:E.
    assert (Hc0 : contrib c = []) by (unfold contrib; now rewrite Er).
    assert (Hcok : forall pend nc lf res, pend = None -> caller_ok (tc_with c pend nc lf res)).
    { intros pend nc lf res ->. split; [exact Hc1 | intros nm; discriminate]. }
    assert (Hsucc : forall h, r = ROk \/ (exists hh, r = RHandle hh) ->
              cinv s0 (s1, g, list_set i (tc_with c None (tc_nconf c) (tc_left c) (Some (TempOk name h))) cs)).
    { intros h Hr. destruct (contract_ok _ _ _ _ _ Hmk Hg Hcand E Hr) as [H1 [H2 [H3 H4]]].
      pose proof (conc_names_add cs i c (tc_with c None (tc_nconf c) (tc_left c) (Some (TempOk name h))) name Ec Hc0 eq_refl) as Hadd.
      cbn [cinv]. split; [exact H4|]. split; [|split; [|split]].
      - apply (NoDup_Add Hadd). split; [exact Hnd|]. intros Hin. destruct (Hnm _ Hin) as [_ Hex]. contradiction.
      - intros n Hin. apply (Add_in Hadd) in Hin as [<-|Hin].
        + split; [|exact H2]. destruct (view s0 name) eqn:Ev; [|reflexivity].
          rewrite <- H1. symmetry. rewrite <- Ev. apply Hun. congruence.
        + destruct (Hnm _ Hin) as [Ha Hb]. split; [exact Ha|]. now rewrite (H3 _ Hb).
      - intros m Hm. rewrite H3; [now apply Hun|]. rewrite Hun; assumption.
      - apply Forall_list_set; [exact Hok | now apply Hcok]. }
    destruct (contract_total _ _ _ _ _ Hmk Hg Hcand E) as [-> | [[h ->] | [e ->]]].
    + apply Hsucc. now left.
    + apply Hsucc. right. now exists h.
    + destruct (contract_err _ _ _ _ _ Hmk Hg Hcand E) as [Hv Hg1].
      assert (Hfail : forall g2 c', contrib c' = [] -> caller_ok c' -> cinv s0 (s1, g2, list_set i c' cs)).
      { intros g2 c' Hc' Hok'. cbn [cinv]. rewrite (conc_names_same cs i c c' Ec Hc0 Hc').
        split; [exact Hg1|]. split; [exact Hnd|]. split; [|split].
        - intros n Hin. destruct (Hnm _ Hin) as [Ha Hb]. split; [exact Ha | now rewrite Hv].
        - intros m Hm. rewrite Hv. now apply Hun.
        - now apply Forall_list_set. }
      destruct (is_exist e).
      * apply Hfail; [|now apply Hcok]. unfold contrib. cbn [tc_with tc_result]. now destruct (tc_left c).
      * apply Hfail; [reflexivity | now apply Hcok].
Qed.

Lemma conc_names_start calls : conc_names (map tc_start calls) = [].
Proof.
  induction calls as [|[[[b d] p] q] calls IH]; [reflexivity|]. rewrite conc_names_flat in *. cbn [map flat_map].
  now rewrite IH.
Qed.

Lemma caller_ok_start c : call_ok c -> caller_ok (tc_start c).
Proof. destruct c as [[[b d] p] q]. intros H. split; [exact H | intros nm; discriminate]. Qed.

(* for EVERY schedule: the names handed out are pairwise distinct, none existed at the start, all
   exist at the end, and nothing that existed at the start was altered *)
Theorem conc_distinct calls schedule s g s' g' cs :
  good s -> Forall call_ok calls -> conc_run step s g calls schedule = (s', g', cs) ->
  NoDup (conc_names cs) /\
  (forall n, In n (conc_names cs) -> view s n = None /\ view s' n <> None) /\
  unchanged_existing s s'.
Proof.
  intros Hg Hc H. unfold conc_run in H.
  assert (Hinv : forall sched st, cinv s st -> cinv s (fold_left (conc_event step) sched st)).
  { induction sched as [|ev sched IH]; intros st Hst; [exact Hst|]. cbn [fold_left]. apply IH.
    now apply conc_event_inv. }
  assert (Hstart : cinv s (s, g, map tc_start calls)).
  { cbn [cinv]. rewrite conc_names_start. split; [exact Hg|]. split; [constructor|].
    split; [intros n []|]. split; [now intros m _|].
    rewrite Forall_forall in *. intros c Hin. apply in_map_iff in Hin as [c0 [<- Hin]].
    apply caller_ok_start. now apply Hc. }
  specialize (Hinv schedule _ Hstart). rewrite H in Hinv.
  destruct Hinv as [_ [H1 [H2 [H3 _]]]]. split; [exact H1|]. split; [exact H2 | exact H3].
Qed.

End Contract.

(* ------------------------------------------------------------------------------------ *)
(** * 3. MemMapFs honours the contract *)

(* what MemMapFs shows for a path: kind, bytes, mode, mtime *)
Definition mview (s : mst) (p : str) : option (bool * bytes * Z * Z) :=
  match lookup s (normalize_path p) with
  | None => None
  | Some f => Some (match get_node s f with
                    | Some n => (ndir n, ndata n, nmode n, nmtime n)
                    | None => (false, [], 0, 0)
                    end)
  end.

Lemma mview_none_stat s p : mview s p = None <-> snd (m_step s (Stat p)) = RErr (EW KNotExist).
Proof.
  unfold mview, m_step. cbn [m_step_raw]. unfold m_stat.
  destruct (lookup s (normalize_path p)) as [f|]; [|split; reflexivity].
  destruct (get_node s f); split; discriminate.
Qed.

Definition created (s s1 : mst) (name : str) (d : nat) (dn : node) : Prop :=
  let f := length (mheap s) in
  mdata s1 = alist_set name f (mdata s) /\ length (mheap s1) = S f /\
  (exists nf, get_node s1 f = Some nf) /\ get_node s1 d = Some (kid_added name f dn) /\
  (forall x, x <> d -> x <> f -> get_node s1 x = get_node s x).

(* the name is bound to a node (a directory or a regular file) *)
Definition node_present (s : mst) (k : str) : Prop :=
  exists d dn, lookup s k = Some d /\ get_node s d = Some dn.

Lemma created_facts s s1 name d dn :
  mem_wf s -> lookup s name = None -> normalize_path name = name ->
  get_node s d = Some dn -> ndir dn = true -> created s s1 name d dn ->
  mview s1 name <> None /\ (forall m, mview s m <> None -> mview s1 m = mview s m) /\ mem_wf s1 /\
  (forall k, node_present s k -> node_present s1 k).
Proof.
  intros Hwf Hnone Hnorm Hd Hhd [Hmd [Hlen [[nf Hnf] [Hdn Hoth]]]]. set (f := length (mheap s)) in *.
  assert (Hdlt : (d < f)%nat) by (apply get_node_lt in Hd; exact Hd).
  assert (Hl1 : forall k, lookup s1 k = if beqb k name then Some f else lookup s k).
  { intros k. unfold lookup. rewrite Hmd. apply alist_get_set. }
  assert (Hkid : forall dn0, ndir dn0 = true ->
            (ndir (kid_added name f dn0), ndata (kid_added name f dn0), nmode (kid_added name f dn0), nmtime (kid_added name f dn0))
            = (ndir dn0, ndata dn0, nmode dn0, nmtime dn0)).
  { intros dn0 H0. unfold kid_added, init_dir. destruct (nhasdir dn0); cbn; now rewrite ?H0. }
  repeat split.
  - unfold mview. rewrite Hnorm, Hl1, beqb_refl. discriminate.
  - intros m Hm. unfold mview in *. destruct (lookup s (normalize_path m)) as [x|] eqn:El; [|congruence].
    rewrite Hl1. destruct (beqb (normalize_path m) name) eqn:Eb.
    + apply beqb_true_iff in Eb. rewrite Eb in El. congruence.
    + rewrite El. f_equal. pose proof (Hwf _ _ El) as Hx. fold f in Hx.
      destruct (Nat.eq_dec x d) as [->|Hxd].
      * rewrite Hdn, Hd. now apply Hkid.
      * rewrite Hoth by lia. reflexivity.
  - intros k v Hk. rewrite Hl1 in Hk. rewrite Hlen. destruct (beqb k name).
    + inversion Hk. lia.
    + apply Hwf in Hk. fold f in Hk. lia.
  - intros k [x [nx [Hk Hx]]].
    assert (Hkn : beqb k name = false) by (apply beqb_false_iff; intros ->; congruence).
    exists x. destruct (Nat.eq_dec x d) as [->|Hxd].
    + exists (kid_added name f dn). rewrite Hl1, Hkn. now split.
    + exists nx. rewrite Hl1, Hkn. split; [exact Hk|].
      rewrite Hoth; [exact Hx | exact Hxd |]. apply get_node_lt in Hx. fold f in Hx. lia.
Qed.

Lemma tflags_excl : flag_has temp_flags o_excl && flag_has temp_flags o_create = true. Proof. reflexivity. Qed.
Lemma tflags_create : flag_has temp_flags o_create = true. Proof. reflexivity. Qed.
Lemma tflags_append : flag_has temp_flags o_append = false. Proof. reflexivity. Qed.
Lemma tflags_trunc : flag_has temp_flags o_trunc = false. Proof. reflexivity. Qed.
Lemma tflags_ro : (Z.land temp_flags memfs_access_mask =? 0) = false. Proof. reflexivity. Qed.

Definition bump (s : mst) : mst := mkM (mdata s) (mheap s) (mhandles s) (mclock s + 1).
Lemma m_step_bump s o : m_step s o = (bump (fst (m_step_raw s o)), snd (m_step_raw s o)).
Proof. unfold m_step. now destruct (m_step_raw s o). Qed.

Lemma get_bump s x : get_node (bump s) x = get_node s x. Proof. reflexivity. Qed.

(* O_CREATE|O_EXCL on an existing name: EEXIST, nothing changes *)
Lemma excl_open_existing s n perm : lookup s (normalize_path n) <> None ->
  m_step s (OpenFile n temp_flags perm) = (bump s, RErr (EW KExist)).
Proof.
  intros H. rewrite m_step_bump. cbn [m_step_raw]. unfold m_openfile. rewrite tflags_excl.
  destruct (lookup s (normalize_path n)); [reflexivity | congruence].
Qed.

Lemma set_file_mode_found' st nm m f :
  lookup st (normalize_path nm) = Some f -> set_file_mode st nm m = (upd_node st f (with_mode m), ROk).
Proof. intros H. unfold set_file_mode. now rewrite H. Qed.

(* ... on a free name whose parent directory is present: exactly that entry is created *)
Lemma excl_open_fresh s n perm d dn :
  let name := normalize_path n in
  lookup s name = None -> lookup s (parent_key name) = Some d -> get_node s d = Some dn -> ndir dn = true ->
  exists s1, m_step s (OpenFile n temp_flags perm) = (s1, RHandle (length (mhandles s))) /\
             created s s1 name d dn.
Proof.
  intros name Hnone Hp Hd Hdir.
  assert (Hne : parent_key name <> name) by (intros E; rewrite E in Hp; congruence).
  rewrite m_step_bump. cbn [m_step_raw]. unfold m_openfile. fold name.
  rewrite Hnone, tflags_create, (below_file_parent_dir s name d dn Hp Hd Hdir), tflags_append, tflags_trunc, tflags_ro. cbn [andb negb].
  rewrite m_create_node_attach.
  destruct (attach_parent_present s name (new_file name (mclock s)) 0 d dn eq_refl Hp Hd Hne)
    as [Hmd [Hhd [Hck [Hlen [Hf [Hdn Hoth]]]]]].
  set (f := length (mheap s)) in *. set (s3 := attach s name (new_file name (mclock s)) 0) in *.
  unfold alloc_handle. cbn [fst snd].
  match goal with |- context [set_file_mode ?st ?nm ?m] =>
    rewrite (set_file_mode_found' st nm m f) end.
  2:{ unfold name. rewrite normalize_idempotent. fold name. unfold lookup. cbn [mdata]. rewrite Hmd.
      apply alist_get_set_same. }
  cbn [fst snd]. rewrite Hhd. eexists. split; [reflexivity|].
  assert (Hdf : d <> f) by (apply get_node_lt in Hd; unfold f; lia).
  unfold created. fold f. split; [|split; [|split; [|split]]].
  - cbn [bump mdata]. now rewrite upd_node_data.
  - cbn [bump mheap]. now rewrite upd_node_heap_length.
  - eexists. rewrite get_bump. refine (get_upd_same _ _ _ _ _). exact Hf.
  - rewrite get_bump, (get_upd_other _ f d _ (not_eq_sym Hdf)). exact Hdn.
  - intros x Hxd Hxf. rewrite get_bump, (get_upd_other _ f x _ (not_eq_sym Hxf)).
    now apply (Hoth x).
Qed.

Lemma mkdir_existing s n perm : lookup s (normalize_path n) <> None ->
  m_step s (Mkdir n perm) = (bump s, RErr (EW KExist)).
Proof.
  intros H. rewrite m_step_bump. cbn [m_step_raw]. unfold m_mkdir.
  destruct (lookup s (normalize_path n)); [reflexivity | congruence].
Qed.

(* ... on a free name whose parent is a REGULAR FILE: ENOTDIR, nothing changes (memmap.go
   lockfreeBelowFile; before that repair the entry was created and the regular file became a directory) *)
Lemma excl_open_below_file s n perm d dn :
  let name := normalize_path n in
  lookup s name = None -> lookup s (parent_key name) = Some d -> get_node s d = Some dn -> ndir dn = false ->
  m_step s (OpenFile n temp_flags perm) = (bump s, RErr (EW KENOTDIR)).
Proof.
  intros name Hnone Hp Hd Hdir. rewrite m_step_bump. cbn [m_step_raw]. unfold m_openfile. fold name.
  now rewrite Hnone, tflags_create, (below_file_parent_file s name d dn Hp Hd Hdir).
Qed.

Lemma mkdir_below_file s n perm d dn :
  let name := normalize_path n in
  lookup s name = None -> lookup s (parent_key name) = Some d -> get_node s d = Some dn -> ndir dn = false ->
  m_step s (Mkdir n perm) = (bump s, RErr (EW KENOTDIR)).
Proof.
  intros name Hnone Hp Hd Hdir. rewrite m_step_bump. cbn [m_step_raw]. unfold m_mkdir. fold name.
  now rewrite Hnone, (below_file_parent_file s name d dn Hp Hd Hdir).
Qed.

Lemma mkdir_fresh s n perm d dn :
  let name := normalize_path n in
  lookup s name = None -> lookup s (parent_key name) = Some d -> get_node s d = Some dn -> ndir dn = true ->
  exists s1, m_step s (Mkdir n perm) = (s1, ROk) /\ created s s1 name d dn.
Proof.
  intros name Hnone Hp Hd Hdir.
  assert (Hne : parent_key name <> name) by (intros E; rewrite E in Hp; congruence).
  set (nd := with_mode (Z.lor mode_dir (Z.land perm chmod_bits)) (new_dir name (mclock s))).
  assert (Emk : m_mkdir s n perm =
                set_file_mode (attach s name nd (Z.land perm chmod_bits)) name (Z.lor (Z.land perm chmod_bits) mode_dir)).
  { unfold m_mkdir. fold name. rewrite Hnone, (below_file_parent_dir s name d dn Hp Hd Hdir). reflexivity. }
  rewrite m_step_bump. cbn [m_step_raw]. rewrite Emk.
  destruct (attach_parent_present s name nd (Z.land perm chmod_bits) d dn eq_refl Hp Hd Hne)
    as [Hmd [Hhd [Hck [Hlen [Hf [Hdn Hoth]]]]]].
  set (f := length (mheap s)) in *. set (s3 := attach s name nd (Z.land perm chmod_bits)) in *.
  rewrite (set_file_mode_found' s3 name _ f).
  2:{ unfold name. rewrite normalize_idempotent. fold name. unfold lookup. rewrite Hmd. apply alist_get_set_same. }
  cbn [fst snd]. eexists. split; [reflexivity|].
  assert (Hdf : d <> f) by (apply get_node_lt in Hd; unfold f; lia).
  unfold created. fold f. split; [|split; [|split; [|split]]].
  - cbn [bump mdata]. now rewrite upd_node_data.
  - cbn [bump mheap]. now rewrite upd_node_heap_length.
  - eexists. rewrite get_bump. refine (get_upd_same _ _ _ _ _). exact Hf.
  - rewrite get_bump, (get_upd_other _ f d _ (not_eq_sym Hdf)). exact Hdn.
  - intros x Hxd Hxf. rewrite get_bump, (get_upd_other _ f x _ (not_eq_sym Hxf)).
    now apply (Hoth x).
Qed.

Section MemInstance.
Variable dirs : str -> Prop.          (* the directories the calls name (effective, non-empty) *)

(* state invariant: the path map points into the heap and every such directory exists — as a
   directory, or as a regular file: then every attempt is refused with ENOTDIR *)
Definition mem_good (s : mst) : Prop :=
  mem_wf s /\ forall dir, dirs dir -> node_present s (normalize_path dir).
Definition mem_cand (n : str) : Prop :=
  exists dir b, dirs dir /\ dir <> [] /\ good_seg b /\ n = join2 dir b.
Definition mem_is_create (mk : str -> op) : Prop := mk = temp_file_op \/ mk = temp_dir_op.

Lemma mem_cand_parent s n : mem_good s -> mem_cand n ->
  normalize_path n = n /\
  exists d dn, lookup s (parent_key n) = Some d /\ get_node s d = Some dn.
Proof.
  intros [_ Hd] [dir [b [Hdir [Hne [Hb ->]]]]].
  destruct (join2_good_split dir b Hne Hb) as [_ [H2 [H3 _]]]. split; [exact H3|].
  unfold parent_key. rewrite H2, normalize_clean. exact (Hd _ Hdir).
Qed.

Lemma mview_none s n : normalize_path n = n -> (mview s n = None <-> lookup s n = None).
Proof. intros H. unfold mview. rewrite H. destruct (lookup s n); split; congruence. Qed.

Lemma mem_good_bump s : mem_good s -> mem_good (bump s).
Proof. now intros H. Qed.

(* the one case analysis behind the three contract clauses *)
Lemma mem_create_cases mk s n s' r : mem_is_create mk -> mem_good s -> mem_cand n ->
  m_step s (mk n) = (s', r) ->
  (lookup s n <> None /\ r = RErr (EW KExist) /\ s' = bump s) \/
  (lookup s n = None /\ r = RErr (EW KENOTDIR) /\ s' = bump s) \/
  (lookup s n = None /\ (r = ROk \/ exists h, r = RHandle h) /\
   exists d dn, get_node s d = Some dn /\ ndir dn = true /\ created s s' n d dn).
Proof.
  intros Hmk Hg Hc H. destruct (mem_cand_parent s n Hg Hc) as [Hn [d [dn [Hp Hd]]]].
  destruct (lookup s n) as [x|] eqn:El.
  - left. split; [discriminate|].
    assert (Hex : lookup s (normalize_path n) <> None) by (rewrite Hn, El; discriminate).
    destruct Hmk as [-> | ->]; unfold temp_file_op, temp_dir_op in H.
    + rewrite (excl_open_existing _ _ _ Hex) in H. inversion H; now subst.
    + rewrite (mkdir_existing _ _ _ Hex) in H. inversion H; now subst.
  - right.
    assert (Hnone : lookup s (normalize_path n) = None) by now rewrite Hn.
    assert (Hp' : lookup s (parent_key (normalize_path n)) = Some d) by now rewrite Hn.
    destruct (ndir dn) eqn:Hh.
    + right. split; [reflexivity|].
      destruct Hmk as [-> | ->]; unfold temp_file_op, temp_dir_op in H.
      * destruct (excl_open_fresh s n 384 d dn Hnone Hp' Hd Hh) as [s1 [E Hcr]]. rewrite E in H. inversion H; subst.
        split; [right; now eexists|]. exists d, dn. rewrite Hn in Hcr. split; [exact Hd|]. split; [exact Hh | exact Hcr].
      * destruct (mkdir_fresh s n 448 d dn Hnone Hp' Hd Hh) as [s1 [E Hcr]]. rewrite E in H. inversion H; subst.
        split; [now left|]. exists d, dn. rewrite Hn in Hcr. split; [exact Hd|]. split; [exact Hh | exact Hcr].
    + left. split; [reflexivity|].
      destruct Hmk as [-> | ->]; unfold temp_file_op, temp_dir_op in H.
      * rewrite (excl_open_below_file s n 384 d dn Hnone Hp' Hd Hh) in H. inversion H; now subst.
      * rewrite (mkdir_below_file s n 448 d dn Hnone Hp' Hd Hh) in H. inversion H; now subst.
Qed.

Lemma mem_contract_ok mk s n s' r : mem_is_create mk -> mem_good s -> mem_cand n -> m_step s (mk n) = (s', r) ->
  (r = ROk \/ exists h, r = RHandle h) ->
  mview s n = None /\ mview s' n <> None /\ (forall m, mview s m <> None -> mview s' m = mview s m) /\ mem_good s'.
Proof.
  intros Hmk Hg Hc H Hr. destruct (mem_cand_parent s n Hg Hc) as [Hn _].
  destruct (mem_create_cases _ _ _ _ _ Hmk Hg Hc H) as [[_ [-> _]] | [[_ [-> _]] | [Hnone [_ [d [dn [Hd [Hh Hcr]]]]]]]].
  - destruct Hr as [Hr | [h Hr]]; discriminate.
  - destruct Hr as [Hr | [h Hr]]; discriminate.
  - destruct Hg as [Hwf Hdirs].
    destruct (created_facts s s' n d dn Hwf Hnone Hn Hd Hh Hcr) as [H1 [H2 [H3 H4]]].
    split; [now apply mview_none|]. split; [exact H1|]. split; [exact H2|]. split; [exact H3|].
    intros dir Hdir. apply H4. now apply Hdirs.
Qed.

Lemma mem_contract_err mk s n s' e : mem_is_create mk -> mem_good s -> mem_cand n ->
  m_step s (mk n) = (s', RErr e) -> (forall m, mview s' m = mview s m) /\ mem_good s'.
Proof.
  intros Hmk Hg Hc H.
  destruct (mem_create_cases _ _ _ _ _ Hmk Hg Hc H) as [[_ [_ ->]] | [[_ [_ ->]] | [_ [[Hr | [h Hr]] _]]]]; try discriminate.
  - split; [reflexivity | now apply mem_good_bump].
  - split; [reflexivity | now apply mem_good_bump].
Qed.

Lemma mem_contract_total mk s n s' r : mem_is_create mk -> mem_good s -> mem_cand n -> m_step s (mk n) = (s', r) ->
  r = ROk \/ (exists h, r = RHandle h) \/ exists e, r = RErr e.
Proof.
  intros Hmk Hg Hc H.
  destruct (mem_create_cases _ _ _ _ _ Hmk Hg Hc H) as [[_ [-> _]] | [[_ [-> _]] | [_ [[-> | [h ->]] _]]]].
  - right. right. now eexists.
  - right. right. now eexists.
  - now left.
  - right. left. now eexists.
Qed.

(* a failed exclusive create leaves path map and nodes exactly as they were; the error is EEXIST
   (the loop goes on) or ENOTDIR (the directory is a regular file: the loop stops) *)
Lemma mem_failed_create_view mk s n s' e : mem_is_create mk -> mem_good s -> mem_cand n ->
  m_step s (mk n) = (s', RErr e) -> fs_view s' = fs_view s /\ (is_exist e = true \/ e = EW KENOTDIR).
Proof.
  intros Hmk Hg Hc H.
  destruct (mem_create_cases _ _ _ _ _ Hmk Hg Hc H) as [[_ [Hr ->]] | [[_ [Hr ->]] | [_ [[Hr | [h Hr]] _]]]]; try discriminate.
  - inversion Hr. split; [reflexivity | now left].
  - inversion Hr. split; [reflexivity | now right].
Qed.

End MemInstance.

(* ------------------------------------------------------------------------------------ *)
(** * the theorems for TempFile / TempDir *)

(* over any filesystem honouring the contract *)
Section AbstractTheorems.
Context {St V : Type} (step : St -> op -> St * res) (view : St -> str -> option V).
Variable is_create : (str -> op) -> Prop.
Variable good : St -> Prop.
Variable cand : str -> Prop.
Hypothesis contract_ok : forall mk s n s' r, is_create mk -> good s -> cand n -> step s (mk n) = (s', r) ->
  (r = ROk \/ exists h, r = RHandle h) ->
  view s n = None /\ view s' n <> None /\ unchanged_existing view s s' /\ good s'.
Hypothesis contract_err : forall mk s n s' e, is_create mk -> good s -> cand n -> step s (mk n) = (s', RErr e) ->
  (forall m, view s' m = view s m) /\ good s'.
Hypothesis create_file : is_create temp_file_op.
Hypothesis create_dir : is_create temp_dir_op.

Definition eff_dir (ostmp dir : str) : str := if is_empty dir then ostmp else dir.

Theorem temp_file_fresh_shaped ostmp s g dir pattern s' g' name h :
  good s ->
  (forall d, is_d9 d -> cand (join2 (eff_dir ostmp dir)
                                (fst (temp_prefix_suffix pattern) ++ d ++ snd (temp_prefix_suffix pattern)))) ->
  temp_file step ostmp s g dir pattern = (s', g', TempOk name h) ->
  view s name = None /\ view s' name <> None /\ unchanged_existing view s s' /\
  shaped (eff_dir ostmp dir) (fst (temp_prefix_suffix pattern)) (snd (temp_prefix_suffix pattern)) name.
Proof.
  intros Hg Hc H. unfold temp_file in H. fold (eff_dir ostmp dir) in H.
  destruct (temp_refused pattern); [discriminate|].
  destruct (temp_prefix_suffix pattern) as [prefix suffix]. cbn [fst snd] in *.
  assert (Hnil : forall nm hh, TempNil <> TempOk nm hh) by (intros; discriminate).
  destruct (temp_loop_fresh step view is_create good cand contract_ok contract_err _ _ _ _ _ _ _ _ _ _ _ _ _
              create_file Hg Hc Hnil H) as [H1 [H2 [H3 [_ H5]]]].
  now repeat split.
Qed.

Theorem temp_dir_fresh_shaped ostmp s g dir prefix s' g' name h :
  good s ->
  (forall d, is_d9 d -> cand (join2 (eff_dir ostmp dir) (prefix ++ d ++ []))) ->
  temp_dir step ostmp s g dir prefix = (s', g', TempOk name h) ->
  view s name = None /\ view s' name <> None /\ unchanged_existing view s s' /\
  shaped (eff_dir ostmp dir) prefix [] name.
Proof.
  intros Hg Hc H. unfold temp_dir in H. fold (eff_dir ostmp dir) in H.
  destruct (temp_refused prefix); [discriminate|].
  assert (Hnil : forall nm hh, TempNil <> TempOk nm hh) by (intros; discriminate).
  destruct (temp_loop_fresh step view is_create good cand contract_ok contract_err _ _ _ _ _ _ _ _ _ _ _ _ _
              create_dir Hg Hc Hnil H) as [H1 [H2 [H3 [_ H5]]]].
  now repeat split.
Qed.

End AbstractTheorems.

(* on MemMapFs *)
Definition call_sane (s : mst) (c : tcall) : Prop :=
  let '(isfile, dir, prefix, suffix) := c in
  dir <> [] /\ slash_free prefix /\ slash_free suffix /\ node_present s (normalize_path dir).

Definition call_dir (c : tcall) : str := let '(_, dir, _, _) := c in dir.

Lemma mem_calls_ok s calls : mem_wf s -> Forall (call_sane s) calls ->
  mem_good (fun x => In x (map call_dir calls)) s /\
  Forall (call_ok (mem_cand (fun x => In x (map call_dir calls)))) calls.
Proof.
  intros Hwf Hs. split.
  - split; [exact Hwf|]. intros dir Hin. apply in_map_iff in Hin as [[[[b d] p] q] [<- Hin]].
    rewrite Forall_forall in Hs. now destruct (Hs _ Hin) as [_ [_ [_ H]]].
  - rewrite Forall_forall in *. intros [[[b d] p] q] Hin dd Hdd.
    destruct (Hs _ Hin) as [H1 [H2 [H3 _]]]. exists d, (p ++ dd ++ q). repeat split; try assumption.
    + apply in_map_iff. now exists (b, d, p, q).
    + now apply temp_base_good.
    + now apply temp_base_good.
    + now apply temp_base_good.
    + now apply temp_base_good.
Qed.

Theorem temp_file_mem ostmp s g dir pattern s' g' name h :
  let dir1 := eff_dir ostmp dir in
  let prefix := fst (temp_prefix_suffix pattern) in let suffix := snd (temp_prefix_suffix pattern) in
  mem_wf s -> call_sane s (true, dir1, prefix, suffix) ->
  temp_file m_step ostmp s g dir pattern = (s', g', TempOk name h) ->
  mview s name = None /\ mview s' name <> None /\
  (forall m, mview s m <> None -> mview s' m = mview s m) /\
  path_dir name = clean dir1 /\ exists d, is_d9 d /\ snd (path_split name) = prefix ++ d ++ suffix.
Proof.
  intros dir1 prefix suffix Hwf Hs H. pose proof Hs as [Hne [Hp [Hsf Hd]]].
  destruct (mem_calls_ok s [(true, dir1, prefix, suffix)] Hwf (Forall_cons _ Hs (Forall_nil _))) as [Hg Hc].
  set (dirs := fun x => In x (map call_dir [(true, dir1, prefix, suffix)])) in *.
  inversion Hc as [|? ? Hc1 _]; subst. cbn [call_ok] in Hc1.
  destruct (temp_file_fresh_shaped m_step mview mem_is_create (mem_good dirs) (mem_cand dirs)
              (mem_contract_ok dirs) (mem_contract_err dirs) (or_introl eq_refl)
              ostmp s g dir pattern s' g' name h Hg Hc1 H) as [H1 [H2 [H3 H4]]].
  split; [exact H1|]. split; [exact H2|]. split; [exact H3|].
  now apply shaped_direct_child.
Qed.

Theorem temp_dir_mem ostmp s g dir prefix s' g' name h :
  let dir1 := eff_dir ostmp dir in
  mem_wf s -> call_sane s (false, dir1, prefix, []) ->
  temp_dir m_step ostmp s g dir prefix = (s', g', TempOk name h) ->
  mview s name = None /\ mview s' name <> None /\
  (forall m, mview s m <> None -> mview s' m = mview s m) /\
  path_dir name = clean dir1 /\ exists d, is_d9 d /\ snd (path_split name) = prefix ++ d ++ [].
Proof.
  intros dir1 Hwf Hs H. pose proof Hs as [Hne [Hp [Hsf Hd]]].
  destruct (mem_calls_ok s [(false, dir1, prefix, [])] Hwf (Forall_cons _ Hs (Forall_nil _))) as [Hg Hc].
  set (dirs := fun x => In x (map call_dir [(false, dir1, prefix, [])])) in *.
  inversion Hc as [|? ? Hc1 _]; subst. cbn [call_ok] in Hc1.
  destruct (temp_dir_fresh_shaped m_step mview mem_is_create (mem_good dirs) (mem_cand dirs)
              (mem_contract_ok dirs) (mem_contract_err dirs) (or_intror eq_refl)
              ostmp s g dir prefix s' g' name h Hg Hc1 H) as [H1 [H2 [H3 H4]]].
  split; [exact H1|]. split; [exact H2|]. split; [exact H3|].
  now apply shaped_direct_child.
Qed.

Theorem temp_seq_mem calls s g s' g' xs :
  mem_wf s -> Forall (call_sane s) calls -> temp_seq m_step s g calls = (s', g', xs) ->
  NoDup (seq_names xs) /\
  (forall n, In n (seq_names xs) -> mview s n = None /\ mview s' n <> None) /\
  (forall m, mview s m <> None -> mview s' m = mview s m).
Proof.
  intros Hwf Hs H. destruct (mem_calls_ok s calls Hwf Hs) as [Hg Hc].
  set (dirs := fun x => In x (map call_dir calls)) in *.
  destruct (temp_seq_distinct m_step mview mem_is_create (mem_good dirs) (mem_cand dirs)
              (mem_contract_ok dirs) (mem_contract_err dirs) (or_introl eq_refl) (or_intror eq_refl)
              (mem_contract_total dirs) calls s g s' g' xs Hg Hc H) as [H1 [H2 [H3 _]]].
  split; [exact H1|]. split; [exact H2 | exact H3].
Qed.

Theorem conc_mem calls schedule s g s' g' cs :
  mem_wf s -> Forall (call_sane s) calls -> conc_run m_step s g calls schedule = (s', g', cs) ->
  NoDup (conc_names cs) /\
  (forall n, In n (conc_names cs) -> mview s n = None /\ mview s' n <> None) /\
  (forall m, mview s m <> None -> mview s' m = mview s m).
Proof.
  intros Hwf Hs H. destruct (mem_calls_ok s calls Hwf Hs) as [Hg Hc].
  set (dirs := fun x => In x (map call_dir calls)) in *.
  exact (conc_distinct m_step mview mem_is_create (mem_good dirs) (mem_cand dirs)
              (mem_contract_ok dirs) (mem_contract_err dirs) (or_introl eq_refl) (or_intror eq_refl)
              (mem_contract_total dirs) calls schedule s g s' g' cs Hg Hc H).
Qed.

(* ------------------------------------------------------------------------------------ *)
(** * the requested directory is a REGULAR FILE: nothing is created, nothing changes *)
(* (finding temp:altered-existing:parent-is-file before MemMapFs got its ancestor check: TempFile(fs,
   "/w/iam", "t*") with /w/iam a regular file succeeded and turned that file into a directory) *)

Definition is_file_node (s : mst) (k : str) : Prop :=
  exists d dn, lookup s k = Some d /\ get_node s d = Some dn /\ ndir dn = false.

Lemma is_file_node_bump s k : is_file_node s k -> is_file_node (bump s) k.
Proof. now intros H. Qed.

(* one attempt: EEXIST (a name below the regular file exists: only in a state no sequence of calls
   reaches any more) or ENOTDIR; the state only ticks *)
Lemma create_below_file_step mk s dir b :
  mem_is_create mk -> dir <> [] -> good_seg b -> is_file_node s (normalize_path dir) ->
  exists e, m_step s (mk (join2 dir b)) = (bump s, RErr e) /\ (e = EW KExist \/ e = EW KENOTDIR).
Proof.
  intros Hmk Hne Hb (d & dn & Hl & Hn & Hd).
  destruct (join2_good_split dir b Hne Hb) as [_ [H2 [H3 _]]]. set (n := join2 dir b) in *.
  assert (Hp : lookup s (parent_key (normalize_path n)) = Some d).
  { rewrite H3. unfold parent_key. now rewrite H2, normalize_clean. }
  destruct (lookup s (normalize_path n)) as [x|] eqn:El.
  - exists (EW KExist). split; [|now left].
    assert (Hex : lookup s (normalize_path n) <> None) by congruence.
    destruct Hmk as [-> | ->]; [apply (excl_open_existing _ _ _ Hex) | apply (mkdir_existing _ _ _ Hex)].
  - exists (EW KENOTDIR). split; [|now right].
    destruct Hmk as [-> | ->]; [now apply (excl_open_below_file s n 384 d dn) | now apply (mkdir_below_file s n 448 d dn)].
Qed.

Lemma temp_loop_below_file mk dir prefix suffix :
  mem_is_create mk -> dir <> [] -> slash_free prefix -> slash_free suffix ->
  forall fuel s g nc last s' g' x,
  is_file_node s (normalize_path dir) -> (forall nm h, last <> TempOk nm h) ->
  temp_loop m_step mk fuel s g nc dir prefix suffix last = (s', g', x) ->
  (forall nm h, x <> TempOk nm h) /\ fs_view s' = fs_view s /\
  (x = last \/ x = TempErr (EW KExist) \/ x = TempErr (EW KENOTDIR)).
Proof.
  intros Hmk Hne Hp Hs.
  assert (HnotokE : forall nm h, TempErr (EW KExist) <> TempOk nm h) by (intros; discriminate).
  induction fuel as [|fuel IH]; intros s g nc last s' g' x Hf Hlast H.
  - cbn [temp_loop] in H. inversion H; subst. split; [exact Hlast|]. split; [reflexivity | now left].
  - cbn [temp_loop] in H. pose proof (tg_next_d9 g) as Hd9. destruct (tg_next g) as [d g1]. cbn [fst] in Hd9.
    destruct (create_below_file_step mk s dir (prefix ++ d ++ suffix) Hmk Hne (temp_base_good _ _ _ Hp Hs Hd9) Hf)
      as (e & E & [-> | ->]); rewrite E in H.
    + cbn [is_exist ek EW] in H.
      destruct (IH _ _ _ _ _ _ _ (is_file_node_bump _ _ Hf) HnotokE H) as (H1 & H2 & H3).
      split; [exact H1|]. split; [exact H2|]. right. destruct H3 as [->|H3]; [now left | exact H3].
    + cbn [is_exist ek EW] in H. inversion H; subst. split; [intros; discriminate|]. split; [reflexivity|]. right. now right.
Qed.

(* TempFile / TempDir into a "directory" that is a regular file never hand out a name, return an
   error (ENOTDIR; EEXIST only if all 10000 candidates exist below that file) and leave the path map
   and every node — that regular file included — exactly as they were *)
Theorem temp_file_dir_is_file ostmp s g dir pattern s' g' x :
  let dir1 := eff_dir ostmp dir in
  let prefix := fst (temp_prefix_suffix pattern) in let suffix := snd (temp_prefix_suffix pattern) in
  dir1 <> [] -> slash_free prefix -> slash_free suffix -> is_file_node s (normalize_path dir1) ->
  temp_file m_step ostmp s g dir pattern = (s', g', x) ->
  fs_view s' = fs_view s /\ exists e, x = TempErr e.
Proof.
  intros dir1 prefix suffix Hne Hp Hs Hf H.
  assert (HnotokE : forall nm h, TempErr (EW KExist) <> TempOk nm h) by (intros; discriminate).
  assert (HnotokN : forall nm h, TempNil <> TempOk nm h) by (intros; discriminate).
  unfold temp_file in H. fold (eff_dir ostmp dir) in H. fold dir1 in H.
  destruct (temp_refused pattern); [inversion H; subst; split; [reflexivity | now eexists]|].
  unfold prefix, suffix in *. destruct (temp_prefix_suffix pattern) as [pre suf]. cbn [fst snd] in *.
  destruct (temp_loop_below_file temp_file_op dir1 pre suf (or_introl eq_refl) Hne Hp Hs _ _ _ _ _ _ _ _ Hf HnotokN H) as (_ & Hv & Hx).
  split; [exact Hv|]. assert (Hat : (0 < Z.to_nat temp_attempts)%nat) by (vm_compute; lia).
  destruct Hx as [-> | [-> | ->]]; [|now eexists | now eexists].
  exfalso. destruct (Z.to_nat temp_attempts) as [|n] eqn:En; [lia|]. clear Hat.
  cbn [temp_loop] in H. pose proof (tg_next_d9 g) as Hd9. destruct (tg_next g) as [d g1]. cbn [fst] in Hd9.
  destruct (create_below_file_step temp_file_op s dir1 (pre ++ d ++ suf) (or_introl eq_refl) Hne (temp_base_good _ _ _ Hp Hs Hd9) Hf)
    as (e & E & [-> | ->]); rewrite E in H; cbn [is_exist ek EW] in H.
  - destruct (temp_loop_below_file temp_file_op dir1 pre suf (or_introl eq_refl) Hne Hp Hs _ _ _ _ _ _ _ _ (is_file_node_bump _ _ Hf) HnotokE H) as (_ & _ & [Hx | [Hx | Hx]]); discriminate.
  - inversion H.
Qed.

Theorem temp_dir_dir_is_file ostmp s g dir prefix s' g' x :
  let dir1 := eff_dir ostmp dir in
  dir1 <> [] -> slash_free prefix -> is_file_node s (normalize_path dir1) ->
  temp_dir m_step ostmp s g dir prefix = (s', g', x) ->
  fs_view s' = fs_view s /\ exists e, x = TempErr e.
Proof.
  intros dir1 Hne Hp Hf H.
  assert (HnotokE : forall nm h, TempErr (EW KExist) <> TempOk nm h) by (intros; discriminate).
  assert (HnotokN : forall nm h, TempNil <> TempOk nm h) by (intros; discriminate).
  unfold temp_dir in H. fold (eff_dir ostmp dir) in H. fold dir1 in H.
  destruct (temp_refused prefix); [inversion H; subst; split; [reflexivity | now eexists]|].
  assert (Hs : slash_free []) by (intros []).
  destruct (temp_loop_below_file temp_dir_op dir1 prefix [] (or_intror eq_refl) Hne Hp Hs _ _ _ _ _ _ _ _ Hf HnotokN H) as (_ & Hv & Hx).
  split; [exact Hv|]. assert (Hat : (0 < Z.to_nat temp_attempts)%nat) by (vm_compute; lia).
  destruct Hx as [-> | [-> | ->]]; [|now eexists | now eexists].
  exfalso. destruct (Z.to_nat temp_attempts) as [|n] eqn:En; [lia|]. clear Hat.
  cbn [temp_loop] in H. pose proof (tg_next_d9 g) as Hd9. destruct (tg_next g) as [d g1]. cbn [fst] in Hd9.
  destruct (create_below_file_step temp_dir_op s dir1 (prefix ++ d ++ []) (or_intror eq_refl) Hne (temp_base_good _ _ _ Hp Hs Hd9) Hf)
    as (e & E & [-> | ->]); rewrite E in H; cbn [is_exist ek EW] in H.
  - destruct (temp_loop_below_file temp_dir_op dir1 prefix [] (or_intror eq_refl) Hne Hp Hs _ _ _ _ _ _ _ _ (is_file_node_bump _ _ Hf) HnotokE H) as (_ & _ & [Hx | [Hx | Hx]]); discriminate.
  - inversion H.
Qed.
